import MayVerif.Proof.Queue.Spmc.RelLemmas
namespace MayVerif.Spmc
local notation "Tid" => Nat
local notation "Bid" => Nat
local notation "Qid" => Nat
local notation "Val" => Nat

set_option hygiene false in
local macro "fin_pc" : tactic => `(tactic| (
  constructor
  case an => (sR; aS; have hx := h.an; simp only [BSZ] at hx ⊢; first | exact hx | grind [upd, SpmcA.upd, BSZ, newBlock, mkLoc, locOf, ph] | grind (splits := 25) [upd, SpmcA.upd, BSZ, newBlock, mkLoc, locOf, ph])
  case tail => (sR; aS; have hx := h.tail; simp only [BSZ] at hx ⊢; first | exact hx | grind [upd, SpmcA.upd, BSZ, newBlock, mkLoc, locOf, ph] | grind (splits := 25) [upd, SpmcA.upd, BSZ, newBlock, mkLoc, locOf, ph])
  case lock => (sR; aS; have hx := h.lock; simp only [BSZ] at hx ⊢; first | exact hx | grind [upd, SpmcA.upd, BSZ, newBlock, mkLoc, locOf, ph] | grind (splits := 25) [upd, SpmcA.upd, BSZ, newBlock, mkLoc, locOf, ph])
  case head => (sR; aS; have hx := h.head; simp only [BSZ] at hx ⊢; first | exact hx | grind [upd, SpmcA.upd, BSZ, newBlock, mkLoc, locOf, ph] | grind (splits := 25) [upd, SpmcA.upd, BSZ, newBlock, mkLoc, locOf, ph])
  case pcs => (sR; (first | refine pcs_frame0 n sh.blks _ pcs as t _ h.pcs ?_ ?_ | refine pcs_frame n sh.blks _ pcs as t _ _ _ _ _ h.pcs ?_ ?_) <;> first
    | (intro t' l' hne hl hp; first | rfl | (have hb := hS.lhb t' l' hl hp; simp only [BSZ] at hb; grind [upd, newBlock]))
    | (intro q' hq'; simp only [hpc, absPc, pcQ, absOn]; first | rfl | grind [mkLoc]))
  case slot => (sR; aS; have hx := h.slot; simp only [BSZ] at hx ⊢; first | exact hx | grind [upd, SpmcA.upd, BSZ, newBlock, mkLoc, locOf, ph] | grind (splits := 25) [upd, SpmcA.upd, BSZ, newBlock, mkLoc, locOf, ph])
  case fut => (sR; aS; have hx := h.fut; simp only [BSZ] at hx ⊢; first | exact hx | grind [upd, SpmcA.upd, BSZ, newBlock, mkLoc, locOf, ph] | grind (splits := 25) [upd, SpmcA.upd, BSZ, newBlock, mkLoc, locOf, ph])
  case used => (sR; aS; have hx := h.used; simp only [BSZ] at hx ⊢; first | exact hx | grind [upd, SpmcA.upd, BSZ, newBlock, mkLoc, locOf, ph] | grind (splits := 25) [upd, SpmcA.upd, BSZ, newBlock, mkLoc, locOf, ph])
  case fr => (sR; aS; have hx := h.fr; simp only [BSZ] at hx ⊢; first | exact hx | grind [upd, SpmcA.upd, BSZ, newBlock, mkLoc, locOf, ph] | grind (splits := 25) [upd, SpmcA.upd, BSZ, newBlock, mkLoc, locOf, ph])
  case tfree => (sR; aS; have hx := h.tfree; simp only [BSZ] at hx ⊢; first | exact hx | grind [upd, SpmcA.upd, BSZ, newBlock, mkLoc, locOf, ph] | grind (splits := 25) [upd, SpmcA.upd, BSZ, newBlock, mkLoc, locOf, ph])
  case tfu => (sR; aS; have hx := h.tfu; simp only [BSZ] at hx ⊢; first | exact hx | grind [upd, SpmcA.upd, BSZ, newBlock, mkLoc, locOf, ph] | grind (splits := 25) [upd, SpmcA.upd, BSZ, newBlock, mkLoc, locOf, ph])
  case d3 => (sR; aS; have hx := h.d3; simp only [BSZ] at hx ⊢; first | exact hx | grind [upd, SpmcA.upd, BSZ, newBlock, mkLoc, locOf, ph] | grind (splits := 25) [upd, SpmcA.upd, BSZ, newBlock, mkLoc, locOf, ph])
  case gcnt => (sR; aS; have hx := h.gcnt; simp only [BSZ] at hx ⊢; first | exact hx | grind [upd, SpmcA.upd, BSZ, newBlock, mkLoc, locOf, ph] | grind (splits := 25) [upd, SpmcA.upd, BSZ, newBlock, mkLoc, locOf, ph])
  case gval => (sR; aS; have hx := h.gval; simp only [BSZ] at hx ⊢; first | exact hx | grind [upd, SpmcA.upd, BSZ, newBlock, mkLoc, locOf, ph] | grind (splits := 25) [upd, SpmcA.upd, BSZ, newBlock, mkLoc, locOf, ph])
  case olog => (sR; aS; have hx := h.olog; simp only [BSZ] at hx ⊢; first | exact hx | grind [upd, SpmcA.upd, BSZ, newBlock, mkLoc, locOf, ph] | grind (splits := 25) [upd, SpmcA.upd, BSZ, newBlock, mkLoc, locOf, ph])
  case uaf => (sR; aS; have hx := h.uaf; simp only [BSZ] at hx ⊢; first | exact hx | grind [upd, SpmcA.upd, BSZ, newBlock, mkLoc, locOf, ph] | grind (splits := 25) [upd, SpmcA.upd, BSZ, newBlock, mkLoc, locOf, ph])
  case dfree => (sR; aS; have hx := h.dfree; simp only [BSZ] at hx ⊢; first | exact hx | grind [upd, SpmcA.upd, BSZ, newBlock, mkLoc, locOf, ph] | grind (splits := 25) [upd, SpmcA.upd, BSZ, newBlock, mkLoc, locOf, ph])
  case uninit => (sR; aS; have hx := h.uninit; simp only [BSZ] at hx ⊢; first | exact hx | grind [upd, SpmcA.upd, BSZ, newBlock, mkLoc, locOf, ph] | grind (splits := 25) [upd, SpmcA.upd, BSZ, newBlock, mkLoc, locOf, ph])
  case unpub => (sR; aS; have hx := h.unpub; simp only [BSZ] at hx ⊢; first | exact hx | grind [upd, SpmcA.upd, BSZ, newBlock, mkLoc, locOf, ph] | grind (splits := 25) [upd, SpmcA.upd, BSZ, newBlock, mkLoc, locOf, ph])
  ))

set_option maxHeartbeats 1600000 in
theorem rel_d3 (n : Nat) (sh : Sh) (pcs : Tid → Pc) (t : Tid) (e : Env) (q : Qid) (b : Bid) (as : Nat → SpmcA.St)
    (hS : InvS ⟨n, sh, pcs⟩) (hG : InvG ⟨n, sh, pcs⟩) (h : Rel ⟨n, sh, pcs⟩ as) (hA : ∀ q, q < n → SpmcA.Inv (as q))
    (hg : guard ⟨n, sh, pcs⟩ t e = true) (ht : t < n)
    (hpc : pcs t = .d3 q b) (sh' : Sh) (pc' : Pc)
    (hts : tstep sh t (.d3 q b) e = some (sh', pc')) (hS' : InvS ⟨n, sh', upd pcs t pc'⟩) :
    ∃ as', Match as as' ∧ Rel ⟨n, sh', upd pcs t pc'⟩ as' := by
  have mpc := hS.d3 t q b hpc
  have mgo := hG.on t q (by simp [hpc, onQ])
  try simp only at mgo
  have hQ : q < n := mpc.1
  have han := h.an (q)
  simp only at han
  have hu : sw (q) t < (as (q)).n := by rw [han]; exact sw_lt _ t n hQ ht
  have rtail := h.tail (q) hQ
  have rlock := h.lock (q) hQ
  have rhead := h.head (q) hQ
  simp only at rtail rlock rhead
  have iA := hA (q) hQ
  have mtb := h.d3 t q b hpc
  simp only at mtb
  have mex : ∀ u, onQ u (pcs u) q = true → u = t := only_dropper ⟨n, sh, pcs⟩ hG t q b hpc
  have mp3 : pu3Pc (pcs q) = false := by
    cases hp : pcs q <;> simp [pu3Pc]
    next q' nb pi k =>
      have e1 := (hS.pu3 q q' nb pi k hp).1
      have e2 := mex q (by simp [hp, onQ, e1])
      rw [e2, hpc] at hp; cases hp
  have mbn : bndPc (pcs q) = false := by
    cases hp : pcs q <;> simp [bndPc]
    next q' nb pi k =>
      have e1 := (hS.pu3 q q' nb pi k hp).1
      have e2 := mex q (by simp [hp, onQ, e1])
      rw [e2, hpc] at hp; cases hp
    next q' pi k =>
      have e1 := (hS.pu4 q q' pi k hp).1
      have e2 := mex q (by simp [hp, onQ, e1])
      rw [e2, hpc] at hp; cases hp
  have mql := hS.qlast q hQ
  have mqi := hS.qti q hQ
  have mqn := hS.qtn q hQ mbn
  have mqt := hS.qtb q hQ mp3
  have mct := A_cnt_tail (as q) iA (sh.qs q).tidx (by rw [rtail]; exact Nat.le_refl _)
  have mlive : (sh.blks b).freed = false := by
    rw [mtb, mqt]
    exact blk_live ⟨n, sh, pcs⟩ as h _ (sh.qs q).tidx mql.1 mqn (by simp only [BSZ] at mqi ⊢; omega) (by rw [mql.2]; exact mct) (by rw [mql.2]; exact mgo)
  have mnf : ∀ u l' v', pcs u = .tFree l' v' → l'.hb ≠ b := by
    intro u l' v' hu' hc
    have hl : locOf (pcs u) = some l' := by rw [hu']; rfl
    have e1 := hS.lhb u l' hl (by show 1 ≤ ph (pcs u); rw [hu']; simp [ph])
    have e2 := mex u (by simp [hu', onQ]; left; rw [← e1.2.2, hc]; exact mpc.2.2)
    rw [e2, hpc] at hu'; cases hu'
  try simp only [BSZ] at mpc
  try simp only [BSZ] at mgo
  try simp only [BSZ] at mtb
  try simp only [BSZ] at mql
  try simp only [BSZ] at mqi
  try simp only [BSZ] at mqn
  try simp only [BSZ] at mqt
  try simp only [BSZ] at mct
  simp only [tstep, Option.some.injEq, Prod.mk.injEq] at hts
  obtain ⟨rfl, rfl⟩ := hts
  refine ⟨as, match_refl as, ?_⟩
  have mdf := freeBlk_dfree sh b mlive
  fin_pc

end MayVerif.Spmc
