import MayVerif.Proof.Queue.Spmc.ExactR
namespace MayVerif.Spmc
local notation "Tid" => Nat
local notation "Bid" => Nat
local notation "Qid" => Nat
local notation "Val" => Nat

set_option hygiene false in
local macro "fin_pc" : tactic => `(tactic| (
  constructor
  case an => (sR; aS; have hx := h.an; simp only [BSZ] at hx ⊢; first | exact hx | grind [upd, SpmcA.upd, BSZ, newBlock, mkLoc, locOf, ph] | grind (splits := 25) [upd, SpmcA.upd, BSZ, newBlock, mkLoc, locOf, ph])
  case tail => (sR; aS; have hx := h.tail; simp only [BSZ] at hx ⊢; first | exact hx | grind [upd, SpmcA.upd, BSZ, newBlock, mkLoc, locOf, ph] | grind (splits := 25) [upd, SpmcA.upd, BSZ, newBlock, mkLoc, locOf, ph])
  case lock => (sR; aS; have hx := h.lock; simp only [BSZ] at hx ⊢; first | exact hx | grind [upd, SpmcA.upd, BSZ, newBlock, mkLoc, locOf, ph] | grind (splits := 25) [upd, SpmcA.upd, BSZ, newBlock, mkLoc, locOf, ph])
  case head => (sR; aS; have hx := h.head; simp only [BSZ] at hx ⊢; first | exact hx | grind [upd, SpmcA.upd, BSZ, newBlock, mkLoc, locOf, ph] | grind (splits := 25) [upd, SpmcA.upd, BSZ, newBlock, mkLoc, locOf, ph])
  case pcs => (sR; (first | refine pcs_frame0 n sh.blks _ pcs as t _ h.pcs ?_ ?_ | refine pcs_frame n sh.blks _ pcs as t _ _ _ _ _ h.pcs ?_ ?_) <;> first
    | (intro t' l' hne hl hp; first | rfl | (have hb := hS.lhb t' l' hl hp; simp only [BSZ] at hb; grind [upd, newBlock]))
    | (intro q' hq'; simp only [hpc, absPc, pcQ, absOn]; first | rfl | grind [mkLoc]))
  case slot => (sR; aS; have hx := h.slot; simp only [BSZ] at hx ⊢; first | exact hx | grind [upd, SpmcA.upd, BSZ, newBlock, mkLoc, locOf, ph] | grind (splits := 25) [upd, SpmcA.upd, BSZ, newBlock, mkLoc, locOf, ph])
  case fut => (sR; aS; have hx := h.fut; simp only [BSZ] at hx ⊢; first | exact hx | grind [upd, SpmcA.upd, BSZ, newBlock, mkLoc, locOf, ph] | grind (splits := 25) [upd, SpmcA.upd, BSZ, newBlock, mkLoc, locOf, ph])
  case used => (sR; aS; have hx := h.used; simp only [BSZ] at hx ⊢; first | exact hx | grind [upd, SpmcA.upd, BSZ, newBlock, mkLoc, locOf, ph] | grind (splits := 25) [upd, SpmcA.upd, BSZ, newBlock, mkLoc, locOf, ph])
  case fr => (sR; aS; have hx := h.fr; simp only [BSZ] at hx ⊢; first | exact hx | grind [upd, SpmcA.upd, BSZ, newBlock, mkLoc, locOf, ph] | grind (splits := 25) [upd, SpmcA.upd, BSZ, newBlock, mkLoc, locOf, ph])
  case tfree => (sR; aS; have hx := h.tfree; simp only [BSZ] at hx ⊢; first | exact hx | grind [upd, SpmcA.upd, BSZ, newBlock, mkLoc, locOf, ph] | grind (splits := 25) [upd, SpmcA.upd, BSZ, newBlock, mkLoc, locOf, ph])
  case tfu => (sR; aS; have hx := h.tfu; simp only [BSZ] at hx ⊢; first | exact hx | grind [upd, SpmcA.upd, BSZ, newBlock, mkLoc, locOf, ph] | grind (splits := 25) [upd, SpmcA.upd, BSZ, newBlock, mkLoc, locOf, ph])
  case d3 => (sR; aS; have hx := h.d3; simp only [BSZ] at hx ⊢; first | exact hx | grind [upd, SpmcA.upd, BSZ, newBlock, mkLoc, locOf, ph] | grind (splits := 25) [upd, SpmcA.upd, BSZ, newBlock, mkLoc, locOf, ph])
  case gcnt => (sR; aS; have hx := h.gcnt; simp only [BSZ] at hx ⊢; first | exact hx | grind [upd, SpmcA.upd, BSZ, newBlock, mkLoc, locOf, ph] | grind (splits := 25) [upd, SpmcA.upd, BSZ, newBlock, mkLoc, locOf, ph])
  case gval => (sR; aS; have hx := h.gval; simp only [BSZ] at hx ⊢; first | exact hx | grind [upd, SpmcA.upd, BSZ, newBlock, mkLoc, locOf, ph] | grind (splits := 25) [upd, SpmcA.upd, BSZ, newBlock, mkLoc, locOf, ph])
  case olog => (sR; aS; have hx := h.olog; simp only [BSZ] at hx ⊢; first | exact hx | grind [upd, SpmcA.upd, BSZ, newBlock, mkLoc, locOf, ph] | grind (splits := 25) [upd, SpmcA.upd, BSZ, newBlock, mkLoc, locOf, ph])
  case uaf => (sR; aS; have hx := h.uaf; simp only [BSZ] at hx ⊢; first | exact hx | grind [upd, SpmcA.upd, BSZ, newBlock, mkLoc, locOf, ph] | grind (splits := 25) [upd, SpmcA.upd, BSZ, newBlock, mkLoc, locOf, ph])
  case dfree => (sR; aS; have hx := h.dfree; simp only [BSZ] at hx ⊢; first | exact hx | grind [upd, SpmcA.upd, BSZ, newBlock, mkLoc, locOf, ph] | grind (splits := 25) [upd, SpmcA.upd, BSZ, newBlock, mkLoc, locOf, ph])
  case uninit => (sR; aS; have hx := h.uninit; simp only [BSZ] at hx ⊢; first | exact hx | grind [upd, SpmcA.upd, BSZ, newBlock, mkLoc, locOf, ph] | grind (splits := 25) [upd, SpmcA.upd, BSZ, newBlock, mkLoc, locOf, ph])
  case unpub => (sR; aS; have hx := h.unpub; simp only [BSZ] at hx ⊢; first | exact hx | grind [upd, SpmcA.upd, BSZ, newBlock, mkLoc, locOf, ph] | grind (splits := 25) [upd, SpmcA.upd, BSZ, newBlock, mkLoc, locOf, ph])
  ))

set_option maxHeartbeats 1600000 in
theorem rel_tT (n : Nat) (sh : Sh) (pcs : Tid → Pc) (t : Tid) (e : Env) (l : Loc) (as : Nat → SpmcA.St)
    (hS : InvS ⟨n, sh, pcs⟩) (hG : InvG ⟨n, sh, pcs⟩) (h : Rel ⟨n, sh, pcs⟩ as) (hA : ∀ q, q < n → SpmcA.Inv (as q))
    (hg : guard ⟨n, sh, pcs⟩ t e = true) (ht : t < n)
    (hpc : pcs t = .tT l) (sh' : Sh) (pc' : Pc)
    (hts : tstep sh t (.tT l) e = some (sh', pc')) (hS' : InvS ⟨n, sh', upd pcs t pc'⟩) :
    ∃ as', Match as as' ∧ Rel ⟨n, sh', upd pcs t pc'⟩ as' := by
  have hloc : locOf (pcs t) = some l := by rw [hpc]; rfl
  have hph : ph (pcs t) = 3 := by rw [hpc]; rfl
  have mlq := hS.lq t l hloc
  have mlhb := hS.lhb t l hloc (by show 1 ≤ ph (pcs t); omega)
  have mgo := hG.on t l.q (by simp [hpc, onQ])
  have hQ : l.q < n := mlq.1
  have han := h.an (l.q)
  simp only at han
  have hu : sw (l.q) t < (as (l.q)).n := by rw [han]; exact sw_lt _ t n hQ ht
  have rtail := h.tail (l.q) hQ
  have rlock := h.lock (l.q) hQ
  have rhead := h.head (l.q) hQ
  simp only at rtail rlock rhead
  have iA := hA (l.q) hQ
  have hke := hS.tTk t l hpc
  have mqh := hS.qhead l.q mlq.1
  try simp only [BSZ] at mlq
  try simp only [BSZ] at mlhb
  try simp only [BSZ] at mgo
  try simp only [BSZ] at mqh
  simp only [tstep, retStep_deliver_nil sh t l hke] at hts
  cases hk : l.k
  case empt => exact absurd hk hke
  case lpop =>
    have hq : l.q = t := mlq.2.2 hk
    have rpc := h.pcs l.q t hQ
    simp only [hpc, absPc, pcQ, absOn, hk, if_true] at rpc
    have mex := lpop_exact n sh pcs t l hS hpc hk (envEq e) (envAba e)
    simp only [hk] at hts
    split at hts
    · next hemp =>
      have hc1 : (as l.q).sh.tail ≤ (sh.blks l.hb).start + l.hi := by rw [rtail, hq]; exact mex.1.mp hemp
      simp only [Option.some.injEq, Prod.mk.injEq] at hts
      obtain ⟨rfl, rfl⟩ := hts
      refine ⟨_, match1 as l.q (sw l.q t) .go (.oTry _) _ _ hu rpc (by simp only [SpmcA.tstep, if_pos hc1]; rfl), ?_⟩
      simp only [reduceCtorEq, false_and, if_false]
      fin_pc
    · next hne =>
      have hc1 : ¬ (as l.q).sh.tail ≤ (sh.blks l.hb).start + l.hi := by rw [rtail, hq]; exact fun hc => hne (mex.1.mpr hc)
      split at hts
      · next hok =>
        have mcas := lpop_cas n sh pcs t l hS hpc hk (envEq e) (envAba e) (by simpa using hne)
          (by simp only [Bool.and_eq_true] at hok; exact hok.2)
        simp only [Bool.and_eq_true, Bool.not_eq_true', decide_eq_true_eq] at hok
        have mok := hok.1
        clear hok
        have hc2 : (as l.q).sh.head = (sh.blks l.hb).start + l.hi ∧ (as l.q).sh.lock = false := by
          rw [rhead, rlock, mcas.1, mok.2]; exact ⟨rfl, mok.1⟩
        simp only [Option.some.injEq, Prod.mk.injEq] at hts
        obtain ⟨rfl, rfl⟩ := hts
        by_cases h31 : l.hi = BSZ - 1
        · have hd : decide (l.hi = BSZ - 1) = true := by simp [h31]
          simp only [hd, if_true]
          refine ⟨_, match1 as l.q (sw l.q t) (.claim false 0) (.oTry _) _ _ hu rpc (by simp only [SpmcA.tstep, if_neg hc1, if_pos hc2]; rfl), ?_⟩
          simp only [BSZ] at h31
          fin_pc
        · have hd : decide (l.hi = BSZ - 1) = false := by simp [h31]
          simp only [hd, Bool.false_eq_true, if_false]
          refine ⟨_, match1 as l.q (sw l.q t) .go (.oTry _) _ _ hu rpc (by simp only [SpmcA.tstep, if_neg hc1, if_pos hc2]; rfl), ?_⟩
          simp only [BSZ] at h31
          fin_pc
      · next hfail =>
        have hc2 : ¬((as l.q).sh.head = (sh.blks l.hb).start + l.hi ∧ (as l.q).sh.lock = false) := by
          rw [rhead, rlock, hq]; exact mex.2 (by rw [← hq]; simpa using hfail)
        simp only [Option.some.injEq, Prod.mk.injEq] at hts
        obtain ⟨rfl, rfl⟩ := hts
        refine ⟨_, match1 as l.q (sw l.q t) .go (.oTry _) _ _ hu rpc (by simp only [SpmcA.tstep, if_neg hc1, if_neg hc2]; rfl), ?_⟩
        simp only [if_true]
        fin_pc
  case pop =>
    have rpc := h.pcs l.q t hQ
    simp only [hpc, absPc, pcQ, absOn, hk, if_true] at rpc
    simp only [hk] at hts
    split at hts
    · simp only [Option.some.injEq, Prod.mk.injEq] at hts
      obtain ⟨rfl, rfl⟩ := hts
      refine ⟨_, match1 as l.q (sw l.q t) .giveUp .tTry _ _ hu rpc (by simp only [SpmcA.tstep]; rfl), ?_⟩
      split <;> fin_pc
    · next hne =>
      split at hts
      · next hok =>
        simp only [Bool.and_eq_true, Bool.not_eq_true', decide_eq_true_eq] at hok
        have mok := hok.1
        clear hok
        have hlk : (as l.q).sh.lock = false := by rw [rlock]; exact mok.1
        simp only [Option.some.injEq, Prod.mk.injEq] at hts
        obtain ⟨rfl, rfl⟩ := hts
        by_cases h31 : l.hi = BSZ - 1
        · have hd : decide (l.hi = BSZ - 1) = true := by simp [h31]
          simp only [hd, if_true]
          refine ⟨_, match1 as l.q (sw l.q t) (.claim false 0) .tTry _ _ hu rpc (by simp only [SpmcA.tstep, if_pos hlk]; rfl), ?_⟩
          fin_pc
        · have hd : decide (l.hi = BSZ - 1) = false := by simp [h31]
          simp only [hd, Bool.false_eq_true, if_false]
          have hcd : (as l.q).sh.lock = false ∧ (as l.q).sh.head < (sh.blks (sh.qs l.q).head.blk).start + (l.hi + 1) := by
            rw [rhead, mok.2]; exact ⟨hlk, by omega⟩
          simp only [BSZ] at h31
          refine ⟨_, match1 as l.q (sw l.q t) (.claim true ((sh.blks (sh.qs l.q).head.blk).start + (l.hi + 1))) .tTry _ _ hu rpc (by simp only [SpmcA.tstep, if_pos hcd]; rfl), ?_⟩
          fin_pc
      · simp only [Option.some.injEq, Prod.mk.injEq] at hts
        obtain ⟨rfl, rfl⟩ := hts
        refine ⟨as, match_refl as, ?_⟩
        simp only [reduceCtorEq, if_false]
        fin_pc
  case bulk =>
    have rpc := h.pcs l.q t hQ
    simp only [hpc, absPc, pcQ, absOn, hk, if_true] at rpc
    simp only [hk] at hts
    split at hts
    · simp only [Option.some.injEq, Prod.mk.injEq] at hts
      obtain ⟨rfl, rfl⟩ := hts
      refine ⟨_, match1 as l.q (sw l.q t) .giveUp .tTry _ _ hu rpc (by simp only [SpmcA.tstep]; rfl), ?_⟩
      split <;> fin_pc
    · next hne =>
      split at hts
      · next hok =>
        simp only [Bool.and_eq_true, Bool.not_eq_true', decide_eq_true_eq] at hok
        have mok := hok.1
        clear hok
        have hlk : (as l.q).sh.lock = false := by rw [rlock]; exact mok.1
        simp only [Option.some.injEq, Prod.mk.injEq] at hts
        obtain ⟨rfl, rfl⟩ := hts
        generalize hpe : peq sh l.hb l.tb (envEq e) = pe at hne ⊢
        cases pe
        · simp only [Bool.not_false, if_true, Bool.false_eq_true, if_false]
          refine ⟨_, match1 as l.q (sw l.q t) (.claim false 0) .tTry _ _ hu rpc (by simp only [SpmcA.tstep, if_pos hlk]; rfl), ?_⟩
          fin_pc
        · simp only [Bool.not_true, Bool.false_eq_true, if_false, if_true]
          simp only [Bool.true_and, decide_eq_true_eq, Nat.not_le] at hne
          have hcd : (as l.q).sh.lock = false ∧ (as l.q).sh.head < (sh.blks (sh.qs l.q).head.blk).start + l.pi % BSZ := by
            rw [rhead, mok.2]; exact ⟨hlk, by omega⟩
          have hpid : l.pi % BSZ < 32 := by simp only [BSZ]; omega
          refine ⟨_, match1 as l.q (sw l.q t) (.claim true ((sh.blks (sh.qs l.q).head.blk).start + l.pi % BSZ)) .tTry _ _ hu rpc (by simp only [SpmcA.tstep, if_pos hcd]; rfl), ?_⟩
          fin_pc
      · simp only [Option.some.injEq, Prod.mk.injEq] at hts
        obtain ⟨rfl, rfl⟩ := hts
        refine ⟨as, match_refl as, ?_⟩
        simp only [reduceCtorEq, if_false]
        fin_pc


end MayVerif.Spmc
