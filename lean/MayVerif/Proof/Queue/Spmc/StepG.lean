/-
  Level-B spmc: `InvG` is preserved by every step.
-/
import MayVerif.Proof.Queue.Spmc.InvG
namespace MayVerif.Spmc
local notation "Tid" => Nat
local notation "Bid" => Nat
local notation "Qid" => Nat
local notation "Val" => Nat

/-- `dead`/`gone` of every queue are left alone -/
macro "dg" : tactic => `(tactic| (
  intro q'
  first
  | exact ⟨rfl, rfl⟩
  | (simp only [setBlk_qs, touch_qs, setHead_qs, freeBlk_qs, upd]
     first | exact ⟨rfl, rfl⟩ | exact ⟨trivial, trivial⟩ | (split <;> (try subst_vars) <;> first | exact ⟨rfl, rfl⟩ | simp))))

set_option maxHeartbeats 1000000 in
/-- every step other than an API call and the last step of `Drop` stays inside its routine -/
theorem g_local (n : Nat) (sh : Sh) (pcs : Tid → Pc) (t : Tid) (e : Env) (pc : Pc) (sh' : Sh) (pc' : Pc)
    (hS : InvS ⟨n, sh, pcs⟩) (hpc : pcs t = pc) (hni : pc ≠ .idle) (hnd : ∀ q b, pc ≠ .d3 q b)
    (hts : tstep sh t pc e = some (sh', pc')) :
    (∀ q, onQ t pc' q = true → onQ t pc q = true) ∧ (∀ q, dropOn pc' q = true → dropOn pc q = true) ∧
    (∀ q, (sh'.qs q).dead = (sh.qs q).dead ∧ (sh'.qs q).gone = (sh.qs q).gone) := by
  cases pc with
  | idle => exact absurd rfl hni
  | d3 q b => exact absurd rfl (hnd q b)
  | panic => simp [tstep] at hts
  | rPush | rPop r | rLpop r | rSteal r | rDrop =>
    simp only [tstep, retStep, Option.some.injEq, Prod.mk.injEq] at hts; obtain ⟨rfl, rfl⟩ := hts
    exact ⟨by simp [onQ], by simp [dropOn], fun _ => ⟨rfl, rfl⟩⟩
  | rBulk items m =>
    cases items <;> simp only [tstep, retStep, Option.some.injEq, Prod.mk.injEq] at hts <;> obtain ⟨rfl, rfl⟩ := hts <;>
      exact ⟨by simp [onQ], by simp [dropOn], fun _ => ⟨rfl, rfl⟩⟩
  | pu0 q v k | pu1 q v tb k | pu2 q tb pi k | pu3 q nb pi k =>
    simp only [tstep, Option.some.injEq, Prod.mk.injEq] at hts; obtain ⟨rfl, rfl⟩ := hts
    refine ⟨?_, ?_, ?_⟩
    · intro q'; (try split) <;> simp [onQ]
    · intro q'; (try split) <;> simp [dropOn]
    · dg
  | pu4 q pi k =>
    have hq := (hS.pu4 t q pi k hpc).1
    simp only [tstep, Option.some.injEq, Prod.mk.injEq] at hts; obtain ⟨rfl, rfl⟩ := hts
    refine ⟨?_, ?_, ?_⟩
    · intro q'; cases k with
      | plain => simp [afterPush, onQ]
      | steal xs r => cases xs <;> simp [afterPush, onQ, hq]
    · intro q'; cases k with
      | plain => simp [afterPush, dropOn]
      | steal xs r => cases xs <;> simp [afterPush, dropOn]
    · dg
  | t0 l | t1 l | tE l | t7 l lo hi nh | t9 l lo =>
    simp only [tstep, Option.some.injEq, Prod.mk.injEq] at hts; obtain ⟨rfl, rfl⟩ := hts
    refine ⟨?_, ?_, ?_⟩
    · intro q'; simp [onQ]
    · intro q'; simp [dropOn]
    · dg
  | t2 l | t8 l lo hi =>
    simp only [tstep, Option.some.injEq, Prod.mk.injEq] at hts; obtain ⟨rfl, rfl⟩ := hts
    refine ⟨?_, ?_, ?_⟩
    · intro q'; split <;> simp [onQ]
    · intro q'; split <;> simp [dropOn]
    · dg
  | t6 l lo hi =>
    simp only [tstep] at hts
    split at hts <;> simp only [Option.some.injEq, Prod.mk.injEq] at hts <;> obtain ⟨rfl, rfl⟩ := hts <;>
      exact ⟨by simp [onQ], by simp [dropOn], by dg⟩
  | t5 l lo =>
    simp only [tstep] at hts
    repeat' split at hts
    all_goals (simp only [Option.some.injEq, Prod.mk.injEq] at hts; obtain ⟨rfl, rfl⟩ := hts)
    all_goals (refine ⟨?_, ?_, ?_⟩)
    all_goals (first | dg | (intro q'; (try split) <;> simp [onQ, dropOn]))
  | t4 l lk nid =>
    simp only [tstep] at hts
    repeat' split at hts
    all_goals (first | contradiction | skip)
    all_goals (simp only [Option.some.injEq, Prod.mk.injEq] at hts; obtain ⟨rfl, rfl⟩ := hts)
    all_goals (refine ⟨?_, ?_, ?_⟩)
    all_goals (first | dg | (intro q'; (repeat' split) <;> simp [onQ, dropOn]))
  | t6r l =>
    simp only [tstep, Option.some.injEq, Prod.mk.injEq] at hts; obtain ⟨rfl, rfl⟩ := hts
    exact ⟨fun q' => by simpa [onQ] using (deliver_on t l [] q').1, fun q' => by simpa [dropOn] using (deliver_on t l [] q').2, by dg⟩
  | tFree l vals =>
    simp only [tstep, Option.some.injEq, Prod.mk.injEq] at hts; obtain ⟨rfl, rfl⟩ := hts
    exact ⟨fun q' => by simpa [onQ] using (deliver_on t l vals q').1, fun q' => by simpa [dropOn] using (deliver_on t l vals q').2, by dg⟩
  | tF l lo hi sk =>
    simp only [tstep, Option.some.injEq, Prod.mk.injEq] at hts; obtain ⟨rfl, rfl⟩ := hts
    refine ⟨?_, ?_, ?_⟩
    · intro q'; split
      · simp [onQ]
      · simpa [onQ] using (deliver_on t l _ q').1
    · intro q'; split
      · simp [dropOn]
      · simpa [dropOn] using (deliver_on t l _ q').2
    · dg
  | d1 q =>
    simp only [tstep, retStep, Option.some.injEq, Prod.mk.injEq] at hts; obtain ⟨rfl, rfl⟩ := hts
    exact ⟨by simp [onQ], by simp [dropOn], fun _ => ⟨rfl, rfl⟩⟩
  | d2 q hb =>
    simp only [tstep, Option.some.injEq, Prod.mk.injEq] at hts; obtain ⟨rfl, rfl⟩ := hts
    exact ⟨by intro q'; split <;> simp [onQ], by intro q'; split <;> simp [dropOn], fun _ => ⟨rfl, rfl⟩⟩
  | tT l =>
    have hke := hS.tTk t l hpc
    simp only [tstep, retStep_deliver_nil sh t l hke] at hts
    split at hts
    · simp only [Option.some.injEq, Prod.mk.injEq] at hts; obtain ⟨rfl, rfl⟩ := hts
      refine ⟨?_, ?_, fun _ => ⟨rfl, rfl⟩⟩
      · intro q'; split
        · next hc => simp [onQ]; intro h; simp [h]
        · simp [onQ]
      · intro q'; split
        · next hc => simp [dropOn, hc.2]
        · simp [dropOn]
    · split at hts <;> simp only [Option.some.injEq, Prod.mk.injEq] at hts <;> obtain ⟨rfl, rfl⟩ := hts
      · exact ⟨by simp [onQ], by simp [dropOn], by dg⟩
      · exact ⟨by intro q'; split <;> simp [onQ], by intro q'; split <;> simp [dropOn], fun _ => ⟨rfl, rfl⟩⟩

/-- an API call on queues whose `Drop` has not started -/
theorem invG_enter (n : Nat) (sh : Sh) (pcs : Tid → Pc) (t : Tid) (pc' : Pc) (h : InvG ⟨n, sh, pcs⟩)
    (hal : ∀ q, onQ t pc' q = true → (sh.qs q).dead = false) (hdr : ∀ q, dropOn pc' q = false) :
    InvG ⟨n, sh, upd pcs t pc'⟩ := by
  obtain ⟨hgd, hon, hun, hdr'⟩ := h
  simp only at hgd hon hun hdr'
  constructor <;> simp only []
  · exact hgd
  · intro u q; have := hgd q; have := hon u q; have := hal q; grind [upd]
  · intro u v q; have := hun u v q; have := hal q; grind [upd]
  · intro u q; have := hdr' u q; have := hdr q; grind [upd]

/-- the call of `Drop` on a queue nobody is inside -/
theorem invG_drop (n : Nat) (sh : Sh) (pcs : Tid → Pc) (t : Tid) (q : Qid) (h : InvG ⟨n, sh, pcs⟩)
    (hq : (sh.qs q).dead = false) (hquiet : ∀ u, onQ u (pcs u) q = false) :
    InvG ⟨n, { sh with qs := upd sh.qs q { (sh.qs q) with dead := true } }, upd pcs t (.t0 (mkLoc q .bulk .drop))⟩ := by
  obtain ⟨hgd, hon, hun, hdr'⟩ := h
  simp only at hgd hon hun hdr'
  have e1 : ∀ q', onQ t (.t0 (mkLoc q .bulk .drop)) q' = (q == q') := by intro q'; simp [onQ, mkLoc]
  have e2 : ∀ q', dropOn (.t0 (mkLoc q .bulk .drop)) q' = (q == q') := by intro q'; simp [dropOn, mkLoc]
  constructor <;> simp only []
  · intro q'; have := hgd q'; grind [upd]
  · intro u q'; have := hgd q'; have := hon u q'; have := e1 q'; grind [upd]
  · intro u v q'; have := hun u v q'; have := e1 q'; have := hquiet u; have := hquiet v; grind [upd]
  · intro u q'; have := hdr' u q'; have := e2 q'; grind [upd]

/-- the last step of `Drop` -/
theorem invG_d3 (n : Nat) (sh sh1 : Sh) (pcs : Tid → Pc) (t : Tid) (q : Qid) (b : Bid) (h : InvG ⟨n, sh, pcs⟩)
    (hpc : pcs t = .d3 q b) (hqs : sh1.qs = sh.qs) :
    InvG ⟨n, { sh1 with qs := upd sh1.qs q { (sh1.qs q) with gone := true } }, upd pcs t .rDrop⟩ := by
  obtain ⟨hgd, hon, hun, hdr'⟩ := h
  simp only at hgd hon hun hdr'
  have e0 : onQ t (pcs t) q = true := by simp [hpc, onQ]
  have e1 : (sh.qs q).dead = true := hdr' t q (by simp [hpc, dropOn])
  have e2 : ∀ q', onQ t .rDrop q' = false := by intro q'; simp [onQ]
  have e3 : ∀ q', dropOn .rDrop q' = false := by intro q'; simp [dropOn]
  constructor <;> simp only [hqs]
  · intro q'; have := hgd q'; grind [upd]
  · intro u q'; have := hon u q'; have := e2 q'; have := hun u t q; grind [upd]
  · intro u v q'; have := hun u v q'; have := e2 q'; grind [upd]
  · intro u q'; have := hdr' u q'; have := e3 q'; grind [upd]

theorem quiet_all (n : Nat) (pcs : Tid → Pc) (q : Qid) (hi : ∀ t, n ≤ t → pcs t = .idle)
    (h : ((List.range n).all fun u => !onQ u (pcs u) q) = true) : ∀ u, onQ u (pcs u) q = false := by
  intro u
  by_cases hu : u < n
  · have := List.all_eq_true.mp h u (List.mem_range.mpr hu)
    simpa using this
  · rw [hi u (by omega)]; simp [onQ]

theorem invG_step (s s' : St) (t : Tid) (e : Env) (hS : InvS s) (h : InvG s) (hs : step s t e = some s') : InvG s' := by
  obtain ⟨n, sh, pcs⟩ := s
  simp only [step] at hs
  split at hs
  case isFalse => contradiction
  next hlt =>
  obtain ⟨hlt, hg⟩ := hlt
  split at hs
  · contradiction
  next sh' pc' hts =>
  simp only [Option.some.injEq] at hs
  subst hs
  try simp only at hlt
  try simp only at hts
  try simp only at hg
  by_cases hi : pcs t = .idle
  · rw [hi] at hts
    simp only [guard, hi] at hg
    cases e with
    | go => simp [tstep] at hts
    | adv a b => simp [tstep] at hts
    | start o =>
      simp only at hg
      cases o <;> simp only [tstep] at hts <;> (try split at hts) <;> (try contradiction) <;>
        simp only [Option.some.injEq, Prod.mk.injEq] at hts <;> obtain ⟨rfl, rfl⟩ := hts <;>
        simp only [opOk, alive, Bool.and_eq_true, decide_eq_true_eq, Bool.not_eq_true'] at hg
      case drop q =>
        exact invG_drop n sh pcs t q h hg.1.2 (quiet_all n pcs q hS.idle hg.2)
      all_goals (apply invG_enter n sh pcs t _ h <;> intro q' <;> simp [onQ, dropOn, mkLoc] <;> grind)
  · by_cases hd : ∃ q b, pcs t = .d3 q b
    · obtain ⟨q, b, hd⟩ := hd
      rw [hd] at hts
      simp only [tstep, Option.some.injEq, Prod.mk.injEq] at hts
      obtain ⟨rfl, rfl⟩ := hts
      exact invG_d3 n sh (freeBlk sh b) pcs t q b h hd (freeBlk_qs sh b)
    · have hl := g_local n sh pcs t e (pcs t) sh' pc' hS rfl hi (fun q b hc => hd ⟨q, b, hc⟩) hts
      exact invG_mono n sh sh' pcs t pc' h hl.1 hl.2.1 hl.2.2

end MayVerif.Spmc
