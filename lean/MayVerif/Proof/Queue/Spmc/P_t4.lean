import MayVerif.Proof.Queue.Spmc.RelLemmas
namespace MayVerif.Spmc
local notation "Tid" => Nat
local notation "Bid" => Nat
local notation "Qid" => Nat
local notation "Val" => Nat

set_option hygiene false in
local macro "fin_pc" : tactic => `(tactic| (
  constructor
  case an => (sR; aS; have hx := h.an; simp only [BSZ] at hx ⊢; first | exact hx | grind [upd, SpmcA.upd, BSZ, newBlock, mkLoc, locOf, ph] | grind (splits := 25) [upd, SpmcA.upd, BSZ, newBlock, mkLoc, locOf, ph])
  case tail => (sR; aS; have hx := h.tail; simp only [BSZ] at hx ⊢; first | exact hx | grind [upd, SpmcA.upd, BSZ, newBlock, mkLoc, locOf, ph] | grind (splits := 25) [upd, SpmcA.upd, BSZ, newBlock, mkLoc, locOf, ph])
  case lock => (sR; aS; have hx := h.lock; simp only [BSZ] at hx ⊢; first | exact hx | grind [upd, SpmcA.upd, BSZ, newBlock, mkLoc, locOf, ph] | grind (splits := 25) [upd, SpmcA.upd, BSZ, newBlock, mkLoc, locOf, ph])
  case head => (sR; aS; have hx := h.head; simp only [BSZ] at hx ⊢; first | exact hx | grind [upd, SpmcA.upd, BSZ, newBlock, mkLoc, locOf, ph] | grind (splits := 25) [upd, SpmcA.upd, BSZ, newBlock, mkLoc, locOf, ph])
  case pcs => (sR; (first | refine pcs_frame0 n sh.blks _ pcs as t _ h.pcs ?_ ?_ | refine pcs_frame n sh.blks _ pcs as t _ _ _ _ _ h.pcs ?_ ?_) <;> first
    | (intro t' l' hne hl hp; first | rfl | (have hb := hS.lhb t' l' hl hp; simp only [BSZ] at hb; grind [upd, newBlock]))
    | (intro q' hq'; simp only [hpc, absPc, pcQ, absOn]; first | rfl | grind [mkLoc]))
  case slot => (sR; aS; have hx := h.slot; simp only [BSZ] at hx ⊢; first | exact hx | grind [upd, SpmcA.upd, BSZ, newBlock, mkLoc, locOf, ph] | grind (splits := 25) [upd, SpmcA.upd, BSZ, newBlock, mkLoc, locOf, ph])
  case fut => (sR; aS; have hx := h.fut; simp only [BSZ] at hx ⊢; first | exact hx | grind [upd, SpmcA.upd, BSZ, newBlock, mkLoc, locOf, ph] | grind (splits := 25) [upd, SpmcA.upd, BSZ, newBlock, mkLoc, locOf, ph])
  case used => (sR; aS; have hx := h.used; simp only [BSZ] at hx ⊢; first | exact hx | grind [upd, SpmcA.upd, BSZ, newBlock, mkLoc, locOf, ph] | grind (splits := 25) [upd, SpmcA.upd, BSZ, newBlock, mkLoc, locOf, ph])
  case fr => (sR; aS; have hx := h.fr; simp only [BSZ] at hx ⊢; first | exact hx | grind [upd, SpmcA.upd, BSZ, newBlock, mkLoc, locOf, ph] | grind (splits := 25) [upd, SpmcA.upd, BSZ, newBlock, mkLoc, locOf, ph])
  case tfree => (sR; aS; have hx := h.tfree; simp only [BSZ] at hx ⊢; first | exact hx | grind [upd, SpmcA.upd, BSZ, newBlock, mkLoc, locOf, ph] | grind (splits := 25) [upd, SpmcA.upd, BSZ, newBlock, mkLoc, locOf, ph])
  case tfu => (sR; aS; have hx := h.tfu; simp only [BSZ] at hx ⊢; first | exact hx | grind [upd, SpmcA.upd, BSZ, newBlock, mkLoc, locOf, ph] | grind (splits := 25) [upd, SpmcA.upd, BSZ, newBlock, mkLoc, locOf, ph])
  case d3 => (sR; aS; have hx := h.d3; simp only [BSZ] at hx ⊢; first | exact hx | grind [upd, SpmcA.upd, BSZ, newBlock, mkLoc, locOf, ph] | grind (splits := 25) [upd, SpmcA.upd, BSZ, newBlock, mkLoc, locOf, ph])
  case gcnt => (sR; aS; have hx := h.gcnt; simp only [BSZ] at hx ⊢; first | exact hx | grind [upd, SpmcA.upd, BSZ, newBlock, mkLoc, locOf, ph] | grind (splits := 25) [upd, SpmcA.upd, BSZ, newBlock, mkLoc, locOf, ph])
  case gval => (sR; aS; have hx := h.gval; simp only [BSZ] at hx ⊢; first | exact hx | grind [upd, SpmcA.upd, BSZ, newBlock, mkLoc, locOf, ph] | grind (splits := 25) [upd, SpmcA.upd, BSZ, newBlock, mkLoc, locOf, ph])
  case olog => (sR; aS; have hx := h.olog; simp only [BSZ] at hx ⊢; first | exact hx | grind [upd, SpmcA.upd, BSZ, newBlock, mkLoc, locOf, ph] | grind (splits := 25) [upd, SpmcA.upd, BSZ, newBlock, mkLoc, locOf, ph])
  case uaf => (sR; aS; have hx := h.uaf; simp only [BSZ] at hx ⊢; first | exact hx | grind [upd, SpmcA.upd, BSZ, newBlock, mkLoc, locOf, ph] | grind (splits := 25) [upd, SpmcA.upd, BSZ, newBlock, mkLoc, locOf, ph])
  case dfree => (sR; aS; have hx := h.dfree; simp only [BSZ] at hx ⊢; first | exact hx | grind [upd, SpmcA.upd, BSZ, newBlock, mkLoc, locOf, ph] | grind (splits := 25) [upd, SpmcA.upd, BSZ, newBlock, mkLoc, locOf, ph])
  case uninit => (sR; aS; have hx := h.uninit; simp only [BSZ] at hx ⊢; first | exact hx | grind [upd, SpmcA.upd, BSZ, newBlock, mkLoc, locOf, ph] | grind (splits := 25) [upd, SpmcA.upd, BSZ, newBlock, mkLoc, locOf, ph])
  case unpub => (sR; aS; have hx := h.unpub; simp only [BSZ] at hx ⊢; first | exact hx | grind [upd, SpmcA.upd, BSZ, newBlock, mkLoc, locOf, ph] | grind (splits := 25) [upd, SpmcA.upd, BSZ, newBlock, mkLoc, locOf, ph])
  ))

set_option maxHeartbeats 1600000 in
theorem rel_t4 (n : Nat) (sh : Sh) (pcs : Tid → Pc) (t : Tid) (e : Env) (l : Loc) (lk : Bool) (nid : Nat) (as : Nat → SpmcA.St)
    (hS : InvS ⟨n, sh, pcs⟩) (hG : InvG ⟨n, sh, pcs⟩) (h : Rel ⟨n, sh, pcs⟩ as) (hA : ∀ q, q < n → SpmcA.Inv (as q))
    (hg : guard ⟨n, sh, pcs⟩ t e = true) (ht : t < n)
    (hpc : pcs t = .t4 l lk nid) (sh' : Sh) (pc' : Pc)
    (hts : tstep sh t (.t4 l lk nid) e = some (sh', pc')) (hS' : InvS ⟨n, sh', upd pcs t pc'⟩) :
    ∃ as', Match as as' ∧ Rel ⟨n, sh', upd pcs t pc'⟩ as' := by
  have hloc : locOf (pcs t) = some l := by rw [hpc]; rfl
  have hph : ph (pcs t) = 4 := by rw [hpc]; rfl
  have mlq := hS.lq t l hloc
  have mlhb := hS.lhb t l hloc (by show 1 ≤ ph (pcs t); omega)
  have mone := hS.one t l hloc (by show 4 ≤ ph (pcs t); omega)
  have mgo := hG.on t l.q (by simp [hpc, onQ])
  have hQ : l.q < n := mlq.1
  have han := h.an (l.q)
  simp only at han
  have hu : sw (l.q) t < (as (l.q)).n := by rw [han]; exact sw_lt _ t n hQ ht
  have rtail := h.tail (l.q) hQ
  have rlock := h.lock (l.q) hQ
  have rhead := h.head (l.q) hQ
  simp only at rtail rlock rhead
  have iA := hA (l.q) hQ
  have mal := hS.balign l.hb mlhb.2.1
  have m4n := hS.t4n t l lk nid hpc
  try simp only [BSZ] at mlq
  try simp only [BSZ] at mlhb
  try simp only [BSZ] at mone
  try simp only [BSZ] at mgo
  try simp only [BSZ] at mal
  try simp only [BSZ] at m4n
  cases lk
  case false =>
    have m4 := hS.t4 t l false nid hpc rfl
    simp only [BSZ] at m4
    have rpc := h.pcs l.q t hQ
    simp only [hpc, absPc, pcQ, absOn, if_true, Bool.false_eq_true, if_false] at rpc
    have afresh : ∀ i, (sh.blks l.hb).start + l.hi ≤ i → i < (sh.blks l.hb).start + nid → (as l.q).sh.cnt i = 0 := fun i h1 h2 =>
      iA.fresh (sw l.q t) i (by rw [rpc]; simp [SpmcA.covers, SpmcA.cutB, SpmcA.goB, SpmcA.loOf, SpmcA.hiOf, h1, h2])
    have mlive : (sh.blks l.hb).freed = false :=
      blk_live ⟨n, sh, pcs⟩ as h l.hb ((sh.blks l.hb).start + l.hi) mlhb.2.1 (by simp only [BSZ] at *; omega) (by simp only [BSZ] at *; omega)
        (by rw [mlhb.2.2]; exact afresh _ (Nat.le_refl _) (by omega)) (by rw [mlhb.2.2]; exact mgo)
    simp only [tstep, touch_live sh l.hb mlive] at hts
    cases hk : l.k <;> simp only [hk, Bool.false_eq_true, if_false] at hts m4n
    case empt => simp at hts
    case lpop =>
      have hq : l.q = t := mlq.2.2 hk
      have mone' := mone hk
      have mopi := hS.opi t l hloc (by show 2 ≤ ph (pcs t); omega) hk
      simp only at mopi
      have m4n' := m4n (by simp)
      split at hts
      · omega
      · simp only [Option.some.injEq, Prod.mk.injEq] at hts
        obtain ⟨rfl, rfl⟩ := hts
        refine ⟨_, match1 as l.q (sw l.q t) .go (.tWait _ _) _ _ hu rpc (by simp only [SpmcA.tstep]; rfl), ?_⟩
        fin_pc
    case pop =>
      have m4n' := m4n (by simp)
      simp only [Option.some.injEq, Prod.mk.injEq] at hts
      obtain ⟨rfl, rfl⟩ := hts
      refine ⟨as, match_refl as, ?_⟩
      fin_pc
    all_goals (
      simp only [Option.some.injEq, Prod.mk.injEq] at hts
      obtain ⟨rfl, rfl⟩ := hts
      refine ⟨as, match_refl as, ?_⟩
      fin_pc)
  case true =>
    have rpc := h.pcs l.q t hQ
    simp only [hpc, absPc, pcQ, absOn, if_true] at rpc
    have alck := iA.lck (sw l.q t) (by rw [rpc]; rfl)
    rw [rpc] at alck
    simp only [SpmcA.loOf] at alck
    have mc0 : (as l.q).sh.cnt ((sh.blks l.hb).start + l.hi) = 0 := iA.ahead _ (by rw [alck.2.2]; exact Nat.le_refl _)
    have mlive : (sh.blks l.hb).freed = false :=
      blk_live ⟨n, sh, pcs⟩ as h l.hb ((sh.blks l.hb).start + l.hi) mlhb.2.1 (by simp only [BSZ] at *; omega) (by simp only [BSZ] at *; omega)
        (by rw [mlhb.2.2]; exact mc0) (by rw [mlhb.2.2]; exact mgo)
    simp only [tstep, touch_live sh l.hb mlive] at hts
    cases hk : l.k <;> simp only [hk, if_true] at hts
    case empt => simp at hts
    case lpop =>
      have hq : l.q = t := mlq.2.2 hk
      have mone' := mone hk
      have mopi := hS.opi t l hloc (by show 2 ≤ ph (pcs t); omega) hk
      simp only at mopi
      have hn : ¬ l.pi ≤ (sh.blks l.hb).start + l.hi := by omega
      have hc1 : ¬ (as l.q).sh.tail ≤ (sh.blks l.hb).start + l.hi := by rw [rtail, hq, ← mopi]; exact hn
      simp only [if_neg hn, Option.some.injEq, Prod.mk.injEq] at hts
      obtain ⟨rfl, rfl⟩ := hts
      refine ⟨_, match1 as l.q (sw l.q t) .go (.tLocked _) _ _ hu rpc (by simp only [SpmcA.tstep, if_neg hc1]; rfl), ?_⟩
      fin_pc
    all_goals (
      simp only [Option.some.injEq, Prod.mk.injEq] at hts
      obtain ⟨rfl, rfl⟩ := hts
      refine ⟨as, match_refl as, ?_⟩
      fin_pc)

end MayVerif.Spmc
