/-
  Level-B spmc: the owner's `local_pop` decides emptiness exactly and its compare-exchange never succeeds on a
  re-used address (it allocates nothing while it runs, so every block of its queue is older than the moment a
  stale head block in its hands was freed).
-/
import MayVerif.Proof.Queue.Spmc.TacS
namespace MayVerif.Spmc
local notation "Tid" => Nat
local notation "Bid" => Nat
local notation "Qid" => Nat
local notation "Val" => Nat

theorem lpop_cas (n : Nat) (sh : Sh) (pcs : Tid → Pc) (t : Tid) (l : Loc) (h : InvS ⟨n, sh, pcs⟩)
    (hpc : pcs t = .tT l) (hk : l.k = .lpop) (g a : Bool)
    (hne : (peq sh l.hb l.tb g && decide (l.pi % BSZ ≤ l.hi)) = false)
    (hok : (decide ((sh.qs l.q).head.blk = l.hb) || (a && reusedBy sh l.hb (sh.qs l.q).head.blk)) = true) :
    (sh.qs l.q).head.blk = l.hb ∧ (sh.blks l.hb).start + l.hi < l.pi := by
  have hloc : locOf (pcs t) = some l := by rw [hpc]; rfl
  have hph : ph (pcs t) = 3 := by rw [hpc]; rfl
  have mlq := h.lq t l hloc
  have mlhb := h.lhb t l hloc (by show 1 ≤ ph (pcs t); omega)
  have mofr := h.ofr t l hloc (by show 1 ≤ ph (pcs t); omega) hk
  have mopi := h.opi t l hloc (by show 2 ≤ ph (pcs t); omega) hk
  have motb := h.otb t l hloc (by show 3 ≤ ph (pcs t); omega) hk
  have hq : l.q = t := mlq.2.2 hk
  have mtb := h.qtb t mlq.2.1 (by simp [hpc, pu3Pc])
  have mqn := h.qtn t mlq.2.1 (by simp [hpc, bndPc])
  have mqi := h.qti t mlq.2.1
  have mql := h.qlast t mlq.2.1
  have mqh := h.qhead t mlq.2.1
  have mid := h.qmaxid t (sh.qs t).head.blk mlq.2.1 mqh.1 mqh.2.1
  have mid2 := h.qmaxid t l.hb mlq.2.1 mlhb.2.1 (by rw [mlhb.2.2, hq])
  have mmax := h.qmax t l.hb mlq.2.1 mlhb.2.1 (by rw [mlhb.2.2, hq])
  have mffg := h.ffg (sh.qs t).last
  have mal1 := h.balign l.hb mlhb.2.1
  have mal2 := h.balign (sh.qs t).last mql.1
  have muq := h.uniq l.hb (sh.qs t).last mlhb.2.1 mql.1 (by rw [mlhb.2.2, hq, mql.2])
  simp only [BSZ] at *
  rw [hq] at hok
  have hhead : (sh.qs t).head.blk = l.hb := by
    by_cases hc : (sh.qs t).head.blk = l.hb
    · exact hc
    · simp only [hc, decide_false, Bool.false_or, Bool.and_eq_true, reusedBy, decide_eq_true_eq] at hok
      have := mofr hok.2.1
      omega
  refine ⟨by rw [hq]; exact hhead, ?_⟩
  have hpeq : peq sh l.hb l.tb g = decide (l.hb = l.tb) := by
    unfold peq
    by_cases hc : l.hb = l.tb
    · simp [hc]
    · have hal : alias sh l.hb l.tb = false := by
        simp only [alias, reusedBy, Bool.or_eq_false_iff, Bool.and_eq_false_iff, decide_eq_false_iff_not]
        rw [motb, mtb]
        constructor
        · by_cases hf : (sh.blks l.hb).freed = true
          · right; have := mofr hf; omega
          · left; simpa using hf
        · by_cases hf : (sh.blks (sh.qs t).last).freed = true
          · right; have := mffg hf; omega
          · left; simpa using hf
      simp [hc, hal]
  rw [hpeq, motb, mtb, mopi] at hne
  rw [mopi]
  by_cases hc : l.hb = (sh.qs t).last
  · simp [hc] at hne
    have hne' := of_decide_eq_false hne
    have hs : (sh.blks l.hb).start = (sh.blks (sh.qs t).last).start := by rw [hc]
    omega
  · have : (sh.blks l.hb).start ≠ (sh.blks (sh.qs t).last).start := fun he => hc (muq he)
    omega

/-- the owner's emptiness test is exact (whether or not the compare-exchange that follows succeeds), and a failed
    compare-exchange means that `head` is not the word the owner loaded -/
theorem lpop_exact (n : Nat) (sh : Sh) (pcs : Tid → Pc) (t : Tid) (l : Loc) (h : InvS ⟨n, sh, pcs⟩)
    (hpc : pcs t = .tT l) (hk : l.k = .lpop) (g a : Bool) :
    ((peq sh l.hb l.tb g && decide (l.pi % BSZ ≤ l.hi)) = true ↔ (sh.qs t).tidx ≤ (sh.blks l.hb).start + l.hi) ∧
    ((!(sh.qs t).head.lock && decide ((sh.qs t).head.idx = l.hi) &&
        (decide ((sh.qs t).head.blk = l.hb) || (a && reusedBy sh l.hb (sh.qs t).head.blk))) = false →
      ¬((sh.blks (sh.qs t).head.blk).start + (sh.qs t).head.idx = (sh.blks l.hb).start + l.hi ∧
        (sh.qs t).head.lock = false)) := by
  have hloc : locOf (pcs t) = some l := by rw [hpc]; rfl
  have hph : ph (pcs t) = 3 := by rw [hpc]; rfl
  have mlq := h.lq t l hloc
  have mlhb := h.lhb t l hloc (by show 1 ≤ ph (pcs t); omega)
  have mofr := h.ofr t l hloc (by show 1 ≤ ph (pcs t); omega) hk
  have mopi := h.opi t l hloc (by show 2 ≤ ph (pcs t); omega) hk
  have motb := h.otb t l hloc (by show 3 ≤ ph (pcs t); omega) hk
  have hq : l.q = t := mlq.2.2 hk
  have mtb := h.qtb t mlq.2.1 (by simp [hpc, pu3Pc])
  have mqn := h.qtn t mlq.2.1 (by simp [hpc, bndPc])
  have mqi := h.qti t mlq.2.1
  have mql := h.qlast t mlq.2.1
  have mqh := h.qhead t mlq.2.1
  have mid2 := h.qmaxid t l.hb mlq.2.1 mlhb.2.1 (by rw [mlhb.2.2, hq])
  have mmax := h.qmax t l.hb mlq.2.1 mlhb.2.1 (by rw [mlhb.2.2, hq])
  have mffg := h.ffg (sh.qs t).last
  have mal1 := h.balign l.hb mlhb.2.1
  have mal2 := h.balign (sh.qs t).last mql.1
  have mal3 := h.balign (sh.qs t).head.blk mqh.1
  have muq := h.uniq l.hb (sh.qs t).last mlhb.2.1 mql.1 (by rw [mlhb.2.2, hq, mql.2])
  have muq2 := h.uniq (sh.qs t).head.blk l.hb mqh.1 mlhb.2.1 (by rw [mlhb.2.2, hq, mqh.2.1])
  simp only [BSZ] at *
  have hpeq : peq sh l.hb l.tb g = decide (l.hb = l.tb) := by
    unfold peq
    by_cases hc : l.hb = l.tb
    · simp [hc]
    · have hal : alias sh l.hb l.tb = false := by
        simp only [alias, reusedBy, Bool.or_eq_false_iff, Bool.and_eq_false_iff, decide_eq_false_iff_not]
        rw [motb, mtb]
        constructor
        · by_cases hf : (sh.blks l.hb).freed = true
          · right; have := mofr hf; omega
          · left; simpa using hf
        · by_cases hf : (sh.blks (sh.qs t).last).freed = true
          · right; have := mffg hf; omega
          · left; simpa using hf
      simp [hc, hal]
  constructor
  · rw [hpeq, motb, mtb, mopi]
    by_cases hc : l.hb = (sh.qs t).last
    · have hs : (sh.blks l.hb).start = (sh.blks (sh.qs t).last).start := by rw [hc]
      have hd : decide (l.hb = (sh.qs t).last) = true := by simp [hc]
      simp only [hd, Bool.true_and, decide_eq_true_eq]
      constructor
      · intro hh; have := of_decide_eq_true hh; omega
      · intro hh; exact decide_eq_true (by omega)
    · have : (sh.blks l.hb).start ≠ (sh.blks (sh.qs t).last).start := fun he => hc (muq he)
      have hd : decide (l.hb = (sh.qs t).last) = false := by simp [hc]
      simp only [hd, Bool.false_and, Bool.false_eq_true, false_iff]
      omega
  · intro hf hc
    have e1 : (sh.blks (sh.qs t).head.blk).start = (sh.blks l.hb).start := by omega
    have e2 : (sh.qs t).head.blk = l.hb := muq2 e1
    have e3 : (sh.qs t).head.idx = l.hi := by omega
    simp [e2, e3, hc.2] at hf

end MayVerif.Spmc
