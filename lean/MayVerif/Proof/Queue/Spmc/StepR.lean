/-
  Level-B spmc: every step of the level-B model is matched by at most two steps of the level-A instance of the
  queue concerned (none in the other instances) such that the simulation relation `Rel` is preserved.
-/
import MayVerif.Proof.Queue.Spmc.P_idle
import MayVerif.Proof.Queue.Spmc.P_pu0
import MayVerif.Proof.Queue.Spmc.P_pu1
import MayVerif.Proof.Queue.Spmc.P_pu2
import MayVerif.Proof.Queue.Spmc.P_pu3
import MayVerif.Proof.Queue.Spmc.P_pu4
import MayVerif.Proof.Queue.Spmc.P_t0
import MayVerif.Proof.Queue.Spmc.P_t1
import MayVerif.Proof.Queue.Spmc.P_t2
import MayVerif.Proof.Queue.Spmc.P_tT
import MayVerif.Proof.Queue.Spmc.P_tE
import MayVerif.Proof.Queue.Spmc.P_t4
import MayVerif.Proof.Queue.Spmc.P_t5
import MayVerif.Proof.Queue.Spmc.P_t6r
import MayVerif.Proof.Queue.Spmc.P_t6
import MayVerif.Proof.Queue.Spmc.P_t7
import MayVerif.Proof.Queue.Spmc.P_t8
import MayVerif.Proof.Queue.Spmc.P_t9
import MayVerif.Proof.Queue.Spmc.P_tF
import MayVerif.Proof.Queue.Spmc.P_tFree
import MayVerif.Proof.Queue.Spmc.P_d1
import MayVerif.Proof.Queue.Spmc.P_d2
import MayVerif.Proof.Queue.Spmc.P_d3
import MayVerif.Proof.Queue.Spmc.P_rPush
import MayVerif.Proof.Queue.Spmc.P_rPop
import MayVerif.Proof.Queue.Spmc.P_rLpop
import MayVerif.Proof.Queue.Spmc.P_rBulk
import MayVerif.Proof.Queue.Spmc.P_rSteal
import MayVerif.Proof.Queue.Spmc.P_rDrop
import MayVerif.Proof.Queue.Spmc.P_panic
import MayVerif.Proof.Queue.Spmc.StepS
import MayVerif.Proof.Queue.Spmc.StepG
namespace MayVerif.Spmc
local notation "Tid" => Nat

theorem rel_init (n : Nat) : Rel (init n) (fun _ => SpmcA.init n) := by
  constructor <;> simp [init, SpmcA.init, newBlock, absPc, absOn, pcQ, gcnt, ownerIdx, BSZ]
  · intro b _
    exact (unread_all _ _ _ (fun _ _ _ => rfl)).symm

theorem rel_step (s s' : St) (as : Nat → SpmcA.St) (t : Tid) (e : Env) (hS : InvS s) (hG : InvG s) (h : Rel s as)
    (hA : ∀ q, q < s.n → SpmcA.Inv (as q)) (hs : step s t e = some s') (hS' : InvS s') :
    ∃ as', Match as as' ∧ Rel s' as' := by
  obtain ⟨n, sh, pcs⟩ := s
  simp only [step] at hs
  split at hs
  case isFalse => contradiction
  next hlt =>
  obtain ⟨hlt, hg⟩ := hlt
  split at hs
  · contradiction
  next sh' pc' hts =>
  simp only [Option.some.injEq] at hs
  subst hs
  simp only at hlt hA
  generalize hpc : pcs t = pc at hts
  cases pc with
  | idle  => exact rel_idle n sh pcs t e  as hS hG h hA hg hlt hpc sh' pc' hts hS'
  | pu0 q v k => exact rel_pu0 n sh pcs t e q v k as hS hG h hA hg hlt hpc sh' pc' hts hS'
  | pu1 q v tb k => exact rel_pu1 n sh pcs t e q v tb k as hS hG h hA hg hlt hpc sh' pc' hts hS'
  | pu2 q tb pi k => exact rel_pu2 n sh pcs t e q tb pi k as hS hG h hA hg hlt hpc sh' pc' hts hS'
  | pu3 q nb pi k => exact rel_pu3 n sh pcs t e q nb pi k as hS hG h hA hg hlt hpc sh' pc' hts hS'
  | pu4 q pi k => exact rel_pu4 n sh pcs t e q pi k as hS hG h hA hg hlt hpc sh' pc' hts hS'
  | t0 l => exact rel_t0 n sh pcs t e l as hS hG h hA hg hlt hpc sh' pc' hts hS'
  | t1 l => exact rel_t1 n sh pcs t e l as hS hG h hA hg hlt hpc sh' pc' hts hS'
  | t2 l => exact rel_t2 n sh pcs t e l as hS hG h hA hg hlt hpc sh' pc' hts hS'
  | tT l => exact rel_tT n sh pcs t e l as hS hG h hA hg hlt hpc sh' pc' hts hS'
  | tE l => exact rel_tE n sh pcs t e l as hS hG h hA hg hlt hpc sh' pc' hts hS'
  | t4 l lk nid => exact rel_t4 n sh pcs t e l lk nid as hS hG h hA hg hlt hpc sh' pc' hts hS'
  | t5 l lo => exact rel_t5 n sh pcs t e l lo as hS hG h hA hg hlt hpc sh' pc' hts hS'
  | t6r l => exact rel_t6r n sh pcs t e l as hS hG h hA hg hlt hpc sh' pc' hts hS'
  | t6 l lo hi => exact rel_t6 n sh pcs t e l lo hi as hS hG h hA hg hlt hpc sh' pc' hts hS'
  | t7 l lo hi nh => exact rel_t7 n sh pcs t e l lo hi nh as hS hG h hA hg hlt hpc sh' pc' hts hS'
  | t8 l lo hi => exact rel_t8 n sh pcs t e l lo hi as hS hG h hA hg hlt hpc sh' pc' hts hS'
  | t9 l lo => exact rel_t9 n sh pcs t e l lo as hS hG h hA hg hlt hpc sh' pc' hts hS'
  | tF l lo hi sk => exact rel_tF n sh pcs t e l lo hi sk as hS hG h hA hg hlt hpc sh' pc' hts hS'
  | tFree l vals => exact rel_tFree n sh pcs t e l vals as hS hG h hA hg hlt hpc sh' pc' hts hS'
  | d1 q => exact rel_d1 n sh pcs t e q as hS hG h hA hg hlt hpc sh' pc' hts hS'
  | d2 q hb => exact rel_d2 n sh pcs t e q hb as hS hG h hA hg hlt hpc sh' pc' hts hS'
  | d3 q b => exact rel_d3 n sh pcs t e q b as hS hG h hA hg hlt hpc sh' pc' hts hS'
  | rPush  => exact rel_rPush n sh pcs t e  as hS hG h hA hg hlt hpc sh' pc' hts hS'
  | rPop r => exact rel_rPop n sh pcs t e r as hS hG h hA hg hlt hpc sh' pc' hts hS'
  | rLpop r => exact rel_rLpop n sh pcs t e r as hS hG h hA hg hlt hpc sh' pc' hts hS'
  | rBulk items m => exact rel_rBulk n sh pcs t e items m as hS hG h hA hg hlt hpc sh' pc' hts hS'
  | rSteal r => exact rel_rSteal n sh pcs t e r as hS hG h hA hg hlt hpc sh' pc' hts hS'
  | rDrop  => exact rel_rDrop n sh pcs t e  as hS hG h hA hg hlt hpc sh' pc' hts hS'
  | panic  => exact rel_panic n sh pcs t e  as hS hG h hA hg hlt hpc sh' pc' hts hS'

end MayVerif.Spmc
