import MayVerif.Proof.Queue.Spmc.RelLemmas
namespace MayVerif.Spmc
local notation "Tid" => Nat
local notation "Bid" => Nat
local notation "Qid" => Nat
local notation "Val" => Nat

set_option hygiene false in
local macro "fin_pc" : tactic => `(tactic| (
  constructor
  case an => (sR; aS; have hx := h.an; simp only [BSZ] at hx ⊢; first | exact hx | grind [upd, SpmcA.upd, BSZ, newBlock, mkLoc, locOf, ph] | grind (splits := 25) [upd, SpmcA.upd, BSZ, newBlock, mkLoc, locOf, ph])
  case tail => (sR; aS; have hx := h.tail; simp only [BSZ] at hx ⊢; first | exact hx | grind [upd, SpmcA.upd, BSZ, newBlock, mkLoc, locOf, ph] | grind (splits := 25) [upd, SpmcA.upd, BSZ, newBlock, mkLoc, locOf, ph])
  case lock => (sR; aS; have hx := h.lock; simp only [BSZ] at hx ⊢; first | exact hx | grind [upd, SpmcA.upd, BSZ, newBlock, mkLoc, locOf, ph] | grind (splits := 25) [upd, SpmcA.upd, BSZ, newBlock, mkLoc, locOf, ph])
  case head => (sR; aS; have hx := h.head; simp only [BSZ] at hx ⊢; first | exact hx | grind [upd, SpmcA.upd, BSZ, newBlock, mkLoc, locOf, ph] | grind (splits := 25) [upd, SpmcA.upd, BSZ, newBlock, mkLoc, locOf, ph])
  case pcs => (sR; (first | refine pcs_frame0 n sh.blks _ pcs as t _ h.pcs ?_ ?_ | refine pcs_frame n sh.blks _ pcs as t _ _ _ _ _ h.pcs ?_ ?_) <;> first
    | (intro t' l' hne hl hp; first | rfl | (have hb := hS.lhb t' l' hl hp; simp only [BSZ] at hb; grind [upd, newBlock]))
    | (intro q' hq'; simp only [hpc, absPc, pcQ, absOn]; first | rfl | grind [mkLoc]))
  case slot => (
    sR; intro b j hb hj
    have hxb := h.slot b j hb hj
    have hal := hS.balign b hb
    have hun := hS.uniq b tb hb (by rw [etb]; exact mql.1)
    have hbo := hS.bown b hb
    simp only [BSZ] at hxb hal hun hbo hj ⊢
    by_cases hbt : b = tb
    · subst hbt
      have ho : (sh.blks b).own = q := by rw [etb, mql.2, hq]
      simp only [upd, if_true, ho, SpmcA.upd]
      rw [ho] at hxb
      grind
    · have e1 : upd sh.blks tb { sh.blks tb with data := upd (sh.blks tb).data ((sh.qs q).tidx % 32) (some v) } b = sh.blks b := by simp [upd, hbt]
      rw [e1]
      by_cases hoq : (sh.blks b).own = q
      · simp only [upd, hoq, if_true, SpmcA.upd]
        rw [hoq] at hxb
        have : (sh.blks b).start ≠ (sh.blks tb).start := fun hc => hbt (hun (by rw [hoq, etb, mql.2, hq]) hc)
        have hal2 := hS.balign tb (by rw [etb]; exact mql.1)
        simp only [BSZ] at hal2
        grind
      · simp only [upd, hoq, if_false]; exact hxb)
  case fut => (sR; aS; have hx := h.fut; simp only [BSZ] at hx ⊢; first | exact hx | grind [upd, SpmcA.upd, BSZ, newBlock, mkLoc, locOf, ph] | grind (splits := 25) [upd, SpmcA.upd, BSZ, newBlock, mkLoc, locOf, ph])
  case used => (sR; aS; have hx := h.used; simp only [BSZ] at hx ⊢; first | exact hx | grind [upd, SpmcA.upd, BSZ, newBlock, mkLoc, locOf, ph] | grind (splits := 25) [upd, SpmcA.upd, BSZ, newBlock, mkLoc, locOf, ph])
  case fr => (sR; aS; have hx := h.fr; simp only [BSZ] at hx ⊢; first | exact hx | grind [upd, SpmcA.upd, BSZ, newBlock, mkLoc, locOf, ph] | grind (splits := 25) [upd, SpmcA.upd, BSZ, newBlock, mkLoc, locOf, ph])
  case tfree => (sR; aS; have hx := h.tfree; simp only [BSZ] at hx ⊢; first | exact hx | grind [upd, SpmcA.upd, BSZ, newBlock, mkLoc, locOf, ph] | grind (splits := 25) [upd, SpmcA.upd, BSZ, newBlock, mkLoc, locOf, ph])
  case tfu => (sR; aS; have hx := h.tfu; simp only [BSZ] at hx ⊢; first | exact hx | grind [upd, SpmcA.upd, BSZ, newBlock, mkLoc, locOf, ph] | grind (splits := 25) [upd, SpmcA.upd, BSZ, newBlock, mkLoc, locOf, ph])
  case d3 => (sR; aS; have hx := h.d3; simp only [BSZ] at hx ⊢; first | exact hx | grind [upd, SpmcA.upd, BSZ, newBlock, mkLoc, locOf, ph] | grind (splits := 25) [upd, SpmcA.upd, BSZ, newBlock, mkLoc, locOf, ph])
  case gcnt => (sR; aS; have hx := h.gcnt; simp only [BSZ] at hx ⊢; first | exact hx | grind [upd, SpmcA.upd, BSZ, newBlock, mkLoc, locOf, ph] | grind (splits := 25) [upd, SpmcA.upd, BSZ, newBlock, mkLoc, locOf, ph])
  case gval => (sR; aS; have hx := h.gval; simp only [BSZ] at hx ⊢; first | exact hx | grind [upd, SpmcA.upd, BSZ, newBlock, mkLoc, locOf, ph] | grind (splits := 25) [upd, SpmcA.upd, BSZ, newBlock, mkLoc, locOf, ph])
  case olog => (sR; aS; have hx := h.olog; simp only [BSZ] at hx ⊢; first | exact hx | grind [upd, SpmcA.upd, BSZ, newBlock, mkLoc, locOf, ph] | grind (splits := 25) [upd, SpmcA.upd, BSZ, newBlock, mkLoc, locOf, ph])
  case uaf => (sR; aS; have hx := h.uaf; simp only [BSZ] at hx ⊢; first | exact hx | grind [upd, SpmcA.upd, BSZ, newBlock, mkLoc, locOf, ph] | grind (splits := 25) [upd, SpmcA.upd, BSZ, newBlock, mkLoc, locOf, ph])
  case dfree => (sR; aS; have hx := h.dfree; simp only [BSZ] at hx ⊢; first | exact hx | grind [upd, SpmcA.upd, BSZ, newBlock, mkLoc, locOf, ph] | grind (splits := 25) [upd, SpmcA.upd, BSZ, newBlock, mkLoc, locOf, ph])
  case uninit => (sR; aS; have hx := h.uninit; simp only [BSZ] at hx ⊢; first | exact hx | grind [upd, SpmcA.upd, BSZ, newBlock, mkLoc, locOf, ph] | grind (splits := 25) [upd, SpmcA.upd, BSZ, newBlock, mkLoc, locOf, ph])
  case unpub => (sR; aS; have hx := h.unpub; simp only [BSZ] at hx ⊢; first | exact hx | grind [upd, SpmcA.upd, BSZ, newBlock, mkLoc, locOf, ph] | grind (splits := 25) [upd, SpmcA.upd, BSZ, newBlock, mkLoc, locOf, ph])
  ))

set_option maxHeartbeats 1600000 in
theorem rel_pu1 (n : Nat) (sh : Sh) (pcs : Tid → Pc) (t : Tid) (e : Env) (q : Qid) (v : Val) (tb : Bid) (k : PK) (as : Nat → SpmcA.St)
    (hS : InvS ⟨n, sh, pcs⟩) (hG : InvG ⟨n, sh, pcs⟩) (h : Rel ⟨n, sh, pcs⟩ as) (hA : ∀ q, q < n → SpmcA.Inv (as q))
    (hg : guard ⟨n, sh, pcs⟩ t e = true) (ht : t < n)
    (hpc : pcs t = .pu1 q v tb k) (sh' : Sh) (pc' : Pc)
    (hts : tstep sh t (.pu1 q v tb k) e = some (sh', pc')) (hS' : InvS ⟨n, sh', upd pcs t pc'⟩) :
    ∃ as', Match as as' ∧ Rel ⟨n, sh', upd pcs t pc'⟩ as' := by
  have mpc := hS.pu1 t q v tb k hpc
  have hq : q = t := mpc.1
  have mgo := hG.on t q (by simp [hpc, onQ])
  try simp only at mgo
  have hQ : q < n := (by rw [hq]; exact ht)
  have han := h.an (q)
  simp only at han
  have hu : sw (q) t < (as (q)).n := by rw [han]; exact sw_lt _ t n hQ ht
  have rtail := h.tail (q) hQ
  have rlock := h.lock (q) hQ
  have rhead := h.head (q) hQ
  simp only at rtail rlock rhead
  have iA := hA (q) hQ
  have rpc := h.pcs q t hQ
  simp only [hpc, absPc, pcQ, absOn, if_true] at rpc
  have hsw : sw q t = 0 := by rw [hq]; exact sw_self t
  have mtb := hS.qtb t mpc.2.1 (by simp [hpc, pu3Pc])
  have mql := hS.qlast t mpc.2.1
  have mqi := hS.qti t mpc.2.1
  have mqn := hS.qtn t mpc.2.1 (by simp [hpc, bndPc])
  have mal := hS.balign _ mql.1
  have mct := A_cnt_tail (as q) iA (sh.qs q).tidx (by rw [rtail]; exact Nat.le_refl _)
  have etb : tb = (sh.qs t).last := by rw [mpc.2.2, hq, mtb]
  have mlive : (sh.blks tb).freed = false := by
    have e1 := etb
    subst hq
    rw [e1]
    exact blk_live ⟨n, sh, pcs⟩ as h _ (sh.qs q).tidx mql.1 mqn (by simp only [BSZ] at mqi ⊢; omega) (by rw [mql.2]; exact mct) (by rw [mql.2]; exact mgo)
  have mgt : ∀ g, g ∈ sh.got → g.q = q → g.i ≠ (as q).sh.tail := by
    intro g hg hgq hc
    have h1 := gcnt_pos_of_mem sh.got g hg
    have h2 := h.gcnt g.q g.i (by rw [hgq]; exact hQ)
    simp only at h2
    rw [hgq] at h2
    have h3 := A_cnt_tail (as q) iA g.i (by omega)
    rw [hgq] at h1
    omega
  try simp only [BSZ] at mpc
  try simp only [BSZ] at mgo
  try simp only [BSZ] at mtb
  try simp only [BSZ] at mql
  try simp only [BSZ] at mqi
  try simp only [BSZ] at mqn
  try simp only [BSZ] at mal
  try simp only [BSZ] at mct
  simp only [tstep, touch_live sh tb mlive, Option.some.injEq, Prod.mk.injEq] at hts
  obtain ⟨rfl, rfl⟩ := hts
  refine ⟨_, match1 as q (sw q t) .go (.oWrite v) _ _ hu rpc (by simp only [SpmcA.tstep]; rfl), ?_⟩
  split <;> fin_pc

end MayVerif.Spmc
