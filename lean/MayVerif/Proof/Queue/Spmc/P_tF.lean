import MayVerif.Proof.Queue.Spmc.LtF
namespace MayVerif.Spmc
local notation "Tid" => Nat
local notation "Bid" => Nat
local notation "Qid" => Nat
local notation "Val" => Nat

set_option hygiene false in
local macro "fin_pc" : tactic => `(tactic| (
  constructor
  case an => (sR; aS; have hx := h.an; simp only [BSZ] at hx ⊢; first | exact hx | grind [upd, SpmcA.upd, BSZ, newBlock, mkLoc, locOf, ph] | grind (splits := 25) [upd, SpmcA.upd, BSZ, newBlock, mkLoc, locOf, ph])
  case tail => (sR; aS; have hx := h.tail; simp only [BSZ] at hx ⊢; first | exact hx | grind [upd, SpmcA.upd, BSZ, newBlock, mkLoc, locOf, ph] | grind (splits := 25) [upd, SpmcA.upd, BSZ, newBlock, mkLoc, locOf, ph])
  case lock => (sR; aS; have hx := h.lock; simp only [BSZ] at hx ⊢; first | exact hx | grind [upd, SpmcA.upd, BSZ, newBlock, mkLoc, locOf, ph] | grind (splits := 25) [upd, SpmcA.upd, BSZ, newBlock, mkLoc, locOf, ph])
  case head => (sR; aS; have hx := h.head; simp only [BSZ] at hx ⊢; first | exact hx | grind [upd, SpmcA.upd, BSZ, newBlock, mkLoc, locOf, ph] | grind (splits := 25) [upd, SpmcA.upd, BSZ, newBlock, mkLoc, locOf, ph])
  case pcs => (sR; (first | refine pcs_frame0 n sh.blks _ pcs as t _ h.pcs ?_ ?_ | refine pcs_frame n sh.blks _ pcs as t _ _ _ _ _ h.pcs ?_ ?_) <;> first
    | (intro t' l' hne hl hp; first | rfl | (have hb := hS.lhb t' l' hl hp; simp only [BSZ] at hb; grind [upd, newBlock]))
    | (intro q' hq'; simp only [hpc, absPc, pcQ, absOn]; first | rfl | grind [mkLoc]))
  case slot => (sR; aS; have hx := h.slot; simp only [BSZ] at hx ⊢; first | exact hx | grind [upd, SpmcA.upd, BSZ, newBlock, mkLoc, locOf, ph] | grind (splits := 25) [upd, SpmcA.upd, BSZ, newBlock, mkLoc, locOf, ph])
  case fut => (sR; aS; have hx := h.fut; simp only [BSZ] at hx ⊢; first | exact hx | grind [upd, SpmcA.upd, BSZ, newBlock, mkLoc, locOf, ph] | grind (splits := 25) [upd, SpmcA.upd, BSZ, newBlock, mkLoc, locOf, ph])
  case used => (
    sR; intro b hb
    have hx := h.used b hb
    simp only [BSZ] at hx ⊢
    by_cases hbl : b = l.hb
    · rw [hbl]
      simp only [upd, if_true, mlhb.2.2]
      first | (rw [mused]; omega) | omega
    · have e1 : ∀ x, upd sh.blks l.hb x b = sh.blks b := by intro x; simp [upd, hbl]
      simp only [e1]
      by_cases ho : (sh.blks b).own = l.q
      · simp only [ho, upd, if_true]
        rw [hx, ho]
        symm
        apply unread_congr
        intro i h1 h2
        have hal := hS.balign b hb
        have hun := hS.uniq b l.hb hb mlhb.2.1 (by rw [ho, mlhb.2.2])
        simp only [BSZ] at hal
        have hne : (sh.blks b).start ≠ (sh.blks l.hb).start := fun hc => hbl (hun hc)
        have hc : ¬(lo ≤ i ∧ i < hi) := by omega
        simp only [hc, if_false]
      · simp only [upd, ho, if_false]; exact hx)
  case fr => (sR; aS; have hx := h.fr; simp only [BSZ] at hx ⊢; first | exact hx | grind [upd, SpmcA.upd, BSZ, newBlock, mkLoc, locOf, ph] | grind (splits := 25) [upd, SpmcA.upd, BSZ, newBlock, mkLoc, locOf, ph])
  case tfree => (sR; aS; have hx := h.tfree; simp only [BSZ] at hx ⊢; first | exact hx | grind [upd, SpmcA.upd, BSZ, newBlock, mkLoc, locOf, ph] | grind (splits := 25) [upd, SpmcA.upd, BSZ, newBlock, mkLoc, locOf, ph])
  case tfu => (sR; aS; have hx := h.tfu; simp only [BSZ] at hx ⊢; first | exact hx | grind [upd, SpmcA.upd, BSZ, newBlock, mkLoc, locOf, ph] | grind (splits := 25) [upd, SpmcA.upd, BSZ, newBlock, mkLoc, locOf, ph])
  case d3 => (sR; aS; have hx := h.d3; simp only [BSZ] at hx ⊢; first | exact hx | grind [upd, SpmcA.upd, BSZ, newBlock, mkLoc, locOf, ph] | grind (splits := 25) [upd, SpmcA.upd, BSZ, newBlock, mkLoc, locOf, ph])
  case gcnt => (
    sR; aS; intro q' i hq'
    have hx := h.gcnt q' i hq'
    simp only at hx
    rw [gcnt_append, gcnt_gotsOf, hx]
    by_cases hq : q' = l.q
    · subst hq
      simp only [if_true, true_and]
      by_cases hi' : lo ≤ i ∧ i < hi
      · have : lo ≤ i ∧ i < lo + (hi - lo) := by omega
        simp only [hi', this, and_self, if_true]
      · have : ¬(lo ≤ i ∧ i < lo + (hi - lo)) := by omega
        simp only [hi', this, if_false, Nat.add_zero]
    · simp only [hq, false_and, if_false, Nat.add_zero])
  case gval => (
    sR; aS; intro g hg'
    rw [List.mem_append] at hg'
    rcases hg' with hg' | hg'
    · have hx := h.gval g hg'
      simp only at hx
      refine ⟨hx.1, ?_⟩
      by_cases hq : g.q = l.q
      · simp only [hq, if_true]; rw [← hq]; exact hx.2
      · simp only [hq, if_false]; exact hx.2
    · obtain ⟨j, hj, rfl⟩ := mem_gotsOf _ _ _ _ _ _ _ hg'
      refine ⟨hQ, ?_⟩
      simp only [if_true]
      rw [hvals j hj, hdat j hj]
      have hs := hsome j hj
      rw [Option.isSome_iff_exists] at hs
      obtain ⟨v, hv⟩ := hs
      rw [hv]; rfl)
  case olog => (
    sR; aS; intro q' hq'
    have hx := h.olog q' hq'
    simp only at hx
    rw [ownerIdx_append, ownerIdx_gotsOf]
    by_cases hq : q' = l.q
    · subst hq
      simp only [if_true, true_and, sw_zero]
      by_cases htq : t = l.q
      · simp only [htq, if_true, and_self, hx]
      · simp only [htq, if_false, and_false, hx, List.append_nil]
    · simp only [hq, false_and, if_false, List.append_nil]; exact hx)
  case uaf => (sR; aS; have hx := h.uaf; simp only [BSZ] at hx ⊢; first | exact hx | grind [upd, SpmcA.upd, BSZ, newBlock, mkLoc, locOf, ph] | grind (splits := 25) [upd, SpmcA.upd, BSZ, newBlock, mkLoc, locOf, ph])
  case dfree => (sR; aS; have hx := h.dfree; simp only [BSZ] at hx ⊢; first | exact hx | grind [upd, SpmcA.upd, BSZ, newBlock, mkLoc, locOf, ph] | grind (splits := 25) [upd, SpmcA.upd, BSZ, newBlock, mkLoc, locOf, ph])
  case uninit => (sR; aS; have hx := h.uninit; simp only [BSZ] at hx ⊢; first | exact hx | grind [upd, SpmcA.upd, BSZ, newBlock, mkLoc, locOf, ph] | grind (splits := 25) [upd, SpmcA.upd, BSZ, newBlock, mkLoc, locOf, ph])
  case unpub => (sR; aS; have hx := h.unpub; simp only [BSZ] at hx ⊢; first | exact hx | grind [upd, SpmcA.upd, BSZ, newBlock, mkLoc, locOf, ph] | grind (splits := 25) [upd, SpmcA.upd, BSZ, newBlock, mkLoc, locOf, ph])
  ))

set_option maxHeartbeats 1600000 in
theorem rel_tF (n : Nat) (sh : Sh) (pcs : Tid → Pc) (t : Tid) (e : Env) (l : Loc) (lo hi : Nat) (sk : Bool) (as : Nat → SpmcA.St)
    (hS : InvS ⟨n, sh, pcs⟩) (hG : InvG ⟨n, sh, pcs⟩) (h : Rel ⟨n, sh, pcs⟩ as) (hA : ∀ q, q < n → SpmcA.Inv (as q))
    (hg : guard ⟨n, sh, pcs⟩ t e = true) (ht : t < n)
    (hpc : pcs t = .tF l lo hi sk) (sh' : Sh) (pc' : Pc)
    (hts : tstep sh t (.tF l lo hi sk) e = some (sh', pc')) (hS' : InvS ⟨n, sh', upd pcs t pc'⟩) :
    ∃ as', Match as as' ∧ Rel ⟨n, sh', upd pcs t pc'⟩ as' := by
  have hloc : locOf (pcs t) = some l := by rw [hpc]; rfl
  have hph : ph (pcs t) = 4 := by rw [hpc]; rfl
  have mlq := hS.lq t l hloc
  have mlhb := hS.lhb t l hloc (by show 1 ≤ ph (pcs t); omega)
  have mone := hS.one t l hloc (by show 4 ≤ ph (pcs t); omega)
  have mgo := hG.on t l.q (by simp [hpc, onQ])
  have hQ : l.q < n := mlq.1
  have han := h.an (l.q)
  simp only at han
  have hu : sw (l.q) t < (as (l.q)).n := by rw [han]; exact sw_lt _ t n hQ ht
  have rtail := h.tail (l.q) hQ
  have rlock := h.lock (l.q) hQ
  have rhead := h.head (l.q) hQ
  simp only at rtail rlock rhead
  have iA := hA (l.q) hQ
  have mpc := hS.tF t l lo hi sk hpc
  have mal := hS.balign l.hb mlhb.2.1
  have rpc := h.pcs l.q t hQ
  simp only [hpc, absPc, pcQ, absOn, if_true] at rpc
  have ard := iA.rd (sw l.q t) (by rw [rpc]; rfl)
  rw [rpc] at ard
  simp only [SpmcA.hiOf] at ard
  have acut := iA.cut (sw l.q t) (by rw [rpc]; rfl)
  rw [rpc] at acut
  simp only [SpmcA.hiOf] at acut
  have afresh : ∀ i, lo ≤ i → i < hi → (as l.q).sh.cnt i = 0 := fun i h1 h2 =>
    iA.fresh (sw l.q t) i (by rw [rpc]; simp [SpmcA.covers, SpmcA.cutB, SpmcA.goB, SpmcA.loOf, SpmcA.hiOf, h1, h2])
  simp only [BSZ] at mpc mal mlhb
  have hsk := mpc.2.2.2
  subst hsk
  have mlive : (sh.blks l.hb).freed = false :=
    blk_live ⟨n, sh, pcs⟩ as h l.hb (lo) mlhb.2.1 (by simp only [BSZ] at *; omega) (by simp only [BSZ] at *; omega)
      (by rw [mlhb.2.2]; exact afresh lo (Nat.le_refl _) mpc.2.1) (by rw [mlhb.2.2]; exact mgo)
  have hdat : ∀ j, j < hi - lo → (sh.blks l.hb).data ((lo + j) % BSZ) = (as l.q).sh.slot (lo + j) := by
    intro j hj
    have h1 := h.slot l.hb (lo + j - (sh.blks l.hb).start) mlhb.2.1 (by simp only [BSZ]; omega)
    rw [mlhb.2.2] at h1
    simp only at h1
    have e1 : (sh.blks l.hb).start + (lo + j - (sh.blks l.hb).start) = lo + j := by omega
    have e2 : (lo + j) % BSZ = lo + j - (sh.blks l.hb).start := by simp only [BSZ]; omega
    rw [e2, ← h1, e1]
  have hsome : ∀ j, j < hi - lo → ((as l.q).sh.slot (lo + j)).isSome = true := fun j hj => iA.wr _ (by omega)
  have mused : (sh.blks l.hb).used = unread (as l.q).sh.cnt (sh.blks l.hb).start 32 := by
    have := h.used l.hb mlhb.2.1
    rw [mlhb.2.2] at this
    exact this
  have mup : 0 < (sh.blks l.hb).used := by
    rw [mused]; exact unread_pos _ _ _ lo (by omega) (by omega) (afresh lo (Nat.le_refl _) mpc.2.1)
  have mrd := unread_read (as l.q).sh.cnt (sh.blks l.hb).start 32 lo hi (by omega) (by omega) (by omega) afresh
  have many := readSlots_any sh l.hb lo hi (fun j hj => by rw [hdat j hj]; exact hsome j hj)
  have mntf : ∀ u l' v', pcs u = .tFree l' v' → l'.hb ≠ l.hb := by
    intro u l' v' hu' hc
    have := (h.tfree u l' v' hu').1
    simp only at this
    rw [hc] at this
    omega
  try simp only [BSZ] at mlq
  try simp only [BSZ] at mlhb
  try simp only [BSZ] at mone
  try simp only [BSZ] at mgo
  try simp only [BSZ] at mpc
  try simp only [BSZ] at mal
  try simp only [BSZ] at mrd
  try simp only [BSZ] at many
  simp only [tstep, touch_live sh l.hb mlive, Bool.false_eq_true, if_false, Bool.not_false, Bool.true_and, many, Bool.or_false,
    readSlots_length, Option.some.injEq, Prod.mk.injEq] at hts
  obtain ⟨rfl, rfl⟩ := hts
  have hvals := fun j hj => readSlots_getD sh l.hb lo hi j hj
  generalize hvv : List.map (fun (o : Option Val) => o.getD 0) _ = vv at hvals ⊢
  rw [gots_eq]
  by_cases hz : (sh.blks l.hb).used = hi - lo
  · simp only [hz, if_true]
    refine ⟨_, match2 as l.q (sw l.q t) .go .go (.tRead lo hi) _ _ _ _ hu rpc (by simp only [SpmcA.tstep]; rfl) (by simp only [SpmcA.tstep]; rfl), ?_⟩
    fin_pc
  · simp only [hz, if_false]
    refine ⟨_, match2 as l.q (sw l.q t) .go .go (.tRead lo hi) _ _ _ _ hu rpc (by simp only [SpmcA.tstep]; rfl) (by simp only [SpmcA.tstep]; rfl), rel_entry n _ pcs t _ _ ?_ (deliver_entry n t l vv mlq.1 ht)⟩
    fin_pc

end MayVerif.Spmc
