/-
  Level-B spmc ⊑ level-A spmc: the combined invariant `Sim` (structure, `Drop` discipline, simulation relation,
  every level-A instance reachable), its preservation by every level-B step (`sim_step`), and along every
  schedule (`sim_run`, `sim_reach`).
-/
import MayVerif.Proof.Queue.Spmc.StepR
import MayVerif.Proof.Queue.SpmcA.Order
import MayVerif.Proof.Queue.SpmcA.PushLog
namespace MayVerif.Spmc
local notation "Tid" => Nat

theorem A_run_append (a : SpmcA.St) (l1 l2 : List (Nat × SpmcA.Env)) :
    SpmcA.run a (l1 ++ l2) = SpmcA.run (SpmcA.run a l1) l2 := by
  induction l1 generalizing a with
  | nil => rfl
  | cons te r ih =>
    obtain ⟨t, e⟩ := te
    simp only [List.cons_append, SpmcA.run]
    split <;> exact ih _

/-- the level-B state `s` is simulated by the level-A states `as` (one instance per queue), each of which is a
    reachable state of the level-A model -/
structure Sim (s : St) (as : Nat → SpmcA.St) : Prop where
  S : InvS s
  G : InvG s
  R : Rel s as
  A : ∀ q, ∃ schedA, as q = SpmcA.run (SpmcA.init s.n) schedA

theorem sim_init (n : Nat) : Sim (init n) (fun _ => SpmcA.init n) :=
  ⟨invS_init n, invG_init n, rel_init n, fun _ => ⟨[], rfl⟩⟩

theorem step_n (s s' : St) (t : Tid) (e : Env) (hs : step s t e = some s') : s'.n = s.n := by
  simp only [step] at hs
  split at hs
  · split at hs
    · contradiction
    · simp only [Option.some.injEq] at hs; subst hs; rfl
  · contradiction

theorem sim_A (s : St) (as : Nat → SpmcA.St) (h : Sim s as) (q : Nat) : SpmcA.Inv (as q) := by
  obtain ⟨sch, hq⟩ := h.A q
  rw [hq]; exact SpmcA.inv_reach _ sch

/-- **one level-B step ↦ at most two level-A steps, in one instance** -/
theorem sim_step (s s' : St) (as : Nat → SpmcA.St) (t : Tid) (e : Env) (h : Sim s as) (hs : step s t e = some s') :
    ∃ as', Match as as' ∧ Sim s' as' := by
  have hA : ∀ q, q < s.n → SpmcA.Inv (as q) := fun q _ => sim_A s as h q
  have hl := head_live s as h.S h.R hA
  have hS' := invS_step s s' t e h.S hl (h.G.on t) hs
  have hG' := invG_step s s' t e h.S h.G hs
  obtain ⟨as', hm, hR'⟩ := rel_step s s' as t e h.S h.G h.R hA hs hS'
  refine ⟨as', hm, hS', hG', hR', ?_⟩
  intro q
  obtain ⟨l, _, hl⟩ := hm q
  obtain ⟨sch, hq⟩ := h.A q
  refine ⟨sch ++ l, ?_⟩
  rw [hl, hq, A_run_append, step_n s s' t e hs]

theorem sim_run (s : St) (as : Nat → SpmcA.St) (sched : List (Tid × Env)) (h : Sim s as) :
    ∃ as', Sim (run s sched) as' := by
  induction sched generalizing s as with
  | nil => exact ⟨as, h⟩
  | cons te r ih =>
    obtain ⟨t, e⟩ := te
    simp only [run]
    split
    · next s' hs =>
      obtain ⟨as', _, h'⟩ := sim_step s s' as t e h hs
      exact ih s' as' h'
    · exact ih s as h

theorem sim_reach (n : Nat) (sched : List (Tid × Env)) : ∃ as, Sim (run (init n) sched) as :=
  sim_run _ _ sched (sim_init n)

theorem run_n (s : St) (l : List (Tid × Env)) : (run s l).n = s.n := by
  induction l generalizing s with
  | nil => rfl
  | cons te r ih =>
    obtain ⟨t, e⟩ := te
    simp only [run]
    split
    · next s' hs => rw [ih, step_n s s' t e hs]
    · exact ih _

end MayVerif.Spmc
