import MayVerif.Proof.Queue.Spmc.RelLemmas
namespace MayVerif.Spmc
local notation "Tid" => Nat
local notation "Bid" => Nat
local notation "Qid" => Nat
local notation "Val" => Nat

set_option hygiene false in
local macro "fin_pc" : tactic => `(tactic| (
  constructor
  case an => (sR; aS; have hx := h.an; simp only [BSZ] at hx ⊢; first | exact hx | grind [upd, SpmcA.upd, BSZ, newBlock, mkLoc, locOf, ph] | grind (splits := 25) [upd, SpmcA.upd, BSZ, newBlock, mkLoc, locOf, ph])
  case tail => (sR; aS; have hx := h.tail; simp only [BSZ] at hx ⊢; first | exact hx | grind [upd, SpmcA.upd, BSZ, newBlock, mkLoc, locOf, ph] | grind (splits := 25) [upd, SpmcA.upd, BSZ, newBlock, mkLoc, locOf, ph])
  case lock => (sR; aS; have hx := h.lock; simp only [BSZ] at hx ⊢; first | exact hx | grind [upd, SpmcA.upd, BSZ, newBlock, mkLoc, locOf, ph] | grind (splits := 25) [upd, SpmcA.upd, BSZ, newBlock, mkLoc, locOf, ph])
  case head => (sR; aS; have hx := h.head; simp only [BSZ] at hx ⊢; first | exact hx | grind [upd, SpmcA.upd, BSZ, newBlock, mkLoc, locOf, ph] | grind (splits := 25) [upd, SpmcA.upd, BSZ, newBlock, mkLoc, locOf, ph])
  case pcs => (sR; (first | refine pcs_frame0 n sh.blks _ pcs as t _ h.pcs ?_ ?_ | refine pcs_frame n sh.blks _ pcs as t _ _ _ _ _ h.pcs ?_ ?_) <;> first
    | (intro t' l' hne hl hp; first | rfl | (have hb := hS.lhb t' l' hl hp; simp only [BSZ] at hb; grind [upd, newBlock]))
    | (intro q' hq'; simp only [hpc, absPc, pcQ, absOn]; first | rfl | grind [mkLoc]))
  case slot => (sR; aS; have hx := h.slot; simp only [BSZ] at hx ⊢; first | exact hx | grind [upd, SpmcA.upd, BSZ, newBlock, mkLoc, locOf, ph] | grind (splits := 25) [upd, SpmcA.upd, BSZ, newBlock, mkLoc, locOf, ph])
  case fut => (sR; aS; have hx := h.fut; simp only [BSZ] at hx ⊢; first | exact hx | grind [upd, SpmcA.upd, BSZ, newBlock, mkLoc, locOf, ph] | grind (splits := 25) [upd, SpmcA.upd, BSZ, newBlock, mkLoc, locOf, ph])
  case used => (sR; aS; have hx := h.used; simp only [BSZ] at hx ⊢; first | exact hx | grind [upd, SpmcA.upd, BSZ, newBlock, mkLoc, locOf, ph] | grind (splits := 25) [upd, SpmcA.upd, BSZ, newBlock, mkLoc, locOf, ph])
  case fr => (sR; aS; have hx := h.fr; simp only [BSZ] at hx ⊢; first | exact hx | grind [upd, SpmcA.upd, BSZ, newBlock, mkLoc, locOf, ph] | grind (splits := 25) [upd, SpmcA.upd, BSZ, newBlock, mkLoc, locOf, ph])
  case tfree => (sR; aS; have hx := h.tfree; simp only [BSZ] at hx ⊢; first | exact hx | grind [upd, SpmcA.upd, BSZ, newBlock, mkLoc, locOf, ph] | grind (splits := 25) [upd, SpmcA.upd, BSZ, newBlock, mkLoc, locOf, ph])
  case tfu => (sR; aS; have hx := h.tfu; simp only [BSZ] at hx ⊢; first | exact hx | grind [upd, SpmcA.upd, BSZ, newBlock, mkLoc, locOf, ph] | grind (splits := 25) [upd, SpmcA.upd, BSZ, newBlock, mkLoc, locOf, ph])
  case d3 => (sR; aS; have hx := h.d3; simp only [BSZ] at hx ⊢; first | exact hx | grind [upd, SpmcA.upd, BSZ, newBlock, mkLoc, locOf, ph] | grind (splits := 25) [upd, SpmcA.upd, BSZ, newBlock, mkLoc, locOf, ph])
  case gcnt => (sR; aS; have hx := h.gcnt; simp only [BSZ] at hx ⊢; first | exact hx | grind [upd, SpmcA.upd, BSZ, newBlock, mkLoc, locOf, ph] | grind (splits := 25) [upd, SpmcA.upd, BSZ, newBlock, mkLoc, locOf, ph])
  case gval => (sR; aS; have hx := h.gval; simp only [BSZ] at hx ⊢; first | exact hx | grind [upd, SpmcA.upd, BSZ, newBlock, mkLoc, locOf, ph] | grind (splits := 25) [upd, SpmcA.upd, BSZ, newBlock, mkLoc, locOf, ph])
  case olog => (sR; aS; have hx := h.olog; simp only [BSZ] at hx ⊢; first | exact hx | grind [upd, SpmcA.upd, BSZ, newBlock, mkLoc, locOf, ph] | grind (splits := 25) [upd, SpmcA.upd, BSZ, newBlock, mkLoc, locOf, ph])
  case uaf => (sR; aS; have hx := h.uaf; simp only [BSZ] at hx ⊢; first | exact hx | grind [upd, SpmcA.upd, BSZ, newBlock, mkLoc, locOf, ph] | grind (splits := 25) [upd, SpmcA.upd, BSZ, newBlock, mkLoc, locOf, ph])
  case dfree => (sR; aS; have hx := h.dfree; simp only [BSZ] at hx ⊢; first | exact hx | grind [upd, SpmcA.upd, BSZ, newBlock, mkLoc, locOf, ph] | grind (splits := 25) [upd, SpmcA.upd, BSZ, newBlock, mkLoc, locOf, ph])
  case uninit => (sR; aS; have hx := h.uninit; simp only [BSZ] at hx ⊢; first | exact hx | grind [upd, SpmcA.upd, BSZ, newBlock, mkLoc, locOf, ph] | grind (splits := 25) [upd, SpmcA.upd, BSZ, newBlock, mkLoc, locOf, ph])
  case unpub => (sR; aS; have hx := h.unpub; simp only [BSZ] at hx ⊢; first | exact hx | grind [upd, SpmcA.upd, BSZ, newBlock, mkLoc, locOf, ph] | grind (splits := 25) [upd, SpmcA.upd, BSZ, newBlock, mkLoc, locOf, ph])
  ))

set_option maxHeartbeats 1600000 in
theorem rel_idle (n : Nat) (sh : Sh) (pcs : Tid → Pc) (t : Tid) (e : Env)  (as : Nat → SpmcA.St)
    (hS : InvS ⟨n, sh, pcs⟩) (hG : InvG ⟨n, sh, pcs⟩) (h : Rel ⟨n, sh, pcs⟩ as) (hA : ∀ q, q < n → SpmcA.Inv (as q))
    (hg : guard ⟨n, sh, pcs⟩ t e = true) (ht : t < n)
    (hpc : pcs t = .idle ) (sh' : Sh) (pc' : Pc)
    (hts : tstep sh t (.idle ) e = some (sh', pc')) (hS' : InvS ⟨n, sh', upd pcs t pc'⟩) :
    ∃ as', Match as as' ∧ Rel ⟨n, sh', upd pcs t pc'⟩ as' := by
  skip
  cases e with
  | go => simp [tstep] at hts
  | adv a b => simp [tstep] at hts
  | start o =>
    simp only [guard, hpc] at hg
    cases o <;> simp only [tstep] at hts <;> (try split at hts) <;> (try contradiction) <;>
      simp only [Option.some.injEq, Prod.mk.injEq] at hts <;> obtain ⟨rfl, rfl⟩ := hts <;>
      simp only [opOk, alive, Bool.and_eq_true, decide_eq_true_eq, Bool.not_eq_true'] at hg
    case start.lpop.isTrue q _ =>
      have hq : q = t := by assumption
      have hQ : q < n := hg.1
      have han := h.an (q)
      simp only at han
      have hu : sw (q) t < (as (q)).n := by rw [han]; exact sw_lt _ t n hQ ht
      have rtail := h.tail (q) hQ
      have rlock := h.lock (q) hQ
      have rhead := h.head (q) hQ
      simp only at rtail rlock rhead
      have iA := hA (q) hQ
      have rpc := h.pcs q t hQ
      simp only [hpc, absPc, pcQ, absOn] at rpc
      have hsw : sw q t = 0 := by rw [hq]; exact sw_self t
      refine ⟨_, match1 as q (sw q t) .lpop .idle _ _ hu (by simpa using rpc) (by simp only [SpmcA.tstep, hsw, ↓reduceIte]; rfl), ?_⟩
      fin_pc
    all_goals (refine ⟨as, match_refl as, ?_⟩; fin_pc)

end MayVerif.Spmc
