/-
  Level-B spmc: leaving a routine towards an API return / the first program point of the next routine of a
  composed call preserves `Rel` (all these program points are `idle` at level A).
-/
import MayVerif.Proof.Queue.Spmc.RelLemmas
namespace MayVerif.Spmc
local notation "Tid" => Nat
local notation "Bid" => Nat
local notation "Qid" => Nat
local notation "Val" => Nat

theorem entry_not_tFree (n : Nat) (t : Tid) (pc : Pc) (he : EntryPc n t pc) : (∀ l v, pc ≠ .tFree l v) ∧ (∀ q b, pc ≠ .d3 q b) := by
  rcases he with he | he | ⟨r, he⟩ | ⟨r, he⟩ | ⟨i, m, he⟩ | ⟨r, he⟩ | ⟨x, k, he, hlt⟩ | ⟨q', he, hq⟩ | ⟨q', he, hq, hlt⟩ <;>
    subst he <;> simp

theorem rel_entry (n : Nat) (sh : Sh) (pcs : Tid → Pc) (t : Tid) (pc' : Pc) (as : Nat → SpmcA.St)
    (h : Rel ⟨n, sh, upd pcs t .idle⟩ as) (he : EntryPc n t pc') : Rel ⟨n, sh, upd pcs t pc'⟩ as := by
  have hne := entry_not_tFree n t pc' he
  have hupd : ∀ u, u ≠ t → upd pcs t .idle u = pcs u := by intro u hu; simp [upd, hu]
  constructor
  case an => exact h.an
  case tail => exact h.tail
  case lock => exact h.lock
  case head => exact h.head
  case slot => exact h.slot
  case fut => exact h.fut
  case used => exact h.used
  case fr => exact h.fr
  case gcnt => exact h.gcnt
  case gval => exact h.gval
  case olog => exact h.olog
  case uaf => exact h.uaf
  case dfree => exact h.dfree
  case uninit => exact h.uninit
  case unpub => exact h.unpub
  case pcs =>
    intro q u hq
    have := h.pcs q u hq
    simp only at this ⊢
    by_cases hu : u = t
    · subst hu
      simp only [upd, if_true] at this ⊢
      rw [this, absPc_entry n u sh.blks q pc' he]; simp [absPc, pcQ]
    · simp only [upd, hu, if_false] at this ⊢; exact this
  case tfree => (have hx := h.tfree; simp only at hx ⊢; grind [upd])
  case tfu => (have hx := h.tfu; simp only at hx ⊢; grind [upd])
  case d3 => (have hx := h.d3; simp only at hx ⊢; grind [upd])

end MayVerif.Spmc
