/-
  Level-B spmc: the structural invariant `InvS` (blocks, chain, locals of the routines) – no level-A state.

  Blocks of one queue are identified by the ghost `own` and by their `start`: two allocated blocks of the same
  queue with the same start are the same block (`uniq`), `next` links a block to the one that starts `BSZ` later,
  the only block without successor is `last` (the newest one), which is `tail.block` except between the two
  stores of a boundary push. The locals of a routine name allocated blocks of the routine's queue.
  The owner's `local_pop` works on exact copies of `tail.index` / `tail.block`, and a stale head block in its
  hands was freed after every block of its queue was allocated (no ABA for the owner).
-/
import MayVerif.Model.Queue.Spmc
namespace MayVerif.Spmc
local notation "Tid" => Nat
local notation "Bid" => Nat
local notation "Qid" => Nat
local notation "Val" => Nat

/-- locals of a taker routine -/
def locOf : Pc → Option Loc
  | .t0 l | .t1 l | .t2 l | .tT l | .tE l | .t4 l .. | .t5 l _ | .t6r l | .t6 l .. | .t7 l .. | .t8 l .. | .t9 l _
  | .tF l .. | .tFree l _ => some l
  | _ => none

/-- progress inside a taker routine: 1 = `head` loaded, 2 = `push_index` loaded, 3 = `tail_block` loaded,
    4 = the compare-exchange on `head` succeeded -/
def ph : Pc → Nat
  | .t1 _ => 1 | .t2 _ => 2 | .tT _ | .tE _ => 3
  | .t4 .. | .t5 .. | .t6r _ | .t6 .. | .t7 .. | .t8 .. | .t9 .. | .tF .. | .tFree .. => 4
  | _ => 0

/-- between the `tail.block` store and the `tail.index` store of a boundary push (`tail.block` is the new
    block, `tail.index` still the last index of the old one), or just before the `tail.block` store -/
def bndPc : Pc → Bool
  | .pu3 .. => true
  | .pu4 _ pi _ => decide ((pi + 1) % BSZ = 0)
  | _ => false

def pu3Pc : Pc → Bool
  | .pu3 .. => true
  | _ => false

structure InvS (s : St) : Prop where
  -- blocks
  bown : ∀ b, b < s.sh.nextB → (s.sh.blks b).own < s.n
  balign : ∀ b, b < s.sh.nextB → (s.sh.blks b).start % BSZ = 0
  bnext : ∀ b c, b < s.sh.nextB → (s.sh.blks b).next = some c →
            c < s.sh.nextB ∧ (s.sh.blks c).own = (s.sh.blks b).own ∧ (s.sh.blks c).start = (s.sh.blks b).start + BSZ
  uniq : ∀ b c, b < s.sh.nextB → c < s.sh.nextB → (s.sh.blks b).own = (s.sh.blks c).own →
            (s.sh.blks b).start = (s.sh.blks c).start → b = c
  bnone : ∀ b, b < s.sh.nextB → (s.sh.blks b).next = none → b = (s.sh.qs (s.sh.blks b).own).last
  -- queues
  qlast : ∀ q, q < s.n → (s.sh.qs q).last < s.sh.nextB ∧ (s.sh.blks (s.sh.qs q).last).own = q
  qmax : ∀ q b, q < s.n → b < s.sh.nextB → (s.sh.blks b).own = q → (s.sh.blks b).start ≤ (s.sh.blks (s.sh.qs q).last).start
  qmaxid : ∀ q b, q < s.n → b < s.sh.nextB → (s.sh.blks b).own = q → b ≤ (s.sh.qs q).last
  ffg : ∀ b, (s.sh.blks b).freed = true → b < (s.sh.blks b).fgen
  qtb : ∀ q, q < s.n → pu3Pc (s.pcs q) = false → (s.sh.qs q).tblk = (s.sh.qs q).last
  qti : ∀ q, q < s.n → (s.sh.blks (s.sh.qs q).last).start ≤ (s.sh.qs q).tidx + 1 ∧
            (s.sh.qs q).tidx < (s.sh.blks (s.sh.qs q).last).start + BSZ
  qtn : ∀ q, q < s.n → bndPc (s.pcs q) = false → (s.sh.blks (s.sh.qs q).last).start ≤ (s.sh.qs q).tidx
  qtbnd : ∀ q, q < s.n → bndPc (s.pcs q) = true → (s.sh.blks (s.sh.qs q).last).start = (s.sh.qs q).tidx + 1
  qhead : ∀ q, q < s.n → (s.sh.qs q).head.blk < s.sh.nextB ∧ (s.sh.blks (s.sh.qs q).head.blk).own = q ∧
            (s.sh.qs q).head.idx < BSZ
  -- push
  pu0 : ∀ t q v k, s.pcs t = .pu0 q v k → q = t ∧ t < s.n
  pu1 : ∀ t q v tb k, s.pcs t = .pu1 q v tb k → q = t ∧ t < s.n ∧ tb = (s.sh.qs q).tblk
  pu2 : ∀ t q tb pi k, s.pcs t = .pu2 q tb pi k → q = t ∧ t < s.n ∧ tb = (s.sh.qs q).tblk ∧ pi = (s.sh.qs q).tidx ∧
            (pi + 1) % BSZ = 0
  pu3 : ∀ t q nb pi k, s.pcs t = .pu3 q nb pi k → q = t ∧ t < s.n ∧ nb = (s.sh.qs q).last ∧ pi = (s.sh.qs q).tidx ∧
            (pi + 1) % BSZ = 0
  pu4 : ∀ t q pi k, s.pcs t = .pu4 q pi k → q = t ∧ t < s.n ∧ pi = (s.sh.qs q).tidx
  -- takers
  lq : ∀ t l, locOf (s.pcs t) = some l → l.q < s.n ∧ t < s.n ∧ (l.k = .lpop → l.q = t)
  lhb : ∀ t l, locOf (s.pcs t) = some l → 1 ≤ ph (s.pcs t) →
            l.hi < BSZ ∧ l.hb < s.sh.nextB ∧ (s.sh.blks l.hb).own = l.q
  -- the owner's local_pop
  ofr : ∀ t l, locOf (s.pcs t) = some l → 1 ≤ ph (s.pcs t) → l.k = .lpop → (s.sh.blks l.hb).freed = true →
            (s.sh.qs t).last < (s.sh.blks l.hb).fgen
  opi : ∀ t l, locOf (s.pcs t) = some l → 2 ≤ ph (s.pcs t) → l.k = .lpop → l.pi = (s.sh.qs t).tidx
  otb : ∀ t l, locOf (s.pcs t) = some l → 3 ≤ ph (s.pcs t) → l.k = .lpop → l.tb = (s.sh.qs t).tblk
  one : ∀ t l, locOf (s.pcs t) = some l → 4 ≤ ph (s.pcs t) → l.k = .lpop → (s.sh.blks l.hb).start + l.hi < l.pi
  -- claimed ranges
  t4 : ∀ t l lk nid, s.pcs t = .t4 l lk nid → lk = false → l.hi < nid ∧ nid < BSZ
  t4k : ∀ t l lk nid, s.pcs t = .t4 l lk nid → lk = true → l.k ≠ .bulk → l.hi + 1 = BSZ
  t4n : ∀ t l lk nid, s.pcs t = .t4 l lk nid → l.k ≠ .bulk → nid = l.hi + 1
  t5 : ∀ t l lo, s.pcs t = .t5 l lo → lo = (s.sh.blks l.hb).start + l.hi ∧ (l.k ≠ .bulk → l.hi + 1 = BSZ)
  t6 : ∀ t l lo hi, s.pcs t = .t6 l lo hi → lo = (s.sh.blks l.hb).start + l.hi ∧ hi = (s.sh.blks l.hb).start + BSZ
  t7 : ∀ t l lo hi nh, s.pcs t = .t7 l lo hi nh → lo = (s.sh.blks l.hb).start + l.hi ∧ lo < hi ∧
            hi ≤ (s.sh.blks l.hb).start + BSZ ∧ nh.blk < s.sh.nextB ∧ (s.sh.blks nh.blk).own = l.q ∧ nh.idx < BSZ ∧
            nh.lock = false ∧ (s.sh.blks nh.blk).start + nh.idx = hi
  t8 : ∀ t l lo hi, s.pcs t = .t8 l lo hi → lo = (s.sh.blks l.hb).start + l.hi ∧ lo < hi ∧
            hi ≤ (s.sh.blks l.hb).start + BSZ
  tF : ∀ t l lo hi sk, s.pcs t = .tF l lo hi sk → lo = (s.sh.blks l.hb).start + l.hi ∧ lo < hi ∧
            hi ≤ (s.sh.blks l.hb).start + BSZ ∧ sk = false
  t9 : ∀ t l lo, s.pcs t ≠ .t9 l lo
  tTk : ∀ t l, s.pcs t = .tT l → l.k ≠ .empt
  d1 : ∀ t q, s.pcs t = .d1 q → q < s.n
  d2 : ∀ t q hb, s.pcs t = .d2 q hb → q < s.n ∧ hb < s.sh.nextB ∧ (s.sh.blks hb).own = q
  d3 : ∀ t q b, s.pcs t = .d3 q b → q < s.n ∧ b < s.sh.nextB ∧ (s.sh.blks b).own = q
  fresh : ∀ b, s.sh.nextB ≤ b → (s.sh.blks b).freed = false
  idle : ∀ t, s.n ≤ t → s.pcs t = .idle

/-- the block `head` points to has not been freed (a consequence of the counting invariant of `Rel`) -/
def HeadLive (s : St) : Prop :=
  ∀ q, q < s.n → (s.sh.qs q).gone = false → (s.sh.blks (s.sh.qs q).head.blk).freed = false

theorem deliver_cases (me : Tid) (l : Loc) (vals : List Val) :
    (∃ r, deliver me l vals = .rPop r) ∨ (∃ r, deliver me l vals = .rLpop r) ∨ (∃ i n, deliver me l vals = .rBulk i n) ∨
    (∃ r, deliver me l vals = .rSteal r) ∨ (∃ x xs r, deliver me l vals = .pu0 me x (.steal xs r) ∧ l.cx = .steal ∧ l.k = .bulk) ∨
    (deliver me l vals = .d1 l.q ∧ l.cx = .drop) ∨ (deliver me l vals = .t0 (mkLoc l.q .bulk .drop) ∧ l.cx = .drop) ∨
    deliver me l vals = .idle := by
  obtain ⟨q, k, cx, hb, hi, pi, tb⟩ := l
  cases k <;> cases cx <;> simp [deliver, afterPush]
  · cases vals.dropLast <;> simp [afterPush]
  · split <;> simp_all

/-- the program points a routine is left to: API returns, and the first point of the routine a composed call
    (`steal_into`, `Drop`) goes on with; nothing is claimed or held there -/
def EntryPc (n : Nat) (t : Tid) (pc : Pc) : Prop :=
  pc = .idle ∨ pc = .rPush ∨ (∃ r, pc = .rPop r) ∨ (∃ r, pc = .rLpop r) ∨ (∃ i m, pc = .rBulk i m) ∨ (∃ r, pc = .rSteal r) ∨
  (∃ x k, pc = .pu0 t x k ∧ t < n) ∨ (∃ q, pc = .d1 q ∧ q < n) ∨ (∃ q, pc = .t0 (mkLoc q .bulk .drop) ∧ q < n ∧ t < n)

theorem deliver_entry (n : Nat) (me : Tid) (l : Loc) (vals : List Val) (hq : l.q < n) (ht : me < n) :
    EntryPc n me (deliver me l vals) := by
  unfold EntryPc
  rcases deliver_cases me l vals with ⟨r, hd⟩ | ⟨r, hd⟩ | ⟨i, n', hd⟩ | ⟨r, hd⟩ | ⟨x, xs, r, hd, _, _⟩ | ⟨hd, _⟩ | ⟨hd, _⟩ | hd <;>
    rw [hd] <;> (try simp [hq, ht])
  exact ⟨l.q, rfl, hq⟩

theorem afterPush_entry (n : Nat) (me : Tid) (k : PK) (ht : me < n) : EntryPc n me (afterPush me k) := by
  unfold EntryPc
  cases k with
  | plain => simp [afterPush]
  | steal xs r => cases xs <;> simp [afterPush, ht]

theorem upd_upd {α : Type} (f : Nat → α) (t : Nat) (a b : α) : upd (upd f t a) t b = upd f t b := by
  funext u; simp only [upd]; split <;> rfl

theorem retStep_deliver_nil (sh : Sh) (me : Tid) (l : Loc) (hk : l.k ≠ .empt) :
    retStep sh (deliver me l []) =
      some (sh, if l.k = .bulk ∧ l.cx = .drop then .d2 l.q (sh.qs l.q).head.blk else .idle) := by
  obtain ⟨q, k, cx, hb, hi, pi, tb⟩ := l
  cases k <;> cases cx <;> simp_all [deliver, afterPush, retStep]

end MayVerif.Spmc
