/-
  Level-B spmc: projection lemmas for the state-update helpers and the tactics of the `InvS` proofs.
-/
import MayVerif.Proof.Queue.Spmc.InvS
namespace MayVerif.Spmc
local notation "Tid" => Nat
local notation "Bid" => Nat
local notation "Qid" => Nat

@[simp] theorem touch_blks (sh : Sh) (b : Bid) : (touch sh b).blks = sh.blks := by unfold touch; split <;> rfl
@[simp] theorem touch_qs (sh : Sh) (b : Bid) : (touch sh b).qs = sh.qs := by unfold touch; split <;> rfl
@[simp] theorem touch_nextB (sh : Sh) (b : Bid) : (touch sh b).nextB = sh.nextB := by unfold touch; split <;> rfl
@[simp] theorem touch_got (sh : Sh) (b : Bid) : (touch sh b).got = sh.got := by unfold touch; split <;> rfl
@[simp] theorem touch_uninit (sh : Sh) (b : Bid) : (touch sh b).uninit = sh.uninit := by unfold touch; split <;> rfl
@[simp] theorem touch_unpub (sh : Sh) (b : Bid) : (touch sh b).unpub = sh.unpub := by unfold touch; split <;> rfl
@[simp] theorem touch_dfree (sh : Sh) (b : Bid) : (touch sh b).dfree = sh.dfree := by unfold touch; split <;> rfl
theorem touch_live (sh : Sh) (b : Bid) (h : (sh.blks b).freed = false) : touch sh b = sh := by
  unfold touch; simp [h]

@[simp] theorem setHead_blks (sh : Sh) (q : Qid) (h : HeadW) : (setHead sh q h).blks = sh.blks := rfl
@[simp] theorem setHead_nextB (sh : Sh) (q : Qid) (h : HeadW) : (setHead sh q h).nextB = sh.nextB := rfl
@[simp] theorem setHead_qs (sh : Sh) (q : Qid) (h : HeadW) :
    (setHead sh q h).qs = upd sh.qs q { (sh.qs q) with head := h } := rfl
@[simp] theorem setBlk_blks (sh : Sh) (b : Bid) (f : Block → Block) :
    (setBlk sh b f).blks = upd sh.blks b (f (sh.blks b)) := rfl
@[simp] theorem setBlk_qs (sh : Sh) (b : Bid) (f : Block → Block) : (setBlk sh b f).qs = sh.qs := rfl
@[simp] theorem setBlk_nextB (sh : Sh) (b : Bid) (f : Block → Block) : (setBlk sh b f).nextB = sh.nextB := rfl
@[simp] theorem freeBlk_blks (sh : Sh) (b : Bid) :
    (freeBlk sh b).blks = upd sh.blks b { (sh.blks b) with freed := true, fgen := sh.nextB } := by
  unfold freeBlk; split <;> rfl
@[simp] theorem freeBlk_qs (sh : Sh) (b : Bid) : (freeBlk sh b).qs = sh.qs := by unfold freeBlk; split <;> rfl
@[simp] theorem freeBlk_nextB (sh : Sh) (b : Bid) : (freeBlk sh b).nextB = sh.nextB := by unfold freeBlk; split <;> rfl

macro "sS" : tactic => `(tactic| simp only [setBlk_blks, setBlk_qs, setBlk_nextB, touch_blks, touch_qs, touch_nextB,
  setHead_blks, setHead_qs, setHead_nextB, freeBlk_blks, freeBlk_qs, freeBlk_nextB])

set_option hygiene false in
macro "destruct_invS" : tactic => `(tactic| (
  obtain ⟨hbown, hbalign, hbnext, huniq, hbnone, hqlast, hqmax, hqmaxid, hffg, hqtb, hqti, hqtn, hqtbnd, hqhead, hpu0, hpu1, hpu2, hpu3, hpu4,
    hlq, hlhb, hofr, hopi, hotb, hone, ht4, ht4k, ht4n, ht5, ht6, ht7, ht8, htF, ht9, htTk, hd1, hd2, hd3, hfresh, hidle⟩ := h
  simp only at hbown hbalign hbnext huniq hbnone hqlast hqmax hqmaxid hffg hqtb hqti hqtn hqtbnd hqhead hpu0 hpu1 hpu2 hpu3 hpu4 hlq hlhb hofr hopi hotb hone ht4 ht4k ht4n ht5 ht6 ht7 ht8 htF ht9 htTk hd1 hd2 hd3 hfresh hidle))

end MayVerif.Spmc
