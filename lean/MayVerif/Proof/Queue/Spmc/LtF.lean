/-
  Level-B spmc: facts about the slot reads of the `used.fetch_sub` step.
-/
import MayVerif.Proof.Queue.Spmc.EntryR
namespace MayVerif.Spmc
local notation "Tid" => Nat
local notation "Bid" => Nat
local notation "Qid" => Nat
local notation "Val" => Nat

theorem readSlots_length (sh : Sh) (b : Bid) (lo hi : Nat) : (readSlots sh b lo hi).length = hi - lo := by
  simp [readSlots]

theorem readSlots_getD (sh : Sh) (b : Bid) (lo hi j : Nat) (hj : j < hi - lo) :
    ((readSlots sh b lo hi).map (fun o => o.getD 0)).getD j 0 = ((sh.blks b).data ((lo + j) % BSZ)).getD 0 := by
  simp [readSlots, List.getD, hj]

theorem readSlots_any (sh : Sh) (b : Bid) (lo hi : Nat)
    (h : ∀ j, j < hi - lo → ((sh.blks b).data ((lo + j) % BSZ)).isSome = true) :
    (readSlots sh b lo hi).any (fun o => o.isNone) = false := by
  rw [List.any_eq_false]
  intro o ho
  simp only [readSlots, List.mem_map, List.mem_range] at ho
  obtain ⟨j, hj, rfl⟩ := ho
  have := h j hj
  cases hd : (sh.blks b).data ((lo + j) % BSZ) <;> simp_all

/-- the entries appended by the read of `[lo, hi)` -/
theorem gots_eq (me q lo k : Nat) (vv : List Val) (d : Bool) :
    List.map (fun j => ({ t := me, q := q, i := lo + j, v := vv.getD j 0, dropped := d } : Got)) (List.range k) =
      gotsOf me q lo k (fun j => vv.getD j 0) d := rfl

end MayVerif.Spmc
