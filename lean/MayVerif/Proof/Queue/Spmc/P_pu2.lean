import MayVerif.Proof.Queue.Spmc.RelLemmas
namespace MayVerif.Spmc
local notation "Tid" => Nat
local notation "Bid" => Nat
local notation "Qid" => Nat
local notation "Val" => Nat

set_option hygiene false in
local macro "fin_pc" : tactic => `(tactic| (
  constructor
  case an => (sR; aS; have hx := h.an; simp only [BSZ] at hx ⊢; first | exact hx | grind [upd, SpmcA.upd, BSZ, newBlock, mkLoc, locOf, ph] | grind (splits := 25) [upd, SpmcA.upd, BSZ, newBlock, mkLoc, locOf, ph])
  case tail => (sR; aS; have hx := h.tail; simp only [BSZ] at hx ⊢; first | exact hx | grind [upd, SpmcA.upd, BSZ, newBlock, mkLoc, locOf, ph] | grind (splits := 25) [upd, SpmcA.upd, BSZ, newBlock, mkLoc, locOf, ph])
  case lock => (sR; aS; have hx := h.lock; simp only [BSZ] at hx ⊢; first | exact hx | grind [upd, SpmcA.upd, BSZ, newBlock, mkLoc, locOf, ph] | grind (splits := 25) [upd, SpmcA.upd, BSZ, newBlock, mkLoc, locOf, ph])
  case head => (sR; aS; have hx := h.head; have xhS_qhead := hS.qhead; simp only [BSZ] at hx xhS_qhead ⊢; first | exact hx | grind [upd, SpmcA.upd, BSZ, newBlock, mkLoc, locOf, ph] | grind (splits := 25) [upd, SpmcA.upd, BSZ, newBlock, mkLoc, locOf, ph])
  case pcs => (sR; (first | refine pcs_frame0 n sh.blks _ pcs as t _ h.pcs ?_ ?_ | refine pcs_frame n sh.blks _ pcs as t _ _ _ _ _ h.pcs ?_ ?_) <;> first
    | (intro t' l' hne hl hp; first | rfl | (have hb := hS.lhb t' l' hl hp; simp only [BSZ] at hb; grind [upd, newBlock]))
    | (intro q' hq'; simp only [hpc, absPc, pcQ, absOn]; first | rfl | grind [mkLoc]))
  case slot => (sR; aS; have hx := h.slot; have xhS_bown := hS.bown; simp only [BSZ] at hx xhS_bown ⊢; first | exact hx | grind [upd, SpmcA.upd, BSZ, newBlock, mkLoc, locOf, ph] | grind (splits := 25) [upd, SpmcA.upd, BSZ, newBlock, mkLoc, locOf, ph])
  case fut => (sR; aS; have hx := h.fut; simp only [BSZ] at hx ⊢; first | exact hx | grind [upd, SpmcA.upd, BSZ, newBlock, mkLoc, locOf, ph] | grind (splits := 25) [upd, SpmcA.upd, BSZ, newBlock, mkLoc, locOf, ph])
  case used => (sR; aS; have hx := h.used; simp only [BSZ] at hx ⊢; first | exact hx | grind [upd, SpmcA.upd, BSZ, newBlock, mkLoc, locOf, ph] | grind (splits := 25) [upd, SpmcA.upd, BSZ, newBlock, mkLoc, locOf, ph])
  case fr => (sR; aS; have hx := h.fr; simp only [BSZ] at hx ⊢; first | exact hx | grind [upd, SpmcA.upd, BSZ, newBlock, mkLoc, locOf, ph] | grind (splits := 25) [upd, SpmcA.upd, BSZ, newBlock, mkLoc, locOf, ph])
  case tfree => (sR; aS; have hx := h.tfree; have xhS_lhb := hS.lhb; simp only [BSZ] at hx xhS_lhb ⊢; first | exact hx | grind [upd, SpmcA.upd, BSZ, newBlock, mkLoc, locOf, ph] | grind (splits := 25) [upd, SpmcA.upd, BSZ, newBlock, mkLoc, locOf, ph])
  case tfu => (sR; aS; have hx := h.tfu; have xhS_lhb := hS.lhb; simp only [BSZ] at hx xhS_lhb ⊢; first | exact hx | grind [upd, SpmcA.upd, BSZ, newBlock, mkLoc, locOf, ph] | grind (splits := 25) [upd, SpmcA.upd, BSZ, newBlock, mkLoc, locOf, ph])
  case d3 => (sR; aS; have hx := h.d3; simp only [BSZ] at hx ⊢; first | exact hx | grind [upd, SpmcA.upd, BSZ, newBlock, mkLoc, locOf, ph] | grind (splits := 25) [upd, SpmcA.upd, BSZ, newBlock, mkLoc, locOf, ph])
  case gcnt => (sR; aS; have hx := h.gcnt; simp only [BSZ] at hx ⊢; first | exact hx | grind [upd, SpmcA.upd, BSZ, newBlock, mkLoc, locOf, ph] | grind (splits := 25) [upd, SpmcA.upd, BSZ, newBlock, mkLoc, locOf, ph])
  case gval => (sR; aS; have hx := h.gval; simp only [BSZ] at hx ⊢; first | exact hx | grind [upd, SpmcA.upd, BSZ, newBlock, mkLoc, locOf, ph] | grind (splits := 25) [upd, SpmcA.upd, BSZ, newBlock, mkLoc, locOf, ph])
  case olog => (sR; aS; have hx := h.olog; simp only [BSZ] at hx ⊢; first | exact hx | grind [upd, SpmcA.upd, BSZ, newBlock, mkLoc, locOf, ph] | grind (splits := 25) [upd, SpmcA.upd, BSZ, newBlock, mkLoc, locOf, ph])
  case uaf => (sR; aS; have hx := h.uaf; simp only [BSZ] at hx ⊢; first | exact hx | grind [upd, SpmcA.upd, BSZ, newBlock, mkLoc, locOf, ph] | grind (splits := 25) [upd, SpmcA.upd, BSZ, newBlock, mkLoc, locOf, ph])
  case dfree => (sR; aS; have hx := h.dfree; simp only [BSZ] at hx ⊢; first | exact hx | grind [upd, SpmcA.upd, BSZ, newBlock, mkLoc, locOf, ph] | grind (splits := 25) [upd, SpmcA.upd, BSZ, newBlock, mkLoc, locOf, ph])
  case uninit => (sR; aS; have hx := h.uninit; simp only [BSZ] at hx ⊢; first | exact hx | grind [upd, SpmcA.upd, BSZ, newBlock, mkLoc, locOf, ph] | grind (splits := 25) [upd, SpmcA.upd, BSZ, newBlock, mkLoc, locOf, ph])
  case unpub => (sR; aS; have hx := h.unpub; simp only [BSZ] at hx ⊢; first | exact hx | grind [upd, SpmcA.upd, BSZ, newBlock, mkLoc, locOf, ph] | grind (splits := 25) [upd, SpmcA.upd, BSZ, newBlock, mkLoc, locOf, ph])
  ))

set_option maxHeartbeats 1600000 in
theorem rel_pu2 (n : Nat) (sh : Sh) (pcs : Tid → Pc) (t : Tid) (e : Env) (q : Qid) (tb : Bid) (pi : Nat) (k : PK) (as : Nat → SpmcA.St)
    (hS : InvS ⟨n, sh, pcs⟩) (hG : InvG ⟨n, sh, pcs⟩) (h : Rel ⟨n, sh, pcs⟩ as) (hA : ∀ q, q < n → SpmcA.Inv (as q))
    (hg : guard ⟨n, sh, pcs⟩ t e = true) (ht : t < n)
    (hpc : pcs t = .pu2 q tb pi k) (sh' : Sh) (pc' : Pc)
    (hts : tstep sh t (.pu2 q tb pi k) e = some (sh', pc')) (hS' : InvS ⟨n, sh', upd pcs t pc'⟩) :
    ∃ as', Match as as' ∧ Rel ⟨n, sh', upd pcs t pc'⟩ as' := by
  have mpc := hS.pu2 t q tb pi k hpc
  have hq : q = t := mpc.1
  have mgo := hG.on t q (by simp [hpc, onQ])
  try simp only at mgo
  have hQ : q < n := (by rw [hq]; exact ht)
  have han := h.an (q)
  simp only at han
  have hu : sw (q) t < (as (q)).n := by rw [han]; exact sw_lt _ t n hQ ht
  have rtail := h.tail (q) hQ
  have rlock := h.lock (q) hQ
  have rhead := h.head (q) hQ
  simp only at rtail rlock rhead
  have iA := hA (q) hQ
  have rpc := h.pcs q t hQ
  simp only [hpc, absPc, pcQ, absOn, if_true] at rpc
  have hsw : sw q t = 0 := by rw [hq]; exact sw_self t
  have mtb := hS.qtb t mpc.2.1 (by simp [hpc, pu3Pc])
  have mql := hS.qlast t mpc.2.1
  have mqi := hS.qti t mpc.2.1
  have mqn := hS.qtn t mpc.2.1 (by simp [hpc, bndPc])
  have mal := hS.balign _ mql.1
  have mct := A_cnt_tail (as q) iA (sh.qs q).tidx (by rw [rtail]; exact Nat.le_refl _)
  have etb : tb = (sh.qs t).last := by rw [mpc.2.2.1, hq, mtb]
  have mlive : (sh.blks tb).freed = false := by
    have e1 := etb
    subst hq
    rw [e1]
    exact blk_live ⟨n, sh, pcs⟩ as h _ (sh.qs q).tidx mql.1 mqn (by simp only [BSZ] at mqi ⊢; omega) (by rw [mql.2]; exact mct) (by rw [mql.2]; exact mgo)
  have mun : unread (as q).sh.cnt (pi + 1) 32 = 32 :=
    unread_all _ _ _ (fun i h1 _ => A_cnt_tail (as q) iA i (by rw [rtail, ← mpc.2.2.2.1]; omega))
  have mfut : ∀ i, pi < i → (as q).sh.slot i = none := fun i hi => h.fut q _ hQ (by rw [rtail, ← mpc.2.2.2.1]; exact hi)
  try simp only [BSZ] at mpc
  try simp only [BSZ] at mgo
  try simp only [BSZ] at mtb
  try simp only [BSZ] at mql
  try simp only [BSZ] at mqi
  try simp only [BSZ] at mqn
  try simp only [BSZ] at mal
  try simp only [BSZ] at mct
  simp only [tstep, touch_live sh tb mlive, Option.some.injEq, Prod.mk.injEq] at hts
  obtain ⟨rfl, rfl⟩ := hts
  refine ⟨as, match_refl as, ?_⟩
  fin_pc

end MayVerif.Spmc
