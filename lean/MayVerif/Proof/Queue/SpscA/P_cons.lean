import MayVerif.Proof.Queue.SpscA.Inv
namespace MayVerif.SpscA
open MayVerif.MpscA (upd Ret)

set_option hygiene false in
macro "getS" : tactic => `(tactic|
  ((try simp only [cstep] at hts)
   (repeat' split at hts) <;> (try contradiction) <;> simp only [Option.some.injEq, Prod.mk.injEq] at hts <;>
   obtain ⟨rfl, rfl⟩ := hts))

set_option maxHeartbeats 2000000 in
/-- the consumer's steps -/
theorem p_cons (sh : Sh) (pp : PPc) (cp : CPc) (e : Env) (h : Inv ⟨sh, pp, cp⟩) (sh' : Sh) (pc' : CPc)
    (hts : cstep sh cp e = some (sh', pc')) : Inv ⟨sh', pp, pc'⟩ := by
  obtain ⟨bpos, ht, alen, aget, pubv, cget, cpst, cbg, cbs, once, nbn, nbv, nbl⟩ := h
  simp only at bpos ht alen aget pubv cget cpst cbg cbs once nbn nbv nbl
  have hE := List.isEmpty_iff_length_eq_zero (l := sh.A)
  cases cp with
  | idle => cases e <;> getS <;> constructor <;> simp only [] <;> grind
  | ret r => getS <;> constructor <;> simp only [] <;> grind
  | pLoad => getS <;> constructor <;> simp only [noneLP] <;> grind
  | kLoad => getS <;> constructor <;> simp only [noneLP] <;> grind
  | lLoad b => getS <;> constructor <;> simp only [] <;> grind
  | pGet => getS <;> constructor <;> simp only [] <;> grind
  | kGet =>
    have h0 := aget 0
    getS <;> constructor <;> simp only [] <;> grind [List.head?_eq_getElem?]
  | pStore v =>
    obtain ⟨h1, rfl⟩ := cpst v rfl
    have h0 : sh.A[0]? = some (sh.val sh.head) := by rw [aget 0 (by omega)]; rfl
    getS
    constructor <;> simp only []
    case aget => exact aget_tail _ _ _ aget
    case exactly_once => exact once_take _ _ _ _ once h0
    case noBadVal => rw [nbv, head_of_get _ _ h0]; rfl
    all_goals grind [List.length_tail]
  | bLoad d =>
    have hm : sh.head < (sh.head / sh.B + 1) * sh.B := by
      rw [Nat.mul_comm]; exact Nat.lt_mul_div_succ _ bpos
    simp only [cstep] at hts
    generalize (sh.head / sh.B + 1) * sh.B = m at hm hts
    getS <;> constructor <;> simp only [noneLP] <;> grind
  | bGet d ce =>
    getS
    constructor <;> simp only [] <;> grind
  | bStore d ce vals =>
    obtain ⟨h1, h2, rfl⟩ := cbs d ce vals rfl
    have hn : ce - sh.head ≤ sh.A.length := by omega
    have htk := take_eq_slots sh (ce - sh.head) hn aget
    have hdr := aget_drop sh.A sh.val sh.head (ce - sh.head) aget
    have hce : sh.head + (ce - sh.head) = ce := by omega
    rw [hce] at hdr
    getS <;> (constructor <;> simp only [slots_length])
    case isTrue.aget => exact hdr
    case isFalse.aget => exact hdr
    case isTrue.exactly_once => rw [← htk]; exact once_drop _ _ _ _ once
    case isFalse.exactly_once => rw [← htk]; exact once_drop _ _ _ _ once
    case isTrue.noBadVal => rw [nbv, htk]; simp
    case isFalse.noBadVal => rw [nbv, htk]; simp
    all_goals grind [List.length_drop]

end MayVerif.SpscA
