/-
  Invariant of the level-A spsc queue model (`Model/Queue/SpscA.lean`) and the list lemmas for `bulk_pop`.
  `0 < B` is part of the invariant: with `B = 0` the model's `bulk_pop` computes the end index `min tail 0 = 0`
  and stores it into `head`, i.e. moves `head` backwards.
-/
import MayVerif.Model.Queue.SpscA
namespace MayVerif.SpscA
open MayVerif.MpscA (upd Ret)

structure Inv (s : St) : Prop where
  bpos : 0 < s.sh.B
  head_le_tail : s.sh.head ≤ s.sh.tail
  alen : s.sh.A.length = s.sh.tail - s.sh.head
  aget : ∀ (k : Nat), k < s.sh.A.length → s.sh.A[k]? = some (s.sh.val (s.sh.head + k))
  pubv : ∀ (v : Nat), s.pp = .publish v → s.sh.val s.sh.tail = v
  cget : s.cp = .pGet ∨ s.cp = .kGet → s.sh.head < s.sh.tail
  cpst : ∀ (v : Nat), s.cp = .pStore v → s.sh.head < s.sh.tail ∧ v = s.sh.val s.sh.head
  cbg : ∀ (d : Bool) (e : Nat), s.cp = .bGet d e → s.sh.head < e ∧ e ≤ s.sh.tail
  cbs : ∀ (d : Bool) (e : Nat) (vals : List Nat), s.cp = .bStore d e vals →
          s.sh.head < e ∧ e ≤ s.sh.tail ∧ vals = slots s.sh s.sh.head (e - s.sh.head)
  exactly_once : s.sh.pushed = s.sh.popped ++ s.sh.A
  noBadNone : s.sh.badNone = false
  noBadVal : s.sh.badVal = false
  noBadLen : s.sh.badLen = false

theorem inv_init (B : Nat) (hB : 0 < B) : Inv (init B) := by
  constructor <;> simp [init, initSh, hB]

/-! list lemmas -/

theorem slots_length (s : Sh) (i n : Nat) : (slots s i n).length = n := by simp [slots]

/-- a write to a slot outside `[i, i + n)` does not change `slots s i n` -/
theorem slots_upd (s : Sh) (j v i n : Nat) (h : i + n ≤ j) :
    slots { s with val := upd s.val j v } i n = slots s i n := by
  simp only [slots]
  apply List.map_congr_left
  intro k hk
  have : k < n := List.mem_range.mp hk
  simp only [upd]
  split
  · omega
  · rfl

theorem take_eq_slots (s : Sh) (n : Nat) (hn : n ≤ s.A.length)
    (aget : ∀ (k : Nat), k < s.A.length → s.A[k]? = some (s.val (s.head + k))) :
    s.A.take n = slots s s.head n := by
  apply List.ext_getElem?
  intro k
  simp only [slots, List.getElem?_take, List.getElem?_map]
  by_cases hk : k < n
  · simp [hk, aget k (by omega)]
  · simp [hk]

theorem aget_drop (A : List Nat) (val : Nat → Nat) (head n : Nat)
    (aget : ∀ (k : Nat), k < A.length → A[k]? = some (val (head + k))) :
    ∀ (k : Nat), k < (A.drop n).length → (A.drop n)[k]? = some (val (head + n + k)) := by
  intro k hk
  simp only [List.length_drop] at hk
  rw [List.getElem?_drop, aget (n + k) (by omega)]
  congr 2; omega

theorem aget_snoc (A : List Nat) (val : Nat → Nat) (head x : Nat)
    (h : ∀ k, k < A.length → A[k]? = some (val (head + k))) (hx : val (head + A.length) = x) :
    ∀ k, k < (A ++ [x]).length → (A ++ [x])[k]? = some (val (head + k)) := by
  intro k hk
  simp at hk
  by_cases hk' : k < A.length
  · rw [List.getElem?_append_left hk']; exact h k hk'
  · have : k = A.length := by omega
    subst this
    simp [hx]

theorem aget_tail (A : List Nat) (val : Nat → Nat) (head : Nat)
    (h : ∀ k, k < A.length → A[k]? = some (val (head + k))) :
    ∀ k, k < A.tail.length → A.tail[k]? = some (val (head + 1 + k)) := by
  intro k hk
  simp at hk
  rw [List.getElem?_tail, h (k + 1) (by omega)]
  congr 2; omega

theorem once_take (pushed popped A : List Nat) (x : Nat) (h : pushed = popped ++ A) (hx : A[0]? = some x) :
    pushed = (popped ++ [x]) ++ A.tail := by
  cases A with
  | nil => simp at hx
  | cons a r => simp at hx; subst hx; simp [h]

theorem once_drop (pushed popped A : List Nat) (n : Nat) (h : pushed = popped ++ A) :
    pushed = (popped ++ A.take n) ++ A.drop n := by
  rw [List.append_assoc, List.take_append_drop]; exact h

theorem head_of_get (A : List Nat) (x : Nat) (h : A[0]? = some x) : (A.head? != some x) = false := by
  cases A with
  | nil => simp at h
  | cons a r => simp at h; simp [h]

end MayVerif.SpscA
