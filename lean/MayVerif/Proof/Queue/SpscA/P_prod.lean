import MayVerif.Proof.Queue.SpscA.Inv
namespace MayVerif.SpscA
open MayVerif.MpscA (upd Ret)

set_option maxHeartbeats 2000000 in
/-- the producer's steps -/
theorem p_prod (sh : Sh) (pp : PPc) (cp : CPc) (e : Env) (h : Inv ⟨sh, pp, cp⟩) (sh' : Sh) (pc' : PPc)
    (hts : pstep sh pp e = some (sh', pc')) : Inv ⟨sh', pc', cp⟩ := by
  obtain ⟨bpos, ht, alen, aget, pubv, cget, cpst, cbg, cbs, once, nbn, nbv, nbl⟩ := h
  simp only at bpos ht alen aget pubv cget cpst cbg cbs once nbn nbv nbl
  cases pp with
  | idle =>
    cases e <;> simp only [pstep] at hts <;> (try contradiction) <;>
      simp only [Option.some.injEq, Prod.mk.injEq] at hts <;> obtain ⟨rfl, rfl⟩ := hts <;>
      constructor <;> simp only [] <;> grind
  | ret =>
    simp only [pstep, Option.some.injEq, Prod.mk.injEq] at hts
    obtain ⟨rfl, rfl⟩ := hts
    constructor <;> simp only [] <;> grind
  | write v =>
    simp only [pstep, Option.some.injEq, Prod.mk.injEq] at hts
    obtain ⟨rfl, rfl⟩ := hts
    constructor <;> simp only []
    case cbs =>
      intro d e' vals hcp
      obtain ⟨h1, h2, h3⟩ := cbs d e' vals hcp
      refine ⟨h1, h2, ?_⟩
      rw [slots_upd _ _ _ _ _ (by omega)]
      exact h3
    all_goals grind
  | publish v =>
    simp only [pstep, Option.some.injEq, Prod.mk.injEq] at hts
    obtain ⟨rfl, rfl⟩ := hts
    have hv := pubv v rfl
    constructor <;> simp only []
    case aget => exact aget_snoc _ _ _ _ aget (by rw [alen]; rw [← hv]; congr 1; omega)
    case exactly_once => rw [once, List.append_assoc]
    case cbs =>
      intro d e' vals hcp
      obtain ⟨h1, h2, h3⟩ := cbs d e' vals hcp
      exact ⟨h1, by omega, h3⟩
    all_goals grind

end MayVerif.SpscA
