/-
  The invariant of the level-A spsc queue model is inductive (for block size `0 < B`), and its consequences:
  no response disagrees with the abstract FIFO (`flags_false`), strict FIFO hand-out (`exactly_once`),
  `head ≤ tail` and the abstract size is `tail - head`.
-/
import MayVerif.Proof.Queue.SpscA.P_prod
import MayVerif.Proof.Queue.SpscA.P_cons
namespace MayVerif.SpscA

theorem inv_step (s s' : St) (a : Act) (h : Inv s) (hs : step s a = some s') : Inv s' := by
  obtain ⟨sh, pp, cp⟩ := s
  cases a with
  | prod e =>
    simp only [step] at hs
    split at hs
    next sh' pc' hts =>
      simp only [Option.some.injEq] at hs
      subst hs
      exact p_prod sh pp cp e h sh' pc' hts
    · contradiction
  | cons e =>
    simp only [step] at hs
    split at hs
    next sh' pc' hts =>
      simp only [Option.some.injEq] at hs
      subst hs
      exact p_cons sh pp cp e h sh' pc' hts
    · contradiction

theorem inv_run (s : St) (l : List Act) (h : Inv s) : Inv (run s l) := by
  induction l generalizing s with
  | nil => simpa [run]
  | cons a r ih =>
    simp only [run]
    split
    · next s' hs => exact ih _ (inv_step _ _ _ h hs)
    · exact ih _ h

/-- `0 < B` is needed: with `B = 0` the model's `bulk_pop` stores the end index `min tail 0 = 0` into `head` -/
theorem inv_reach (B : Nat) (hB : 0 < B) (l : List Act) : Inv (run (init B) l) :=
  inv_run _ l (inv_init B hB)

/-! consequences -/

/-- 1. no response disagrees with the abstract FIFO at its linearization point -/
theorem flags_false (s : St) (h : Inv s) : s.sh.badNone = false ∧ s.sh.badVal = false ∧ s.sh.badLen = false :=
  ⟨h.noBadNone, h.noBadVal, h.noBadLen⟩

/-- 2. strict FIFO: the pushed values are the popped values followed by the queue content -/
theorem exactly_once (s : St) (h : Inv s) : s.sh.pushed = s.sh.popped ++ s.sh.A := h.exactly_once

/-- 3. -/
theorem head_le_tail (s : St) (h : Inv s) : s.sh.head ≤ s.sh.tail := h.head_le_tail
theorem alen (s : St) (h : Inv s) : s.sh.A.length = s.sh.tail - s.sh.head := h.alen

theorem reach_flags_false (B : Nat) (hB : 0 < B) (l : List Act) :
    (run (init B) l).sh.badNone = false ∧ (run (init B) l).sh.badVal = false ∧ (run (init B) l).sh.badLen = false :=
  flags_false _ (inv_reach B hB l)

theorem reach_exactly_once (B : Nat) (hB : 0 < B) (l : List Act) :
    (run (init B) l).sh.pushed = (run (init B) l).sh.popped ++ (run (init B) l).sh.A :=
  exactly_once _ (inv_reach B hB l)

theorem reach_head_le_tail (B : Nat) (hB : 0 < B) (l : List Act) : (run (init B) l).sh.head ≤ (run (init B) l).sh.tail :=
  head_le_tail _ (inv_reach B hB l)

theorem reach_alen (B : Nat) (hB : 0 < B) (l : List Act) :
    (run (init B) l).sh.A.length = (run (init B) l).sh.tail - (run (init B) l).sh.head :=
  alen _ (inv_reach B hB l)

/-- `0 < B` cannot be dropped: with `B = 0`, push 1, push 2, pop, bulk_pop, len makes `bulk_pop` move `head` from 1
    back to 0 and `len` answer 2 for a queue of one element -/
theorem B0_breaks :
    (run (init 0) [.prod (.push 1), .prod .go, .prod .go, .prod .go, .prod (.push 2), .prod .go, .prod .go, .prod .go,
      .cons .pop, .cons .go, .cons .go, .cons .go, .cons .go,
      .cons .bulk, .cons .go, .cons .go, .cons .go, .cons .go,
      .cons .len, .cons .go]).sh.badLen = true := by decide

end MayVerif.SpscA
