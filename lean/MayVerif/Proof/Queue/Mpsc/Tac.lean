/-
  Tactics shared by the preservation lemmas `P_*.lean` of the level-B mpsc invariant (generated from a table:
  for every clause of `Inv` the hypotheses it may depend on; everything else is cleared before `grind`).
  The macros are unhygienic on purpose: they introduce / use the hypothesis names of `bdestr`.
-/
import MayVerif.Proof.Queue.Mpsc.Lemmas
namespace MayVerif.Mpsc
open MayVerif.MpscA (upd Ret)

attribute [grind] MpscA.pushIndex pidx

/-- `clear` for those of the named hypotheses that (still) exist -/
syntax "clearIf" (ppSpace colGt ident)* : tactic
macro_rules
  | `(tactic| clearIf) => `(tactic| skip)
  | `(tactic| clearIf $h $hs*) => `(tactic| ((try clear $h); clearIf $hs*))

set_option hygiene false in
/-- the queue exists: discharge the `created = true` premises (`hcr : sh.created = true`) -/
macro "bspecC" : tactic => `(tactic|
  (simp only [hcr, forall_const, true_implies, Bool.true_eq_false, Bool.false_eq_true, false_implies, implies_true, eq_self] at alc pre pre0 newc preA preR nb0 drp tw nbv lnk hd hb1 hb2 hb3 oldR1 oldR2 liveR hbT pidxA))

set_option hygiene false in
/-- the stepping actor is actor 0: evaluate the clauses about `pcs 0` at `hpc : pcs 0 = …` -/
macro "bspec0" : tactic => `(tactic|
  (simp [hpc, isNew, taken, inRetire, atNextHead, dropDone, dflag, dEnd, kd, locHb, locPi, locCi, isFast, isCopy, ceOf, isRd] at nb1 nb2 dfl hd hb2 hb3 lHb lPi lCi lFast lStore lCopy lRd lHead dE dF1 df2a df2b df3 oldR1 oldR2 liveR hbT dT anh
   (try subst lHb); (try subst lPi); (try subst lCi); (try subst lHead)
   have hu0 : ∀ pc, upd pcs 0 pc 0 = pc := fun _ => by simp [upd]))

set_option hygiene false in
/-- the stepping actor is not actor 0 (`ht0 : ¬t = 0`) -/
macro "bnonzero" : tactic => `(tactic|
  (have hu0 : ∀ pc, upd pcs t pc 0 = pcs 0 := fun _ => by simp [upd, Ne.symm ht0]))

set_option hygiene false in
/-- destructure `h : Inv ⟨n, sh, pcs, apcs⟩`; expects `hlt : t < n`, `hpc : pcs t = …`, and the variable `aa` -/
macro "bdestr" tt:term : tactic => `(tactic|
  (have psetA := h.psetA; have waitA := h.waitA; have psetB := h.psetB; have hbT := h.hbT; have refR := h.refR; have psU := h.psU; have dT := h.dT; have pidxA := h.pidxA; have anh := anh_of (pcs 0); have dEf := dEf_of (pcs 0); have unl := unl_of (pcs (sh.a.own (sh.a.res - 1)))
   obtain ⟨aB, bpos, ainv, sim, nSB, nUaf, nDf, nPn, idleN, cons0, alc, pre, pre0, newc, preA, preR, nb0, nb1, nb2, drp, dfl, geo, fresh, tw, nbv, cl1, cl2, cl3, pset, psv, pcas, cAl, cWt, cLk, cTl, lnk, rdyR, valR, hd, hb1, hb2, hb3, lHb, lPi, lCi, lFast, lStore, lCopy, lRd, lHead, dE, dF1, df2a, df2b, df3, oldR1, oldR2, liveR⟩ := h
   have A_hl := ainv.hl; have A_lr := ainv.lr; have A_lc := ainv.lc; have A_helped := ainv.helped
   have A_rdy := fun i hi => (ainv.rdy i hi).1
   have hA' := ainv_adv n sh.a apcs $tt aa hlt ainv
   have hsim := sim $tt
   simp only at aB bpos ainv sim nSB nUaf nDf nPn idleN cons0 alc pre pre0 newc preA preR nb0 nb1 nb2 drp dfl geo fresh tw nbv cl1 cl2 cl3 pset psv pcas cAl cWt cLk cTl lnk rdyR valR hd hb1 hb2 hb3 lHb lPi lCi lFast lStore lCopy lRd lHead dE dF1 df2a df2b df3 oldR1 oldR2 liveR A_hl A_lr A_lc A_helped A_rdy psetA waitA psetB hbT refR psU dT pidxA anh unl dEf hA' hsim
   simp only [clo] at nbv cl1 cl2 cl3 pset lnk
   rw [hpc] at hsim; simp only [proj, eq_self, Bool.false_eq_true, ↓reduceIte] at hsim; rw [hsim] at hA'; rw [hsim]))

set_option hygiene false in
/-- split `hts : tstepC … = some (sh', pc', aa)` into the branches of the concrete step -/
macro "bbranches" : tactic => `(tactic|
  ((repeat' split at hts) <;> (try contradiction) <;> simp only [Option.some.injEq, Prod.mk.injEq] at hts <;>
   obtain ⟨rfl, rfl, rfl⟩ := hts))

/-- normalise a goal of `bfin` -/
macro "bsimp" : tactic => `(tactic| simp only [nextSt, clo, touch, alloc, free, proj, linz_B, linz_res, linz_closing, linz_ready, linz_val, linz_own, linz_head, take_B, take_res, take_closing, take_ready, take_val, take_own, take_head, noneLP_B, noneLP_res, noneLP_closing, noneLP_ready, noneLP_val, noneLP_own, noneLP_head, ite_linz_B, ite_linz_res, ite_linz_closing, ite_linz_ready, ite_linz_val, ite_linz_own, ite_linz_head])

/-- clear all hypotheses introduced by `bdestr` -/
macro "bclearAll" : tactic => `(tactic| clearIf aB bpos nSB nUaf nDf nPn A_hl A_lr A_lc A_helped A_rdy psetA waitA psetB hbT idleN cons0 alc pre pre0 newc preA preR nb0 nb1 nb2 drp dfl geo fresh tw nbv pidxA cl1 cl2 cl3 pset psv psU pcas cAl cWt cLk cTl refR unl lnk rdyR valR hd hb1 hb2 hb3 anh lHb lPi lCi lFast lStore lCopy lRd lHead dE dF1 df2a df2b df3 dT dEf oldR1 oldR2 liveR ainv sim hA' hsim hx1 hx2 hx3 hx4 hx5 hx6 hx7)

set_option hygiene false in
/-- one goal per clause of `Inv` -/
macro "bfin" tt:term : tactic => `(tactic|
  (constructor
   case aB =>
     clearIf nSB nUaf nDf nPn A_hl A_lr A_lc A_helped A_rdy psetA waitA psetB hbT idleN cons0 alc pre pre0 newc preA preR nb0 nb1 nb2 drp dfl geo fresh tw nbv pidxA cl1 cl2 cl3 pset psv psU pcas cAl cWt cLk cTl refR unl lnk rdyR valR hd hb1 hb2 hb3 anh lHb lPi lCi lFast lStore lCopy lRd lHead dE dF1 df2a df2b df3 dT dEf oldR1 oldR2 liveR ainv sim hA' hsim hx1 hx2 hx3 hx4 hx5 hx6 hx7
     (first | simp only [nextSt, clo, hu0, touch, alloc, free, proj, linz_B, linz_res, linz_closing, linz_ready, linz_val, linz_own, linz_head, take_B, take_res, take_closing, take_ready, take_val, take_own, take_head, noneLP_B, noneLP_res, noneLP_closing, noneLP_ready, noneLP_val, noneLP_own, noneLP_head, ite_linz_B, ite_linz_res, ite_linz_closing, ite_linz_ready, ite_linz_val, ite_linz_own, ite_linz_head] | skip) <;> grind
   case bpos =>
     clearIf nSB nUaf nDf nPn A_hl A_lr A_lc A_helped A_rdy psetA waitA psetB hbT idleN cons0 alc pre pre0 newc preA preR nb0 nb1 nb2 drp dfl geo fresh tw nbv pidxA cl1 cl2 cl3 pset psv psU pcas cAl cWt cLk cTl refR unl lnk rdyR valR hd hb1 hb2 hb3 anh lHb lPi lCi lFast lStore lCopy lRd lHead dE dF1 df2a df2b df3 dT dEf oldR1 oldR2 liveR ainv sim hA' hsim hx1 hx2 hx3 hx4 hx5 hx6 hx7
     (first | simp only [nextSt, clo, hu0, touch, alloc, free, proj, linz_B, linz_res, linz_closing, linz_ready, linz_val, linz_own, linz_head, take_B, take_res, take_closing, take_ready, take_val, take_own, take_head, noneLP_B, noneLP_res, noneLP_closing, noneLP_ready, noneLP_val, noneLP_own, noneLP_head, ite_linz_B, ite_linz_res, ite_linz_closing, ite_linz_ready, ite_linz_val, ite_linz_own, ite_linz_head] | skip) <;> grind
   case ainv => exact hA'
   case sim =>
     clearIf nSB nUaf nDf nPn lnk dE dF1 df2a df2b df3 dT dEf oldR1 oldR2 liveR ainv hA' hsim
     intro u
     by_cases hu : u = $tt
     · subst hu
       (first | simp only [nextSt, clo, hu0, touch, alloc, free, proj, linz_B, linz_res, linz_closing, linz_ready, linz_val, linz_own, linz_head, take_B, take_res, take_closing, take_ready, take_val, take_own, take_head, noneLP_B, noneLP_res, noneLP_closing, noneLP_ready, noneLP_val, noneLP_own, noneLP_head, ite_linz_B, ite_linz_res, ite_linz_closing, ite_linz_ready, ite_linz_val, ite_linz_own, ite_linz_head, upd, ↓reduceIte] | skip) <;> (first | rfl | grind)
     · simp only [nextSt, upd, hu, ↓reduceIte]
       rw [sim u]; symm; apply proj_congr
       first | (intro b _; rfl) | (simp only [nextSt, clo, hu0, touch, alloc, free, proj, linz_B, linz_res, linz_closing, linz_ready, linz_val, linz_own, linz_head, take_B, take_res, take_closing, take_ready, take_val, take_own, take_head, noneLP_B, noneLP_res, noneLP_closing, noneLP_ready, noneLP_val, noneLP_own, noneLP_head, ite_linz_B, ite_linz_res, ite_linz_closing, ite_linz_ready, ite_linz_val, ite_linz_own, ite_linz_head]; grind)
   case noSimBad =>
     clearIf nUaf nDf nPn lnk dE dF1 df2a df2b df3 dT dEf oldR1 oldR2 liveR ainv sim hA' hsim
     (first | simp only [nextSt, clo, hu0, touch, alloc, free, proj, linz_B, linz_res, linz_closing, linz_ready, linz_val, linz_own, linz_head, take_B, take_res, take_closing, take_ready, take_val, take_own, take_head, noneLP_B, noneLP_res, noneLP_closing, noneLP_ready, noneLP_val, noneLP_own, noneLP_head, ite_linz_B, ite_linz_res, ite_linz_closing, ite_linz_ready, ite_linz_val, ite_linz_own, ite_linz_head, nSB, Bool.not_true, Bool.false_or, Bool.or_false, bne_eq_false_iff_eq] | skip) <;> (first | rfl | grind)
   case noUaf =>
     clearIf nSB nDf nPn lnk rdyR valR ainv sim hA' hsim hx1 hx2 hx3 hx4 hx5 hx6 hx7
     (first | simp only [nextSt, clo, hu0, touch, alloc, free, proj, linz_B, linz_res, linz_closing, linz_ready, linz_val, linz_own, linz_head, take_B, take_res, take_closing, take_ready, take_val, take_own, take_head, noneLP_B, noneLP_res, noneLP_closing, noneLP_ready, noneLP_val, noneLP_own, noneLP_head, ite_linz_B, ite_linz_res, ite_linz_closing, ite_linz_ready, ite_linz_val, ite_linz_own, ite_linz_head] | skip) <;> grind
   case noDfree =>
     clearIf nSB nUaf nPn A_hl A_lr A_lc A_helped A_rdy geo fresh lnk rdyR valR ainv sim hA' hsim hx1 hx2 hx3 hx4 hx5 hx6 hx7
     (first | simp only [nextSt, clo, hu0, touch, alloc, free, proj, linz_B, linz_res, linz_closing, linz_ready, linz_val, linz_own, linz_head, take_B, take_res, take_closing, take_ready, take_val, take_own, take_head, noneLP_B, noneLP_res, noneLP_closing, noneLP_ready, noneLP_val, noneLP_own, noneLP_head, ite_linz_B, ite_linz_res, ite_linz_closing, ite_linz_ready, ite_linz_val, ite_linz_own, ite_linz_head] | skip) <;> grind
   case noPanic =>
     clearIf nSB nUaf nDf psetA waitA psetB hbT geo fresh rdyR valR oldR1 oldR2 liveR ainv sim hA' hsim hx1 hx2 hx3 hx4 hx5 hx6 hx7
     (first | simp only [nextSt, clo, hu0, touch, alloc, free, proj, linz_B, linz_res, linz_closing, linz_ready, linz_val, linz_own, linz_head, take_B, take_res, take_closing, take_ready, take_val, take_own, take_head, noneLP_B, noneLP_res, noneLP_closing, noneLP_ready, noneLP_val, noneLP_own, noneLP_head, ite_linz_B, ite_linz_res, ite_linz_closing, ite_linz_ready, ite_linz_val, ite_linz_own, ite_linz_head] | skip) <;> grind
   case idleN =>
     clearIf nSB nUaf nDf nPn A_hl A_lr A_lc A_helped A_rdy psetA waitA psetB hbT cons0 alc pre pre0 newc preA preR nb0 nb1 nb2 drp dfl geo fresh tw nbv pidxA cl1 cl2 cl3 pset psv psU pcas cAl cWt cLk cTl refR unl lnk rdyR valR hd hb1 hb2 hb3 anh lHb lPi lCi lFast lStore lCopy lRd lHead dE dF1 df2a df2b df3 dT dEf oldR1 oldR2 liveR ainv sim hA' hsim hx1 hx2 hx3 hx4 hx5 hx6 hx7
     (first | simp only [nextSt, clo, hu0, touch, alloc, free, proj, linz_B, linz_res, linz_closing, linz_ready, linz_val, linz_own, linz_head, take_B, take_res, take_closing, take_ready, take_val, take_own, take_head, noneLP_B, noneLP_res, noneLP_closing, noneLP_ready, noneLP_val, noneLP_own, noneLP_head, ite_linz_B, ite_linz_res, ite_linz_closing, ite_linz_ready, ite_linz_val, ite_linz_own, ite_linz_head] | skip) <;> grind
   case cons0 =>
     clearIf nSB nUaf nDf nPn A_hl A_lr A_lc A_helped A_rdy psetA waitA psetB hbT alc pre pre0 newc preA preR nb0 nb1 nb2 drp dfl geo fresh tw nbv pidxA cl1 cl2 cl3 pset psv psU pcas cAl cWt cLk cTl refR unl lnk rdyR valR hd hb1 hb2 hb3 anh lHb lPi lCi lFast lStore lCopy lRd lHead dE dF1 df2a df2b df3 dT dEf oldR1 oldR2 liveR ainv sim hA' hsim hx1 hx2 hx3 hx4 hx5 hx6 hx7
     (first | simp only [nextSt, clo, hu0, touch, alloc, free, proj, linz_B, linz_res, linz_closing, linz_ready, linz_val, linz_own, linz_head, take_B, take_res, take_closing, take_ready, take_val, take_own, take_head, noneLP_B, noneLP_res, noneLP_closing, noneLP_ready, noneLP_val, noneLP_own, noneLP_head, ite_linz_B, ite_linz_res, ite_linz_closing, ite_linz_ready, ite_linz_val, ite_linz_own, ite_linz_head] | skip) <;> grind
   case alc =>
     clearIf nSB nUaf nDf nPn A_hl A_lr A_lc A_helped A_rdy psetA waitA psetB hbT geo fresh tw nbv pidxA cl1 cl2 cl3 pset psv psU pcas cAl cWt cLk cTl refR unl lnk rdyR valR hd hb1 hb2 hb3 anh lHb lPi lCi lFast lStore lCopy lRd lHead dE dF1 df2a df2b df3 dT dEf oldR1 oldR2 liveR ainv sim hA' hsim hx1 hx2 hx3 hx4 hx5 hx6 hx7
     (first | simp only [nextSt, clo, hu0, touch, alloc, free, proj, linz_B, linz_res, linz_closing, linz_ready, linz_val, linz_own, linz_head, take_B, take_res, take_closing, take_ready, take_val, take_own, take_head, noneLP_B, noneLP_res, noneLP_closing, noneLP_ready, noneLP_val, noneLP_own, noneLP_head, ite_linz_B, ite_linz_res, ite_linz_closing, ite_linz_ready, ite_linz_val, ite_linz_own, ite_linz_head] | skip) <;> grind
   case pre =>
     clearIf nSB nUaf nDf nPn A_hl A_lr A_lc A_helped A_rdy psetA waitA psetB hbT geo fresh tw nbv pidxA cl1 cl2 cl3 pset psv psU pcas cAl cWt cLk cTl refR unl lnk rdyR valR hd hb1 hb2 hb3 anh lHb lPi lCi lFast lStore lCopy lRd lHead dE dF1 df2a df2b df3 dT dEf oldR1 oldR2 liveR ainv sim hA' hsim hx1 hx2 hx3 hx4 hx5 hx6 hx7
     (first | simp only [nextSt, clo, hu0, touch, alloc, free, proj, linz_B, linz_res, linz_closing, linz_ready, linz_val, linz_own, linz_head, take_B, take_res, take_closing, take_ready, take_val, take_own, take_head, noneLP_B, noneLP_res, noneLP_closing, noneLP_ready, noneLP_val, noneLP_own, noneLP_head, ite_linz_B, ite_linz_res, ite_linz_closing, ite_linz_ready, ite_linz_val, ite_linz_own, ite_linz_head] | skip) <;> grind
   case pre0 =>
     clearIf nSB nUaf nDf nPn A_hl A_lr A_lc A_helped A_rdy psetA waitA psetB hbT geo fresh tw nbv pidxA cl1 cl2 cl3 pset psv psU pcas cAl cWt cLk cTl refR unl lnk rdyR valR hd hb1 hb2 hb3 anh lHb lPi lCi lFast lStore lCopy lRd lHead dE dF1 df2a df2b df3 dT dEf oldR1 oldR2 liveR ainv sim hA' hsim hx1 hx2 hx3 hx4 hx5 hx6 hx7
     (first | simp only [nextSt, clo, hu0, touch, alloc, free, proj, linz_B, linz_res, linz_closing, linz_ready, linz_val, linz_own, linz_head, take_B, take_res, take_closing, take_ready, take_val, take_own, take_head, noneLP_B, noneLP_res, noneLP_closing, noneLP_ready, noneLP_val, noneLP_own, noneLP_head, ite_linz_B, ite_linz_res, ite_linz_closing, ite_linz_ready, ite_linz_val, ite_linz_own, ite_linz_head] | skip) <;> grind
   case newc =>
     clearIf nSB nUaf nDf nPn A_hl A_lr A_lc A_helped A_rdy psetA waitA psetB hbT geo fresh tw nbv pidxA cl1 cl2 cl3 pset psv psU pcas cAl cWt cLk cTl refR unl lnk rdyR valR hd hb1 hb2 hb3 anh lHb lPi lCi lFast lStore lCopy lRd lHead dE dF1 df2a df2b df3 dT dEf oldR1 oldR2 liveR ainv sim hA' hsim hx1 hx2 hx3 hx4 hx5 hx6 hx7
     (first | simp only [nextSt, clo, hu0, touch, alloc, free, proj, linz_B, linz_res, linz_closing, linz_ready, linz_val, linz_own, linz_head, take_B, take_res, take_closing, take_ready, take_val, take_own, take_head, noneLP_B, noneLP_res, noneLP_closing, noneLP_ready, noneLP_val, noneLP_own, noneLP_head, ite_linz_B, ite_linz_res, ite_linz_closing, ite_linz_ready, ite_linz_val, ite_linz_own, ite_linz_head] | skip) <;> grind
   case preA =>
     clearIf nSB nUaf nDf nPn A_hl A_lr A_lc A_helped A_rdy psetA waitA psetB hbT geo fresh tw nbv pidxA cl1 cl2 cl3 pset psv psU pcas cAl cWt cLk cTl refR unl lnk rdyR valR hd hb1 hb2 hb3 anh lHb lPi lCi lFast lStore lCopy lRd lHead dE dF1 df2a df2b df3 dT dEf oldR1 oldR2 liveR ainv sim hA' hsim hx1 hx2 hx3 hx4 hx5 hx6 hx7
     (first | simp only [nextSt, clo, hu0, touch, alloc, free, proj, linz_B, linz_res, linz_closing, linz_ready, linz_val, linz_own, linz_head, take_B, take_res, take_closing, take_ready, take_val, take_own, take_head, noneLP_B, noneLP_res, noneLP_closing, noneLP_ready, noneLP_val, noneLP_own, noneLP_head, ite_linz_B, ite_linz_res, ite_linz_closing, ite_linz_ready, ite_linz_val, ite_linz_own, ite_linz_head] | skip) <;> grind
   case preR =>
     clearIf nSB nUaf nDf nPn A_hl A_lr A_lc A_helped A_rdy psetA waitA psetB hbT geo fresh tw nbv pidxA cl1 cl2 cl3 pset psv psU pcas cAl cWt cLk cTl refR unl lnk rdyR valR hd hb1 hb2 hb3 anh lHb lPi lCi lFast lStore lCopy lRd lHead dE dF1 df2a df2b df3 dT dEf oldR1 oldR2 liveR ainv sim hA' hsim hx1 hx2 hx3 hx4 hx5 hx6 hx7
     (first | simp only [nextSt, clo, hu0, touch, alloc, free, proj, linz_B, linz_res, linz_closing, linz_ready, linz_val, linz_own, linz_head, take_B, take_res, take_closing, take_ready, take_val, take_own, take_head, noneLP_B, noneLP_res, noneLP_closing, noneLP_ready, noneLP_val, noneLP_own, noneLP_head, ite_linz_B, ite_linz_res, ite_linz_closing, ite_linz_ready, ite_linz_val, ite_linz_own, ite_linz_head] | skip) <;> grind
   case nb0 =>
     clearIf nSB nUaf nDf nPn A_hl A_lr A_lc A_helped A_rdy psetA waitA psetB hbT geo fresh tw nbv pidxA cl1 cl2 cl3 pset psv psU pcas cAl cWt cLk cTl refR unl lnk rdyR valR hd hb1 hb2 hb3 anh lHb lPi lCi lFast lStore lCopy lRd lHead dE dF1 df2a df2b df3 dT dEf oldR1 oldR2 liveR ainv sim hA' hsim hx1 hx2 hx3 hx4 hx5 hx6 hx7
     (first | simp only [nextSt, clo, hu0, touch, alloc, free, proj, linz_B, linz_res, linz_closing, linz_ready, linz_val, linz_own, linz_head, take_B, take_res, take_closing, take_ready, take_val, take_own, take_head, noneLP_B, noneLP_res, noneLP_closing, noneLP_ready, noneLP_val, noneLP_own, noneLP_head, ite_linz_B, ite_linz_res, ite_linz_closing, ite_linz_ready, ite_linz_val, ite_linz_own, ite_linz_head] | skip) <;> grind
   case nb1 =>
     clearIf nSB nUaf nDf nPn A_hl A_lr A_lc A_helped A_rdy psetA waitA psetB hbT tw nbv pidxA cl1 cl2 cl3 pset psv psU pcas cAl cWt cLk cTl refR unl lnk rdyR valR hd hb1 hb2 hb3 anh lHb lPi lCi lFast lStore lCopy lRd lHead dE dF1 df2a df2b df3 dT dEf oldR1 oldR2 liveR ainv sim hA' hsim hx1 hx2 hx3 hx4 hx5 hx6 hx7
     (first | simp only [nextSt, clo, hu0, touch, alloc, free, proj, linz_B, linz_res, linz_closing, linz_ready, linz_val, linz_own, linz_head, take_B, take_res, take_closing, take_ready, take_val, take_own, take_head, noneLP_B, noneLP_res, noneLP_closing, noneLP_ready, noneLP_val, noneLP_own, noneLP_head, ite_linz_B, ite_linz_res, ite_linz_closing, ite_linz_ready, ite_linz_val, ite_linz_own, ite_linz_head] | skip) <;> grind
   case nb2 =>
     clearIf nSB nUaf nDf nPn A_hl A_lr A_lc A_helped A_rdy psetA waitA psetB hbT tw nbv pidxA cl1 cl2 cl3 pset psv psU pcas cAl cWt cLk cTl refR unl lnk rdyR valR hd hb1 hb2 hb3 anh lHb lPi lCi lFast lStore lCopy lRd lHead dE dF1 df2a df2b df3 dT dEf oldR1 oldR2 liveR ainv sim hA' hsim hx1 hx2 hx3 hx4 hx5 hx6 hx7
     (first | simp only [nextSt, clo, hu0, touch, alloc, free, proj, linz_B, linz_res, linz_closing, linz_ready, linz_val, linz_own, linz_head, take_B, take_res, take_closing, take_ready, take_val, take_own, take_head, noneLP_B, noneLP_res, noneLP_closing, noneLP_ready, noneLP_val, noneLP_own, noneLP_head, ite_linz_B, ite_linz_res, ite_linz_closing, ite_linz_ready, ite_linz_val, ite_linz_own, ite_linz_head] | skip) <;> grind
   case drp =>
     clearIf nSB nUaf nDf nPn A_hl A_lr A_lc A_helped A_rdy psetA waitA psetB hbT geo fresh tw nbv pidxA cl1 cl2 cl3 pset psv psU pcas cAl cWt cLk cTl refR unl lnk rdyR valR hd hb1 hb2 hb3 anh lHb lPi lCi lFast lStore lCopy lRd lHead dE dF1 df2a df2b df3 dT dEf oldR1 oldR2 liveR ainv sim hA' hsim
     (first | simp only [nextSt, clo, hu0, touch, alloc, free, proj, linz_B, linz_res, linz_closing, linz_ready, linz_val, linz_own, linz_head, take_B, take_res, take_closing, take_ready, take_val, take_own, take_head, noneLP_B, noneLP_res, noneLP_closing, noneLP_ready, noneLP_val, noneLP_own, noneLP_head, ite_linz_B, ite_linz_res, ite_linz_closing, ite_linz_ready, ite_linz_val, ite_linz_own, ite_linz_head] | skip) <;> grind
   case dfl =>
     clearIf nSB nUaf nDf nPn A_hl A_lr A_lc A_helped A_rdy psetA waitA psetB hbT geo fresh tw nbv pidxA cl1 cl2 cl3 pset psv psU pcas cAl cWt cLk cTl refR unl lnk rdyR valR hd hb1 hb2 hb3 anh lHb lPi lCi lFast lStore lCopy lRd lHead dE dF1 df2a df2b df3 dT dEf oldR1 oldR2 liveR ainv sim hA' hsim hx1 hx2 hx3 hx4 hx5 hx6 hx7
     (first | simp only [nextSt, clo, hu0, touch, alloc, free, proj, linz_B, linz_res, linz_closing, linz_ready, linz_val, linz_own, linz_head, take_B, take_res, take_closing, take_ready, take_val, take_own, take_head, noneLP_B, noneLP_res, noneLP_closing, noneLP_ready, noneLP_val, noneLP_own, noneLP_head, ite_linz_B, ite_linz_res, ite_linz_closing, ite_linz_ready, ite_linz_val, ite_linz_own, ite_linz_head] | skip) <;> grind
   case geo =>
     clearIf nSB nUaf nDf nPn A_hl A_lr A_lc A_helped A_rdy psetA waitA psetB hbT lnk rdyR valR hd hb1 hb2 hb3 anh lHb lPi lCi lFast lStore lCopy lRd lHead dE dF1 df2a df2b df3 dT dEf oldR1 oldR2 liveR ainv sim hA' hsim hx1 hx2 hx3 hx4 hx5 hx6 hx7
     (first | simp only [nextSt, clo, hu0, touch, alloc, free, proj, linz_B, linz_res, linz_closing, linz_ready, linz_val, linz_own, linz_head, take_B, take_res, take_closing, take_ready, take_val, take_own, take_head, noneLP_B, noneLP_res, noneLP_closing, noneLP_ready, noneLP_val, noneLP_own, noneLP_head, ite_linz_B, ite_linz_res, ite_linz_closing, ite_linz_ready, ite_linz_val, ite_linz_own, ite_linz_head] | skip) <;> grind
   case fresh =>
     clearIf nSB nUaf nDf nPn A_hl A_lr A_lc A_helped A_rdy psetA waitA psetB hbT tw nbv pidxA cl1 cl2 cl3 pset psv psU pcas cAl cWt cLk cTl refR unl lnk rdyR valR hd hb1 hb2 hb3 anh lHb lPi lCi lFast lStore lCopy lRd lHead dE dF1 df2a df2b df3 dT dEf oldR1 oldR2 liveR ainv sim hA' hsim hx1 hx2 hx3 hx4 hx5 hx6 hx7
     (first | simp only [nextSt, clo, hu0, touch, alloc, free, proj, linz_B, linz_res, linz_closing, linz_ready, linz_val, linz_own, linz_head, take_B, take_res, take_closing, take_ready, take_val, take_own, take_head, noneLP_B, noneLP_res, noneLP_closing, noneLP_ready, noneLP_val, noneLP_own, noneLP_head, ite_linz_B, ite_linz_res, ite_linz_closing, ite_linz_ready, ite_linz_val, ite_linz_own, ite_linz_head] | skip) <;> grind
   case tw =>
     clearIf nSB nUaf nDf nPn lnk rdyR valR hd hb1 hb2 hb3 anh lHb lPi lCi lFast lStore lCopy lRd lHead dE dF1 df2a df2b df3 dT dEf oldR1 oldR2 liveR ainv sim hA' hsim hx1 hx2 hx3 hx4 hx5 hx6 hx7
     (first | simp only [nextSt, clo, hu0, touch, alloc, free, proj, linz_B, linz_res, linz_closing, linz_ready, linz_val, linz_own, linz_head, take_B, take_res, take_closing, take_ready, take_val, take_own, take_head, noneLP_B, noneLP_res, noneLP_closing, noneLP_ready, noneLP_val, noneLP_own, noneLP_head, ite_linz_B, ite_linz_res, ite_linz_closing, ite_linz_ready, ite_linz_val, ite_linz_own, ite_linz_head] | skip) <;> grind
   case nbv =>
     clearIf nSB nUaf nDf nPn psetA waitA psetB hbT geo fresh lnk rdyR valR hd hb1 hb2 hb3 anh lHb lPi lCi lFast lStore lCopy lRd lHead dE dF1 df2a df2b df3 dT dEf oldR1 oldR2 liveR ainv sim hA' hsim hx1 hx2 hx3 hx4 hx5 hx6 hx7
     (first | simp only [nextSt, clo, hu0, touch, alloc, free, proj, linz_B, linz_res, linz_closing, linz_ready, linz_val, linz_own, linz_head, take_B, take_res, take_closing, take_ready, take_val, take_own, take_head, noneLP_B, noneLP_res, noneLP_closing, noneLP_ready, noneLP_val, noneLP_own, noneLP_head, ite_linz_B, ite_linz_res, ite_linz_closing, ite_linz_ready, ite_linz_val, ite_linz_own, ite_linz_head] | skip) <;> grind
   case cl1 =>
     clearIf nSB nUaf nDf nPn psetA waitA psetB hbT rdyR valR hd hb1 hb2 hb3 anh lHb lPi lCi lFast lStore lCopy lRd lHead dE dF1 df2a df2b df3 dT dEf oldR1 oldR2 liveR ainv sim hA' hsim hx1 hx2 hx3 hx4 hx5 hx6 hx7
     (first | simp only [nextSt, clo, hu0, touch, alloc, free, proj, linz_B, linz_res, linz_closing, linz_ready, linz_val, linz_own, linz_head, take_B, take_res, take_closing, take_ready, take_val, take_own, take_head, noneLP_B, noneLP_res, noneLP_closing, noneLP_ready, noneLP_val, noneLP_own, noneLP_head, ite_linz_B, ite_linz_res, ite_linz_closing, ite_linz_ready, ite_linz_val, ite_linz_own, ite_linz_head] | skip) <;> grind
   case cl2 =>
     clearIf nSB nUaf nDf nPn psetA waitA psetB hbT rdyR valR hd hb1 hb2 hb3 anh lHb lPi lCi lFast lStore lCopy lRd lHead dE dF1 df2a df2b df3 dT dEf oldR1 oldR2 liveR ainv sim hA' hsim hx1 hx2 hx3 hx4 hx5 hx6 hx7
     (first | simp only [nextSt, clo, hu0, touch, alloc, free, proj, linz_B, linz_res, linz_closing, linz_ready, linz_val, linz_own, linz_head, take_B, take_res, take_closing, take_ready, take_val, take_own, take_head, noneLP_B, noneLP_res, noneLP_closing, noneLP_ready, noneLP_val, noneLP_own, noneLP_head, ite_linz_B, ite_linz_res, ite_linz_closing, ite_linz_ready, ite_linz_val, ite_linz_own, ite_linz_head] | skip) <;> grind
   case cl3 =>
     clearIf nSB nUaf nDf nPn psetA waitA psetB hbT rdyR valR hd hb1 hb2 hb3 anh lHb lPi lCi lFast lStore lCopy lRd lHead dE dF1 df2a df2b df3 dT dEf oldR1 oldR2 liveR ainv sim hA' hsim hx1 hx2 hx3 hx4 hx5 hx6 hx7
     (first | simp only [nextSt, clo, hu0, touch, alloc, free, proj, linz_B, linz_res, linz_closing, linz_ready, linz_val, linz_own, linz_head, take_B, take_res, take_closing, take_ready, take_val, take_own, take_head, noneLP_B, noneLP_res, noneLP_closing, noneLP_ready, noneLP_val, noneLP_own, noneLP_head, ite_linz_B, ite_linz_res, ite_linz_closing, ite_linz_ready, ite_linz_val, ite_linz_own, ite_linz_head] | skip) <;> grind
   case pset =>
     clearIf nSB nUaf nDf nPn psetA waitA psetB hbT rdyR valR hd hb1 hb2 hb3 anh lHb lPi lCi lFast lStore lCopy lRd lHead dE dF1 df2a df2b df3 dT dEf oldR1 oldR2 liveR ainv sim hA' hsim hx1 hx2 hx3 hx4 hx5 hx6 hx7
     (first | simp only [nextSt, clo, hu0, touch, alloc, free, proj, linz_B, linz_res, linz_closing, linz_ready, linz_val, linz_own, linz_head, take_B, take_res, take_closing, take_ready, take_val, take_own, take_head, noneLP_B, noneLP_res, noneLP_closing, noneLP_ready, noneLP_val, noneLP_own, noneLP_head, ite_linz_B, ite_linz_res, ite_linz_closing, ite_linz_ready, ite_linz_val, ite_linz_own, ite_linz_head] | skip) <;> grind
   case psv =>
     clearIf nSB nUaf nDf nPn psetA waitA psetB hbT rdyR valR hd hb1 hb2 hb3 anh lHb lPi lCi lFast lStore lCopy lRd lHead dE dF1 df2a df2b df3 dT dEf oldR1 oldR2 liveR ainv sim hA' hsim hx1 hx2 hx3 hx4 hx5 hx6 hx7
     (first | simp only [nextSt, clo, hu0, touch, alloc, free, proj, linz_B, linz_res, linz_closing, linz_ready, linz_val, linz_own, linz_head, take_B, take_res, take_closing, take_ready, take_val, take_own, take_head, noneLP_B, noneLP_res, noneLP_closing, noneLP_ready, noneLP_val, noneLP_own, noneLP_head, ite_linz_B, ite_linz_res, ite_linz_closing, ite_linz_ready, ite_linz_val, ite_linz_own, ite_linz_head] | skip) <;> grind
   case pcas =>
     clearIf nSB nUaf nDf nPn psetA waitA psetB hbT rdyR valR hd hb1 hb2 hb3 anh lHb lPi lCi lFast lStore lCopy lRd lHead dE dF1 df2a df2b df3 dT dEf oldR1 oldR2 liveR ainv sim hA' hsim hx1 hx2 hx3 hx4 hx5 hx6 hx7
     (first | simp only [nextSt, clo, hu0, touch, alloc, free, proj, linz_B, linz_res, linz_closing, linz_ready, linz_val, linz_own, linz_head, take_B, take_res, take_closing, take_ready, take_val, take_own, take_head, noneLP_B, noneLP_res, noneLP_closing, noneLP_ready, noneLP_val, noneLP_own, noneLP_head, ite_linz_B, ite_linz_res, ite_linz_closing, ite_linz_ready, ite_linz_val, ite_linz_own, ite_linz_head] | skip) <;> grind
   case cAl =>
     clearIf nSB nUaf nDf nPn psetA waitA psetB hbT rdyR valR hd hb1 hb2 hb3 anh lHb lPi lCi lFast lStore lCopy lRd lHead dE dF1 df2a df2b df3 dT dEf oldR1 oldR2 liveR ainv sim hA' hsim hx1 hx2 hx3 hx4 hx5 hx6 hx7
     (first | simp only [nextSt, clo, hu0, touch, alloc, free, proj, linz_B, linz_res, linz_closing, linz_ready, linz_val, linz_own, linz_head, take_B, take_res, take_closing, take_ready, take_val, take_own, take_head, noneLP_B, noneLP_res, noneLP_closing, noneLP_ready, noneLP_val, noneLP_own, noneLP_head, ite_linz_B, ite_linz_res, ite_linz_closing, ite_linz_ready, ite_linz_val, ite_linz_own, ite_linz_head] | skip) <;> grind
   case cWt =>
     clearIf nSB nUaf nDf nPn psetA waitA psetB hbT rdyR valR hd hb1 hb2 hb3 anh lHb lPi lCi lFast lStore lCopy lRd lHead dE dF1 df2a df2b df3 dT dEf oldR1 oldR2 liveR ainv sim hA' hsim hx1 hx2 hx3 hx4 hx5 hx6 hx7
     (first | simp only [nextSt, clo, hu0, touch, alloc, free, proj, linz_B, linz_res, linz_closing, linz_ready, linz_val, linz_own, linz_head, take_B, take_res, take_closing, take_ready, take_val, take_own, take_head, noneLP_B, noneLP_res, noneLP_closing, noneLP_ready, noneLP_val, noneLP_own, noneLP_head, ite_linz_B, ite_linz_res, ite_linz_closing, ite_linz_ready, ite_linz_val, ite_linz_own, ite_linz_head] | skip) <;> grind
   case cLk =>
     clearIf nSB nUaf nDf nPn psetA waitA psetB hbT rdyR valR hd hb1 hb2 hb3 anh lHb lPi lCi lFast lStore lCopy lRd lHead dE dF1 df2a df2b df3 dT dEf oldR1 oldR2 liveR ainv sim hA' hsim hx1 hx2 hx3 hx4 hx5 hx6 hx7
     (first | simp only [nextSt, clo, hu0, touch, alloc, free, proj, linz_B, linz_res, linz_closing, linz_ready, linz_val, linz_own, linz_head, take_B, take_res, take_closing, take_ready, take_val, take_own, take_head, noneLP_B, noneLP_res, noneLP_closing, noneLP_ready, noneLP_val, noneLP_own, noneLP_head, ite_linz_B, ite_linz_res, ite_linz_closing, ite_linz_ready, ite_linz_val, ite_linz_own, ite_linz_head] | skip) <;> grind
   case cTl =>
     clearIf nSB nUaf nDf nPn psetA waitA psetB hbT rdyR valR hd hb1 hb2 hb3 anh lHb lPi lCi lFast lStore lCopy lRd lHead dE dF1 df2a df2b df3 dT dEf oldR1 oldR2 liveR ainv sim hA' hsim hx1 hx2 hx3 hx4 hx5 hx6 hx7
     (first | simp only [nextSt, clo, hu0, touch, alloc, free, proj, linz_B, linz_res, linz_closing, linz_ready, linz_val, linz_own, linz_head, take_B, take_res, take_closing, take_ready, take_val, take_own, take_head, noneLP_B, noneLP_res, noneLP_closing, noneLP_ready, noneLP_val, noneLP_own, noneLP_head, ite_linz_B, ite_linz_res, ite_linz_closing, ite_linz_ready, ite_linz_val, ite_linz_own, ite_linz_head] | skip) <;> grind
   case lnk =>
     clearIf nSB nUaf nDf nPn A_hl A_lr A_lc A_helped A_rdy psetA waitA psetB hbT rdyR valR hd hb1 hb2 hb3 anh lHb lPi lCi lFast lStore lCopy lRd lHead dE dF1 df2a df2b df3 dT dEf oldR1 oldR2 liveR ainv sim hA' hsim hx1 hx2 hx3 hx4 hx5 hx6 hx7
     (first | simp only [nextSt, clo, hu0, touch, alloc, free, proj, linz_B, linz_res, linz_closing, linz_ready, linz_val, linz_own, linz_head, take_B, take_res, take_closing, take_ready, take_val, take_own, take_head, noneLP_B, noneLP_res, noneLP_closing, noneLP_ready, noneLP_val, noneLP_own, noneLP_head, ite_linz_B, ite_linz_res, ite_linz_closing, ite_linz_ready, ite_linz_val, ite_linz_own, ite_linz_head] | skip) <;> grind
   case rdyR =>
     clearIf nSB nUaf nDf nPn geo fresh tw nbv pidxA lnk hd hb1 hb2 hb3 anh lHb lPi lCi lFast lStore lCopy lRd lHead dE dF1 df2a df2b df3 dT dEf oldR1 oldR2 liveR ainv sim hA' hsim
     (first | simp only [nextSt, clo, hu0, touch, alloc, free, proj, linz_B, linz_res, linz_closing, linz_ready, linz_val, linz_own, linz_head, take_B, take_res, take_closing, take_ready, take_val, take_own, take_head, noneLP_B, noneLP_res, noneLP_closing, noneLP_ready, noneLP_val, noneLP_own, noneLP_head, ite_linz_B, ite_linz_res, ite_linz_closing, ite_linz_ready, ite_linz_val, ite_linz_own, ite_linz_head] | skip) <;> grind
   case valR =>
     clearIf nSB nUaf nDf nPn geo fresh tw nbv pidxA lnk hd hb1 hb2 hb3 anh lHb lPi lCi lFast lStore lCopy lRd lHead dE dF1 df2a df2b df3 dT dEf oldR1 oldR2 liveR ainv sim hA' hsim
     (first | simp only [nextSt, clo, hu0, touch, alloc, free, proj, linz_B, linz_res, linz_closing, linz_ready, linz_val, linz_own, linz_head, take_B, take_res, take_closing, take_ready, take_val, take_own, take_head, noneLP_B, noneLP_res, noneLP_closing, noneLP_ready, noneLP_val, noneLP_own, noneLP_head, ite_linz_B, ite_linz_res, ite_linz_closing, ite_linz_ready, ite_linz_val, ite_linz_own, ite_linz_head] | skip) <;> grind
   case hd =>
     clearIf nSB nUaf nDf nPn A_hl A_lr A_lc A_helped A_rdy psetA waitA psetB hbT geo fresh tw nbv pidxA cl1 cl2 cl3 pset psv psU pcas cAl cWt cLk cTl refR unl lnk rdyR valR dE dF1 df2a df2b df3 dT dEf oldR1 oldR2 liveR ainv sim hA' hsim
     (first | simp only [nextSt, clo, hu0, touch, alloc, free, proj, linz_B, linz_res, linz_closing, linz_ready, linz_val, linz_own, linz_head, take_B, take_res, take_closing, take_ready, take_val, take_own, take_head, noneLP_B, noneLP_res, noneLP_closing, noneLP_ready, noneLP_val, noneLP_own, noneLP_head, ite_linz_B, ite_linz_res, ite_linz_closing, ite_linz_ready, ite_linz_val, ite_linz_own, ite_linz_head] | skip) <;> grind
   case hb1 =>
     clearIf nSB nUaf nDf nPn A_hl A_lr A_lc A_helped A_rdy psetA waitA psetB hbT geo fresh tw nbv pidxA cl1 cl2 cl3 pset psv psU pcas cAl cWt cLk cTl refR unl lnk rdyR valR dE dF1 df2a df2b df3 dT dEf oldR1 oldR2 liveR ainv sim hA' hsim
     (first | simp only [nextSt, clo, hu0, touch, alloc, free, proj, linz_B, linz_res, linz_closing, linz_ready, linz_val, linz_own, linz_head, take_B, take_res, take_closing, take_ready, take_val, take_own, take_head, noneLP_B, noneLP_res, noneLP_closing, noneLP_ready, noneLP_val, noneLP_own, noneLP_head, ite_linz_B, ite_linz_res, ite_linz_closing, ite_linz_ready, ite_linz_val, ite_linz_own, ite_linz_head] | skip) <;> grind
   case hb2 =>
     clearIf nSB nUaf nDf nPn A_hl A_lr A_lc A_helped A_rdy psetA waitA psetB hbT geo fresh tw nbv pidxA cl1 cl2 cl3 pset psv psU pcas cAl cWt cLk cTl refR unl lnk rdyR valR dE dF1 df2a df2b df3 dT dEf oldR1 oldR2 liveR ainv sim hA' hsim
     (first | simp only [nextSt, clo, hu0, touch, alloc, free, proj, linz_B, linz_res, linz_closing, linz_ready, linz_val, linz_own, linz_head, take_B, take_res, take_closing, take_ready, take_val, take_own, take_head, noneLP_B, noneLP_res, noneLP_closing, noneLP_ready, noneLP_val, noneLP_own, noneLP_head, ite_linz_B, ite_linz_res, ite_linz_closing, ite_linz_ready, ite_linz_val, ite_linz_own, ite_linz_head] | skip) <;> grind
   case hb3 =>
     clearIf nSB nUaf nDf nPn A_hl A_lr A_lc A_helped A_rdy psetA waitA psetB hbT geo fresh tw nbv pidxA cl1 cl2 cl3 pset psv psU pcas cAl cWt cLk cTl refR unl lnk rdyR valR dE dF1 df2a df2b df3 dT dEf oldR1 oldR2 liveR ainv sim hA' hsim
     (first | simp only [nextSt, clo, hu0, touch, alloc, free, proj, linz_B, linz_res, linz_closing, linz_ready, linz_val, linz_own, linz_head, take_B, take_res, take_closing, take_ready, take_val, take_own, take_head, noneLP_B, noneLP_res, noneLP_closing, noneLP_ready, noneLP_val, noneLP_own, noneLP_head, ite_linz_B, ite_linz_res, ite_linz_closing, ite_linz_ready, ite_linz_val, ite_linz_own, ite_linz_head] | skip) <;> grind
   case lHb =>
     clearIf nSB nUaf nDf nPn geo fresh rdyR valR oldR1 oldR2 liveR ainv sim hA' hsim
     (first | simp only [nextSt, clo, hu0, touch, alloc, free, proj, linz_B, linz_res, linz_closing, linz_ready, linz_val, linz_own, linz_head, take_B, take_res, take_closing, take_ready, take_val, take_own, take_head, noneLP_B, noneLP_res, noneLP_closing, noneLP_ready, noneLP_val, noneLP_own, noneLP_head, ite_linz_B, ite_linz_res, ite_linz_closing, ite_linz_ready, ite_linz_val, ite_linz_own, ite_linz_head] | skip) <;> grind
   case lPi =>
     clearIf nSB nUaf nDf nPn geo fresh rdyR valR oldR1 oldR2 liveR ainv sim hA' hsim
     (first | simp only [nextSt, clo, hu0, touch, alloc, free, proj, linz_B, linz_res, linz_closing, linz_ready, linz_val, linz_own, linz_head, take_B, take_res, take_closing, take_ready, take_val, take_own, take_head, noneLP_B, noneLP_res, noneLP_closing, noneLP_ready, noneLP_val, noneLP_own, noneLP_head, ite_linz_B, ite_linz_res, ite_linz_closing, ite_linz_ready, ite_linz_val, ite_linz_own, ite_linz_head] | skip) <;> grind
   case lCi =>
     clearIf nSB nUaf nDf nPn geo fresh rdyR valR oldR1 oldR2 liveR ainv sim hA' hsim
     (first | simp only [nextSt, clo, hu0, touch, alloc, free, proj, linz_B, linz_res, linz_closing, linz_ready, linz_val, linz_own, linz_head, take_B, take_res, take_closing, take_ready, take_val, take_own, take_head, noneLP_B, noneLP_res, noneLP_closing, noneLP_ready, noneLP_val, noneLP_own, noneLP_head, ite_linz_B, ite_linz_res, ite_linz_closing, ite_linz_ready, ite_linz_val, ite_linz_own, ite_linz_head] | skip) <;> grind
   case lFast =>
     clearIf nSB nUaf nDf nPn geo fresh rdyR valR oldR1 oldR2 liveR ainv sim hA' hsim
     (first | simp only [nextSt, clo, hu0, touch, alloc, free, proj, linz_B, linz_res, linz_closing, linz_ready, linz_val, linz_own, linz_head, take_B, take_res, take_closing, take_ready, take_val, take_own, take_head, noneLP_B, noneLP_res, noneLP_closing, noneLP_ready, noneLP_val, noneLP_own, noneLP_head, ite_linz_B, ite_linz_res, ite_linz_closing, ite_linz_ready, ite_linz_val, ite_linz_own, ite_linz_head] | skip) <;> grind
   case lStore =>
     clearIf nSB nUaf nDf nPn geo fresh rdyR valR oldR1 oldR2 liveR ainv sim hA' hsim
     (first | simp only [nextSt, clo, hu0, touch, alloc, free, proj, linz_B, linz_res, linz_closing, linz_ready, linz_val, linz_own, linz_head, take_B, take_res, take_closing, take_ready, take_val, take_own, take_head, noneLP_B, noneLP_res, noneLP_closing, noneLP_ready, noneLP_val, noneLP_own, noneLP_head, ite_linz_B, ite_linz_res, ite_linz_closing, ite_linz_ready, ite_linz_val, ite_linz_own, ite_linz_head] | skip) <;> grind
   case lCopy =>
     clearIf nSB nUaf nDf nPn geo fresh rdyR valR oldR1 oldR2 liveR ainv sim hA' hsim
     (first | simp only [nextSt, clo, hu0, touch, alloc, free, proj, linz_B, linz_res, linz_closing, linz_ready, linz_val, linz_own, linz_head, take_B, take_res, take_closing, take_ready, take_val, take_own, take_head, noneLP_B, noneLP_res, noneLP_closing, noneLP_ready, noneLP_val, noneLP_own, noneLP_head, ite_linz_B, ite_linz_res, ite_linz_closing, ite_linz_ready, ite_linz_val, ite_linz_own, ite_linz_head] | skip) <;> grind
   case lRd =>
     clearIf nSB nUaf nDf nPn geo fresh rdyR valR oldR1 oldR2 liveR ainv sim hA' hsim
     (first | simp only [nextSt, clo, hu0, touch, alloc, free, proj, linz_B, linz_res, linz_closing, linz_ready, linz_val, linz_own, linz_head, take_B, take_res, take_closing, take_ready, take_val, take_own, take_head, noneLP_B, noneLP_res, noneLP_closing, noneLP_ready, noneLP_val, noneLP_own, noneLP_head, ite_linz_B, ite_linz_res, ite_linz_closing, ite_linz_ready, ite_linz_val, ite_linz_own, ite_linz_head] | skip) <;> grind
   case lHead =>
     clearIf nSB nUaf nDf nPn geo fresh rdyR valR oldR1 oldR2 liveR ainv sim hA' hsim
     (first | simp only [nextSt, clo, hu0, touch, alloc, free, proj, linz_B, linz_res, linz_closing, linz_ready, linz_val, linz_own, linz_head, take_B, take_res, take_closing, take_ready, take_val, take_own, take_head, noneLP_B, noneLP_res, noneLP_closing, noneLP_ready, noneLP_val, noneLP_own, noneLP_head, ite_linz_B, ite_linz_res, ite_linz_closing, ite_linz_ready, ite_linz_val, ite_linz_own, ite_linz_head] | skip) <;> grind
   case dE =>
     clearIf nSB nUaf nDf nPn psetA waitA psetB hbT geo fresh lnk rdyR valR lHb lPi lCi lFast lStore lCopy lRd lHead oldR1 oldR2 liveR ainv sim hA' hsim hx1 hx2 hx3 hx4 hx5 hx6 hx7
     (first | simp only [nextSt, clo, hu0, touch, alloc, free, proj, linz_B, linz_res, linz_closing, linz_ready, linz_val, linz_own, linz_head, take_B, take_res, take_closing, take_ready, take_val, take_own, take_head, noneLP_B, noneLP_res, noneLP_closing, noneLP_ready, noneLP_val, noneLP_own, noneLP_head, ite_linz_B, ite_linz_res, ite_linz_closing, ite_linz_ready, ite_linz_val, ite_linz_own, ite_linz_head] | skip) <;> grind
   case dF1 =>
     clearIf nSB nUaf nDf nPn A_hl A_lr A_lc A_helped A_rdy psetA waitA psetB hbT geo fresh rdyR valR oldR1 oldR2 liveR ainv sim hA' hsim hx1 hx2 hx3 hx4 hx5 hx6 hx7
     (first | simp only [nextSt, clo, hu0, touch, alloc, free, proj, linz_B, linz_res, linz_closing, linz_ready, linz_val, linz_own, linz_head, take_B, take_res, take_closing, take_ready, take_val, take_own, take_head, noneLP_B, noneLP_res, noneLP_closing, noneLP_ready, noneLP_val, noneLP_own, noneLP_head, ite_linz_B, ite_linz_res, ite_linz_closing, ite_linz_ready, ite_linz_val, ite_linz_own, ite_linz_head] | skip) <;> grind
   case df2a =>
     clearIf nSB nUaf nDf nPn A_hl A_lr A_lc A_helped A_rdy geo fresh lnk rdyR valR ainv sim hA' hsim hx1 hx2 hx3 hx4 hx5 hx6 hx7
     (first | simp only [nextSt, clo, hu0, touch, alloc, free, proj, linz_B, linz_res, linz_closing, linz_ready, linz_val, linz_own, linz_head, take_B, take_res, take_closing, take_ready, take_val, take_own, take_head, noneLP_B, noneLP_res, noneLP_closing, noneLP_ready, noneLP_val, noneLP_own, noneLP_head, ite_linz_B, ite_linz_res, ite_linz_closing, ite_linz_ready, ite_linz_val, ite_linz_own, ite_linz_head] | skip) <;> grind
   case df2b =>
     clearIf nSB nUaf nDf nPn A_hl A_lr A_lc A_helped A_rdy geo fresh lnk rdyR valR ainv sim hA' hsim hx1 hx2 hx3 hx4 hx5 hx6 hx7
     (first | simp only [nextSt, clo, hu0, touch, alloc, free, proj, linz_B, linz_res, linz_closing, linz_ready, linz_val, linz_own, linz_head, take_B, take_res, take_closing, take_ready, take_val, take_own, take_head, noneLP_B, noneLP_res, noneLP_closing, noneLP_ready, noneLP_val, noneLP_own, noneLP_head, ite_linz_B, ite_linz_res, ite_linz_closing, ite_linz_ready, ite_linz_val, ite_linz_own, ite_linz_head] | skip) <;> grind
   case df3 =>
     clearIf nSB nUaf nDf nPn A_hl A_lr A_lc A_helped A_rdy geo fresh lnk rdyR valR ainv sim hA' hsim hx1 hx2 hx3 hx4 hx5 hx6 hx7
     (first | simp only [nextSt, clo, hu0, touch, alloc, free, proj, linz_B, linz_res, linz_closing, linz_ready, linz_val, linz_own, linz_head, take_B, take_res, take_closing, take_ready, take_val, take_own, take_head, noneLP_B, noneLP_res, noneLP_closing, noneLP_ready, noneLP_val, noneLP_own, noneLP_head, ite_linz_B, ite_linz_res, ite_linz_closing, ite_linz_ready, ite_linz_val, ite_linz_own, ite_linz_head] | skip) <;> grind
   case oldR1 =>
     clearIf nSB nUaf nDf nPn A_hl A_lr A_lc A_helped A_rdy lnk rdyR valR ainv sim hA' hsim hx1 hx2 hx3 hx4 hx5 hx6 hx7
     (first | simp only [nextSt, clo, hu0, touch, alloc, free, proj, linz_B, linz_res, linz_closing, linz_ready, linz_val, linz_own, linz_head, take_B, take_res, take_closing, take_ready, take_val, take_own, take_head, noneLP_B, noneLP_res, noneLP_closing, noneLP_ready, noneLP_val, noneLP_own, noneLP_head, ite_linz_B, ite_linz_res, ite_linz_closing, ite_linz_ready, ite_linz_val, ite_linz_own, ite_linz_head] | skip) <;> grind
   case oldR2 =>
     clearIf nSB nUaf nDf nPn A_hl A_lr A_lc A_helped A_rdy lnk rdyR valR ainv sim hA' hsim hx1 hx2 hx3 hx4 hx5 hx6 hx7
     (first | simp only [nextSt, clo, hu0, touch, alloc, free, proj, linz_B, linz_res, linz_closing, linz_ready, linz_val, linz_own, linz_head, take_B, take_res, take_closing, take_ready, take_val, take_own, take_head, noneLP_B, noneLP_res, noneLP_closing, noneLP_ready, noneLP_val, noneLP_own, noneLP_head, ite_linz_B, ite_linz_res, ite_linz_closing, ite_linz_ready, ite_linz_val, ite_linz_own, ite_linz_head] | skip) <;> grind
   case liveR =>
     clearIf nSB nUaf nDf nPn A_hl A_lr A_lc A_helped A_rdy lnk rdyR valR ainv sim hA' hsim hx1 hx2 hx3 hx4 hx5 hx6 hx7
     (first | simp only [nextSt, clo, hu0, touch, alloc, free, proj, linz_B, linz_res, linz_closing, linz_ready, linz_val, linz_own, linz_head, take_B, take_res, take_closing, take_ready, take_val, take_own, take_head, noneLP_B, noneLP_res, noneLP_closing, noneLP_ready, noneLP_val, noneLP_own, noneLP_head, ite_linz_B, ite_linz_res, ite_linz_closing, ite_linz_ready, ite_linz_val, ite_linz_own, ite_linz_head] | skip) <;> grind))

set_option hygiene false in
/-- the same after `constructor`, when the caller has already closed the cases `rdyR` and `valR` -/
macro "bfinNoSlot" tt:term : tactic => `(tactic|
  (skip
   case aB =>
     clearIf nSB nUaf nDf nPn A_hl A_lr A_lc A_helped A_rdy psetA waitA psetB hbT idleN cons0 alc pre pre0 newc preA preR nb0 nb1 nb2 drp dfl geo fresh tw nbv pidxA cl1 cl2 cl3 pset psv psU pcas cAl cWt cLk cTl refR unl lnk rdyR valR hd hb1 hb2 hb3 anh lHb lPi lCi lFast lStore lCopy lRd lHead dE dF1 df2a df2b df3 dT dEf oldR1 oldR2 liveR ainv sim hA' hsim hx1 hx2 hx3 hx4 hx5 hx6 hx7
     (first | simp only [nextSt, clo, hu0, touch, alloc, free, proj, linz_B, linz_res, linz_closing, linz_ready, linz_val, linz_own, linz_head, take_B, take_res, take_closing, take_ready, take_val, take_own, take_head, noneLP_B, noneLP_res, noneLP_closing, noneLP_ready, noneLP_val, noneLP_own, noneLP_head, ite_linz_B, ite_linz_res, ite_linz_closing, ite_linz_ready, ite_linz_val, ite_linz_own, ite_linz_head] | skip) <;> grind
   case bpos =>
     clearIf nSB nUaf nDf nPn A_hl A_lr A_lc A_helped A_rdy psetA waitA psetB hbT idleN cons0 alc pre pre0 newc preA preR nb0 nb1 nb2 drp dfl geo fresh tw nbv pidxA cl1 cl2 cl3 pset psv psU pcas cAl cWt cLk cTl refR unl lnk rdyR valR hd hb1 hb2 hb3 anh lHb lPi lCi lFast lStore lCopy lRd lHead dE dF1 df2a df2b df3 dT dEf oldR1 oldR2 liveR ainv sim hA' hsim hx1 hx2 hx3 hx4 hx5 hx6 hx7
     (first | simp only [nextSt, clo, hu0, touch, alloc, free, proj, linz_B, linz_res, linz_closing, linz_ready, linz_val, linz_own, linz_head, take_B, take_res, take_closing, take_ready, take_val, take_own, take_head, noneLP_B, noneLP_res, noneLP_closing, noneLP_ready, noneLP_val, noneLP_own, noneLP_head, ite_linz_B, ite_linz_res, ite_linz_closing, ite_linz_ready, ite_linz_val, ite_linz_own, ite_linz_head] | skip) <;> grind
   case ainv => exact hA'
   case sim =>
     clearIf nSB nUaf nDf nPn lnk dE dF1 df2a df2b df3 dT dEf oldR1 oldR2 liveR ainv hA' hsim
     intro u
     by_cases hu : u = $tt
     · subst hu
       (first | simp only [nextSt, clo, hu0, touch, alloc, free, proj, linz_B, linz_res, linz_closing, linz_ready, linz_val, linz_own, linz_head, take_B, take_res, take_closing, take_ready, take_val, take_own, take_head, noneLP_B, noneLP_res, noneLP_closing, noneLP_ready, noneLP_val, noneLP_own, noneLP_head, ite_linz_B, ite_linz_res, ite_linz_closing, ite_linz_ready, ite_linz_val, ite_linz_own, ite_linz_head, upd, ↓reduceIte] | skip) <;> (first | rfl | grind)
     · simp only [nextSt, upd, hu, ↓reduceIte]
       rw [sim u]; symm; apply proj_congr
       first | (intro b _; rfl) | (simp only [nextSt, clo, hu0, touch, alloc, free, proj, linz_B, linz_res, linz_closing, linz_ready, linz_val, linz_own, linz_head, take_B, take_res, take_closing, take_ready, take_val, take_own, take_head, noneLP_B, noneLP_res, noneLP_closing, noneLP_ready, noneLP_val, noneLP_own, noneLP_head, ite_linz_B, ite_linz_res, ite_linz_closing, ite_linz_ready, ite_linz_val, ite_linz_own, ite_linz_head]; grind)
   case noSimBad =>
     clearIf nUaf nDf nPn lnk dE dF1 df2a df2b df3 dT dEf oldR1 oldR2 liveR ainv sim hA' hsim
     (first | simp only [nextSt, clo, hu0, touch, alloc, free, proj, linz_B, linz_res, linz_closing, linz_ready, linz_val, linz_own, linz_head, take_B, take_res, take_closing, take_ready, take_val, take_own, take_head, noneLP_B, noneLP_res, noneLP_closing, noneLP_ready, noneLP_val, noneLP_own, noneLP_head, ite_linz_B, ite_linz_res, ite_linz_closing, ite_linz_ready, ite_linz_val, ite_linz_own, ite_linz_head, nSB, Bool.not_true, Bool.false_or, Bool.or_false, bne_eq_false_iff_eq] | skip) <;> (first | rfl | grind)
   case noUaf =>
     clearIf nSB nDf nPn lnk rdyR valR ainv sim hA' hsim hx1 hx2 hx3 hx4 hx5 hx6 hx7
     (first | simp only [nextSt, clo, hu0, touch, alloc, free, proj, linz_B, linz_res, linz_closing, linz_ready, linz_val, linz_own, linz_head, take_B, take_res, take_closing, take_ready, take_val, take_own, take_head, noneLP_B, noneLP_res, noneLP_closing, noneLP_ready, noneLP_val, noneLP_own, noneLP_head, ite_linz_B, ite_linz_res, ite_linz_closing, ite_linz_ready, ite_linz_val, ite_linz_own, ite_linz_head] | skip) <;> grind
   case noDfree =>
     clearIf nSB nUaf nPn A_hl A_lr A_lc A_helped A_rdy geo fresh lnk rdyR valR ainv sim hA' hsim hx1 hx2 hx3 hx4 hx5 hx6 hx7
     (first | simp only [nextSt, clo, hu0, touch, alloc, free, proj, linz_B, linz_res, linz_closing, linz_ready, linz_val, linz_own, linz_head, take_B, take_res, take_closing, take_ready, take_val, take_own, take_head, noneLP_B, noneLP_res, noneLP_closing, noneLP_ready, noneLP_val, noneLP_own, noneLP_head, ite_linz_B, ite_linz_res, ite_linz_closing, ite_linz_ready, ite_linz_val, ite_linz_own, ite_linz_head] | skip) <;> grind
   case noPanic =>
     clearIf nSB nUaf nDf psetA waitA psetB hbT geo fresh rdyR valR oldR1 oldR2 liveR ainv sim hA' hsim hx1 hx2 hx3 hx4 hx5 hx6 hx7
     (first | simp only [nextSt, clo, hu0, touch, alloc, free, proj, linz_B, linz_res, linz_closing, linz_ready, linz_val, linz_own, linz_head, take_B, take_res, take_closing, take_ready, take_val, take_own, take_head, noneLP_B, noneLP_res, noneLP_closing, noneLP_ready, noneLP_val, noneLP_own, noneLP_head, ite_linz_B, ite_linz_res, ite_linz_closing, ite_linz_ready, ite_linz_val, ite_linz_own, ite_linz_head] | skip) <;> grind
   case idleN =>
     clearIf nSB nUaf nDf nPn A_hl A_lr A_lc A_helped A_rdy psetA waitA psetB hbT cons0 alc pre pre0 newc preA preR nb0 nb1 nb2 drp dfl geo fresh tw nbv pidxA cl1 cl2 cl3 pset psv psU pcas cAl cWt cLk cTl refR unl lnk rdyR valR hd hb1 hb2 hb3 anh lHb lPi lCi lFast lStore lCopy lRd lHead dE dF1 df2a df2b df3 dT dEf oldR1 oldR2 liveR ainv sim hA' hsim hx1 hx2 hx3 hx4 hx5 hx6 hx7
     (first | simp only [nextSt, clo, hu0, touch, alloc, free, proj, linz_B, linz_res, linz_closing, linz_ready, linz_val, linz_own, linz_head, take_B, take_res, take_closing, take_ready, take_val, take_own, take_head, noneLP_B, noneLP_res, noneLP_closing, noneLP_ready, noneLP_val, noneLP_own, noneLP_head, ite_linz_B, ite_linz_res, ite_linz_closing, ite_linz_ready, ite_linz_val, ite_linz_own, ite_linz_head] | skip) <;> grind
   case cons0 =>
     clearIf nSB nUaf nDf nPn A_hl A_lr A_lc A_helped A_rdy psetA waitA psetB hbT alc pre pre0 newc preA preR nb0 nb1 nb2 drp dfl geo fresh tw nbv pidxA cl1 cl2 cl3 pset psv psU pcas cAl cWt cLk cTl refR unl lnk rdyR valR hd hb1 hb2 hb3 anh lHb lPi lCi lFast lStore lCopy lRd lHead dE dF1 df2a df2b df3 dT dEf oldR1 oldR2 liveR ainv sim hA' hsim hx1 hx2 hx3 hx4 hx5 hx6 hx7
     (first | simp only [nextSt, clo, hu0, touch, alloc, free, proj, linz_B, linz_res, linz_closing, linz_ready, linz_val, linz_own, linz_head, take_B, take_res, take_closing, take_ready, take_val, take_own, take_head, noneLP_B, noneLP_res, noneLP_closing, noneLP_ready, noneLP_val, noneLP_own, noneLP_head, ite_linz_B, ite_linz_res, ite_linz_closing, ite_linz_ready, ite_linz_val, ite_linz_own, ite_linz_head] | skip) <;> grind
   case alc =>
     clearIf nSB nUaf nDf nPn A_hl A_lr A_lc A_helped A_rdy psetA waitA psetB hbT geo fresh tw nbv pidxA cl1 cl2 cl3 pset psv psU pcas cAl cWt cLk cTl refR unl lnk rdyR valR hd hb1 hb2 hb3 anh lHb lPi lCi lFast lStore lCopy lRd lHead dE dF1 df2a df2b df3 dT dEf oldR1 oldR2 liveR ainv sim hA' hsim hx1 hx2 hx3 hx4 hx5 hx6 hx7
     (first | simp only [nextSt, clo, hu0, touch, alloc, free, proj, linz_B, linz_res, linz_closing, linz_ready, linz_val, linz_own, linz_head, take_B, take_res, take_closing, take_ready, take_val, take_own, take_head, noneLP_B, noneLP_res, noneLP_closing, noneLP_ready, noneLP_val, noneLP_own, noneLP_head, ite_linz_B, ite_linz_res, ite_linz_closing, ite_linz_ready, ite_linz_val, ite_linz_own, ite_linz_head] | skip) <;> grind
   case pre =>
     clearIf nSB nUaf nDf nPn A_hl A_lr A_lc A_helped A_rdy psetA waitA psetB hbT geo fresh tw nbv pidxA cl1 cl2 cl3 pset psv psU pcas cAl cWt cLk cTl refR unl lnk rdyR valR hd hb1 hb2 hb3 anh lHb lPi lCi lFast lStore lCopy lRd lHead dE dF1 df2a df2b df3 dT dEf oldR1 oldR2 liveR ainv sim hA' hsim hx1 hx2 hx3 hx4 hx5 hx6 hx7
     (first | simp only [nextSt, clo, hu0, touch, alloc, free, proj, linz_B, linz_res, linz_closing, linz_ready, linz_val, linz_own, linz_head, take_B, take_res, take_closing, take_ready, take_val, take_own, take_head, noneLP_B, noneLP_res, noneLP_closing, noneLP_ready, noneLP_val, noneLP_own, noneLP_head, ite_linz_B, ite_linz_res, ite_linz_closing, ite_linz_ready, ite_linz_val, ite_linz_own, ite_linz_head] | skip) <;> grind
   case pre0 =>
     clearIf nSB nUaf nDf nPn A_hl A_lr A_lc A_helped A_rdy psetA waitA psetB hbT geo fresh tw nbv pidxA cl1 cl2 cl3 pset psv psU pcas cAl cWt cLk cTl refR unl lnk rdyR valR hd hb1 hb2 hb3 anh lHb lPi lCi lFast lStore lCopy lRd lHead dE dF1 df2a df2b df3 dT dEf oldR1 oldR2 liveR ainv sim hA' hsim hx1 hx2 hx3 hx4 hx5 hx6 hx7
     (first | simp only [nextSt, clo, hu0, touch, alloc, free, proj, linz_B, linz_res, linz_closing, linz_ready, linz_val, linz_own, linz_head, take_B, take_res, take_closing, take_ready, take_val, take_own, take_head, noneLP_B, noneLP_res, noneLP_closing, noneLP_ready, noneLP_val, noneLP_own, noneLP_head, ite_linz_B, ite_linz_res, ite_linz_closing, ite_linz_ready, ite_linz_val, ite_linz_own, ite_linz_head] | skip) <;> grind
   case newc =>
     clearIf nSB nUaf nDf nPn A_hl A_lr A_lc A_helped A_rdy psetA waitA psetB hbT geo fresh tw nbv pidxA cl1 cl2 cl3 pset psv psU pcas cAl cWt cLk cTl refR unl lnk rdyR valR hd hb1 hb2 hb3 anh lHb lPi lCi lFast lStore lCopy lRd lHead dE dF1 df2a df2b df3 dT dEf oldR1 oldR2 liveR ainv sim hA' hsim hx1 hx2 hx3 hx4 hx5 hx6 hx7
     (first | simp only [nextSt, clo, hu0, touch, alloc, free, proj, linz_B, linz_res, linz_closing, linz_ready, linz_val, linz_own, linz_head, take_B, take_res, take_closing, take_ready, take_val, take_own, take_head, noneLP_B, noneLP_res, noneLP_closing, noneLP_ready, noneLP_val, noneLP_own, noneLP_head, ite_linz_B, ite_linz_res, ite_linz_closing, ite_linz_ready, ite_linz_val, ite_linz_own, ite_linz_head] | skip) <;> grind
   case preA =>
     clearIf nSB nUaf nDf nPn A_hl A_lr A_lc A_helped A_rdy psetA waitA psetB hbT geo fresh tw nbv pidxA cl1 cl2 cl3 pset psv psU pcas cAl cWt cLk cTl refR unl lnk rdyR valR hd hb1 hb2 hb3 anh lHb lPi lCi lFast lStore lCopy lRd lHead dE dF1 df2a df2b df3 dT dEf oldR1 oldR2 liveR ainv sim hA' hsim hx1 hx2 hx3 hx4 hx5 hx6 hx7
     (first | simp only [nextSt, clo, hu0, touch, alloc, free, proj, linz_B, linz_res, linz_closing, linz_ready, linz_val, linz_own, linz_head, take_B, take_res, take_closing, take_ready, take_val, take_own, take_head, noneLP_B, noneLP_res, noneLP_closing, noneLP_ready, noneLP_val, noneLP_own, noneLP_head, ite_linz_B, ite_linz_res, ite_linz_closing, ite_linz_ready, ite_linz_val, ite_linz_own, ite_linz_head] | skip) <;> grind
   case preR =>
     clearIf nSB nUaf nDf nPn A_hl A_lr A_lc A_helped A_rdy psetA waitA psetB hbT geo fresh tw nbv pidxA cl1 cl2 cl3 pset psv psU pcas cAl cWt cLk cTl refR unl lnk rdyR valR hd hb1 hb2 hb3 anh lHb lPi lCi lFast lStore lCopy lRd lHead dE dF1 df2a df2b df3 dT dEf oldR1 oldR2 liveR ainv sim hA' hsim hx1 hx2 hx3 hx4 hx5 hx6 hx7
     (first | simp only [nextSt, clo, hu0, touch, alloc, free, proj, linz_B, linz_res, linz_closing, linz_ready, linz_val, linz_own, linz_head, take_B, take_res, take_closing, take_ready, take_val, take_own, take_head, noneLP_B, noneLP_res, noneLP_closing, noneLP_ready, noneLP_val, noneLP_own, noneLP_head, ite_linz_B, ite_linz_res, ite_linz_closing, ite_linz_ready, ite_linz_val, ite_linz_own, ite_linz_head] | skip) <;> grind
   case nb0 =>
     clearIf nSB nUaf nDf nPn A_hl A_lr A_lc A_helped A_rdy psetA waitA psetB hbT geo fresh tw nbv pidxA cl1 cl2 cl3 pset psv psU pcas cAl cWt cLk cTl refR unl lnk rdyR valR hd hb1 hb2 hb3 anh lHb lPi lCi lFast lStore lCopy lRd lHead dE dF1 df2a df2b df3 dT dEf oldR1 oldR2 liveR ainv sim hA' hsim hx1 hx2 hx3 hx4 hx5 hx6 hx7
     (first | simp only [nextSt, clo, hu0, touch, alloc, free, proj, linz_B, linz_res, linz_closing, linz_ready, linz_val, linz_own, linz_head, take_B, take_res, take_closing, take_ready, take_val, take_own, take_head, noneLP_B, noneLP_res, noneLP_closing, noneLP_ready, noneLP_val, noneLP_own, noneLP_head, ite_linz_B, ite_linz_res, ite_linz_closing, ite_linz_ready, ite_linz_val, ite_linz_own, ite_linz_head] | skip) <;> grind
   case nb1 =>
     clearIf nSB nUaf nDf nPn A_hl A_lr A_lc A_helped A_rdy psetA waitA psetB hbT tw nbv pidxA cl1 cl2 cl3 pset psv psU pcas cAl cWt cLk cTl refR unl lnk rdyR valR hd hb1 hb2 hb3 anh lHb lPi lCi lFast lStore lCopy lRd lHead dE dF1 df2a df2b df3 dT dEf oldR1 oldR2 liveR ainv sim hA' hsim hx1 hx2 hx3 hx4 hx5 hx6 hx7
     (first | simp only [nextSt, clo, hu0, touch, alloc, free, proj, linz_B, linz_res, linz_closing, linz_ready, linz_val, linz_own, linz_head, take_B, take_res, take_closing, take_ready, take_val, take_own, take_head, noneLP_B, noneLP_res, noneLP_closing, noneLP_ready, noneLP_val, noneLP_own, noneLP_head, ite_linz_B, ite_linz_res, ite_linz_closing, ite_linz_ready, ite_linz_val, ite_linz_own, ite_linz_head] | skip) <;> grind
   case nb2 =>
     clearIf nSB nUaf nDf nPn A_hl A_lr A_lc A_helped A_rdy psetA waitA psetB hbT tw nbv pidxA cl1 cl2 cl3 pset psv psU pcas cAl cWt cLk cTl refR unl lnk rdyR valR hd hb1 hb2 hb3 anh lHb lPi lCi lFast lStore lCopy lRd lHead dE dF1 df2a df2b df3 dT dEf oldR1 oldR2 liveR ainv sim hA' hsim hx1 hx2 hx3 hx4 hx5 hx6 hx7
     (first | simp only [nextSt, clo, hu0, touch, alloc, free, proj, linz_B, linz_res, linz_closing, linz_ready, linz_val, linz_own, linz_head, take_B, take_res, take_closing, take_ready, take_val, take_own, take_head, noneLP_B, noneLP_res, noneLP_closing, noneLP_ready, noneLP_val, noneLP_own, noneLP_head, ite_linz_B, ite_linz_res, ite_linz_closing, ite_linz_ready, ite_linz_val, ite_linz_own, ite_linz_head] | skip) <;> grind
   case drp =>
     clearIf nSB nUaf nDf nPn A_hl A_lr A_lc A_helped A_rdy psetA waitA psetB hbT geo fresh tw nbv pidxA cl1 cl2 cl3 pset psv psU pcas cAl cWt cLk cTl refR unl lnk rdyR valR hd hb1 hb2 hb3 anh lHb lPi lCi lFast lStore lCopy lRd lHead dE dF1 df2a df2b df3 dT dEf oldR1 oldR2 liveR ainv sim hA' hsim
     (first | simp only [nextSt, clo, hu0, touch, alloc, free, proj, linz_B, linz_res, linz_closing, linz_ready, linz_val, linz_own, linz_head, take_B, take_res, take_closing, take_ready, take_val, take_own, take_head, noneLP_B, noneLP_res, noneLP_closing, noneLP_ready, noneLP_val, noneLP_own, noneLP_head, ite_linz_B, ite_linz_res, ite_linz_closing, ite_linz_ready, ite_linz_val, ite_linz_own, ite_linz_head] | skip) <;> grind
   case dfl =>
     clearIf nSB nUaf nDf nPn A_hl A_lr A_lc A_helped A_rdy psetA waitA psetB hbT geo fresh tw nbv pidxA cl1 cl2 cl3 pset psv psU pcas cAl cWt cLk cTl refR unl lnk rdyR valR hd hb1 hb2 hb3 anh lHb lPi lCi lFast lStore lCopy lRd lHead dE dF1 df2a df2b df3 dT dEf oldR1 oldR2 liveR ainv sim hA' hsim hx1 hx2 hx3 hx4 hx5 hx6 hx7
     (first | simp only [nextSt, clo, hu0, touch, alloc, free, proj, linz_B, linz_res, linz_closing, linz_ready, linz_val, linz_own, linz_head, take_B, take_res, take_closing, take_ready, take_val, take_own, take_head, noneLP_B, noneLP_res, noneLP_closing, noneLP_ready, noneLP_val, noneLP_own, noneLP_head, ite_linz_B, ite_linz_res, ite_linz_closing, ite_linz_ready, ite_linz_val, ite_linz_own, ite_linz_head] | skip) <;> grind
   case geo =>
     clearIf nSB nUaf nDf nPn A_hl A_lr A_lc A_helped A_rdy psetA waitA psetB hbT lnk rdyR valR hd hb1 hb2 hb3 anh lHb lPi lCi lFast lStore lCopy lRd lHead dE dF1 df2a df2b df3 dT dEf oldR1 oldR2 liveR ainv sim hA' hsim hx1 hx2 hx3 hx4 hx5 hx6 hx7
     (first | simp only [nextSt, clo, hu0, touch, alloc, free, proj, linz_B, linz_res, linz_closing, linz_ready, linz_val, linz_own, linz_head, take_B, take_res, take_closing, take_ready, take_val, take_own, take_head, noneLP_B, noneLP_res, noneLP_closing, noneLP_ready, noneLP_val, noneLP_own, noneLP_head, ite_linz_B, ite_linz_res, ite_linz_closing, ite_linz_ready, ite_linz_val, ite_linz_own, ite_linz_head] | skip) <;> grind
   case fresh =>
     clearIf nSB nUaf nDf nPn A_hl A_lr A_lc A_helped A_rdy psetA waitA psetB hbT tw nbv pidxA cl1 cl2 cl3 pset psv psU pcas cAl cWt cLk cTl refR unl lnk rdyR valR hd hb1 hb2 hb3 anh lHb lPi lCi lFast lStore lCopy lRd lHead dE dF1 df2a df2b df3 dT dEf oldR1 oldR2 liveR ainv sim hA' hsim hx1 hx2 hx3 hx4 hx5 hx6 hx7
     (first | simp only [nextSt, clo, hu0, touch, alloc, free, proj, linz_B, linz_res, linz_closing, linz_ready, linz_val, linz_own, linz_head, take_B, take_res, take_closing, take_ready, take_val, take_own, take_head, noneLP_B, noneLP_res, noneLP_closing, noneLP_ready, noneLP_val, noneLP_own, noneLP_head, ite_linz_B, ite_linz_res, ite_linz_closing, ite_linz_ready, ite_linz_val, ite_linz_own, ite_linz_head] | skip) <;> grind
   case tw =>
     clearIf nSB nUaf nDf nPn lnk rdyR valR hd hb1 hb2 hb3 anh lHb lPi lCi lFast lStore lCopy lRd lHead dE dF1 df2a df2b df3 dT dEf oldR1 oldR2 liveR ainv sim hA' hsim hx1 hx2 hx3 hx4 hx5 hx6 hx7
     (first | simp only [nextSt, clo, hu0, touch, alloc, free, proj, linz_B, linz_res, linz_closing, linz_ready, linz_val, linz_own, linz_head, take_B, take_res, take_closing, take_ready, take_val, take_own, take_head, noneLP_B, noneLP_res, noneLP_closing, noneLP_ready, noneLP_val, noneLP_own, noneLP_head, ite_linz_B, ite_linz_res, ite_linz_closing, ite_linz_ready, ite_linz_val, ite_linz_own, ite_linz_head] | skip) <;> grind
   case nbv =>
     clearIf nSB nUaf nDf nPn psetA waitA psetB hbT geo fresh lnk rdyR valR hd hb1 hb2 hb3 anh lHb lPi lCi lFast lStore lCopy lRd lHead dE dF1 df2a df2b df3 dT dEf oldR1 oldR2 liveR ainv sim hA' hsim hx1 hx2 hx3 hx4 hx5 hx6 hx7
     (first | simp only [nextSt, clo, hu0, touch, alloc, free, proj, linz_B, linz_res, linz_closing, linz_ready, linz_val, linz_own, linz_head, take_B, take_res, take_closing, take_ready, take_val, take_own, take_head, noneLP_B, noneLP_res, noneLP_closing, noneLP_ready, noneLP_val, noneLP_own, noneLP_head, ite_linz_B, ite_linz_res, ite_linz_closing, ite_linz_ready, ite_linz_val, ite_linz_own, ite_linz_head] | skip) <;> grind
   case cl1 =>
     clearIf nSB nUaf nDf nPn psetA waitA psetB hbT rdyR valR hd hb1 hb2 hb3 anh lHb lPi lCi lFast lStore lCopy lRd lHead dE dF1 df2a df2b df3 dT dEf oldR1 oldR2 liveR ainv sim hA' hsim hx1 hx2 hx3 hx4 hx5 hx6 hx7
     (first | simp only [nextSt, clo, hu0, touch, alloc, free, proj, linz_B, linz_res, linz_closing, linz_ready, linz_val, linz_own, linz_head, take_B, take_res, take_closing, take_ready, take_val, take_own, take_head, noneLP_B, noneLP_res, noneLP_closing, noneLP_ready, noneLP_val, noneLP_own, noneLP_head, ite_linz_B, ite_linz_res, ite_linz_closing, ite_linz_ready, ite_linz_val, ite_linz_own, ite_linz_head] | skip) <;> grind
   case cl2 =>
     clearIf nSB nUaf nDf nPn psetA waitA psetB hbT rdyR valR hd hb1 hb2 hb3 anh lHb lPi lCi lFast lStore lCopy lRd lHead dE dF1 df2a df2b df3 dT dEf oldR1 oldR2 liveR ainv sim hA' hsim hx1 hx2 hx3 hx4 hx5 hx6 hx7
     (first | simp only [nextSt, clo, hu0, touch, alloc, free, proj, linz_B, linz_res, linz_closing, linz_ready, linz_val, linz_own, linz_head, take_B, take_res, take_closing, take_ready, take_val, take_own, take_head, noneLP_B, noneLP_res, noneLP_closing, noneLP_ready, noneLP_val, noneLP_own, noneLP_head, ite_linz_B, ite_linz_res, ite_linz_closing, ite_linz_ready, ite_linz_val, ite_linz_own, ite_linz_head] | skip) <;> grind
   case cl3 =>
     clearIf nSB nUaf nDf nPn psetA waitA psetB hbT rdyR valR hd hb1 hb2 hb3 anh lHb lPi lCi lFast lStore lCopy lRd lHead dE dF1 df2a df2b df3 dT dEf oldR1 oldR2 liveR ainv sim hA' hsim hx1 hx2 hx3 hx4 hx5 hx6 hx7
     (first | simp only [nextSt, clo, hu0, touch, alloc, free, proj, linz_B, linz_res, linz_closing, linz_ready, linz_val, linz_own, linz_head, take_B, take_res, take_closing, take_ready, take_val, take_own, take_head, noneLP_B, noneLP_res, noneLP_closing, noneLP_ready, noneLP_val, noneLP_own, noneLP_head, ite_linz_B, ite_linz_res, ite_linz_closing, ite_linz_ready, ite_linz_val, ite_linz_own, ite_linz_head] | skip) <;> grind
   case pset =>
     clearIf nSB nUaf nDf nPn psetA waitA psetB hbT rdyR valR hd hb1 hb2 hb3 anh lHb lPi lCi lFast lStore lCopy lRd lHead dE dF1 df2a df2b df3 dT dEf oldR1 oldR2 liveR ainv sim hA' hsim hx1 hx2 hx3 hx4 hx5 hx6 hx7
     (first | simp only [nextSt, clo, hu0, touch, alloc, free, proj, linz_B, linz_res, linz_closing, linz_ready, linz_val, linz_own, linz_head, take_B, take_res, take_closing, take_ready, take_val, take_own, take_head, noneLP_B, noneLP_res, noneLP_closing, noneLP_ready, noneLP_val, noneLP_own, noneLP_head, ite_linz_B, ite_linz_res, ite_linz_closing, ite_linz_ready, ite_linz_val, ite_linz_own, ite_linz_head] | skip) <;> grind
   case psv =>
     clearIf nSB nUaf nDf nPn psetA waitA psetB hbT rdyR valR hd hb1 hb2 hb3 anh lHb lPi lCi lFast lStore lCopy lRd lHead dE dF1 df2a df2b df3 dT dEf oldR1 oldR2 liveR ainv sim hA' hsim hx1 hx2 hx3 hx4 hx5 hx6 hx7
     (first | simp only [nextSt, clo, hu0, touch, alloc, free, proj, linz_B, linz_res, linz_closing, linz_ready, linz_val, linz_own, linz_head, take_B, take_res, take_closing, take_ready, take_val, take_own, take_head, noneLP_B, noneLP_res, noneLP_closing, noneLP_ready, noneLP_val, noneLP_own, noneLP_head, ite_linz_B, ite_linz_res, ite_linz_closing, ite_linz_ready, ite_linz_val, ite_linz_own, ite_linz_head] | skip) <;> grind
   case pcas =>
     clearIf nSB nUaf nDf nPn psetA waitA psetB hbT rdyR valR hd hb1 hb2 hb3 anh lHb lPi lCi lFast lStore lCopy lRd lHead dE dF1 df2a df2b df3 dT dEf oldR1 oldR2 liveR ainv sim hA' hsim hx1 hx2 hx3 hx4 hx5 hx6 hx7
     (first | simp only [nextSt, clo, hu0, touch, alloc, free, proj, linz_B, linz_res, linz_closing, linz_ready, linz_val, linz_own, linz_head, take_B, take_res, take_closing, take_ready, take_val, take_own, take_head, noneLP_B, noneLP_res, noneLP_closing, noneLP_ready, noneLP_val, noneLP_own, noneLP_head, ite_linz_B, ite_linz_res, ite_linz_closing, ite_linz_ready, ite_linz_val, ite_linz_own, ite_linz_head] | skip) <;> grind
   case cAl =>
     clearIf nSB nUaf nDf nPn psetA waitA psetB hbT rdyR valR hd hb1 hb2 hb3 anh lHb lPi lCi lFast lStore lCopy lRd lHead dE dF1 df2a df2b df3 dT dEf oldR1 oldR2 liveR ainv sim hA' hsim hx1 hx2 hx3 hx4 hx5 hx6 hx7
     (first | simp only [nextSt, clo, hu0, touch, alloc, free, proj, linz_B, linz_res, linz_closing, linz_ready, linz_val, linz_own, linz_head, take_B, take_res, take_closing, take_ready, take_val, take_own, take_head, noneLP_B, noneLP_res, noneLP_closing, noneLP_ready, noneLP_val, noneLP_own, noneLP_head, ite_linz_B, ite_linz_res, ite_linz_closing, ite_linz_ready, ite_linz_val, ite_linz_own, ite_linz_head] | skip) <;> grind
   case cWt =>
     clearIf nSB nUaf nDf nPn psetA waitA psetB hbT rdyR valR hd hb1 hb2 hb3 anh lHb lPi lCi lFast lStore lCopy lRd lHead dE dF1 df2a df2b df3 dT dEf oldR1 oldR2 liveR ainv sim hA' hsim hx1 hx2 hx3 hx4 hx5 hx6 hx7
     (first | simp only [nextSt, clo, hu0, touch, alloc, free, proj, linz_B, linz_res, linz_closing, linz_ready, linz_val, linz_own, linz_head, take_B, take_res, take_closing, take_ready, take_val, take_own, take_head, noneLP_B, noneLP_res, noneLP_closing, noneLP_ready, noneLP_val, noneLP_own, noneLP_head, ite_linz_B, ite_linz_res, ite_linz_closing, ite_linz_ready, ite_linz_val, ite_linz_own, ite_linz_head] | skip) <;> grind
   case cLk =>
     clearIf nSB nUaf nDf nPn psetA waitA psetB hbT rdyR valR hd hb1 hb2 hb3 anh lHb lPi lCi lFast lStore lCopy lRd lHead dE dF1 df2a df2b df3 dT dEf oldR1 oldR2 liveR ainv sim hA' hsim hx1 hx2 hx3 hx4 hx5 hx6 hx7
     (first | simp only [nextSt, clo, hu0, touch, alloc, free, proj, linz_B, linz_res, linz_closing, linz_ready, linz_val, linz_own, linz_head, take_B, take_res, take_closing, take_ready, take_val, take_own, take_head, noneLP_B, noneLP_res, noneLP_closing, noneLP_ready, noneLP_val, noneLP_own, noneLP_head, ite_linz_B, ite_linz_res, ite_linz_closing, ite_linz_ready, ite_linz_val, ite_linz_own, ite_linz_head] | skip) <;> grind
   case cTl =>
     clearIf nSB nUaf nDf nPn psetA waitA psetB hbT rdyR valR hd hb1 hb2 hb3 anh lHb lPi lCi lFast lStore lCopy lRd lHead dE dF1 df2a df2b df3 dT dEf oldR1 oldR2 liveR ainv sim hA' hsim hx1 hx2 hx3 hx4 hx5 hx6 hx7
     (first | simp only [nextSt, clo, hu0, touch, alloc, free, proj, linz_B, linz_res, linz_closing, linz_ready, linz_val, linz_own, linz_head, take_B, take_res, take_closing, take_ready, take_val, take_own, take_head, noneLP_B, noneLP_res, noneLP_closing, noneLP_ready, noneLP_val, noneLP_own, noneLP_head, ite_linz_B, ite_linz_res, ite_linz_closing, ite_linz_ready, ite_linz_val, ite_linz_own, ite_linz_head] | skip) <;> grind
   case lnk =>
     clearIf nSB nUaf nDf nPn A_hl A_lr A_lc A_helped A_rdy psetA waitA psetB hbT rdyR valR hd hb1 hb2 hb3 anh lHb lPi lCi lFast lStore lCopy lRd lHead dE dF1 df2a df2b df3 dT dEf oldR1 oldR2 liveR ainv sim hA' hsim hx1 hx2 hx3 hx4 hx5 hx6 hx7
     (first | simp only [nextSt, clo, hu0, touch, alloc, free, proj, linz_B, linz_res, linz_closing, linz_ready, linz_val, linz_own, linz_head, take_B, take_res, take_closing, take_ready, take_val, take_own, take_head, noneLP_B, noneLP_res, noneLP_closing, noneLP_ready, noneLP_val, noneLP_own, noneLP_head, ite_linz_B, ite_linz_res, ite_linz_closing, ite_linz_ready, ite_linz_val, ite_linz_own, ite_linz_head] | skip) <;> grind
   case hd =>
     clearIf nSB nUaf nDf nPn A_hl A_lr A_lc A_helped A_rdy psetA waitA psetB hbT geo fresh tw nbv pidxA cl1 cl2 cl3 pset psv psU pcas cAl cWt cLk cTl refR unl lnk rdyR valR dE dF1 df2a df2b df3 dT dEf oldR1 oldR2 liveR ainv sim hA' hsim
     (first | simp only [nextSt, clo, hu0, touch, alloc, free, proj, linz_B, linz_res, linz_closing, linz_ready, linz_val, linz_own, linz_head, take_B, take_res, take_closing, take_ready, take_val, take_own, take_head, noneLP_B, noneLP_res, noneLP_closing, noneLP_ready, noneLP_val, noneLP_own, noneLP_head, ite_linz_B, ite_linz_res, ite_linz_closing, ite_linz_ready, ite_linz_val, ite_linz_own, ite_linz_head] | skip) <;> grind
   case hb1 =>
     clearIf nSB nUaf nDf nPn A_hl A_lr A_lc A_helped A_rdy psetA waitA psetB hbT geo fresh tw nbv pidxA cl1 cl2 cl3 pset psv psU pcas cAl cWt cLk cTl refR unl lnk rdyR valR dE dF1 df2a df2b df3 dT dEf oldR1 oldR2 liveR ainv sim hA' hsim
     (first | simp only [nextSt, clo, hu0, touch, alloc, free, proj, linz_B, linz_res, linz_closing, linz_ready, linz_val, linz_own, linz_head, take_B, take_res, take_closing, take_ready, take_val, take_own, take_head, noneLP_B, noneLP_res, noneLP_closing, noneLP_ready, noneLP_val, noneLP_own, noneLP_head, ite_linz_B, ite_linz_res, ite_linz_closing, ite_linz_ready, ite_linz_val, ite_linz_own, ite_linz_head] | skip) <;> grind
   case hb2 =>
     clearIf nSB nUaf nDf nPn A_hl A_lr A_lc A_helped A_rdy psetA waitA psetB hbT geo fresh tw nbv pidxA cl1 cl2 cl3 pset psv psU pcas cAl cWt cLk cTl refR unl lnk rdyR valR dE dF1 df2a df2b df3 dT dEf oldR1 oldR2 liveR ainv sim hA' hsim
     (first | simp only [nextSt, clo, hu0, touch, alloc, free, proj, linz_B, linz_res, linz_closing, linz_ready, linz_val, linz_own, linz_head, take_B, take_res, take_closing, take_ready, take_val, take_own, take_head, noneLP_B, noneLP_res, noneLP_closing, noneLP_ready, noneLP_val, noneLP_own, noneLP_head, ite_linz_B, ite_linz_res, ite_linz_closing, ite_linz_ready, ite_linz_val, ite_linz_own, ite_linz_head] | skip) <;> grind
   case hb3 =>
     clearIf nSB nUaf nDf nPn A_hl A_lr A_lc A_helped A_rdy psetA waitA psetB hbT geo fresh tw nbv pidxA cl1 cl2 cl3 pset psv psU pcas cAl cWt cLk cTl refR unl lnk rdyR valR dE dF1 df2a df2b df3 dT dEf oldR1 oldR2 liveR ainv sim hA' hsim
     (first | simp only [nextSt, clo, hu0, touch, alloc, free, proj, linz_B, linz_res, linz_closing, linz_ready, linz_val, linz_own, linz_head, take_B, take_res, take_closing, take_ready, take_val, take_own, take_head, noneLP_B, noneLP_res, noneLP_closing, noneLP_ready, noneLP_val, noneLP_own, noneLP_head, ite_linz_B, ite_linz_res, ite_linz_closing, ite_linz_ready, ite_linz_val, ite_linz_own, ite_linz_head] | skip) <;> grind
   case lHb =>
     clearIf nSB nUaf nDf nPn geo fresh rdyR valR oldR1 oldR2 liveR ainv sim hA' hsim
     (first | simp only [nextSt, clo, hu0, touch, alloc, free, proj, linz_B, linz_res, linz_closing, linz_ready, linz_val, linz_own, linz_head, take_B, take_res, take_closing, take_ready, take_val, take_own, take_head, noneLP_B, noneLP_res, noneLP_closing, noneLP_ready, noneLP_val, noneLP_own, noneLP_head, ite_linz_B, ite_linz_res, ite_linz_closing, ite_linz_ready, ite_linz_val, ite_linz_own, ite_linz_head] | skip) <;> grind
   case lPi =>
     clearIf nSB nUaf nDf nPn geo fresh rdyR valR oldR1 oldR2 liveR ainv sim hA' hsim
     (first | simp only [nextSt, clo, hu0, touch, alloc, free, proj, linz_B, linz_res, linz_closing, linz_ready, linz_val, linz_own, linz_head, take_B, take_res, take_closing, take_ready, take_val, take_own, take_head, noneLP_B, noneLP_res, noneLP_closing, noneLP_ready, noneLP_val, noneLP_own, noneLP_head, ite_linz_B, ite_linz_res, ite_linz_closing, ite_linz_ready, ite_linz_val, ite_linz_own, ite_linz_head] | skip) <;> grind
   case lCi =>
     clearIf nSB nUaf nDf nPn geo fresh rdyR valR oldR1 oldR2 liveR ainv sim hA' hsim
     (first | simp only [nextSt, clo, hu0, touch, alloc, free, proj, linz_B, linz_res, linz_closing, linz_ready, linz_val, linz_own, linz_head, take_B, take_res, take_closing, take_ready, take_val, take_own, take_head, noneLP_B, noneLP_res, noneLP_closing, noneLP_ready, noneLP_val, noneLP_own, noneLP_head, ite_linz_B, ite_linz_res, ite_linz_closing, ite_linz_ready, ite_linz_val, ite_linz_own, ite_linz_head] | skip) <;> grind
   case lFast =>
     clearIf nSB nUaf nDf nPn geo fresh rdyR valR oldR1 oldR2 liveR ainv sim hA' hsim
     (first | simp only [nextSt, clo, hu0, touch, alloc, free, proj, linz_B, linz_res, linz_closing, linz_ready, linz_val, linz_own, linz_head, take_B, take_res, take_closing, take_ready, take_val, take_own, take_head, noneLP_B, noneLP_res, noneLP_closing, noneLP_ready, noneLP_val, noneLP_own, noneLP_head, ite_linz_B, ite_linz_res, ite_linz_closing, ite_linz_ready, ite_linz_val, ite_linz_own, ite_linz_head] | skip) <;> grind
   case lStore =>
     clearIf nSB nUaf nDf nPn geo fresh rdyR valR oldR1 oldR2 liveR ainv sim hA' hsim
     (first | simp only [nextSt, clo, hu0, touch, alloc, free, proj, linz_B, linz_res, linz_closing, linz_ready, linz_val, linz_own, linz_head, take_B, take_res, take_closing, take_ready, take_val, take_own, take_head, noneLP_B, noneLP_res, noneLP_closing, noneLP_ready, noneLP_val, noneLP_own, noneLP_head, ite_linz_B, ite_linz_res, ite_linz_closing, ite_linz_ready, ite_linz_val, ite_linz_own, ite_linz_head] | skip) <;> grind
   case lCopy =>
     clearIf nSB nUaf nDf nPn geo fresh rdyR valR oldR1 oldR2 liveR ainv sim hA' hsim
     (first | simp only [nextSt, clo, hu0, touch, alloc, free, proj, linz_B, linz_res, linz_closing, linz_ready, linz_val, linz_own, linz_head, take_B, take_res, take_closing, take_ready, take_val, take_own, take_head, noneLP_B, noneLP_res, noneLP_closing, noneLP_ready, noneLP_val, noneLP_own, noneLP_head, ite_linz_B, ite_linz_res, ite_linz_closing, ite_linz_ready, ite_linz_val, ite_linz_own, ite_linz_head] | skip) <;> grind
   case lRd =>
     clearIf nSB nUaf nDf nPn geo fresh rdyR valR oldR1 oldR2 liveR ainv sim hA' hsim
     (first | simp only [nextSt, clo, hu0, touch, alloc, free, proj, linz_B, linz_res, linz_closing, linz_ready, linz_val, linz_own, linz_head, take_B, take_res, take_closing, take_ready, take_val, take_own, take_head, noneLP_B, noneLP_res, noneLP_closing, noneLP_ready, noneLP_val, noneLP_own, noneLP_head, ite_linz_B, ite_linz_res, ite_linz_closing, ite_linz_ready, ite_linz_val, ite_linz_own, ite_linz_head] | skip) <;> grind
   case lHead =>
     clearIf nSB nUaf nDf nPn geo fresh rdyR valR oldR1 oldR2 liveR ainv sim hA' hsim
     (first | simp only [nextSt, clo, hu0, touch, alloc, free, proj, linz_B, linz_res, linz_closing, linz_ready, linz_val, linz_own, linz_head, take_B, take_res, take_closing, take_ready, take_val, take_own, take_head, noneLP_B, noneLP_res, noneLP_closing, noneLP_ready, noneLP_val, noneLP_own, noneLP_head, ite_linz_B, ite_linz_res, ite_linz_closing, ite_linz_ready, ite_linz_val, ite_linz_own, ite_linz_head] | skip) <;> grind
   case dE =>
     clearIf nSB nUaf nDf nPn psetA waitA psetB hbT geo fresh lnk rdyR valR lHb lPi lCi lFast lStore lCopy lRd lHead oldR1 oldR2 liveR ainv sim hA' hsim hx1 hx2 hx3 hx4 hx5 hx6 hx7
     (first | simp only [nextSt, clo, hu0, touch, alloc, free, proj, linz_B, linz_res, linz_closing, linz_ready, linz_val, linz_own, linz_head, take_B, take_res, take_closing, take_ready, take_val, take_own, take_head, noneLP_B, noneLP_res, noneLP_closing, noneLP_ready, noneLP_val, noneLP_own, noneLP_head, ite_linz_B, ite_linz_res, ite_linz_closing, ite_linz_ready, ite_linz_val, ite_linz_own, ite_linz_head] | skip) <;> grind
   case dF1 =>
     clearIf nSB nUaf nDf nPn A_hl A_lr A_lc A_helped A_rdy psetA waitA psetB hbT geo fresh rdyR valR oldR1 oldR2 liveR ainv sim hA' hsim hx1 hx2 hx3 hx4 hx5 hx6 hx7
     (first | simp only [nextSt, clo, hu0, touch, alloc, free, proj, linz_B, linz_res, linz_closing, linz_ready, linz_val, linz_own, linz_head, take_B, take_res, take_closing, take_ready, take_val, take_own, take_head, noneLP_B, noneLP_res, noneLP_closing, noneLP_ready, noneLP_val, noneLP_own, noneLP_head, ite_linz_B, ite_linz_res, ite_linz_closing, ite_linz_ready, ite_linz_val, ite_linz_own, ite_linz_head] | skip) <;> grind
   case df2a =>
     clearIf nSB nUaf nDf nPn A_hl A_lr A_lc A_helped A_rdy geo fresh lnk rdyR valR ainv sim hA' hsim hx1 hx2 hx3 hx4 hx5 hx6 hx7
     (first | simp only [nextSt, clo, hu0, touch, alloc, free, proj, linz_B, linz_res, linz_closing, linz_ready, linz_val, linz_own, linz_head, take_B, take_res, take_closing, take_ready, take_val, take_own, take_head, noneLP_B, noneLP_res, noneLP_closing, noneLP_ready, noneLP_val, noneLP_own, noneLP_head, ite_linz_B, ite_linz_res, ite_linz_closing, ite_linz_ready, ite_linz_val, ite_linz_own, ite_linz_head] | skip) <;> grind
   case df2b =>
     clearIf nSB nUaf nDf nPn A_hl A_lr A_lc A_helped A_rdy geo fresh lnk rdyR valR ainv sim hA' hsim hx1 hx2 hx3 hx4 hx5 hx6 hx7
     (first | simp only [nextSt, clo, hu0, touch, alloc, free, proj, linz_B, linz_res, linz_closing, linz_ready, linz_val, linz_own, linz_head, take_B, take_res, take_closing, take_ready, take_val, take_own, take_head, noneLP_B, noneLP_res, noneLP_closing, noneLP_ready, noneLP_val, noneLP_own, noneLP_head, ite_linz_B, ite_linz_res, ite_linz_closing, ite_linz_ready, ite_linz_val, ite_linz_own, ite_linz_head] | skip) <;> grind
   case df3 =>
     clearIf nSB nUaf nDf nPn A_hl A_lr A_lc A_helped A_rdy geo fresh lnk rdyR valR ainv sim hA' hsim hx1 hx2 hx3 hx4 hx5 hx6 hx7
     (first | simp only [nextSt, clo, hu0, touch, alloc, free, proj, linz_B, linz_res, linz_closing, linz_ready, linz_val, linz_own, linz_head, take_B, take_res, take_closing, take_ready, take_val, take_own, take_head, noneLP_B, noneLP_res, noneLP_closing, noneLP_ready, noneLP_val, noneLP_own, noneLP_head, ite_linz_B, ite_linz_res, ite_linz_closing, ite_linz_ready, ite_linz_val, ite_linz_own, ite_linz_head] | skip) <;> grind
   case oldR1 =>
     clearIf nSB nUaf nDf nPn A_hl A_lr A_lc A_helped A_rdy lnk rdyR valR ainv sim hA' hsim hx1 hx2 hx3 hx4 hx5 hx6 hx7
     (first | simp only [nextSt, clo, hu0, touch, alloc, free, proj, linz_B, linz_res, linz_closing, linz_ready, linz_val, linz_own, linz_head, take_B, take_res, take_closing, take_ready, take_val, take_own, take_head, noneLP_B, noneLP_res, noneLP_closing, noneLP_ready, noneLP_val, noneLP_own, noneLP_head, ite_linz_B, ite_linz_res, ite_linz_closing, ite_linz_ready, ite_linz_val, ite_linz_own, ite_linz_head] | skip) <;> grind
   case oldR2 =>
     clearIf nSB nUaf nDf nPn A_hl A_lr A_lc A_helped A_rdy lnk rdyR valR ainv sim hA' hsim hx1 hx2 hx3 hx4 hx5 hx6 hx7
     (first | simp only [nextSt, clo, hu0, touch, alloc, free, proj, linz_B, linz_res, linz_closing, linz_ready, linz_val, linz_own, linz_head, take_B, take_res, take_closing, take_ready, take_val, take_own, take_head, noneLP_B, noneLP_res, noneLP_closing, noneLP_ready, noneLP_val, noneLP_own, noneLP_head, ite_linz_B, ite_linz_res, ite_linz_closing, ite_linz_ready, ite_linz_val, ite_linz_own, ite_linz_head] | skip) <;> grind
   case liveR =>
     clearIf nSB nUaf nDf nPn A_hl A_lr A_lc A_helped A_rdy lnk rdyR valR ainv sim hA' hsim hx1 hx2 hx3 hx4 hx5 hx6 hx7
     (first | simp only [nextSt, clo, hu0, touch, alloc, free, proj, linz_B, linz_res, linz_closing, linz_ready, linz_val, linz_own, linz_head, take_B, take_res, take_closing, take_ready, take_val, take_own, take_head, noneLP_B, noneLP_res, noneLP_closing, noneLP_ready, noneLP_val, noneLP_own, noneLP_head, ite_linz_B, ite_linz_res, ite_linz_closing, ite_linz_ready, ite_linz_val, ite_linz_own, ite_linz_head] | skip) <;> grind))

end MayVerif.Mpsc
