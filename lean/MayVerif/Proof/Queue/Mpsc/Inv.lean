/-
  Invariant of the level-B mpsc model (`Model/Queue/Mpsc.lean`): the concrete block structure represents the
  level-A state `sh.a` under the map  logical slot `i` ↦ (block id `i / B`, slot `i % B`)  (block ids are allocated
  sequentially and closers are serialized by the closing bit, so the block with id `b` is block number `b`),
  the level-A pcs are the projections of the concrete pcs, and every dereferenced block is live.
-/
import MayVerif.Proof.Queue.Mpsc.Preds
import MayVerif.Proof.Queue.MpscA.Step
namespace MayVerif.Mpsc
open MayVerif.MpscA (upd Ret)

/-- the actor that reserved the most recently reserved slot: the closer while the closing bit is set -/
@[reducible] def clo (sh : Sh) : Tid := sh.a.own (sh.a.res - 1)

structure Inv (s : St) : Prop where
  aB : s.sh.a.B = s.sh.B
  bpos : 0 < s.sh.B
  ainv : MpscA.Inv ⟨s.n, s.sh.a, s.apcs⟩
  sim : ∀ (t : Tid), s.apcs t = proj s.sh (s.pcs t)
  noSimBad : s.sh.simBad = false
  noUaf : s.sh.uaf = false
  noDfree : s.sh.dfree = false
  noPanic : s.sh.panic = false
  -- life cycle
  idleN : ∀ (t : Tid), s.n ≤ t → s.pcs t = .idle
  cons0 : ∀ (t : Tid), isCons0 (s.pcs t) = true → t = 0
  alc : s.sh.alive = true → s.sh.created = true
  pre : ∀ (t : Tid), s.sh.created = false → t ≠ 0 → s.pcs t = .idle
  pre0 : s.sh.created = false → isNew (s.pcs 0) = false → s.pcs 0 = .idle
  newc : isNew (s.pcs 0) = true → s.sh.created = false
  preA : s.sh.created = false → s.sh.a.res = 0 ∧ s.sh.a.closing = false ∧ s.sh.a.head = 0
  preR : ∀ (i : Nat), s.sh.created = false → s.sh.a.ready i = false
  nb0 : s.sh.created = false → (s.pcs 0 = .idle ∨ s.pcs 0 = .nAlloc0) → s.sh.nb = 0
  nb1 : ∀ (b0 : Bid), s.pcs 0 = .nAlloc1 b0 → s.sh.nb = 1 ∧ b0 = 0 ∧ s.sh.live 0 = true
  nb2 : ∀ (b0 b1 : Bid), s.pcs 0 = .nLink b0 b1 →
          s.sh.nb = 2 ∧ b0 = 0 ∧ b1 = 1 ∧ s.sh.live 0 = true ∧ s.sh.live 1 = true
  drp : ∀ (t : Tid), s.sh.created = true → s.sh.alive = false → t ≠ 0 → s.pcs t = .idle
  dfl : dflag (s.pcs 0) = true → s.sh.alive = false ∧ s.sh.created = true
  -- blocks
  geo : ∀ (b : Bid), b < s.sh.nb → s.sh.start b = b * s.sh.B
  fresh : ∀ (b : Bid), s.sh.nb ≤ b → s.sh.live b = false
  -- the tail word
  tw : s.sh.created = true →
         s.sh.a.res = s.sh.tail.blk * s.sh.B + s.sh.tail.idx + (if s.sh.tail.closing = true then 1 else 0) ∧
         s.sh.tail.idx < s.sh.B ∧ s.sh.tail.closing = s.sh.a.closing ∧ (s.sh.tail.closing = true → s.sh.tail.idx + 1 = s.sh.B)
  nbv : s.sh.created = true →
          s.sh.nb = s.sh.tail.blk + 2 + (if s.sh.a.closing = true ∧ pastAlloc (s.pcs (clo s.sh)) = true then 1 else 0)
  -- the closer
  cl1 : ∀ (t : Tid), inClose (s.pcs t) = true → s.sh.a.closing = true ∧ t = clo s.sh
  cl2 : s.sh.a.closing = true → closerPc (s.pcs (clo s.sh)) = true
  cl3 : ∀ (v : Nat) (b : Bid) (i : Nat), s.sh.a.closing = true → wrSlot (s.pcs (clo s.sh)) = some (v, b, i) →
          i + 1 = s.sh.B ∧ b = s.sh.tail.blk
  pset : ∀ (t : Tid) (v : Nat) (b : Bid) (i : Nat), wrSlot (s.pcs t) = some (v, b, i) →
          b < s.sh.nb ∧ i < s.sh.B ∧ (i + 1 = s.sh.B → s.sh.a.closing = true ∧ t = clo s.sh)
  psv : ∀ (t : Tid) (v : Nat) (b : Bid) (i : Nat), s.pcs t = .pSet v b i → s.sh.val b i = v
  pcas : ∀ (t : Tid) (v : Nat) (w : Word), s.pcs t = .pCas v w → w.blk < s.sh.nb ∧ w.idx < s.sh.B ∧ w.closing = false
  cAl : ∀ (t : Tid) (b : Bid), s.pcs t = .pAlloc b → b = s.sh.tail.blk
  cWt : ∀ (t : Tid) (b nn : Bid), s.pcs t = .pWait b nn → b = s.sh.tail.blk ∧ nn = s.sh.tail.blk + 2
  cLk : ∀ (t : Tid) (nx nn : Bid), s.pcs t = .pLink nx nn → nx = s.sh.tail.blk + 1 ∧ nn = s.sh.tail.blk + 2
  cTl : ∀ (t : Tid) (nx : Bid), s.pcs t = .pTail nx → nx = s.sh.tail.blk + 1
  lnk : ∀ (b : Bid), s.sh.created = true → b + 1 < s.sh.nb →
          s.sh.next b = some (b + 1) ∨ (b + 2 = s.sh.nb ∧ s.sh.a.closing = true ∧ unlinked (s.pcs (clo s.sh)) = true)
  -- slots
  rdyR : ∀ (b : Bid) (i : Nat), i < s.sh.B → s.sh.ready b i = s.sh.a.ready (b * s.sh.B + i)
  valR : ∀ (b : Bid) (i : Nat), i < s.sh.B → s.sh.ready b i = true → s.sh.val b i = s.sh.a.val (b * s.sh.B + i)
  -- the consumer
  hd : s.sh.created = true → s.sh.headIdx + taken (s.pcs 0) = s.sh.a.head
  hb1 : s.sh.created = true → s.sh.headBlk * s.sh.B ≤ s.sh.headIdx ∧ s.sh.headIdx ≤ (s.sh.headBlk + 1) * s.sh.B
  hb2 : s.sh.created = true → inRetire (s.pcs 0) = false → s.sh.headIdx < (s.sh.headBlk + 1) * s.sh.B
  hb3 : s.sh.created = true → inRetire (s.pcs 0) = true → s.sh.headIdx = (s.sh.headBlk + 1) * s.sh.B
  lHb : ∀ (hb : Bid), locHb (s.pcs 0) = some hb → hb = s.sh.headBlk
  lPi : ∀ (pi : Nat), locPi (s.pcs 0) = some pi → pi = s.sh.headIdx
  lCi : ∀ (ci : Nat), locCi (s.pcs 0) = some ci → ci = s.sh.a.head
  lFast : isFast (s.pcs 0) = true → s.sh.a.head < (s.sh.headBlk + 1) * s.sh.B
  lStore : ∀ (hb : Bid) (ni : Nat) (acc : List Nat), s.pcs 0 = .bStore hb ni acc →
          0 < acc.length ∧ ni ≤ (s.sh.headBlk + 1) * s.sh.B
  lCopy : isCopy (s.pcs 0) = true →
          s.sh.a.head < ceOf (s.pcs 0) ∧ ceOf (s.pcs 0) ≤ (s.sh.headBlk + 1) * s.sh.B
  lRd : isRd (s.pcs 0) = true → s.sh.a.ready s.sh.a.head = true
  lHead : ∀ (nx : Bid) (k : K), s.pcs 0 = .rHead nx k → nx = s.sh.headBlk + 1
  -- Drop
  dE : dEnd (s.pcs 0) = true → s.sh.a.head = s.sh.a.res ∧ s.sh.a.closing = false
  dF1 : ∀ (b nx : Bid), s.pcs 0 = .dFree1 b nx → nx = b + 1
  df2a : ∀ (b : Bid), s.pcs 0 = .dFree2 b → s.sh.live b = true
  df2b : ∀ (b ob : Bid), s.pcs 0 = .dFree2 b → s.sh.old = some ob → s.sh.live ob = true ∧ ob ≠ b
  df3 : ∀ (ob : Bid), s.pcs 0 = .dFree3 ob → s.sh.live ob = true
  -- old_block and the live blocks
  oldR1 : s.sh.created = true → (s.sh.alive = true ∨ dropDone (s.pcs 0) = false) → atNextHead (s.pcs 0) = false →
          s.sh.old = (if s.sh.headBlk = 0 then none else some (s.sh.headBlk - 1))
  oldR2 : s.sh.created = true → atNextHead (s.pcs 0) = true → s.sh.old = some s.sh.headBlk
  liveR : ∀ (b : Bid), s.sh.created = true → (s.sh.alive = true ∨ dropDone (s.pcs 0) = false) →
          (s.sh.live b = true ↔ (s.sh.headBlk ≤ b + (if atNextHead (s.pcs 0) = true then 0 else 1) ∧ b < s.sh.nb))

theorem inv_init (B n : Nat) (hB : 0 < B) : Inv (init B n) := by
  constructor <;> try (simp [init, initSh, MpscA.initSh, proj, hB, isCons0, isNew, dflag, inClose, locHb, locPi, locCi, dEnd, wrSlot, isRd, isFast, isCopy]; done)
  exact MpscA.inv_init B n

/-! the product step, split into its concrete part and the level-A part -/

/-- the level-A half of `step` -/
def advA (a : MpscA.Sh) (t : Tid) (apc : MpscA.Pc) : AAct → MpscA.Sh × MpscA.Pc × Bool
  | none => (a, apc, true)
  | some ae =>
    match MpscA.tstep a t apc ae with
    | some (a', apc') => (a', apc', true)
    | none => (a, apc, false)

def nextSt (s : St) (t : Tid) (sh' : Sh) (pc' : Pc) (r : MpscA.Sh × MpscA.Pc × Bool) : St :=
  { s with sh := { sh' with a := r.1, simBad := sh'.simBad || !r.2.2 || (proj sh' pc' != r.2.1) },
           pcs := upd s.pcs t pc', apcs := upd s.apcs t r.2.1 }

theorem step_eq (s s' : St) (t : Tid) (e : Env) (hs : step s t e = some s') :
    t < s.n ∧ (e = .drop → quiet s t = true) ∧
    ∃ sh' pc' aa, tstepC s.sh t (s.pcs t) e = some (sh', pc', aa) ∧ s' = nextSt s t sh' pc' (advA s.sh.a t (s.apcs t) aa) := by
  simp only [step] at hs
  split at hs
  next hg =>
    refine ⟨hg.1, hg.2, ?_⟩
    split at hs
    next sh' pc' aa hts =>
      refine ⟨sh', pc', aa, hts, ?_⟩
      simp only [Option.some.injEq] at hs
      subst hs
      cases aa with
      | none => rfl
      | some ae =>
        simp only [advA, nextSt]
        generalize MpscA.tstep s.sh.a t (s.apcs t) ae = r
        cases r with
        | none => rfl
        | some p => obtain ⟨a', apc'⟩ := p; rfl
    · contradiction
  · contradiction

theorem ainv_adv (n : Nat) (a : MpscA.Sh) (apcs : Tid → MpscA.Pc) (t : Tid) (aa : AAct) (hlt : t < n)
    (h : MpscA.Inv ⟨n, a, apcs⟩) : MpscA.Inv ⟨n, (advA a t (apcs t) aa).1, upd apcs t (advA a t (apcs t) aa).2.1⟩ := by
  have hstut : upd apcs t (apcs t) = apcs := by
    funext u; simp only [upd]; split
    · next hu => rw [hu]
    · rfl
  cases aa with
  | none => simp only [advA, hstut]; exact h
  | some ae =>
    simp only [advA]
    split
    next a' apc' heq =>
      apply MpscA.inv_step ⟨n, a, apcs⟩ _ t ae h
      simp only [MpscA.step, hlt, ↓reduceIte, heq]
    next heq => simp only [hstut]; exact h

end MayVerif.Mpsc
