/-
  The invariant of the level-B mpsc model is inductive (block size `0 < B`). Consequences: the model refines level A
  (`simBad` is never raised, and the ghost level-A state satisfies the level-A invariant, so all level-A corollaries
  transfer), it is block safe (no use after free, no double free, `Drop`'s assertions hold), and the two
  `wait_next_block` spins never spin.
-/
import MayVerif.Proof.Queue.Mpsc.P_idle
import MayVerif.Proof.Queue.Mpsc.P_nAlloc0
import MayVerif.Proof.Queue.Mpsc.P_nAlloc1
import MayVerif.Proof.Queue.Mpsc.P_nLink
import MayVerif.Proof.Queue.Mpsc.P_nRet
import MayVerif.Proof.Queue.Mpsc.P_pLoad
import MayVerif.Proof.Queue.Mpsc.P_pCas
import MayVerif.Proof.Queue.Mpsc.P_pWrite
import MayVerif.Proof.Queue.Mpsc.P_pSet
import MayVerif.Proof.Queue.Mpsc.P_pAlloc
import MayVerif.Proof.Queue.Mpsc.P_pWait
import MayVerif.Proof.Queue.Mpsc.P_pLink
import MayVerif.Proof.Queue.Mpsc.P_pTail
import MayVerif.Proof.Queue.Mpsc.P_oBlk
import MayVerif.Proof.Queue.Mpsc.P_oIdx
import MayVerif.Proof.Queue.Mpsc.P_oTry
import MayVerif.Proof.Queue.Mpsc.P_oTail
import MayVerif.Proof.Queue.Mpsc.P_oSpin
import MayVerif.Proof.Queue.Mpsc.P_oRead
import MayVerif.Proof.Queue.Mpsc.P_oStore
import MayVerif.Proof.Queue.Mpsc.P_rFree
import MayVerif.Proof.Queue.Mpsc.P_rNext
import MayVerif.Proof.Queue.Mpsc.P_rHead
import MayVerif.Proof.Queue.Mpsc.P_bIdx
import MayVerif.Proof.Queue.Mpsc.P_bBlk
import MayVerif.Proof.Queue.Mpsc.P_bFast
import MayVerif.Proof.Queue.Mpsc.P_bFastRd
import MayVerif.Proof.Queue.Mpsc.P_bStore
import MayVerif.Proof.Queue.Mpsc.P_bTail
import MayVerif.Proof.Queue.Mpsc.P_bCopy
import MayVerif.Proof.Queue.Mpsc.P_bCopyRd
import MayVerif.Proof.Queue.Mpsc.P_kIdx
import MayVerif.Proof.Queue.Mpsc.P_kTail
import MayVerif.Proof.Queue.Mpsc.P_kBlk
import MayVerif.Proof.Queue.Mpsc.P_kSpin
import MayVerif.Proof.Queue.Mpsc.P_kRead
import MayVerif.Proof.Queue.Mpsc.P_lIdx
import MayVerif.Proof.Queue.Mpsc.P_lTail
import MayVerif.Proof.Queue.Mpsc.P_dHead
import MayVerif.Proof.Queue.Mpsc.P_dTail
import MayVerif.Proof.Queue.Mpsc.P_dNext
import MayVerif.Proof.Queue.Mpsc.P_dFree1
import MayVerif.Proof.Queue.Mpsc.P_dFree2
import MayVerif.Proof.Queue.Mpsc.P_dFree3
import MayVerif.Proof.Queue.Mpsc.P_ret
namespace MayVerif.Mpsc
open MayVerif.MpscA (upd Ret)

theorem inv_step (s s' : St) (t : Tid) (e : Env) (h : Inv s) (hs : step s t e = some s') : Inv s' := by
  obtain ⟨hlt, hq, sh', pc', aa, hts, rfl⟩ := step_eq s s' t e hs
  obtain ⟨n, sh, pcs, apcs⟩ := s
  simp only at hlt hq hts ⊢
  generalize hpc : pcs t = pc at hts
  cases pc with
  | idle => exact p_idle n sh pcs apcs t e hlt hq h hpc sh' pc' aa hts
  | nAlloc0 => exact p_nAlloc0 n sh pcs apcs t e hlt hq h hpc sh' pc' aa hts
  | nAlloc1 b0 => exact p_nAlloc1 n sh pcs apcs t e b0 hlt hq h hpc sh' pc' aa hts
  | nLink b0 b1 => exact p_nLink n sh pcs apcs t e b0 b1 hlt hq h hpc sh' pc' aa hts
  | nRet => exact p_nRet n sh pcs apcs t e hlt hq h hpc sh' pc' aa hts
  | pLoad v => exact p_pLoad n sh pcs apcs t e v hlt hq h hpc sh' pc' aa hts
  | pCas v w => exact p_pCas n sh pcs apcs t e v w hlt hq h hpc sh' pc' aa hts
  | pWrite v b i => exact p_pWrite n sh pcs apcs t e v b i hlt hq h hpc sh' pc' aa hts
  | pSet v b i => exact p_pSet n sh pcs apcs t e v b i hlt hq h hpc sh' pc' aa hts
  | pAlloc b => exact p_pAlloc n sh pcs apcs t e b hlt hq h hpc sh' pc' aa hts
  | pWait b nn => exact p_pWait n sh pcs apcs t e b nn hlt hq h hpc sh' pc' aa hts
  | pLink nx nn => exact p_pLink n sh pcs apcs t e nx nn hlt hq h hpc sh' pc' aa hts
  | pTail nx => exact p_pTail n sh pcs apcs t e nx hlt hq h hpc sh' pc' aa hts
  | oBlk d => exact p_oBlk n sh pcs apcs t e d hlt hq h hpc sh' pc' aa hts
  | oIdx d hb => exact p_oIdx n sh pcs apcs t e d hb hlt hq h hpc sh' pc' aa hts
  | oTry d hb pi => exact p_oTry n sh pcs apcs t e d hb pi hlt hq h hpc sh' pc' aa hts
  | oTail d hb pi => exact p_oTail n sh pcs apcs t e d hb pi hlt hq h hpc sh' pc' aa hts
  | oSpin d hb pi => exact p_oSpin n sh pcs apcs t e d hb pi hlt hq h hpc sh' pc' aa hts
  | oRead d sp hb pi => exact p_oRead n sh pcs apcs t e d sp hb pi hlt hq h hpc sh' pc' aa hts
  | oStore d hb pi v => exact p_oStore n sh pcs apcs t e d hb pi v hlt hq h hpc sh' pc' aa hts
  | rFree hb k => exact p_rFree n sh pcs apcs t e hb k hlt hq h hpc sh' pc' aa hts
  | rNext hb k => exact p_rNext n sh pcs apcs t e hb k hlt hq h hpc sh' pc' aa hts
  | rHead nx k => exact p_rHead n sh pcs apcs t e nx k hlt hq h hpc sh' pc' aa hts
  | bIdx => exact p_bIdx n sh pcs apcs t e hlt hq h hpc sh' pc' aa hts
  | bBlk pi => exact p_bBlk n sh pcs apcs t e pi hlt hq h hpc sh' pc' aa hts
  | bFast hb ci acc => exact p_bFast n sh pcs apcs t e hb ci acc hlt hq h hpc sh' pc' aa hts
  | bFastRd hb ci acc => exact p_bFastRd n sh pcs apcs t e hb ci acc hlt hq h hpc sh' pc' aa hts
  | bStore hb ni acc => exact p_bStore n sh pcs apcs t e hb ni acc hlt hq h hpc sh' pc' aa hts
  | bTail hb pi => exact p_bTail n sh pcs apcs t e hb pi hlt hq h hpc sh' pc' aa hts
  | bCopy hb ci ce acc => exact p_bCopy n sh pcs apcs t e hb ci ce acc hlt hq h hpc sh' pc' aa hts
  | bCopyRd hb ci ce acc => exact p_bCopyRd n sh pcs apcs t e hb ci ce acc hlt hq h hpc sh' pc' aa hts
  | kIdx => exact p_kIdx n sh pcs apcs t e hlt hq h hpc sh' pc' aa hts
  | kTail pi => exact p_kTail n sh pcs apcs t e pi hlt hq h hpc sh' pc' aa hts
  | kBlk pi => exact p_kBlk n sh pcs apcs t e pi hlt hq h hpc sh' pc' aa hts
  | kSpin hb pi => exact p_kSpin n sh pcs apcs t e hb pi hlt hq h hpc sh' pc' aa hts
  | kRead hb pi => exact p_kRead n sh pcs apcs t e hb pi hlt hq h hpc sh' pc' aa hts
  | lIdx eb => exact p_lIdx n sh pcs apcs t e eb hlt hq h hpc sh' pc' aa hts
  | lTail eb pi => exact p_lTail n sh pcs apcs t e eb pi hlt hq h hpc sh' pc' aa hts
  | dHead => exact p_dHead n sh pcs apcs t e hlt hq h hpc sh' pc' aa hts
  | dTail hb => exact p_dTail n sh pcs apcs t e hb hlt hq h hpc sh' pc' aa hts
  | dNext b => exact p_dNext n sh pcs apcs t e b hlt hq h hpc sh' pc' aa hts
  | dFree1 b nx => exact p_dFree1 n sh pcs apcs t e b nx hlt hq h hpc sh' pc' aa hts
  | dFree2 b => exact p_dFree2 n sh pcs apcs t e b hlt hq h hpc sh' pc' aa hts
  | dFree3 ob => exact p_dFree3 n sh pcs apcs t e ob hlt hq h hpc sh' pc' aa hts
  | ret r => exact p_ret n sh pcs apcs t e r hlt hq h hpc sh' pc' aa hts

theorem inv_run (s : St) (l : List (Tid × Env)) (h : Inv s) : Inv (run s l) := by
  induction l generalizing s with
  | nil => simpa [run]
  | cons te r ih =>
    obtain ⟨t, e⟩ := te
    simp only [run]
    split
    · next s' hs => exact ih _ (inv_step _ _ _ _ h hs)
    · exact ih _ h

theorem inv_reach (B n : Nat) (hB : 0 < B) (l : List (Tid × Env)) : Inv (run (init B n) l) :=
  inv_run _ l (inv_init B n hB)

theorem run_n (s : St) (l : List (Tid × Env)) : (run s l).n = s.n := by
  induction l generalizing s with
  | nil => rfl
  | cons te r ih =>
    obtain ⟨t, e⟩ := te
    simp only [run]
    split
    · next s' hs =>
      rw [ih]
      obtain ⟨_, _, sh', pc', aa, _, rfl⟩ := step_eq s s' t e hs
      rfl
    · exact ih _

/-! consequences -/

/-- the two `wait_next_block` spins find the link already set -/
theorem wait_free_spins (s : St) (h : Inv s) :
    (∀ (t : Tid) (b nn : Bid), s.pcs t = .pWait b nn → s.sh.next b = some (b + 1)) ∧
    (∀ (t : Tid) (hb : Bid) (k : K), s.pcs t = .rNext hb k → s.sh.next hb = some (hb + 1)) := by
  constructor
  · intro t b nn hp
    have hc := h.crt t (by rw [hp]; simp) (by rw [hp]; rfl)
    have h1 := h.cWt t b nn hp
    have h2 := h.cl1 t (by rw [hp]; rfl)
    have h3 := h.nbv hc
    have h4 := h.lnk b hc
    have h5 : pastAlloc (s.pcs (clo s.sh)) = true := by rw [← h2.2, hp]; rfl
    simp only [h2.1, h5, and_self, ↓reduceIte] at h3
    grind
  · intro t hb k hp
    have ht : t = 0 := h.cons0 t (by rw [hp]; rfl)
    subst ht
    have hc := h.crt 0 (by rw [hp]; simp) (by rw [hp]; rfl)
    have h1 := h.lHb hb (by rw [hp]; rfl)
    have h2 := (h.hbT hc).2.1 (by rw [hp]; rfl)
    have h3 := h.nbv hc
    have h4 := h.lnk hb hc
    have h5 := unl_of (s.pcs (clo s.sh))
    grind

/-- the block of a slot-access pc -/
def accBlk : Pc → Option Bid
  | .pWrite _ b _ | .oRead _ _ b _ | .bFastRd b _ _ | .bCopyRd b _ _ _ | .kRead b _ => some b
  | _ => none

/-- every consumer slot read is from the current head block, which is allocated and not (yet) in `old_block`;
    every slot write goes to an allocated block -/
theorem read_before_retire (s : St) (h : Inv s) :
    (∀ (hb : Bid), readBlk (s.pcs 0) = some hb → hb = s.sh.headBlk ∧ s.sh.live hb = true ∧ s.sh.old ≠ some hb) ∧
    (∀ (t : Tid) (v : Nat) (b : Bid) (i : Nat), s.pcs t = .pWrite v b i → s.sh.live b = true) := by
  constructor
  · intro hb hr
    have key : locHb (s.pcs 0) = some hb ∧ s.pcs 0 ≠ .idle ∧ isNew (s.pcs 0) = false ∧ dropDone (s.pcs 0) = false ∧
        atNextHead (s.pcs 0) = false := by
      generalize s.pcs 0 = pc at hr
      cases pc <;> simp_all [readBlk, locHb, isNew, dropDone, atNextHead]
    have hc := h.crt 0 key.2.1 key.2.2.1
    have h1 := h.lHb hb key.1
    subst h1
    have h2 := (h.hbT hc).1
    have h3 := h.nbv hc
    have h4 := (h.liveR s.sh.headBlk hc (Or.inr key.2.2.2.1)).mpr
    have h5 := h.oldR1 hc (Or.inr key.2.2.2.1) key.2.2.2.2
    refine ⟨rfl, h4 ⟨by omega, by omega⟩, ?_⟩
    rw [h5]
    split <;> simp <;> omega
  · intro t v b i hp
    have hw : wrSlot (s.pcs t) = some (v, b, i) := by rw [hp]; rfl
    have hc := h.crt t (by rw [hp]; simp) (by rw [hp]; rfl)
    have h1 := h.psetB t v b i hw
    have h2 := (h.pset t v b i hw).1
    have h3 := anh_of (s.pcs 0)
    have hd : s.sh.alive = true ∨ dropDone (s.pcs 0) = false := by
      by_cases ht : t = 0
      · subst ht; right; rw [hp]; rfl
      · left
        cases ha : s.sh.alive with
        | true => rfl
        | false => have := h.drp t hc ha ht; rw [hp] at this; cases this
    refine (h.liveR b hc hd).mpr ⟨?_, h2⟩
    split <;> omega

theorem reach_refines_A (B n : Nat) (hB : 0 < B) (l : List (Tid × Env)) : (run (init B n) l).sh.simBad = false :=
  (inv_reach B n hB l).noSimBad

theorem reach_block_safe (B n : Nat) (hB : 0 < B) (l : List (Tid × Env)) :
    (run (init B n) l).sh.uaf = false ∧ (run (init B n) l).sh.dfree = false ∧ (run (init B n) l).sh.panic = false :=
  ⟨(inv_reach B n hB l).noUaf, (inv_reach B n hB l).noDfree, (inv_reach B n hB l).noPanic⟩

/-- the ghost level-A state of every reachable state satisfies the level-A invariant: all level-A corollaries
    (`MpscA.flags_false`, `exactly_once`, `pushed_eq`, `producer_order`, `producer_order_list`) transfer -/
theorem reach_A_inv (B n : Nat) (hB : 0 < B) (l : List (Tid × Env)) :
    MpscA.Inv ⟨n, (run (init B n) l).sh.a, (run (init B n) l).apcs⟩ := by
  have h := (inv_reach B n hB l).ainv
  rw [run_n] at h
  exact h

theorem reach_apcs (B n : Nat) (hB : 0 < B) (l : List (Tid × Env)) (t : Tid) :
    (run (init B n) l).apcs t = proj (run (init B n) l).sh ((run (init B n) l).pcs t) :=
  (inv_reach B n hB l).sim t

theorem reach_wait_free_spins (B n : Nat) (hB : 0 < B) (l : List (Tid × Env)) :
    (∀ (t : Tid) (b nn : Bid), (run (init B n) l).pcs t = .pWait b nn → (run (init B n) l).sh.next b = some (b + 1)) ∧
    (∀ (t : Tid) (hb : Bid) (k : K), (run (init B n) l).pcs t = .rNext hb k → (run (init B n) l).sh.next hb = some (hb + 1)) :=
  wait_free_spins _ (inv_reach B n hB l)

theorem reach_read_before_retire (B n : Nat) (hB : 0 < B) (l : List (Tid × Env)) :
    (∀ (hb : Bid), readBlk ((run (init B n) l).pcs 0) = some hb →
        hb = (run (init B n) l).sh.headBlk ∧ (run (init B n) l).sh.live hb = true ∧ (run (init B n) l).sh.old ≠ some hb) ∧
    (∀ (t : Tid) (v : Nat) (b : Bid) (i : Nat), (run (init B n) l).pcs t = .pWrite v b i → (run (init B n) l).sh.live b = true) :=
  read_before_retire _ (inv_reach B n hB l)

end MayVerif.Mpsc
