import MayVerif.Proof.Queue.Mpsc.Tac
namespace MayVerif.Mpsc
open MayVerif.MpscA (upd Ret)

set_option linter.unusedVariables false in
set_option linter.unusedSimpArgs false in
set_option maxHeartbeats 4000000 in
theorem p_pSet (n : Nat) (sh : Sh) (pcs : Tid → Pc) (apcs : Tid → MpscA.Pc) (t : Tid) (e : Env) (v : Nat) (b : Bid) (i : Nat) (hlt : t < n)
    (hq : e = .drop → quiet ⟨n, sh, pcs, apcs⟩ t = true) (h : Inv ⟨n, sh, pcs, apcs⟩) (hpc : pcs t = .pSet v b i)
    (sh' : Sh) (pc' : Pc) (aa : AAct) (hts : tstepC sh t (.pSet v b i) e = some (sh', pc', aa)) :
    Inv (nextSt ⟨n, sh, pcs, apcs⟩ t sh' pc' (advA sh.a t (apcs t) aa)) := by
  by_cases ht0 : t = 0
  · subst ht0
    have hcr : sh.created = true := h.crt 0 (by show pcs 0 ≠ .idle; rw [hpc]; simp) (by show isNew (pcs 0) = false; rw [hpc]; rfl)
    bdestr 0
    bspecC
    bspec0
    have hp := pset 0 v b i (by rw [hpc]; rfl)
    have hpa := psetA 0 v b i (by rw [hpc]; rfl)
    have hpsv := psv 0 v b i hpc
    have hpb := psetB 0 v b i (by rw [hpc]; rfl)
    have hcb : i + 1 = sh.B → b = sh.tail.blk :=
      fun hh => (cl3 v b i (hp.2.2 hh).1 (by rw [← (hp.2.2 hh).2, hpc]; rfl)).2
    have hc3 : sh.a.closing = true → sh.a.own (sh.a.res - 1) = 0 → i + 1 = sh.B :=
      fun hc ht => (cl3 v b i hc (by rw [ht, hpc]; rfl)).1
    have hgeo := geo b hp.1
    have hx1 := succ_mod_blk sh.B b i hp.2.1
    rw [hgeo] at hA' ⊢
    simp only [tstepC, touch] at hts
    by_cases hg1 : i + 1 = sh.B <;>
    (
      simp only [hg1, ↓reduceIte] at hts
      bbranches
      simp only [advA, MpscA.tstep, aB, hx1, hg1, ↓reduceIte] at hA' ⊢
      constructor
      case rdyR =>
        bsimp
        intro b' i' hi'
        have hinj := pair_inj sh.B b' i' b i hi' hp.2.1
        have hold := rdyR b' i' hi'
        bclearAll
        simp only [upd2, upd]
        grind
      case valR =>
        bsimp
        intro b' i' hi'
        have hinj := pair_inj sh.B b' i' b i hi' hp.2.1
        have hold := valR b' i' hi'
        bclearAll
        simp only [upd2, upd]
        grind
      bfinNoSlot 0
    )
  · have hcr : sh.created = true := h.crt t (by show pcs t ≠ .idle; rw [hpc]; simp) (by show isNew (pcs t) = false; rw [hpc]; rfl)
    bdestr t
    bspecC
    bnonzero
    have hp := pset t v b i (by rw [hpc]; rfl)
    have hpa := psetA t v b i (by rw [hpc]; rfl)
    have hpsv := psv t v b i hpc
    have hpb := psetB t v b i (by rw [hpc]; rfl)
    have hcb : i + 1 = sh.B → b = sh.tail.blk :=
      fun hh => (cl3 v b i (hp.2.2 hh).1 (by rw [← (hp.2.2 hh).2, hpc]; rfl)).2
    have hc3 : sh.a.closing = true → sh.a.own (sh.a.res - 1) = t → i + 1 = sh.B :=
      fun hc ht => (cl3 v b i hc (by rw [ht, hpc]; rfl)).1
    have hgeo := geo b hp.1
    have hx1 := succ_mod_blk sh.B b i hp.2.1
    rw [hgeo] at hA' ⊢
    simp only [tstepC, touch] at hts
    by_cases hg1 : i + 1 = sh.B <;>
    (
      simp only [hg1, ↓reduceIte] at hts
      bbranches
      simp only [advA, MpscA.tstep, aB, hx1, hg1, ↓reduceIte] at hA' ⊢
      constructor
      case rdyR =>
        bsimp
        intro b' i' hi'
        have hinj := pair_inj sh.B b' i' b i hi' hp.2.1
        have hold := rdyR b' i' hi'
        bclearAll
        simp only [upd2, upd]
        grind
      case valR =>
        bsimp
        intro b' i' hi'
        have hinj := pair_inj sh.B b' i' b i hi' hp.2.1
        have hold := valR b' i' hi'
        bclearAll
        simp only [upd2, upd]
        grind
      bfinNoSlot t
    )


end MayVerif.Mpsc
