import MayVerif.Proof.Queue.Mpsc.Tac
namespace MayVerif.Mpsc
open MayVerif.MpscA (upd Ret)

set_option linter.unusedVariables false in
set_option linter.unusedSimpArgs false in
set_option maxHeartbeats 4000000 in
theorem p_bFast (n : Nat) (sh : Sh) (pcs : Tid → Pc) (apcs : Tid → MpscA.Pc) (t : Tid) (e : Env) (hb : Bid) (ci : Nat) (acc : List Nat) (hlt : t < n)
    (hq : e = .drop → quiet ⟨n, sh, pcs, apcs⟩ t = true) (h : Inv ⟨n, sh, pcs, apcs⟩) (hpc : pcs t = .bFast hb ci acc)
    (sh' : Sh) (pc' : Pc) (aa : AAct) (hts : tstepC sh t (.bFast hb ci acc) e = some (sh', pc', aa)) :
    Inv (nextSt ⟨n, sh, pcs, apcs⟩ t sh' pc' (advA sh.a t (apcs t) aa)) := by
  have ht0 : t = 0 := h.cons0 t (by show isCons0 (pcs t) = true; rw [hpc]; rfl)
  subst ht0
  have hcr : sh.created = true := h.crt 0 (by show pcs 0 ≠ .idle; rw [hpc]; simp) (by show isNew (pcs 0) = false; rw [hpc]; rfl)
  bdestr 0
  bspecC
  bspec0
  have hx1 := in_blk sh.B sh.headBlk sh.a.head (by omega) lFast
  have hx2 := rdyR sh.headBlk (sh.a.head % sh.B) hx1.2.1
  have hx3 := valR sh.headBlk (sh.a.head % sh.B) hx1.2.1
  rw [← hx1.2.2.1] at hx2 hx3
  rw [hx2] at hx3
  have hx4 := List.isEmpty_iff_length_eq_zero (l := acc)
  simp only [tstepC, touch] at hts
  try simp only [hx2] at hts
  by_cases hg1 : sh.a.ready sh.a.head = true
  · (
      simp only [hg1, ↓reduceIte] at hts
      bbranches
      simp only [advA, MpscA.tstep, hg1, aB, eq_self, Bool.false_eq_true, ↓reduceIte] at hA' ⊢
      bfin 0
    )
  · by_cases hg2 : acc.isEmpty = true <;>
    (
      simp only [hg1, hg2, ↓reduceIte] at hts
      bbranches
      simp only [advA, MpscA.tstep, hg1, hg2, aB, eq_self, Bool.false_eq_true, ↓reduceIte] at hA' ⊢
      bfin 0
    )


end MayVerif.Mpsc
