import MayVerif.Proof.Queue.Mpsc.Tac
namespace MayVerif.Mpsc
open MayVerif.MpscA (upd Ret)

set_option linter.unusedVariables false in
set_option linter.unusedSimpArgs false in
set_option maxHeartbeats 4000000 in
theorem p_pWrite (n : Nat) (sh : Sh) (pcs : Tid → Pc) (apcs : Tid → MpscA.Pc) (t : Tid) (e : Env) (v : Nat) (b : Bid) (i : Nat) (hlt : t < n)
    (hq : e = .drop → quiet ⟨n, sh, pcs, apcs⟩ t = true) (h : Inv ⟨n, sh, pcs, apcs⟩) (hpc : pcs t = .pWrite v b i)
    (sh' : Sh) (pc' : Pc) (aa : AAct) (hts : tstepC sh t (.pWrite v b i) e = some (sh', pc', aa)) :
    Inv (nextSt ⟨n, sh, pcs, apcs⟩ t sh' pc' (advA sh.a t (apcs t) aa)) := by
  by_cases ht0 : t = 0
  · subst ht0
    have hcr : sh.created = true := h.crt 0 (by show pcs 0 ≠ .idle; rw [hpc]; simp) (by show isNew (pcs 0) = false; rw [hpc]; rfl)
    bdestr 0
    bspecC
    bspec0
    have hp := pset 0 v b i (by rw [hpc]; rfl)
    have hpa := psetA 0 v b i (by rw [hpc]; rfl)
    have hx1 := rdyR b i hp.2.1
    have hps : ∀ u v1 b1 i1, wrSlot (upd pcs 0 (.pSet v b i) u) = some (v1, b1, i1) → wrSlot (pcs u) = some (v1, b1, i1) := by
      intro u v1 b1 i1 hh
      simp only [upd] at hh
      split at hh
      · next hu => rw [hu, hpc]; exact hh
      · exact hh
    have hU : ∀ u v', pcs u = .pSet v' b i → u = 0 :=
      fun u v' hu => psU u 0 v' v b i (by rw [hu]; rfl) (by rw [hpc]; rfl)
    have hpb := psetB 0 v b i (by rw [hpc]; rfl)
    have hcb : i + 1 = sh.B → b = sh.tail.blk :=
      fun hh => (cl3 v b i (hp.2.2 hh).1 (by rw [← (hp.2.2 hh).2, hpc]; rfl)).2
    have hc3 : sh.a.closing = true → sh.a.own (sh.a.res - 1) = 0 → i + 1 = sh.B :=
      fun hc ht => (cl3 v b i hc (by rw [ht, hpc]; rfl)).1
    simp only [tstepC, touch] at hts
    bbranches
    simp only [advA] at hA' ⊢
    bfin 0
  · have hcr : sh.created = true := h.crt t (by show pcs t ≠ .idle; rw [hpc]; simp) (by show isNew (pcs t) = false; rw [hpc]; rfl)
    bdestr t
    bspecC
    bnonzero
    have hp := pset t v b i (by rw [hpc]; rfl)
    have hpa := psetA t v b i (by rw [hpc]; rfl)
    have hx1 := rdyR b i hp.2.1
    have hps : ∀ u v1 b1 i1, wrSlot (upd pcs t (.pSet v b i) u) = some (v1, b1, i1) → wrSlot (pcs u) = some (v1, b1, i1) := by
      intro u v1 b1 i1 hh
      simp only [upd] at hh
      split at hh
      · next hu => rw [hu, hpc]; exact hh
      · exact hh
    have hU : ∀ u v', pcs u = .pSet v' b i → u = t :=
      fun u v' hu => psU u t v' v b i (by rw [hu]; rfl) (by rw [hpc]; rfl)
    have hpb := psetB t v b i (by rw [hpc]; rfl)
    have hcb : i + 1 = sh.B → b = sh.tail.blk :=
      fun hh => (cl3 v b i (hp.2.2 hh).1 (by rw [← (hp.2.2 hh).2, hpc]; rfl)).2
    have hc3 : sh.a.closing = true → sh.a.own (sh.a.res - 1) = t → i + 1 = sh.B :=
      fun hc ht => (cl3 v b i hc (by rw [ht, hpc]; rfl)).1
    simp only [tstepC, touch] at hts
    bbranches
    simp only [advA] at hA' ⊢
    bfin t


end MayVerif.Mpsc
