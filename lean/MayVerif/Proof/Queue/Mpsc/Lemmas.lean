/-
  Helper lemmas for the preservation proofs of the level-B mpsc invariant: block arithmetic (`b * B + i`),
  the effect of the level-A ghost operations on the fields the concrete state is tied to, `quiet`, `proj`,
  and the level-A facts the concrete clauses use.
-/
import MayVerif.Proof.Queue.Mpsc.Inv
namespace MayVerif.Mpsc
open MayVerif.MpscA (upd Ret)

/-! block arithmetic -/

theorem blk_le (B hb b i : Nat) (h : hb * B ≤ b * B + i) (hi : i < B) : hb ≤ b := by
  have : hb * B < (b + 1) * B := by grind
  exact Nat.le_of_lt_succ (Nat.lt_of_mul_lt_mul_right this)

theorem blk_lt (B hb b : Nat) (h : hb * B < b * B) : hb < b := Nat.lt_of_mul_lt_mul_right h

theorem blk_mono (B hb b : Nat) (h : hb ≤ b) : hb * B ≤ b * B := Nat.mul_le_mul_right B h

theorem mod_blk (B b i : Nat) (hi : i < B) : (b * B + i) % B = i := by
  rw [Nat.mul_comm, Nat.mul_add_mod]; exact Nat.mod_eq_of_lt hi

theorem div_blk (B b i : Nat) (hi : i < B) : (b * B + i) / B = b := by
  rw [Nat.mul_comm, Nat.mul_add_div (by omega)]; simp [Nat.div_eq_of_lt hi]

theorem pair_inj (B b i b' i' : Nat) (hi : i < B) (hi' : i' < B) (h : b * B + i = b' * B + i') : b = b' ∧ i = i' := by
  have h1 := div_blk B b i hi
  have h2 := div_blk B b' i' hi'
  have h3 := mod_blk B b i hi
  have h4 := mod_blk B b' i' hi'
  rw [h] at h1 h3
  exact ⟨h1.symm.trans h2, h3.symm.trans h4⟩

theorem succ_mod_blk (B b i : Nat) (hi : i < B) : ((b * B + i + 1) % B = 0 ↔ i + 1 = B) := by
  by_cases h : i + 1 = B
  · have : b * B + i + 1 = (b + 1) * B := by grind
    rw [this]; simp [h]
  · have : b * B + i + 1 = b * B + (i + 1) := by omega
    rw [this, mod_blk B b (i + 1) (by omega)]; omega

/-- a logical index inside block `hb` -/
theorem in_blk (B hb x : Nat) (h1 : hb * B ≤ x) (h2 : x < (hb + 1) * B) :
    x / B = hb ∧ x % B < B ∧ x = hb * B + x % B ∧ ((x + 1) % B = 0 ↔ x + 1 = (hb + 1) * B) := by
  have hx : x = hb * B + (x - hb * B) := by omega
  have hlt : x - hb * B < B := by grind
  have hm := mod_blk B hb (x - hb * B) hlt
  have hd := div_blk B hb (x - hb * B) hlt
  have hs := succ_mod_blk B hb (x - hb * B) hlt
  rw [← hx] at hm hd hs
  refine ⟨hd, by omega, by omega, ?_⟩
  rw [hs]; grind

/-- … or at its end -/
theorem end_blk (B hb x : Nat) (h1 : hb * B < x) (h2 : x ≤ (hb + 1) * B) : (x % B = 0 ↔ x = (hb + 1) * B) := by
  have := (in_blk B hb (x - 1) (by omega) (by omega)).2.2.2
  have hx : x - 1 + 1 = x := by omega
  rw [hx] at this
  exact this

/-! the level-A ghost operations only move `head` (among the fields the concrete state is tied to) -/

section A
open MayVerif.MpscA
variable (a : MpscA.Sh) (i : Nat)
@[simp] theorem linz_B : (linz a i).B = a.B := rfl
@[simp] theorem linz_res : (linz a i).res = a.res := rfl
@[simp] theorem linz_closing : (linz a i).closing = a.closing := rfl
@[simp] theorem linz_ready : (linz a i).ready = a.ready := rfl
@[simp] theorem linz_val : (linz a i).val = a.val := rfl
@[simp] theorem linz_own : (linz a i).own = a.own := rfl
@[simp] theorem linz_head : (linz a i).head = a.head := rfl
@[simp] theorem take_B : (take a).B = a.B := by simp only [take]; split <;> rfl
@[simp] theorem take_res : (take a).res = a.res := by simp only [take]; split <;> rfl
@[simp] theorem take_closing : (take a).closing = a.closing := by simp only [take]; split <;> rfl
@[simp] theorem take_ready : (take a).ready = a.ready := by simp only [take]; split <;> rfl
@[simp] theorem take_val : (take a).val = a.val := by simp only [take]; split <;> rfl
@[simp] theorem take_own : (take a).own = a.own := by simp only [take]; split <;> rfl
@[simp] theorem take_head : (take a).head = a.head + 1 := by simp only [take]; split <;> rfl
@[simp] theorem noneLP_B : (noneLP a).B = a.B := rfl
@[simp] theorem noneLP_res : (noneLP a).res = a.res := rfl
@[simp] theorem noneLP_closing : (noneLP a).closing = a.closing := rfl
@[simp] theorem noneLP_ready : (noneLP a).ready = a.ready := rfl
@[simp] theorem noneLP_val : (noneLP a).val = a.val := rfl
@[simp] theorem noneLP_own : (noneLP a).own = a.own := rfl
@[simp] theorem noneLP_head : (noneLP a).head = a.head := rfl
variable (c : Prop) [Decidable c]
@[simp] theorem ite_linz_B : (if c then linz a i else a).B = a.B := by split <;> rfl
@[simp] theorem ite_linz_res : (if c then linz a i else a).res = a.res := by split <;> rfl
@[simp] theorem ite_linz_closing : (if c then linz a i else a).closing = a.closing := by split <;> rfl
@[simp] theorem ite_linz_ready : (if c then linz a i else a).ready = a.ready := by split <;> rfl
@[simp] theorem ite_linz_val : (if c then linz a i else a).val = a.val := by split <;> rfl
@[simp] theorem ite_linz_own : (if c then linz a i else a).own = a.own := by split <;> rfl
@[simp] theorem ite_linz_head : (if c then linz a i else a).head = a.head := by split <;> rfl
end A

/-! `quiet`, `proj`, `Word` -/

theorem quiet_idle (s : St) (t : Tid) (h : quiet s t = true) (u : Tid) (hu : u < s.n) (hut : u ≠ t) : s.pcs u = .idle := by
  simp only [quiet, List.all_eq_true, List.mem_range, Bool.or_eq_true, beq_iff_eq] at h
  have := h u hu
  grind

theorem proj_congr (sh sh' : Sh) (pc : Pc) (h : ∀ b, refBlk pc = some b → sh'.start b = sh.start b) :
    proj sh' pc = proj sh pc := by
  cases pc <;> simp_all [proj, refBlk]

theorem word_eq (w w' : Word) (h1 : w.blk = w'.blk) (h2 : w.idx = w'.idx) (h3 : w.closing = w'.closing) : w = w' := by
  cases w; cases w'; simp_all

theorem upd_same {α : Type} (f : Nat → α) (t : Nat) : upd f t (f t) = f := by
  funext u; simp only [upd]; split
  · next hu => rw [hu]
  · rfl

theorem anh_of (pc : Pc) (h : atNextHead pc = true) : inRetire pc = true := by cases pc <;> simp_all [atNextHead, inRetire]

theorem unl_of (pc : Pc) (h : unlinked pc = true) : pastAlloc pc = true := by cases pc <;> simp_all [unlinked, pastAlloc]

theorem dEf_of (pc : Pc) (h : dEnd pc = true) : dflag pc = true := by cases pc <;> simp_all [dEnd, dflag]

/-! level-A facts in concrete terms -/

theorem cwaits_proj (sh : Sh) (pc : Pc) (h : cwaits pc = true) : MpscA.waits (proj sh pc) = true := by
  cases pc <;> simp_all [cwaits, proj, MpscA.waits]

theorem wr_cases (pc : Pc) (v : Nat) (b : Bid) (i : Nat) (h : wrSlot pc = some (v, b, i)) :
    pc = .pWrite v b i ∨ pc = .pSet v b i := by
  cases pc <;> simp [wrSlot] at h <;> obtain ⟨rfl, rfl, rfl⟩ := h <;> simp

theorem wr_proj (sh : Sh) (pc : Pc) (v : Nat) (b : Bid) (i : Nat) (h : wrSlot pc = some (v, b, i)) :
    MpscA.pubSlot (proj sh pc) = some (sh.start b + i, v) := by
  rcases wr_cases pc v b i h with rfl | rfl <;> rfl

theorem Inv.psetA {s : St} (h : Inv s) (t : Tid) (v : Nat) (b : Bid) (i : Nat) (hp : wrSlot (s.pcs t) = some (v, b, i)) :
    b * s.sh.B + i < s.sh.a.res ∧ s.sh.a.ready (b * s.sh.B + i) = false ∧ s.sh.a.head ≤ b * s.sh.B + i := by
  have hb := (h.pset t v b i hp).1
  have := h.ainv.pub t (s.sh.start b + i) v (by simp only; rw [h.sim t]; exact wr_proj _ _ _ _ _ hp)
  rw [h.geo b hb] at this
  exact ⟨this.1, this.2.2.1, this.2.2.2⟩

/-- two producers between CAS and `ready` store never own the same slot -/
theorem Inv.psU {s : St} (h : Inv s) (t u : Tid) (v v' : Nat) (b : Bid) (i : Nat)
    (hp : wrSlot (s.pcs t) = some (v, b, i)) (hq : wrSlot (s.pcs u) = some (v', b, i)) : t = u := by
  apply h.ainv.pub1 t u (s.sh.start b + i) v v'
  · simp only; rw [h.sim t]; exact wr_proj _ _ _ _ _ hp
  · simp only; rw [h.sim u]; exact wr_proj _ _ _ _ _ hq

theorem Inv.waitA {s : St} (h : Inv s) (t : Tid) (hp : cwaits (s.pcs t) = true) : s.sh.a.head < s.sh.a.lin := by
  apply h.ainv.wt t
  simp only
  rw [h.sim t]
  exact cwaits_proj _ _ hp

theorem Inv.crt {s : St} (h : Inv s) (t : Tid) (hp : s.pcs t ≠ .idle) (hn : isNew (s.pcs t) = false) : s.sh.created = true := by
  cases hc : s.sh.created with
  | true => rfl
  | false =>
    by_cases ht : t = 0
    · subst ht; exact absurd (h.pre0 hc hn) hp
    · exact absurd (h.pre t hc ht) hp

/-- blocks named by a `pCas` / `pSet` pc are allocated -/
theorem Inv.refR {s : St} (h : Inv s) (u : Tid) (b : Bid) (hr : refBlk (s.pcs u) = some b) : b < s.sh.nb := by
  generalize hp : s.pcs u = pc at hr
  cases pc <;> simp only [refBlk, Option.some.injEq] at hr <;> (try contradiction)
  · next v w => subst hr; exact (h.pcas u v w hp).1
  · next v b' i => subst hr; exact (h.pset u v b' i (by rw [hp]; rfl)).1
  · next v b' i => subst hr; exact (h.pset u v b' i (by rw [hp]; rfl)).1

/-- the head block is not beyond the tail block (+1 when the tail block is exhausted) -/
theorem Inv.hbT {s : St} (h : Inv s) (hc : s.sh.created = true) :
    s.sh.headBlk ≤ s.sh.tail.blk + 1 ∧ (inRetire (s.pcs 0) = true → s.sh.headBlk ≤ s.sh.tail.blk) ∧
    (s.sh.a.head < s.sh.a.res → s.sh.headBlk ≤ s.sh.tail.blk) := by
  have h1 := h.hb1 hc
  have h2 := h.hd hc
  have h3 := h.ainv.hl
  have h4 := h.ainv.lr
  have h5 := h.tw hc
  have h6 := h.hb3 hc
  simp only at h3 h4
  have hres : s.sh.a.res ≤ (s.sh.tail.blk + 1) * s.sh.B + 0 := by split at h5 <;> grind
  refine ⟨blk_le _ _ _ 0 (by omega) h.bpos, ?_, ?_⟩
  · intro hr
    have := h6 hr
    have : (s.sh.headBlk + 1) * s.sh.B ≤ (s.sh.tail.blk + 1) * s.sh.B + 0 := by omega
    have := blk_le _ _ _ 0 this h.bpos
    omega
  · intro hlt
    have : s.sh.headBlk * s.sh.B ≤ s.sh.tail.blk * s.sh.B + (s.sh.a.res - 1 - s.sh.tail.blk * s.sh.B) := by omega
    refine blk_le _ _ _ _ this ?_
    split at h5 <;> omega

/-- a producer's slot lies in a block from the head block on -/
theorem Inv.psetB {s : St} (h : Inv s) (t : Tid) (v : Nat) (b : Bid) (i : Nat) (hp : wrSlot (s.pcs t) = some (v, b, i)) :
    s.sh.headBlk ≤ b ∧ (inRetire (s.pcs 0) = true → s.sh.headBlk + 1 ≤ b) := by
  have hc : s.sh.created = true := by
    rcases wr_cases _ _ _ _ hp with hh | hh <;> exact h.crt t (by rw [hh]; simp) (by rw [hh]; rfl)
  have h0 := h.psetA t v b i hp
  have h1 := h.hb1 hc
  have h2 := h.hd hc
  have h6 := h.hb3 hc
  have hi := (h.pset t v b i hp).2.1
  refine ⟨blk_le _ _ _ i (by omega) hi, ?_⟩
  intro hr
  have := h6 hr
  exact blk_le _ _ _ i (by omega) hi

/-- `Drop` after its pop loop: the queue is empty and the tail block is the head block -/
theorem Inv.dT {s : St} (h : Inv s) (hd : dEnd (s.pcs 0) = true) : s.sh.tail.blk = s.sh.headBlk := by
  have hE := h.dE hd
  have key : dflag (s.pcs 0) = true ∧ taken (s.pcs 0) = 0 ∧ inRetire (s.pcs 0) = false := by
    generalize s.pcs 0 = pc at hd
    cases pc <;> simp_all [dEnd, dflag, taken, inRetire]
  have hc := (h.dfl key.1).2
  have h1 := h.hb1 hc
  have h2 := h.hb2 hc key.2.2
  have h3 := h.hd hc
  have h5 := h.tw hc
  rw [key.2.1] at h3
  rw [← h5.2.2.1] at hE
  simp only [hE.2, Bool.false_eq_true, ↓reduceIte, Nat.add_zero] at h5
  have e1 := (in_blk s.sh.B s.sh.headBlk s.sh.headIdx h1.1 h2).1
  have e2 := div_blk s.sh.B s.sh.tail.blk s.sh.tail.idx h5.2.1
  have : s.sh.headIdx = s.sh.tail.blk * s.sh.B + s.sh.tail.idx := by omega
  rw [this] at e1
  omega

/-- `push_index()` on the tail word is level A's `pushIndex` -/
theorem Inv.pidxA {s : St} (h : Inv s) (hc : s.sh.created = true) :
    s.sh.start s.sh.tail.blk + s.sh.tail.idx = MpscA.pushIndex s.sh.a := by
  have h5 := h.tw hc
  have h6 := h.nbv hc
  rw [h.geo s.sh.tail.blk (by omega)]
  simp only [MpscA.pushIndex]
  rw [← h5.2.2.1]
  split at h5 <;> simp_all <;> omega

end MayVerif.Mpsc
