import MayVerif.Proof.Queue.Mpsc.Tac
namespace MayVerif.Mpsc
open MayVerif.MpscA (upd Ret)

set_option linter.unusedVariables false in
set_option linter.unusedSimpArgs false in
set_option maxHeartbeats 4000000 in
theorem p_oRead (n : Nat) (sh : Sh) (pcs : Tid → Pc) (apcs : Tid → MpscA.Pc) (t : Tid) (e : Env) (d : Bool) (sp : Bool) (hb : Bid) (pi : Nat) (hlt : t < n)
    (hq : e = .drop → quiet ⟨n, sh, pcs, apcs⟩ t = true) (h : Inv ⟨n, sh, pcs, apcs⟩) (hpc : pcs t = .oRead d sp hb pi)
    (sh' : Sh) (pc' : Pc) (aa : AAct) (hts : tstepC sh t (.oRead d sp hb pi) e = some (sh', pc', aa)) :
    Inv (nextSt ⟨n, sh, pcs, apcs⟩ t sh' pc' (advA sh.a t (apcs t) aa)) := by
  cases d <;> cases sp <;>
  (
    have ht0 : t = 0 := h.cons0 t (by show isCons0 (pcs t) = true; rw [hpc]; rfl)
    subst ht0
    have hcr : sh.created = true := h.crt 0 (by show pcs 0 ≠ .idle; rw [hpc]; simp) (by show isNew (pcs 0) = false; rw [hpc]; rfl)
    bdestr 0
    bspecC
    bspec0
    have hx1 := in_blk sh.B sh.headBlk sh.headIdx hb1.1 hb2
    have hx5 : sh.headBlk * sh.B + sh.headIdx % sh.B = sh.a.head := by omega
    have hx2 := rdyR sh.headBlk (sh.headIdx % sh.B) hx1.2.1
    have hx3 := valR sh.headBlk (sh.headIdx % sh.B) hx1.2.1
    rw [hx5] at hx2 hx3
    rw [hx2] at hx3
    have hx3 := hx3 lRd
    simp only [tstepC, touch] at hts
    bbranches
    simp only [advA, MpscA.tstep, lRd, eq_self, Bool.false_eq_true, ↓reduceIte] at hA' ⊢
    bfin 0
  )


end MayVerif.Mpsc
