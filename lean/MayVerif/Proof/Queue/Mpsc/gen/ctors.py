# constructor name -> list of arg names
CT = [
 ('idle',[]),('nAlloc0',[]),('nAlloc1',['b0']),('nLink',['b0','b1']),('nRet',[]),
 ('pLoad',['v']),('pCas',['v','w']),('pWrite',['v','b','i']),('pSet',['v','b','i']),('pAlloc',['b']),('pWait',['b','nn']),('pLink',['nx','nn']),('pTail',['nx']),
 ('oBlk',['d']),('oIdx',['d','hb']),('oTry',['d','hb','pi']),('oTail',['d','hb','pi']),('oSpin',['d','hb','pi']),('oRead',['d','sp','hb','pi']),('oStore',['d','hb','pi','v']),
 ('rFree',['hb','k']),('rNext',['hb','k']),('rHead',['nx','k']),
 ('bIdx',[]),('bBlk',['pi']),('bFast',['hb','ci','acc']),('bFastRd',['hb','ci','acc']),('bStore',['hb','ni','acc']),('bTail',['hb','pi']),('bCopy',['hb','ci','ce','acc']),('bCopyRd',['hb','ci','ce','acc']),
 ('kIdx',[]),('kTail',['pi']),('kBlk',['pi']),('kSpin',['hb','pi']),('kRead',['hb','pi']),
 ('lIdx',['eb']),('lTail',['eb','pi']),
 ('dHead',[]),('dTail',['hb']),('dNext',['b']),('dFree1',['b','nx']),('dFree2',['b']),('dFree3',['ob']),('ret',['r']),
]
TY = {'b0':'Bid','b1':'Bid','v':'Nat','w':'Word','b':'Bid','i':'Nat','nn':'Bid','nx':'Bid','d':'Bool','sp':'Bool','hb':'Bid','pi':'Nat','k':'K',
      'ci':'Nat','acc':'List Nat','ni':'Nat','ce':'Nat','eb':'Bool','ob':'Bid','r':'Ret'}
def pat(c,args): return '.'+c+''.join(' '+a for a in args)
def gen_def(name, ty, default, cases, doc=None):
    """cases: dict ctor -> rhs string (may use arg names)"""
    out=[]
    if doc: out.append(f'/-- {doc} -/')
    out.append(f'@[grind] def {name} : Pc → {ty}')
    for c,args in CT:
        rhs = cases.get(c, default)
        import re as _re
        toks=set(_re.findall(r'[A-Za-z_][A-Za-z_0-9]*', rhs))
        used=[a if a in toks else '_' for a in args]
        out.append(f'  | {pat(c,used)} => {rhs}')
    return '\n'.join(out)+'\n'
