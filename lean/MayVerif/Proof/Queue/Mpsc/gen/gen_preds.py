import os
import sys; sys.path.insert(0,os.path.dirname(os.path.abspath(__file__)))
from ctors import *
consumer = ['nAlloc0','nAlloc1','nLink','nRet','oBlk','oIdx','oTry','oTail','oSpin','oRead','oStore','rFree','rNext','rHead','bIdx','bBlk','bFast','bFastRd','bStore','bTail','bCopy','bCopyRd','kIdx','kTail','kBlk','kSpin','kRead','lIdx','lTail','dHead','dTail','dNext','dFree1','dFree2','dFree3']
T=lambda l: {c:'true' for c in l}
defs=[]
defs.append(gen_def('isNew','Bool','false',T(['nAlloc0','nAlloc1','nLink']),'inside `Queue::new` before the queue exists'))
defs.append(gen_def('isCons0','Bool','false',T(consumer),'program points of `new`, the consumer API and `Drop`: actor 0 only'))
defs.append(gen_def('inClose','Bool','false',T(['pAlloc','pWait','pLink','pTail']),'the closer after its slot write'))
defs.append(gen_def('closerPc','Bool','false',T(['pWrite','pSet','pAlloc','pWait','pLink','pTail']),'where the closer can be'))
defs.append(gen_def('pastAlloc','Bool','false',T(['pWait','pLink','pTail']),'the closer has allocated the next-next block'))
defs.append(gen_def('unlinked','Bool','false',T(['pWait','pLink']),'… but not linked it yet'))
defs.append(gen_def('inRetire','Bool','false',T(['rFree','rNext','rHead']),'hand-over of the head block: `head.index` is stored, `head.block` not yet'))
defs.append(gen_def('atNextHead','Bool','false',T(['rNext','rHead']),'… and `old_block` already replaced'))
defs.append(gen_def('taken','Nat','0',{'oStore':'1','bFast':'acc.length','bFastRd':'acc.length','bCopy':'acc.length','bCopyRd':'acc.length','bStore':'acc.length'},'values taken (at level A) by the current operation whose `head.index` store is still to come'))
defs.append(gen_def('dropDone','Bool','false',T(['dFree2','dFree3','ret','idle']),'`Drop` has started freeing (or the actor is between operations)'))
defs.append('@[grind] def kd : K → Bool | .pop d _ => d | .bulk _ => false\n')
defs.append(gen_def('dflag','Bool','false',{'oBlk':'d','oIdx':'d','oTry':'d','oTail':'d','oSpin':'d','oRead':'d','oStore':'d','rFree':'kd k','rNext':'kd k','rHead':'kd k','dHead':'true','dTail':'true','dNext':'true','dFree1':'true','dFree2':'true','dFree3':'true'},'inside `Drop`'))
defs.append(gen_def('dEnd','Bool','false',T(['dHead','dTail','dNext','dFree1']),'`Drop` after its pop loop, before the frees'))
defs.append(gen_def('cwaits','Bool','false',T(['oSpin','kBlk','kSpin','kRead','bCopy','bCopyRd'])|{'oRead':'sp'},'the consumer waits for a slot that `push_index()` counted'))
S=lambda l,x: {c:f'some {x}' for c in l}
defs.append(gen_def('locHb','Option Bid','none',S(['oIdx','oTry','oTail','oSpin','oRead','oStore','rFree','rNext','bFast','bFastRd','bStore','bTail','bCopy','bCopyRd','kSpin','kRead','dTail'],'hb')|{'dNext':'some b','dFree1':'some b','dFree2':'some b'},'local copy of `head.block`'))
defs.append(gen_def('locPi','Option Nat','none',S(['oTry','oTail','oSpin','oRead','oStore','bBlk','bTail','kTail','kBlk','kSpin','kRead','lTail'],'pi'),'local copy of `head.index`'))
defs.append(gen_def('locCi','Option Nat','none',{'bFast':'some ci','bFastRd':'some ci','bCopy':'some ci','bCopyRd':'some ci','bStore':'some ni'},'logical index the bulk copy has reached'))
defs.append(gen_def('refBlk','Option Bid','none',{'pCas':'some w.blk','pWrite':'some b','pSet':'some b'},'block whose `start` the projection reads'))
defs.append(gen_def('wrSlot','Option (Nat × Bid × Nat)','none',{'pWrite':'some (v, b, i)','pSet':'some (v, b, i)'},'value and slot of a producer between its CAS and its `ready` store'))
defs.append(gen_def('isRd','Bool','false',T(['oRead','bFastRd','bCopyRd','kRead']),'the consumer has read the `ready` flag of slot `head` as set and is about to read the slot'))
defs.append(gen_def('readBlk','Option Bid','none',S(['oRead','bFastRd','bCopyRd','kRead'],'hb'),'the block of a consumer slot read'))
defs.append(gen_def('isFast','Bool','false',T(['bFast','bFastRd']),'fast path of `bulk_pop`'))
defs.append(gen_def('isCopy','Bool','false',T(['bCopy','bCopyRd']),'slow path of `bulk_pop`'))
defs.append(gen_def('ceOf','Nat','0',{'bCopy':'ce','bCopyRd':'ce'},'… and its logical end index'))
hdr='''/-
  Bool-valued program-point predicates used by the invariant of the level-B mpsc model (`Inv.lean`).
  Every constructor is listed (no wildcard arm), so that the equation lemmas `grind` unfolds are one per constructor.
-/
import MayVerif.Model.Queue.Mpsc
namespace MayVerif.Mpsc
open MayVerif.MpscA (upd Ret)

'''
open(os.path.join(os.path.dirname(os.path.dirname(os.path.abspath(__file__))), 'Preds.lean'),'w').write(hdr+'\n'.join(defs)+'\nend MayVerif.Mpsc\n')
