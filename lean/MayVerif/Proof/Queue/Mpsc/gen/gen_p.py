import sys, os; sys.path.insert(0,os.path.dirname(os.path.abspath(__file__)))
from ctors import *
D=os.path.dirname(os.path.dirname(os.path.abspath(__file__))) + '/'
def write(c, body, pre=''):
    args=dict(CT)[c]
    binder=''.join(f' ({a} : {TY[a]})' for a in args)
    pc='.'+c+''.join(' '+a for a in args)
    src=f'''import MayVerif.Proof.Queue.Mpsc.Tac
namespace MayVerif.Mpsc
open MayVerif.MpscA (upd Ret)
{pre}
set_option linter.unusedVariables false in
set_option linter.unusedSimpArgs false in
set_option maxHeartbeats 4000000 in
theorem p_{c} (n : Nat) (sh : Sh) (pcs : Tid → Pc) (apcs : Tid → MpscA.Pc) (t : Tid) (e : Env){binder} (hlt : t < n)
    (hq : e = .drop → quiet ⟨n, sh, pcs, apcs⟩ t = true) (h : Inv ⟨n, sh, pcs, apcs⟩) (hpc : pcs t = {pc})
    (sh' : Sh) (pc' : Pc) (aa : AAct) (hts : tstepC sh t ({pc}) e = some (sh', pc', aa)) :
    Inv (nextSt ⟨n, sh, pcs, apcs⟩ t sh' pc' (advA sh.a t (apcs t) aa)) := by
{body}

end MayVerif.Mpsc
'''
    open(D+f'P_{c}.lean','w').write(src)
if __name__=='__main__':
    c=sys.argv[1]; body=open(sys.argv[2]).read().rstrip('\n')
    write(c, body)
