#!/usr/bin/env python3
"""usage: errs.py <lean output file> : prints for each grind failure the case tag, non-standard hyps and the goal"""
import sys,re
STD=set("psv psU lRd dEf pidxA unl anh hcr dT pre0 psetB hbT refR aB bpos ainv sim nSB nUaf nDf nPn idleN cons0 alc pre newc preA preR nb0 nb1 nb2 drp dfl geo fresh tw nbv cl1 cl2 cl3 pset pcas cAl cWt cLk cTl lnk rdyR valR hd hb1 hb2 hb3 lHb lPi lCi lFast lStore lCopy lHead dE dF1 df2a df2b df3 oldR1 oldR2 liveR A_hl A_lr A_lc A_helped A_rdy psetA waitA hsim n sh pcs apcs t e hlt hq".split())
lines=open(sys.argv[1]).read().split('\n')
i=0
while i<len(lines):
    l=lines[i]
    if 'FAILED' in l: print(l)
    if re.search(r'error:.*(grind. failed|unsolved|failed)',l) or l.startswith('error:'):
        print('=== '+l[:200])
        i+=1
        # collect entries until [grind] or blank
        entries=[]
        while i<len(lines) and not lines[i].startswith('[grind]') and not lines[i].startswith('error:') and not lines[i].startswith('warning:') and not re.match(r'^[✔✖⚠]',lines[i]):
            if lines[i] and not lines[i][0].isspace(): entries.append(lines[i])
            elif entries: entries[-1]+='\n'+lines[i]
            i+=1
        for en in entries:
            m=re.match(r"^([^:]*?) :",en)
            if m:
                names=m.group(1).split()
                if all(x in STD for x in names): continue
            print('   '+en[:600])
        continue
    i+=1
