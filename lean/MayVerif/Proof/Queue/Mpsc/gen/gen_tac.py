import os
FIELDS = "aB bpos ainv sim noSimBad noUaf noDfree noPanic idleN cons0 alc pre pre0 newc preA preR nb0 nb1 nb2 drp dfl geo fresh tw nbv cl1 cl2 cl3 pset psv pcas cAl cWt cLk cTl lnk rdyR valR hd hb1 hb2 hb3 lHb lPi lCi lFast lStore lCopy lRd lHead dE dF1 df2a df2b df3 oldR1 oldR2 liveR".split()
HN = {f:f for f in FIELDS}
HN.update({'noSimBad':'nSB','noUaf':'nUaf','noDfree':'nDf','noPanic':'nPn'})
G = {
 'base': 'aB bpos'.split(),
 'flags': 'nSB nUaf nDf nPn'.split(),
 'A': 'A_hl A_lr A_lc A_helped A_rdy'.split(),
 'Aq': 'psetA waitA psetB hbT'.split(),
 'life': 'idleN cons0 alc pre pre0 newc preA preR nb0 nb1 nb2 drp dfl'.split(),
 'geo': 'geo fresh'.split(),
 'tail': 'tw nbv pidxA'.split(),
 'clo': 'cl1 cl2 cl3 pset psv psU pcas cAl cWt cLk cTl refR unl'.split(),
 'lnk': ['lnk'],
 'slot': 'rdyR valR'.split(),
 'head': 'hd hb1 hb2 hb3 anh'.split(),
 'loc': 'lHb lPi lCi lFast lStore lCopy lRd lHead'.split(),
 'drop': 'dE dF1 df2a df2b df3 dT dEf'.split(),
 'live': 'oldR1 oldR2 liveR'.split(),
 'misc': "ainv sim hA' hsim".split(),
 'x': 'hx1 hx2 hx3 hx4 hx5 hx6 hx7'.split(),
}
ALL = [h for g in G.values() for h in g]
K = {
 'aB': [], 'bpos': [],
 'noUaf': 'nUaf A Aq life geo tail clo head loc live drop',
 'noDfree': 'nDf life head loc live drop tail clo Aq',
 'noPanic': 'nPn life tail clo lnk head loc drop A',
 'idleN': 'idleN', 'cons0': 'cons0 idleN',
 'alc':'life','pre':'life','pre0':'life','newc':'life','preA':'life','preR':'life','nb0':'life','nb1':'life geo','nb2':'life geo','drp':'life x','dfl':'life',
 'geo':'geo life tail clo','fresh':'geo life',
 'tw':'A Aq life geo tail clo','nbv':'life tail clo A',
 'lnk':'life tail clo lnk geo',
 'rdyR':'slot life clo Aq A x','valR':'slot life clo Aq A x',
 'hd':'head loc life x','hb1':'head loc life x','hb2':'head loc life x','hb3':'head loc life x',
 'dE':'drop life tail clo head A','dF1':'drop lnk tail clo life head loc',
 'df2a':'drop live head loc life tail clo Aq','df2b':'drop live head loc life tail clo Aq','df3':'drop live head loc life tail clo Aq',
 'oldR1':'live head loc life tail clo drop geo Aq','oldR2':'live head loc life tail clo drop geo Aq','liveR':'live head loc life tail clo drop geo Aq',
}
for f in 'cl1 cl2 cl3 pset psv pcas cAl cWt cLk cTl'.split(): K[f]='life tail clo A geo lnk'
for f in 'lHb lPi lCi lFast lStore lCopy lRd lHead'.split(): K[f]='head loc life A Aq drop tail lnk clo x'
def keep(f):
    k=K[f]
    if isinstance(k,str): k=k.split()
    out=set(G['base'])
    for x in k:
        if x in G: out|=set(G[x])
        else: out.add(x)
    return out
SIMP = "nextSt, clo, hu0, touch, alloc, free, proj, linz_B, linz_res, linz_closing, linz_ready, linz_val, linz_own, linz_head, take_B, take_res, take_closing, take_ready, take_val, take_own, take_head, noneLP_B, noneLP_res, noneLP_closing, noneLP_ready, noneLP_val, noneLP_own, noneLP_head, ite_linz_B, ite_linz_res, ite_linz_closing, ite_linz_ready, ite_linz_val, ite_linz_own, ite_linz_head"
def case(f):
    if f=='ainv': return "   case ainv => exact hA'"
    if f=='sim':
        cl=' '.join(h for h in ALL if h not in keep('tw')|{'sim'}|set(G['slot'])|set(G['head'])|set(G['loc'])|set(G['x']))
        return f"""   case sim =>
     clearIf {cl}
     intro u
     by_cases hu : u = $tt
     · subst hu
       (first | simp only [{SIMP}, upd, ↓reduceIte] | skip) <;> (first | rfl | grind)
     · simp only [nextSt, upd, hu, ↓reduceIte]
       rw [sim u]; symm; apply proj_congr
       first | (intro b _; rfl) | (simp only [{SIMP}]; grind)"""
    if f=='noSimBad':
        cl=' '.join(h for h in ALL if h not in keep('tw')|{'nSB'}|set(G['slot'])|set(G['head'])|set(G['loc'])|set(G['x']))
        return f"""   case noSimBad =>
     clearIf {cl}
     (first | simp only [{SIMP}, nSB, Bool.not_true, Bool.false_or, Bool.or_false, bne_eq_false_iff_eq] | skip) <;> (first | rfl | grind)"""
    cl=' '.join(h for h in ALL if h not in keep(f))
    return f"""   case {f} =>
     clearIf {cl}
     (first | simp only [{SIMP}] | skip) <;> grind"""
names=', '.join(HN[f] for f in FIELDS)
allh=' '.join([HN[f] for f in FIELDS]+"A_hl A_lr A_lc A_helped A_rdy psetA waitA psetB hbT refR psU dT pidxA anh unl dEf hA' hsim".split())
SIMPX=SIMP.replace("hu0, ","")
ALLS=" ".join(ALL)
src=f"""/-
  Tactics shared by the preservation lemmas `P_*.lean` of the level-B mpsc invariant (generated from a table:
  for every clause of `Inv` the hypotheses it may depend on; everything else is cleared before `grind`).
  The macros are unhygienic on purpose: they introduce / use the hypothesis names of `bdestr`.
-/
import MayVerif.Proof.Queue.Mpsc.Lemmas
namespace MayVerif.Mpsc
open MayVerif.MpscA (upd Ret)

attribute [grind] MpscA.pushIndex pidx

/-- `clear` for those of the named hypotheses that (still) exist -/
syntax "clearIf" (ppSpace colGt ident)* : tactic
macro_rules
  | `(tactic| clearIf) => `(tactic| skip)
  | `(tactic| clearIf $h $hs*) => `(tactic| ((try clear $h); clearIf $hs*))

set_option hygiene false in
/-- the queue exists: discharge the `created = true` premises (`hcr : sh.created = true`) -/
macro "bspecC" : tactic => `(tactic|
  (simp only [hcr, forall_const, true_implies, Bool.true_eq_false, Bool.false_eq_true, false_implies, implies_true, eq_self] at alc pre pre0 newc preA preR nb0 drp tw nbv lnk hd hb1 hb2 hb3 oldR1 oldR2 liveR hbT pidxA))

set_option hygiene false in
/-- the stepping actor is actor 0: evaluate the clauses about `pcs 0` at `hpc : pcs 0 = …` -/
macro "bspec0" : tactic => `(tactic|
  (simp [hpc, isNew, taken, inRetire, atNextHead, dropDone, dflag, dEnd, kd, locHb, locPi, locCi, isFast, isCopy, ceOf, isRd] at nb1 nb2 dfl hd hb2 hb3 lHb lPi lCi lFast lStore lCopy lRd lHead dE dF1 df2a df2b df3 oldR1 oldR2 liveR hbT dT anh
   (try subst lHb); (try subst lPi); (try subst lCi); (try subst lHead)
   have hu0 : ∀ pc, upd pcs 0 pc 0 = pc := fun _ => by simp [upd]))

set_option hygiene false in
/-- the stepping actor is not actor 0 (`ht0 : ¬t = 0`) -/
macro "bnonzero" : tactic => `(tactic|
  (have hu0 : ∀ pc, upd pcs t pc 0 = pcs 0 := fun _ => by simp [upd, Ne.symm ht0]))

set_option hygiene false in
/-- destructure `h : Inv ⟨n, sh, pcs, apcs⟩`; expects `hlt : t < n`, `hpc : pcs t = …`, and the variable `aa` -/
macro "bdestr" tt:term : tactic => `(tactic|
  (have psetA := h.psetA; have waitA := h.waitA; have psetB := h.psetB; have hbT := h.hbT; have refR := h.refR; have psU := h.psU; have dT := h.dT; have pidxA := h.pidxA; have anh := anh_of (pcs 0); have dEf := dEf_of (pcs 0); have unl := unl_of (pcs (sh.a.own (sh.a.res - 1)))
   obtain ⟨{names}⟩ := h
   have A_hl := ainv.hl; have A_lr := ainv.lr; have A_lc := ainv.lc; have A_helped := ainv.helped
   have A_rdy := fun i hi => (ainv.rdy i hi).1
   have hA' := ainv_adv n sh.a apcs $tt aa hlt ainv
   have hsim := sim $tt
   simp only at {allh}
   simp only [clo] at nbv cl1 cl2 cl3 pset lnk
   rw [hpc] at hsim; simp only [proj, eq_self, Bool.false_eq_true, ↓reduceIte] at hsim; rw [hsim] at hA'; rw [hsim]))

set_option hygiene false in
/-- split `hts : tstepC … = some (sh', pc', aa)` into the branches of the concrete step -/
macro "bbranches" : tactic => `(tactic|
  ((repeat' split at hts) <;> (try contradiction) <;> simp only [Option.some.injEq, Prod.mk.injEq] at hts <;>
   obtain ⟨rfl, rfl, rfl⟩ := hts))

/-- normalise a goal of `bfin` -/
macro "bsimp" : tactic => `(tactic| simp only [{SIMPX}])

/-- clear all hypotheses introduced by `bdestr` -/
macro "bclearAll" : tactic => `(tactic| clearIf {ALLS})

set_option hygiene false in
/-- one goal per clause of `Inv` -/
macro "bfin" tt:term : tactic => `(tactic|
  (constructor
{chr(10).join(case(f) for f in FIELDS)}))

set_option hygiene false in
/-- the same after `constructor`, when the caller has already closed the cases `rdyR` and `valR` -/
macro "bfinNoSlot" tt:term : tactic => `(tactic|
  (skip
{chr(10).join(case(f) for f in FIELDS if f not in ('rdyR','valR'))}))

end MayVerif.Mpsc
"""
open(os.path.join(os.path.dirname(os.path.dirname(os.path.abspath(__file__))), 'Tac.lean'),'w').write(src)
