import os
import sys; sys.path.insert(0,os.path.dirname(os.path.abspath(__file__)))
from gen_p import write
def ind(s,n=2): return ''.join(' '*n+l+'\n' for l in s.rstrip('\n').split('\n'))
PRE0='''have ht0 : t = 0 := h.cons0 t (by show isCons0 (pcs t) = true; rw [hpc]; rfl)
subst ht0
have hcr : sh.created = true := h.crt 0 (by show pcs 0 ≠ .idle; rw [hpc]; simp) (by show isNew (pcs 0) = false; rw [hpc]; rfl)
bdestr 0
bspecC
bspec0
'''
def C(script, wrap=None):
    """consumer pc: actor 0"""
    body=PRE0+script
    if wrap: return ind(wrap+' <;>\n(\n'+ind(body)+')')
    return ind(body)
def P(script):
    """producer pc: any actor; `{T}` = the actor term"""
    b0='''subst ht0
have hcr : sh.created = true := h.crt 0 (by show pcs 0 ≠ .idle; rw [hpc]; simp) (by show isNew (pcs 0) = false; rw [hpc]; rfl)
bdestr 0
bspecC
bspec0
'''+script.replace('{T}','0')
    b1='''have hcr : sh.created = true := h.crt t (by show pcs t ≠ .idle; rw [hpc]; simp) (by show isNew (pcs t) = false; rw [hpc]; rfl)
bdestr t
bspecC
bnonzero
'''+script.replace('{T}','t')
    return ind('by_cases ht0 : t = 0\n· '+ind(b0).lstrip()+'· '+ind(b1).lstrip())
STUT='''simp only [tstepC, retire, after, touch, alloc, free] at hts
bbranches <;> simp only [advA] at hA' ⊢ <;> bfin {T}
'''
B={}
for c in 'nRet oBlk oIdx bIdx bBlk kIdx kBlk lIdx dHead dTail dNext dFree1 dFree2 dFree3'.split():
    B[c]=C(STUT.replace('{T}','0'))
for c in 'rFree rNext rHead'.split():
    B[c]=C(STUT.replace('{T}','0'), wrap='obtain ⟨_ | _, v⟩ | acc := k')
B['oStore']=C('have hx1 := in_blk sh.B sh.headBlk sh.headIdx hb1.1 hb2\n'+STUT.replace('{T}','0'), wrap='cases d')
B['bStore']=C('have hx1 := end_blk sh.B sh.headBlk sh.a.head (by grind) (by grind)\n'+STUT.replace('{T}','0'))
for c in 'pAlloc pWait pLink'.split(): B[c]=P(STUT)
ASTEP='''simp only [tstepC] at hts
bbranches
simp only [advA, MpscA.tstep] at hA' ⊢
bfin {T}
'''
for c in 'ret pLoad pTail'.split(): B[c]=P(ASTEP)
TAILRD='''simp only [tstepC, pidx, touch, eq_self, Bool.false_eq_true, ↓reduceIte] at hts
simp only [pidxA] at hts
'''
B['lTail']=C(TAILRD+'''bbranches <;> simp only [advA, MpscA.tstep] at hA' ⊢ <;> bfin 0
''')
GUARD='''bbranches <;> rename_i hg <;> rw [hd] at hg <;>
  simp only [advA, MpscA.tstep, hg, ↓reduceIte] at hA' ⊢ <;> bfin 0
'''
B['kTail']=C(TAILRD+GUARD)
B['oTail']=C(TAILRD+GUARD, wrap='cases d')

# ---- ready reads ----
RD_PI='''have hx1 := in_blk sh.B sh.headBlk sh.headIdx hb1.1 hb2
have hx5 : sh.headBlk * sh.B + sh.headIdx % sh.B = sh.a.head := by omega
have hx2 := rdyR sh.headBlk (sh.headIdx % sh.B) hx1.2.1
have hx3 := valR sh.headBlk (sh.headIdx % sh.B) hx1.2.1
rw [hx5] at hx2 hx3
rw [hx2] at hx3
simp only [tstepC, touch, eq_self, Bool.false_eq_true, ↓reduceIte] at hts
simp only [hx2] at hts
by_cases hg1 : sh.a.ready sh.a.head = true <;>
(
  simp only [hg1, ↓reduceIte] at hts
  bbranches
  simp only [advA, MpscA.tstep, hg1, eq_self, Bool.false_eq_true, ↓reduceIte] at hA' ⊢
  bfin 0
)
'''
B['oTry']=C(RD_PI, wrap='cases d')
B['oSpin']=C(RD_PI, wrap='cases d')
B['kSpin']=C(RD_PI)
def FIN(hs): return f'''(
  simp only [{hs}, ↓reduceIte] at hts
  bbranches
  simp only [advA, MpscA.tstep, {hs}, aB, eq_self, Bool.false_eq_true, ↓reduceIte] at hA' ⊢
  bfin 0
)
'''
RD_CI=lambda lt: f'''have hx1 := in_blk sh.B sh.headBlk sh.a.head (by omega) {lt}
have hx2 := rdyR sh.headBlk (sh.a.head % sh.B) hx1.2.1
have hx3 := valR sh.headBlk (sh.a.head % sh.B) hx1.2.1
rw [← hx1.2.2.1] at hx2 hx3
rw [hx2] at hx3
have hx4 := List.isEmpty_iff_length_eq_zero (l := acc)
simp only [tstepC, touch] at hts
try simp only [hx2] at hts
'''
B['bFast']=C(RD_CI('lFast')+'''by_cases hg1 : sh.a.ready sh.a.head = true
· by_cases hg2 : (sh.a.head + 1) % sh.B = 0 <;>
'''+ind(FIN('hg1, hg2'))+'''· by_cases hg2 : acc.isEmpty = true <;>
'''+ind(FIN('hg1, hg2')))
B['bCopy']=C(RD_CI('(by omega)')+'''by_cases hg1 : sh.a.ready sh.a.head = true
· by_cases hg2 : sh.a.head + 1 ≥ ce <;>
'''+ind(FIN('hg1, hg2'))+'''· '''+ind(FIN('hg1')).lstrip())
B['bTail']=C('''have hx1 := in_blk sh.B sh.headBlk sh.headIdx hb1.1 hb2
rw [hd] at hx1 hb1 hb2
have hx6 : min (MpscA.pushIndex sh.a) ((sh.headBlk + 1) * sh.B) ≤ (sh.headBlk + 1) * sh.B := Nat.min_le_right _ _
have hx7 : ¬ sh.a.head ≥ MpscA.pushIndex sh.a → sh.a.head < min (MpscA.pushIndex sh.a) ((sh.headBlk + 1) * sh.B) :=
  fun hh => Nat.lt_min.mpr ⟨by omega, hb2⟩
simp only [tstepC, pidx, touch] at hts
simp only [pidxA, hd, hx1.1] at hts
by_cases hg1 : sh.a.head ≥ MpscA.pushIndex sh.a <;>
'''+FIN('hg1, hx1.1'))


# ---- Queue::new ----
NEWPH='''have ht0 : t = 0 := h.cons0 t (by show isCons0 (pcs t) = true; rw [hpc]; rfl)
subst ht0
have hcr : sh.created = false := h.newc (by show isNew (pcs 0) = true; rw [hpc]; rfl)
bdestr 0
bspecC
bspec0
simp only [tstepC, alloc, touch] at hts
bbranches
simp only [advA] at hA' ⊢
bfin 0
'''
for c in 'nAlloc0 nAlloc1 nLink'.split(): B[c]=ind(NEWPH)

# ---- pSet ----
B['pSet']=P('''have hp := pset {T} v b i (by rw [hpc]; rfl)
have hpa := psetA {T} v b i (by rw [hpc]; rfl)
have hpsv := psv {T} v b i hpc
have hpb := psetB {T} v b i (by rw [hpc]; rfl)
have hcb : i + 1 = sh.B → b = sh.tail.blk :=
  fun hh => (cl3 v b i (hp.2.2 hh).1 (by rw [← (hp.2.2 hh).2, hpc]; rfl)).2
have hc3 : sh.a.closing = true → sh.a.own (sh.a.res - 1) = {T} → i + 1 = sh.B :=
  fun hc ht => (cl3 v b i hc (by rw [ht, hpc]; rfl)).1
have hgeo := geo b hp.1
have hx1 := succ_mod_blk sh.B b i hp.2.1
rw [hgeo] at hA' ⊢
simp only [tstepC, touch] at hts
by_cases hg1 : i + 1 = sh.B <;>
(
  simp only [hg1, ↓reduceIte] at hts
  bbranches
  simp only [advA, MpscA.tstep, aB, hx1, hg1, ↓reduceIte] at hA' ⊢
  constructor
  case rdyR =>
    bsimp
    intro b' i' hi'
    have hinj := pair_inj sh.B b' i' b i hi' hp.2.1
    have hold := rdyR b' i' hi'
    bclearAll
    simp only [upd2, upd]
    grind
  case valR =>
    bsimp
    intro b' i' hi'
    have hinj := pair_inj sh.B b' i' b i hi' hp.2.1
    have hold := valR b' i' hi'
    bclearAll
    simp only [upd2, upd]
    grind
  bfinNoSlot {T}
)
''')

# ---- idle ----
IDLE0=lambda extra='': '''obtain ⟨hal, ht0⟩ := hg
subst ht0
have hcr : sh.created = true := h.alc hal
bdestr 0
bspecC
bspec0
'''+extra+'''simp only [Option.some.injEq, Prod.mk.injEq] at hts
obtain ⟨rfl, rfl, rfl⟩ := hts
simp only [advA, MpscA.tstep, eq_self, ↓reduceIte] at hA' ⊢
bfin 0
'''
def casei(name, script): return 'case '+name+' =>\n  split at hts <;> (try contradiction)\n  rename_i hg\n'+ind(script)
idle='cases e <;> simp only [tstepC] at hts\ncase go => contradiction\ncase aba => contradiction\n'
idle+=casei('new','''have hg' : sh.created = false ∧ t = 0 := by
  cases hc : sh.created <;> simp_all
obtain ⟨hcr, ht0⟩ := hg'
subst ht0
bdestr 0
bspecC
bspec0
simp only [Option.some.injEq, Prod.mk.injEq] at hts
obtain ⟨rfl, rfl, rfl⟩ := hts
simp only [advA] at hA' ⊢
bfin 0
''')
push_s='''simp only [Option.some.injEq, Prod.mk.injEq] at hts
obtain ⟨rfl, rfl, rfl⟩ := hts
simp only [advA, MpscA.tstep] at hA' ⊢
bfin {T}
'''
idle+='case push v =>\n  split at hts <;> (try contradiction)\n  rename_i hg\n'+ind('''by_cases ht0 : t = 0
· subst ht0
  have hcr : sh.created = true := h.alc hg
  bdestr 0
  bspecC
  bspec0
'''+ind(push_s.replace('{T}','0'))+'''· have hcr : sh.created = true := h.alc hg
  bdestr t
  bspecC
  bnonzero
'''+ind(push_s.replace('{T}','t')))
for nm in 'pop bulk peek len isEmpty'.split():
    idle+=casei(nm, IDLE0())
idle+=casei('drop', IDLE0("have hx1 := quiet_idle ⟨n, sh, pcs, apcs⟩ 0 (hq rfl)\nsimp only at hx1\n"))
B['idle']=ind(idle)


# ---- pCas ----
SUCC='''-- the level-A CAS succeeds on slot `a.res`; `htc : sh.tail.closing = false`
have hcl : sh.a.closing = false := by rw [← tw.2.2.1]; exact htc
have hres : sh.tail.blk * sh.B + sh.tail.idx = sh.a.res := by
  have := tw.1; simp only [htc, Bool.false_eq_true, ↓reduceIte] at this; omega
have hx1 := succ_mod_blk sh.B sh.tail.blk sh.tail.idx tw.2.1
by_cases hg3 : sh.tail.idx + 1 < sh.B
· have hg4 : ¬ (sh.a.res + 1) % sh.a.B = 0 := by rw [aB, ← hres, hx1]; omega
  simp only [nextWord, hg3, ↓reduceIte] at hts
  bbranches
  simp only [advA, MpscA.tstep, if_pos hgA, hcl, hres, hA1, hA2, hg4, eq_self, and_self, or_true, true_or, true_and, and_true, ↓reduceIte] at hA' ⊢
  bfin {T}
· have hg4 : (sh.a.res + 1) % sh.a.B = 0 := by rw [aB, ← hres, hx1]; omega
  simp only [nextWord, hg3, ↓reduceIte] at hts
  bbranches
  simp only [advA, MpscA.tstep, if_pos hgA, hcl, hres, hA1, hA2, hg4, eq_self, and_self, or_true, true_or, true_and, and_true, ↓reduceIte] at hA' ⊢
  bfin {T}
'''
B['pCas']=P('''have hp := pcas {T} v w hpc
have hgeo := geo w.blk hp.1
rw [hgeo] at hA' ⊢
simp only [tstepC] at hts
by_cases hg1 : sh.tail = w
· subst hg1
  have htc := hp.2.2
  simp only [↓reduceIte] at hts
  have hA1 := hp.2.2
  have hA2 := hp.2.2
  have hgA : sh.a.closing = false ∧ (sh.tail.blk * sh.B + sh.tail.idx = sh.a.res ∨
      (MpscA.Env.go = MpscA.Env.aba ∧ sh.tail.blk * sh.B + sh.tail.idx < sh.a.res ∧
        (sh.tail.blk * sh.B + sh.tail.idx) % sh.a.B = sh.a.res % sh.a.B)) := by
    refine ⟨by rw [← tw.2.2.1]; exact htc, Or.inl ?_⟩
    have := tw.1; simp only [htc, Bool.false_eq_true, ↓reduceIte] at this; omega
'''+ind(SUCC)+'''· by_cases hg2 : e = .aba ∧ sh.live w.blk = false ∧ w.idx = sh.tail.idx ∧ sh.tail.closing = false ∧ sh.start w.blk < sh.start sh.tail.blk
  · simp only [hg1, hg2, and_self, ↓reduceIte] at hts
    have htc := hg2.2.2.2.1
    have hgeoT := geo sh.tail.blk (by omega)
    have hr := tw.1; simp only [htc, Bool.false_eq_true, ↓reduceIte] at hr
    have hlt := hg2.2.2.2.2
    rw [hgeo, hgeoT] at hlt
    have hA1 : w.blk * sh.B + w.idx < sh.a.res := by omega
    have hA2 : (w.blk * sh.B + w.idx) % sh.a.B = sh.a.res % sh.a.B := by
      rw [aB, hr, Nat.add_zero, mod_blk _ _ _ hp.2.1, mod_blk _ _ _ tw.2.1]
      exact hg2.2.2.1
    have hgA := hA1
'''+ind(SUCC,4)+'''  · simp only [hg1, hg2, ↓reduceIte] at hts
    have hgA : ¬ (sh.a.closing = false ∧ (w.blk * sh.B + w.idx = sh.a.res ∨
        (MpscA.Env.go = MpscA.Env.aba ∧ w.blk * sh.B + w.idx < sh.a.res ∧
          (w.blk * sh.B + w.idx) % sh.a.B = sh.a.res % sh.a.B))) := by
      rintro ⟨hc, hor⟩
      rcases hor with h1 | ⟨h2, _⟩
      · have htc : sh.tail.closing = false := by rw [tw.2.2.1]; exact hc
        have hr := tw.1; simp only [htc, Bool.false_eq_true, ↓reduceIte] at hr
        have := pair_inj sh.B w.blk w.idx sh.tail.blk sh.tail.idx hp.2.1 tw.2.1 (by omega)
        exact hg1 (word_eq _ _ this.1.symm this.2.symm (by rw [htc, hp.2.2]))
      · cases h2
    bbranches
    simp only [advA, MpscA.tstep, if_neg hgA] at hA' ⊢
    bfin {T}
''')


# ---- model change: slot accesses are steps of their own ----
B['pWrite']=P('''have hp := pset {T} v b i (by rw [hpc]; rfl)
have hpa := psetA {T} v b i (by rw [hpc]; rfl)
have hx1 := rdyR b i hp.2.1
have hps : ∀ u v1 b1 i1, wrSlot (upd pcs {T} (.pSet v b i) u) = some (v1, b1, i1) → wrSlot (pcs u) = some (v1, b1, i1) := by
  intro u v1 b1 i1 hh
  simp only [upd] at hh
  split at hh
  · next hu => rw [hu, hpc]; exact hh
  · exact hh
have hU : ∀ u v', pcs u = .pSet v' b i → u = {T} :=
  fun u v' hu => psU u {T} v' v b i (by rw [hu]; rfl) (by rw [hpc]; rfl)
have hpb := psetB {T} v b i (by rw [hpc]; rfl)
have hcb : i + 1 = sh.B → b = sh.tail.blk :=
  fun hh => (cl3 v b i (hp.2.2 hh).1 (by rw [← (hp.2.2 hh).2, hpc]; rfl)).2
have hc3 : sh.a.closing = true → sh.a.own (sh.a.res - 1) = {T} → i + 1 = sh.B :=
  fun hc ht => (cl3 v b i hc (by rw [ht, hpc]; rfl)).1
simp only [tstepC, touch] at hts
bbranches
simp only [advA] at hA' ⊢
bfin {T}
''')
RD_PI_HEAD='''have hx1 := in_blk sh.B sh.headBlk sh.headIdx hb1.1 hb2
have hx5 : sh.headBlk * sh.B + sh.headIdx % sh.B = sh.a.head := by omega
have hx2 := rdyR sh.headBlk (sh.headIdx % sh.B) hx1.2.1
have hx3 := valR sh.headBlk (sh.headIdx % sh.B) hx1.2.1
rw [hx5] at hx2 hx3
rw [hx2] at hx3
have hx3 := hx3 lRd
simp only [tstepC, touch] at hts
bbranches
simp only [advA, MpscA.tstep, lRd, eq_self, Bool.false_eq_true, ↓reduceIte] at hA' ⊢
bfin 0
'''
B['oRead']=C(RD_PI_HEAD, wrap='cases d <;> cases sp')
B['kRead']=C(RD_PI_HEAD)
B['bFast']=C(RD_CI('lFast')+'''by_cases hg1 : sh.a.ready sh.a.head = true
· '''+ind(FIN('hg1')).lstrip()+'''· by_cases hg2 : acc.isEmpty = true <;>
'''+ind(FIN('hg1, hg2')))
B['bFastRd']=C(RD_CI('lFast')+'''have hx3 := hx3 lRd
by_cases hg2 : (sh.a.head + 1) % sh.B = 0 <;>
'''+FIN('lRd, hg2'))
B['bCopy']=C(RD_CI('(by omega)')+'''by_cases hg1 : sh.a.ready sh.a.head = true <;>
'''+FIN('hg1'))
B['bCopyRd']=C(RD_CI('(by omega)')+'''have hx3 := hx3 lRd
by_cases hg2 : sh.a.head + 1 ≥ ce <;>
'''+FIN('lRd, hg2'))

if __name__=='__main__':
    which=sys.argv[1:] or list(B)
    for c in which: write(c,B[c])
