/-
  Invariant of the level-B spsc queue model (`Model/Queue/Spsc.lean`): the ghost block chain
  `chain fk … chain (te-1)` is exactly the set of live blocks, `first / last_head / head.block / tail.block` are its
  blocks number `fk ≤ lk ≤ hk ≤ tk`, the `next` links follow the chain, the payloads of the blocks from `hk` on are the
  level-A payloads, the locals of the two roles are what they were read from, and the level-A ghost state satisfies
  `SpscA.Inv` and is tracked without `simBad`.
-/
import MayVerif.Proof.Queue.SpscA.Step
import MayVerif.Proof.Queue.Spsc.Arith
namespace MayVerif.Spsc
open MayVerif.MpscA (upd Ret)
open MayVerif.Mpsc (upd2)

/-- a new tail block is in flight (recycled / allocated, `tail.block` not yet stored) -/
def lf : PPc → Nat | .pLink .. | .pSetBlk .. => 1 | _ => 0
/-- `tail.block` is already the block of slot `tail.index + 1` -/
def pubf : PPc → Nat | .pPub .. => 1 | _ => 0
/-- slot `tail.index` is written -/
def wf : PPc → Nat | .idle | .pBlk _ | .pIdx .. | .pWr .. | .pRet => 0 | _ => 1
/-- the index `head.block` is the block of -/
def hnext : CPc → Nat → Nat | .oStore hi _, _ => hi + 1 | .bStore _ e _, _ => e | _, h => h
/-- Drop, up to its read of `first` -/
def dbulk : CPc → Bool
  | .bIdx d | .bTail d _ | .bBlk d .. | .bRd d .. | .bNext d .. | .bSetBlk d .. | .bStore d .. => d
  | .dHead | .dTail _ | .dFirst _ => true
  | _ => false
/-- Drop frees the blocks -/
def dwalk : CPc → Bool | .dNext .. | .dFree .. | .dFreeH _ => true | _ => false

def plOk (s : Sh) (l : PL) : Prop := l.tb = s.tailBlk ∧ l.pi = s.tailIdx ∧ (l.pi + 1) % s.B = 0

/-- the producer's locals -/
def PLoc (s : Sh) : PPc → Prop
  | .idle | .pBlk _ | .pRet => True
  | .pIdx _ tb => tb = s.tailBlk
  | .pWr _ tb pi => tb = s.tailBlk ∧ pi = s.tailIdx
  | .aFirst l | .aAlloc l => plOk s l
  | .aLast l f | .aHead l f => plOk s l ∧ f = s.first
  | .aNext l f => plOk s l ∧ f = s.first ∧ s.fk < s.lk
  | .aSetFirst l f nx => plOk s l ∧ f = s.first ∧ s.fk < s.lk ∧ nx = s.chain (s.fk + 1)
  | .aSetLast l f hb => plOk s l ∧ f = s.first ∧ s.lk ≤ s.num hb ∧ s.num hb ≤ s.hk ∧ s.chain (s.num hb) = hb
  | .pLink l nt => plOk s l ∧ nt = s.chain (s.tk + 1)
  | .pSetBlk l nt => plOk s l ∧ nt = s.chain (s.tk + 1) ∧ s.next (s.chain s.tk) = some nt
  | .pPub _ pi => pi = s.tailIdx

/-- the consumer's locals -/
def CLoc (s : Sh) : CPc → Prop
  | .oTail hi | .oBlk hi | .kTail hi | .kBlk hi | .lTail _ hi | .bTail _ hi | .oStore hi _ => hi = s.headIdx
  | .oNext hb hi _ => hb = s.headBlk ∧ hi = s.headIdx ∧ (hi + 1) % s.B = 0 ∧ s.hk < s.tk
  | .oSetBlk nh hi _ => hi = s.headIdx ∧ (hi + 1) % s.B = 0 ∧ s.hk < s.tk ∧ nh = s.chain (s.hk + 1)
  | .oRd hb hi | .kRd hb hi => hb = s.headBlk ∧ hi = s.headIdx
  | .bBlk _ hi e => hi = s.headIdx ∧ e ≤ (hi / s.B + 1) * s.B
  | .bRd _ hb ci e acc => hb = s.headBlk ∧ s.headIdx ≤ ci ∧ ci < e ∧ e ≤ s.a.tail ∧ e ≤ (s.headIdx / s.B + 1) * s.B ∧
      acc = SpscA.slots s.a s.headIdx (ci - s.headIdx)
  | .bNext _ hb e _ => hb = s.headBlk ∧ s.hk < s.tk ∧ e / s.B = s.hk + 1
  | .bSetBlk _ nh e _ => s.hk < s.tk ∧ e / s.B = s.hk + 1 ∧ nh = s.chain (s.hk + 1)
  | .dHead => s.hk = s.tk
  | .dTail hb => s.hk = s.tk ∧ hb = s.chain s.tk
  | .dFirst hb => hb = s.chain s.tk
  | .dNext f tb => f = s.chain s.fk ∧ s.fk < s.tk ∧ tb = s.chain s.tk
  | .dFree f nx tb => f = s.chain s.fk ∧ s.fk < s.tk ∧ nx = s.chain (s.fk + 1) ∧ tb = s.chain s.tk
  | .dFreeH hb => hb = s.chain s.tk ∧ s.fk = s.tk
  | _ => True

structure Inv (s : St) : Prop where
  -- the level-A ghost state
  ainv : SpscA.Inv ⟨s.sh.a, s.app, s.acp⟩
  projp : s.app = projP s.pp
  projc : s.acp = projC s.cp
  aB : s.sh.a.B = s.sh.B
  atail : s.sh.a.tail = s.sh.tailIdx
  ahead : s.sh.a.head = s.sh.headIdx
  bpos : 0 < s.sh.B
  noUaf : s.sh.uaf = false
  noDfree : s.sh.dfree = false
  noPanic : s.sh.panic = false
  noSimBad : s.sh.simBad = false
  -- life cycle
  ph_le : s.sh.ph ≤ 3
  ph0 : s.sh.ph = 0 → s.sh.created = false ∧ s.sh.alive = false ∧ s.sh.te = 0 ∧ s.sh.tailIdx = 0 ∧ s.sh.headIdx = 0 ∧
          (s.cp = .idle ∨ s.cp = .nAlloc)
  cr0 : s.sh.created = false → s.sh.ph = 0
  na0 : s.cp = .nAlloc → s.sh.ph = 0
  al1 : s.sh.alive = true → s.sh.ph = 1
  pal : s.pp ≠ .idle → s.sh.alive = true
  db : dbulk s.cp = true → s.sh.alive = false ∧ s.sh.ph = 1
  nal : s.sh.ph = 1 → s.sh.alive = false → dbulk s.cp = true
  dw : dwalk s.cp = true → s.sh.ph = 2
  wd : s.sh.ph = 2 → dwalk s.cp = true
  ph3 : s.sh.ph = 3 → s.sh.alive = false ∧ (s.cp = .idle ∨ s.cp = .ret .unit) ∧ s.sh.te ≤ s.sh.fk
  -- the block chain
  hk_tk : s.sh.hk ≤ s.sh.tk
  fk_lk : s.sh.ph ≤ 1 → s.sh.fk ≤ s.sh.lk
  lk_hk : s.sh.ph ≤ 1 → s.sh.lk ≤ s.sh.hk
  te_def : 0 < s.sh.ph → s.sh.ph < 3 → s.sh.te = s.sh.tk + 1 + lf s.pp
  tk_def : s.sh.tk = (s.sh.tailIdx + pubf s.pp) / s.sh.B
  hk_def : s.sh.hk = hnext s.cp s.sh.headIdx / s.sh.B
  p_first : s.sh.ph ≤ 1 → s.sh.first = s.sh.chain s.sh.fk
  p_last : s.sh.ph ≤ 1 → s.sh.lastHead = s.sh.chain s.sh.lk
  p_head : s.sh.headBlk = s.sh.chain s.sh.hk
  p_tail : s.sh.tailBlk = s.sh.chain s.sh.tk
  ch_live : ∀ (k : Nat), s.sh.fk ≤ k → k < s.sh.te → s.sh.live (s.sh.chain k) = true
  ch_num : ∀ (k : Nat), s.sh.fk ≤ k → k < s.sh.te → s.sh.num (s.sh.chain k) = k
  live_ch : ∀ (b : Bid), s.sh.live b = true → s.sh.fk ≤ s.sh.num b ∧ s.sh.num b < s.sh.te ∧ s.sh.chain (s.sh.num b) = b
  live_nb : ∀ (b : Bid), s.sh.live b = true → b < s.sh.nb
  links : ∀ (k : Nat), s.sh.fk ≤ k → k < s.sh.tk → s.sh.next (s.sh.chain k) = some (s.sh.chain (k + 1))
  pay : ∀ (i : Nat), s.sh.headIdx ≤ i → s.sh.hk ≤ i / s.sh.B → i < s.sh.tailIdx + wf s.pp →
          s.sh.val (s.sh.chain (i / s.sh.B)) (i % s.sh.B) = s.sh.a.val i
  -- locals
  ploc : PLoc s.sh s.pp
  cloc : CLoc s.sh s.cp

theorem inv_init (B : Nat) (hB : 0 < B) : Inv (init B) := by
  constructor <;>
    simp [init, initSh, hB, projP, projC, dbulk, dwalk, lf, pubf, wf, hnext, PLoc, CLoc, SpscA.initSh]
  exact SpscA.inv_init B hB

/-! frame lemmas: a step of one role keeps the locals of the other role -/

/-- consumer steps: the producer's fields are unchanged, `hk` only grows -/
theorem PLoc_frame (s s' : Sh) (pp : PPc) (h : PLoc s pp)
    (e1 : s'.tailBlk = s.tailBlk) (e2 : s'.tailIdx = s.tailIdx) (e3 : s'.B = s.B) (e4 : s'.first = s.first)
    (e5 : s'.fk = s.fk) (e6 : s'.lk = s.lk) (e7 : s'.tk = s.tk) (e8 : s'.chain = s.chain) (e9 : s'.num = s.num)
    (e10 : s'.next = s.next) (hk : s.hk ≤ s'.hk) : PLoc s' pp := by
  cases pp <;> simp only [PLoc, plOk] at h ⊢ <;> simp only [e1, e2, e3, e4, e5, e6, e7, e8, e9, e10] <;>
    first | exact h | omega

/-- producer steps (they need `alive`, so the consumer is not in Drop): the consumer's fields are unchanged, `tk` only
    grows, the chain is unchanged up to `tk`, the level-A payloads below `a.tail` are unchanged -/
theorem CLoc_frame (s s' : Sh) (cp : CPc) (h : CLoc s cp) (h1 : dbulk cp = false) (h2 : dwalk cp = false)
    (e1 : s'.headBlk = s.headBlk) (e2 : s'.headIdx = s.headIdx) (e3 : s'.B = s.B) (e4 : s'.hk = s.hk)
    (tk : s.tk ≤ s'.tk) (ch : ∀ k, k ≤ s.tk → s'.chain k = s.chain k) (tl : s.a.tail ≤ s'.a.tail)
    (ea : ∀ n, s.headIdx + n ≤ s.a.tail → SpscA.slots s'.a s.headIdx n = SpscA.slots s.a s.headIdx n) : CLoc s' cp := by
  cases cp <;> simp only [CLoc] at h ⊢ <;> simp only [dbulk, dwalk] at h1 h2 <;>
    (try simp only [e1, e2, e3, e4]) <;> first | exact h | contradiction | skip
  next hb hi v => exact ⟨h.1, h.2.1, h.2.2.1, by omega⟩
  next nh hi v => exact ⟨h.1, h.2.1, by omega, by rw [ch _ (by omega)]; exact h.2.2.2⟩
  next d hb ci e acc =>
    obtain ⟨h1, h2, h3, h4, h5, h6⟩ := h
    exact ⟨h1, h2, h3, by omega, h5, by rw [ea _ (by omega)]; exact h6⟩
  next d hb e vals => exact ⟨h.1, by omega, h.2.2⟩
  next d nh e vals => exact ⟨by omega, h.2.1, by rw [ch _ (by omega)]; exact h.2.2⟩

/-- the level-A slot range grows by one slot -/
theorem slots_succ (a : SpscA.Sh) (i n : Nat) : SpscA.slots a i (n + 1) = SpscA.slots a i n ++ [a.val (i + n)] := by
  simp [SpscA.slots, List.range_succ]

/-! tactics shared by the per-program-point lemmas `P_*.lean` (they refer to the hypothesis names of `destrP/destrC`) -/

set_option hygiene false in
/-- destructure `h : Inv ⟨sh, pp, cp, app, acp⟩` for a producer step (`pp` is a constructor application) -/
macro "destrP" : tactic => `(tactic|
  (obtain ⟨ainv, projp, projc, aB, atail, ahead, bpos, nuaf, ndfree, npanic, nsim, ph_le, ph0, cr0, na0, al1, pal, db, nal,
     dw, wd, ph3, hk_tk, fk_lk, lk_hk, te_def, tk_def, hk_def, p_first, p_last, p_head, p_tail, ch_live, ch_num, live_ch,
     live_nb, links, pay, ploc, cloc⟩ := h
   simp only [lf, pubf, wf, PLoc, plOk, projP, ne_eq, reduceCtorEq, not_false_eq_true,
     not_true_eq_false, forall_const, false_implies, Bool.false_eq_true, Nat.add_zero] at *))

set_option hygiene false in
/-- the same for a consumer step (`cp` is a constructor application) -/
macro "destrC" : tactic => `(tactic|
  (obtain ⟨ainv, projp, projc, aB, atail, ahead, bpos, nuaf, ndfree, npanic, nsim, ph_le, ph0, cr0, na0, al1, pal, db, nal,
     dw, wd, ph3, hk_tk, fk_lk, lk_hk, te_def, tk_def, hk_def, p_first, p_last, p_head, p_tail, ch_live, ch_num, live_ch,
     live_nb, links, pay, ploc, cloc⟩ := h
   simp only [hnext, dbulk, dwalk, CLoc, projC, ne_eq, reduceCtorEq, not_false_eq_true, or_false, false_or, or_true, true_or,
     not_true_eq_false, forall_const, false_implies, Bool.false_eq_true, Nat.add_zero] at *))

set_option hygiene false in
/-- one goal per clause of the new state (producer step) -/
macro "splitP" : tactic => `(tactic|
  (constructor <;> simp only [lf, pubf, wf, PLoc, plOk, projP, bne_self_eq_false, Bool.or_false, Bool.not_true, Nat.add_zero]))

set_option hygiene false in
macro "splitC" : tactic => `(tactic|
  (constructor <;> simp only [hnext, dbulk, dwalk, CLoc, projC, SpscA.noneLP, bne_self_eq_false, Bool.or_false, Bool.not_true, Nat.add_zero]))

set_option hygiene false in
/-- the consumer's locals are not disturbed by a producer step -/
macro "frameC" : tactic => `(tactic|
  (exact CLoc_frame _ _ _ cloc (by grind) (by grind) rfl rfl rfl rfl (by simp only []; omega)
     (by intro k hk; first | rfl | (simp only [upd]; split <;> first | omega | rfl)) (by simp only []; omega)
     (by intro n hn; first | rfl | exact SpscA.slots_upd _ _ _ _ _ hn)))

set_option hygiene false in
/-- the producer's locals are not disturbed by a consumer step -/
macro "frameP" : tactic => `(tactic|
  (exact PLoc_frame _ _ _ ploc rfl rfl rfl rfl rfl rfl rfl rfl rfl rfl (by simp only []; omega)))

set_option hygiene false in
/-- common opening of a consumer step at a pc other than `idle`: the level-A facts, the `Drop` guard, `cstepC` -/
macro "openC" : tactic => `(tactic|
  (destrC
   have aht := ainv.head_le_tail
   simp only [] at aht
   simp only [step] at hs
   split at hs
   · contradiction
   simp only [cstepC, touch] at hs))

set_option hygiene false in
/-- unchanged clauses by `assumption`, the others by `grind`, first without the quantified clauses -/
macro "fin" : tactic => `(tactic|
  (any_goals (first | assumption | (clear ch_live ch_num live_ch live_nb links pay; grind) | grind)))

end MayVerif.Spsc
