/- producer steps: push entry, slot write, publication -/
import MayVerif.Proof.Queue.Spsc.Inv
namespace MayVerif.Spsc
open MayVerif.MpscA (upd Ret)
open MayVerif.Mpsc (upd2)
set_option linter.unusedSimpArgs false

set_option maxHeartbeats 1000000 in
theorem p_pidle (sh : Sh) (cp : CPc) (app : SpscA.PPc) (acp : SpscA.CPc) (e : Env) (s' : St)
    (h : Inv ⟨sh, .idle, cp, app, acp⟩) (hs : step ⟨sh, .idle, cp, app, acp⟩ (.prod e) = some s') : Inv s' := by
  obtain rfl : app = .idle := h.projp
  destrP
  cases e <;> simp only [step, pstepC, reduceCtorEq] at hs
  next v =>
    by_cases hal : sh.alive = true <;> simp only [hal, ↓reduceIte, SpscA.pstep, Option.some.injEq, reduceCtorEq] at hs
    subst hs
    splitP
    case ainv => exact SpscA.p_prod _ _ _ (.push v) ainv _ _ rfl
    case cloc => frameC
    fin

set_option maxHeartbeats 1000000 in
theorem p_pBlk (sh : Sh) (cp : CPc) (app : SpscA.PPc) (acp : SpscA.CPc) (v : Nat) (e : Env) (s' : St)
    (h : Inv ⟨sh, .pBlk v, cp, app, acp⟩) (hs : step ⟨sh, .pBlk v, cp, app, acp⟩ (.prod e) = some s') : Inv s' := by
  obtain rfl : app = .write v := h.projp
  destrP
  simp only [step, pstepC, SpscA.pstep, Option.some.injEq, touch] at hs
  subst hs
  splitP
  case cloc => frameC
  fin

set_option maxHeartbeats 1000000 in
theorem p_pIdx (sh : Sh) (cp : CPc) (app : SpscA.PPc) (acp : SpscA.CPc) (v tb : Nat) (e : Env) (s' : St)
    (h : Inv ⟨sh, .pIdx v tb, cp, app, acp⟩) (hs : step ⟨sh, .pIdx v tb, cp, app, acp⟩ (.prod e) = some s') : Inv s' := by
  obtain rfl : app = .write v := h.projp
  destrP
  simp only [step, pstepC, SpscA.pstep, Option.some.injEq, touch] at hs
  subst hs
  splitP
  case cloc => frameC
  fin

set_option maxHeartbeats 1000000 in
theorem p_pWr (sh : Sh) (cp : CPc) (app : SpscA.PPc) (acp : SpscA.CPc) (v tb pi : Nat) (e : Env) (s' : St)
    (h : Inv ⟨sh, .pWr v tb pi, cp, app, acp⟩) (hs : step ⟨sh, .pWr v tb pi, cp, app, acp⟩ (.prod e) = some s') : Inv s' := by
  obtain rfl : app = .write v := h.projp
  destrP
  obtain ⟨rfl, rfl⟩ := ploc
  simp only [step, pstepC, SpscA.pstep, Option.some.injEq, touch] at hs
  subst hs
  have al := al1 pal
  by_cases hc : (sh.tailIdx + 1) % sh.B = 0 <;> simp only [hc, ↓reduceIte]
  · splitP
    case ainv => exact SpscA.p_prod _ _ _ .go ainv _ _ rfl
    case cloc => frameC
    case pay =>
      intro i h1 h2 h3
      have := div_mod_inj i sh.tailIdx sh.B
      have := div_mono i sh.tailIdx sh.B
      clear live_ch live_nb links ch_live
      grind
    fin
  · have := div_succ_of_not_mod sh.tailIdx sh.B hc
    splitP
    case ainv => exact SpscA.p_prod _ _ _ .go ainv _ _ rfl
    case cloc => frameC
    case pay =>
      intro i h1 h2 h3
      have := div_mod_inj i sh.tailIdx sh.B
      have := div_mono i sh.tailIdx sh.B
      clear live_ch live_nb links ch_live
      grind
    fin

set_option maxHeartbeats 1000000 in
theorem p_pPub (sh : Sh) (cp : CPc) (app : SpscA.PPc) (acp : SpscA.CPc) (v pi : Nat) (e : Env) (s' : St)
    (h : Inv ⟨sh, .pPub v pi, cp, app, acp⟩) (hs : step ⟨sh, .pPub v pi, cp, app, acp⟩ (.prod e) = some s') : Inv s' := by
  obtain rfl : app = .publish v := h.projp
  destrP
  simp only [step, pstepC, SpscA.pstep, Option.some.injEq, touch] at hs
  subst hs
  have al := al1 pal
  splitP
  case ainv => exact SpscA.p_prod _ _ _ .go ainv _ _ rfl
  case cloc => frameC
  fin

set_option maxHeartbeats 1000000 in
theorem p_pRet (sh : Sh) (cp : CPc) (app : SpscA.PPc) (acp : SpscA.CPc) (e : Env) (s' : St)
    (h : Inv ⟨sh, .pRet, cp, app, acp⟩) (hs : step ⟨sh, .pRet, cp, app, acp⟩ (.prod e) = some s') : Inv s' := by
  obtain rfl : app = .ret := h.projp
  destrP
  simp only [step, pstepC, SpscA.pstep, Option.some.injEq, touch] at hs
  subst hs
  have al := al1 pal
  splitP
  case ainv => exact SpscA.p_prod _ _ _ .go ainv _ _ rfl
  case cloc => frameC
  fin

end MayVerif.Spsc
