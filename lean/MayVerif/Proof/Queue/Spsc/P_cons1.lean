/- consumer steps: call, Queue::new, return, len / is_empty, peek -/
import MayVerif.Proof.Queue.Spsc.Inv
namespace MayVerif.Spsc
open MayVerif.MpscA (upd Ret)
open MayVerif.Mpsc (upd2)
set_option linter.unusedSimpArgs false

set_option maxHeartbeats 1000000 in
theorem c_idle (sh : Sh) (pp : PPc) (app : SpscA.PPc) (acp : SpscA.CPc) (e : Env) (s' : St)
    (h : Inv ⟨sh, pp, .idle, app, acp⟩) (hs : step ⟨sh, pp, .idle, app, acp⟩ (.cons e) = some s') : Inv s' := by
  obtain rfl : acp = .idle := h.projc
  destrC
  simp only [step] at hs
  split at hs
  · contradiction
  next hg =>
  cases e <;> simp only [cstepC, reduceCtorEq] at hs
  case new =>
    by_cases hc : sh.created = true <;> simp only [hc, ↓reduceIte, Option.some.injEq, reduceCtorEq] at hs
    subst hs
    splitC
    case ploc => frameP
    fin
  case drop =>
    simp only [true_and, Classical.not_not] at hg
    subst hg
    by_cases hal : sh.alive = true <;> simp only [hal, ↓reduceIte, SpscA.cstep, Option.some.injEq, reduceCtorEq] at hs
    subst hs
    splitC
    case ainv => exact SpscA.p_cons _ _ _ .drop ainv _ _ rfl
    case ploc => frameP
    fin
  all_goals
    by_cases hal : sh.alive = true <;> simp only [hal, ↓reduceIte, SpscA.cstep, Option.some.injEq, reduceCtorEq] at hs
    subst hs
    splitC
    case ainv => first | exact SpscA.p_cons _ _ _ .pop ainv _ _ rfl | exact SpscA.p_cons _ _ _ .bulk ainv _ _ rfl
                       | exact SpscA.p_cons _ _ _ .peek ainv _ _ rfl | exact SpscA.p_cons _ _ _ .len ainv _ _ rfl
                       | exact SpscA.p_cons _ _ _ .isEmpty ainv _ _ rfl
    case ploc => frameP
    fin

set_option maxHeartbeats 1000000 in
theorem c_nAlloc (sh : Sh) (pp : PPc) (app : SpscA.PPc) (acp : SpscA.CPc) (e : Env) (s' : St)
    (h : Inv ⟨sh, pp, .nAlloc, app, acp⟩) (hs : step ⟨sh, pp, .nAlloc, app, acp⟩ (.cons e) = some s') : Inv s' := by
  obtain rfl : acp = .idle := h.projc
  openC
  simp only [alloc, Option.some.injEq] at hs
  subst hs
  obtain rfl : pp = .idle := by grind
  have := Nat.zero_div sh.B
  have nolive : ∀ b, sh.live b = false := by
    intro b
    cases hb : sh.live b
    · rfl
    · have := live_ch b hb; grind
  clear live_ch live_nb ch_live ch_num
  simp only [lf, pubf, wf, Nat.add_zero] at *
  splitC <;> (try simp only [lf, pubf, wf, PLoc, Nat.add_zero, Nat.zero_add])
  fin

set_option maxHeartbeats 1000000 in
theorem c_nRet (sh : Sh) (pp : PPc) (app : SpscA.PPc) (acp : SpscA.CPc) (e : Env) (s' : St)
    (h : Inv ⟨sh, pp, .nRet, app, acp⟩) (hs : step ⟨sh, pp, .nRet, app, acp⟩ (.cons e) = some s') : Inv s' := by
  obtain rfl : acp = .idle := h.projc
  openC
  simp only [Option.some.injEq] at hs
  subst hs
  splitC
  case ploc => frameP
  fin

set_option maxHeartbeats 1000000 in
theorem c_ret (sh : Sh) (pp : PPc) (app : SpscA.PPc) (acp : SpscA.CPc) (r : Ret) (e : Env) (s' : St)
    (h : Inv ⟨sh, pp, .ret r, app, acp⟩) (hs : step ⟨sh, pp, .ret r, app, acp⟩ (.cons e) = some s') : Inv s' := by
  obtain rfl : acp = .ret r := h.projc
  openC
  simp only [SpscA.cstep, Option.some.injEq] at hs
  subst hs
  splitC
  case ainv => exact SpscA.p_cons _ _ _ .go ainv _ _ rfl
  case ploc => frameP
  fin

set_option maxHeartbeats 1000000 in
theorem c_lHead (sh : Sh) (pp : PPc) (app : SpscA.PPc) (acp : SpscA.CPc) (b : Bool) (e : Env) (s' : St)
    (h : Inv ⟨sh, pp, .lHead b, app, acp⟩) (hs : step ⟨sh, pp, .lHead b, app, acp⟩ (.cons e) = some s') : Inv s' := by
  obtain rfl : acp = .lLoad b := h.projc
  openC
  simp only [Option.some.injEq] at hs
  subst hs
  splitC
  case ploc => frameP
  fin

set_option maxHeartbeats 1000000 in
theorem c_lTail (sh : Sh) (pp : PPc) (app : SpscA.PPc) (acp : SpscA.CPc) (b : Bool) (hi : Nat) (e : Env) (s' : St)
    (h : Inv ⟨sh, pp, .lTail b hi, app, acp⟩) (hs : step ⟨sh, pp, .lTail b hi, app, acp⟩ (.cons e) = some s') : Inv s' := by
  obtain rfl : acp = .lLoad b := h.projc
  openC
  subst cloc
  simp only [SpscA.cstep, Option.some.injEq] at hs
  subst hs
  splitC
  case ainv => exact SpscA.p_cons _ _ _ .go ainv _ _ rfl
  case ploc => frameP
  fin

set_option maxHeartbeats 1000000 in
theorem c_kIdx (sh : Sh) (pp : PPc) (app : SpscA.PPc) (acp : SpscA.CPc) (e : Env) (s' : St)
    (h : Inv ⟨sh, pp, .kIdx, app, acp⟩) (hs : step ⟨sh, pp, .kIdx, app, acp⟩ (.cons e) = some s') : Inv s' := by
  obtain rfl : acp = .kLoad := h.projc
  openC
  simp only [Option.some.injEq] at hs
  subst hs
  splitC
  case ploc => frameP
  fin

set_option maxHeartbeats 1000000 in
theorem c_kTail (sh : Sh) (pp : PPc) (app : SpscA.PPc) (acp : SpscA.CPc) (hi : Nat) (e : Env) (s' : St)
    (h : Inv ⟨sh, pp, .kTail hi, app, acp⟩) (hs : step ⟨sh, pp, .kTail hi, app, acp⟩ (.cons e) = some s') : Inv s' := by
  obtain rfl : acp = .kLoad := h.projc
  openC
  subst cloc
  by_cases hc : sh.headIdx = sh.tailIdx
  · have hc' : sh.a.head = sh.a.tail := by omega
    simp only [eq_true hc, eq_true hc', ↓reduceIte, SpscA.cstep, Option.some.injEq] at hs
    subst hs
    splitC
    case ainv => exact SpscA.p_cons _ _ _ .go ainv _ _ (by simp only [SpscA.cstep, eq_true hc', ↓reduceIte]; rfl)
    case ploc => frameP
    fin
  · have hc' : ¬ sh.a.head = sh.a.tail := by omega
    simp only [eq_false hc, eq_false hc', ↓reduceIte, SpscA.cstep, Option.some.injEq] at hs
    subst hs
    splitC
    case ainv => exact SpscA.p_cons _ _ _ .go ainv _ _ (by simp only [SpscA.cstep, eq_false hc', ↓reduceIte])
    case ploc => frameP
    fin

set_option maxHeartbeats 1000000 in
theorem c_kBlk (sh : Sh) (pp : PPc) (app : SpscA.PPc) (acp : SpscA.CPc) (hi : Nat) (e : Env) (s' : St)
    (h : Inv ⟨sh, pp, .kBlk hi, app, acp⟩) (hs : step ⟨sh, pp, .kBlk hi, app, acp⟩ (.cons e) = some s') : Inv s' := by
  obtain rfl : acp = .kGet := h.projc
  openC
  simp only [Option.some.injEq] at hs
  subst hs
  splitC
  case ploc => frameP
  fin

set_option maxHeartbeats 1000000 in
theorem c_kRd (sh : Sh) (pp : PPc) (app : SpscA.PPc) (acp : SpscA.CPc) (hb hi : Nat) (e : Env) (s' : St)
    (h : Inv ⟨sh, pp, .kRd hb hi, app, acp⟩) (hs : step ⟨sh, pp, .kRd hb hi, app, acp⟩ (.cons e) = some s') : Inv s' := by
  obtain rfl : acp = .kGet := h.projc
  openC
  obtain ⟨rfl, rfl⟩ := cloc
  have hlt := ainv.cget (Or.inr rfl)
  simp only [] at hlt
  have hv : sh.val sh.headBlk (sh.headIdx % sh.B) = sh.a.val sh.a.head := by grind
  simp only [SpscA.cstep, Option.some.injEq, hv] at hs
  subst hs
  splitC
  case ainv => exact SpscA.p_cons _ _ _ .go ainv _ _ rfl
  case ploc => frameP
  fin

end MayVerif.Spsc
