/-
  The invariant of the level-B spsc queue model (`Model/Queue/Spsc.lean`) is inductive for block size `0 < B`, and its
  consequences for every reachable state: the level-A ghost state is tracked (`simBad = false`: every concrete step is a
  level-A step or a stutter, and the level-A pcs are the projections of the concrete pcs) and satisfies `SpscA.Inv`;
  no block is used after it was freed, freed twice, no null `next` is followed and Drop's assertion holds
  (`uaf / dfree / panic = false`) – in particular a block recycled by `alloc_node` is never read by the consumer again;
  after Drop has returned no block is live.
-/
import MayVerif.Proof.Queue.Spsc.P_prod1
import MayVerif.Proof.Queue.Spsc.P_prod2
import MayVerif.Proof.Queue.Spsc.P_cons1
import MayVerif.Proof.Queue.Spsc.P_cons2
import MayVerif.Proof.Queue.Spsc.P_cons3
import MayVerif.Proof.Queue.Spsc.P_cons4
namespace MayVerif.Spsc

theorem inv_step (s s' : St) (a : Act) (h : Inv s) (hs : step s a = some s') : Inv s' := by
  obtain ⟨sh, pp, cp, app, acp⟩ := s
  cases a with
  | prod e =>
    cases pp with
    | idle => exact p_pidle _ _ _ _ _ _ h hs
    | pBlk v => exact p_pBlk _ _ _ _ _ _ _ h hs
    | pIdx v tb => exact p_pIdx _ _ _ _ _ _ _ _ h hs
    | pWr v tb pi => exact p_pWr _ _ _ _ _ _ _ _ _ h hs
    | aFirst l => exact p_aFirst _ _ _ _ _ _ _ h hs
    | aLast l f => exact p_aLast _ _ _ _ _ _ _ _ h hs
    | aNext l f => exact p_aNext _ _ _ _ _ _ _ _ h hs
    | aSetFirst l f nx => exact p_aSetFirst _ _ _ _ _ _ _ _ _ h hs
    | aHead l f => exact p_aHead _ _ _ _ _ _ _ _ h hs
    | aSetLast l f hb => exact p_aSetLast _ _ _ _ _ _ _ _ _ h hs
    | aAlloc l => exact p_aAlloc _ _ _ _ _ _ _ h hs
    | pLink l nt => exact p_pLink _ _ _ _ _ _ _ _ h hs
    | pSetBlk l nt => exact p_pSetBlk _ _ _ _ _ _ _ _ h hs
    | pPub v pi => exact p_pPub _ _ _ _ _ _ _ _ h hs
    | pRet => exact p_pRet _ _ _ _ _ _ h hs
  | cons e =>
    cases cp with
    | idle => exact c_idle _ _ _ _ _ _ h hs
    | nAlloc => exact c_nAlloc _ _ _ _ _ _ h hs
    | nRet => exact c_nRet _ _ _ _ _ _ h hs
    | oIdx => exact c_oIdx _ _ _ _ _ _ h hs
    | oTail hi => exact c_oTail _ _ _ _ _ _ _ h hs
    | oBlk hi => exact c_oBlk _ _ _ _ _ _ _ h hs
    | oRd hb hi => exact c_oRd _ _ _ _ _ _ _ _ h hs
    | oNext hb hi v => exact c_oNext _ _ _ _ _ _ _ _ _ h hs
    | oSetBlk nh hi v => exact c_oSetBlk _ _ _ _ _ _ _ _ _ h hs
    | oStore hi v => exact c_oStore _ _ _ _ _ _ _ _ h hs
    | kIdx => exact c_kIdx _ _ _ _ _ _ h hs
    | kTail hi => exact c_kTail _ _ _ _ _ _ _ h hs
    | kBlk hi => exact c_kBlk _ _ _ _ _ _ _ h hs
    | kRd hb hi => exact c_kRd _ _ _ _ _ _ _ _ h hs
    | lHead b => exact c_lHead _ _ _ _ _ _ _ h hs
    | lTail b hi => exact c_lTail _ _ _ _ _ _ _ _ h hs
    | bIdx d => exact c_bIdx _ _ _ _ _ _ _ h hs
    | bTail d hi => exact c_bTail _ _ _ _ _ _ _ _ h hs
    | bBlk d hi ce => exact c_bBlk _ _ _ _ _ _ _ _ _ h hs
    | bRd d hb ci ce acc => exact c_bRd _ _ _ _ _ _ _ _ _ _ _ h hs
    | bNext d hb ce vals => exact c_bNext _ _ _ _ _ _ _ _ _ _ h hs
    | bSetBlk d nh ce vals => exact c_bSetBlk _ _ _ _ _ _ _ _ _ _ h hs
    | bStore d ce vals => exact c_bStore _ _ _ _ _ _ _ _ _ h hs
    | dHead => exact c_dHead _ _ _ _ _ _ h hs
    | dTail hb => exact c_dTail _ _ _ _ _ _ _ h hs
    | dFirst hb => exact c_dFirst _ _ _ _ _ _ _ h hs
    | dNext f tb => exact c_dNext _ _ _ _ _ _ _ _ h hs
    | dFree f nx tb => exact c_dFree _ _ _ _ _ _ _ _ _ h hs
    | dFreeH hb => exact c_dFreeH _ _ _ _ _ _ _ h hs
    | ret r => exact c_ret _ _ _ _ _ _ _ h hs

theorem inv_run (s : St) (l : List Act) (h : Inv s) : Inv (run s l) := by
  induction l generalizing s with
  | nil => simpa [run]
  | cons a r ih =>
    simp only [run]
    split
    · next s' hs => exact ih _ (inv_step _ _ _ h hs)
    · exact ih _ h

/-- `0 < B` is needed already at level A (`SpscA.B0_breaks`) -/
theorem inv_reach (B : Nat) (hB : 0 < B) (l : List Act) : Inv (run (init B) l) :=
  inv_run _ l (inv_init B hB)

/-! consequences -/

/-- 1. refinement: every concrete step of a reachable execution is a level-A step (or a stutter) and the level-A pcs
    are the projections of the concrete pcs -/
theorem reach_refines_A (B : Nat) (hB : 0 < B) (l : List Act) : (run (init B) l).sh.simBad = false :=
  (inv_reach B hB l).noSimBad

theorem reach_proj (B : Nat) (hB : 0 < B) (l : List Act) :
    (run (init B) l).app = projP (run (init B) l).pp ∧ (run (init B) l).acp = projC (run (init B) l).cp :=
  ⟨(inv_reach B hB l).projp, (inv_reach B hB l).projc⟩

/-- 2. block safety: no access to a freed block (in particular none to a block that `alloc_node` recycled while the
    consumer could still read it), no double free, no null `next` followed, Drop's `assert_eq!(head, tail)` holds -/
theorem reach_block_safe (B : Nat) (hB : 0 < B) (l : List Act) :
    (run (init B) l).sh.uaf = false ∧ (run (init B) l).sh.dfree = false ∧ (run (init B) l).sh.panic = false :=
  ⟨(inv_reach B hB l).noUaf, (inv_reach B hB l).noDfree, (inv_reach B hB l).noPanic⟩

/-- 3. the level-A ghost state of a reachable state satisfies the level-A invariant (FIFO, exactly once, no wrong
    response: `SpscA.flags_false`, `SpscA.exactly_once`) -/
theorem reach_A_inv (B : Nat) (hB : 0 < B) (l : List Act) :
    SpscA.Inv ⟨(run (init B) l).sh.a, (run (init B) l).app, (run (init B) l).acp⟩ :=
  (inv_reach B hB l).ainv

/-- the concrete indices are the level-A indices -/
theorem reach_idx (B : Nat) (hB : 0 < B) (l : List Act) :
    (run (init B) l).sh.a.tail = (run (init B) l).sh.tailIdx ∧ (run (init B) l).sh.a.head = (run (init B) l).sh.headIdx :=
  ⟨(inv_reach B hB l).atail, (inv_reach B hB l).ahead⟩

/-- 4. no leak: after Drop has returned no block is live -/
theorem drop_frees_all (s : St) (h : Inv s) (hc : s.sh.created = true) (ha : s.sh.alive = false) (hi : s.cp = .idle) :
    ∀ b, s.sh.live b = false := by
  obtain ⟨sh, pp, cp, app, acp⟩ := s
  simp only at hc ha hi
  subst hi
  intro b
  have h3 : sh.ph = 3 := by
    have h0 := h.ph0; have h1 := h.nal; have h2 := h.wd; have h4 := h.ph_le
    simp only [dbulk, dwalk] at h0 h1 h2 h4
    grind
  have hte := (h.ph3 h3).2.2
  cases hb : sh.live b
  · rfl
  · have := h.live_ch b hb
    simp only at this hte
    omega

theorem reach_drop_frees_all (B : Nat) (hB : 0 < B) (l : List Act)
    (hc : (run (init B) l).sh.created = true) (ha : (run (init B) l).sh.alive = false)
    (hi : (run (init B) l).cp = .idle) : ∀ b, (run (init B) l).sh.live b = false :=
  drop_frees_all _ (inv_reach B hB l) hc ha hi

/-- the live blocks are exactly the ghost chain `chain fk … chain (te - 1)`, without repetition -/
theorem reach_live_chain (B : Nat) (hB : 0 < B) (l : List Act) (b : Nat) :
    (run (init B) l).sh.live b = true ↔
      ∃ k, (run (init B) l).sh.fk ≤ k ∧ k < (run (init B) l).sh.te ∧ (run (init B) l).sh.chain k = b := by
  have h := inv_reach B hB l
  constructor
  · intro hb
    have := h.live_ch b hb
    exact ⟨_, this.1, this.2.1, this.2.2⟩
  · rintro ⟨k, h1, h2, rfl⟩
    exact h.ch_live k h1 h2

/-! 5. slot accesses and recycling -/

/-- the block a consumer slot-read pc reads from -/
def readBlk : CPc → Option Bid | .oRd hb _ | .kRd hb _ | .bRd _ hb _ _ _ => some hb | _ => none
/-- the block `alloc_node` is about to hand out again (recycle) -/
def recycled : PPc → Option Bid | .aNext _ f | .aSetFirst _ f _ => some f | _ => none

/-- a consumer at a slot-read pc is inside a pop / peek / bulk_pop of a queue in use (`ph = 1`) -/
theorem read_ph (s : St) (h : Inv s) (hb : Bid) (hr : readBlk s.cp = some hb) : s.sh.ph = 1 := by
  obtain ⟨sh, pp, cp, app, acp⟩ := s
  have h0 := h.ph0; have h2 := h.wd; have h3 := h.ph3; have h4 := h.ph_le
  cases cp <;> simp only [readBlk, reduceCtorEq] at hr <;> simp only [dwalk, reduceCtorEq] at h0 h2 h3 h4 <;> grind

theorem read_before_release (s : St) (h : Inv s) :
    (∀ hb, readBlk s.cp = some hb → hb = s.sh.headBlk ∧ s.sh.live hb = true) ∧
    (∀ f, recycled s.pp = some f → f ≠ s.sh.headBlk) ∧
    (∀ v tb pi, s.pp = .pWr v tb pi → tb = s.sh.tailBlk ∧ pi = s.sh.tailIdx) := by
  refine ⟨?_, ?_, ?_⟩
  · intro hb hr
    have hph := read_ph s h hb hr
    have hlive : s.sh.live s.sh.headBlk = true := by
      rw [h.p_head]
      have := h.fk_lk (by omega); have := h.lk_hk (by omega); have := h.hk_tk
      have := h.te_def (by omega) (by omega)
      exact h.ch_live _ (by omega) (by omega)
    have hcl := h.cloc
    obtain ⟨sh, pp, cp, app, acp⟩ := s
    cases cp <;> simp only [readBlk, reduceCtorEq, Option.some.injEq] at hr <;> subst hr <;> simp only [CLoc] at hcl
    all_goals exact ⟨hcl.1, by rw [hcl.1]; exact hlive⟩
  · intro f hr
    have hpl := h.ploc
    have hal : s.sh.alive = true := h.pal (by intro hp; rw [hp] at hr; simp [recycled] at hr)
    have hph := h.al1 hal
    have h1 := h.lk_hk (by omega); have h2 := h.hk_tk; have h3 := h.fk_lk (by omega)
    have h4 := h.te_def (by omega) (by omega)
    have hfl : f = s.sh.first ∧ s.sh.fk < s.sh.lk := by
      obtain ⟨sh, pp, cp, app, acp⟩ := s
      cases pp <;> simp only [recycled, reduceCtorEq, Option.some.injEq] at hr <;> subst hr <;> simp only [PLoc] at hpl
      · exact ⟨hpl.2.1, hpl.2.2⟩
      · exact ⟨hpl.2.1, hpl.2.2.1⟩
    intro heq
    have n1 := h.ch_num s.sh.fk (Nat.le_refl _) (by omega)
    have n2 := h.ch_num s.sh.hk (by omega) (by omega)
    rw [← h.p_first (by omega), ← hfl.1, heq, h.p_head, n2] at n1
    omega
  · intro v tb pi hp
    have hpl := h.ploc
    rw [hp] at hpl
    exact hpl

/-- the consumer reads a slot only from the CURRENT head block (live; i.e. before the `head.block` store that releases
    the block to the producer's cache); a block that `alloc_node` recycles is never the head block (it lies strictly
    before it in the chain: `fk < lk ≤ hk`); the producer's slot write goes to the tail block at slot `tail.index`,
    which is outside `[head, tail)` -/
theorem reach_read_before_release (B : Nat) (hB : 0 < B) (l : List Act) :
    (∀ hb, readBlk (run (init B) l).cp = some hb →
        hb = (run (init B) l).sh.headBlk ∧ (run (init B) l).sh.live hb = true) ∧
    (∀ f, recycled (run (init B) l).pp = some f → f ≠ (run (init B) l).sh.headBlk) ∧
    (∀ v tb pi, (run (init B) l).pp = .pWr v tb pi →
        tb = (run (init B) l).sh.tailBlk ∧ pi = (run (init B) l).sh.tailIdx) :=
  read_before_release _ (inv_reach B hB l)

end MayVerif.Spsc
