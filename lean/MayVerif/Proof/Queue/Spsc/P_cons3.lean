/- consumer steps: bulk_pop (also as the loop of Drop, `d = true`) -/
import MayVerif.Proof.Queue.Spsc.Inv
namespace MayVerif.Spsc
open MayVerif.MpscA (upd Ret)
open MayVerif.Mpsc (upd2)
set_option linter.unusedSimpArgs false

set_option maxHeartbeats 1000000 in
theorem c_bIdx (sh : Sh) (pp : PPc) (app : SpscA.PPc) (acp : SpscA.CPc) (d : Bool) (e : Env) (s' : St)
    (h : Inv ⟨sh, pp, .bIdx d, app, acp⟩) (hs : step ⟨sh, pp, .bIdx d, app, acp⟩ (.cons e) = some s') : Inv s' := by
  obtain rfl : acp = .bLoad d := h.projc
  openC
  simp only [Option.some.injEq] at hs
  subst hs
  splitC
  case ploc => frameP
  fin

set_option maxHeartbeats 1000000 in
theorem c_bTail (sh : Sh) (pp : PPc) (app : SpscA.PPc) (acp : SpscA.CPc) (d : Bool) (hi : Nat) (e : Env) (s' : St)
    (h : Inv ⟨sh, pp, .bTail d hi, app, acp⟩) (hs : step ⟨sh, pp, .bTail d hi, app, acp⟩ (.cons e) = some s') : Inv s' := by
  obtain rfl : acp = .bLoad d := h.projc
  openC
  subst cloc
  have hph : sh.ph = 1 := by grind
  by_cases hc : sh.headIdx = sh.tailIdx
  · have hc' : sh.a.head = sh.a.tail := by omega
    simp only [eq_true hc, eq_true hc', ↓reduceIte, SpscA.cstep, Option.some.injEq] at hs
    subst hs
    cases d <;> simp only [↓reduceIte, Bool.false_eq_true]
    · splitC
      case ainv => exact SpscA.p_cons _ _ _ .go ainv _ _ (by simp only [SpscA.cstep, eq_true hc', ↓reduceIte]; rfl)
      case ploc => frameP
      fin
    · have hpp : pp = .idle := by grind
      subst hpp
      simp only [lf, pubf, wf, Nat.add_zero] at *
      splitC
      case ainv => exact SpscA.p_cons _ _ _ .go ainv _ _ (by simp only [SpscA.cstep, eq_true hc', ↓reduceIte]; rfl)
      case ploc => frameP
      fin
  · have hc' : ¬ sh.a.head = sh.a.tail := by omega
    simp only [eq_false hc, eq_false hc', ↓reduceIte, SpscA.cstep, Option.some.injEq] at hs
    subst hs
    have := Nat.min_le_right sh.tailIdx ((sh.headIdx / sh.B + 1) * sh.B)
    splitC
    case ainv => exact SpscA.p_cons _ _ _ .go ainv _ _ (by simp only [SpscA.cstep, eq_false hc', ↓reduceIte])
    case ploc => frameP
    fin

/-- the copy out of the head block is the level-A slot range -/
theorem copy_eq_slots (sh : Sh) (e : Nat) (hB : 0 < sh.B) (h1 : e ≤ (sh.headIdx / sh.B + 1) * sh.B)
    (ahead : sh.a.head = sh.headIdx)
    (pay : ∀ (i : Nat), sh.headIdx ≤ i → i < e → sh.val sh.headBlk (i % sh.B) = sh.a.val i) :
    copy sh sh.headBlk sh.headIdx (e - sh.headIdx) = SpscA.slots sh.a sh.a.head (e - sh.a.head) := by
  simp only [copy, SpscA.slots, ahead]
  apply List.map_congr_left
  intro k hk
  have hk' : k < e - sh.headIdx := List.mem_range.mp hk
  rw [← mod_in_block sh.headIdx k sh.B hB (by omega)]
  exact pay _ (by omega) (by omega)

set_option maxHeartbeats 1000000 in
theorem c_bBlk (sh : Sh) (pp : PPc) (app : SpscA.PPc) (acp : SpscA.CPc) (d : Bool) (hi ce : Nat) (e : Env) (s' : St)
    (h : Inv ⟨sh, pp, .bBlk d hi ce, app, acp⟩) (hs : step ⟨sh, pp, .bBlk d hi ce, app, acp⟩ (.cons e) = some s') :
    Inv s' := by
  obtain rfl : acp = .bGet d ce := h.projc
  openC
  obtain ⟨rfl, hce⟩ := cloc
  have hlt := ainv.cbg d ce rfl
  simp only [] at hlt
  have hph : sh.ph = 1 := by grind
  have hcp : ∀ u, copy { sh with uaf := u } sh.headBlk sh.headIdx (ce - sh.headIdx) =
      SpscA.slots sh.a sh.a.head (ce - sh.a.head) := by
    intro u
    show copy sh sh.headBlk sh.headIdx (ce - sh.headIdx) = _
    apply copy_eq_slots sh ce bpos hce ahead
    intro i h1 h2
    have := div_in_block sh.headIdx i sh.B bpos h1 (by omega)
    have := pay i h1 (by omega) (by omega)
    grind
  simp only [SpscA.cstep, Option.some.injEq, hcp] at hs
  subst hs
  by_cases hc : ce % sh.B = 0 <;> simp only [hc, ↓reduceIte]
  · have := div_block_end sh.headIdx ce sh.B bpos (by omega) hce hc
    have := div_mono ce (sh.tailIdx + pubf pp) sh.B
    splitC
    case ainv => exact SpscA.p_cons _ _ _ .go ainv _ _ rfl
    case ploc => frameP
    fin
  · have := div_block_mid sh.headIdx ce sh.B bpos (by omega) hce hc
    splitC
    case ainv => exact SpscA.p_cons _ _ _ .go ainv _ _ rfl
    case ploc => frameP
    fin

set_option maxHeartbeats 1000000 in
theorem c_bNext (sh : Sh) (pp : PPc) (app : SpscA.PPc) (acp : SpscA.CPc) (d : Bool) (hb ce : Nat) (vals : List Nat)
    (e : Env) (s' : St)
    (h : Inv ⟨sh, pp, .bNext d hb ce vals, app, acp⟩) (hs : step ⟨sh, pp, .bNext d hb ce vals, app, acp⟩ (.cons e) = some s') :
    Inv s' := by
  obtain rfl : acp = .bStore d ce vals := h.projc
  openC
  have hph : sh.ph = 1 := by grind
  have hn : sh.next hb = some (sh.chain (sh.hk + 1)) := by grind
  simp only [hn, Option.some.injEq] at hs
  subst hs
  splitC
  case ploc => frameP
  fin

set_option maxHeartbeats 1000000 in
theorem c_bSetBlk (sh : Sh) (pp : PPc) (app : SpscA.PPc) (acp : SpscA.CPc) (d : Bool) (nh ce : Nat) (vals : List Nat)
    (e : Env) (s' : St)
    (h : Inv ⟨sh, pp, .bSetBlk d nh ce vals, app, acp⟩)
    (hs : step ⟨sh, pp, .bSetBlk d nh ce vals, app, acp⟩ (.cons e) = some s') : Inv s' := by
  obtain rfl : acp = .bStore d ce vals := h.projc
  openC
  simp only [Option.some.injEq] at hs
  subst hs
  have hph : sh.ph = 1 := by grind
  have hlt := ainv.cbs d ce vals rfl
  simp only [] at hlt
  splitC
  case ploc => frameP
  fin

set_option maxHeartbeats 1000000 in
theorem c_bStore (sh : Sh) (pp : PPc) (app : SpscA.PPc) (acp : SpscA.CPc) (d : Bool) (ce : Nat) (vals : List Nat)
    (e : Env) (s' : St)
    (h : Inv ⟨sh, pp, .bStore d ce vals, app, acp⟩)
    (hs : step ⟨sh, pp, .bStore d ce vals, app, acp⟩ (.cons e) = some s') : Inv s' := by
  obtain rfl : acp = .bStore d ce vals := h.projc
  openC
  have hlt := ainv.cbs d ce vals rfl
  simp only [] at hlt
  simp only [SpscA.cstep, Option.some.injEq] at hs
  subst hs
  have hph : sh.ph = 1 := by grind
  cases d <;> simp only [↓reduceIte, Bool.false_eq_true]
  · splitC
    case ainv => exact SpscA.p_cons _ _ _ .go ainv _ _ rfl
    case ploc => frameP
    fin
  · splitC
    case ainv => exact SpscA.p_cons _ _ _ .go ainv _ _ rfl
    case ploc => frameP
    fin

end MayVerif.Spsc
