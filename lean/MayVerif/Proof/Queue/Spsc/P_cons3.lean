/- consumer steps: bulk_pop (also as the loop of Drop, `d = true`) -/
import MayVerif.Proof.Queue.Spsc.Inv
namespace MayVerif.Spsc
open MayVerif.MpscA (upd Ret)
open MayVerif.Mpsc (upd2)
set_option linter.unusedSimpArgs false

set_option maxHeartbeats 1000000 in
theorem c_bIdx (sh : Sh) (pp : PPc) (app : SpscA.PPc) (acp : SpscA.CPc) (d : Bool) (e : Env) (s' : St)
    (h : Inv ⟨sh, pp, .bIdx d, app, acp⟩) (hs : step ⟨sh, pp, .bIdx d, app, acp⟩ (.cons e) = some s') : Inv s' := by
  obtain rfl : acp = .bLoad d := h.projc
  openC
  simp only [Option.some.injEq] at hs
  subst hs
  splitC
  case ploc => frameP
  fin

set_option maxHeartbeats 1000000 in
theorem c_bTail (sh : Sh) (pp : PPc) (app : SpscA.PPc) (acp : SpscA.CPc) (d : Bool) (hi : Nat) (e : Env) (s' : St)
    (h : Inv ⟨sh, pp, .bTail d hi, app, acp⟩) (hs : step ⟨sh, pp, .bTail d hi, app, acp⟩ (.cons e) = some s') : Inv s' := by
  obtain rfl : acp = .bLoad d := h.projc
  openC
  subst cloc
  have hph : sh.ph = 1 := by grind
  by_cases hc : sh.headIdx = sh.tailIdx
  · have hc' : sh.a.head = sh.a.tail := by omega
    simp only [eq_true hc, eq_true hc', ↓reduceIte, SpscA.cstep, Option.some.injEq] at hs
    subst hs
    cases d <;> simp only [↓reduceIte, Bool.false_eq_true]
    · splitC
      case ainv => exact SpscA.p_cons _ _ _ .go ainv _ _ (by simp only [SpscA.cstep, eq_true hc', ↓reduceIte]; rfl)
      case ploc => frameP
      fin
    · have hpp : pp = .idle := by grind
      subst hpp
      simp only [lf, pubf, wf, Nat.add_zero] at *
      splitC
      case ainv => exact SpscA.p_cons _ _ _ .go ainv _ _ (by simp only [SpscA.cstep, eq_true hc', ↓reduceIte]; rfl)
      case ploc => frameP
      fin
  · have hc' : ¬ sh.a.head = sh.a.tail := by omega
    simp only [eq_false hc, eq_false hc', ↓reduceIte, SpscA.cstep, Option.some.injEq] at hs
    subst hs
    have := Nat.min_le_right sh.tailIdx ((sh.headIdx / sh.B + 1) * sh.B)
    splitC
    case ainv => exact SpscA.p_cons _ _ _ .go ainv _ _ (by simp only [SpscA.cstep, eq_false hc', ↓reduceIte])
    case ploc => frameP
    fin

set_option maxHeartbeats 1000000 in
theorem c_bBlk (sh : Sh) (pp : PPc) (app : SpscA.PPc) (acp : SpscA.CPc) (d : Bool) (hi ce : Nat) (e : Env) (s' : St)
    (h : Inv ⟨sh, pp, .bBlk d hi ce, app, acp⟩) (hs : step ⟨sh, pp, .bBlk d hi ce, app, acp⟩ (.cons e) = some s') :
    Inv s' := by
  obtain rfl : acp = .bGet d ce := h.projc
  openC
  obtain ⟨rfl, hce⟩ := cloc
  have hlt := ainv.cbg d ce rfl
  simp only [] at hlt
  have h0 : ([] : List Nat) = SpscA.slots sh.a sh.headIdx (sh.headIdx - sh.headIdx) := by simp [SpscA.slots]
  simp only [Option.some.injEq] at hs
  subst hs
  splitC
  case ploc => frameP
  case cloc => exact ⟨trivial, Nat.le_refl _, by omega, hlt.2, hce, h0⟩
  fin

set_option maxHeartbeats 1000000 in
theorem c_bRd (sh : Sh) (pp : PPc) (app : SpscA.PPc) (acp : SpscA.CPc) (d : Bool) (hb ci ce : Nat) (acc : List Nat)
    (e : Env) (s' : St)
    (h : Inv ⟨sh, pp, .bRd d hb ci ce acc, app, acp⟩) (hs : step ⟨sh, pp, .bRd d hb ci ce acc, app, acp⟩ (.cons e) = some s') :
    Inv s' := by
  obtain rfl : acp = .bGet d ce := h.projc
  openC
  obtain ⟨rfl, hci, hlt, htl, hce, rfl⟩ := cloc
  have hph : sh.ph = 1 := by grind
  have hdiv := div_in_block sh.headIdx ci sh.B bpos hci (by omega)
  -- the slot read is the level-A payload of slot `ci`
  have hv : sh.val sh.headBlk (ci % sh.B) = sh.a.val ci := by
    have := pay ci hci (by omega) (by omega)
    grind
  have hacc : SpscA.slots sh.a sh.headIdx (ci - sh.headIdx) ++ [sh.val sh.headBlk (ci % sh.B)] =
      SpscA.slots sh.a sh.headIdx (ci + 1 - sh.headIdx) := by
    have h1 : ci + 1 - sh.headIdx = (ci - sh.headIdx) + 1 := by omega
    have h2 : sh.headIdx + (ci - sh.headIdx) = ci := by omega
    rw [h1, slots_succ, h2, hv]
  simp only [hacc] at hs
  by_cases hnx : ci + 1 < ce
  · -- one more slot to read: a stutter
    simp only [eq_true hnx, ↓reduceIte, Option.some.injEq] at hs
    subst hs
    splitC
    case ploc => frameP
    case cloc => exact ⟨trivial, by omega, hnx, htl, hce, trivial⟩
    fin
  · -- the last read: level A takes all the values
    have hlast : ci + 1 = ce := by omega
    subst hlast
    have hsl : SpscA.slots sh.a sh.headIdx (ci + 1 - sh.headIdx) = SpscA.slots sh.a sh.a.head (ci + 1 - sh.a.head) := by
      rw [ahead]
    simp only [eq_false hnx, ↓reduceIte, SpscA.cstep, Option.some.injEq, hsl] at hs
    subst hs
    by_cases hc : (ci + 1) % sh.B = 0 <;> simp only [hc, ↓reduceIte]
    · have := div_block_end sh.headIdx (ci + 1) sh.B bpos (by omega) hce hc
      have := div_mono (ci + 1) (sh.tailIdx + pubf pp) sh.B
      splitC
      case ainv => exact SpscA.p_cons _ _ _ .go ainv _ _ rfl
      case ploc => frameP
      fin
    · have := div_block_mid sh.headIdx (ci + 1) sh.B bpos (by omega) hce hc
      splitC
      case ainv => exact SpscA.p_cons _ _ _ .go ainv _ _ rfl
      case ploc => frameP
      fin

set_option maxHeartbeats 1000000 in
theorem c_bNext (sh : Sh) (pp : PPc) (app : SpscA.PPc) (acp : SpscA.CPc) (d : Bool) (hb ce : Nat) (vals : List Nat)
    (e : Env) (s' : St)
    (h : Inv ⟨sh, pp, .bNext d hb ce vals, app, acp⟩) (hs : step ⟨sh, pp, .bNext d hb ce vals, app, acp⟩ (.cons e) = some s') :
    Inv s' := by
  obtain rfl : acp = .bStore d ce vals := h.projc
  openC
  have hph : sh.ph = 1 := by grind
  have hn : sh.next hb = some (sh.chain (sh.hk + 1)) := by grind
  simp only [hn, Option.some.injEq] at hs
  subst hs
  splitC
  case ploc => frameP
  fin

set_option maxHeartbeats 1000000 in
theorem c_bSetBlk (sh : Sh) (pp : PPc) (app : SpscA.PPc) (acp : SpscA.CPc) (d : Bool) (nh ce : Nat) (vals : List Nat)
    (e : Env) (s' : St)
    (h : Inv ⟨sh, pp, .bSetBlk d nh ce vals, app, acp⟩)
    (hs : step ⟨sh, pp, .bSetBlk d nh ce vals, app, acp⟩ (.cons e) = some s') : Inv s' := by
  obtain rfl : acp = .bStore d ce vals := h.projc
  openC
  simp only [Option.some.injEq] at hs
  subst hs
  have hph : sh.ph = 1 := by grind
  have hlt := ainv.cbs d ce vals rfl
  simp only [] at hlt
  splitC
  case ploc => frameP
  fin

set_option maxHeartbeats 1000000 in
theorem c_bStore (sh : Sh) (pp : PPc) (app : SpscA.PPc) (acp : SpscA.CPc) (d : Bool) (ce : Nat) (vals : List Nat)
    (e : Env) (s' : St)
    (h : Inv ⟨sh, pp, .bStore d ce vals, app, acp⟩)
    (hs : step ⟨sh, pp, .bStore d ce vals, app, acp⟩ (.cons e) = some s') : Inv s' := by
  obtain rfl : acp = .bStore d ce vals := h.projc
  openC
  have hlt := ainv.cbs d ce vals rfl
  simp only [] at hlt
  simp only [SpscA.cstep, Option.some.injEq] at hs
  subst hs
  have hph : sh.ph = 1 := by grind
  cases d <;> simp only [↓reduceIte, Bool.false_eq_true]
  · splitC
    case ainv => exact SpscA.p_cons _ _ _ .go ainv _ _ rfl
    case ploc => frameP
    fin
  · splitC
    case ainv => exact SpscA.p_cons _ _ _ .go ainv _ _ rfl
    case ploc => frameP
    fin

end MayVerif.Spsc
