/- consumer steps: pop -/
import MayVerif.Proof.Queue.Spsc.Inv
namespace MayVerif.Spsc
open MayVerif.MpscA (upd Ret)
open MayVerif.Mpsc (upd2)
set_option linter.unusedSimpArgs false

set_option maxHeartbeats 1000000 in
theorem c_oIdx (sh : Sh) (pp : PPc) (app : SpscA.PPc) (acp : SpscA.CPc) (e : Env) (s' : St)
    (h : Inv ⟨sh, pp, .oIdx, app, acp⟩) (hs : step ⟨sh, pp, .oIdx, app, acp⟩ (.cons e) = some s') : Inv s' := by
  obtain rfl : acp = .pLoad := h.projc
  openC
  simp only [Option.some.injEq] at hs
  subst hs
  splitC
  case ploc => frameP
  fin

set_option maxHeartbeats 1000000 in
theorem c_oTail (sh : Sh) (pp : PPc) (app : SpscA.PPc) (acp : SpscA.CPc) (hi : Nat) (e : Env) (s' : St)
    (h : Inv ⟨sh, pp, .oTail hi, app, acp⟩) (hs : step ⟨sh, pp, .oTail hi, app, acp⟩ (.cons e) = some s') : Inv s' := by
  obtain rfl : acp = .pLoad := h.projc
  openC
  subst cloc
  by_cases hc : sh.headIdx = sh.tailIdx
  · have hc' : sh.a.head = sh.a.tail := by omega
    simp only [eq_true hc, eq_true hc', ↓reduceIte, SpscA.cstep, Option.some.injEq] at hs
    subst hs
    splitC
    case ainv => exact SpscA.p_cons _ _ _ .go ainv _ _ (by simp only [SpscA.cstep, eq_true hc', ↓reduceIte]; rfl)
    case ploc => frameP
    fin
  · have hc' : ¬ sh.a.head = sh.a.tail := by omega
    simp only [eq_false hc, eq_false hc', ↓reduceIte, SpscA.cstep, Option.some.injEq] at hs
    subst hs
    splitC
    case ainv => exact SpscA.p_cons _ _ _ .go ainv _ _ (by simp only [SpscA.cstep, eq_false hc', ↓reduceIte])
    case ploc => frameP
    fin

set_option maxHeartbeats 1000000 in
theorem c_oBlk (sh : Sh) (pp : PPc) (app : SpscA.PPc) (acp : SpscA.CPc) (hi : Nat) (e : Env) (s' : St)
    (h : Inv ⟨sh, pp, .oBlk hi, app, acp⟩) (hs : step ⟨sh, pp, .oBlk hi, app, acp⟩ (.cons e) = some s') : Inv s' := by
  obtain rfl : acp = .pGet := h.projc
  openC
  simp only [Option.some.injEq] at hs
  subst hs
  splitC
  case ploc => frameP
  fin

set_option maxHeartbeats 1000000 in
theorem c_oRd (sh : Sh) (pp : PPc) (app : SpscA.PPc) (acp : SpscA.CPc) (hb hi : Nat) (e : Env) (s' : St)
    (h : Inv ⟨sh, pp, .oRd hb hi, app, acp⟩) (hs : step ⟨sh, pp, .oRd hb hi, app, acp⟩ (.cons e) = some s') : Inv s' := by
  obtain rfl : acp = .pGet := h.projc
  openC
  obtain ⟨rfl, rfl⟩ := cloc
  have hlt := ainv.cget (Or.inl rfl)
  simp only [] at hlt
  have hv : sh.val sh.headBlk (sh.headIdx % sh.B) = sh.a.val sh.a.head := by grind
  simp only [SpscA.cstep, Option.some.injEq, hv] at hs
  subst hs
  have hal : sh.alive = true := by grind
  have hph := al1 hal
  by_cases hc : (sh.headIdx + 1) % sh.B = 0 <;> simp only [hc, ↓reduceIte]
  · have := div_succ_of_mod sh.headIdx sh.B hc
    have := div_mono (sh.headIdx + 1) (sh.tailIdx + pubf pp) sh.B
    splitC
    case ainv => exact SpscA.p_cons _ _ _ .go ainv _ _ rfl
    case ploc => frameP
    fin
  · have := div_succ_of_not_mod sh.headIdx sh.B hc
    splitC
    case ainv => exact SpscA.p_cons _ _ _ .go ainv _ _ rfl
    case ploc => frameP
    fin

set_option maxHeartbeats 1000000 in
theorem c_oNext (sh : Sh) (pp : PPc) (app : SpscA.PPc) (acp : SpscA.CPc) (hb hi v : Nat) (e : Env) (s' : St)
    (h : Inv ⟨sh, pp, .oNext hb hi v, app, acp⟩) (hs : step ⟨sh, pp, .oNext hb hi v, app, acp⟩ (.cons e) = some s') :
    Inv s' := by
  obtain rfl : acp = .pStore v := h.projc
  openC
  have hal : sh.alive = true := by grind
  have hph := al1 hal
  have hn : sh.next hb = some (sh.chain (sh.hk + 1)) := by grind
  simp only [hn, Option.some.injEq] at hs
  subst hs
  splitC
  case ploc => frameP
  fin

set_option maxHeartbeats 1000000 in
theorem c_oSetBlk (sh : Sh) (pp : PPc) (app : SpscA.PPc) (acp : SpscA.CPc) (nh hi v : Nat) (e : Env) (s' : St)
    (h : Inv ⟨sh, pp, .oSetBlk nh hi v, app, acp⟩) (hs : step ⟨sh, pp, .oSetBlk nh hi v, app, acp⟩ (.cons e) = some s') :
    Inv s' := by
  obtain rfl : acp = .pStore v := h.projc
  openC
  simp only [Option.some.injEq] at hs
  subst hs
  have hal : sh.alive = true := by grind
  have hph := al1 hal
  have := div_succ_of_mod sh.headIdx sh.B
  splitC
  case ploc => frameP
  fin

set_option maxHeartbeats 1000000 in
theorem c_oStore (sh : Sh) (pp : PPc) (app : SpscA.PPc) (acp : SpscA.CPc) (hi v : Nat) (e : Env) (s' : St)
    (h : Inv ⟨sh, pp, .oStore hi v, app, acp⟩) (hs : step ⟨sh, pp, .oStore hi v, app, acp⟩ (.cons e) = some s') :
    Inv s' := by
  obtain rfl : acp = .pStore v := h.projc
  openC
  subst cloc
  have hlt := ainv.cpst v rfl
  simp only [] at hlt
  simp only [SpscA.cstep, Option.some.injEq] at hs
  subst hs
  have hal : sh.alive = true := by grind
  have hph := al1 hal
  splitC
  case ainv => exact SpscA.p_cons _ _ _ .go ainv _ _ rfl
  case ploc => frameP
  fin

end MayVerif.Spsc
