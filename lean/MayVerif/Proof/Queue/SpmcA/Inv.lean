/-
  Level-A spmc: the inductive invariant and its helper predicates (Bool-valued functions of the pc).
-/
import MayVerif.Model.Queue.SpmcA
namespace MayVerif.SpmcA

local notation "Tid" => Nat
local notation "Val" => Nat

/-- the pc holds a range that is already cut out of `head` (direct claim, or lock path after the unlock) -/
@[grind] def cutB : Pc → Bool
  | .tWait .. | .tRead .. => true
  | _ => false
/-- the pc holds the lock bit -/
@[grind] def lockB : Pc → Bool
  | .tLocked _ | .tBack _ | .tGo .. => true
  | _ => false
/-- lock holder that has fixed its range but not yet installed the new head -/
@[grind] def goB : Pc → Bool
  | .tGo .. => true
  | _ => false
@[grind] def rdB : Pc → Bool
  | .tRead .. => true
  | _ => false
@[grind] def loOf : Pc → Nat
  | .tWait lo _ | .tLocked lo | .tBack lo | .tGo lo _ | .tRead lo _ => lo
  | _ => 0
@[grind] def hiOf : Pc → Nat
  | .tWait _ hi | .tGo _ hi | .tRead _ hi => hi
  | _ => 0
@[grind] def ownerPc : Pc → Bool
  | .oWrite _ | .oPub | .oLoad | .oTry _ => true
  | _ => false
@[grind] def pubB : Pc → Bool
  | .oPub => true
  | _ => false

/-- logical index `i` is in the range the pc holds a claim on -/
@[grind] def covers (pc : Pc) (i : Nat) : Bool := (cutB pc || goB pc) && decide (loOf pc ≤ i) && decide (i < hiOf pc)

theorem goB_lockB (pc : Pc) (h : goB pc = true) : lockB pc = true := by cases pc <;> simp_all [goB, lockB]
theorem rdB_cutB (pc : Pc) (h : rdB pc = true) : cutB pc = true := by cases pc <;> simp_all [rdB, cutB]
theorem cutB_not_lockB (pc : Pc) (h : cutB pc = true) : lockB pc = false := by cases pc <;> simp_all [cutB, lockB]
theorem pubB_ownerPc (pc : Pc) (h : pubB pc = true) : ownerPc pc = true := by cases pc <;> simp_all [pubB, ownerPc]

structure Inv (s : St) : Prop where
  own : ∀ t i, covers (s.pcs t) i = true → s.sh.who i = t
  fresh : ∀ t i, covers (s.pcs t) i = true → s.sh.cnt i = 0
  lck : ∀ t, lockB (s.pcs t) = true → s.sh.lock = true ∧ s.sh.lk = t ∧ s.sh.head = loOf (s.pcs t)
  go : ∀ t, goB (s.pcs t) = true → loOf (s.pcs t) < hiOf (s.pcs t) ∧ hiOf (s.pcs t) ≤ s.sh.tail
  cut : ∀ t, cutB (s.pcs t) = true → hiOf (s.pcs t) ≤ s.sh.head
  rd : ∀ t, rdB (s.pcs t) = true → hiOf (s.pcs t) ≤ s.sh.tail
  ahead : ∀ i, s.sh.head ≤ i → s.sh.cnt i = 0
  kept : ∀ i, i < s.sh.head → s.sh.cnt i = 1 ∨ covers (s.pcs (s.sh.who i)) i = true
  once : ∀ i, s.sh.cnt i ≤ 1
  pub : ∀ i, s.sh.cnt i = 1 → i < s.sh.tail
  wr : ∀ i, i < s.sh.tail → (s.sh.slot i).isSome = true
  wr1 : ∀ t, pubB (s.pcs t) = true → (s.sh.slot s.sh.tail).isSome = true
  ownr : ∀ t, ownerPc (s.pcs t) = true → t = 0
  nobad : s.sh.bad = false

theorem inv_init (n : Nat) : Inv (init n) := by
  constructor <;> simp [init, covers, lockB, cutB, goB, rdB, ownerPc, pubB]

theorem any_range_none (slot : Nat → Option Val) (lo hi tail : Nat) (h : hi ≤ tail)
    (hw : ∀ i, i < tail → (slot i).isSome = true) :
    (List.range (hi - lo)).any (fun j => (slot (lo + j)).isNone) = false := by
  rw [List.any_eq_false]
  intro j hj
  have hj' := List.mem_range.mp hj
  have := hw (lo + j) (by omega)
  cases hs : slot (lo + j) <;> simp_all

end MayVerif.SpmcA
