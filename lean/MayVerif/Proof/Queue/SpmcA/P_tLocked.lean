import MayVerif.Proof.Queue.SpmcA.Tac
namespace MayVerif.SpmcA
local notation "Tid" => Nat

set_option maxHeartbeats 4000000 in
theorem inv_tLocked (n : Nat) (sh : Sh) (pcs : Tid → Pc) (t : Tid) (e : Env) (lo : Nat)
    (h : Inv ⟨n, sh, pcs⟩) (hpc : pcs t = .tLocked lo) (sh' : Sh) (pc' : Pc)
    (hts : tstep sh t (.tLocked lo) e = some (sh', pc')) : Inv ⟨n, sh', upd pcs t pc'⟩ := by
  destruct_inv
  destruct_hts <;> fin

end MayVerif.SpmcA
