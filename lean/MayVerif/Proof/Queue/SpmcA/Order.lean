/-
  Level-A spmc: the indices handed to the owner (actor 0) come in increasing order (`InvO`, on top of `Inv`).
-/
import MayVerif.Proof.Queue.SpmcA.Step
namespace MayVerif.SpmcA
local notation "Tid" => Nat

structure InvO (s : St) : Prop where
  ol : s.sh.olast ≤ s.sh.head
  oc : ∀ i, covers (s.pcs 0) i = true → s.sh.olast ≤ i
  ne : ∀ t, (cutB (s.pcs t) || goB (s.pcs t)) = true → loOf (s.pcs t) < hiOf (s.pcs t)
  ob : ∀ x, x ∈ s.sh.olog → x < s.sh.olast
  ot : ∀ x, x ∈ s.sh.olog → x < s.sh.tail
  op : s.sh.olog.Pairwise (· < ·)

theorem invO_init (n : Nat) : InvO (init n) := by
  constructor <;> simp [init, covers, cutB, goB]

set_option hygiene false in
macro "destruct_invO" : tactic => `(tactic| (
  obtain ⟨hol, hoc, hne, hob, hot, hop⟩ := ho
  simp only at hol hoc hne hob hot hop))

set_option hygiene false in
/-- all steps but the read leave `olog`, `olast` alone -/
macro "finO" : tactic => `(tactic| (
  constructor
  case ob => exact hob
  case op => exact hop
  case ot => (simp only []; intro x hx; have := hot x hx; first | omega | grind)
  case oc => (simp only []; intro i hi; have h1 := hoc i
              first | grind [upd, setWho, goB_lockB, rdB_cutB, cutB_not_lockB] | grind (splits := 40) [upd, setWho, goB_lockB, rdB_cutB, cutB_not_lockB])
  all_goals (simp only []; first | grind [upd, setWho, goB_lockB, rdB_cutB, cutB_not_lockB] | grind (splits := 40) [upd, setWho, goB_lockB, rdB_cutB, cutB_not_lockB])))

set_option maxHeartbeats 4000000 in
theorem invO_other (n : Nat) (sh : Sh) (pcs : Tid → Pc) (t : Tid) (e : Env) (pc : Pc)
    (h : Inv ⟨n, sh, pcs⟩) (ho : InvO ⟨n, sh, pcs⟩) (hpc : pcs t = pc) (hnr : rdB pc = false) (sh' : Sh) (pc' : Pc)
    (hts : tstep sh t pc e = some (sh', pc')) : InvO ⟨n, sh', upd pcs t pc'⟩ := by
  destruct_inv
  destruct_invO
  cases pc with
  | tRead lo hi => simp [rdB] at hnr
  | idle => destruct_hts <;> finO
  | oWrite v => destruct_hts <;> finO
  | oPub => destruct_hts <;> finO
  | oLoad => destruct_hts <;> finO
  | oTry h0 => destruct_hts <;> finO
  | tTry => destruct_hts <;> finO
  | tWait lo hi => destruct_hts <;> finO
  | tLocked lo => destruct_hts <;> finO
  | tBack lo => destruct_hts <;> finO
  | tGo lo hi => destruct_hts <;> finO
  | tDone lo hi => destruct_hts <;> finO

theorem pairwise_range' (lo k : Nat) : (List.range' lo k).Pairwise (· < ·) := by
  induction k generalizing lo with
  | zero => simp
  | succ k ih =>
    simp only [List.range'_succ, List.pairwise_cons]
    refine ⟨?_, ih _⟩
    intro a ha
    have := List.mem_range'_1.mp ha
    omega

theorem invO_read (n : Nat) (sh : Sh) (pcs : Tid → Pc) (t : Tid) (e : Env) (lo hi : Nat)
    (h : Inv ⟨n, sh, pcs⟩) (ho : InvO ⟨n, sh, pcs⟩) (hpc : pcs t = .tRead lo hi) (sh' : Sh) (pc' : Pc)
    (hts : tstep sh t (.tRead lo hi) e = some (sh', pc')) : InvO ⟨n, sh', upd pcs t pc'⟩ := by
  destruct_inv
  destruct_invO
  have hcutt := hcut t
  have hnet := hne t
  simp only [hpc, cutB, goB, loOf, hiOf, Bool.true_or, forall_const] at hcutt hnet
  have hrdt := hrd t
  simp only [hpc, rdB, hiOf, forall_const] at hrdt
  have hoct : t = 0 → sh.olast ≤ lo := by
    intro h0; subst h0
    have := hoc lo
    simp [hpc, covers, cutB, goB, loOf, hiOf, hnet] at this
    exact this
  simp only [tstep, Option.some.injEq, Prod.mk.injEq] at hts
  obtain ⟨rfl, rfl⟩ := hts
  constructor <;> simp only []
  · split <;> omega
  · intro i hi'
    by_cases h0 : t = 0
    · subst h0; simp [upd, covers, cutB, goB] at hi'
    · have : upd pcs t (Pc.tDone lo hi) 0 = pcs 0 := by simp [upd]; intro h; exact absurd h.symm h0
      rw [this] at hi'
      simp only [h0, if_false]
      exact hoc i hi'
  · intro u hu
    by_cases hut : u = t
    · subst hut; simp [upd, cutB, goB] at hu
    · have : upd pcs t (Pc.tDone lo hi) u = pcs u := by simp [upd, hut]
      rw [this] at hu ⊢
      exact hne u hu
  · intro x hx
    by_cases h0 : t = 0
    · simp only [h0, if_true] at hx ⊢
      rcases List.mem_append.mp hx with hx | hx
      · have := hob x hx; have := hoct h0; omega
      · have := List.mem_range'_1.mp hx; omega
    · simp only [h0, if_false] at hx ⊢
      exact hob x hx
  · intro x hx
    by_cases h0 : t = 0
    · simp only [h0, if_true] at hx
      rcases List.mem_append.mp hx with hx | hx
      · exact hot x hx
      · have := List.mem_range'_1.mp hx; omega
    · simp only [h0, if_false] at hx
      exact hot x hx
  · by_cases h0 : t = 0
    · simp only [h0, if_true]
      rw [List.pairwise_append]
      refine ⟨hop, pairwise_range' _ _, ?_⟩
      intro a ha b hb
      have := hob a ha; have := hoct h0; have := List.mem_range'_1.mp hb; omega
    · simp only [h0, if_false]; exact hop

theorem invO_step (s s' : St) (t : Tid) (e : Env) (h : Inv s) (ho : InvO s) (hs : step s t e = some s') : InvO s' := by
  obtain ⟨n, sh, pcs⟩ := s
  simp only [step] at hs
  split at hs
  case isFalse => contradiction
  next hlt =>
  split at hs
  · contradiction
  next sh' pc' hts =>
  simp only [Option.some.injEq] at hs
  subst hs
  by_cases hr : rdB (pcs t) = true
  · generalize hpc : pcs t = pc at hts hr
    cases pc <;> simp [rdB] at hr
    next lo hi => exact invO_read n sh pcs t e lo hi h ho hpc sh' pc' hts
  · exact invO_other n sh pcs t e (pcs t) h ho rfl (by simpa using hr) sh' pc' hts

theorem invO_run (s : St) (sched : List (Tid × Env)) (h : Inv s) (ho : InvO s) : InvO (run s sched) := by
  induction sched generalizing s with
  | nil => simpa [run]
  | cons te r ih =>
    obtain ⟨t, e⟩ := te
    simp only [run]
    split
    · next s' hs => exact ih _ (inv_step _ _ _ _ h hs) (invO_step _ _ _ _ h ho hs)
    · exact ih _ h ho

theorem invO_reach (n : Nat) (sched : List (Tid × Env)) : InvO (run (init n) sched) :=
  invO_run _ sched (inv_init n) (invO_init n)

end MayVerif.SpmcA
