import MayVerif.Proof.Queue.SpmcA.P_idle
import MayVerif.Proof.Queue.SpmcA.P_oWrite
import MayVerif.Proof.Queue.SpmcA.P_oPub
import MayVerif.Proof.Queue.SpmcA.P_oLoad
import MayVerif.Proof.Queue.SpmcA.P_oTry
import MayVerif.Proof.Queue.SpmcA.P_tTry
import MayVerif.Proof.Queue.SpmcA.P_tWait
import MayVerif.Proof.Queue.SpmcA.P_tLocked
import MayVerif.Proof.Queue.SpmcA.P_tBack
import MayVerif.Proof.Queue.SpmcA.P_tGo
import MayVerif.Proof.Queue.SpmcA.P_tRead
import MayVerif.Proof.Queue.SpmcA.P_tDone
namespace MayVerif.SpmcA
local notation "Tid" => Nat

theorem inv_step (s s' : St) (t : Tid) (e : Env) (h : Inv s) (hs : step s t e = some s') : Inv s' := by
  obtain ⟨n, sh, pcs⟩ := s
  simp only [step] at hs
  split at hs
  case isFalse => contradiction
  next hlt =>
  split at hs
  · contradiction
  next sh' pc' hts =>
  simp only [Option.some.injEq] at hs
  subst hs
  generalize hpc : pcs t = pc at hts
  cases pc with
  | idle => exact inv_idle n sh pcs t e h hpc sh' pc' hts
  | oWrite v => exact inv_oWrite n sh pcs t e v h hpc sh' pc' hts
  | oPub => exact inv_oPub n sh pcs t e h hpc sh' pc' hts
  | oLoad => exact inv_oLoad n sh pcs t e h hpc sh' pc' hts
  | oTry h0 => exact inv_oTry n sh pcs t e h0 h hpc sh' pc' hts
  | tTry => exact inv_tTry n sh pcs t e h hpc sh' pc' hts
  | tWait lo hi => exact inv_tWait n sh pcs t e lo hi h hpc sh' pc' hts
  | tLocked lo => exact inv_tLocked n sh pcs t e lo h hpc sh' pc' hts
  | tBack lo => exact inv_tBack n sh pcs t e lo h hpc sh' pc' hts
  | tGo lo hi => exact inv_tGo n sh pcs t e lo hi h hpc sh' pc' hts
  | tRead lo hi => exact inv_tRead n sh pcs t e lo hi h hpc sh' pc' hts
  | tDone lo hi => exact inv_tDone n sh pcs t e lo hi h hpc sh' pc' hts

theorem inv_run (s : St) (sched : List (Tid × Env)) (h : Inv s) : Inv (run s sched) := by
  induction sched generalizing s with
  | nil => simpa [run]
  | cons te r ih =>
    obtain ⟨t, e⟩ := te
    simp only [run]
    split
    · next s' hs => exact ih _ (inv_step _ _ _ _ h hs)
    · exact ih _ h

theorem inv_reach (n : Nat) (sched : List (Tid × Env)) : Inv (run (init n) sched) :=
  inv_run _ sched (inv_init n)

theorem run_n (s : St) (l : List (Tid × Env)) : (run s l).n = s.n := by
  induction l generalizing s with
  | nil => rfl
  | cons te r ih =>
    obtain ⟨t, e⟩ := te
    simp only [run]
    split
    · next s' hs =>
      rw [ih]
      simp only [step] at hs
      split at hs
      · split at hs
        · contradiction
        · simp only [Option.some.injEq] at hs; subst hs; rfl
      · contradiction
    · exact ih _

end MayVerif.SpmcA
