import MayVerif.Proof.Queue.SpmcA.Tac
namespace MayVerif.SpmcA
local notation "Tid" => Nat

set_option maxHeartbeats 4000000 in
theorem inv_oTry (n : Nat) (sh : Sh) (pcs : Tid → Pc) (t : Tid) (e : Env) (h0 : Nat)
    (h : Inv ⟨n, sh, pcs⟩) (hpc : pcs t = .oTry h0) (sh' : Sh) (pc' : Pc)
    (hts : tstep sh t (.oTry h0) e = some (sh', pc')) : Inv ⟨n, sh', upd pcs t pc'⟩ := by
  destruct_inv
  destruct_hts <;> fin

end MayVerif.SpmcA
