import MayVerif.Proof.Queue.SpmcA.Tac
namespace MayVerif.SpmcA
local notation "Tid" => Nat

theorem inv_tGo (n : Nat) (sh : Sh) (pcs : Tid → Pc) (t : Tid) (e : Env) (lo hi : Nat)
    (h : Inv ⟨n, sh, pcs⟩) (hpc : pcs t = .tGo lo hi) (sh' : Sh) (pc' : Pc)
    (hts : tstep sh t (.tGo lo hi) e = some (sh', pc')) : Inv ⟨n, sh', upd pcs t pc'⟩ := by
  destruct_inv
  destruct_hts <;> fin

end MayVerif.SpmcA
