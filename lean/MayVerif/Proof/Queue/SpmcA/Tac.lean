import MayVerif.Proof.Queue.SpmcA.Inv
namespace MayVerif.SpmcA

set_option hygiene false in
macro "destruct_inv" : tactic => `(tactic| (
  obtain ⟨hown, hfresh, hlck, hgo, hcut, hrd, hahead, hkept, honce, hpub, hwr, hwr1, hownr, hnobad⟩ := h
  simp only at hown hfresh hlck hgo hcut hrd hahead hkept honce hpub hwr hwr1 hownr hnobad))

set_option hygiene false in
/-- prove the clauses of the invariant after the step has been unfolded -/
macro "fin" : tactic => `(tactic| (
  constructor
  case kept => (simp only []; intro i hi; have hk := hkept i; have hk0 := hown (sh.who i) i; have hkt := hown t i
                grind [upd, setWho, goB_lockB, rdB_cutB, cutB_not_lockB, pubB_ownerPc])
  all_goals (simp only []; first | grind [upd, setWho, goB_lockB, rdB_cutB, cutB_not_lockB, pubB_ownerPc] | grind (splits := 40) [upd, setWho, goB_lockB, rdB_cutB, cutB_not_lockB, pubB_ownerPc])))

set_option hygiene false in
macro "destruct_hts" : tactic => `(tactic|
  (cases e <;> simp only [tstep] at hts <;> (try contradiction) <;> (repeat' split at hts) <;> (try contradiction) <;>
   (try simp only [Option.some.injEq, Prod.mk.injEq] at hts) <;> obtain ⟨rfl, rfl⟩ := hts))

end MayVerif.SpmcA
