import MayVerif.Proof.Queue.SpmcA.Tac
namespace MayVerif.SpmcA
local notation "Tid" => Nat

theorem inv_oLoad (n : Nat) (sh : Sh) (pcs : Tid → Pc) (t : Tid) (e : Env)
    (h : Inv ⟨n, sh, pcs⟩) (hpc : pcs t = .oLoad) (sh' : Sh) (pc' : Pc)
    (hts : tstep sh t .oLoad e = some (sh', pc')) : Inv ⟨n, sh', upd pcs t pc'⟩ := by
  destruct_inv
  destruct_hts <;> fin

end MayVerif.SpmcA
