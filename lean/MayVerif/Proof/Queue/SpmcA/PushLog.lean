/-
  Level-A spmc: slot `i` holds the `i`-th pushed value (`InvP`, on top of `Inv`).
-/
import MayVerif.Proof.Queue.SpmcA.Step
namespace MayVerif.SpmcA
local notation "Tid" => Nat

structure InvP (s : St) : Prop where
  pl : s.sh.plog.length = s.sh.tail + (if pubB (s.pcs 0) = true then 1 else 0)
  ps : ∀ i, i < s.sh.plog.length → s.sh.slot i = s.sh.plog[i]?

theorem invP_init (n : Nat) : InvP (init n) := by
  constructor <;> simp [init, pubB]

set_option hygiene false in
/-- steps that neither write a slot nor publish -/
macro "finP" : tactic => `(tactic| (
  constructor
  case ps => exact hps
  case pl => (simp only []; have hw := hownr t; grind [upd, pubB, ownerPc])))

set_option maxHeartbeats 4000000 in
theorem invP_step' (n : Nat) (sh : Sh) (pcs : Tid → Pc) (t : Tid) (e : Env) (pc : Pc)
    (h : Inv ⟨n, sh, pcs⟩) (hp : InvP ⟨n, sh, pcs⟩) (hpc : pcs t = pc) (sh' : Sh) (pc' : Pc)
    (hts : tstep sh t pc e = some (sh', pc')) : InvP ⟨n, sh', upd pcs t pc'⟩ := by
  destruct_inv
  obtain ⟨hpl, hps⟩ := hp
  simp only at hpl hps
  cases pc with
  | oWrite v =>
    have ht0 : t = 0 := hownr t (by simp [hpc, ownerPc])
    subst ht0
    simp [hpc, pubB] at hpl
    simp only [tstep, Option.some.injEq, Prod.mk.injEq] at hts
    obtain ⟨rfl, rfl⟩ := hts
    constructor <;> simp only []
    · simp [upd, pubB]; omega
    · intro i hi
      simp only [List.length_append, List.length_singleton] at hi
      by_cases hit : i = sh.tail
      · subst hit
        simp [upd, hpl]
      · have hlt : i < sh.plog.length := by omega
        simp only [upd, hit, if_false]
        rw [List.getElem?_append_left hlt]
        exact hps i hlt
  | oPub =>
    have ht0 : t = 0 := hownr t (by simp [hpc, ownerPc])
    subst ht0
    simp [hpc, pubB] at hpl
    simp only [tstep, Option.some.injEq, Prod.mk.injEq] at hts
    obtain ⟨rfl, rfl⟩ := hts
    constructor <;> simp only []
    · simp [upd, pubB]; omega
    · exact hps
  | idle => destruct_hts <;> finP
  | oLoad => destruct_hts <;> finP
  | oTry h0 => destruct_hts <;> finP
  | tTry => destruct_hts <;> finP
  | tWait lo hi => destruct_hts <;> finP
  | tLocked lo => destruct_hts <;> finP
  | tBack lo => destruct_hts <;> finP
  | tGo lo hi => destruct_hts <;> finP
  | tRead lo hi => destruct_hts <;> finP
  | tDone lo hi => destruct_hts <;> finP

theorem invP_step (s s' : St) (t : Tid) (e : Env) (h : Inv s) (hp : InvP s) (hs : step s t e = some s') : InvP s' := by
  obtain ⟨n, sh, pcs⟩ := s
  simp only [step] at hs
  split at hs
  case isFalse => contradiction
  next hlt =>
  split at hs
  · contradiction
  next sh' pc' hts =>
  simp only [Option.some.injEq] at hs
  subst hs
  exact invP_step' n sh pcs t e (pcs t) h hp rfl sh' pc' hts

theorem invP_run (s : St) (sched : List (Tid × Env)) (h : Inv s) (hp : InvP s) : InvP (run s sched) := by
  induction sched generalizing s with
  | nil => simpa [run]
  | cons te r ih =>
    obtain ⟨t, e⟩ := te
    simp only [run]
    split
    · next s' hs => exact ih _ (inv_step _ _ _ _ h hs) (invP_step _ _ _ _ h hp hs)
    · exact ih _ h hp

theorem invP_reach (n : Nat) (sched : List (Tid × Env)) : InvP (run (init n) sched) :=
  invP_run _ sched (inv_init n) (invP_init n)

end MayVerif.SpmcA
