import MayVerif.Proof.Queue.SpmcA.Tac
namespace MayVerif.SpmcA
local notation "Tid" => Nat

theorem inv_oWrite (n : Nat) (sh : Sh) (pcs : Tid → Pc) (t : Tid) (e : Env) (v : Nat)
    (h : Inv ⟨n, sh, pcs⟩) (hpc : pcs t = .oWrite v) (sh' : Sh) (pc' : Pc)
    (hts : tstep sh t (.oWrite v) e = some (sh', pc')) : Inv ⟨n, sh', upd pcs t pc'⟩ := by
  destruct_inv
  destruct_hts <;> fin

end MayVerif.SpmcA
