import MayVerif.Proof.Queue.SpmcA.Tac
namespace MayVerif.SpmcA
local notation "Tid" => Nat

theorem inv_tTry (n : Nat) (sh : Sh) (pcs : Tid → Pc) (t : Tid) (e : Env)
    (h : Inv ⟨n, sh, pcs⟩) (hpc : pcs t = .tTry) (sh' : Sh) (pc' : Pc)
    (hts : tstep sh t .tTry e = some (sh', pc')) : Inv ⟨n, sh', upd pcs t pc'⟩ := by
  destruct_inv
  destruct_hts <;> fin

end MayVerif.SpmcA
