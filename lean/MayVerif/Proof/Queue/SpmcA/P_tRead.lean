import MayVerif.Proof.Queue.SpmcA.Tac
namespace MayVerif.SpmcA
local notation "Tid" => Nat

set_option maxHeartbeats 4000000 in
theorem inv_tRead (n : Nat) (sh : Sh) (pcs : Tid → Pc) (t : Tid) (e : Env) (lo hi : Nat)
    (h : Inv ⟨n, sh, pcs⟩) (hpc : pcs t = .tRead lo hi) (sh' : Sh) (pc' : Pc)
    (hts : tstep sh t (.tRead lo hi) e = some (sh', pc')) : Inv ⟨n, sh', upd pcs t pc'⟩ := by
  destruct_inv
  have hhi : hi ≤ sh.tail := by have := hrd t; simp [hpc, rdB, hiOf] at this; exact this
  have hany := any_range_none sh.slot lo hi sh.tail hhi hwr
  destruct_hts <;> fin

end MayVerif.SpmcA
