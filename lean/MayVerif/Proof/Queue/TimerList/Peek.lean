/-
  Visibility of entries to `peek` / `is_empty`: helper lemmas for `tl_peek_sees_completed_push`, `tl_nonempty_peek_some`,
  `tl_members_leave_only_by_consumer`, `tl_is_empty_false_then_peek_some` (Props/C19.lean).

  * entries leave the member list `L` only by two steps of the consumer (`takesOut`: the tail move of pop / pop_if, the unlink
    of remove); every other step of every actor keeps every member (`step_keeps_members`, `run_keeps_members`);
  * `peek` answers `None` only at its `head == tail` test, and only if `L = []`; past that test (`kNext`) the list is not empty
    (`InvK`, a small invariant on top of `Inv` / `InvL`), it waits exactly while the producer of the oldest member sits between
    its swap and its store of `prev.next`, and then returns the value of the oldest member (`peek_step`, `head_detached`).
-/
import MayVerif.Proof.Queue.TimerList.Head
namespace MayVerif.TimerList

/-- the two steps by which an entry leaves the list: the tail move of pop / pop_if, the unlink of remove -/
def takesOut : Pc → Bool
  | .cTail .. | .rSetNext .. => true
  | _ => false

/-- along `sched` from `s` actor 0 (the consumer) executes no take-out step (disabled choices are skipped, as in `run`) -/
def noTakeOut (s : St) : List (Tid × Env) → Bool
  | [] => true
  | (t, e) :: r => match step s t e with
    | some s' => (decide (t ≠ 0) || !takesOut (s.pcs 0)) && noTakeOut s' r
    | none => noTakeOut s r

theorem run_append (s : St) (a b : List (Tid × Env)) : run s (a ++ b) = run (run s a) b := by
  induction a generalizing s with
  | nil => rfl
  | cons te r ih =>
    obtain ⟨t, e⟩ := te
    simp only [List.cons_append, run]
    split <;> exact ih _

theorem head_tail_iff (s : St) (hi : Inv s) (hl : InvL s) : s.sh.head = s.sh.tail ↔ s.sh.L = [] := by
  have hc := chain_of_inv s hi hl
  constructor
  · intro h
    apply List.eq_nil_iff_forall_not_mem.mpr
    intro m hm
    have := hc.members m hm
    omega
  · intro h
    rcases hc.head_live.1 with h1 | h1
    · exact h1
    · rw [h] at h1; simp at h1

/-- every step but the consumer's two take-out steps keeps every member -/
theorem step_keeps_members (s s' : St) (t : Tid) (e : Env) (hi : Inv s) (hs : step s t e = some s')
    (h : t ≠ 0 ∨ takesOut (s.pcs 0) = false) : ∀ m, m ∈ s.sh.L → m ∈ s'.sh.L := by
  obtain ⟨sh', pc', hts, rfl⟩ := step_at s s' t e hs
  intro m hm
  simp only []
  by_cases c1 : ∃ v, s.pcs t = .pSwap v
  · obtain ⟨v, hpc⟩ := c1
    rw [hpc] at hts
    simp only [tstep, Option.some.injEq, Prod.mk.injEq] at hts
    obtain ⟨rfl, _⟩ := hts
    simp [hm]
  · by_cases c2 : ∃ x k, s.pcs t = .cTail x k
    · obtain ⟨x, k, hpc⟩ := c2
      have ht0 : t = 0 := cons_is_zero hi.hC hpc rfl
      subst ht0
      rcases h with h | h
      · exact absurd rfl h
      · rw [hpc] at h; simp [takesOut] at h
    · by_cases c3 : ∃ m p x, s.pcs t = .rSetNext m p x
      · obtain ⟨m', p, x, hpc⟩ := c3
        have ht0 : t = 0 := cons_is_zero hi.hC hpc rfl
        subst ht0
        rcases h with h | h
        · exact absurd rfl h
        · rw [hpc] at h; simp [takesOut] at h
      · have := tstep_same s.sh sh' t (s.pcs t) pc' e hts
          (fun v hv => c1 ⟨v, hv⟩) (fun x k hv => c2 ⟨x, k, hv⟩) (fun m p x hv => c3 ⟨m, p, x, hv⟩)
        rw [this.1]; exact hm

theorem run_keeps_members (s : St) (sched : List (Tid × Env)) (hi : Inv s) (hl : InvL s) (hno : noTakeOut s sched = true) :
    ∀ m, m ∈ s.sh.L → m ∈ (run s sched).sh.L := by
  induction sched generalizing s with
  | nil => intro m hm; simpa [run] using hm
  | cons te r ih =>
    obtain ⟨t, e⟩ := te
    cases hst : step s t e with
    | none =>
      simp only [noTakeOut, hst] at hno
      simp only [run, hst]
      exact ih s hi hl hno
    | some s' =>
      simp only [noTakeOut, hst, Bool.and_eq_true, Bool.or_eq_true, decide_eq_true_eq, Bool.not_eq_true'] at hno
      simp only [run, hst]
      intro m hm
      exact ih s' (inv_step _ _ _ _ hi hst) (invL_step _ _ _ _ hi hl hst) hno.2 m (step_keeps_members s s' t e hi hst hno.1 m hm)

/-- what the two steps of `peek` do -/
theorem peek_tstep (sh sh' : Sh) (me : Tid) (pc pc' : Pc) (e : Env) (hpc : pc = .kHead ∨ pc = .kNext)
    (hts : tstep sh me pc e = some (sh', pc')) :
    sh' = sh ∧
    ((pc = .kHead ∧ sh.head = sh.tail ∧ pc' = .ret (-1)) ∨
     (pc = .kHead ∧ sh.head ≠ sh.tail ∧ pc' = .kNext) ∨
     (pc = .kNext ∧ sh.next sh.tail = 0 ∧ pc' = .kNext) ∨
     (pc = .kNext ∧ sh.next sh.tail ≠ 0 ∧ ∃ v : Nat, sh.val (sh.next sh.tail) = some v ∧ pc' = .ret v)) := by
  rcases hpc with rfl | rfl
  · simp only [tstep] at hts
    split at hts <;> simp only [Option.some.injEq, Prod.mk.injEq] at hts <;> obtain ⟨rfl, rfl⟩ := hts <;> simp_all
  · simp only [tstep] at hts
    split at hts
    · simp only [Option.some.injEq, Prod.mk.injEq] at hts
      obtain ⟨rfl, rfl⟩ := hts
      simp_all
    · split at hts
      · contradiction
      · next v hv =>
        simp only [Option.some.injEq, Prod.mk.injEq] at hts
        obtain ⟨rfl, rfl⟩ := hts
        simp_all

/-- while the consumer is not re-linking, a non-null `next` of the stub is the oldest member, linked and with its value -/
theorem stub_next_is_head (s : St) (hi : Inv s) (hl : InvL s) (hmid : midA (s.pcs 0) s.sh.tail s.sh.tail = false)
    (hn : s.sh.next s.sh.tail ≠ 0) :
    s.sh.L.head? = some (s.sh.next s.sh.tail) ∧ s.sh.lk (s.sh.next s.sh.tail) = true ∧
    s.sh.val (s.sh.next s.sh.tail) = some (s.sh.pv (s.sh.next s.sh.tail)) := by
  obtain ⟨h1, h2, _, _, h5⟩ := hi.d1 s.sh.tail (Or.inl rfl) hmid hn
  refine ⟨?_, h2, hi.vM _ h1⟩
  apply head_of_sorted_min ((hl.l1 _).mpr h1) _ hl.l2
  intro b hb
  have hb' := (hl.l1 b).mp hb
  exact h5 b hb' (hi.hM b hb').1

/-- while the consumer is not re-linking: if nothing is linked behind the stub, the oldest member is detached – its producer
    sits between the swap and the store of `prev.next` -/
theorem head_detached (s : St) (hi : Inv s) (hl : InvL s) (hmA : ∀ a, midA (s.pcs 0) s.sh.tail a = false)
    (hmB : ∀ b, midB (s.pcs 0) b = false) (m : Nid) (hm : s.sh.L.head? = some m) (hn : s.sh.next s.sh.tail = 0) :
    s.sh.lk m = false ∧ (s.pcs (s.sh.own m) = .pPrev m (m - 1) ∨ s.pcs (s.sh.own m) = .pLink m (m - 1)) := by
  have hmL : m ∈ s.sh.L := by
    cases hL : s.sh.L with
    | nil => rw [hL] at hm; simp at hm
    | cons a r => rw [hL] at hm; simp at hm; subst hm; simp
  have hmin : ∀ b, b ∈ s.sh.L → m ≤ b := by
    intro b hb
    cases hL : s.sh.L with
    | nil => rw [hL] at hb; simp at hb
    | cons a r =>
      rw [hL] at hm hb
      simp at hm; subst hm
      have hs := hl.l2; rw [hL] at hs
      rcases List.mem_cons.mp hb with h | h
      · omega
      · have := (List.pairwise_cons.mp hs).1 b h; omega
  have hst := (hl.l1 m).mp hmL
  have hgt := hi.hM m hst
  cases hk : s.sh.lk m with
  | false =>
    refine ⟨rfl, ?_⟩
    exact (hi.d3 m (m - 1) hst hk (by omega)).2.2
  | true =>
    exfalso
    obtain ⟨h1, h2, h3⟩ := hi.d2 m hst hk (hmB m)
    rcases h2 with h2 | h2
    · rw [h2] at h3; omega
    · have hnz : s.sh.next (s.sh.prev m) ≠ 0 := by rw [h3]; omega
      obtain ⟨_, _, h6, _, _⟩ := hi.d1 (s.sh.prev m) (Or.inr h2) (hmA _) hnz
      have := hmin _ ((hl.l1 _).mpr h2)
      omega

/-- past its `head == tail` test, `peek` has a non-empty list in front of it -/
def InvK (s : St) : Prop := s.pcs 0 = .kNext → s.sh.L ≠ []

theorem invK_init (n : Nat) : InvK (init n) := by
  intro h; simp [init] at h

/-- the steps that lead to the program point `kNext` -/
theorem tstep_to_kNext (sh sh' : Sh) (me : Tid) (pc : Pc) (e : Env) (hts : tstep sh me pc e = some (sh', .kNext)) :
    sh' = sh ∧ ((pc = .kHead ∧ sh.head ≠ sh.tail) ∨ pc = .kNext) := by
  cases pc <;>
    (first
      | (cases e <;> simp only [tstep, decRef] at hts <;> (try contradiction) <;> (repeat' split at hts) <;> (try contradiction) <;>
          (try simp only [Option.some.injEq, Prod.mk.injEq, Option.map_some, reduceCtorEq, and_false] at hts) <;>
          (try contradiction) <;> (obtain ⟨rfl, _⟩ := hts) <;> simp_all))

theorem invK_step (s s' : St) (t : Tid) (e : Env) (hi : Inv s) (hl : InvL s) (hk : InvK s) (hs : step s t e = some s') :
    InvK s' := by
  intro hpc'
  by_cases ht : t = 0
  · subst ht
    obtain ⟨sh', pc', hts, rfl⟩ := step_at s s' 0 e hs
    simp only [upd_same] at hpc'
    subst hpc'
    obtain ⟨rfl, h | h⟩ := tstep_to_kNext _ _ _ _ _ hts
    · simp only []
      intro hL
      exact h.2 ((head_tail_iff s hi hl).mpr hL)
    · exact hk h
  · have hsame : s'.pcs 0 = s.pcs 0 := by
      obtain ⟨sh', pc', _, rfl⟩ := step_at s s' t e hs
      have : (0 : Nat) ≠ t := fun h => ht h.symm
      simp [upd, this]
    rw [hsame] at hpc'
    have hne := hk hpc'
    intro hL
    cases hL0 : s.sh.L with
    | nil => exact hne hL0
    | cons a r =>
      have : a ∈ s'.sh.L := step_keeps_members s s' t e hi hs (Or.inl ht) a (by rw [hL0]; simp)
      rw [hL] at this
      simp at this

theorem all_run (s : St) (sched : List (Tid × Env)) (h : Inv s) (hl : InvL s) (hk : InvK s) :
    Inv (run s sched) ∧ InvL (run s sched) ∧ InvK (run s sched) := by
  induction sched generalizing s with
  | nil => exact ⟨by simpa [run], by simpa [run], by simpa [run]⟩
  | cons te r ih =>
    obtain ⟨t, e⟩ := te
    simp only [run]
    split
    · next s' hs => exact ih _ (inv_step _ _ _ _ h hs) (invL_step _ _ _ _ h hl hs) (invK_step _ _ _ _ h hl hk hs)
    · exact ih _ h hl hk

theorem invK_reach (n : Nat) (sched : List (Tid × Env)) : InvK (run (init n) sched) :=
  (all_run _ sched (inv_init n) (invL_init n) (invK_init n)).2.2

/-- one step of `peek` in a state that satisfies the invariants -/
theorem peek_step (s s' : St) (e : Env) (hi : Inv s) (hl : InvL s) (hk : InvK s)
    (hpc : s.pcs 0 = .kHead ∨ s.pcs 0 = .kNext) (hs : step s 0 e = some s') :
    s'.sh = s.sh ∧
    ((s.pcs 0 = .kHead ∧ s.sh.L = [] ∧ s'.pcs 0 = .ret (-1)) ∨
     (∃ m, s.sh.L.head? = some m ∧
       ((s.pcs 0 = .kHead ∧ s'.pcs 0 = .kNext) ∨
        (s.pcs 0 = .kNext ∧ s.sh.lk m = false ∧ s'.pcs 0 = .kNext ∧
          (s.pcs (s.sh.own m) = .pPrev m (m - 1) ∨ s.pcs (s.sh.own m) = .pLink m (m - 1))) ∨
        (s.pcs 0 = .kNext ∧ s.sh.lk m = true ∧ s'.pcs 0 = .ret (s.sh.pv m))))) := by
  obtain ⟨sh', pc', hts, rfl⟩ := step_at s s' 0 e hs
  obtain ⟨rfl, hc⟩ := peek_tstep _ _ _ _ _ _ hpc hts
  refine ⟨rfl, ?_⟩
  simp only [upd_same]
  have hmA : ∀ a, midA (s.pcs 0) s.sh.tail a = false := by
    intro a; rcases hpc with h | h <;> rw [h] <;> rfl
  have hmB : ∀ b, midB (s.pcs 0) b = false := by
    intro b; rcases hpc with h | h <;> rw [h] <;> rfl
  have hhead : s.sh.L ≠ [] → ∃ m, s.sh.L.head? = some m := by
    intro h
    cases hL : s.sh.L with
    | nil => exact absurd hL h
    | cons a r => exact ⟨a, rfl⟩
  rcases hc with ⟨h1, h2, h3⟩ | ⟨h1, h2, h3⟩ | ⟨h1, h2, h3⟩ | ⟨h1, h2, v, h3, h4⟩
  · exact Or.inl ⟨h1, (head_tail_iff s hi hl).mp h2, h3⟩
  · right
    obtain ⟨m, hm⟩ := hhead (fun hL => h2 ((head_tail_iff s hi hl).mpr hL))
    exact ⟨m, hm, Or.inl ⟨h1, h3⟩⟩
  · right
    obtain ⟨m, hm⟩ := hhead (hk h1)
    obtain ⟨h5, h6⟩ := head_detached s hi hl hmA hmB m hm h2
    exact ⟨m, hm, Or.inr (Or.inl ⟨h1, h5, h3, h6⟩)⟩
  · right
    obtain ⟨h5, h6, h7⟩ := stub_next_is_head s hi hl (hmA _) h2
    refine ⟨_, h5, Or.inr (Or.inr ⟨h1, h6, ?_⟩)⟩
    rw [h7] at h3
    simp only [Option.some.injEq] at h3
    rw [h4, h3]

end MayVerif.TimerList
