/-
  The head report of `push` (`is_head = (tail == prev)` at the racy tail read) in terms of the list: helper lemmas for
  `tl_is_head_exact` / `tl_no_missed_head`.
-/
import MayVerif.Proof.Queue.TimerList.Chain
namespace MayVerif.TimerList

theorem step_at (s s' : St) (t : Tid) (e : Env) (hs : step s t e = some s') :
    ∃ sh' pc', tstep s.sh t (s.pcs t) e = some (sh', pc') ∧ s' = ⟨s.n, sh', upd s.pcs t pc'⟩ := by
  simp only [step] at hs
  split at hs
  case isFalse => contradiction
  split at hs
  · contradiction
  split at hs
  · contradiction
  next sh' pc' hts =>
  simp only [Option.some.injEq] at hs
  exact ⟨sh', pc', hts, hs.symm⟩

/-- at the tail read of the push of node `nd` (local `prev = p`) -/
theorem head_report (s s' : St) (t : Tid) (nd p : Nid) (e : Env) (hi : Inv s) (hl : InvL s)
    (hpc : s.pcs t = .pTail nd p) (hs : step s t e = some s') :
    p = s.sh.sp nd ∧ p + 1 = nd ∧
    (s'.sh.ih nd = true ↔ (s.sh.tail = s.sh.sp nd ∨ (e = .aba ∧ s.sh.freed p = true ∧ s.sh.fa p ≤ s.sh.tail ∧ s.sh.tail ≠ p))) ∧
    s'.pcs t = .ret (b2i (s'.sh.ih nd)) ∧
    (s.sh.tail = s.sh.sp nd → s.sh.st nd = .member ∧ s.sh.L.head? = some nd) := by
  obtain ⟨sh', pc', hts, rfl⟩ := step_at s s' t e hs
  rw [hpc] at hts
  obtain ⟨hlk, hrd, hp1, h2, hlt, _, _⟩ := hi.pC t nd p hpc
  have hsp := hi.sP nd h2 hlt
  have hpe : p = s.sh.sp nd := by omega
  refine ⟨hpe, hp1, ?_, ?_, ?_⟩
  · rcases pTail_step _ _ _ _ _ _ _ hts with ⟨he, h1, h3, h4, h5, _⟩ | ⟨he, h5, _⟩
    · simp only [h5, true_iff]
      exact Or.inr ⟨he, h1, h3, h4⟩
    · simp only [h5, decide_eq_true_eq, ← hpe]
      constructor
      · exact Or.inl
      · rintro (h | ⟨h, _⟩)
        · exact h
        · exact absurd h he
  · rcases pTail_step _ _ _ _ _ _ _ hts with ⟨_, _, _, _, h5, h6⟩ | ⟨_, h5, h6⟩
    · simp [upd, h5, h6, b2i]
    · simp [upd, h5, h6]
  · intro htl
    have hst : s.sh.st nd = .member := by
      have h0 := hi.hS nd h2 hlt
      have hP := hi.hP nd
      have hR := hi.hR nd
      cases hc : s.sh.st nd with
      | none => exact absurd hc h0
      | member => rfl
      | popped => have := (hP hc).1; omega
      | removed => have := hR hc; rw [hrd] at this; contradiction
    refine ⟨hst, ?_⟩
    apply head_of_sorted_min ((hl.l1 nd).mpr hst) _ hl.l2
    intro b hb
    have := (hi.hM b ((hl.l1 b).mp hb)).1
    omega

/-- the stub never moves backwards: the stub seen by a swap is at most the current one -/
theorem ts_le_tail (s : St) (hi : Inv s) (m : Nid) : s.sh.ts m ≤ s.sh.tail := hi.tS m

end MayVerif.TimerList
