/- preservation of `Inv` by the step at program point `idle_popIf` (generated skeleton: per clause, the clauses it depends on) -/
import MayVerif.Proof.Queue.TimerList.Inv
namespace MayVerif.TimerList

set_option maxHeartbeats 1000000 in
theorem inv_idle_popIf (nn : Nat) (sh : Sh) (pcs : Tid → Pc) (t : Tid) (acc : List Nat) (_hlt : t < nn)
    (h : Inv ⟨nn, sh, pcs⟩) (hpc : pcs t = .idle) (sh' : Sh) (pc' : Pc)
    (hts : tstep sh t .idle (.popIf acc) = some (sh', pc')) : Inv ⟨nn, sh', upd pcs t pc'⟩ := by
  have ht0 : t = 0 := by
    simp only [tstep] at hts; split at hts
    · next hg => first | exact hg | exact hg.1
    · contradiction
  subst ht0
  have hcc : isPush (pcs 0) = false := by rw [hpc]; rfl
  have kK := True.intro
  skip
  split_hts
  all_goals (constructor <;> simp only [])
  try (any_goals (case hF => ((bring hF hN hT hM; pcnorm; cnorm) <;> grind)))
  try (any_goals (case hN => ((bring hN hF hT hM; pcnorm; cnorm) <;> grind)))
  try (any_goals (case hT => ((bring hT hF hN hM; pcnorm; cnorm) <;> grind)))
  try (any_goals (case hV => ((bring hV hF hN hT hM; pcnorm; cnorm) <;> grind)))
  try (any_goals (case hM => ((bring hM hF hN hT; pcnorm; cnorm) <;> grind)))
  try (any_goals (case hP => ((bring hP hF hN hT hM; pcnorm; cnorm) <;> grind)))
  try (any_goals (case hR => ((bring hR hF hN hT hM; pcnorm; cnorm) <;> grind)))
  try (any_goals (case hS => ((bring hS hF hN hT hM; pcnorm; cnorm) <;> grind)))
  try (any_goals (case hC => (exact hC_upd _ _ _ h.hC (by simp [isCons]))))
  try (any_goals (case vM => ((bring vM hF hN hT hM; pcnorm; cnorm) <;> grind)))
  try (any_goals (case vN => ((bring vN hF hN hT hM; (try rw [hpc] at vN); pcnorm at vN; pcnorm; cnorm) <;> grind)))
  try (any_goals (case vT => ((bring vT hF hN hT hM; (try rw [hpc] at vT); pcnorm at vT; pcnorm; cnorm) <;> grind)))
  try (any_goals (case vO => ((bring vO hF hN hT hM; (try rw [hpc] at vO); pcnorm at vO; pcnorm; cnorm) <;> grind)))
  try (any_goals (case lM => ((bring lM hF hN hT hM; (try rw [hpc] at lM); pcnorm at lM; pcnorm; cnorm) <;> grind)))
  try (any_goals (case lN => ((bring lN hF hN hT hM; pcnorm; cnorm) <;> grind)))
  try (any_goals (case lU => ((bring lU hF hN hT hM; (try rw [hpc] at lU); pcnorm at lU; pcnorm; cnorm) <;> grind)))
  try (any_goals (case pT => ((bring pT hF hN hT hM; pcnorm; cnorm) <;> grind)))
  try (any_goals (case hH => ((bring hH hF hN hT hM; pcnorm; cnorm) <;> grind)))
  try (any_goals (case hK => (exact hK_upd _ _ _ _ _ h.hK (by grind) (by pcnorm; (try ((bring hF hN hT hM; pcnorm; cnorm) <;> grind))))))
  try (any_goals (case rL => ((bring rL hF hN hT hM; pcnorm; cnorm) <;> grind)))
  try (any_goals (case pA => ((bring pA hF hN hT hM; pcnorm; cnorm) <;> grind)))
  try (any_goals (case pB => ((bring pB hF hN hT hM; pcnorm; cnorm) <;> grind)))
  try (any_goals (case pC => ((bring pC hF hN hT hM; pcnorm; cnorm) <;> grind)))
  try (any_goals (case sP => ((bring sP hF hN hT hM; pcnorm; cnorm) <;> grind)))
  try (any_goals (case tS => ((bring tS hF hN hT hM; pcnorm; cnorm) <;> grind)))
  try (any_goals (case d1 => ((bring d1 hF hN hT hM; (try rw [hpc] at d1); pcnorm at d1; pcnorm; cnorm) <;> grind)))
  try (any_goals (case d2 => ((bring d2 hF hN hT hM; (try rw [hpc] at d2); pcnorm at d2; pcnorm; cnorm) <;> grind)))
  try (any_goals (case d3 => ((bring d3 hF hN hT hM; pcnorm; cnorm) <;> grind)))
  try (any_goals (case d4 => ((bring d4 hF hN hT hM; pcnorm; cnorm) <;> grind)))
  try (any_goals (case cA => ((bring hF hN hT hM; pcnorm; cnorm) <;> grind)))
  try (any_goals (case cI => ((bring hF hN hT hM; pcnorm; cnorm) <;> grind)))
  try (any_goals (case cB => ((bring hF hN hT hM; pcnorm; cnorm) <;> grind)))
  try (any_goals (case cC => ((bring hF hN hT hM; pcnorm; cnorm) <;> grind)))
  try (any_goals (case rC => ((bring hF hN hT hM; pcnorm; cnorm) <;> grind)))
  try (any_goals (case rD => ((bring hF hN hT hM; pcnorm; cnorm) <;> grind)))
  try (any_goals (case rA => ((bring hF hN hT hM; pcnorm; cnorm) <;> grind)))
  try (any_goals (case rB => ((bring hF hN hT hM; pcnorm; cnorm) <;> grind)))
  try (any_goals (case hW => ((bring hW hF hN hT hM; pcnorm; cnorm) <;> grind)))
  try (any_goals (case r1 => ((bring r1 hF hN hT hM; pcnorm; cnorm) <;> grind)))
  try (any_goals (case r2 => ((bring r2 hF hN hT hM; pcnorm; cnorm) <;> grind)))
  try (any_goals (case r3 => ((bring r3 hF hN hT hM; pcnorm; cnorm) <;> grind)))
  try (any_goals (case r5 => ((bring r5 hF hN hT hM; pcnorm; cnorm) <;> grind)))
  try (any_goals (case r6 => ((bring r6 hF hN hT hM; pcnorm; cnorm) <;> grind)))
  try (any_goals (case r6q => ((bring hF r6q dT; (try rw [hpc] at r6q); pcnorm at r6q; pcnorm; cnorm) <;> grind)))
  try (any_goals (case r7 => ((bring r7 hF hN hT hM; (try rw [hpc] at r7); pcnorm at r7; pcnorm; cnorm) <;> grind)))
  try (any_goals (case hTs => ((bring hTs hF hN hT hM; pcnorm; cnorm) <;> grind)))
  try (any_goals (case r8a => ((bring r8a hF hN hT hM; pcnorm; cnorm) <;> grind)))
  try (any_goals (case r8b => ((bring r8b hF hN hT hM; pcnorm; cnorm) <;> grind)))
  try (any_goals (case r8c => ((bring r8c hF hN hT hM; pcnorm; cnorm) <;> grind)))
  try (any_goals (case r8d =>
    refine r8d_upd _ _ _ _ _ _ _ h.r8d ?_ ?_
    · (intro u m hu h1 h2) <;> (have hkt := h.r8d 0; dsimp only at hkt; rw [hpc] at hkt; pcnorm at hkt; bring r8a) <;> grind
    · (intro m hm; pcnorm at hm) <;> (have hkt := h.r8d 0; dsimp only at hkt; rw [hpc] at hkt; pcnorm at hkt; bring r8a) <;> grind))
  try (any_goals (case r9 => ((bring r9 hF hN hT hM; pcnorm; cnorm) <;> grind)))
  try (any_goals (case r10 => ((bring r10 hF hN hT hM; (try rw [hpc] at r10); pcnorm at r10; pcnorm; cnorm) <;> grind)))
  try (any_goals (case dT => ((bring dT hF hN hT hM; pcnorm; cnorm) <;> grind)))
  try (any_goals (case dK => ((bring dK hF hN hT hM; (try rw [hpc] at dK); pcnorm at dK; pcnorm; cnorm) <;> grind)))
  try (any_goals (case dD =>
    refine dD_upd _ _ _ _ _ h.dD ?_ ?_
    · intro hd; first | exact hd | simp at hd
    · (intro hd; have hdt := h.dD 0; dsimp only at hdt; rw [hpc] at hdt; pcnorm at hdt; pcnorm) <;> simp_all))
  try (any_goals (case hI => (exact hI_upd _ _ _ _ _hlt h.hI)))
  try (any_goals (case dE1 => ((bring dE1 hF hN hT hM; pcnorm; cnorm) <;> grind)))
  try (any_goals (case dE => ((bring dE hF hN hT hM; pcnorm; cnorm) <;> grind)))

end MayVerif.TimerList
