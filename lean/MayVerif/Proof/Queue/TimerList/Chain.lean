/-
  The `Chain` invariant of DESIGN App. G.1 in terms of the ghost member list `L` (what `tl_wellformed` states), derived
  from the pointer-level invariant `Inv` (about the per-node status `st`) and the lists invariant `InvL`; and the facts about
  the tail read of `push` that the head-report theorems use.
-/
import MayVerif.Proof.Queue.TimerList.Lists
namespace MayVerif.TimerList

/-- the consumer's stub or a member of the list -/
def live (s : St) (a : Nid) : Prop := a = s.sh.tail ∨ a ∈ s.sh.L

/-- Between `tail` and `head` the `next` chain contains exactly the members `L` in push (swap) order, `prev` is its inverse
    wherever both ends are linked, and the chain is detached exactly in front of the nodes whose producers sit between the
    swap and the store of `prev.next` (with that producer's locals being exactly the two nodes). `midA` / `midB` are the
    consumer's own two-store windows (between `(*next).prev = …` and the store that makes the forward link agree again). -/
structure Chain (s : St) : Prop where
  members : ∀ m, m ∈ s.sh.L → s.sh.tail < m ∧ m ≤ s.sh.head
  sorted : s.sh.L.Pairwise (· < ·)
  head_live : live s s.sh.head ∧ s.sh.next s.sh.head = 0
  stub_clean : s.sh.prev s.sh.tail = 0 ∧ 1 ≤ s.sh.tail ∧ s.sh.tail ≤ s.sh.head
  fwd : ∀ a, live s a → midA (s.pcs 0) s.sh.tail a = false → s.sh.next a ≠ 0 →
        s.sh.next a ∈ s.sh.L ∧ s.sh.lk (s.sh.next a) = true ∧ a < s.sh.next a ∧ s.sh.prev (s.sh.next a) = a ∧
        ∀ c, c ∈ s.sh.L → a < c → s.sh.next a ≤ c
  bwd : ∀ b, b ∈ s.sh.L → s.sh.lk b = true → midB (s.pcs 0) b = false →
        s.sh.prev b ≠ 0 ∧ live s (s.sh.prev b) ∧ s.sh.next (s.sh.prev b) = b
  detached : ∀ b, b ∈ s.sh.L → s.sh.lk b = false →
        live s (b - 1) ∧ s.sh.next (b - 1) = 0 ∧ s.sh.sp b = b - 1 ∧
        (s.pcs (s.sh.own b) = .pPrev b (b - 1) ∨ s.pcs (s.sh.own b) = .pLink b (b - 1))
  values : ∀ m, m ∈ s.sh.L → s.sh.val m = some (s.sh.pv m)

theorem chain_of_inv (s : St) (hi : Inv s) (hl : InvL s) : Chain s := by
  have l1 := hl.l1
  have hM := hi.hM
  have hN := hi.hN
  have hT := hi.hT
  constructor
  · intro m hm
    have := hM m ((l1 m).mp hm)
    omega
  · exact hl.l2
  · have := hi.d4
    refine ⟨?_, this.2⟩
    rcases this.1 with h | h
    · exact Or.inl h
    · exact Or.inr ((l1 _).mpr h)
  · exact ⟨hi.pT, hT.1, hT.2⟩
  · intro a ha hm hn
    have ha' : a = s.sh.tail ∨ s.sh.st a = .member := ha.imp id (fun h => (l1 a).mp h)
    obtain ⟨h1, h2, h3, h4, h5⟩ := hi.d1 a ha' hm hn
    exact ⟨(l1 _).mpr h1, h2, h3, h4, fun c hc hac => h5 c ((l1 c).mp hc) hac⟩
  · intro b hb hk hm
    obtain ⟨h1, h2, h3⟩ := hi.d2 b ((l1 b).mp hb) hk hm
    exact ⟨h1, h2.imp id (fun h => (l1 _).mpr h), h3⟩
  · intro b hb hk
    have hbm := (l1 b).mp hb
    have hb1 := hM b hbm
    have e : b - 1 + 1 = b := by omega
    obtain ⟨h1, h2, h3⟩ := hi.d3 b (b - 1) hbm hk e
    have hsp := hi.sP b (by omega) hb1.2
    exact ⟨h1.imp id (fun h => (l1 _).mpr h), h2, by omega, h3⟩
  · intro m hm
    exact hi.vM m ((l1 m).mp hm)

/-- what the tail read of `push` does -/
theorem pTail_step (sh sh' : Sh) (me : Tid) (nd p : Nid) (e : Env) (pc' : Pc)
    (h : tstep sh me (.pTail nd p) e = some (sh', pc')) :
    (e = .aba ∧ sh.freed p = true ∧ sh.fa p ≤ sh.tail ∧ sh.tail ≠ p ∧ sh'.ih nd = true ∧ pc' = .ret 1) ∨
    (e ≠ .aba ∧ sh'.ih nd = decide (sh.tail = p) ∧ pc' = .ret (b2i (decide (sh.tail = p)))) := by
  cases e <;> simp only [tstep] at h <;> (try split at h) <;> (try contradiction) <;>
    simp only [Option.some.injEq, Prod.mk.injEq] at h <;> obtain ⟨rfl, rfl⟩ := h <;> simp_all [upd]

end MayVerif.TimerList
