/- preservation of `Inv` by the step at program point `idle_peek` (generated skeleton: per clause, the clauses it depends on) -/
import MayVerif.Proof.Queue.TimerList.Inv
namespace MayVerif.TimerList

set_option maxHeartbeats 1000000 in
theorem inv_idle_peek (nn : Nat) (sh : Sh) (pcs : Tid → Pc) (t : Tid)  (_hlt : t < nn)
    (h : Inv ⟨nn, sh, pcs⟩) (hpc : pcs t = .idle) (sh' : Sh) (pc' : Pc)
    (hts : tstep sh t .idle .peek = some (sh', pc')) : Inv ⟨nn, sh', upd pcs t pc'⟩ := by
  have ht0 : t = 0 := by
    simp only [tstep] at hts; split at hts
    · next hg => first | exact hg | exact hg.1
    · contradiction
  subst ht0
  have hcc : isPush (pcs 0) = false := by rw [hpc]; rfl
  have kK := True.intro
  skip
  split_hts
  all_goals (constructor <;> simp only [])
  try (any_goals (case hN => ((bring hN hT hM; pcnorm; cnorm) <;> grind)))
  try (any_goals (case hT => ((bring hT hN hM; pcnorm; cnorm) <;> grind)))
  try (any_goals (case hV => ((bring hV hN hT hM; pcnorm; cnorm) <;> grind)))
  try (any_goals (case hM => ((bring hM hN hT; pcnorm; cnorm) <;> grind)))
  try (any_goals (case hP => ((bring hP hN hT hM; pcnorm; cnorm) <;> grind)))
  try (any_goals (case hR => ((bring hR hN hT hM; pcnorm; cnorm) <;> grind)))
  try (any_goals (case hS => ((bring hS hN hT hM; pcnorm; cnorm) <;> grind)))
  try (any_goals (case hC => (exact hC_upd _ _ _ h.hC (by simp [isCons]))))
  try (any_goals (case vM => ((bring vM hN hT hM; pcnorm; cnorm) <;> grind)))
  try (any_goals (case vN => ((bring vN hN hT hM; (try rw [hpc] at vN); pcnorm at vN; pcnorm; cnorm) <;> grind)))
  try (any_goals (case vT => ((bring vT hN hT hM; (try rw [hpc] at vT); pcnorm at vT; pcnorm; cnorm) <;> grind)))
  try (any_goals (case vO => ((bring vO hN hT hM; (try rw [hpc] at vO); pcnorm at vO; pcnorm; cnorm) <;> grind)))
  try (any_goals (case lM => ((bring lM hN hT hM; (try rw [hpc] at lM); pcnorm at lM; pcnorm; cnorm) <;> grind)))
  try (any_goals (case lN => ((bring lN hN hT hM; pcnorm; cnorm) <;> grind)))
  try (any_goals (case lU => ((bring lU hN hT hM; (try rw [hpc] at lU); pcnorm at lU; pcnorm; cnorm) <;> grind)))
  try (any_goals (case pT => ((bring pT hN hT hM; pcnorm; cnorm) <;> grind)))
  try (any_goals (case hH => ((bring hH hN hT hM; pcnorm; cnorm) <;> grind)))
  try (any_goals (case hK => (exact hK_upd _ _ _ _ _ h.hK (by grind) (by pcnorm; (try ((bring hN hT hM; pcnorm; cnorm) <;> grind))))))
  try (any_goals (case rL => ((bring rL hN hT hM; pcnorm; cnorm) <;> grind)))
  try (any_goals (case pA => ((bring pA hN hT hM; pcnorm; cnorm) <;> grind)))
  try (any_goals (case pB => ((bring pB hN hT hM; pcnorm; cnorm) <;> grind)))
  try (any_goals (case pC => ((bring pC hN hT hM; pcnorm; cnorm) <;> grind)))
  try (any_goals (case sP => ((bring sP hN hT hM; pcnorm; cnorm) <;> grind)))
  try (any_goals (case tS => ((bring tS hN hT hM; pcnorm; cnorm) <;> grind)))
  try (any_goals (case d1 => ((bring d1 hN hT hM; (try rw [hpc] at d1); pcnorm at d1; pcnorm; cnorm) <;> grind)))
  try (any_goals (case d2 => ((bring d2 hN hT hM; (try rw [hpc] at d2); pcnorm at d2; pcnorm; cnorm) <;> grind)))
  try (any_goals (case d3 => ((bring d3 hN hT hM; pcnorm; cnorm) <;> grind)))
  try (any_goals (case d4 => ((bring d4 hN hT hM; pcnorm; cnorm) <;> grind)))
  try (any_goals (case cA => ((bring hN hT hM; pcnorm; cnorm) <;> grind)))
  try (any_goals (case cI => ((bring hN hT hM; pcnorm; cnorm) <;> grind)))
  try (any_goals (case cB => ((bring hN hT hM; pcnorm; cnorm) <;> grind)))
  try (any_goals (case cC => ((bring hN hT hM; pcnorm; cnorm) <;> grind)))
  try (any_goals (case rC => ((bring hN hT hM; pcnorm; cnorm) <;> grind)))
  try (any_goals (case rD => ((bring hN hT hM; pcnorm; cnorm) <;> grind)))
  try (any_goals (case rA => ((bring hN hT hM; pcnorm; cnorm) <;> grind)))
  try (any_goals (case rB => ((bring hN hT hM; pcnorm; cnorm) <;> grind)))

end MayVerif.TimerList
