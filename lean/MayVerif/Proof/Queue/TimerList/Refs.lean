/-
  Memory safety of the fixed list: which node a step dereferences (`touches`), and why that node is not freed –
  every such node is owned by the list (`lr`: member, the stub while the queue exists, a node the consumer is retiring)
  or by a handle (`hr`: handle exists, is inside a call, or is still being made by a push), `rc` counts exactly these two
  owners and a node is freed exactly when both are gone.
-/
import MayVerif.Proof.Queue.TimerList.Head
namespace MayVerif.TimerList

/-- the nodes whose memory the next step at this program point reads or writes. Not listed: the fresh node of `pSwap`, and
    steps that only use fields of the queue itself and compare pointers without dereferencing them (`pTail`, the `head`
    loads, `cTail`). -/
def touches (sh : Sh) : Pc → List Nid
  | .pPrev n _ => [n]
  | .pLink _ p => [p]
  | .oAnd _ | .oNext _ | .iAnd _ | .qAnd | .qDec => [sh.tail]
  | .iNext _ | .kNext => if sh.next sh.tail = 0 then [sh.tail] else [sh.tail, sh.next sh.tail]
  | .cPrev x _ => [x]
  | .cTake _ x _ => [x]
  | .cDec o _ _ => [o]
  | .rRefs m | .rPrev m | .rNext m | .rAnd m _ _ | .rTake m | .rDec m _ | .rDrop m _ | .lRefs m | .dDec m => [m]
  | .rSetPrev _ _ x => [x]
  | .rSetNext _ p _ => [p]
  | _ => []

theorem not_freed_of_lr {s : St} (hi : Inv s) {m : Nid} (h : s.sh.lr m = true) : s.sh.freed m = false := by
  cases hf : s.sh.freed m with
  | false => rfl
  | true => have := (hi.r2 m hf).1; rw [h] at this; contradiction

theorem not_freed_of_hr {s : St} (hi : Inv s) {m : Nid} (h : s.sh.hr m = true) : s.sh.freed m = false := by
  cases hf : s.sh.freed m with
  | false => rfl
  | true => have := (hi.r2 m hf).2; rw [h] at this; contradiction

theorem tr_of_qop {s : St} (hi : Inv s) (h : qop (s.pcs 0) = true) : s.sh.lr s.sh.tail = true := hi.r6 (hi.r6q h)

theorem member_lr {s : St} (hi : Inv s) {m : Nid} (h : s.sh.st m = .member) : s.sh.lr m = true := hi.r5 m h

theorem holder_hr {s : St} (hi : Inv s) {t : Tid} {m : Nid} (h : holds (s.pcs t) = some m) : s.sh.hr m = true :=
  hi.r8b m (hi.r8d t m h).1

/-- while a push is in progress the queue exists -/
theorem tr_of_push {s : St} (hi : Inv s) {t : Tid} (h : isPushAny (s.pcs t) = true) : s.sh.lr s.sh.tail = true := by
  apply hi.r6
  cases htr : s.sh.tr with
  | true => rfl
  | false => have := hi.dD t (hi.dT htr); rw [h] at this; contradiction

/-- a member exists, so the queue still owns its stub -/
theorem tr_of_member {s : St} (hi : Inv s) {m : Nid} (h : s.sh.st m = .member) : s.sh.lr s.sh.tail = true := by
  apply hi.r6
  cases htr : s.sh.tr with
  | true => rfl
  | false =>
    have h1 := hi.dE htr
    have h2 := hi.hM m h
    have h3 := hi.hN
    omega

theorem touches_not_freed (s : St) (hi : Inv s) (t : Tid) (m : Nid) (hm : m ∈ touches s.sh (s.pcs t)) : s.sh.freed m = false := by
  have hC := hi.hC
  by_cases hc : isCons (s.pcs t) = true
  · -- the consumer
    have ht0 : t = 0 := cons_is_zero (pcs := s.pcs) hC rfl hc
    subst ht0
    cases hpc : s.pcs 0 <;> rw [hpc] at hm hc <;> simp only [touches, List.mem_singleton, List.not_mem_nil] at hm
    case oAnd k => rw [hm]; exact not_freed_of_lr hi (tr_of_qop hi (by rw [hpc]; rfl))
    case oNext k => rw [hm]; exact not_freed_of_lr hi (tr_of_qop hi (by rw [hpc]; rfl))
    case iAnd x => rw [hm]; exact not_freed_of_lr hi (tr_of_qop hi (by rw [hpc]; rfl))
    case qAnd => rw [hm]; exact not_freed_of_lr hi (tr_of_qop hi (by rw [hpc]; rfl))
    case qDec => rw [hm]; exact not_freed_of_lr hi (tr_of_qop hi (by rw [hpc]; rfl))
    case iNext acc =>
      split at hm
      · simp only [List.mem_singleton] at hm; rw [hm]
        exact not_freed_of_lr hi (tr_of_qop hi (by rw [hpc]; rfl))
      · next hn =>
        simp only [List.mem_cons, List.not_mem_nil, or_false] at hm
        rcases hm with rfl | rfl
        · exact not_freed_of_lr hi (tr_of_qop hi (by rw [hpc]; rfl))
        · exact not_freed_of_lr hi (member_lr hi (hi.d1 _ (Or.inl rfl) (by rw [hpc]; rfl) hn).1)
    case kNext =>
      split at hm
      · simp only [List.mem_singleton] at hm; rw [hm]
        exact not_freed_of_lr hi (tr_of_qop hi (by rw [hpc]; rfl))
      · next hn =>
        simp only [List.mem_cons, List.not_mem_nil, or_false] at hm
        rcases hm with rfl | rfl
        · exact not_freed_of_lr hi (tr_of_qop hi (by rw [hpc]; rfl))
        · exact not_freed_of_lr hi (member_lr hi (hi.d1 _ (Or.inl rfl) (by rw [hpc]; rfl) hn).1)
    case cPrev x k =>
      rw [hm]
      obtain ⟨h1, h2⟩ := hi.cA x k hpc
      have := (hi.d1 _ (Or.inl rfl) (by rw [hpc]; rfl) (by rw [h2]; exact h1)).1
      rw [h2] at this
      exact not_freed_of_lr hi (member_lr hi this)
    case cTake o x k =>
      rw [hm]
      have := hi.cC o x k hpc
      subst this
      exact not_freed_of_lr hi (tr_of_qop hi (by rw [hpc]; rfl))
    case cDec o v k => rw [hm]; exact not_freed_of_lr hi (hi.r7 o (by rw [hpc]; simp [lrC])).1
    case rRefs x => rw [hm]; exact not_freed_of_hr hi (holder_hr hi (t := 0) (by rw [hpc]; rfl))
    case rPrev x => rw [hm]; exact not_freed_of_hr hi (holder_hr hi (t := 0) (by rw [hpc]; rfl))
    case rNext x => rw [hm]; exact not_freed_of_hr hi (holder_hr hi (t := 0) (by rw [hpc]; rfl))
    case rAnd x p y => rw [hm]; exact not_freed_of_hr hi (holder_hr hi (t := 0) (by rw [hpc]; rfl))
    case rTake x => rw [hm]; exact not_freed_of_hr hi (holder_hr hi (t := 0) (by rw [hpc]; rfl))
    case rDec x r => rw [hm]; exact not_freed_of_hr hi (holder_hr hi (t := 0) (by rw [hpc]; rfl))
    case rDrop x r => rw [hm]; exact not_freed_of_hr hi (holder_hr hi (t := 0) (by rw [hpc]; rfl))
    case rSetPrev x p y =>
      rw [hm]
      obtain ⟨h1, _, _, h4, _, h6⟩ := hi.rA x p y (Or.inr hpc)
      have := (hi.d1 x (Or.inr h1) (by rw [hpc]; rfl) (by rw [h4]; exact h6)).1
      rw [h4] at this
      exact not_freed_of_lr hi (member_lr hi this)
    case rSetNext x p y =>
      rw [hm]
      obtain ⟨h1, _, _, _, h5, _⟩ := hi.rB x p y hpc
      rcases h5 with h5 | h5
      · subst h5; exact not_freed_of_lr hi (tr_of_member hi h1)
      · exact not_freed_of_lr hi (member_lr hi h5)
    all_goals (first | contradiction | (simp [isCons] at hc))
  · -- producers and handle holders
    have hc' : isCons (s.pcs t) = false := by simpa using hc
    cases hpc : s.pcs t <;> rw [hpc] at hm hc' <;> simp only [touches, List.mem_singleton, List.not_mem_nil] at hm
    case pPrev n p => rw [hm]; exact not_freed_of_lr hi (member_lr hi (hi.pA t n p hpc).1)
    case pLink n p =>
      rw [hm]
      obtain ⟨h1, h2, h3, _, _⟩ := hi.pB t n p hpc
      rcases (hi.d3 n p h1 h2 h3).1 with h5 | h5
      · subst h5; exact not_freed_of_lr hi (tr_of_push hi (t := t) (by rw [hpc]; rfl))
      · exact not_freed_of_lr hi (member_lr hi h5)
    case lRefs x => rw [hm]; exact not_freed_of_hr hi (holder_hr hi (t := t) (by rw [hpc]; rfl))
    case dDec x => rw [hm]; exact not_freed_of_hr hi (holder_hr hi (t := t) (by rw [hpc]; rfl))
    all_goals (first | contradiction | (simp [isCons] at hc'))

/-- the reference count never underflows: every decrement is performed by an owner -/
theorem dec_enabled (s : St) (hi : Inv s) :
    (∀ o v k, s.pcs 0 = .cDec o v k → 1 ≤ s.sh.rc o) ∧ (s.pcs 0 = .qDec → 1 ≤ s.sh.rc s.sh.tail) ∧
    (∀ m r, s.pcs 0 = .rDec m r → 1 ≤ s.sh.rc m) ∧
    (∀ t m, holds (s.pcs t) = some m → 1 ≤ s.sh.rc m) := by
  have r1 := hi.r1
  refine ⟨?_, ?_, ?_, ?_⟩
  · intro o v k hpc
    have := (hi.r7 o (by rw [hpc]; simp [lrC])).1
    rw [r1 o, this]; simp
  · intro hpc
    have := tr_of_qop hi (by rw [hpc]; rfl)
    rw [r1 _, this]; simp
  · intro m r hpc
    have := (hi.r7 m (by rw [hpc]; simp [lrC])).1
    rw [r1 m, this]; simp
  · intro t m hh
    have := holder_hr hi hh
    rw [r1 m, this]; simp

end MayVerif.TimerList
