/-
  Pointer-level invariant of the timer-list model (`Model/Queue/TimerList.lean`).

  Node ids are handed out at the swap, so `<` on ids is the swap order and the swap-time predecessor of
  node `b` is `b - 1`. With that, the `Chain` invariant of DESIGN App. G.1 is ∀-only arithmetic:
  `M m` (= `st m = member`) is membership in the ghost list `L`; "live" = the stub or a member.
-/
import MayVerif.Model.Queue.TimerList
namespace MayVerif.TimerList

/-- program points only the consumer (actor 0) can be at -/
def isCons : Pc → Bool
  | .oHead _ | .oAnd _ | .oNext _ | .iHead _ | .iNext _ | .iAnd _ | .cPrev .. | .cTail .. | .cTake .. | .cDec ..
  | .qAnd | .qDec | .kHead | .kNext | .eHead | .rRefs _ | .rPrev _ | .rNext _ | .rAnd .. | .rSetPrev .. | .rSetNext .. | .rTake _
  | .rDec .. | .rDrop .. => true
  | _ => false

/-- the node whose handle was moved into / borrowed by the call this pc belongs to -/
def holds : Pc → Option Nid
  | .rRefs m | .rPrev m | .rNext m | .rAnd m _ _ | .rSetPrev m _ _ | .rSetNext m _ _ | .rTake m | .rDec m _ | .rDrop m _
  | .lRefs m | .dDec m => some m
  | _ => none

/-- the consumer is between "prev of `b` rewritten" and "the forward link that makes it consistent again" -/
def midB : Pc → Nid → Bool
  | .cTail x _, b => decide (b = x)
  | .rSetNext _ _ x, b => decide (b = x)
  | _, _ => false

/-- the forward link out of `a` is the one the consumer is rewriting (`tl` = the current stub) -/
def midA : Pc → Nid → Nid → Bool
  | .cTail _ _, tl, a => decide (a = tl)
  | .rSetNext m _ _, _, a => decide (a = m)
  | _, _, _ => false

/-- the consumer has logically consumed `m` (it left `L`) but not yet taken its value -/
def takes : Pc → Nid → Bool
  | .cTake _ x _, m => decide (m = x)
  | .rTake x, m => decide (m = x)
  | _, _ => false

/-- the consumer has cleared the link bit of `m` on the way to unlinking it, `m` is still in `L` -/
def unl : Pc → Nid → Bool
  | .rSetPrev x _ _, m => decide (m = x)
  | .rSetNext x _ _, m => decide (m = x)
  | _, _ => false

/-- the consumer has taken `m` out of the list structure (retired stub, removed node) and still has to drop the list's
    reference on it -/
def lrC : Pc → Nid → Bool
  | .cTake o _ _, m => decide (m = o)
  | .cDec o _ _, m => decide (m = o)
  | .rTake x, m => decide (m = x)
  | .rDec x _, m => decide (m = x)
  | _, _ => false

/-- the consumer is inside a queue operation (anything but `remove` and the handle operations) -/
def qop : Pc → Bool
  | .oHead _ | .oAnd _ | .oNext _ | .iHead _ | .iNext _ | .iAnd _ | .cPrev .. | .cTail .. | .cTake .. | .cDec ..
  | .qAnd | .qDec | .kHead | .kNext | .eHead => true
  | _ => false

/-- inside a push (from the call to the return) -/
def isPushAny : Pc → Bool
  | .pSwap _ | .pPrev .. | .pLink .. | .pTail .. => true
  | _ => false

/-- the consumer is inside `Queue::drop` -/
def inDrop : Pc → Bool
  | .oHead k | .oAnd k | .oNext k | .cPrev _ k | .cTail _ k | .cTake _ _ k | .cDec _ _ k => k
  | .qAnd | .qDec => true
  | _ => false

/-- the consumer has cleared the link bit of the stub on the way to retiring it -/
def andDone : Pc → Bool
  | .oNext _ | .cPrev .. | .cTail .. | .qDec => true
  | _ => false

structure Inv (s : St) : Prop where
  -- this is the fixed `Queue::drop`
  hF : s.sh.fix = true
  -- identifiers
  hN : s.sh.nid = s.sh.head + 1
  hT : 1 ≤ s.sh.tail ∧ s.sh.tail ≤ s.sh.head
  hV : ∀ m, s.sh.nid ≤ m → s.sh.prev m = 0 ∧ s.sh.next m = 0 ∧ s.sh.val m = none ∧ s.sh.lnk m = false ∧ s.sh.st m = .none ∧
        s.sh.lk m = false ∧ s.sh.rd m = false ∧ s.sh.hnd m = false
  hW : ∀ m, s.sh.nid ≤ m → s.sh.lr m = false ∧ s.sh.hr m = false ∧ s.sh.hin m = false ∧ s.sh.freed m = false ∧ s.sh.rc m = 0
  hM : ∀ m, s.sh.st m = .member → s.sh.tail < m ∧ m < s.sh.nid
  hP : ∀ m, s.sh.st m = .popped → m ≤ s.sh.tail ∧ 2 ≤ m
  hR : ∀ m, s.sh.st m = .removed → s.sh.rd m = true
  hS : ∀ m, 2 ≤ m → m < s.sh.nid → s.sh.st m ≠ .none
  hC : ∀ t, t ≠ 0 → isCons (s.pcs t) = false
  -- values
  vM : ∀ m, s.sh.st m = .member → s.sh.val m = some (s.sh.pv m)
  vN : ∀ m, s.sh.st m ≠ .member → takes (s.pcs 0) m = false → s.sh.val m = none
  vT : ∀ m, takes (s.pcs 0) m = true → s.sh.val m = some (s.sh.pv m) ∧ (s.sh.st m = .popped ∨ s.sh.st m = .removed)
  vO : ∀ m, (s.sh.st m = .popped ∨ s.sh.st m = .removed) → takes (s.pcs 0) m = false → s.sh.out m = some (s.sh.pv m)
  -- link bit (`Members` of App. G.1)
  lM : ∀ m, s.sh.st m = .member → unl (s.pcs 0) m = false → s.sh.lnk m = true
  lN : ∀ m, s.sh.lnk m = true → s.sh.prev m ≠ 0 → s.sh.st m = .member
  lU : ∀ m, unl (s.pcs 0) m = true → s.sh.lnk m = false ∧ s.sh.st m = .member
  pT : s.sh.prev s.sh.tail = 0
  -- handles exist only for completed pushes
  hH : ∀ m, s.sh.hnd m = true → s.sh.rd m = true
  hK : ∀ t m, holds (s.pcs t) = some m → s.sh.rd m = true
  rL : ∀ m, s.sh.rd m = true → s.sh.lk m = true ∧ 2 ≤ m ∧ m < s.sh.nid
  -- producers
  pA : ∀ t n p, s.pcs t = .pPrev n p → s.sh.st n = .member ∧ s.sh.lk n = false ∧ p + 1 = n ∧ s.sh.prev n = 0 ∧ s.sh.own n = t
  pB : ∀ t n p, s.pcs t = .pLink n p → s.sh.st n = .member ∧ s.sh.lk n = false ∧ p + 1 = n ∧ s.sh.prev n = p ∧ s.sh.own n = t
  pC : ∀ t n p, s.pcs t = .pTail n p → s.sh.lk n = true ∧ s.sh.rd n = false ∧ p + 1 = n ∧ 2 ≤ n ∧ n < s.sh.nid ∧ s.sh.own n = t ∧ s.sh.hnd n = false
  sP : ∀ m, 2 ≤ m → m < s.sh.nid → s.sh.sp m + 1 = m
  tS : ∀ m, s.sh.ts m ≤ s.sh.tail
  -- Chain
  d1 : ∀ a, (a = s.sh.tail ∨ s.sh.st a = .member) → midA (s.pcs 0) s.sh.tail a = false → s.sh.next a ≠ 0 →
        s.sh.st (s.sh.next a) = .member ∧ s.sh.lk (s.sh.next a) = true ∧ a < s.sh.next a ∧ s.sh.prev (s.sh.next a) = a ∧
        ∀ c, s.sh.st c = .member → a < c → s.sh.next a ≤ c
  d2 : ∀ b, s.sh.st b = .member → s.sh.lk b = true → midB (s.pcs 0) b = false →
        s.sh.prev b ≠ 0 ∧ (s.sh.prev b = s.sh.tail ∨ s.sh.st (s.sh.prev b) = .member) ∧ s.sh.next (s.sh.prev b) = b
  d3 : ∀ b p, s.sh.st b = .member → s.sh.lk b = false → p + 1 = b →
        (p = s.sh.tail ∨ s.sh.st p = .member) ∧ s.sh.next p = 0 ∧ (s.pcs (s.sh.own b) = .pPrev b p ∨ s.pcs (s.sh.own b) = .pLink b p)
  d4 : (s.sh.head = s.sh.tail ∨ s.sh.st s.sh.head = .member) ∧ s.sh.next s.sh.head = 0
  -- what the consumer knows about the nodes it is working on
  cA : ∀ x k, s.pcs 0 = .cPrev x k → x ≠ 0 ∧ s.sh.next s.sh.tail = x
  cI : ∀ x, s.pcs 0 = .iAnd x → x ≠ 0 ∧ s.sh.next s.sh.tail = x
  cB : ∀ x k, s.pcs 0 = .cTail x k → s.sh.st x = .member ∧ s.sh.lk x = true ∧ s.sh.next s.sh.tail = x ∧ s.sh.tail < x ∧ s.sh.prev x = 0 ∧
        ∀ c, s.sh.st c = .member → s.sh.tail < c → x ≤ c
  cC : ∀ o x k, s.pcs 0 = .cTake o x k → x = s.sh.tail
  rC : ∀ m, (s.pcs 0 = .rPrev m ∨ s.pcs 0 = .rNext m) → s.sh.lnk m = true
  rD : ∀ m, s.pcs 0 = .rNext m → s.sh.prev m ≠ 0
  rA : ∀ m p x, (s.pcs 0 = .rAnd m p x ∨ s.pcs 0 = .rSetPrev m p x) →
        s.sh.st m = .member ∧ s.sh.lk m = true ∧ s.sh.prev m = p ∧ s.sh.next m = x ∧ p ≠ 0 ∧ x ≠ 0
  rB : ∀ m p x, s.pcs 0 = .rSetNext m p x →
        s.sh.st m = .member ∧ s.sh.st x = .member ∧ s.sh.lk m = true ∧ s.sh.lk x = true ∧ (p = s.sh.tail ∨ s.sh.st p = .member) ∧
        s.sh.next p = m ∧ s.sh.next m = x ∧ s.sh.prev m = p ∧ s.sh.prev x = p ∧ p < m ∧ m < x ∧ p ≠ 0 ∧
        ∀ c, s.sh.st c = .member → m < c → x ≤ c
  -- reference counts: `rc` counts the list's and the handle's reference; a node is freed exactly when both are gone
  r1 : ∀ m, s.sh.rc m = (if s.sh.lr m = true then 1 else 0) + (if s.sh.hr m = true then 1 else 0)
  r2 : ∀ m, s.sh.freed m = true → s.sh.lr m = false ∧ s.sh.hr m = false
  r3 : ∀ m, s.sh.lnk m = true → s.sh.lr m = true
  r5 : ∀ m, s.sh.st m = .member → s.sh.lr m = true
  r6 : s.sh.tr = true → s.sh.lr s.sh.tail = true
  r6q : qop (s.pcs 0) = true → s.sh.tr = true
  r7 : ∀ m, lrC (s.pcs 0) m = true → s.sh.lr m = true ∧ m ≠ s.sh.tail ∧ s.sh.st m ≠ .member ∧ s.sh.lnk m = false
  hTs : s.sh.st s.sh.tail = .popped ∨ s.sh.st s.sh.tail = .none
  r8a : ∀ m, s.sh.hnd m = true → s.sh.hr m = true ∧ s.sh.hin m = false
  r8b : ∀ m, s.sh.hin m = true → s.sh.hr m = true
  r8c : ∀ m, 2 ≤ m → m < s.sh.nid → s.sh.rd m = false → s.sh.hr m = true ∧ s.sh.hin m = false
  r8d : ∀ t m, holds (s.pcs t) = some m → s.sh.hin m = true ∧ s.sh.hby m = t
  r9 : ∀ m, 1 ≤ m → m < s.sh.nid → s.sh.lr m = false → s.sh.hr m = false → s.sh.freed m = true
  r10 : andDone (s.pcs 0) = true → s.sh.lnk s.sh.tail = false
  dT : s.sh.tr = false → s.sh.dead = true
  dK : inDrop (s.pcs 0) = true → s.sh.dead = true
  -- ownership: once the drop of the queue has begun nobody is inside a push (and nobody can start one)
  dD : ∀ u, s.sh.dead = true → isPushAny (s.pcs u) = false
  hI : ∀ u, s.n ≤ u → s.pcs u = .idle
  -- the drop of the queue ends with an empty list, and it stays empty
  dE1 : (s.pcs 0 = .qAnd ∨ s.pcs 0 = .qDec) → s.sh.head = s.sh.tail
  dE : s.sh.tr = false → s.sh.head = s.sh.tail

theorem inv_init (n : Nat) : Inv (init n) := by
  constructor <;> simp [init, isCons, holds, midA, midB, takes, unl, lrC, andDone, qop, inDrop, isPushAny] <;> (try omega) <;>
    (intro m <;> by_cases h : m = 1 <;> simp [h] <;> omega)

set_option hygiene false in
macro "destruct_inv" : tactic => `(tactic|
  (obtain ⟨hF, hN, hT, hV, hW, hM, hP, hR, hS, hC, vM, vN, vT, vO, lM, lN, lU, pT, hH, hK, rL, pA, pB, pC, sP, tS, d1, d2, d3, d4, cA, cI, cB, cC, rC, rD, rA, rB, r1, r2, r3, r5, r6, r6q, r7, hTs, r8a, r8b, r8c, r8d, r9, r10, dT, dK, dD, hI, dE1, dE⟩ := h
   simp only at hF hN hT hV hW hM hP hR hS hC vM vN vT vO lM lN lU pT hH hK rL pA pB pC sP tS d1 d2 d3 d4 cA cI cB cC rC rD rA rB r1 r2 r3 r5 r6 r6q r7 hTs r8a r8b r8c r8d r9 r10 dT dK dD hI dE1 dE))

/-- the acting thread is the consumer -/
theorem cons_is_zero {pcs : Tid → Pc} {t : Tid} {pc : Pc} (hC : ∀ t, t ≠ 0 → isCons (pcs t) = false) (hpc : pcs t = pc)
    (hc : isCons pc = true) : t = 0 := by
  by_cases h : t = 0
  · exact h
  · have := hC t h; rw [hpc] at this; rw [this] at hc; contradiction

theorem upd_same {α : Type} (f : Nat → α) (t : Nat) (v : α) : upd f t v t = v := by simp [upd]

/-! a step of a non-consumer program point does not change what the consumer-pc predicates say -/
theorem nc_midA (pc : Pc) (tl a : Nid) (h : isCons pc = false) : midA pc tl a = false := by
  cases pc <;> simp_all [isCons, midA]
theorem nc_midB (pc : Pc) (b : Nid) (h : isCons pc = false) : midB pc b = false := by
  cases pc <;> simp_all [isCons, midB]
theorem nc_takes (pc : Pc) (b : Nid) (h : isCons pc = false) : takes pc b = false := by
  cases pc <;> simp_all [isCons, takes]
theorem nc_unl (pc : Pc) (b : Nid) (h : isCons pc = false) : unl pc b = false := by
  cases pc <;> simp_all [isCons, unl]

theorem nc_lrC (pc : Pc) (b : Nid) (h : isCons pc = false) : lrC pc b = false := by
  cases pc <;> simp_all [isCons, lrC]
theorem nc_qop (pc : Pc) (h : isCons pc = false) : qop pc = false := by
  cases pc <;> simp_all [isCons, qop]
theorem upd0_qop (pcs : Tid → Pc) (t : Tid) (pc' : Pc) (h : isCons (pcs t) = false) (h' : isCons pc' = false) :
    qop (upd pcs t pc' 0) = qop (pcs 0) := by
  by_cases h0 : 0 = t
  · subst h0; simp [upd, nc_qop _ h, nc_qop _ h']
  · simp [upd, h0]
theorem nc_inDrop (pc : Pc) (h : isCons pc = false) : inDrop pc = false := by
  cases pc <;> simp_all [isCons, inDrop]
theorem upd0_inDrop (pcs : Tid → Pc) (t : Tid) (pc' : Pc) (h : isCons (pcs t) = false) (h' : isCons pc' = false) :
    inDrop (upd pcs t pc' 0) = inDrop (pcs 0) := by
  by_cases h0 : 0 = t
  · subst h0; simp [upd, nc_inDrop _ h, nc_inDrop _ h']
  · simp [upd, h0]
theorem nc_andDone (pc : Pc) (h : isCons pc = false) : andDone pc = false := by
  cases pc <;> simp_all [isCons, andDone]
theorem upd0_lrC (pcs : Tid → Pc) (t : Tid) (pc' : Pc) (b : Nid) (h : isCons (pcs t) = false) (h' : isCons pc' = false) :
    lrC (upd pcs t pc' 0) b = lrC (pcs 0) b := by
  by_cases h0 : 0 = t
  · subst h0; simp [upd, nc_lrC _ _ h, nc_lrC _ _ h']
  · simp [upd, h0]
theorem upd0_andDone (pcs : Tid → Pc) (t : Tid) (pc' : Pc) (h : isCons (pcs t) = false) (h' : isCons pc' = false) :
    andDone (upd pcs t pc' 0) = andDone (pcs 0) := by
  by_cases h0 : 0 = t
  · subst h0; simp [upd, nc_andDone _ h, nc_andDone _ h']
  · simp [upd, h0]

theorem upd0_midA (pcs : Tid → Pc) (t : Tid) (pc' : Pc) (tl a : Nid) (h : isCons (pcs t) = false) (h' : isCons pc' = false) :
    midA (upd pcs t pc' 0) tl a = midA (pcs 0) tl a := by
  by_cases h0 : 0 = t
  · subst h0; simp [upd, nc_midA _ _ _ h, nc_midA _ _ _ h']
  · simp [upd, h0]
theorem upd0_midB (pcs : Tid → Pc) (t : Tid) (pc' : Pc) (b : Nid) (h : isCons (pcs t) = false) (h' : isCons pc' = false) :
    midB (upd pcs t pc' 0) b = midB (pcs 0) b := by
  by_cases h0 : 0 = t
  · subst h0; simp [upd, nc_midB _ _ h, nc_midB _ _ h']
  · simp [upd, h0]
theorem upd0_takes (pcs : Tid → Pc) (t : Tid) (pc' : Pc) (b : Nid) (h : isCons (pcs t) = false) (h' : isCons pc' = false) :
    takes (upd pcs t pc' 0) b = takes (pcs 0) b := by
  by_cases h0 : 0 = t
  · subst h0; simp [upd, nc_takes _ _ h, nc_takes _ _ h']
  · simp [upd, h0]
theorem upd0_unl (pcs : Tid → Pc) (t : Tid) (pc' : Pc) (b : Nid) (h : isCons (pcs t) = false) (h' : isCons pc' = false) :
    unl (upd pcs t pc' 0) b = unl (pcs 0) b := by
  by_cases h0 : 0 = t
  · subst h0; simp [upd, nc_unl _ _ h, nc_unl _ _ h']
  · simp [upd, h0]

theorem isCons_idle : isCons .idle = false := by simp [isCons]
theorem isCons_ret (r : Int) : isCons (.ret r) = false := by simp [isCons]
theorem isCons_pSwap (v : Nat) : isCons (.pSwap v) = false := by simp [isCons]
theorem isCons_pPrev (n p : Nid) : isCons (.pPrev n p) = false := by simp [isCons]
theorem isCons_pLink (n p : Nid) : isCons (.pLink n p) = false := by simp [isCons]
theorem isCons_pTail (n p : Nid) : isCons (.pTail n p) = false := by simp [isCons]
theorem isCons_lRefs (m : Nid) : isCons (.lRefs m) = false := by simp [isCons]
theorem isCons_dDec (m : Nid) : isCons (.dDec m) = false := by simp [isCons]

/-- a non-consumer step does not change whether the consumer is at a given consumer program point -/
theorem upd0_cpc (pcs : Tid → Pc) (t : Tid) (pc' c : Pc) (h : isCons (pcs t) = false) (h' : isCons pc' = false) (hc : isCons c = true) :
    (upd pcs t pc' 0 = c) = (pcs 0 = c) := by
  by_cases h0 : 0 = t
  · subst h0
    simp only [upd_same, eq_iff_iff]
    constructor
    · intro e; rw [e] at h'; rw [h'] at hc; contradiction
    · intro e; rw [e] at h; rw [h] at hc; contradiction
  · simp [upd, h0]

/-- program points between the swap and the return of a push -/
def isPush : Pc → Bool
  | .pPrev .. | .pLink .. | .pTail .. => true
  | _ => false

theorem isPush_idle  : isPush .idle = false := by simp [isPush]
theorem isPush_ret (r : Int) : isPush (.ret r) = false := by simp [isPush]
theorem isPush_pSwap (v : Nat) : isPush (.pSwap v) = false := by simp [isPush]
theorem isPush_pPrev (n p : Nid) : isPush (.pPrev n p) = true := by simp [isPush]
theorem isPush_pLink (n p : Nid) : isPush (.pLink n p) = true := by simp [isPush]
theorem isPush_pTail (n p : Nid) : isPush (.pTail n p) = true := by simp [isPush]
theorem isPush_oHead (k : Bool) : isPush (.oHead k) = false := by simp [isPush]
theorem isPush_oAnd (k : Bool) : isPush (.oAnd k) = false := by simp [isPush]
theorem isPush_oNext (k : Bool) : isPush (.oNext k) = false := by simp [isPush]
theorem isPush_iHead (acc : List Nat) : isPush (.iHead acc) = false := by simp [isPush]
theorem isPush_iNext (acc : List Nat) : isPush (.iNext acc) = false := by simp [isPush]
theorem isPush_iAnd (x : Nid) : isPush (.iAnd x) = false := by simp [isPush]
theorem isPush_cPrev (x : Nid) (k : Bool) : isPush (.cPrev x k) = false := by simp [isPush]
theorem isPush_cTail (x : Nid) (k : Bool) : isPush (.cTail x k) = false := by simp [isPush]
theorem isPush_cTake (o x : Nid) (k : Bool) : isPush (.cTake o x k) = false := by simp [isPush]
theorem isPush_cDec (o : Nid) (v : Nat) (k : Bool) : isPush (.cDec o v k) = false := by simp [isPush]
theorem isPush_qAnd  : isPush .qAnd = false := by simp [isPush]
theorem isPush_qDec  : isPush .qDec = false := by simp [isPush]
theorem isPush_kHead  : isPush .kHead = false := by simp [isPush]
theorem isPush_kNext  : isPush .kNext = false := by simp [isPush]
theorem isPush_eHead  : isPush .eHead = false := by simp [isPush]
theorem isPush_rRefs (m : Nid) : isPush (.rRefs m) = false := by simp [isPush]
theorem isPush_rPrev (m : Nid) : isPush (.rPrev m) = false := by simp [isPush]
theorem isPush_rNext (m : Nid) : isPush (.rNext m) = false := by simp [isPush]
theorem isPush_rAnd (m p x : Nid) : isPush (.rAnd m p x) = false := by simp [isPush]
theorem isPush_rSetPrev (m p x : Nid) : isPush (.rSetPrev m p x) = false := by simp [isPush]
theorem isPush_rSetNext (m p x : Nid) : isPush (.rSetNext m p x) = false := by simp [isPush]
theorem isPush_rTake (m : Nid) : isPush (.rTake m) = false := by simp [isPush]
theorem isPush_rDec (m : Nid) (r : Int) : isPush (.rDec m r) = false := by simp [isPush]
theorem isPush_rDrop (m : Nid) (r : Int) : isPush (.rDrop m r) = false := by simp [isPush]
theorem isPush_lRefs (m : Nid) : isPush (.lRefs m) = false := by simp [isPush]
theorem isPush_dDec (m : Nid) : isPush (.dDec m) = false := by simp [isPush]

/-- a step of actor 0 that neither starts nor ends inside a push does not change which actor is at a given push program point -/
theorem updc_ppc (pcs : Tid → Pc) (pc' c : Pc) (u : Tid) (h : isPush (pcs 0) = false) (h' : isPush pc' = false) (hc : isPush c = true) :
    (upd pcs 0 pc' u = c) = (pcs u = c) := by
  by_cases h0 : u = 0
  · subst h0
    simp only [upd_same, eq_iff_iff]
    constructor
    · intro e; rw [e] at h'; rw [h'] at hc; contradiction
    · intro e; rw [e] at h; rw [h] at hc; contradiction
  · simp [upd, h0]

theorem isConsT_cPrev (x : Nid) (k : Bool) : isCons (.cPrev x k) = true := by simp [isCons]
theorem isConsT_iAnd (x : Nid) : isCons (.iAnd x) = true := by simp [isCons]
theorem isConsT_cTail (x : Nid) (k : Bool) : isCons (.cTail x k) = true := by simp [isCons]
theorem isConsT_cTake (o x : Nid) (k : Bool) : isCons (.cTake o x k) = true := by simp [isCons]
theorem isConsT_rPrev (x : Nid) : isCons (.rPrev x) = true := by simp [isCons]
theorem isConsT_rNext (x : Nid) : isCons (.rNext x) = true := by simp [isCons]
theorem isConsT_rAnd (m p x : Nid) : isCons (.rAnd m p x) = true := by simp [isCons]
theorem isConsT_rSetPrev (m p x : Nid) : isCons (.rSetPrev m p x) = true := by simp [isCons]
theorem isConsT_rSetNext (m p x : Nid) : isCons (.rSetNext m p x) = true := by simp [isCons]
theorem isConsT_qAnd : isCons .qAnd = true := by simp [isCons]
theorem isConsT_qDec : isCons .qDec = true := by simp [isCons]

theorem hC_upd (pcs : Tid → Pc) (t : Tid) (pc' : Pc) (hC : ∀ t, t ≠ 0 → isCons (pcs t) = false)
    (h' : t ≠ 0 → isCons pc' = false) : ∀ u, u ≠ 0 → isCons (upd pcs t pc' u) = false := by
  intro u hu
  by_cases h : u = t
  · subst h; simpa [upd] using h' hu
  · simpa [upd, h] using hC u hu

theorem hK_upd (pcs : Tid → Pc) (t : Tid) (pc' : Pc) (rd rd' : Nid → Bool) (hK : ∀ t m, holds (pcs t) = some m → rd m = true)
    (hmono : ∀ m, rd m = true → rd' m = true) (h' : ∀ m, holds pc' = some m → rd' m = true) :
    ∀ u m, holds (upd pcs t pc' u) = some m → rd' m = true := by
  intro u m hu
  by_cases h : u = t
  · subst h; simp only [upd_same] at hu; exact h' m hu
  · simp only [upd, h, if_false] at hu; exact hmono m (hK u m hu)

/-- normal form of the consumer-pc predicates on a concrete program point -/
macro "pcnorm" " at " h:ident : tactic => `(tactic|
  (try simp only [upd_same, midA, midB, takes, unl, lrC, andDone, qop, inDrop, isPushAny, holds, isCons, reduceCtorEq, false_or, or_false, false_implies, implies_true, forall_const,
     and_imp, forall_eq', forall_eq, forall_apply_eq_imp_iff, forall_eq_apply_imp_iff, exists_eq_left,
     Pc.cPrev.injEq, Pc.cTail.injEq, Pc.cTake.injEq, Pc.iAnd.injEq, Pc.rPrev.injEq, Pc.rNext.injEq, Pc.rAnd.injEq, Pc.rSetPrev.injEq,
     Pc.rSetNext.injEq, Pc.pPrev.injEq, Pc.pLink.injEq, Pc.pTail.injEq, Option.some.injEq, decide_eq_true_eq, decide_eq_false_iff_not,
     Bool.false_eq_true, Bool.true_eq_false, decide_eq_decide, ne_eq] at $h:ident))
macro "pcnorm" : tactic => `(tactic|
  (try simp only [upd_same, midA, midB, takes, unl, lrC, andDone, qop, inDrop, isPushAny, holds, isCons, reduceCtorEq, false_or, or_false, false_implies, implies_true, forall_const,
     and_imp, forall_eq', forall_eq, forall_apply_eq_imp_iff, forall_eq_apply_imp_iff, exists_eq_left,
     Pc.cPrev.injEq, Pc.cTail.injEq, Pc.cTake.injEq, Pc.iAnd.injEq, Pc.rPrev.injEq, Pc.rNext.injEq, Pc.rAnd.injEq, Pc.rSetPrev.injEq,
     Pc.rSetNext.injEq, Pc.pPrev.injEq, Pc.pLink.injEq, Pc.pTail.injEq, Option.some.injEq, decide_eq_true_eq, decide_eq_false_iff_not,
     Bool.false_eq_true, Bool.true_eq_false, decide_eq_decide, ne_eq]))

open Lean in
/-- `bring a b c`: put the clauses `a b c` of the invariant `h` into the context -/
macro "bring" xs:ident* : tactic => do
  let hs ← xs.mapM fun (x : Ident) => `(tactic| (have $x:ident := $(mkIdent (`MayVerif.TimerList.Inv ++ x.getId)) $(mkIdent `h); (try dsimp only at $x:ident)))
  `(tactic| ($[$hs]*))

open Lean in
/-- `bringC a b c` (consumer step, `hpc : pcs 0 = pc`): as `bring`, and the clauses are specialised to the known `pcs 0` -/
macro "bringC" xs:ident* : tactic => do
  let hs ← xs.mapM fun (x : Ident) => `(tactic| (have $x:ident := $(mkIdent (`MayVerif.TimerList.Inv ++ x.getId)) $(mkIdent `h); (try dsimp only at $x:ident); (try rw [$(mkIdent `hpc):ident] at $x:ident); pcnorm at $x:ident))
  `(tactic| ($[$hs]*))

theorem dD_upd (pcs : Tid → Pc) (t : Tid) (pc' : Pc) (d d' : Bool) (h : ∀ u, d = true → isPushAny (pcs u) = false)
    (hd : d' = true → d = true) (h' : d' = true → isPushAny pc' = false) : ∀ u, d' = true → isPushAny (upd pcs t pc' u) = false := by
  intro u hu
  by_cases hut : u = t
  · subst hut; simpa [upd] using h' hu
  · simpa [upd, hut] using h u (hd hu)

theorem hI_upd (nn : Nat) (pcs : Tid → Pc) (t : Tid) (pc' : Pc) (hlt : t < nn) (h : ∀ u, nn ≤ u → pcs u = .idle) :
    ∀ u, nn ≤ u → upd pcs t pc' u = .idle := by
  intro u hu
  have : u ≠ t := by omega
  simpa [upd, this] using h u hu

theorem r8d_upd (pcs : Tid → Pc) (t : Tid) (pc' : Pc) (hin hin' : Nid → Bool) (hby hby' : Nid → Tid)
    (h : ∀ u m, holds (pcs u) = some m → hin m = true ∧ hby m = u)
    (hframe : ∀ u m, u ≠ t → hin m = true → hby m = u → hin' m = true ∧ hby' m = u)
    (h' : ∀ m, holds pc' = some m → hin' m = true ∧ hby' m = t) :
    ∀ u m, holds (upd pcs t pc' u) = some m → hin' m = true ∧ hby' m = u := by
  intro u m hu
  by_cases hut : u = t
  · subst hut; simp only [upd_same] at hu; exact h' m hu
  · simp only [upd, hut, if_false] at hu
    obtain ⟨h1, h2⟩ := h u m hu
    exact hframe u m hut h1 h2

set_option hygiene false in
macro "split_hts" : tactic => `(tactic|
  (simp only [tstep, decRef] at hts <;> (repeat' split at hts) <;> (try contradiction) <;>
   (try simp only [Option.some.injEq, Prod.mk.injEq, Option.map_some, Option.map_none] at hts) <;> (try contradiction) <;> obtain ⟨rfl, rfl⟩ := hts))

-- goal-side normal form after a non-consumer step (`hnc : isCons (pcs t) = false`)
set_option hygiene false in
macro "pnorm" : tactic => `(tactic| (try simp only [upd0_midA, upd0_midB, upd0_takes, upd0_unl, upd0_lrC, upd0_andDone, upd0_qop, upd0_inDrop, upd0_cpc, hnc, isCons_idle, isCons_ret, isCons_pSwap,
  isCons_pPrev, isCons_pLink, isCons_pTail, isCons_lRefs, isCons_dDec, isConsT_cPrev, isConsT_iAnd, isConsT_cTail, isConsT_cTake, isConsT_rPrev,
  isConsT_rNext, isConsT_rAnd, isConsT_rSetPrev, isConsT_rSetNext, isConsT_qAnd, isConsT_qDec]))

-- goal-side normal form of the push-indexed clauses after a step of actor 0 outside a push (`hcc : isPush (pcs 0) = false`)
set_option hygiene false in
macro "cnorm" : tactic => `(tactic| (try simp only [updc_ppc, hcc, isPush_idle, isPush_ret, isPush_pSwap, isPush_pPrev, isPush_pLink, isPush_pTail, isPush_oHead, isPush_oAnd, isPush_oNext, isPush_iHead, isPush_iNext, isPush_iAnd, isPush_cPrev, isPush_cTail, isPush_cTake, isPush_cDec, isPush_qAnd, isPush_qDec, isPush_kHead, isPush_kNext, isPush_eHead, isPush_rRefs, isPush_rPrev, isPush_rNext, isPush_rAnd, isPush_rSetPrev, isPush_rSetNext, isPush_rTake, isPush_rDec, isPush_rDrop, isPush_lRefs, isPush_dDec]))

end MayVerif.TimerList
