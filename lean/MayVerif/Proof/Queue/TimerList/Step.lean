/-
  `Inv` is inductive: one preservation lemma per program point (files `P_*.lean`), assembled here.
-/
import MayVerif.Proof.Queue.TimerList.P_idle_push
import MayVerif.Proof.Queue.TimerList.P_idle_isLink
import MayVerif.Proof.Queue.TimerList.P_idle_drop
import MayVerif.Proof.Queue.TimerList.P_idle_qdrop
import MayVerif.Proof.Queue.TimerList.P_idle_pop
import MayVerif.Proof.Queue.TimerList.P_idle_popIf
import MayVerif.Proof.Queue.TimerList.P_idle_peek
import MayVerif.Proof.Queue.TimerList.P_idle_isEmpty
import MayVerif.Proof.Queue.TimerList.P_idle_remove
import MayVerif.Proof.Queue.TimerList.P_ret
import MayVerif.Proof.Queue.TimerList.P_pSwap
import MayVerif.Proof.Queue.TimerList.P_pPrev
import MayVerif.Proof.Queue.TimerList.P_pLink
import MayVerif.Proof.Queue.TimerList.P_pTail
import MayVerif.Proof.Queue.TimerList.P_lRefs
import MayVerif.Proof.Queue.TimerList.P_dDec
import MayVerif.Proof.Queue.TimerList.P_oHead
import MayVerif.Proof.Queue.TimerList.P_oAnd
import MayVerif.Proof.Queue.TimerList.P_oNext
import MayVerif.Proof.Queue.TimerList.P_qAnd
import MayVerif.Proof.Queue.TimerList.P_qDec
import MayVerif.Proof.Queue.TimerList.P_iHead
import MayVerif.Proof.Queue.TimerList.P_iNext
import MayVerif.Proof.Queue.TimerList.P_iAnd
import MayVerif.Proof.Queue.TimerList.P_cPrev
import MayVerif.Proof.Queue.TimerList.P_cTail
import MayVerif.Proof.Queue.TimerList.P_cTake
import MayVerif.Proof.Queue.TimerList.P_cDec
import MayVerif.Proof.Queue.TimerList.P_kHead
import MayVerif.Proof.Queue.TimerList.P_kNext
import MayVerif.Proof.Queue.TimerList.P_eHead
import MayVerif.Proof.Queue.TimerList.P_rRefs
import MayVerif.Proof.Queue.TimerList.P_rPrev
import MayVerif.Proof.Queue.TimerList.P_rNext
import MayVerif.Proof.Queue.TimerList.P_rAnd
import MayVerif.Proof.Queue.TimerList.P_rSetPrev
import MayVerif.Proof.Queue.TimerList.P_rSetNext
import MayVerif.Proof.Queue.TimerList.P_rTake
import MayVerif.Proof.Queue.TimerList.P_rDec
import MayVerif.Proof.Queue.TimerList.P_rDrop
namespace MayVerif.TimerList

/-- the ownership guard of `step` for the drop of the queue: everybody else is outside the queue's operations -/
theorem quiet_of_guard {nn : Nat} {pcs : Tid → Pc} {t : Tid}
    (hg : ¬(Env.qdrop = Env.qdrop ∧ (List.range nn).all (fun u => u = t || quiet (pcs u)) = false)) :
    ∀ u, u < nn → u ≠ t → quiet (pcs u) = true := by
  intro u hu hut
  have h1 : (List.range nn).all (fun u => u = t || quiet (pcs u)) = true := by
    cases hc : (List.range nn).all (fun u => u = t || quiet (pcs u)) with
    | true => rfl
    | false => exact absurd ⟨rfl, hc⟩ hg
  have := List.all_eq_true.mp h1 u (List.mem_range.mpr hu)
  simpa [hut] using this

theorem inv_step (s s' : St) (t : Tid) (e : Env) (h : Inv s) (hs : step s t e = some s') : Inv s' := by
  obtain ⟨nn, sh, pcs⟩ := s
  simp only [step] at hs
  split at hs
  case isFalse => contradiction
  next hlt =>
  split at hs
  · contradiction
  next hg =>
  split at hs
  · contradiction
  next sh' pc' hts =>
  simp only [Option.some.injEq] at hs
  subst hs
  generalize hpc : pcs t = pc at hts
  cases pc with
  | idle =>
    cases e with
    | push v => exact inv_idle_push nn sh pcs t v hlt h hpc sh' pc' hts
    | pop => exact inv_idle_pop nn sh pcs t hlt h hpc sh' pc' hts
    | popIf acc => exact inv_idle_popIf nn sh pcs t acc hlt h hpc sh' pc' hts
    | peek => exact inv_idle_peek nn sh pcs t hlt h hpc sh' pc' hts
    | isEmpty => exact inv_idle_isEmpty nn sh pcs t hlt h hpc sh' pc' hts
    | remove m => exact inv_idle_remove nn sh pcs t m hlt h hpc sh' pc' hts
    | isLink m => exact inv_idle_isLink nn sh pcs t m hlt h hpc sh' pc' hts
    | drop m => exact inv_idle_drop nn sh pcs t m hlt h hpc sh' pc' hts
    | qdrop => exact inv_idle_qdrop nn sh pcs t hlt (quiet_of_guard hg) h hpc sh' pc' hts
    | aba => simp [tstep] at hts
    | go => simp [tstep] at hts
  | ret r => exact inv_ret nn sh pcs t e r hlt h hpc sh' pc' hts
  | pSwap v => exact inv_pSwap nn sh pcs t e v hlt h hpc sh' pc' hts
  | pPrev n p => exact inv_pPrev nn sh pcs t e n p hlt h hpc sh' pc' hts
  | pLink n p => exact inv_pLink nn sh pcs t e n p hlt h hpc sh' pc' hts
  | pTail n p => exact inv_pTail nn sh pcs t e n p hlt h hpc sh' pc' hts
  | lRefs m => exact inv_lRefs nn sh pcs t e m hlt h hpc sh' pc' hts
  | dDec m => exact inv_dDec nn sh pcs t e m hlt h hpc sh' pc' hts
  | oHead k => exact inv_oHead nn sh pcs t e k hlt h hpc sh' pc' hts
  | oAnd k => exact inv_oAnd nn sh pcs t e k hlt h hpc sh' pc' hts
  | oNext k => exact inv_oNext nn sh pcs t e k hlt h hpc sh' pc' hts
  | qAnd => exact inv_qAnd nn sh pcs t e hlt h hpc sh' pc' hts
  | qDec => exact inv_qDec nn sh pcs t e hlt h hpc sh' pc' hts
  | iHead acc => exact inv_iHead nn sh pcs t e acc hlt h hpc sh' pc' hts
  | iNext acc => exact inv_iNext nn sh pcs t e acc hlt h hpc sh' pc' hts
  | iAnd x => exact inv_iAnd nn sh pcs t e x hlt h hpc sh' pc' hts
  | cPrev x k => exact inv_cPrev nn sh pcs t e x k hlt h hpc sh' pc' hts
  | cTail x k => exact inv_cTail nn sh pcs t e x k hlt h hpc sh' pc' hts
  | cTake o x k => exact inv_cTake nn sh pcs t e o x k hlt h hpc sh' pc' hts
  | cDec o v k => exact inv_cDec nn sh pcs t e o v k hlt h hpc sh' pc' hts
  | kHead => exact inv_kHead nn sh pcs t e hlt h hpc sh' pc' hts
  | kNext => exact inv_kNext nn sh pcs t e hlt h hpc sh' pc' hts
  | eHead => exact inv_eHead nn sh pcs t e hlt h hpc sh' pc' hts
  | rRefs m => exact inv_rRefs nn sh pcs t e m hlt h hpc sh' pc' hts
  | rPrev m => exact inv_rPrev nn sh pcs t e m hlt h hpc sh' pc' hts
  | rNext m => exact inv_rNext nn sh pcs t e m hlt h hpc sh' pc' hts
  | rAnd m p x => exact inv_rAnd nn sh pcs t e m p x hlt h hpc sh' pc' hts
  | rSetPrev m p x => exact inv_rSetPrev nn sh pcs t e m p x hlt h hpc sh' pc' hts
  | rSetNext m p x => exact inv_rSetNext nn sh pcs t e m p x hlt h hpc sh' pc' hts
  | rTake m => exact inv_rTake nn sh pcs t e m hlt h hpc sh' pc' hts
  | rDec m r => exact inv_rDec nn sh pcs t e m r hlt h hpc sh' pc' hts
  | rDrop m r => exact inv_rDrop nn sh pcs t e m r hlt h hpc sh' pc' hts

theorem inv_run (s : St) (sched : List (Tid × Env)) (h : Inv s) : Inv (run s sched) := by
  induction sched generalizing s with
  | nil => simpa [run]
  | cons te r ih =>
    obtain ⟨t, e⟩ := te
    simp only [run]
    split
    · next s' hs => exact ih _ (inv_step _ _ _ _ h hs)
    · exact ih _ h

/-- the invariant holds in every reachable state -/
theorem inv_reach (n : Nat) (sched : List (Tid × Env)) : Inv (run (init n) sched) := inv_run _ _ (inv_init n)

end MayVerif.TimerList
