/-
  The ghost lists `L` (members, in swap order), `popped`, `removed` (append-only logs) are consistent with the per-node
  status `st` that the pointer-level invariant `Inv` is about. Only three steps touch them: the swap of a push, the
  tail move of a pop, the unlink of a remove.
-/
import MayVerif.Proof.Queue.TimerList.Step
namespace MayVerif.TimerList

structure InvL (s : St) : Prop where
  l1 : ∀ m, m ∈ s.sh.L ↔ s.sh.st m = .member
  l2 : s.sh.L.Pairwise (· < ·)
  l3 : ∀ m, m ∈ s.sh.popped ↔ s.sh.st m = .popped
  l4 : s.sh.popped.Pairwise (· < ·)
  l5 : ∀ m, m ∈ s.sh.removed ↔ s.sh.st m = .removed
  l6 : s.sh.removed.Nodup

theorem invL_init (n : Nat) : InvL (init n) := by
  constructor <;> simp [init]

/-- the fields the lists invariant talks about -/
def sameLists (a b : Sh) : Prop := b.L = a.L ∧ b.st = a.st ∧ b.popped = a.popped ∧ b.removed = a.removed

theorem invL_of_same {nn : Nat} {sh sh' : Sh} {pcs pcs' : Tid → Pc} (h : InvL ⟨nn, sh, pcs⟩) (hs : sameLists sh sh') :
    InvL ⟨nn, sh', pcs'⟩ := by
  obtain ⟨e1, e2, e3, e4⟩ := hs
  obtain ⟨l1, l2, l3, l4, l5, l6⟩ := h
  constructor <;> simp only [e1, e2, e3, e4] <;> assumption

/-- every step except the three list steps leaves the lists alone -/
theorem tstep_same (sh sh' : Sh) (me : Tid) (pc pc' : Pc) (e : Env) (hts : tstep sh me pc e = some (sh', pc'))
    (h1 : ∀ v, pc ≠ .pSwap v) (h2 : ∀ x k, pc ≠ .cTail x k) (h3 : ∀ m p x, pc ≠ .rSetNext m p x) : sameLists sh sh' := by
  cases pc <;> (try (exfalso; first | exact h1 _ rfl | exact h2 _ _ rfl | exact h3 _ _ _ rfl)) <;>
    (cases e <;> simp only [tstep, decRef] at hts <;> (try contradiction) <;> (repeat' split at hts) <;> (try contradiction) <;>
      (try simp only [Option.some.injEq, Prod.mk.injEq, Option.map_some, Option.map_none] at hts) <;> (try contradiction) <;>
      obtain ⟨rfl, _⟩ := hts <;> simp [sameLists])

theorem pairwise_lt_nodup {l : List Nat} (h : l.Pairwise (· < ·)) : l.Nodup :=
  h.imp (fun hab => Nat.ne_of_lt hab)

theorem invL_step (s s' : St) (t : Tid) (e : Env) (hi : Inv s) (h : InvL s) (hs : step s t e = some s') : InvL s' := by
  obtain ⟨nn, sh, pcs⟩ := s
  simp only [step] at hs
  split at hs
  case isFalse => contradiction
  split at hs
  · contradiction
  split at hs
  · contradiction
  next sh' pc' hts =>
  simp only [Option.some.injEq] at hs
  subst hs
  by_cases c1 : ∃ v, pcs t = .pSwap v
  · -- push: `L := L ++ [nid]`, the new node is younger than every member
    obtain ⟨v, hpc⟩ := c1
    rw [hpc] at hts
    simp only [tstep, Option.some.injEq, Prod.mk.injEq] at hts
    obtain ⟨rfl, _⟩ := hts
    obtain ⟨l1, l2, l3, l4, l5, l6⟩ := h
    have hV := hi.hV sh.nid (Nat.le_refl _)
    have hM := hi.hM
    simp only at l1 l2 l3 l4 l5 l6 hV hM
    constructor <;> simp only []
    · intro m
      by_cases hm : m = sh.nid
      · subst hm; simp [upd]
      · simp [upd, hm, l1]
    · rw [List.pairwise_append]
      refine ⟨l2, by simp, ?_⟩
      intro a ha b hb
      simp only [List.mem_singleton] at hb
      subst hb
      exact (hM a ((l1 a).mp ha)).2
    · intro m
      by_cases hm : m = sh.nid
      · subst hm; simp [upd, l3, hV.2.2.2.2.1]
      · simp [upd, hm, l3]
    · exact l4
    · intro m
      by_cases hm : m = sh.nid
      · subst hm; simp [upd, l5, hV.2.2.2.2.1]
      · simp [upd, hm, l5]
    · exact l6
  · by_cases c2 : ∃ x k, pcs t = .cTail x k
    · -- pop: the node leaves `L` for `popped`; it is younger than everything popped before
      obtain ⟨x, k, hpc⟩ := c2
      have ht0 : t = 0 := cons_is_zero (pcs := pcs) hi.hC hpc rfl
      subst ht0
      rw [hpc] at hts
      simp only [tstep, Option.some.injEq, Prod.mk.injEq] at hts
      obtain ⟨rfl, _⟩ := hts
      obtain ⟨l1, l2, l3, l4, l5, l6⟩ := h
      have cB := hi.cB x k hpc
      have hP := hi.hP
      simp only at l1 l2 l3 l4 l5 l6 cB hP
      have hnd := pairwise_lt_nodup l2
      constructor <;> simp only []
      · intro m
        rw [hnd.mem_erase_iff]
        by_cases hm : m = x
        · subst hm; simp [upd]
        · simp [upd, hm, l1]
      · exact l2.sublist (List.erase_sublist)
      · intro m
        by_cases hm : m = x
        · subst hm; simp [upd]
        · simp [upd, hm, l3]
      · rw [List.pairwise_append]
        refine ⟨l4, by simp, ?_⟩
        intro a ha b hb
        simp only [List.mem_singleton] at hb
        subst hb
        have := (hP a ((l3 a).mp ha)).1
        omega
      · intro m
        by_cases hm : m = x
        · subst hm; simp [upd, l5, cB.1]
        · simp [upd, hm, l5]
      · exact l6
    · by_cases c3 : ∃ m p x, pcs t = .rSetNext m p x
      · -- remove: the node leaves `L` for `removed`
        obtain ⟨m, p, x, hpc⟩ := c3
        have ht0 : t = 0 := cons_is_zero (pcs := pcs) hi.hC hpc rfl
        subst ht0
        rw [hpc] at hts
        simp only [tstep, Option.some.injEq, Prod.mk.injEq] at hts
        obtain ⟨rfl, _⟩ := hts
        obtain ⟨l1, l2, l3, l4, l5, l6⟩ := h
        have rB := hi.rB m p x hpc
        simp only at l1 l2 l3 l4 l5 l6 rB
        have hnd := pairwise_lt_nodup l2
        constructor <;> simp only []
        · intro b
          rw [hnd.mem_erase_iff]
          by_cases hm : b = m
          · subst hm; simp [upd]
          · simp [upd, hm, l1]
        · exact l2.sublist (List.erase_sublist)
        · intro b
          by_cases hm : b = m
          · subst hm; simp [upd, l3, rB.1]
          · simp [upd, hm, l3]
        · exact l4
        · intro b
          by_cases hm : b = m
          · subst hm; simp [upd]
          · simp [upd, hm, l5]
        · rw [List.nodup_append]
          refine ⟨l6, by simp, ?_⟩
          intro a ha b hb
          simp only [List.mem_singleton] at hb
          subst hb
          intro hab
          subst hab
          have := (l5 a).mp ha
          rw [rB.1] at this
          contradiction
      · exact invL_of_same h (tstep_same sh sh' t (pcs t) pc' e hts
          (fun v hv => c1 ⟨v, hv⟩) (fun x k hv => c2 ⟨x, k, hv⟩) (fun m p x hv => c3 ⟨m, p, x, hv⟩))

theorem both_run (s : St) (sched : List (Tid × Env)) (h : Inv s) (hl : InvL s) : Inv (run s sched) ∧ InvL (run s sched) := by
  induction sched generalizing s with
  | nil => exact ⟨by simpa [run], by simpa [run]⟩
  | cons te r ih =>
    obtain ⟨t, e⟩ := te
    simp only [run]
    split
    · next s' hs => exact ih _ (inv_step _ _ _ _ h hs) (invL_step _ _ _ _ h hl hs)
    · exact ih _ h hl

/-- the lists invariant holds in every reachable state -/
theorem invL_reach (n : Nat) (sched : List (Tid × Env)) : InvL (run (init n) sched) :=
  (both_run _ sched (inv_init n) (invL_init n)).2

/-- a strictly sorted list whose element `a` is a lower bound starts with `a` -/
theorem head_of_sorted_min {l : List Nat} {a : Nat} (ha : a ∈ l) (hmin : ∀ b ∈ l, a ≤ b) (hs : l.Pairwise (· < ·)) :
    l.head? = some a := by
  cases l with
  | nil => simp at ha
  | cons b r =>
    simp only [List.head?_cons, Option.some.injEq]
    have h1 := hmin b (by simp)
    rcases List.mem_cons.mp ha with h | h
    · exact h.symm
    · have := (List.pairwise_cons.mp hs).1 a h
      omega

end MayVerif.TimerList
