/- preservation of `Inv` by the step at program point `idle_drop` (generated skeleton: per clause, the clauses it depends on) -/
import MayVerif.Proof.Queue.TimerList.Inv
namespace MayVerif.TimerList

set_option maxHeartbeats 1000000 in
theorem inv_idle_drop (nn : Nat) (sh : Sh) (pcs : Tid → Pc) (t : Tid) (m : Nid) (_hlt : t < nn)
    (h : Inv ⟨nn, sh, pcs⟩) (hpc : pcs t = .idle) (sh' : Sh) (pc' : Pc)
    (hts : tstep sh t .idle (.drop m) = some (sh', pc')) : Inv ⟨nn, sh', upd pcs t pc'⟩ := by
  have hnc : isCons (pcs t) = false := by rw [hpc]; rfl
  have kA := True.intro; (try dsimp only at kA)
  skip
  split_hts
  all_goals (constructor <;> simp only [])
  try (any_goals (case hN => ((bring hN hT hM; pnorm) <;> grind)))
  try (any_goals (case hT => ((bring hT hN hM; pnorm) <;> grind)))
  try (any_goals (case hV => ((bring hV hN hT hM; pnorm) <;> grind)))
  try (any_goals (case hM => ((bring hM hN hT; pnorm) <;> grind)))
  try (any_goals (case hP => ((bring hP hN hT hM; pnorm) <;> grind)))
  try (any_goals (case hR => ((bring hR hN hT hM; pnorm) <;> grind)))
  try (any_goals (case hS => ((bring hS hN hT hM; pnorm) <;> grind)))
  try (any_goals (case hC => (exact hC_upd _ _ _ h.hC (by simp [isCons]))))
  try (any_goals (case vM => ((bring vM hN hT hM; pnorm) <;> grind)))
  try (any_goals (case vN => ((bring vN hN hT hM; pnorm) <;> grind)))
  try (any_goals (case vT => ((bring vT hN hT hM; pnorm) <;> grind)))
  try (any_goals (case vO => ((bring vO hN hT hM; pnorm) <;> grind)))
  try (any_goals (case lM => ((bring lM hN hT hM; pnorm) <;> grind)))
  try (any_goals (case lN => ((bring lN hN hT hM; pnorm) <;> grind)))
  try (any_goals (case lU => ((bring lU hN hT hM; pnorm) <;> grind)))
  try (any_goals (case pT => ((bring pT hN hT hM; pnorm) <;> grind)))
  try (any_goals (case hH => ((bring hH hN hT hM; pnorm) <;> grind)))
  try (any_goals (case hK => (exact hK_upd _ _ _ _ _ h.hK (by grind) (by pcnorm; (try ((bring rL hH; pnorm) <;> grind))))))
  try (any_goals (case rL => ((bring rL hN hT hM; pnorm) <;> grind)))
  try (any_goals (case pA => ((bring pA hN hT hM; pnorm) <;> grind)))
  try (any_goals (case pB => ((bring pB hN hT hM; pnorm) <;> grind)))
  try (any_goals (case pC => ((bring pC hN hT hM; pnorm) <;> grind)))
  try (any_goals (case sP => ((bring sP hN hT hM; pnorm) <;> grind)))
  try (any_goals (case tS => ((bring tS hN hT hM; pnorm) <;> grind)))
  try (any_goals (case d1 => ((bring d1 hN hT hM; pnorm) <;> grind)))
  try (any_goals (case d2 => ((bring d2 hN hT hM; pnorm) <;> grind)))
  try (any_goals (case d3 => ((bring d3 hN hT hM; pnorm) <;> grind)))
  try (any_goals (case d4 => ((bring d4 hN hT hM; pnorm) <;> grind)))
  try (any_goals (case cA => ((bring cA hN hT hM; pnorm) <;> grind)))
  try (any_goals (case cI => ((bring cI hN hT hM; pnorm) <;> grind)))
  try (any_goals (case cB => ((bring cB hN hT hM; pnorm) <;> grind)))
  try (any_goals (case cC => ((bring cC hN hT hM; pnorm) <;> grind)))
  try (any_goals (case rC => ((bring rC hN hT hM; pnorm) <;> grind)))
  try (any_goals (case rD => ((bring rD hN hT hM; pnorm) <;> grind)))
  try (any_goals (case rA => ((bring rA hN hT hM; pnorm) <;> grind)))
  try (any_goals (case rB => ((bring rB hN hT hM; pnorm) <;> grind)))

end MayVerif.TimerList
