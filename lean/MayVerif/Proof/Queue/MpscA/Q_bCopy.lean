import MayVerif.Proof.Queue.MpscA.Inv2
namespace MayVerif.MpscA

set_option linter.unusedVariables false in -- `hpc` is used by `destr`/`destr2` (unhygienic macros)
set_option maxHeartbeats 4000000 in
theorem q_bCopy (n : Nat) (sh : Sh) (pcs : Tid → Pc) (t : Tid) (e : Env) (ce : Nat) (acc : List Nat) (_hlt : t < n)
    (h : Inv ⟨n, sh, pcs⟩) (h2 : Inv2 ⟨n, sh, pcs⟩) (hpc : pcs t = .bCopy ce acc) (sh' : Sh) (pc' : Pc)
    (hts : tstep sh t (.bCopy ce acc) e = some (sh', pc')) : Inv2 ⟨n, sh', upd pcs t pc'⟩ := by
  destr
  destr2
  simp only [tstep] at hts
  branches <;> finTake2

end MayVerif.MpscA
