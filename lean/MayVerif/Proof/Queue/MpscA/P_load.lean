import MayVerif.Proof.Queue.MpscA.Inv
namespace MayVerif.MpscA

set_option maxHeartbeats 4000000 in
theorem p_load (n : Nat) (sh : Sh) (pcs : Tid → Pc) (t : Tid) (e : Env) (v : Nat) (_hlt : t < n)
    (h : Inv ⟨n, sh, pcs⟩) (hpc : pcs t = .load v) (sh' : Sh) (pc' : Pc)
    (hts : tstep sh t (.load v) e = some (sh', pc')) : Inv ⟨n, sh', upd pcs t pc'⟩ := by
  destr
  simp only [tstep] at hts
  branches <;> fin

end MayVerif.MpscA
