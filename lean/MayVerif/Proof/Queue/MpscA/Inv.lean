/-
  Invariant of the level-A mpsc queue model (`Model/Queue/MpscA.lean`), helper lemmas about the ghost lists,
  and the tactics shared by the per-program-point preservation lemmas (`P_*.lean`).
-/
import MayVerif.Model.Queue.MpscA
namespace MayVerif.MpscA

/-- slot (and value) a producer pc is about to publish -/
@[grind] def pubSlot : Pc → Option (Nat × Nat) | .publish v i => some (i, v) | _ => none
/-- program points of the consumer API -/
@[grind] def isCons : Pc → Bool
  | .tryGet _ | .pushIndex _ | .spin _ | .bFast _ | .bPushIndex | .bCopy _ _ | .kPushIndex | .kSpin | .lPushIndex _ => true
  | _ => false
/-- the consumer waits for slot `head`, which it knows to be counted by `push_index()` -/
@[grind] def waits : Pc → Bool | .spin _ | .kSpin | .bCopy _ _ => true | _ => false
@[grind] def copyEnd : Pc → Option Nat | .bCopy e _ => some e | _ => none
/-- the actor has started a push (counted in `cnt`) that has not reserved its slot yet -/
@[grind] def inPush0 : Pc → Bool | .load _ | .cas _ _ => true | _ => false

structure Inv (s : St) : Prop where
  hl : s.sh.head ≤ s.sh.lin
  lr : s.sh.lin ≤ s.sh.res
  lc : s.sh.lin = s.sh.res ∨ (s.sh.lin + 1 = s.sh.res ∧ s.sh.closing = true)
  helped : s.sh.closing = true → s.sh.lin = s.sh.res → s.sh.head = s.sh.res
  alen : s.sh.A.length = s.sh.lin - s.sh.head
  aget : ∀ (k : Nat), k < s.sh.A.length → s.sh.A[k]? = some (s.sh.pend (s.sh.head + k))
  rdy : ∀ (i : Nat), s.sh.ready i = true → i < s.sh.res ∧ s.sh.val i = s.sh.pend i
  pub : ∀ (t : Tid) (i v : Nat), pubSlot (s.pcs t) = some (i, v) →
          i < s.sh.res ∧ s.sh.pend i = v ∧ s.sh.ready i = false ∧ s.sh.head ≤ i
  pub1 : ∀ (t u : Tid) (i v w : Nat), pubSlot (s.pcs t) = some (i, v) → pubSlot (s.pcs u) = some (i, w) → t = u
  cons0 : ∀ (t : Tid), isCons (s.pcs t) = true → t = 0
  wt : ∀ (t : Tid), waits (s.pcs t) = true → s.sh.head < s.sh.lin
  bce : ∀ (t : Tid) (e : Nat), copyEnd (s.pcs t) = some e → e ≤ s.sh.lin
  pushed_eq : s.sh.pushed = (List.range s.sh.lin).map (fun i => (s.sh.own i, s.sh.sq i, s.sh.pend i))
  exactly_once : s.sh.pushed.map (fun p => p.2.2) = s.sh.popped ++ s.sh.A
  noBadNone : s.sh.badNone = false
  noBadVal : s.sh.badVal = false
  noBadLen : s.sh.badLen = false
  cpos : ∀ (t : Tid), inPush0 (s.pcs t) = true → 0 < s.sh.cnt t
  sqlt : ∀ (i : Nat), i < s.sh.res → s.sh.sq i + (if inPush0 (s.pcs (s.sh.own i)) = true then 1 else 0) < s.sh.cnt (s.sh.own i)
  producer_order : ∀ (i j : Nat), i < j → j < s.sh.res → s.sh.own i = s.sh.own j → s.sh.sq i < s.sh.sq j

theorem inv_init (B n : Nat) : Inv (init B n) := by
  constructor <;> simp [init, initSh, pubSlot, isCons, waits, copyEnd, inPush0]

/-! ghost-list lemmas -/

theorem map_range_congr {α : Type} (f g : Nat → α) (n : Nat) (h : ∀ i, i < n → f i = g i) :
    (List.range n).map f = (List.range n).map g := by
  apply List.map_congr_left
  intro i hi
  exact h i (List.mem_range.mp hi)

/-- the log of linearized pushes is not disturbed by writes to slots `≥ lin` -/
theorem pushed_keep (pushed : List (Tid × Nat × Nat)) (own own' : Nat → Tid) (sq sq' pend pend' : Nat → Nat) (lin : Nat)
    (h : pushed = (List.range lin).map (fun i => (own i, sq i, pend i)))
    (hc : ∀ i, i < lin → own' i = own i ∧ sq' i = sq i ∧ pend' i = pend i) :
    pushed = (List.range lin).map (fun i => (own' i, sq' i, pend' i)) := by
  rw [h]
  apply map_range_congr
  intro i hi
  obtain ⟨h1, h2, h3⟩ := hc i hi
  rw [h1, h2, h3]

/-- linearizing slot `lin` -/
theorem pushed_linz (pushed : List (Tid × Nat × Nat)) (own own' : Nat → Tid) (sq sq' pend pend' : Nat → Nat) (lin i : Nat)
    (h : pushed = (List.range lin).map (fun i => (own i, sq i, pend i)))
    (hi : i = lin)
    (hc : ∀ i, i < lin → own' i = own i ∧ sq' i = sq i ∧ pend' i = pend i) :
    pushed ++ [(own' i, sq' i, pend' i)] = (List.range (i + 1)).map (fun i => (own' i, sq' i, pend' i)) := by
  subst hi
  rw [List.range_succ, List.map_append, ← pushed_keep pushed own own' sq sq' pend pend' i h hc]
  rfl

theorem once_linz (pushed : List (Tid × Nat × Nat)) (popped A : List Nat) (o q x : Nat)
    (h : pushed.map (fun p => p.2.2) = popped ++ A) :
    (pushed ++ [(o, q, x)]).map (fun p => p.2.2) = popped ++ (A ++ [x]) := by
  simp [h]

theorem once_take (pushed : List (Tid × Nat × Nat)) (popped A : List Nat) (x : Nat)
    (h : pushed.map (fun p => p.2.2) = popped ++ A) (hx : A[0]? = some x) :
    pushed.map (fun p => p.2.2) = (popped ++ [x]) ++ A.tail := by
  cases A with
  | nil => simp at hx
  | cons a r => simp at hx; subst hx; simp [h]

theorem once_linz_take (pushed : List (Tid × Nat × Nat)) (popped A : List Nat) (o q x y : Nat)
    (h : pushed.map (fun p => p.2.2) = popped ++ A) (hA : A.length = 0) (hxy : x = y) :
    (pushed ++ [(o, q, x)]).map (fun p => p.2.2) = (popped ++ [y]) ++ (A ++ [x]).tail := by
  cases A with
  | nil => simp [h] at *; exact hxy
  | cons a r => simp at hA

theorem aget_snoc (A : List Nat) (pend : Nat → Nat) (head x : Nat)
    (h : ∀ k, k < A.length → A[k]? = some (pend (head + k))) (hx : pend (head + A.length) = x) :
    ∀ k, k < (A ++ [x]).length → (A ++ [x])[k]? = some (pend (head + k)) := by
  intro k hk
  simp at hk
  by_cases hk' : k < A.length
  · rw [List.getElem?_append_left hk']; exact h k hk'
  · have : k = A.length := by omega
    subst this
    simp [hx]

theorem aget_tail (A : List Nat) (pend : Nat → Nat) (head : Nat)
    (h : ∀ k, k < A.length → A[k]? = some (pend (head + k))) :
    ∀ k, k < A.tail.length → A.tail[k]? = some (pend (head + 1 + k)) := by
  intro k hk
  simp at hk
  rw [List.getElem?_tail, h (k + 1) (by omega)]
  congr 2; omega

theorem head_of_get (A : List Nat) (x : Nat) (h : A[0]? = some x) : (A.head? != some x) = false := by
  cases A with
  | nil => simp at h
  | cons a r => simp at h; simp [h]

attribute [grind] pushIndex

theorem waits_isCons (pc : Pc) (h : waits pc = true) : isCons pc = true := by cases pc <;> simp_all [waits, isCons]
theorem copyEnd_isCons (pc : Pc) (e : Nat) (h : copyEnd pc = some e) : isCons pc = true := by cases pc <;> simp_all [copyEnd, isCons]

/-! tactics shared by the preservation lemmas `P_*.lean` (they refer to the hypothesis names introduced by `destr`) -/

set_option hygiene false in
/-- destructure `h : Inv ⟨n, sh, pcs⟩` and instantiate the pc clauses at the stepping actor `t` (`hpc : pcs t = …`) -/
macro "destr" : tactic => `(tactic|
  (obtain ⟨hl, lr, lc, helped, alen, aget, rdy, pub, pub1, cons0, wt, bce, pushed_eq, exactly_once, nbn, nbv, nbl, cpos, sqlt, po⟩ := h
   simp only at hl lr lc helped alen aget rdy pub pub1 cons0 wt bce pushed_eq exactly_once nbn nbv nbl cpos sqlt po
   have wt0 : ∀ (u : Tid), waits (pcs u) = true → u = 0 := fun u hu => cons0 u (waits_isCons _ hu)
   have bce0 : ∀ (u : Tid) (e : Nat), copyEnd (pcs u) = some e → u = 0 := fun u e hu => cons0 u (copyEnd_isCons _ e hu)
   have pubt := pub t; have const := cons0 t; have wtt := wt t; have bcet := bce t; have cpost := cpos t
   simp only [hpc, pubSlot, isCons, waits, copyEnd, inPush0] at pubt const wtt bcet cpost))

set_option hygiene false in
/-- split the step function into its branches -/
macro "branches" : tactic => `(tactic|
  ((repeat' split at hts) <;> (try contradiction) <;> simp only [Option.some.injEq, Prod.mk.injEq] at hts <;>
   obtain ⟨rfl, rfl⟩ := hts))

set_option hygiene false in
/-- one goal per clause; every clause sees only the clauses it can depend on (keeps `grind` fast) -/
macro "fin" : tactic => `(tactic|
  (constructor <;> simp only [linz, noneLP, pushIndex]
   case hl => clear aget pub pub1 cons0 bce pushed_eq exactly_once cpos sqlt po; grind
   case lr => clear aget pub pub1 cons0 bce pushed_eq exactly_once cpos sqlt po; grind
   case lc => clear aget pub pub1 cons0 bce pushed_eq exactly_once cpos sqlt po; grind
   case helped => clear aget pub pub1 cons0 bce pushed_eq exactly_once cpos sqlt po; grind
   case alen => clear aget pub pub1 cons0 bce pushed_eq exactly_once cpos sqlt po; grind [List.length_tail]
   case aget =>
     clear pub pub1 cons0 bce pushed_eq exactly_once cpos sqlt po
     first
       | exact aget
       | exact aget_snoc _ _ _ _ (by grind) (by grind)
       | (have hh := aget_tail _ _ _ aget; grind)
       | (have hh := aget_tail _ _ _ (aget_snoc _ _ _ _ aget rfl); grind)
       | grind
   case rdy => clear aget pub1 cons0 bce pushed_eq exactly_once cpos sqlt po; grind
   case pub => clear aget cons0 bce pushed_eq exactly_once cpos sqlt po; grind
   case pub1 => clear aget cons0 bce pushed_eq exactly_once cpos sqlt po; grind
   case cons0 => clear aget pub pub1 bce pushed_eq exactly_once cpos sqlt po rdy wt; grind
   case wt => clear aget pub pub1 cons0 bce0 pushed_eq exactly_once cpos sqlt po; grind
   case bce => clear aget pub pub1 cons0 wt0 pushed_eq exactly_once cpos sqlt po; grind
   case pushed_eq =>
     clear aget pub pub1 cons0 bce exactly_once cpos sqlt po wt
     first
       | exact pushed_eq
       | exact pushed_keep _ _ _ _ _ _ _ _ pushed_eq (by grind)
       | exact pushed_linz _ _ _ _ _ _ _ _ _ pushed_eq (by grind) (by grind)
   case exactly_once =>
     clear pub pub1 cons0 bce pushed_eq cpos sqlt po
     first
       | exact exactly_once
       | exact once_linz _ _ _ _ _ _ exactly_once
       | exact once_take _ _ _ _ exactly_once (by grind)
       | exact once_linz_take _ _ _ _ _ _ _ exactly_once (by grind) (by grind)
   case noBadNone =>
     clear pub pub1 bce pushed_eq exactly_once cpos sqlt po
     have hE := List.isEmpty_iff_length_eq_zero (l := sh.A)
     grind
   case noBadVal =>
     clear pub pub1 bce pushed_eq exactly_once cpos sqlt po
     grind [List.head?_eq_getElem?]
   case noBadLen => clear pub pub1 bce pushed_eq exactly_once cpos sqlt po; grind
   case cpos => clear aget pub pub1 cons0 bce pushed_eq exactly_once sqlt po rdy wt; grind
   case sqlt => clear aget pub pub1 cons0 bce pushed_eq exactly_once po rdy wt; grind
   case producer_order => clear aget pub pub1 cons0 bce pushed_eq exactly_once rdy wt; grind))

set_option hygiene false in
/-- the same after a `take`: decide first whether the taken slot has to be linearized (helping) -/
macro "finTake" : tactic => `(tactic|
  (by_cases hlh : sh.lin ≤ sh.head <;> simp only [take, hlh, ↓reduceIte] <;> fin))

end MayVerif.MpscA
