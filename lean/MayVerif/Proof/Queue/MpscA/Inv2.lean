/-
  Second invariant of the level-A mpsc queue model: NO COMPLETED PUSH IS LOST.

  `Inv2` is inductive relative to `Inv` (`Inv.lean`, proved in `Step.lean`). Its clauses `n0 np nc nn` say, program
  point by program point, that for every actor the number of its linearized pushes (entries of the ghost log
  `pushed`), plus one if the push it is executing is not linearized yet (`pendLin`), is the number `cnt` of pushes
  it has started (put together in `no_lost_push`, `Step2.lean`; the clauses are split by pc because `grind` works
  better with pc predicates than with a 4-way function of the pc). The other clauses say who owns the slot a
  producer is about to publish, that the closing bit belongs to the owner of slot `res - 1`, and where that owner is.

  This file: definitions, the lemma about the log, the tactics shared by the preservation lemmas `Q_*.lean`.
-/
import MayVerif.Proof.Queue.MpscA.Inv
namespace MayVerif.MpscA

/-- the push the actor is executing is not linearized yet -/
def pendLin (sh : Sh) : Pc → Bool
  | .load _ | .cas _ _ => true
  | .publish _ i => decide (sh.lin ≤ i)
  | .close => decide (sh.lin < sh.res)
  | _ => false

/-- the actor is not inside a push -/
@[grind] def noPush : Pc → Bool | .load _ | .cas _ _ | .publish _ _ | .close => false | _ => true

/-- number of entries of producer `t` in a log of pushes -/
def cntOf (l : List (Tid × Nat × Nat)) (t : Tid) : Nat := (l.filter (fun p => p.1 = t)).length

/-- number of linearized pushes of actor `t` -/
def linCount (sh : Sh) (t : Tid) : Nat := cntOf sh.pushed t

theorem cntOf_nil (t : Tid) : cntOf [] t = 0 := rfl

theorem cntOf_snoc (l : List (Tid × Nat × Nat)) (c q x : Nat) (t : Tid) :
    cntOf (l ++ [(c, q, x)]) t = cntOf l t + (if c = t then 1 else 0) := by
  simp only [cntOf, List.filter_append, List.length_append, List.filter_cons, List.filter_nil]
  by_cases hc : c = t <;> simp [hc]

structure Inv2 (s : St) : Prop where
  /-- no lost push, by program point: linearized pushes + the pending one = started pushes (`no_lost_push`) -/
  n0 : ∀ (t : Tid), inPush0 (s.pcs t) = true → cntOf s.sh.pushed t + 1 = s.sh.cnt t
  np : ∀ (t : Tid) (i v : Nat), pubSlot (s.pcs t) = some (i, v) →
         cntOf s.sh.pushed t + (if s.sh.lin ≤ i then 1 else 0) = s.sh.cnt t
  nc : ∀ (t : Tid), s.pcs t = .close → cntOf s.sh.pushed t + (if s.sh.lin < s.sh.res then 1 else 0) = s.sh.cnt t
  nn : ∀ (t : Tid), noPush (s.pcs t) = true → cntOf s.sh.pushed t = s.sh.cnt t
  /-- a publisher owns its slot -/
  ow : ∀ (t : Tid) (i v : Nat), pubSlot (s.pcs t) = some (i, v) → s.sh.own i = t
  /-- the publisher of the last slot of a block holds the closing bit, and its slot is the last reserved one -/
  pcl : ∀ (t : Tid) (i v : Nat), pubSlot (s.pcs t) = some (i, v) → (i + 1) % s.sh.B = 0 →
          s.sh.closing = true ∧ i + 1 = s.sh.res
  /-- every other publisher is linearized -/
  pnc : ∀ (t : Tid) (i v : Nat), pubSlot (s.pcs t) = some (i, v) → (i + 1) % s.sh.B ≠ 0 → i < s.sh.lin
  /-- the closer holds the closing bit and owns the last reserved slot -/
  clo : ∀ (t : Tid), s.pcs t = .close → s.sh.closing = true ∧ s.sh.own (s.sh.res - 1) = t
  /-- while the closing bit is set, the owner of slot `res - 1` is publishing it, or (published) closing -/
  cl : s.sh.closing = true → 0 < s.sh.res ∧ s.sh.res % s.sh.B = 0 ∧
         (s.sh.ready (s.sh.res - 1) = false →
            pubSlot (s.pcs (s.sh.own (s.sh.res - 1))) = some (s.sh.res - 1, s.sh.pend (s.sh.res - 1))) ∧
         (s.sh.ready (s.sh.res - 1) = true → s.pcs (s.sh.own (s.sh.res - 1)) = .close)

theorem inv2_init (B n : Nat) : Inv2 (init B n) := by
  constructor <;> simp [init, initSh, pubSlot, inPush0, noPush, cntOf_nil]

attribute [grind =] cntOf_snoc

/-! tactics shared by the preservation lemmas `Q_*.lean`; they are used after `destr` of `Inv.lean` -/

set_option hygiene false in
/-- destructure `h2 : Inv2 ⟨n, sh, pcs⟩` and instantiate the pc clauses at the stepping actor `t` -/
macro "destr2" : tactic => `(tactic|
  (obtain ⟨n0, np, nc, nn, ow, pcl, pnc, clo, cl⟩ := h2
   simp only at n0 np nc nn ow pcl pnc clo cl
   clear helped alen aget pub1 wt bce pushed_eq exactly_once nbn nbv nbl cpos sqlt po wt0 bce0
   try clear wtt
   try clear bcet
   try clear cpost
   try clear const
   have n0t := n0 t; have npt := np t; have nct := nc t; have nnt := nn t
   have owt := ow t; have pclt := pcl t; have pnct := pnc t; have clot := clo t
   simp only [hpc, pubSlot, inPush0, noPush] at n0t npt nct nnt pubt owt pclt pnct clot))

set_option hygiene false in
/-- one goal per clause of `Inv2` -/
macro "fin2" : tactic => `(tactic|
  (constructor <;> simp only [linz, noneLP, pushIndex]
   case n0 => grind
   case np => grind
   case nc => grind
   case nn => grind
   case ow => grind
   case pcl => grind
   case pnc => grind
   case clo => grind
   case cl => grind))

set_option hygiene false in
/-- the same after a `take`: decide first whether the taken slot has to be linearized (helping) -/
macro "finTake2" : tactic => `(tactic|
  (by_cases hlh : sh.lin ≤ sh.head <;> simp only [take, hlh, ↓reduceIte] <;> fin2))

end MayVerif.MpscA
