/-
  The invariant of the level-A mpsc queue model is inductive, and its consequences:
  no response ever disagrees with the abstract FIFO (`flags_false`), every linearized push is handed out exactly
  once or still queued, in order (`exactly_once`), the log of linearized pushes is the slot order (`pushed_eq`),
  and every producer's pushes are linearized in program order (`producer_order`, `producer_order_list`).
-/
import MayVerif.Proof.Queue.MpscA.P_idle
import MayVerif.Proof.Queue.MpscA.P_load
import MayVerif.Proof.Queue.MpscA.P_cas
import MayVerif.Proof.Queue.MpscA.P_publish
import MayVerif.Proof.Queue.MpscA.P_close
import MayVerif.Proof.Queue.MpscA.P_tryGet
import MayVerif.Proof.Queue.MpscA.P_pushIndex
import MayVerif.Proof.Queue.MpscA.P_spin
import MayVerif.Proof.Queue.MpscA.P_bFast
import MayVerif.Proof.Queue.MpscA.P_bPushIndex
import MayVerif.Proof.Queue.MpscA.P_bCopy
import MayVerif.Proof.Queue.MpscA.P_kPushIndex
import MayVerif.Proof.Queue.MpscA.P_kSpin
import MayVerif.Proof.Queue.MpscA.P_lPushIndex
import MayVerif.Proof.Queue.MpscA.P_ret
namespace MayVerif.MpscA

theorem inv_step (s s' : St) (t : Tid) (e : Env) (h : Inv s) (hs : step s t e = some s') : Inv s' := by
  obtain ⟨n, sh, pcs⟩ := s
  simp only [step] at hs
  split at hs
  case isFalse => contradiction
  next hlt =>
  split at hs
  next sh' pc' hts =>
    simp only [Option.some.injEq] at hs
    subst hs
    generalize hpc : pcs t = pc at hts
    cases pc with
    | idle => exact p_idle n sh pcs t e hlt h hpc sh' pc' hts
    | load v => exact p_load n sh pcs t e v hlt h hpc sh' pc' hts
    | cas v seen => exact p_cas n sh pcs t e v seen hlt h hpc sh' pc' hts
    | publish v i => exact p_publish n sh pcs t e v i hlt h hpc sh' pc' hts
    | close => exact p_close n sh pcs t e hlt h hpc sh' pc' hts
    | tryGet d => exact p_tryGet n sh pcs t e d hlt h hpc sh' pc' hts
    | pushIndex d => exact p_pushIndex n sh pcs t e d hlt h hpc sh' pc' hts
    | spin d => exact p_spin n sh pcs t e d hlt h hpc sh' pc' hts
    | bFast acc => exact p_bFast n sh pcs t e acc hlt h hpc sh' pc' hts
    | bPushIndex => exact p_bPushIndex n sh pcs t e hlt h hpc sh' pc' hts
    | bCopy ce acc => exact p_bCopy n sh pcs t e ce acc hlt h hpc sh' pc' hts
    | kPushIndex => exact p_kPushIndex n sh pcs t e hlt h hpc sh' pc' hts
    | kSpin => exact p_kSpin n sh pcs t e hlt h hpc sh' pc' hts
    | lPushIndex b => exact p_lPushIndex n sh pcs t e b hlt h hpc sh' pc' hts
    | ret r => exact p_ret n sh pcs t e r hlt h hpc sh' pc' hts
  · contradiction

theorem inv_run (s : St) (l : List (Tid × Env)) (h : Inv s) : Inv (run s l) := by
  induction l generalizing s with
  | nil => simpa [run]
  | cons te r ih =>
    obtain ⟨t, e⟩ := te
    simp only [run]
    split
    · next s' hs => exact ih _ (inv_step _ _ _ _ h hs)
    · exact ih _ h

theorem inv_reach (B n : Nat) (l : List (Tid × Env)) : Inv (run (init B n) l) :=
  inv_run _ l (inv_init B n)

/-! consequences -/

/-- 1. no response disagrees with the abstract FIFO at its linearization point -/
theorem flags_false (s : St) (h : Inv s) : s.sh.badNone = false ∧ s.sh.badVal = false ∧ s.sh.badLen = false :=
  ⟨h.noBadNone, h.noBadVal, h.noBadLen⟩

/-- 2. the values of the linearized pushes are exactly the values handed out followed by the queue content -/
theorem exactly_once (s : St) (h : Inv s) : s.sh.pushed.map (fun p => p.2.2) = s.sh.popped ++ s.sh.A :=
  h.exactly_once

/-- 3. pushes are linearized in slot order -/
theorem pushed_eq (s : St) (h : Inv s) :
    s.sh.pushed = (List.range s.sh.lin).map (fun i => (s.sh.own i, s.sh.sq i, s.sh.pend i)) :=
  h.pushed_eq

/-- 4. slots reserved by one producer carry increasing sequence numbers -/
theorem producer_order (s : St) (h : Inv s) :
    ∀ i j, i < j → j < s.sh.res → s.sh.own i = s.sh.own j → s.sh.sq i < s.sh.sq j :=
  h.producer_order

/-- 3 + 4: in the log of linearized pushes, the pushes of every producer appear in program order -/
theorem producer_order_list (s : St) (h : Inv s) (t : Tid) :
    ((s.sh.pushed.filter (fun p => p.1 = t)).map (fun p => p.2.1)).Pairwise (· < ·) := by
  rw [h.pushed_eq, List.pairwise_map, List.pairwise_filter, List.pairwise_map]
  refine List.Pairwise.imp_of_mem ?_ (List.pairwise_lt_range (n := s.sh.lin))
  intro i j hi hj hij hit hjt
  have hj' : j < s.sh.lin := List.mem_range.mp hj
  simp only [decide_eq_true_eq] at hit hjt
  exact h.producer_order i j hij (Nat.lt_of_lt_of_le hj' h.lr) (hit.trans hjt.symm)

theorem reach_flags_false (B n : Nat) (l : List (Tid × Env)) :
    (run (init B n) l).sh.badNone = false ∧ (run (init B n) l).sh.badVal = false ∧ (run (init B n) l).sh.badLen = false :=
  flags_false _ (inv_reach B n l)

theorem reach_exactly_once (B n : Nat) (l : List (Tid × Env)) :
    (run (init B n) l).sh.pushed.map (fun p => p.2.2) = (run (init B n) l).sh.popped ++ (run (init B n) l).sh.A :=
  exactly_once _ (inv_reach B n l)

theorem reach_pushed_eq (B n : Nat) (l : List (Tid × Env)) :
    (run (init B n) l).sh.pushed = (List.range (run (init B n) l).sh.lin).map
      (fun i => ((run (init B n) l).sh.own i, (run (init B n) l).sh.sq i, (run (init B n) l).sh.pend i)) :=
  pushed_eq _ (inv_reach B n l)

theorem reach_producer_order (B n : Nat) (l : List (Tid × Env)) :
    ∀ i j, i < j → j < (run (init B n) l).sh.res → (run (init B n) l).sh.own i = (run (init B n) l).sh.own j →
      (run (init B n) l).sh.sq i < (run (init B n) l).sh.sq j :=
  producer_order _ (inv_reach B n l)

theorem reach_producer_order_list (B n : Nat) (l : List (Tid × Env)) (t : Tid) :
    (((run (init B n) l).sh.pushed.filter (fun p => p.1 = t)).map (fun p => p.2.1)).Pairwise (· < ·) :=
  producer_order_list _ (inv_reach B n l) t

end MayVerif.MpscA
