import MayVerif.Proof.Queue.MpscA.Inv
namespace MayVerif.MpscA

set_option maxHeartbeats 4000000 in
theorem p_kSpin (n : Nat) (sh : Sh) (pcs : Tid → Pc) (t : Tid) (e : Env) (_hlt : t < n)
    (h : Inv ⟨n, sh, pcs⟩) (hpc : pcs t = .kSpin) (sh' : Sh) (pc' : Pc)
    (hts : tstep sh t (.kSpin) e = some (sh', pc')) : Inv ⟨n, sh', upd pcs t pc'⟩ := by
  destr
  simp only [tstep] at hts
  branches <;> fin

end MayVerif.MpscA
