/-
  `Inv2` (`Inv2.lean`) is inductive relative to `Inv`, hence holds in every reachable state, and its consequence:
  NO COMPLETED PUSH IS LOST – for every actor, the number of its entries in the log of linearized pushes, plus one
  if the push it is executing is not linearized yet, is the number of pushes it has started (`reach_no_lost_push`);
  in particular an actor that is not inside a push has all its pushes linearized
  (`reach_completed_pushes_linearized`). With `exactly_once` (`Step.lean`) every such push has been handed out
  exactly once or is still queued.
-/
import MayVerif.Proof.Queue.MpscA.Step
import MayVerif.Proof.Queue.MpscA.Q_idle
import MayVerif.Proof.Queue.MpscA.Q_load
import MayVerif.Proof.Queue.MpscA.Q_cas
import MayVerif.Proof.Queue.MpscA.Q_publish
import MayVerif.Proof.Queue.MpscA.Q_close
import MayVerif.Proof.Queue.MpscA.Q_tryGet
import MayVerif.Proof.Queue.MpscA.Q_pushIndex
import MayVerif.Proof.Queue.MpscA.Q_spin
import MayVerif.Proof.Queue.MpscA.Q_bFast
import MayVerif.Proof.Queue.MpscA.Q_bPushIndex
import MayVerif.Proof.Queue.MpscA.Q_bCopy
import MayVerif.Proof.Queue.MpscA.Q_kPushIndex
import MayVerif.Proof.Queue.MpscA.Q_kSpin
import MayVerif.Proof.Queue.MpscA.Q_lPushIndex
import MayVerif.Proof.Queue.MpscA.Q_ret
namespace MayVerif.MpscA

theorem inv2_step (s s' : St) (t : Tid) (e : Env) (h : Inv s) (h2 : Inv2 s) (hs : step s t e = some s') : Inv2 s' := by
  obtain ⟨n, sh, pcs⟩ := s
  simp only [step] at hs
  split at hs
  case isFalse => contradiction
  next hlt =>
  split at hs
  next sh' pc' hts =>
    simp only [Option.some.injEq] at hs
    subst hs
    generalize hpc : pcs t = pc at hts
    cases pc with
    | idle => exact q_idle n sh pcs t e hlt h h2 hpc sh' pc' hts
    | load v => exact q_load n sh pcs t e v hlt h h2 hpc sh' pc' hts
    | cas v seen => exact q_cas n sh pcs t e v seen hlt h h2 hpc sh' pc' hts
    | publish v i => exact q_publish n sh pcs t e v i hlt h h2 hpc sh' pc' hts
    | close => exact q_close n sh pcs t e hlt h h2 hpc sh' pc' hts
    | tryGet d => exact q_tryGet n sh pcs t e d hlt h h2 hpc sh' pc' hts
    | pushIndex d => exact q_pushIndex n sh pcs t e d hlt h h2 hpc sh' pc' hts
    | spin d => exact q_spin n sh pcs t e d hlt h h2 hpc sh' pc' hts
    | bFast acc => exact q_bFast n sh pcs t e acc hlt h h2 hpc sh' pc' hts
    | bPushIndex => exact q_bPushIndex n sh pcs t e hlt h h2 hpc sh' pc' hts
    | bCopy ce acc => exact q_bCopy n sh pcs t e ce acc hlt h h2 hpc sh' pc' hts
    | kPushIndex => exact q_kPushIndex n sh pcs t e hlt h h2 hpc sh' pc' hts
    | kSpin => exact q_kSpin n sh pcs t e hlt h h2 hpc sh' pc' hts
    | lPushIndex b => exact q_lPushIndex n sh pcs t e b hlt h h2 hpc sh' pc' hts
    | ret r => exact q_ret n sh pcs t e r hlt h h2 hpc sh' pc' hts
  · contradiction

theorem inv2_run (s : St) (l : List (Tid × Env)) (h : Inv s) (h2 : Inv2 s) : Inv2 (run s l) := by
  induction l generalizing s with
  | nil => simpa [run]
  | cons te r ih =>
    obtain ⟨t, e⟩ := te
    simp only [run]
    split
    · next s' hs => exact ih _ (inv_step _ _ _ _ h hs) (inv2_step _ _ _ _ h h2 hs)
    · exact ih _ h h2

theorem inv2_reach (B n : Nat) (l : List (Tid × Env)) : Inv2 (run (init B n) l) :=
  inv2_run _ l (inv_init B n) (inv2_init B n)

/-! consequences -/

/-- no push is lost: the linearized pushes of `t`, plus the one it is executing if that is not linearized yet,
    are the pushes `t` has started -/
theorem no_lost_push (s : St) (h2 : Inv2 s) (t : Tid) :
    linCount s.sh t + (if pendLin s.sh (s.pcs t) then 1 else 0) = s.sh.cnt t := by
  have h0 := h2.n0 t
  have hp := h2.np t
  have hc := h2.nc t
  have hn := h2.nn t
  simp only [linCount]
  generalize s.pcs t = pc at h0 hp hc hn
  cases pc <;> simp [inPush0, pubSlot, noPush, pendLin] at h0 hp hc hn ⊢ <;> assumption

/-- an actor that is not inside a push (idle, or in a consumer operation) has all its pushes linearized -/
theorem completed_pushes_linearized (s : St) (h2 : Inv2 s) (t : Tid) (h : noPush (s.pcs t) = true) :
    linCount s.sh t = s.sh.cnt t :=
  h2.nn t h

theorem reach_no_lost_push (B n : Nat) (l : List (Tid × Env)) (t : Tid) :
    linCount (run (init B n) l).sh t + (if pendLin (run (init B n) l).sh ((run (init B n) l).pcs t) then 1 else 0)
      = (run (init B n) l).sh.cnt t :=
  no_lost_push _ (inv2_reach B n l) t

theorem reach_completed_pushes_linearized (B n : Nat) (l : List (Tid × Env)) (t : Tid)
    (h : (run (init B n) l).pcs t = .idle) : linCount (run (init B n) l).sh t = (run (init B n) l).sh.cnt t :=
  completed_pushes_linearized _ (inv2_reach B n l) t (by rw [h]; rfl)

/-- the same for any program point outside `push` (idle, consumer operations, `ret`) -/
theorem reach_completed_pushes_linearized' (B n : Nat) (l : List (Tid × Env)) (t : Tid)
    (h : noPush ((run (init B n) l).pcs t) = true) : linCount (run (init B n) l).sh t = (run (init B n) l).sh.cnt t :=
  completed_pushes_linearized _ (inv2_reach B n l) t h

end MayVerif.MpscA
