import MayVerif.Proof.Queue.MpscA.Inv
namespace MayVerif.MpscA

set_option maxHeartbeats 4000000 in
theorem p_bFast (n : Nat) (sh : Sh) (pcs : Tid → Pc) (t : Tid) (e : Env) (acc : List Nat) (_hlt : t < n)
    (h : Inv ⟨n, sh, pcs⟩) (hpc : pcs t = .bFast acc) (sh' : Sh) (pc' : Pc)
    (hts : tstep sh t (.bFast acc) e = some (sh', pc')) : Inv ⟨n, sh', upd pcs t pc'⟩ := by
  destr
  simp only [tstep] at hts
  branches
  · finTake
  · finTake
  · fin
  · fin

end MayVerif.MpscA
