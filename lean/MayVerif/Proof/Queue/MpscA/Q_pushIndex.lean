import MayVerif.Proof.Queue.MpscA.Inv2
namespace MayVerif.MpscA

set_option linter.unusedVariables false in -- `hpc` is used by `destr`/`destr2` (unhygienic macros)
set_option maxHeartbeats 4000000 in
theorem q_pushIndex (n : Nat) (sh : Sh) (pcs : Tid → Pc) (t : Tid) (e : Env) (d : Bool) (_hlt : t < n)
    (h : Inv ⟨n, sh, pcs⟩) (h2 : Inv2 ⟨n, sh, pcs⟩) (hpc : pcs t = .pushIndex d) (sh' : Sh) (pc' : Pc)
    (hts : tstep sh t (.pushIndex d) e = some (sh', pc')) : Inv2 ⟨n, sh', upd pcs t pc'⟩ := by
  destr
  destr2
  simp only [tstep] at hts
  branches <;> fin2

end MayVerif.MpscA
