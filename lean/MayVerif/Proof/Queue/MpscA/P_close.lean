import MayVerif.Proof.Queue.MpscA.Inv
namespace MayVerif.MpscA

set_option linter.unusedVariables false in -- `hpc` is used by `destr` (unhygienic macro)
set_option maxHeartbeats 4000000 in
theorem p_close (n : Nat) (sh : Sh) (pcs : Tid → Pc) (t : Tid) (e : Env) (_hlt : t < n)
    (h : Inv ⟨n, sh, pcs⟩) (hpc : pcs t = .close) (sh' : Sh) (pc' : Pc)
    (hts : tstep sh t (.close) e = some (sh', pc')) : Inv ⟨n, sh', upd pcs t pc'⟩ := by
  destr
  simp only [tstep] at hts
  branches <;> fin

end MayVerif.MpscA
