import MayVerif.Proof.Queue.MpscA.Inv
namespace MayVerif.MpscA

set_option linter.unusedVariables false in -- `hpc` is used by `destr` (unhygienic macro)
set_option maxHeartbeats 4000000 in
theorem p_ret (n : Nat) (sh : Sh) (pcs : Tid → Pc) (t : Tid) (e : Env) (r : Ret) (_hlt : t < n)
    (h : Inv ⟨n, sh, pcs⟩) (hpc : pcs t = .ret r) (sh' : Sh) (pc' : Pc)
    (hts : tstep sh t (.ret r) e = some (sh', pc')) : Inv ⟨n, sh', upd pcs t pc'⟩ := by
  destr
  simp only [tstep] at hts
  branches <;> fin

end MayVerif.MpscA
