import MayVerif.Proof.Queue.MpscA.Inv
namespace MayVerif.MpscA

set_option maxHeartbeats 4000000 in
theorem p_idle (n : Nat) (sh : Sh) (pcs : Tid → Pc) (t : Tid) (e : Env) (_hlt : t < n)
    (h : Inv ⟨n, sh, pcs⟩) (hpc : pcs t = .idle) (sh' : Sh) (pc' : Pc)
    (hts : tstep sh t (.idle) e = some (sh', pc')) : Inv ⟨n, sh', upd pcs t pc'⟩ := by
  destr
  cases e <;> simp only [tstep] at hts <;> branches <;> fin

end MayVerif.MpscA
