import MayVerif.Proof.Queue.MpscA.Inv
namespace MayVerif.MpscA

set_option maxHeartbeats 4000000 in
theorem p_bCopy (n : Nat) (sh : Sh) (pcs : Tid → Pc) (t : Tid) (e : Env) (ce : Nat) (acc : List Nat) (_hlt : t < n)
    (h : Inv ⟨n, sh, pcs⟩) (hpc : pcs t = .bCopy ce acc) (sh' : Sh) (pc' : Pc)
    (hts : tstep sh t (.bCopy ce acc) e = some (sh', pc')) : Inv ⟨n, sh', upd pcs t pc'⟩ := by
  destr
  simp only [tstep] at hts
  branches <;> finTake

end MayVerif.MpscA
