import MayVerif.Proof.Sync.WaitGroupImpl.Inv
namespace MayVerif.WaitGroupImpl

set_option maxHeartbeats 2000000 in
theorem inv_wsleep (n : Nat) (sh : Sh) (pcs : Nat → Pc) (t : Nat) (e : Env) (a : Nat) (ep : Nat) (hlt : t < n)
    (h : Inv ⟨n, sh, pcs⟩) (hpc : pcs t = (.wsleep a ep)) (sh' : Sh) (pc' : Pc)
    (hts : tstep sh t (.wsleep a ep) e = some (sh', pc')) : Inv ⟨n, sh', upd pcs t pc'⟩ := by
  (wintro
   wstep)

end MayVerif.WaitGroupImpl
