import MayVerif.Proof.Sync.WaitGroupImpl.Inv
namespace MayVerif.WaitGroupImpl

set_option maxHeartbeats 2000000 in
theorem inv_d1sub (n : Nat) (sh : Sh) (pcs : Nat → Pc) (t : Nat) (e : Env) (a : Nat) (k : K) (hlt : t < n)
    (h : Inv ⟨n, sh, pcs⟩) (hpc : pcs t = (.d1sub a k)) (sh' : Sh) (pc' : Pc)
    (hts : tstep sh t (.d1sub a k) e = some (sh', pc')) : Inv ⟨n, sh', upd pcs t pc'⟩ := by
  (wintro
   wstep0)

end MayVerif.WaitGroupImpl
