/-
  Invariant of the implementation-level WaitGroup model: `count` is exactly the number of live handles.
-/
import MayVerif.Model.Sync.WaitGroupImpl
namespace MayVerif.WaitGroupImpl

def sumW (n : Nat) (f : Nat → Pc) : Nat := ((List.range n).map (fun u => wt (f u))).sum

theorem sumW_upd (n : Nat) (f : Nat → Pc) (t : Nat) (v : Pc) (ht : t < n) :
    sumW n (upd f t v) + wt (f t) = sumW n f + wt v := by
  unfold sumW
  induction n with
  | zero => omega
  | succ k ih =>
    simp only [List.range_succ, List.map_append, List.sum_append, List.map_cons, List.map_nil, List.sum_cons, List.sum_nil]
    by_cases hk : t = k
    · subst hk
      have : (List.map (fun u => wt (upd f t v u)) (List.range t)) = (List.map (fun u => wt (f u)) (List.range t)) := by
        apply List.map_congr_left
        intro x hx
        have : x < t := List.mem_range.mp hx
        have : x ≠ t := by omega
        simp [upd, this]
      rw [this]; simp [upd]; omega
    · have := ih (by omega)
      have h2 : upd f t v k = f k := by simp [upd]; intro h; omega
      rw [h2]; omega

theorem sumW_ge1 (n : Nat) (f : Nat → Pc) (t : Nat) (ht : t < n) : wt (f t) ≤ sumW n f := by
  have h1 := sumW_upd n f t (.idle 0) ht
  have h0 : wt (Pc.idle 0) = 0 := rfl
  omega

theorem sumW_ge2 (n : Nat) (f : Nat → Pc) (t u : Nat) (ht : t < n) (hu : u < n) (hne : t ≠ u) : wt (f t) + wt (f u) ≤ sumW n f := by
  have h1 := sumW_upd n f t (.idle 0) ht
  have h2 := sumW_ge1 n (upd f t (.idle 0)) u hu
  have h3 : upd f t (.idle 0) u = f u := by simp [upd]; intro h; omega
  rw [h3] at h2
  have h0 : wt (Pc.idle 0) = 0 := rfl
  omega

theorem sumW_zero (n : Nat) (f : Nat → Pc) (h : sumW n f = 0) (t : Nat) (ht : t < n) : wt (f t) = 0 := by
  have := sumW_ge1 n f t ht; omega

/-- the dropper is between its decrement and the end of its `== 0` test / notify_all -/
@[grind] def phOf : Pc → Nat | .d2cmp .. | .d3notify .. => 1 | _ => 0

structure Inv (s : St) : Prop where
  s1 : s.sh.count = sumW s.n s.pcs + s.sh.pool
  m1 : ∀ (t : Nat), holds (s.pcs t) = true → s.sh.locked = true ∧ s.sh.owner = t
  m2 : s.sh.locked = false → s.sh.ph = 0
  m3 : ∀ (t : Nat), holds (s.pcs t) = true → s.sh.ph = phOf (s.pcs t)
  w1 : ∀ (t h e : Nat), s.pcs t = .wsleep h e → e ≤ s.sh.nall ∧ (s.sh.count = 0 → s.sh.ph = 0 → e < s.sh.nall)
  w2 : ∀ (t h : Nat), s.pcs t = .w2wait h → 0 < s.sh.count
  d3 : ∀ (t h : Nat) (k : K), s.pcs t = .d3notify h k → s.sh.count = 0
  cl0 : ∀ (t h : Nat), s.pcs t = .c0lock h → 0 < h
  cl1 : ∀ (t h : Nat), s.pcs t = .c1add h → 0 < h
  k1 : ∀ (t h : Nat), t < s.n → s.pcs t = .g2unlock h true → s.sh.count = 1
  k2 : ∀ (t h : Nat), t < s.n → s.pcs t = .d0lock h .early → s.sh.count = 1
  k3 : ∀ (t h : Nat), t < s.n → s.pcs t = .d1sub h .early → s.sh.count = 1
  k4 : ∀ (t h : Nat), s.pcs t = .d2cmp h .early → s.sh.count = 0
  k6 : ∀ (t h : Nat), s.pcs t = .d4unlock h .early → s.sh.count = 0
  z1 : ∀ (t h : Nat), s.pcs t = .w3unlock h → s.sh.count = 0
  z2 : ∀ (t h : Nat), s.pcs t = .gdone h → s.sh.count = 0

theorem sumW_init (n : Nat) (hn : 0 < n) : sumW n (fun t => if t = 0 then Pc.idle 1 else Pc.idle 0) = 1 := by
  unfold sumW
  induction n with
  | zero => omega
  | succ k ih =>
    simp only [List.range_succ, List.map_append, List.sum_append, List.map_cons, List.map_nil, List.sum_cons, List.sum_nil]
    by_cases hk : k = 0
    · subst hk; simp [wt]
    · have := ih (by omega)
      simp [hk, wt] at this ⊢
      exact this

theorem init_pcs (n t : Nat) : (init n).pcs t = .idle 1 ∨ (init n).pcs t = .idle 0 := by
  simp only [init]; by_cases h0 : t = 0 <;> simp [h0]

theorem inv_init (n : Nat) (hn : 0 < n) : Inv (init n) := by
  have hp := init_pcs n
  constructor
  case s1 => simp only [init]; rw [sumW_init n hn]
  case m2 => intro _; rfl
  all_goals (intro t; rcases hp t with hpc | hpc <;> simp [hpc, holds])

set_option hygiene false in
macro "wintro" : tactic => `(tactic|
  (obtain ⟨s1, m1, m2, m3, w1, w2, d3, cl0, cl1, k1, k2, k3, k4, k6, z1, z2⟩ := h
   simp only at s1 m1 m2 m3 w1 w2 d3 cl0 cl1 k1 k2 k3 k4 k6 z1 z2
   have hU := sumW_upd n pcs t pc' hlt
   have hG := sumW_ge1 n pcs t hlt
   have hG2 := fun u (hu : u < n) (hne : t ≠ u) => sumW_ge2 n pcs t u hlt hu hne
   have hm1 := m1 t; have hm3 := m3 t; have hw1 := w1 t; have hw2 := w2 t; have hd3 := d3 t; have hcl0 := cl0 t; have hcl1 := cl1 t
   have hk1 := k1 t; have hk2 := k2 t; have hk3 := k3 t; have hk4 := k4 t; have hk6 := k6 t; have hz1 := z1 t; have hz2 := z2 t
   simp [hpc, holds, phOf] at hm1 hm3 hw1 hw2 hd3 hcl0 hcl1 hk1 hk2 hk3 hk4 hk6 hz1 hz2
   rw [hpc] at hU hG hG2))
set_option hygiene false in
macro "wfin" : tactic => `(tactic|
  ((try simp only [Option.some.injEq, Prod.mk.injEq] at hts) <;> obtain ⟨rfl, rfl⟩ := hts <;>
    simp only [wt] at hU hG hG2 <;> constructor <;> simp only [] <;> grind))
set_option hygiene false in
macro "wstep" : tactic => `(tactic|
  (cases e <;> simp only [tstep, contK] at hts <;> (try contradiction) <;> (repeat' split at hts) <;> (try contradiction) <;> wfin))
set_option hygiene false in
macro "wstep0" : tactic => `(tactic|
  (simp only [tstep, contK] at hts <;> (repeat' split at hts) <;> (try contradiction) <;> wfin))

end MayVerif.WaitGroupImpl
