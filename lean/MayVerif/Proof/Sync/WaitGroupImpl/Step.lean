import MayVerif.Proof.Sync.WaitGroupImpl.P_idle
import MayVerif.Proof.Sync.WaitGroupImpl.P_c0lock
import MayVerif.Proof.Sync.WaitGroupImpl.P_c1add
import MayVerif.Proof.Sync.WaitGroupImpl.P_c2unlock
import MayVerif.Proof.Sync.WaitGroupImpl.P_cdone
import MayVerif.Proof.Sync.WaitGroupImpl.P_d0lock
import MayVerif.Proof.Sync.WaitGroupImpl.P_d1sub
import MayVerif.Proof.Sync.WaitGroupImpl.P_d2cmp
import MayVerif.Proof.Sync.WaitGroupImpl.P_d3notify
import MayVerif.Proof.Sync.WaitGroupImpl.P_d4unlock
import MayVerif.Proof.Sync.WaitGroupImpl.P_ddone
import MayVerif.Proof.Sync.WaitGroupImpl.P_g0lock
import MayVerif.Proof.Sync.WaitGroupImpl.P_g1cmp
import MayVerif.Proof.Sync.WaitGroupImpl.P_g2unlock
import MayVerif.Proof.Sync.WaitGroupImpl.P_w0lock
import MayVerif.Proof.Sync.WaitGroupImpl.P_w1cmp
import MayVerif.Proof.Sync.WaitGroupImpl.P_w2wait
import MayVerif.Proof.Sync.WaitGroupImpl.P_wsleep
import MayVerif.Proof.Sync.WaitGroupImpl.P_wwake
import MayVerif.Proof.Sync.WaitGroupImpl.P_w3unlock
import MayVerif.Proof.Sync.WaitGroupImpl.P_gdone
namespace MayVerif.WaitGroupImpl

theorem inv_step (s s' : St) (t : Nat) (e : Env) (h : Inv s) (hs : step s t e = some s') : Inv s' := by
  obtain ⟨n, sh, pcs⟩ := s
  simp only [step] at hs
  split at hs
  case isFalse => contradiction
  next hlt =>
  split at hs
  · contradiction
  next sh' pc' hts =>
  simp only [Option.some.injEq] at hs
  subst hs
  generalize hpc : pcs t = pc at hts
  cases pc with
  | idle a => exact inv_idle n sh pcs t e a hlt h hpc sh' pc' hts
  | c0lock a => exact inv_c0lock n sh pcs t e a hlt h hpc sh' pc' hts
  | c1add a => exact inv_c1add n sh pcs t e a hlt h hpc sh' pc' hts
  | c2unlock a => exact inv_c2unlock n sh pcs t e a hlt h hpc sh' pc' hts
  | cdone a => exact inv_cdone n sh pcs t e a hlt h hpc sh' pc' hts
  | d0lock a k => exact inv_d0lock n sh pcs t e a k hlt h hpc sh' pc' hts
  | d1sub a k => exact inv_d1sub n sh pcs t e a k hlt h hpc sh' pc' hts
  | d2cmp a k => exact inv_d2cmp n sh pcs t e a k hlt h hpc sh' pc' hts
  | d3notify a k => exact inv_d3notify n sh pcs t e a k hlt h hpc sh' pc' hts
  | d4unlock a k => exact inv_d4unlock n sh pcs t e a k hlt h hpc sh' pc' hts
  | ddone a => exact inv_ddone n sh pcs t e a hlt h hpc sh' pc' hts
  | g0lock a => exact inv_g0lock n sh pcs t e a hlt h hpc sh' pc' hts
  | g1cmp a => exact inv_g1cmp n sh pcs t e a hlt h hpc sh' pc' hts
  | g2unlock a one => exact inv_g2unlock n sh pcs t e a one hlt h hpc sh' pc' hts
  | w0lock a => exact inv_w0lock n sh pcs t e a hlt h hpc sh' pc' hts
  | w1cmp a => exact inv_w1cmp n sh pcs t e a hlt h hpc sh' pc' hts
  | w2wait a => exact inv_w2wait n sh pcs t e a hlt h hpc sh' pc' hts
  | wsleep a ep => exact inv_wsleep n sh pcs t e a ep hlt h hpc sh' pc' hts
  | wwake a => exact inv_wwake n sh pcs t e a hlt h hpc sh' pc' hts
  | w3unlock a => exact inv_w3unlock n sh pcs t e a hlt h hpc sh' pc' hts
  | gdone a => exact inv_gdone n sh pcs t e a hlt h hpc sh' pc' hts

theorem inv_run (s : St) (sched : List (Nat × Env)) (h : Inv s) : Inv (run s sched) := by
  induction sched generalizing s with
  | nil => simpa [run]
  | cons te r ih =>
    obtain ⟨t, e⟩ := te
    simp only [run]
    split
    · next s' hs => exact ih _ (inv_step _ _ _ _ h hs)
    · exact ih _ h

theorem run_n (s : St) (l : List (Nat × Env)) : (run s l).n = s.n := by
  induction l generalizing s with
  | nil => rfl
  | cons te r ih =>
    obtain ⟨t, e⟩ := te
    simp only [run]
    split
    · next s' hs =>
      rw [ih]
      simp only [step] at hs
      split at hs
      · split at hs
        · contradiction
        · simp only [Option.some.injEq] at hs; subst hs; rfl
      · contradiction
    · exact ih _

end MayVerif.WaitGroupImpl
