import MayVerif.Proof.Sync.WaitGroupImpl.Inv
namespace MayVerif.WaitGroupImpl

set_option maxHeartbeats 2000000 in
theorem inv_wwake (n : Nat) (sh : Sh) (pcs : Nat → Pc) (t : Nat) (e : Env) (a : Nat) (hlt : t < n)
    (h : Inv ⟨n, sh, pcs⟩) (hpc : pcs t = (.wwake a)) (sh' : Sh) (pc' : Pc)
    (hts : tstep sh t (.wwake a) e = some (sh', pc')) : Inv ⟨n, sh', upd pcs t pc'⟩ := by
  (wintro
   wstep0)

end MayVerif.WaitGroupImpl
