import MayVerif.Proof.Sync.WaitGroupImpl.Inv
namespace MayVerif.WaitGroupImpl

set_option maxHeartbeats 2000000 in
theorem inv_g2unlock (n : Nat) (sh : Sh) (pcs : Nat → Pc) (t : Nat) (e : Env) (a : Nat) (one : Bool) (hlt : t < n)
    (h : Inv ⟨n, sh, pcs⟩) (hpc : pcs t = (.g2unlock a one)) (sh' : Sh) (pc' : Pc)
    (hts : tstep sh t (.g2unlock a one) e = some (sh', pc')) : Inv ⟨n, sh', upd pcs t pc'⟩ := by
  cases one <;>
  (wintro
   wstep0)

end MayVerif.WaitGroupImpl
