import MayVerif.Proof.Sync.WaitGroup.Inv
namespace MayVerif.WaitGroup

set_option maxHeartbeats 2000000 in
theorem inv_tstep (n : Nat) (sh : Sh) (pcs : Nat → Pc) (t : Nat) (e : Env) (hlt : t < n) (h : Inv ⟨n, sh, pcs⟩) (sh' : Sh) (pc' : Pc)
    (hts : tstep sh t (pcs t) e = some (sh', pc')) : Inv ⟨n, sh', upd pcs t pc'⟩ := by
  obtain ⟨s1, w1, d1, k1⟩ := h
  simp only at s1 w1 d1 k1
  have hU := sumW_upd n pcs t pc' hlt
  have hG := sumW_ge1 n pcs t hlt
  have hG2 := fun u (hu : u < n) (hne : t ≠ u) => sumW_ge2 n pcs t u hlt hu hne
  have hw1 := w1 t; have hd1 := d1 t; have hk1 := k1 t
  generalize hpc : pcs t = pc at hts hU hG hG2 hw1 hd1 hk1
  cases pc <;> cases e <;> simp only [tstep, dropSh] at hts <;> (try contradiction) <;> (repeat' split at hts) <;> (try contradiction) <;>
    (try simp only [Option.some.injEq, Prod.mk.injEq] at hts) <;> obtain ⟨rfl, rfl⟩ := hts <;>
    simp only [wt] at hU hG hG2 <;>
    constructor <;> simp only [] <;> grind

theorem inv_step (s s' : St) (t : Nat) (e : Env) (h : Inv s) (hs : step s t e = some s') : Inv s' := by
  obtain ⟨n, sh, pcs⟩ := s
  simp only [step] at hs
  split at hs
  case isFalse => contradiction
  next hlt =>
  split at hs
  · contradiction
  next sh' pc' hts =>
  simp only [Option.some.injEq] at hs
  subst hs
  exact inv_tstep n sh pcs t e hlt h sh' pc' hts

theorem inv_run (s : St) (sched : List (Nat × Env)) (h : Inv s) : Inv (run s sched) := by
  induction sched generalizing s with
  | nil => simpa [run]
  | cons te r ih =>
    obtain ⟨t, e⟩ := te
    simp only [run]
    split
    · next s' hs => exact ih _ (inv_step _ _ _ _ h hs)
    · exact ih _ h

theorem run_n (s : St) (l : List (Nat × Env)) : (run s l).n = s.n := by
  induction l generalizing s with
  | nil => rfl
  | cons te r ih =>
    obtain ⟨t, e⟩ := te
    simp only [run]
    split
    · next s' hs =>
      rw [ih]
      simp only [step] at hs
      split at hs
      · split at hs
        · contradiction
        · simp only [Option.some.injEq] at hs; subst hs; rfl
      · contradiction
    · exact ih _

end MayVerif.WaitGroup
