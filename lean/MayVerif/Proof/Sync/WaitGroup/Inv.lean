/-
  Invariant of the spec-level WaitGroup model: `count` is exactly the number of live handles.
-/
import MayVerif.Model.Sync.WaitGroup
namespace MayVerif.WaitGroup

/-- handles of this actor that are still counted in `count` (a handle consumed by `wait` counts until its drop) -/
@[grind] def wt : Pc → Nat
  | .idle h => h
  | .g0check h | .g9drop h | .g1drop h => h + 1
  | .g2lock h | .gwait h _ | .gwoken h | .gdone h => h

def sumW (n : Nat) (f : Nat → Pc) : Nat := ((List.range n).map (fun u => wt (f u))).sum

theorem sumW_upd (n : Nat) (f : Nat → Pc) (t : Nat) (v : Pc) (ht : t < n) :
    sumW n (upd f t v) + wt (f t) = sumW n f + wt v := by
  unfold sumW
  induction n with
  | zero => omega
  | succ k ih =>
    simp only [List.range_succ, List.map_append, List.sum_append, List.map_cons, List.map_nil, List.sum_cons, List.sum_nil]
    by_cases hk : t = k
    · subst hk
      have : (List.map (fun u => wt (upd f t v u)) (List.range t)) = (List.map (fun u => wt (f u)) (List.range t)) := by
        apply List.map_congr_left
        intro x hx
        have : x < t := List.mem_range.mp hx
        have : x ≠ t := by omega
        simp [upd, this]
      rw [this]; simp [upd]; omega
    · have := ih (by omega)
      have h2 : upd f t v k = f k := by simp [upd]; intro h; omega
      rw [h2]; omega

theorem sumW_ge1 (n : Nat) (f : Nat → Pc) (t : Nat) (ht : t < n) : wt (f t) ≤ sumW n f := by
  have h1 := sumW_upd n f t (.idle 0) ht
  have h0 : wt (Pc.idle 0) = 0 := rfl
  omega

theorem sumW_ge2 (n : Nat) (f : Nat → Pc) (t u : Nat) (ht : t < n) (hu : u < n) (hne : t ≠ u) : wt (f t) + wt (f u) ≤ sumW n f := by
  have h1 := sumW_upd n f t (.idle 0) ht
  have h2 := sumW_ge1 n (upd f t (.idle 0)) u hu
  have h3 : upd f t (.idle 0) u = f u := by simp [upd]; intro h; omega
  rw [h3] at h2
  have h0 : wt (Pc.idle 0) = 0 := rfl
  omega

theorem sumW_zero (n : Nat) (f : Nat → Pc) (h : sumW n f = 0) (t : Nat) (ht : t < n) : wt (f t) = 0 := by
  have := sumW_ge1 n f t ht; omega

structure Inv (s : St) : Prop where
  s1 : s.sh.count = sumW s.n s.pcs + s.sh.pool
  w1 : ∀ (t h e : Nat), s.pcs t = .gwait h e → e ≤ s.sh.nall ∧ (s.sh.count = 0 → e < s.sh.nall)
  d1 : ∀ (t h : Nat), s.pcs t = .gdone h → s.sh.count = 0
  k1 : ∀ (t h : Nat), t < s.n → s.pcs t = .g9drop h → s.sh.count = 1

theorem sumW_init (n : Nat) (hn : 0 < n) : sumW n (fun t => if t = 0 then Pc.idle 1 else Pc.idle 0) = 1 := by
  unfold sumW
  induction n with
  | zero => omega
  | succ k ih =>
    simp only [List.range_succ, List.map_append, List.sum_append, List.map_cons, List.map_nil, List.sum_cons, List.sum_nil]
    by_cases hk : k = 0
    · subst hk; simp [wt]
    · have := ih (by omega)
      simp [hk, wt] at this ⊢
      exact this

theorem inv_init (n : Nat) (hn : 0 < n) : Inv (init n) := by
  constructor
  · simp only [init]; rw [sumW_init n hn]
  · intro t h e; simp [init]; split <;> simp
  · intro t h; simp [init]; split <;> simp
  · intro t h _; simp [init]

end MayVerif.WaitGroup
