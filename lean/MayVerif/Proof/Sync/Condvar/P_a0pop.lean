import MayVerif.Proof.Sync.Condvar.Inv
namespace MayVerif.Condvar
open MayVerif.Mutex (APh VPh upd okB ok_pop ok_wake1 ok_wake2 ok_wake3 ok_abort ok_w6 ok_w7 ok_w8 ok_w9
  ok_duty ok_rel ok_unp ok_pre ok_a4 ok_final)

set_option maxHeartbeats 2000000 in
theorem inv_a0pop (n : Nat) (sh : Sh) (pcs : Tid → Pc) (t : Tid) (e : Env) (k : K) (_hlt : t < n)
    (h : Inv ⟨n, sh, pcs⟩) (hpc : pcs t = (.a0pop k)) (sh' : Sh) (pc' : Pc)
    (hts : tstep sh t (.a0pop k) e = some (sh', pc')) : Inv ⟨n, sh', upd pcs t pc'⟩ := by
  cintro
  simp only [tstep] at hts
  split at hts
  · simp only [Option.some.injEq, Prod.mk.injEq] at hts
    obtain ⟨rfl, rfl⟩ := hts
    cfin
  next w q' heq =>
    simp only [Option.some.injEq, Prod.mk.injEq] at hts
    obtain ⟨rfl, rfl⟩ := hts
    have hokw := hok w; have hinQw := hinQ w; have hfqw := hfq w; have hvirw := hvir w; have hvAw := hvA w
    have hl := ok_pop _ _ _ _ (by rw [hinQw (by simp [heq])] at hokw; exact hokw)
    have hwv := fun u => wakes_vphOf (pcs u) w
    have hvLw := fun u => hvL u w
    have hinw : w ∈ sh.q := by simp [heq]
    have hv0 := hinQw hinw
    cfin

end MayVerif.Condvar
