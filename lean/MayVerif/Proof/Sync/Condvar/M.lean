/-
  Two small invariants of the Condvar model that do not depend on the hand-over table:
  `InvM` (whoever is inside the locked region owns the spec mutex) and `InvS` (everything that was enqueued when a
  `notify_all` started is still enqueued or has been popped).
-/
import MayVerif.Proof.Sync.Condvar.Inv
namespace MayVerif.Condvar
open MayVerif.Mutex (APh VPh upd)

def InvM (s : St) : Prop := ∀ (t : Tid), holdsM (s.pcs t) = true → s.sh.locked = true ∧ s.sh.owner = t

def InvS (s : St) : Prop := ∀ (t : Tid) (b : Bid), inAll (s.pcs t) = true → b ∈ s.sh.snapH t → b ∈ s.sh.q ∨ s.sh.vph b ≠ .v0

theorem invM_init (n : Nat) : InvM (init n) := by intro t; simp [init, holdsM]
theorem invS_init (n : Nat) : InvS (init n) := by intro t b; simp [init, inAll]

set_option maxHeartbeats 1000000 in
theorem invM_tstep (sh : Sh) (pcs : Tid → Pc) (t : Tid) (e : Env)
    (h : ∀ (u : Tid), holdsM (pcs u) = true → sh.locked = true ∧ sh.owner = u) (sh' : Sh) (pc' : Pc)
    (hts : tstep sh t (pcs t) e = some (sh', pc')) :
    ∀ (u : Tid), holdsM (upd pcs t pc' u) = true → sh'.locked = true ∧ sh'.owner = u := by
  have ht := h t
  generalize hpc : pcs t = pc at hts ht
  cases pc <;> cases e <;> simp only [tstep] at hts <;> (try contradiction) <;> (repeat' split at hts) <;> (try contradiction) <;>
    (try simp only [Option.some.injEq, Prod.mk.injEq] at hts) <;> obtain ⟨rfl, rfl⟩ := hts <;> intro u hu <;> grind

set_option maxHeartbeats 1000000 in
theorem invS_tstep (sh : Sh) (pcs : Tid → Pc) (t : Tid) (e : Env)
    (h : ∀ (u : Tid) (b : Bid), inAll (pcs u) = true → b ∈ sh.snapH u → b ∈ sh.q ∨ sh.vph b ≠ .v0) (sh' : Sh) (pc' : Pc)
    (hts : tstep sh t (pcs t) e = some (sh', pc')) :
    ∀ (u : Tid) (b : Bid), inAll (upd pcs t pc' u) = true → b ∈ sh'.snapH u → b ∈ sh'.q ∨ sh'.vph b ≠ .v0 := by
  have ht := h t
  generalize hpc : pcs t = pc at hts ht
  cases pc <;> cases e <;> simp only [tstep] at hts <;> (try contradiction) <;> (repeat' split at hts) <;> (try contradiction) <;>
    (try simp only [Option.some.injEq, Prod.mk.injEq] at hts) <;> obtain ⟨rfl, rfl⟩ := hts <;> intro u b hu hb <;>
    (have hub := h u b) <;> grind

end MayVerif.Condvar
