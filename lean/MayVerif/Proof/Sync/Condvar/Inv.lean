/-
  Invariant of the Condvar model. The per-blocker hand-over table `okB` and its local-step lemmas are those of
  the Mutex development (`Proof/Sync/Mutex/Inv.lean`): `notify_one` plays the role of `post`.
-/
import MayVerif.Model.Sync.Condvar
import MayVerif.Proof.Sync.Mutex.Inv
namespace MayVerif.Condvar
open MayVerif.Mutex (APh VPh upd okB ok_pop ok_wake1 ok_wake2 ok_wake3 ok_abort ok_w6 ok_w7 ok_w8 ok_w9
  ok_duty ok_rel ok_unp ok_pre ok_a4 ok_final)

/-- blocker owned (as waiter) by an actor at this pc -/
@[grind] def owns : Pc → Option Bid
  | .w1push b _ | .w2unlock b _ | .w3park b _ | .w4lockE b _ | .w5load b _ | .w6set b _ | .w7load b _ | .w8swap b _ => some b
  | _ => none
/-- blocker this actor is waking -/
@[grind] def wakes : Pc → Option Bid
  | .n1unpark w _ | .n2store w _ | .n3swap w _ | .a1unpark w _ | .a2store w _ => some w
  | _ => none
/-- the abort phase an owner pc implies -/
@[grind] def aphOf : Pc → Option APh
  | .w1push .. | .w2unlock .. | .w3park .. => some .a0
  | .w4lockE .. | .w5load .. => some .a1
  | .w6set .. => some .a2 | .w7load .. => some .a3 | .w8swap .. => some .a4
  | _ => none
@[grind] def vphOf : Pc → Option VPh
  | .n1unpark .. | .a1unpark .. => some .v1 | .n2store .. | .a2store .. => some .v2 | .n3swap .. => some .v3
  | _ => none
@[grind] def notPushed : Pc → Bool | .w1push .. => true | _ => false
/-- waking on behalf of a `notify_all` -/
@[grind] def allPc : Pc → Bool | .a1unpark .. | .a2store .. => true | _ => false
/-- inside a `notify_all` -/
@[grind] def inAll : Pc → Bool | .a0pop _ | .a1unpark .. | .a2store .. => true | _ => false

structure Inv (s : St) : Prop where
  nodup : s.sh.q.Nodup
  fresh : ∀ (t : Tid) (b : Bid), owns (s.pcs t) = some b → b < s.sh.nextB
  freshW : ∀ (t : Tid) (b : Bid), wakes (s.pcs t) = some b → b < s.sh.nextB
  freshQ : ∀ (b : Bid), b ∈ s.sh.q → b < s.sh.nextB
  virgin : ∀ (b : Bid), s.sh.nextB ≤ b → s.sh.aph b = .a0 ∧ s.sh.vph b = .v0 ∧ s.sh.unparked b = false ∧ s.sh.release b = false ∧ s.sh.duty b = false ∧ s.sh.got b = false
  own1 : ∀ (t u : Tid) (b : Bid), owns (s.pcs t) = some b → owns (s.pcs u) = some b → t = u
  wake1 : ∀ (t u : Tid) (b : Bid), wakes (s.pcs t) = some b → wakes (s.pcs u) = some b → t = u
  aphL : ∀ (t : Tid) (b : Bid) (a : APh), owns (s.pcs t) = some b → aphOf (s.pcs t) = some a → s.sh.aph b = a
  vphL : ∀ (t : Tid) (b : Bid) (v : VPh), wakes (s.pcs t) = some b → vphOf (s.pcs t) = some v → s.sh.vph b = v
  inQ : ∀ (b : Bid), b ∈ s.sh.q → s.sh.vph b = .v0
  notQ : ∀ (t : Tid) (b : Bid), owns (s.pcs t) = some b → notPushed (s.pcs t) = true → b ∉ s.sh.q ∧ s.sh.vph b = .v0
  ok : ∀ (b : Bid), okB (s.sh.aph b) (s.sh.vph b) (s.sh.unparked b) (s.sh.release b) (s.sh.duty b) = true
  nodupDuty : s.sh.dup = false
  /-- an owner past its push has its blocker in the queue, or it was popped -/
  n1 : ∀ (t : Tid) (b : Bid), owns (s.pcs t) = some b → notPushed (s.pcs t) = false → b ∈ s.sh.q ∨ s.sh.vph b ≠ .v0
  /-- a popped blocker whose wake-up is not complete is being woken by `wk b` -/
  n2 : ∀ (b : Bid), (s.sh.vph b = .v1 ∨ s.sh.vph b = .v2 ∨ (s.sh.vph b = .v3 ∧ s.sh.vall b = false)) → wakes (s.pcs (s.sh.wk b)) = some b ∧ s.sh.wk b < s.n
  /-- the token of a woken blocker is pending, or was consumed by its owner, or the owner aborted -/
  nT : ∀ (b : Bid), (s.sh.vph b = .v2 ∨ s.sh.vph b = .v3 ∨ s.sh.vph b = .v4) → s.sh.tok b = true ∨ s.sh.got b = true ∨ s.sh.aph b ≠ .a0
  vA : ∀ (b : Bid), s.sh.vall b = true → s.sh.vph b ≠ .v0 ∧ s.sh.vph b ≠ .v4
  vW : ∀ (t : Tid) (b : Bid), wakes (s.pcs t) = some b → s.sh.vall b = allPc (s.pcs t)
  /-- an owner still inside its wait protocol has not consumed its token -/
  nG : ∀ (t : Tid) (b : Bid), owns (s.pcs t) = some b → s.sh.got b = false

theorem inv_init (n : Nat) : Inv (init n) := by
  constructor <;> simp [init, owns, wakes]
  exact MayVerif.Mutex.table_init

theorem wakes_vphOf (pc : Pc) (b : Bid) (h : wakes pc = some b) : vphOf pc = some .v1 ∨ vphOf pc = some .v2 ∨ vphOf pc = some .v3 := by
  cases pc <;> simp_all [wakes, vphOf]

/-! the continuation of a `notify_*` is never an owner / waker pc -/
@[grind =] theorem owns_contK (k : K) : owns (contK k) = none := by cases k <;> (try (rename_i c; cases c)) <;> rfl
@[grind =] theorem wakes_contK (k : K) : wakes (contK k) = none := by cases k <;> (try (rename_i c; cases c)) <;> rfl
@[grind =] theorem aphOf_contK (k : K) : aphOf (contK k) = none := by cases k <;> (try (rename_i c; cases c)) <;> rfl
@[grind =] theorem vphOf_contK (k : K) : vphOf (contK k) = none := by cases k <;> (try (rename_i c; cases c)) <;> rfl
@[grind =] theorem notPushed_contK (k : K) : notPushed (contK k) = false := by cases k <;> (try (rename_i c; cases c)) <;> rfl
@[grind =] theorem allPc_contK (k : K) : allPc (contK k) = false := by cases k <;> (try (rename_i c; cases c)) <;> rfl
@[grind =] theorem inAll_contK (k : K) : inAll (contK k) = false := by cases k <;> (try (rename_i c; cases c)) <;> rfl
@[grind =] theorem holdsM_contK (k : K) : holdsM (contK k) = kHolds k := by cases k <;> (try (rename_i c; cases c)) <;> rfl

set_option hygiene false in
macro "cprep" w:term : tactic => `(tactic|
  (have hokw := hok $w; have hvirw := hvir $w; have hinQw := hinQ $w; have hfqw := hfq $w
   have hvLt := hvL t $w; have haLt := haL t $w; have hfrt := hfr t $w; have hfwt := hfw t $w; have hnq := hnotQ t $w; have hn1t := hn1 t $w; have hn2w := hn2 $w; have hnTw := hnT $w; have hvAw := hvA $w; have hvWt := hvW t $w; have hnGt := hnG t $w
   have hodw := ok_duty _ _ _ _ _ (hok $w); have horw := ok_rel _ _ _ _ _ (hok $w); have houw := ok_unp _ _ _ _ _ (hok $w); have hopw := ok_pre _ _ _ _ _ (hok $w); have hoa4 := ok_a4 _ _ _ _ _ (hok $w)
   (try simp [hpc, owns, wakes, aphOf, vphOf, notPushed, allPc] at hvLt); (try simp [hpc, owns, wakes, aphOf, vphOf, notPushed, allPc] at haLt)
   (try simp [hpc, owns, wakes, aphOf, vphOf, notPushed, allPc] at hfrt); (try simp [hpc, owns, wakes, aphOf, vphOf, notPushed, allPc] at hfwt)
   (try simp [hpc, owns, wakes, aphOf, vphOf, notPushed, allPc] at hnq); (try simp [hpc, owns, wakes, aphOf, vphOf, notPushed, allPc] at hn1t); (try simp [hpc, owns, wakes, aphOf, vphOf, notPushed, allPc] at hvWt); (try simp [hpc, owns, wakes, aphOf, vphOf, notPushed, allPc] at hnGt)))
set_option hygiene false in
macro "cfin" : tactic => `(tactic| (constructor <;> simp only [] <;> first | grind [List.nodup_append, List.nodup_cons] | grind (splits := 40) [List.nodup_append, List.nodup_cons]))
-- destructure one step whose `tstep` case depends on the environment choice
set_option hygiene false in
macro "cdestruct" : tactic => `(tactic|
  (cases e <;> simp only [tstep] at hts <;> (try contradiction) <;> (repeat' split at hts) <;> (try contradiction) <;>
   (try simp only [Option.some.injEq, Prod.mk.injEq] at hts) <;> obtain ⟨rfl, rfl⟩ := hts))
-- destructure one step whose `tstep` case ignores the environment choice
set_option hygiene false in
macro "cdestruct0" : tactic => `(tactic|
  (simp only [tstep] at hts <;> (repeat' split at hts) <;> (try contradiction) <;>
   (try simp only [Option.some.injEq, Prod.mk.injEq] at hts) <;> obtain ⟨rfl, rfl⟩ := hts))
set_option hygiene false in
macro "cintro" : tactic => `(tactic|
  (obtain ⟨hnd, hfr, hfw, hfq, hvir, ho1, hw1, haL, hvL, hinQ, hnotQ, hok, hdup, hn1, hn2, hnT, hvA, hvW, hnG⟩ := h
   simp only at hnd hfr hfw hfq hvir ho1 hw1 haL hvL hinQ hnotQ hok hdup hn1 hn2 hnT hvA hvW hnG))

end MayVerif.Condvar
