import MayVerif.Proof.Sync.Condvar.Inv
namespace MayVerif.Condvar
open MayVerif.Mutex (APh VPh upd okB ok_pop ok_wake1 ok_wake2 ok_wake3 ok_abort ok_w6 ok_w7 ok_w8 ok_w9
  ok_duty ok_rel ok_unp ok_pre ok_a4 ok_final)

set_option maxHeartbeats 2000000 in
theorem inv_wend (n : Nat) (sh : Sh) (pcs : Tid → Pc) (t : Tid) (e : Env) (d : Bool) (_hlt : t < n)
    (h : Inv ⟨n, sh, pcs⟩) (hpc : pcs t = (.wend d)) (sh' : Sh) (pc' : Pc)
    (hts : tstep sh t (.wend d) e = some (sh', pc')) : Inv ⟨n, sh', upd pcs t pc'⟩ := by
  cintro
  cdestruct <;> cfin

end MayVerif.Condvar
