import MayVerif.Proof.Sync.Condvar.P_idle
import MayVerif.Proof.Sync.Condvar.P_held
import MayVerif.Proof.Sync.Condvar.P_w1push
import MayVerif.Proof.Sync.Condvar.P_w2unlock
import MayVerif.Proof.Sync.Condvar.P_w3park
import MayVerif.Proof.Sync.Condvar.P_w4lockOk
import MayVerif.Proof.Sync.Condvar.P_w4lockE
import MayVerif.Proof.Sync.Condvar.P_w5load
import MayVerif.Proof.Sync.Condvar.P_w6set
import MayVerif.Proof.Sync.Condvar.P_w7load
import MayVerif.Proof.Sync.Condvar.P_w8swap
import MayVerif.Proof.Sync.Condvar.P_w9unlock
import MayVerif.Proof.Sync.Condvar.P_wend
import MayVerif.Proof.Sync.Condvar.P_wdone
import MayVerif.Proof.Sync.Condvar.P_n0pop
import MayVerif.Proof.Sync.Condvar.P_n1unpark
import MayVerif.Proof.Sync.Condvar.P_n2store
import MayVerif.Proof.Sync.Condvar.P_n3swap
import MayVerif.Proof.Sync.Condvar.P_a0pop
import MayVerif.Proof.Sync.Condvar.P_a1unpark
import MayVerif.Proof.Sync.Condvar.P_a2store
import MayVerif.Proof.Sync.Condvar.M
namespace MayVerif.Condvar
open MayVerif.Mutex (APh VPh upd)

theorem inv_step (s s' : St) (t : Tid) (e : Env) (h : Inv s) (hs : step s t e = some s') : Inv s' := by
  obtain ⟨n, sh, pcs⟩ := s
  simp only [step] at hs
  split at hs
  case isFalse => contradiction
  next hlt =>
  split at hs
  · contradiction
  next sh' pc' hts =>
  simp only [Option.some.injEq] at hs
  subst hs
  generalize hpc : pcs t = pc at hts
  cases pc with
  | idle => exact inv_idle n sh pcs t e hlt h hpc sh' pc' hts
  | held => exact inv_held n sh pcs t e hlt h hpc sh' pc' hts
  | w1push b d => exact inv_w1push n sh pcs t e b d hlt h hpc sh' pc' hts
  | w2unlock b d => exact inv_w2unlock n sh pcs t e b d hlt h hpc sh' pc' hts
  | w3park b d => exact inv_w3park n sh pcs t e b d hlt h hpc sh' pc' hts
  | w4lockOk => exact inv_w4lockOk n sh pcs t e hlt h hpc sh' pc' hts
  | w4lockE b c => exact inv_w4lockE n sh pcs t e b c hlt h hpc sh' pc' hts
  | w5load b c => exact inv_w5load n sh pcs t e b c hlt h hpc sh' pc' hts
  | w6set b c => exact inv_w6set n sh pcs t e b c hlt h hpc sh' pc' hts
  | w7load b c => exact inv_w7load n sh pcs t e b c hlt h hpc sh' pc' hts
  | w8swap b c => exact inv_w8swap n sh pcs t e b c hlt h hpc sh' pc' hts
  | w9unlock => exact inv_w9unlock n sh pcs t e hlt h hpc sh' pc' hts
  | wend d => exact inv_wend n sh pcs t e d hlt h hpc sh' pc' hts
  | wdone r => exact inv_wdone n sh pcs t e r hlt h hpc sh' pc' hts
  | n0pop k => exact inv_n0pop n sh pcs t e k hlt h hpc sh' pc' hts
  | n1unpark w k => exact inv_n1unpark n sh pcs t e w k hlt h hpc sh' pc' hts
  | n2store w k => exact inv_n2store n sh pcs t e w k hlt h hpc sh' pc' hts
  | n3swap w k => exact inv_n3swap n sh pcs t e w k hlt h hpc sh' pc' hts
  | a0pop k => exact inv_a0pop n sh pcs t e k hlt h hpc sh' pc' hts
  | a1unpark w k => exact inv_a1unpark n sh pcs t e w k hlt h hpc sh' pc' hts
  | a2store w k => exact inv_a2store n sh pcs t e w k hlt h hpc sh' pc' hts

theorem invM_step (s s' : St) (t : Tid) (e : Env) (h : InvM s) (hs : step s t e = some s') : InvM s' := by
  obtain ⟨n, sh, pcs⟩ := s
  simp only [step] at hs
  split at hs
  case isFalse => contradiction
  next hlt =>
  split at hs
  · contradiction
  next sh' pc' hts =>
  simp only [Option.some.injEq] at hs
  subst hs
  exact invM_tstep sh pcs t e h sh' pc' hts

theorem invS_step (s s' : St) (t : Tid) (e : Env) (h : InvS s) (hs : step s t e = some s') : InvS s' := by
  obtain ⟨n, sh, pcs⟩ := s
  simp only [step] at hs
  split at hs
  case isFalse => contradiction
  next hlt =>
  split at hs
  · contradiction
  next sh' pc' hts =>
  simp only [Option.some.injEq] at hs
  subst hs
  exact invS_tstep sh pcs t e h sh' pc' hts

/-- an invariant preserved by every step holds after every schedule -/
theorem run_induct (P : St → Prop) (hstep : ∀ s s' t e, P s → step s t e = some s' → P s')
    (s : St) (sched : List (Tid × Env)) (h : P s) : P (run s sched) := by
  induction sched generalizing s with
  | nil => simpa [run]
  | cons te r ih =>
    obtain ⟨t, e⟩ := te
    simp only [run]
    split
    · next s' hs => exact ih _ (hstep _ _ _ _ h hs)
    · exact ih _ h

theorem inv_run (n : Nat) (sched : List (Tid × Env)) : Inv (run (init n) sched) :=
  run_induct Inv inv_step _ sched (inv_init n)
theorem invM_run (n : Nat) (sched : List (Tid × Env)) : InvM (run (init n) sched) :=
  run_induct InvM invM_step _ sched (invM_init n)
theorem invS_run (n : Nat) (sched : List (Tid × Env)) : InvS (run (init n) sched) :=
  run_induct InvS invS_step _ sched (invS_init n)

theorem step_n (s s' : St) (t : Tid) (e : Env) (hs : step s t e = some s') : s'.n = s.n := by
  simp only [step] at hs
  split at hs
  · split at hs
    · contradiction
    · simp only [Option.some.injEq] at hs; subst hs; rfl
  · contradiction

theorem run_n (s : St) (l : List (Tid × Env)) : (run s l).n = s.n :=
  run_induct (fun x => x.n = s.n) (fun a b t e h hs => by rw [step_n a b t e hs]; exact h) s l rfl

theorem wakes_not_quiet (pc : Pc) (b : Bid) (h : wakes pc = some b) :
    pc ≠ .idle ∧ pc ≠ .held ∧ (∀ b' d, pc ≠ .w3park b' d) ∧ (∀ k, pc ≠ .a0pop k) ∧ (∀ k, pc ≠ .n0pop k) := by
  cases pc <;> simp_all [wakes]

end MayVerif.Condvar
