import MayVerif.Proof.Sync.RwLock.Inv
set_option linter.unusedSimpArgs false
namespace MayVerif.RwLock
open MayVerif.Mutex (upd)

theorem inv_rlk (n : Nat) (sh : Sh) (pcs : Nat → Pc) (t : Nat) (e : Env) (o : Op) (p : Mutex.Pc) (hlt : t < n)
    (h : Inv ⟨n, sh, pcs⟩) (hpc : pcs t = .rlk o p) (sh' : Sh) (pc' : Pc)
    (hts : tstepG false sh t (.rlk o p) e = some (sh', pc')) : Inv ⟨n, sh', upd pcs t pc'⟩ := by
  obtain ⟨hgI, hrI, hrc, hgrp, hwg⟩ := h
  simp only at hrc hgrp hwg
  have hC := fun v => cntP_upd n cntR pcs t v hlt
  rw [hpc] at hC
  simp only [cntR] at hC
  have hgp : gpc (pcs t) = .idle := by rw [hpc]; rfl
  have hrp : rpc (pcs t) = p := by rw [hpc]; rfl
  simp only [tstepG, Bool.not_false, Bool.true_and] at hts
  generalize hme : (if (o == Op.dropR) = true then menvD e else menvR e) = me' at hts
  split at hts
  · contradiction
  next rl' p' hm =>
  split at hts
  next hheld =>
    simp only [Option.some.injEq, Prod.mk.injEq] at hts; obtain ⟨rfl, rfl⟩ := hts
    refine ⟨gate_same n sh _ pcs t _ hlt hgI rfl rfl rfl (by rw [hgp]; rfl),
      rl_step n sh _ pcs t _ me' hlt hrI (by rw [hrp, hm, hheld]; rfl), ?_, hgrp, hwg⟩
    have := hC (.rlp o); simp only [cntR] at this
    cases o <;> simp at this ⊢ <;> omega
  next hnh =>
  split at hts
  next hidle =>
    split at hts
    · contradiction
    next hnd =>
    simp only [Option.some.injEq, Prod.mk.injEq] at hts; obtain ⟨rfl, rfl⟩ := hts
    refine ⟨gate_same n sh _ pcs t _ hlt hgI rfl rfl rfl (by rw [hgp]; rfl),
      rl_step n sh _ pcs t _ me' hlt hrI (by rw [hrp, hm, hidle]; rfl), ?_, hgrp, hwg⟩
    have := hC .idle; simp only [cntR] at this
    cases o <;> simp at this hnd ⊢ <;> omega
  next hni =>
    simp only [Option.some.injEq, Prod.mk.injEq] at hts; obtain ⟨rfl, rfl⟩ := hts
    refine ⟨gate_same n sh _ pcs t _ hlt hgI rfl rfl rfl (by rw [hgp]; rfl),
      rl_step n sh _ pcs t _ me' hlt hrI (by rw [hrp, hm]; rfl), ?_, hgrp, hwg⟩
    have := hC (.rlk o p'); simp only [cntR] at this
    cases o <;> simp at this ⊢ <;> omega

end MayVerif.RwLock
