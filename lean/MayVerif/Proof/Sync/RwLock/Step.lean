import MayVerif.Proof.Sync.RwLock.P_idle
import MayVerif.Proof.Sync.RwLock.P_rlk
import MayVerif.Proof.Sync.RwLock.P_rlp
import MayVerif.Proof.Sync.RwLock.P_rcnt
import MayVerif.Proof.Sync.RwLock.LK
import MayVerif.Proof.Sync.RwLock.P_gld
import MayVerif.Proof.Sync.RwLock.P_glk
import MayVerif.Proof.Sync.RwLock.P_psn
import MayVerif.Proof.Sync.RwLock.P_gul
import MayVerif.Proof.Sync.RwLock.P_rul
namespace MayVerif.RwLock
open MayVerif.Mutex (upd)

theorem inv_step (s s' : St) (t : Nat) (e : Env) (h : Inv s) (hk : LK s) (hs : step s t e = some s') : Inv s' := by
  obtain ⟨n, sh, pcs⟩ := s
  simp only [step, stepG] at hs
  split at hs
  case isFalse => contradiction
  next hlt =>
  split at hs
  · contradiction
  next sh' pc' hts =>
  simp only [Option.some.injEq] at hs
  subst hs
  have hkt := hk t hlt
  simp only at hkt
  generalize hpc : pcs t = pc at hts hkt
  cases pc with
  | idle => exact inv_idle n sh pcs t e hlt h hpc sh' pc' hts
  | rlk o p => exact inv_rlk n sh pcs t e o p hlt h hpc sh' pc' hts
  | rlp o => exact inv_rlp n sh pcs t e o hlt h hpc sh' pc' hts
  | rld o => exact inv_rld n sh pcs t e o hlt h hpc sh' pc' hts
  | rinc o first => exact inv_rinc n sh pcs t e o first hlt h hpc (by intro hf; subst hf; simpa [loc] using hkt) sh' pc' hts
  | rdec => exact inv_rdec n sh pcs t e hlt h hpc sh' pc' hts
  | rck last => exact inv_rck n sh pcs t e last hlt h hpc sh' pc' hts
  | gld o => exact inv_gld n sh pcs t e o hlt h hpc sh' pc' hts
  | glk o p => exact inv_glk n sh pcs t e o p hlt h hpc sh' pc' hts
  | glp o => simp [tstepG] at hts
  | psn o => exact inv_psn n sh pcs t e o hlt h hpc sh' pc' hts
  | gul o p => exact inv_gul n sh pcs t e o p hlt h hpc sh' pc' hts
  | rul o v p => exact inv_rul n sh pcs t e o v p hlt h hpc sh' pc' hts
  | wpo => exact inv_wpo n sh pcs t e hlt h hpc sh' pc' hts
  | isp => exact inv_isp n sh pcs t e hlt h hpc sh' pc' hts

theorem inv_run (s : St) (sched : List (Nat × Env)) (h : Inv s) (hk : LK s) : Inv (run s sched) ∧ LK (run s sched) := by
  induction sched generalizing s with
  | nil => simpa [run, runG] using ⟨h, hk⟩
  | cons te r ih =>
    obtain ⟨t, e⟩ := te
    simp only [run, runG]
    split
    · next s' hs => exact ih _ (inv_step _ _ _ _ h hk hs) (lk_step _ _ _ _ h hk hs)
    · exact ih _ h hk

theorem run_n (s : St) (l : List (Nat × Env)) : (run s l).n = s.n := by
  induction l generalizing s with
  | nil => rfl
  | cons te r ih =>
    obtain ⟨t, e⟩ := te
    simp only [run, runG]
    split
    · next s' hs =>
      have := ih s'
      simp only [run] at this
      rw [this]
      simp only [stepG] at hs
      split at hs
      · split at hs
        · contradiction
        · simp only [Option.some.injEq] at hs; subst hs; rfl
      · contradiction
    · exact ih _

/-- all reachable states of the fixed model satisfy the invariant -/
theorem inv_reach (n : Nat) (p : Bool) (sched : List (Nat × Env)) : Inv (run (init n p) sched) :=
  (inv_run _ sched (inv_init n p) (lk_init n p)).1

theorem lk_reach (n : Nat) (p : Bool) (sched : List (Nat × Env)) : LK (run (init n p) sched) :=
  (inv_run _ sched (inv_init n p) (lk_init n p)).2

def Wr0 (s : St) : Prop := ∀ u, u < s.n → waitsGate (s.pcs u) = true → s.sh.r = 0

theorem wr0_reach (n : Nat) (p : Bool) (sched : List (Nat × Env)) : Wr0 (run (init n p) sched) :=
  fun u hu hw => waitsGate_loc _ _ hw (lk_reach n p sched u hu)

end MayVerif.RwLock
