/-
  "A reader that holds rlock and goes for the gate waits for a writer, never for the reader group":
  while an actor is inside `self.lock()` / `self.try_lock()` of `read()` / `try_read()` the reader count is 0.
  (Otherwise the reader group, which needs rlock to leave, and the rlock holder, which waits for the group's gate,
  would block each other.) Uses the mutual exclusion of rlock sections (C05 for the rlock component).
-/
import MayVerif.Proof.Sync.RwLock.Step
set_option linter.unusedSimpArgs false
namespace MayVerif.RwLock
open MayVerif.Mutex (upd)

/-- the actor holds rlock and is inside the gate's `lock()` / `try_lock()` on behalf of a reader -/
def waitsGate : Pc → Bool
  | .gld o => reader o
  | .glk o _ => reader o
  | _ => false

theorem waitsGate_held (pc : Pc) (h : waitsGate pc = true) : rpc pc = .held := by
  cases pc <;> simp_all [waitsGate, rpc]

def Wr0 (s : St) : Prop := ∀ u, u < s.n → waitsGate (s.pcs u) = true → s.sh.r = 0

/-- what a step does to the reader count: it leaves it alone (and an actor only starts waiting for the gate when the
    count is 0), or the actor is inside its rlock section and is not waiting for the gate afterwards -/
theorem step_shape (sh : Sh) (t : Nat) (pc : Pc) (e : Env) (sh' : Sh) (pc' : Pc)
    (hts : tstepG false sh t pc e = some (sh', pc')) :
    (sh'.r = sh.r ∧ (waitsGate pc' = true → (waitsGate pc = true ∨ sh.r = 0))) ∨
    (waitsGate pc' = false ∧ rpc pc = .held) := by
  cases pc with
  | idle =>
    left
    cases e <;> simp only [tstepG] at hts <;> (try contradiction) <;> (try split at hts) <;> (try contradiction) <;>
      simp only [Option.some.injEq, Prod.mk.injEq] at hts <;> obtain ⟨rfl, rfl⟩ := hts <;>
      refine ⟨rfl, ?_⟩ <;> (try split) <;> simp [waitsGate, reader]
  | isp => left; simp only [tstepG, Option.some.injEq, Prod.mk.injEq] at hts; obtain ⟨rfl, rfl⟩ := hts; simp [waitsGate]
  | wpo => left; simp only [tstepG, Option.some.injEq, Prod.mk.injEq] at hts; obtain ⟨rfl, rfl⟩ := hts; simp [waitsGate]
  | glp o => simp [tstepG] at hts
  | rlk o p =>
    left
    simp only [tstepG] at hts
    split at hts
    · contradiction
    · (repeat' split at hts) <;> simp only [Option.some.injEq, Prod.mk.injEq] at hts <;> obtain ⟨rfl, rfl⟩ := hts <;>
        simp [waitsGate]
  | rul o v p =>
    left
    simp only [tstepG] at hts
    split at hts
    · contradiction
    · (repeat' split at hts) <;> simp only [Option.some.injEq, Prod.mk.injEq] at hts <;> obtain ⟨rfl, rfl⟩ := hts <;>
        simp [waitsGate]
  | gul o p =>
    left
    simp only [tstepG] at hts
    split at hts
    · contradiction
    · (repeat' split at hts) <;> simp only [Option.some.injEq, Prod.mk.injEq] at hts <;> obtain ⟨rfl, rfl⟩ := hts <;>
        simp [waitsGate]
  | psn o =>
    left
    simp only [tstepG, Bool.false_and, Bool.false_eq_true, if_false] at hts
    split at hts <;> simp only [Option.some.injEq, Prod.mk.injEq] at hts <;> obtain ⟨rfl, rfl⟩ := hts <;> simp [waitsGate]
  | rlp o =>
    simp only [tstepG, Bool.false_and, Bool.false_eq_true, if_false] at hts
    split at hts
    · right
      (repeat' split at hts) <;> (try contradiction) <;>
        simp only [Option.some.injEq, Prod.mk.injEq] at hts <;> obtain ⟨rfl, rfl⟩ := hts <;> simp [waitsGate, rpc]
    · split at hts
      · split at hts
        next h0 =>
          left
          simp only [Option.some.injEq, Prod.mk.injEq] at hts; obtain ⟨rfl, rfl⟩ := hts
          exact ⟨rfl, fun _ => Or.inr h0⟩
        next h0 =>
          right
          simp only [Option.some.injEq, Prod.mk.injEq] at hts; obtain ⟨rfl, rfl⟩ := hts
          simp [waitsGate, rpc]
      · contradiction
  | gld o =>
    left
    simp only [tstepG] at hts
    split at hts
    · simp only [Option.some.injEq, Prod.mk.injEq] at hts; obtain ⟨rfl, rfl⟩ := hts
      exact ⟨rfl, fun h => Or.inl (by simpa [waitsGate] using h)⟩
    · split at hts
      · split at hts
        · contradiction
        · simp only [Option.some.injEq, Prod.mk.injEq] at hts; obtain ⟨rfl, rfl⟩ := hts
          exact ⟨rfl, fun h => Or.inl (by simpa [waitsGate] using h)⟩
      · cases o <;> simp only [notAcquired, Option.some.injEq, Prod.mk.injEq] at hts <;> obtain ⟨rfl, rfl⟩ := hts <;>
          simp [waitsGate]
  | glk o p =>
    simp only [tstepG, Bool.false_and, Bool.false_eq_true, if_false] at hts
    split at hts
    · contradiction
    next g' p' hm =>
    split at hts
    · -- acquired
      cases hr : reader o
      · left
        simp only [acquired, hr, Bool.false_eq_true, if_false, Option.some.injEq, Prod.mk.injEq] at hts
        obtain ⟨rfl, rfl⟩ := hts
        simp [waitsGate]
      · right
        simp only [acquired, hr, Bool.false_and, Bool.false_eq_true, if_false, if_true, Option.some.injEq, Prod.mk.injEq] at hts
        obtain ⟨rfl, rfl⟩ := hts
        simp [waitsGate, rpc, hr]
    · split at hts
      · left
        cases o <;> simp only [notAcquired, Option.some.injEq, Prod.mk.injEq] at hts <;> obtain ⟨rfl, rfl⟩ := hts <;>
          simp [waitsGate]
      · left
        simp only [Option.some.injEq, Prod.mk.injEq] at hts; obtain ⟨rfl, rfl⟩ := hts
        exact ⟨rfl, fun h => Or.inl (by simpa [waitsGate] using h)⟩

theorem wr0_step (s s' : St) (t : Nat) (e : Env) (h : Inv s) (hw : Wr0 s) (hs : step s t e = some s') : Wr0 s' := by
  obtain ⟨n, sh, pcs⟩ := s
  simp only [step, stepG] at hs
  split at hs
  case isFalse => contradiction
  next hlt =>
  split at hs
  · contradiction
  next sh' pc' hts =>
  simp only [Option.some.injEq] at hs
  subst hs
  intro u hu hwu
  simp only at hu hwu hlt ⊢
  rcases step_shape sh t (pcs t) e sh' pc' hts with ⟨hr, hstart⟩ | ⟨hnw, hheld⟩
  · rw [hr]
    by_cases hut : u = t
    · subst hut
      simp only [upd, if_true] at hwu
      rcases hstart hwu with h1 | h1
      · exact hw u hu h1
      · exact h1
    · simp only [upd, if_neg hut] at hwu
      exact hw u hu hwu
  · by_cases hut : u = t
    · subst hut
      simp only [upd, if_true] at hwu
      rw [hnw] at hwu; contradiction
    · simp only [upd, if_neg hut] at hwu
      -- `u` holds rlock as well: impossible
      exfalso
      have := h.rI.g1 t u (by simp [projR, pR_at _ _ _ hlt, hheld, Mutex.carrierA])
        (by simp [projR, pR_at _ _ _ hu, waitsGate_held _ hwu, Mutex.carrierA])
      exact hut this.symm

theorem wr0_reach (n : Nat) (p : Bool) (sched : List (Nat × Env)) : Wr0 (run (init n p) sched) := by
  have key : ∀ (s : St), Inv s → Wr0 s → Wr0 (run s sched) := by
    induction sched with
    | nil => intro s _ hw; simpa [run, runG] using hw
    | cons te r ih =>
      intro s hi hw
      obtain ⟨t, e⟩ := te
      simp only [run, runG]
      split
      · next s' hs => exact ih s' (inv_step _ _ _ _ hi hs) (wr0_step _ _ _ _ hi hw hs)
      · exact ih s hi hw
  exact key _ (inv_init n p) (by intro u _ hwu; simp [init, waitsGate] at hwu)

end MayVerif.RwLock
