/-
  The two Mutex components of the RwLock model, seen as states of `Model/Sync/Mutex.lean`:
  `projG` (the gate) and `projR` (rlock). Every RwLock step is, on each projection, a stutter, a step of the Mutex
  model, or a Mutex step combined with handing the `held` role to / from a *virtual* actor:
    actor `n`     = "the outstanding write guard"     (held iff WG > 0)
    actor `n + 1` = "the reader group"                (held iff grp, i.e. from the first reader's `*r += 1` to the last
                                                       reader's `*r -= 1`; in between acquiring / releasing the gate
                                                       and those accesses the acting reader itself is the holder)
  so the invariant proved for C05 (`Mutex.Inv`, `Mutex.inv_step`) carries over to both components.
-/
import MayVerif.Model.Sync.RwLock
import MayVerif.Proof.Sync.Mutex.Step
namespace MayVerif.RwLock
open MayVerif.Mutex (upd)

/-- this actor's program point in the gate component -/
@[grind] def gpc : Pc → Mutex.Pc
  | .gld o => if blocking o then .m0cas else .t0cas
  | .glk _ p => p
  | .gul _ p => p
  | .psn o => if reader o then .idle else .held
  | .wpo => .held
  | .rinc _ first => if first then .held else .idle     -- the first reader still holds the gate itself
  | .rck last => if last then .held else .idle          -- the last reader has taken the gate back from the group
  | _ => .idle

/-- this actor's program point in the rlock component -/
@[grind] def rpc : Pc → Mutex.Pc
  | .rlk _ p => p
  | .rul _ _ p => p
  | .rlp _ => .held
  | .rld _ => .held
  | .rinc _ _ => .held
  | .rdec => .held
  | .rck _ => .held
  | .gld o => if reader o then .held else .idle
  | .glk o _ => if reader o then .held else .idle
  | .psn o => if reader o then .held else .idle
  | .gul o _ => if o = .dropR then .held else .idle
  | _ => .idle

def vW (wg : Nat) : Mutex.Pc := if 0 < wg then .held else .idle
def vG (grp : Bool) : Mutex.Pc := if grp then .held else .idle

def pG (n : Nat) (pcs : Nat → Pc) (wg : Nat) (grp : Bool) : Nat → Mutex.Pc :=
  fun u => if u < n then gpc (pcs u) else if u = n then vW wg else if u = n + 1 then vG grp else .idle
def pR (n : Nat) (pcs : Nat → Pc) : Nat → Mutex.Pc := fun u => if u < n then rpc (pcs u) else .idle

def projG (s : St) : Mutex.St := ⟨s.n + 2, s.sh.g, pG s.n s.pcs s.sh.WG s.sh.grp⟩
def projR (s : St) : Mutex.St := ⟨s.n, s.sh.rl, pR s.n s.pcs⟩

theorem upd_same {α : Type} (f : Nat → α) (t : Nat) : upd f t (f t) = f := by
  funext u; simp only [upd]; split <;> simp_all

theorem pG_upd (n : Nat) (pcs : Nat → Pc) (wg : Nat) (grp : Bool) (t : Nat) (pc' : Pc) (ht : t < n) :
    pG n (upd pcs t pc') wg grp = upd (pG n pcs wg grp) t (gpc pc') := by
  funext u
  simp only [pG, upd]
  by_cases h : u = t
  · subst h; simp [ht]
  · simp [h]

theorem pG_wg (n : Nat) (pcs : Nat → Pc) (wg wg' : Nat) (grp : Bool) :
    pG n pcs wg' grp = upd (pG n pcs wg grp) n (vW wg') := by
  funext u
  simp only [pG, upd]
  by_cases h : u = n
  · subst h; simp
  · simp [h]

theorem pG_grp (n : Nat) (pcs : Nat → Pc) (wg : Nat) (grp grp' : Bool) :
    pG n pcs wg grp' = upd (pG n pcs wg grp) (n + 1) (vG grp') := by
  funext u
  simp only [pG, upd]
  have h1 : ¬ (n + 1 < n) := by omega
  have h2 : n + 1 ≠ n := by omega
  by_cases h : u = n + 1
  · subst h; simp [h1]
  · simp [h]

theorem pR_upd (n : Nat) (pcs : Nat → Pc) (t : Nat) (pc' : Pc) (ht : t < n) :
    pR n (upd pcs t pc') = upd (pR n pcs) t (rpc pc') := by
  funext u
  simp only [pR, upd]
  by_cases h : u = t
  · subst h; simp [ht]
  · simp [h]

theorem pG_at (n : Nat) (pcs : Nat → Pc) (wg : Nat) (grp : Bool) (t : Nat) (ht : t < n) : pG n pcs wg grp t = gpc (pcs t) := by
  simp [pG, ht]
theorem pG_atW (n : Nat) (pcs : Nat → Pc) (wg : Nat) (grp : Bool) : pG n pcs wg grp n = vW wg := by simp [pG]
theorem pG_atG (n : Nat) (pcs : Nat → Pc) (wg : Nat) (grp : Bool) : pG n pcs wg grp (n + 1) = vG grp := by
  have h1 : ¬ (n + 1 < n) := by omega
  have h2 : n + 1 ≠ n := by omega
  simp [pG, h1]
theorem pR_at (n : Nat) (pcs : Nat → Pc) (t : Nat) (ht : t < n) : pR n pcs t = rpc (pcs t) := by simp [pR, ht]

/-- a Mutex-model step, on explicit components -/
theorem minv_tstep (N : Nat) (sh : Mutex.Sh) (f : Nat → Mutex.Pc) (t : Nat) (e : Mutex.Env) (sh' : Mutex.Sh) (p' : Mutex.Pc)
    (h : Mutex.Inv ⟨N, sh, f⟩) (ht : t < N) (hs : Mutex.tstep sh t (f t) e = some (sh', p')) : Mutex.Inv ⟨N, sh', upd f t p'⟩ := by
  apply Mutex.inv_step ⟨N, sh, f⟩ _ t e h
  simp [Mutex.step, ht, hs]

section xfer
open MayVerif.Mutex

theorem cntOf_congr (n : Nat) (p : Mutex.Pc → Bool) (f g : Nat → Mutex.Pc) (h : ∀ u, p (f u) = p (g u)) : cntOf n p f = cntOf n p g := by
  unfold cntOf
  apply List.countP_congr
  intro x _
  simp [h x]

/-- handing the `held` role from actor `a` to the idle actor `b` preserves the Mutex invariant
    (the invariant never mentions *which* actor is the holder) -/
theorem minv_xfer (n : Nat) (sh : Mutex.Sh) (pcs : Nat → Mutex.Pc) (a b : Nat) (h : Mutex.Inv ⟨n, sh, pcs⟩)
    (ha : pcs a = .held) (hb : pcs b = .idle) (han : a < n) (hbn : b < n) :
    Mutex.Inv ⟨n, sh, upd (upd pcs a .idle) b .held⟩ := by
  obtain ⟨hnd, hfr, hfw, hfq, hvir, ho1, hw1, haL, hvL, hinQ, hnotQ, hok, hdup, hcb, hc1, hc2, hc3, hn1, hn2, hn3, hn4, hn5, hg1, hg2, hg3, hg4, hg5, he1, he2, he3, hO1, hk1, hk2⟩ := h
  simp only at hnd hfr hfw hfq hvir ho1 hw1 haL hvL hinQ hnotQ hok hdup hcb hc1 hc2 hc3 hn1 hn2 hn3 hn4 hn5 hg1 hg2 hg3 hg4 hg5 he1 he2 he3 hO1 hk1 hk2
  have hval : ∀ u, upd (upd pcs a .idle) b .held u = if u = b then .held else if u = a then .idle else pcs u := by
    intro u; simp [upd]
  have hcases : ∀ u, (u = b ∧ upd (upd pcs a .idle) b .held u = .held ∧ pcs u = .idle) ∨
      (u ≠ b ∧ u = a ∧ upd (upd pcs a .idle) b .held u = .idle ∧ pcs u = .held) ∨
      (u ≠ b ∧ u ≠ a ∧ upd (upd pcs a .idle) b .held u = pcs u ∧ True) := by
    intro u
    rw [hval]
    by_cases h1 : u = b
    · left; subst h1; simp [hb]
    · by_cases h2 : u = a
      · right; left; subst h2; simp [h1, ha]
      · right; right; simp [h1, h2]
  have hown : ∀ u, owns (upd (upd pcs a .idle) b .held u) = owns (pcs u) := by
    intro u; rcases hcases u with ⟨_, h1, h2⟩ | ⟨_, _, h1, h2⟩ | ⟨_, _, h1, h2⟩ <;> simp [h1, h2, owns]
  have hwak : ∀ u, wakes (upd (upd pcs a .idle) b .held u) = wakes (pcs u) := by
    intro u; rcases hcases u with ⟨_, h1, h2⟩ | ⟨_, _, h1, h2⟩ | ⟨_, _, h1, h2⟩ <;> simp [h1, h2, wakes]
  have haph : ∀ u, aphOf (upd (upd pcs a .idle) b .held u) = aphOf (pcs u) := by
    intro u; rcases hcases u with ⟨_, h1, h2⟩ | ⟨_, _, h1, h2⟩ | ⟨_, _, h1, h2⟩ <;> simp [h1, h2, aphOf]
  have hvph : ∀ u, vphOf (upd (upd pcs a .idle) b .held u) = vphOf (pcs u) := by
    intro u; rcases hcases u with ⟨_, h1, h2⟩ | ⟨_, _, h1, h2⟩ | ⟨_, _, h1, h2⟩ <;> simp [h1, h2, vphOf]
  have hnp : ∀ u, notPushed (upd (upd pcs a .idle) b .held u) = notPushed (pcs u) := by
    intro u; rcases hcases u with ⟨_, h1, h2⟩ | ⟨_, _, h1, h2⟩ | ⟨_, _, h1, h2⟩ <;> simp [h1, h2, notPushed]
  have hF : cntOf n atFsub (upd (upd pcs a .idle) b .held) = cntOf n atFsub pcs := by
    apply cntOf_congr; intro u; rcases hcases u with ⟨_, h1, h2⟩ | ⟨_, _, h1, h2⟩ | ⟨_, _, h1, h2⟩ <;> simp [h1, h2, atFsub]
  have hP : cntOf n atPop (upd (upd pcs a .idle) b .held) = cntOf n atPop pcs := by
    apply cntOf_congr; intro u; rcases hcases u with ⟨_, h1, h2⟩ | ⟨_, _, h1, h2⟩ | ⟨_, _, h1, h2⟩ <;> simp [h1, h2, atPop]
  -- the only carrier of the old state is `a`; the only carrier of the new one is `b`
  have hca : ∀ u, carrierA (pcs u) = true → u = a := fun u hu => hg1 u a hu (by simp [ha, carrierA])
  have hcar : ∀ u, carrierA (upd (upd pcs a .idle) b .held u) = true → u = b := by
    intro u hu
    rcases hcases u with ⟨h0, _, _⟩ | ⟨_, _, h1, _⟩ | ⟨_, h0, h1, _⟩
    · exact h0
    · simp [h1, carrierA] at hu
    · rw [h1] at hu; exact absurd (hca u hu) h0
  have hcnt : sh.cnt ≤ 0 := by
    by_cases hc : 0 < sh.cnt
    · have := (hg5 hc).1 a; simp [ha, carrierA] at this
    · omega
  have htok : ∀ b', sh.tok b' = true → sh.duty b' = true := fun b' => hg2 a b' (by simp [ha, carrierA])
  -- the number of carrier actors is unchanged: `a` stops, `b` starts being one
  have hCc : cntOf n carrierA (upd (upd pcs a .idle) b .held) = cntOf n carrierA pcs := by
    have h1 := cntOf_upd n carrierA pcs a .idle han
    have h2 := cntOf_upd n carrierA (upd pcs a .idle) b .held hbn
    have hb' : upd pcs a .idle b = .idle := by simp only [upd]; split <;> simp [hb]
    rw [hb'] at h2
    rw [ha] at h1
    simp [carrierA] at h1 h2
    omega
  constructor <;> simp only [hown, hwak, haph, hvph, hnp, hF, hP, hCc]
  all_goals first
    | assumption
    | (intro t u ht hu; rw [hcar t ht, hcar u hu])
    | (intro t b' _ hb'; exact htok b' hb')
    | (intro hc; omega)
    | skip

end xfer

/-! ### the patterns by which an RwLock step acts on the two components -/

theorem pG_all (n : Nat) (pcs : Nat → Pc) (wg wg' : Nat) (grp grp' : Bool) (t : Nat) (pc' : Pc) (ht : t < n) :
    pG n (upd pcs t pc') wg' grp' = upd (upd (upd (pG n pcs wg grp) t (gpc pc')) n (vW wg')) (n + 1) (vG grp') := by
  rw [pG_grp n _ wg' grp grp', pG_wg n _ wg wg' grp, pG_upd _ _ _ _ _ _ ht]

/-- the step does not concern the gate -/
theorem gate_same (n : Nat) (sh sh' : Sh) (pcs : Nat → Pc) (t : Nat) (pc' : Pc) (ht : t < n)
    (h : Mutex.Inv (projG ⟨n, sh, pcs⟩)) (hg : sh'.g = sh.g) (hw : sh'.WG = sh.WG) (hgr : sh'.grp = sh.grp)
    (hp : gpc pc' = gpc (pcs t)) : Mutex.Inv (projG ⟨n, sh', upd pcs t pc'⟩) := by
  have : projG ⟨n, sh', upd pcs t pc'⟩ = projG ⟨n, sh, pcs⟩ := by
    simp only [projG, hg, hw, hgr, pG_upd _ _ _ _ _ _ ht, hp]
    rw [← pG_at n pcs sh.WG sh.grp t ht, upd_same]
  rw [this]; exact h

/-- the step is a step of the Mutex model on the gate -/
theorem gate_step (n : Nat) (sh sh' : Sh) (pcs : Nat → Pc) (t : Nat) (pc' : Pc) (e : Mutex.Env) (ht : t < n)
    (h : Mutex.Inv (projG ⟨n, sh, pcs⟩)) (hm : Mutex.tstep sh.g t (gpc (pcs t)) e = some (sh'.g, gpc pc'))
    (hw : sh'.WG = sh.WG) (hgr : sh'.grp = sh.grp) : Mutex.Inv (projG ⟨n, sh', upd pcs t pc'⟩) := by
  have h1 := minv_tstep (n + 2) sh.g (pG n pcs sh.WG sh.grp) t e sh'.g (gpc pc') h (by omega)
    (by rw [pG_at _ _ _ _ _ ht]; exact hm)
  simp only [projG, hw, hgr, pG_upd _ _ _ _ _ _ ht]
  exact h1

/-- the first reader counts itself: the `held` role goes from that actor to the virtual reader group -/
theorem gate_to_G (n : Nat) (sh sh' : Sh) (pcs : Nat → Pc) (t : Nat) (pc' : Pc) (ht : t < n)
    (h : Mutex.Inv (projG ⟨n, sh, pcs⟩)) (hcur : gpc (pcs t) = .held) (hp : gpc pc' = .idle)
    (hg : sh'.g = sh.g) (hw : sh'.WG = sh.WG) (hgr : sh'.grp = true) :
    Mutex.Inv (projG ⟨n, sh', upd pcs t pc'⟩) ∧ sh.grp = false := by
  have hne : n + 1 ≠ t := by omega
  have hG : sh.grp = false := by
    cases hgv : sh.grp
    · rfl
    · exfalso
      have := h.g1 t (n + 1) (by simp [projG, pG_at _ _ _ _ _ ht, hcur, Mutex.carrierA])
        (by simp [projG, pG_atG, vG, hgv, Mutex.carrierA])
      omega
  refine ⟨?_, hG⟩
  have h2 := minv_xfer (n + 2) sh.g (pG n pcs sh.WG sh.grp) t (n + 1) h (by rw [pG_at _ _ _ _ _ ht]; exact hcur)
    (by simp [pG_atG, vG, hG]) (by omega) (by omega)
  have : pG n (upd pcs t pc') sh'.WG sh'.grp = upd (upd (pG n pcs sh.WG sh.grp) t .idle) (n + 1) .held := by
    rw [pG_all n pcs sh.WG sh'.WG sh.grp sh'.grp t pc' ht, hp, hw, hgr]
    funext u
    have hW := pG_atW n pcs sh.WG sh.grp
    simp only [upd, vG]
    by_cases h1 : u = n + 1 <;> by_cases h2 : u = n <;> by_cases h3 : u = t <;> simp_all <;> omega
  simp only [projG, hg, this]
  exact h2

/-- the write guard is handed out: the `held` role goes from the returning actor to the virtual guard actor -/
theorem gate_to_W (n : Nat) (sh sh' : Sh) (pcs : Nat → Pc) (t : Nat) (pc' : Pc) (ht : t < n)
    (h : Mutex.Inv (projG ⟨n, sh, pcs⟩)) (hcur : gpc (pcs t) = .held) (hp : gpc pc' = .idle)
    (hg : sh'.g = sh.g) (hw : sh'.WG = sh.WG + 1) (hgr : sh'.grp = sh.grp) :
    Mutex.Inv (projG ⟨n, sh', upd pcs t pc'⟩) ∧ sh.WG = 0 := by
  have hne : n ≠ t := by omega
  have hW : sh.WG = 0 := by
    by_cases hz : sh.WG = 0
    · exact hz
    · exfalso
      have := h.g1 t n (by simp [projG, pG_at _ _ _ _ _ ht, hcur, Mutex.carrierA])
        (by simp only [projG, pG_atW, vW]; rw [if_pos (by omega)]; rfl)
      omega
  refine ⟨?_, hW⟩
  have h2 := minv_xfer (n + 2) sh.g (pG n pcs sh.WG sh.grp) t n h (by rw [pG_at _ _ _ _ _ ht]; exact hcur)
    (by simp [pG_atW, vW, hW]) (by omega) (by omega)
  have : pG n (upd pcs t pc') sh'.WG sh'.grp = upd (upd (pG n pcs sh.WG sh.grp) t .idle) n .held := by
    rw [pG_all n pcs sh.WG sh'.WG sh.grp sh'.grp t pc' ht, hp, hw, hgr]
    funext u
    have hGv := pG_atG n pcs sh.WG sh.grp
    simp only [upd, vW]
    by_cases h1 : u = n + 1 <;> by_cases h2 : u = n <;> by_cases h3 : u = t <;> simp_all <;> omega
  simp only [projG, hg, this]
  exact h2

/-- a write guard is given to `drop`: the `held` role goes from the virtual guard actor to the dropping actor
    (`unl`: which then enters `unlock()`, a step of the Mutex model) -/
theorem gate_from_W (n : Nat) (sh sh' : Sh) (pcs : Nat → Pc) (t : Nat) (pc' : Pc) (ht : t < n)
    (h : Mutex.Inv (projG ⟨n, sh, pcs⟩)) (hcur : gpc (pcs t) = .idle) (hp : gpc pc' = .held ∨ gpc pc' = .p0fadd .fin)
    (hg : sh'.g = sh.g) (hw0 : 0 < sh.WG) (hw : sh'.WG = 0) (hgr : sh'.grp = sh.grp) :
    Mutex.Inv (projG ⟨n, sh', upd pcs t pc'⟩) := by
  have hne : n ≠ t := by omega
  have h2 := minv_xfer (n + 2) sh.g (pG n pcs sh.WG sh.grp) n t h (by simp only [pG_atW, vW]; rw [if_pos hw0])
    (by rw [pG_at _ _ _ _ _ ht]; exact hcur) (by omega) (by omega)
  have key : ∀ q, gpc pc' = q → pG n (upd pcs t pc') sh'.WG sh'.grp = upd (upd (upd (pG n pcs sh.WG sh.grp) n .idle) t .held) t q := by
    intro q hq
    rw [pG_all n pcs sh.WG sh'.WG sh.grp sh'.grp t pc' ht, hq, hw, hgr]
    funext u
    have hGv := pG_atG n pcs sh.WG sh.grp
    simp only [upd, vW]
    by_cases h1 : u = n + 1 <;> by_cases h2 : u = n <;> by_cases h3 : u = t <;> simp_all <;> omega
  rcases hp with hp | hp
  · simp only [projG, hg, key _ hp]
    rw [show upd (upd (upd (pG n pcs sh.WG sh.grp) n .idle) t .held) t .held = upd (upd (pG n pcs sh.WG sh.grp) n .idle) t .held from by
      funext u; simp only [upd]; split <;> rfl]
    exact h2
  · simp only [projG, hg, key _ hp]
    exact minv_tstep (n + 2) sh.g _ t .unlock sh.g (.p0fadd .fin) h2 (by omega) (by simp [upd, Mutex.tstep])

/-- the last reader un-counts itself: the `held` role goes from the virtual reader group to that actor -/
theorem gate_from_G (n : Nat) (sh sh' : Sh) (pcs : Nat → Pc) (t : Nat) (pc' : Pc) (ht : t < n)
    (h : Mutex.Inv (projG ⟨n, sh, pcs⟩)) (hcur : gpc (pcs t) = .idle) (hp : gpc pc' = .held)
    (hg : sh'.g = sh.g) (hw : sh'.WG = sh.WG) (hgr0 : sh.grp = true) (hgr : sh'.grp = false) :
    Mutex.Inv (projG ⟨n, sh', upd pcs t pc'⟩) := by
  have hne : n + 1 ≠ t := by omega
  have h2 := minv_xfer (n + 2) sh.g (pG n pcs sh.WG sh.grp) (n + 1) t h (by simp [pG_atG, vG, hgr0])
    (by rw [pG_at _ _ _ _ _ ht]; exact hcur) (by omega) (by omega)
  have key : pG n (upd pcs t pc') sh'.WG sh'.grp = upd (upd (pG n pcs sh.WG sh.grp) (n + 1) .idle) t .held := by
    rw [pG_all n pcs sh.WG sh'.WG sh.grp sh'.grp t pc' ht, hp, hw, hgr]
    funext u
    have hWv := pG_atW n pcs sh.WG sh.grp
    simp only [upd, vG]
    by_cases h1 : u = n + 1 <;> by_cases h2 : u = n <;> by_cases h3 : u = t <;> simp_all <;> omega
  simp only [projG, hg, key]
  exact h2

/-- the step does not concern rlock -/
theorem rl_same (n : Nat) (sh sh' : Sh) (pcs : Nat → Pc) (t : Nat) (pc' : Pc) (ht : t < n)
    (h : Mutex.Inv (projR ⟨n, sh, pcs⟩)) (hg : sh'.rl = sh.rl) (hp : rpc pc' = rpc (pcs t)) :
    Mutex.Inv (projR ⟨n, sh', upd pcs t pc'⟩) := by
  have : projR ⟨n, sh', upd pcs t pc'⟩ = projR ⟨n, sh, pcs⟩ := by
    simp only [projR, hg, pR_upd _ _ _ _ ht, hp]
    rw [← pR_at n pcs t ht, upd_same]
  rw [this]; exact h

/-- the step is a step of the Mutex model on rlock -/
theorem rl_step (n : Nat) (sh sh' : Sh) (pcs : Nat → Pc) (t : Nat) (pc' : Pc) (e : Mutex.Env) (ht : t < n)
    (h : Mutex.Inv (projR ⟨n, sh, pcs⟩)) (hm : Mutex.tstep sh.rl t (rpc (pcs t)) e = some (sh'.rl, rpc pc')) :
    Mutex.Inv (projR ⟨n, sh', upd pcs t pc'⟩) := by
  have h1 := minv_tstep n sh.rl (pR n pcs) t e sh'.rl (rpc pc') h ht (by rw [pR_at _ _ _ ht]; exact hm)
  simp only [projR, pR_upd _ _ _ _ ht]
  exact h1

end MayVerif.RwLock
