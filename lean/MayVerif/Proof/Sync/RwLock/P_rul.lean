import MayVerif.Proof.Sync.RwLock.Inv
set_option linter.unusedSimpArgs false
namespace MayVerif.RwLock
open MayVerif.Mutex (upd)

theorem inv_rul (n : Nat) (sh : Sh) (pcs : Nat → Pc) (t : Nat) (e : Env) (o : Op) (v : Nat) (p : Mutex.Pc) (hlt : t < n)
    (h : Inv ⟨n, sh, pcs⟩) (hpc : pcs t = .rul o v p) (sh' : Sh) (pc' : Pc)
    (hts : tstepG false sh t (.rul o v p) e = some (sh', pc')) : Inv ⟨n, sh', upd pcs t pc'⟩ := by
  obtain ⟨hgI, hrI, hrc, hgrp, hwg⟩ := h
  simp only at hrc hgrp hwg
  have hC := fun v => cntP_upd n cntR pcs t v hlt
  rw [hpc] at hC
  simp only [cntR] at hC
  have hgp : gpc (pcs t) = .idle := by rw [hpc]; rfl
  have hrp : rpc (pcs t) = p := by rw [hpc]; rfl
  simp only [tstepG] at hts
  split at hts
  · contradiction
  next rl' p' hm =>
  split at hts
  next hidle =>
    simp only [Option.some.injEq, Prod.mk.injEq] at hts; obtain ⟨rfl, rfl⟩ := hts
    refine ⟨gate_same n sh _ pcs t _ hlt hgI rfl rfl rfl (by rw [hgp]; rfl),
      rl_step n sh _ pcs t _ (menvR e) hlt hrI (by rw [hrp, hm, hidle]; rfl), ?_, hgrp, hwg⟩
    have := hC .idle; simp only [cntR] at this
    by_cases hv : v = 1 ∨ v = 2 <;> simp [hv] at this ⊢ <;> omega
  next hni =>
    simp only [Option.some.injEq, Prod.mk.injEq] at hts; obtain ⟨rfl, rfl⟩ := hts
    refine ⟨gate_same n sh _ pcs t _ hlt hgI rfl rfl rfl (by rw [hgp]; rfl),
      rl_step n sh _ pcs t _ (menvR e) hlt hrI (by rw [hrp, hm]; rfl), ?_, hgrp, hwg⟩
    have := hC (.rul o v p'); simp only [cntR] at this
    by_cases hv : v = 1 ∨ v = 2 <;> simp [hv] at this ⊢ <;> omega

end MayVerif.RwLock
