import MayVerif.Proof.Sync.RwLock.Inv
set_option linter.unusedSimpArgs false
namespace MayVerif.RwLock
open MayVerif.Mutex (upd)

theorem inv_idle (n : Nat) (sh : Sh) (pcs : Nat → Pc) (t : Nat) (e : Env) (hlt : t < n)
    (h : Inv ⟨n, sh, pcs⟩) (hpc : pcs t = .idle) (sh' : Sh) (pc' : Pc)
    (hts : tstepG false sh t .idle e = some (sh', pc')) : Inv ⟨n, sh', upd pcs t pc'⟩ := by
  obtain ⟨hgI, hrI, hrc, hgrp, hwg⟩ := h
  simp only at hrc hgrp hwg
  have hC := fun v => cntP_upd n cntR pcs t v hlt
  rw [hpc] at hC
  simp only [cntR] at hC
  have hgp : gpc (pcs t) = .idle := by rw [hpc]; rfl
  have hrp : rpc (pcs t) = .idle := by rw [hpc]; rfl
  cases e <;> simp only [tstepG] at hts
  case read =>
    simp only [Option.some.injEq, Prod.mk.injEq] at hts; obtain ⟨rfl, rfl⟩ := hts
    refine ⟨gate_same n sh sh pcs t _ hlt hgI rfl rfl rfl (by rw [hgp]; rfl),
      rl_step n sh sh pcs t _ .startLock hlt hrI (by rw [hrp]; rfl), ?_, hgrp, hwg⟩
    have := hC (.rlk .read .m0cas); simp [cntR] at this; simp only []; omega
  case tryRead =>
    simp only [Option.some.injEq, Prod.mk.injEq] at hts; obtain ⟨rfl, rfl⟩ := hts
    refine ⟨gate_same n sh sh pcs t _ hlt hgI rfl rfl rfl (by rw [hgp]; rfl),
      rl_step n sh sh pcs t _ .startTry hlt hrI (by rw [hrp]; rfl), ?_, hgrp, hwg⟩
    have := hC (.rlk .tryRead .t0cas); simp [cntR] at this; simp only []; omega
  case write =>
    simp only [Option.some.injEq, Prod.mk.injEq] at hts; obtain ⟨rfl, rfl⟩ := hts
    refine ⟨gate_step n sh sh pcs t _ .startLock hlt hgI (by rw [hgp]; rfl) rfl rfl,
      rl_same n sh sh pcs t _ hlt hrI rfl (by rw [hrp]; rfl), ?_, hgrp, hwg⟩
    have := hC (.gld .write); simp [cntR] at this; simp only []; omega
  case tryWrite =>
    simp only [Option.some.injEq, Prod.mk.injEq] at hts; obtain ⟨rfl, rfl⟩ := hts
    refine ⟨gate_step n sh sh pcs t _ .startTry hlt hgI (by rw [hgp]; rfl) rfl rfl,
      rl_same n sh sh pcs t _ hlt hrI rfl (by rw [hrp]; rfl), ?_, hgrp, hwg⟩
    have := hC (.gld .tryWrite); simp [cntR] at this; simp only []; omega
  case dropR =>
    split at hts
    next hpos =>
      simp only [Option.some.injEq, Prod.mk.injEq] at hts; obtain ⟨rfl, rfl⟩ := hts
      refine ⟨gate_same n sh _ pcs t _ hlt hgI rfl rfl rfl (by rw [hgp]; rfl),
        rl_step n sh _ pcs t _ .startLock hlt hrI (by rw [hrp]; rfl), ?_, hgrp, hwg⟩
      have := hC (.rlk .dropR .m0cas); simp [cntR] at this; simp only []; omega
    next => contradiction
  case dropW pan =>
    split at hts
    next hpos =>
      simp only [Option.some.injEq, Prod.mk.injEq] at hts; obtain ⟨rfl, rfl⟩ := hts
      refine ⟨gate_from_W n sh _ pcs t _ hlt hgI hgp (by cases pan <;> simp [gpc]) rfl hpos (by simp only []; omega) rfl,
        rl_same n sh _ pcs t _ hlt hrI rfl (by rw [hrp]; cases pan <;> simp [rpc]), ?_, hgrp, by simp only []; omega⟩
      have h1 := hC .wpo; have h2 := hC (.gul .dropW (.p0fadd .fin)); simp [cntR] at h1 h2
      cases pan <;> simp only [] <;> simp only [Bool.false_eq_true, if_false, if_true] <;> omega
    next => contradiction
  case isPoisoned =>
    simp only [Option.some.injEq, Prod.mk.injEq] at hts; obtain ⟨rfl, rfl⟩ := hts
    refine ⟨gate_same n sh sh pcs t _ hlt hgI rfl rfl rfl (by rw [hgp]; rfl),
      rl_same n sh sh pcs t _ hlt hrI rfl (by rw [hrp]; rfl), ?_, hgrp, hwg⟩
    have := hC .isp; simp [cntR] at this; simp only []; omega
  all_goals contradiction

end MayVerif.RwLock
