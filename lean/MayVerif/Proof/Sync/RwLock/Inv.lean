/-
  Invariant of the RwLock model: the C05 invariant for both Mutex components (by projection, `Sim.lean`) plus the
  accounting that links the reader count, the guards and the gate.
-/
import MayVerif.Proof.Sync.RwLock.Sim
namespace MayVerif.RwLock
open MayVerif.Mutex (upd)

def cntP (n : Nat) (p : Pc → Bool) (f : Nat → Pc) : Nat := (List.range n).countP (fun u => p (f u))

theorem cntP_upd (n : Nat) (p : Pc → Bool) (f : Nat → Pc) (t : Nat) (v : Pc) (ht : t < n) :
    cntP n p (upd f t v) + (if p (f t) then 1 else 0) = cntP n p f + (if p v then 1 else 0) := by
  unfold cntP
  induction n with
  | zero => omega
  | succ k ih =>
    simp only [List.range_succ, List.countP_append, List.countP_cons, List.countP_nil]
    by_cases hk : t = k
    · subst hk
      have : List.countP (fun u => p (upd f t v u)) (List.range t) = List.countP (fun u => p (f u)) (List.range t) := by
        apply List.countP_congr
        intro x hx
        have : x < t := List.mem_range.mp hx
        have : x ≠ t := by omega
        simp [upd, this]
      rw [this]; simp [upd]; split <;> split <;> omega
    · have := ih (by omega)
      have h2 : upd f t v k = f k := by simp [upd]; intro h; omega
      rw [h2]; omega

theorem cntP_zero_of (n : Nat) (p : Pc → Bool) (f : Nat → Pc) (h : ∀ u, u < n → p (f u) = false) : cntP n p f = 0 := by
  unfold cntP
  apply List.countP_eq_zero.mpr
  intro x hx
  simp [h x (List.mem_range.mp hx)]

theorem cntP_pos_of (n : Nat) (p : Pc → Bool) (f : Nat → Pc) (t : Nat) (ht : t < n) (h : p (f t) = true) : 0 < cntP n p f := by
  unfold cntP
  apply List.countP_pos_iff.mpr
  exact ⟨t, List.mem_range.mpr ht, h⟩

/-- the actor accounts for one unit of the reader count `r` without (yet / any more) being represented by a guard in `RG`:
    a reader past its `*r += 1` that has not returned, or a read guard's drop before its `*r -= 1` -/
@[grind] def cntR : Pc → Bool
  | .psn o => reader o
  | .rul _ v _ => decide (v = 1 ∨ v = 2)
  | .rlk o _ => o == .dropR
  | .rlp o => o == .dropR
  | .rdec => true
  | _ => false

structure Inv (s : St) : Prop where
  gI : Mutex.Inv (projG s)
  rI : Mutex.Inv (projR s)
  rc : s.sh.r = (s.sh.RG : Int) + (cntP s.n cntR s.pcs : Int)
  grpI : s.sh.grp = true ↔ 0 < s.sh.r
  wg1 : s.sh.WG ≤ 1

theorem inv_init (n : Nat) (p : Bool) : Inv (init n p) := by
  have hG : pG n (fun _ => Pc.idle) 0 false = fun _ => Mutex.Pc.idle := by
    funext u; simp only [pG, gpc, vW, vG]; split <;> (try split) <;> (try split) <;> (try simp) <;> omega
  have hR : pR n (fun _ => Pc.idle) = fun _ => Mutex.Pc.idle := by
    funext u; simp only [pR, rpc]; split <;> rfl
  constructor
  · simp only [projG, init, hG]; exact Mutex.inv_init (n + 2)
  · simp only [projR, init, hR]; exact Mutex.inv_init n
  · simp [init, cntP_zero_of n cntR (fun _ => Pc.idle) (by intros; rfl)]
  · simp [init]
  · simp [init]

end MayVerif.RwLock
