/- the four program points that access the reader count: rld, rinc (read / try_read), rdec, rck (read_unlock) -/
import MayVerif.Proof.Sync.RwLock.Inv
set_option linter.unusedSimpArgs false
namespace MayVerif.RwLock
open MayVerif.Mutex (upd)

theorem inv_rld (n : Nat) (sh : Sh) (pcs : Nat → Pc) (t : Nat) (e : Env) (o : Op) (hlt : t < n)
    (h : Inv ⟨n, sh, pcs⟩) (hpc : pcs t = .rld o) (sh' : Sh) (pc' : Pc)
    (hts : tstepG false sh t (.rld o) e = some (sh', pc')) : Inv ⟨n, sh', upd pcs t pc'⟩ := by
  obtain ⟨hgI, hrI, hrc, hgrp, hwg⟩ := h
  simp only at hrc hgrp hwg
  have hC := fun v => cntP_upd n cntR pcs t v hlt
  rw [hpc] at hC
  simp only [cntR] at hC
  have hgp : gpc (pcs t) = .idle := by rw [hpc]; rfl
  have hrp : rpc (pcs t) = .held := by rw [hpc]; rfl
  simp only [tstepG, Bool.false_and, Bool.false_eq_true, if_false] at hts
  split at hts
  next hr =>
    split at hts
    next h0 =>
      -- first reader: go for the gate
      simp only [Option.some.injEq, Prod.mk.injEq] at hts; obtain ⟨rfl, rfl⟩ := hts
      refine ⟨?_, rl_same n sh _ pcs t _ hlt hrI rfl (by rw [hrp]; simp [rpc, hr]), ?_, hgrp, hwg⟩
      · cases hb : blocking o
        · exact gate_step n sh _ pcs t _ .startTry hlt hgI (by rw [hgp]; simp [gpc, hb, Mutex.tstep]) rfl rfl
        · exact gate_step n sh _ pcs t _ .startLock hlt hgI (by rw [hgp]; simp [gpc, hb, Mutex.tstep]) rfl rfl
      · have := hC (.gld o); simp [cntR] at this; simp only []; omega
    next h0 =>
      simp only [Option.some.injEq, Prod.mk.injEq] at hts; obtain ⟨rfl, rfl⟩ := hts
      refine ⟨gate_same n sh _ pcs t _ hlt hgI rfl rfl rfl (by rw [hgp]; rfl),
        rl_same n sh _ pcs t _ hlt hrI rfl (by rw [hrp]; rfl), ?_, hgrp, hwg⟩
      have := hC (.rinc o false); simp [cntR] at this; simp only []; omega
  next => contradiction

/-- `*r += 1`. For a reader that did not take the gate itself (`first = false`) the step relies on what that reader knows
    from its `*r == 0` test under rlock: the count is positive (hypothesis `hk`, discharged by the local-knowledge
    invariant `LK`). -/
theorem inv_rinc (n : Nat) (sh : Sh) (pcs : Nat → Pc) (t : Nat) (e : Env) (o : Op) (first : Bool) (hlt : t < n)
    (h : Inv ⟨n, sh, pcs⟩) (hpc : pcs t = .rinc o first) (hk : first = false → 0 < sh.r) (sh' : Sh) (pc' : Pc)
    (hts : tstepG false sh t (.rinc o first) e = some (sh', pc')) : Inv ⟨n, sh', upd pcs t pc'⟩ := by
  obtain ⟨hgI, hrI, hrc, hgrp, hwg⟩ := h
  simp only at hrc hgrp hwg
  have hC := fun v => cntP_upd n cntR pcs t v hlt
  rw [hpc] at hC
  simp only [cntR] at hC
  have hgp : gpc (pcs t) = if first then .held else .idle := by rw [hpc]; rfl
  have hrp : rpc (pcs t) = .held := by rw [hpc]; rfl
  simp only [tstepG, Bool.false_and, Bool.false_eq_true, if_false] at hts
  split at hts
  case isFalse => contradiction
  next hr =>
  simp only [Option.some.injEq, Prod.mk.injEq] at hts
  obtain ⟨rfl, rfl⟩ := hts
  have hcnt := hC (.psn o)
  simp [cntR, hr] at hcnt
  cases first
  · -- another reader is already counted: the group holds the gate
    have hpos := hk rfl
    simp only [Bool.false_eq_true, if_false] at hgp ⊢
    refine ⟨gate_same n sh _ pcs t _ hlt hgI rfl rfl rfl (by rw [hgp]; simp [gpc, hr]),
      rl_same n sh _ pcs t _ hlt hrI rfl (by rw [hrp]; simp [rpc, hr]), ?_, ?_, hwg⟩
    · simp only []; omega
    · simp only []; constructor
      · intro _; omega
      · intro _; exact hgrp.mpr hpos
  · -- the first reader: from now on the group holds the gate
    simp only [if_true] at hgp ⊢
    have hG := gate_to_G n sh { sh with r := sh.r + 1, grp := true } pcs t (.psn o) hlt hgI hgp (by simp [gpc, hr]) rfl rfl rfl
    refine ⟨hG.1, rl_same n sh _ pcs t _ hlt hrI rfl (by rw [hrp]; simp [rpc, hr]), ?_, ?_, hwg⟩
    · simp only []; omega
    · simp only []; constructor
      · intro _; omega
      · intro _; trivial

/-- `*r -= 1` -/
theorem inv_rdec (n : Nat) (sh : Sh) (pcs : Nat → Pc) (t : Nat) (e : Env) (hlt : t < n)
    (h : Inv ⟨n, sh, pcs⟩) (hpc : pcs t = .rdec) (sh' : Sh) (pc' : Pc)
    (hts : tstepG false sh t .rdec e = some (sh', pc')) : Inv ⟨n, sh', upd pcs t pc'⟩ := by
  obtain ⟨hgI, hrI, hrc, hgrp, hwg⟩ := h
  simp only at hrc hgrp hwg
  have hC := fun v => cntP_upd n cntR pcs t v hlt
  rw [hpc] at hC
  simp only [cntR] at hC
  have hgp : gpc (pcs t) = .idle := by rw [hpc]; rfl
  have hrp : rpc (pcs t) = .held := by rw [hpc]; rfl
  simp only [tstepG] at hts
  split at hts
  · contradiction
  next hpos =>
  simp only [Option.some.injEq, Prod.mk.injEq] at hts
  obtain ⟨rfl, rfl⟩ := hts
  by_cases h1 : sh.r = 1
  · -- the last reader: it takes the gate back from the group
    simp only [h1, if_true, decide_true] at hC ⊢
    have hg0 : sh.grp = true := hgrp.mpr (by omega)
    have hcnt := hC (.rck true); simp [cntR] at hcnt
    refine ⟨gate_from_G n sh _ pcs t _ hlt hgI hgp rfl rfl rfl hg0 rfl,
      rl_same n sh _ pcs t _ hlt hrI rfl (by rw [hrp]; rfl), ?_, ?_, hwg⟩
    · simp only []; omega
    · simp
  · simp only [h1, if_false, decide_false] at hC ⊢
    have hcnt := hC (.rck false); simp [cntR] at hcnt
    refine ⟨gate_same n sh _ pcs t _ hlt hgI rfl rfl rfl (by rw [hgp]; rfl),
      rl_same n sh _ pcs t _ hlt hrI rfl (by rw [hrp]; rfl), ?_, ?_, hwg⟩
    · simp only []; omega
    · simp only []; constructor
      · intro _; omega
      · intro _; exact hgrp.mpr (by omega)

/-- `if *r == 0` in read_unlock -/
theorem inv_rck (n : Nat) (sh : Sh) (pcs : Nat → Pc) (t : Nat) (e : Env) (last : Bool) (hlt : t < n)
    (h : Inv ⟨n, sh, pcs⟩) (hpc : pcs t = .rck last) (sh' : Sh) (pc' : Pc)
    (hts : tstepG false sh t (.rck last) e = some (sh', pc')) : Inv ⟨n, sh', upd pcs t pc'⟩ := by
  obtain ⟨hgI, hrI, hrc, hgrp, hwg⟩ := h
  simp only at hrc hgrp hwg
  have hC := fun v => cntP_upd n cntR pcs t v hlt
  rw [hpc] at hC
  simp only [cntR] at hC
  have hgp : gpc (pcs t) = if last then .held else .idle := by rw [hpc]; rfl
  have hrp : rpc (pcs t) = .held := by rw [hpc]; rfl
  simp only [tstepG] at hts
  split at hts
  next h0 =>
    split at hts
    next hl =>
      -- the last reader releases the gate
      simp only [Option.some.injEq, Prod.mk.injEq] at hts; obtain ⟨rfl, rfl⟩ := hts
      refine ⟨gate_step n sh _ pcs t _ .unlock hlt hgI (by rw [hgp, hl]; rfl) rfl rfl,
        rl_same n sh _ pcs t _ hlt hrI rfl (by rw [hrp]; rfl), ?_, hgrp, hwg⟩
      have := hC (.gul .dropR (.p0fadd .fin)); simp [cntR] at this; simp only []; omega
    next => contradiction
  next h0 =>
    split at hts
    next => contradiction
    next hl =>
      simp only [Option.some.injEq, Prod.mk.injEq] at hts; obtain ⟨rfl, rfl⟩ := hts
      have hl' : last = false := by simpa using hl
      refine ⟨gate_same n sh _ pcs t _ hlt hgI rfl rfl rfl (by rw [hgp, hl']; rfl),
        rl_step n sh _ pcs t _ .unlock hlt hrI (by rw [hrp]; rfl), ?_, hgrp, hwg⟩
      have := hC (.rul .dropR 0 (.p0fadd .fin)); simp [cntR] at this; simp only []; omega

end MayVerif.RwLock
