import MayVerif.Proof.Sync.RwLock.Inv
set_option linter.unusedSimpArgs false
namespace MayVerif.RwLock
open MayVerif.Mutex (upd)

theorem inv_psn (n : Nat) (sh : Sh) (pcs : Nat → Pc) (t : Nat) (e : Env) (o : Op) (hlt : t < n)
    (h : Inv ⟨n, sh, pcs⟩) (hpc : pcs t = .psn o) (sh' : Sh) (pc' : Pc)
    (hts : tstepG false sh t (.psn o) e = some (sh', pc')) : Inv ⟨n, sh', upd pcs t pc'⟩ := by
  obtain ⟨hgI, hrI, hrc, hgrp, hwg⟩ := h
  simp only at hrc hgrp hwg
  have hC := fun v => cntP_upd n cntR pcs t v hlt
  rw [hpc] at hC
  simp only [cntR] at hC
  have hgp : gpc (pcs t) = if reader o then .idle else .held := by rw [hpc]; rfl
  have hrp : rpc (pcs t) = if reader o then .held else .idle := by rw [hpc]; rfl
  simp only [tstepG, Bool.false_and, Bool.false_eq_true, if_false] at hts
  split at hts
  next hr =>
    -- a read guard is about to be handed out (Ok or inside Poisoned): release rlock first
    simp only [Option.some.injEq, Prod.mk.injEq] at hts; obtain ⟨rfl, rfl⟩ := hts
    refine ⟨gate_same n sh _ pcs t _ hlt hgI rfl rfl rfl (by rw [hgp]; simp [gpc, hr]),
      rl_step n sh _ pcs t _ .unlock hlt hrI (by rw [hrp]; simp [rpc, hr, Mutex.tstep]), ?_, hgrp, hwg⟩
    have := hC (.rul o (if sh.poison then 2 else 1) (.p0fadd .fin))
    cases hp : sh.poison <;> simp [cntR, hr, hp] at this <;> simp [hp] <;> omega
  next hr =>
    -- the write guard is handed out (Ok or inside Poisoned)
    simp only [Option.some.injEq, Prod.mk.injEq] at hts; obtain ⟨rfl, rfl⟩ := hts
    have hr' : reader o = false := by simpa using hr
    have hW := gate_to_W n sh { sh with WG := sh.WG + 1, res := upd sh.res t (if sh.poison then 2 else 1) } pcs t .idle hlt hgI
      (by rw [hgp]; simp [hr']) rfl rfl rfl rfl
    refine ⟨hW.1, rl_same n sh _ pcs t _ hlt hrI rfl (by rw [hrp]; simp [rpc, hr']), ?_, hgrp, by simp only []; omega⟩
    have := hC .idle; simp [cntR, hr'] at this; simp only []; omega

theorem inv_wpo (n : Nat) (sh : Sh) (pcs : Nat → Pc) (t : Nat) (e : Env) (hlt : t < n)
    (h : Inv ⟨n, sh, pcs⟩) (hpc : pcs t = .wpo) (sh' : Sh) (pc' : Pc)
    (hts : tstepG false sh t .wpo e = some (sh', pc')) : Inv ⟨n, sh', upd pcs t pc'⟩ := by
  obtain ⟨hgI, hrI, hrc, hgrp, hwg⟩ := h
  simp only at hrc hgrp hwg
  have hC := fun v => cntP_upd n cntR pcs t v hlt
  rw [hpc] at hC
  simp only [cntR] at hC
  have hgp : gpc (pcs t) = .held := by rw [hpc]; rfl
  have hrp : rpc (pcs t) = .idle := by rw [hpc]; rfl
  simp only [tstepG, Option.some.injEq, Prod.mk.injEq] at hts; obtain ⟨rfl, rfl⟩ := hts
  refine ⟨gate_step n sh _ pcs t _ .unlock hlt hgI (by rw [hgp]; rfl) rfl rfl,
    rl_same n sh _ pcs t _ hlt hrI rfl (by rw [hrp]; rfl), ?_, hgrp, hwg⟩
  have := hC (.gul .dropW (.p0fadd .fin)); simp [cntR] at this; simp only []; omega

theorem inv_isp (n : Nat) (sh : Sh) (pcs : Nat → Pc) (t : Nat) (e : Env) (hlt : t < n)
    (h : Inv ⟨n, sh, pcs⟩) (hpc : pcs t = .isp) (sh' : Sh) (pc' : Pc)
    (hts : tstepG false sh t .isp e = some (sh', pc')) : Inv ⟨n, sh', upd pcs t pc'⟩ := by
  obtain ⟨hgI, hrI, hrc, hgrp, hwg⟩ := h
  simp only at hrc hgrp hwg
  have hC := fun v => cntP_upd n cntR pcs t v hlt
  rw [hpc] at hC
  simp only [cntR] at hC
  have hgp : gpc (pcs t) = .idle := by rw [hpc]; rfl
  have hrp : rpc (pcs t) = .idle := by rw [hpc]; rfl
  simp only [tstepG, Option.some.injEq, Prod.mk.injEq] at hts; obtain ⟨rfl, rfl⟩ := hts
  refine ⟨gate_same n sh _ pcs t _ hlt hgI rfl rfl rfl (by rw [hgp]; rfl),
    rl_same n sh _ pcs t _ hlt hrI rfl (by rw [hrp]; rfl), ?_, hgrp, hwg⟩
  have := hC .idle; simp [cntR] at this; simp only []; omega

end MayVerif.RwLock
