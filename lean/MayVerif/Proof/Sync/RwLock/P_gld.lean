import MayVerif.Proof.Sync.RwLock.Inv
set_option linter.unusedSimpArgs false
namespace MayVerif.RwLock
open MayVerif.Mutex (upd)

theorem inv_gld (n : Nat) (sh : Sh) (pcs : Nat → Pc) (t : Nat) (e : Env) (o : Op) (hlt : t < n)
    (h : Inv ⟨n, sh, pcs⟩) (hpc : pcs t = .gld o) (sh' : Sh) (pc' : Pc)
    (hts : tstepG false sh t (.gld o) e = some (sh', pc')) : Inv ⟨n, sh', upd pcs t pc'⟩ := by
  obtain ⟨hgI, hrI, hrc, hgrp, hwg⟩ := h
  simp only at hrc hgrp hwg
  have hC := fun v => cntP_upd n cntR pcs t v hlt
  rw [hpc] at hC
  simp only [cntR] at hC
  have hgp : gpc (pcs t) = if blocking o then .m0cas else .t0cas := by rw [hpc]; rfl
  have hrp : rpc (pcs t) = if reader o then .held else .idle := by rw [hpc]; rfl
  simp only [tstepG] at hts
  split at hts
  next hfree =>
    simp only [Option.some.injEq, Prod.mk.injEq] at hts; obtain ⟨rfl, rfl⟩ := hts
    refine ⟨gate_same n sh _ pcs t _ hlt hgI rfl rfl rfl (by rw [hgp]; rfl),
      rl_same n sh _ pcs t _ hlt hrI rfl (by rw [hrp]; rfl), ?_, hgrp, hwg⟩
    have := hC (.glk o (if blocking o then .m0cas else .t0cas)); simp [cntR] at this; simp only []; omega
  next hbusy =>
  split at hts
  next hbl =>
    split at hts
    · contradiction
    next g' p' hm =>
      simp only [Option.some.injEq, Prod.mk.injEq] at hts; obtain ⟨rfl, rfl⟩ := hts
      refine ⟨gate_step n sh _ pcs t _ .go hlt hgI (by rw [hgp, if_pos hbl, hm]; rfl) rfl rfl,
        rl_same n sh _ pcs t _ hlt hrI rfl (by rw [hrp]; rfl), ?_, hgrp, hwg⟩
      have := hC (.glk o p'); simp [cntR] at this; simp only []; omega
  next hnb =>
    have hm : Mutex.tstep sh.g t .t0cas .go = some (sh.g, .idle) := by simp [Mutex.tstep, hbusy]
    cases o <;> simp only [blocking, not_true_eq_false] at hnb <;>
      simp only [notAcquired, Option.some.injEq, Prod.mk.injEq] at hts <;> obtain ⟨rfl, rfl⟩ := hts
    case tryRead =>
      refine ⟨gate_step n sh _ pcs t _ .go hlt hgI (by rw [hgp]; exact hm) rfl rfl,
        rl_step n sh _ pcs t _ .unlock hlt hrI (by rw [hrp]; rfl), ?_, hgrp, hwg⟩
      have := hC (.rul .tryRead 0 (.p0fadd .fin)); simp [cntR] at this; simp only []; omega
    all_goals
      refine ⟨gate_step n sh _ pcs t .idle .go hlt hgI (by rw [hgp]; exact hm) rfl rfl,
        rl_same n sh _ pcs t _ hlt hrI rfl (by rw [hrp]; rfl), ?_, hgrp, hwg⟩
      have := hC .idle; simp [cntR] at this; simp only []; omega

end MayVerif.RwLock
