import MayVerif.Proof.Sync.RwLock.Inv
set_option linter.unusedSimpArgs false
namespace MayVerif.RwLock
open MayVerif.Mutex (upd)

theorem inv_rlp (n : Nat) (sh : Sh) (pcs : Nat → Pc) (t : Nat) (e : Env) (o : Op) (hlt : t < n)
    (h : Inv ⟨n, sh, pcs⟩) (hpc : pcs t = .rlp o) (sh' : Sh) (pc' : Pc)
    (hts : tstepG false sh t (.rlp o) e = some (sh', pc')) : Inv ⟨n, sh', upd pcs t pc'⟩ := by
  obtain ⟨hgI, hrI, hrc, hgrp, hwg⟩ := h
  simp only at hrc hgrp hwg
  have hC := fun v => cntP_upd n cntR pcs t v hlt
  rw [hpc] at hC
  simp only [cntR] at hC
  have hgp : gpc (pcs t) = .idle := by rw [hpc]; rfl
  have hrp : rpc (pcs t) = .held := by rw [hpc]; rfl
  simp only [tstepG, Bool.false_and, Bool.false_eq_true, if_false] at hts
  split at hts
  next hd =>
    subst hd
    simp only [beq_self_eq_true, if_true] at hC
    split at hts
    · contradiction
    next hpos =>
    split at hts
    next h1 =>
      -- the last reader leaves: gate unlock() on behalf of the reader group
      simp only [Option.some.injEq, Prod.mk.injEq] at hts; obtain ⟨rfl, rfl⟩ := hts
      have hg0 : sh.grp = true := hgrp.mpr (by omega)
      refine ⟨gate_from_G n sh _ pcs t _ hlt hgI hgp rfl rfl rfl hg0 rfl,
        rl_same n sh _ pcs t _ hlt hrI rfl (by rw [hrp]; rfl), ?_, ?_, hwg⟩
      · have := hC (.gul .dropR (.p0fadd .fin)); simp [cntR] at this; simp only []; omega
      · simp
    next h1 =>
      simp only [Option.some.injEq, Prod.mk.injEq] at hts; obtain ⟨rfl, rfl⟩ := hts
      refine ⟨gate_same n sh _ pcs t _ hlt hgI rfl rfl rfl (by rw [hgp]; rfl),
        rl_step n sh _ pcs t _ .unlock hlt hrI (by rw [hrp]; rfl), ?_, ?_, hwg⟩
      · have := hC (.rul .dropR 0 (.p0fadd .fin)); simp [cntR] at this; simp only []; omega
      · simp only []; constructor
        · intro _; omega
        · intro _; exact hgrp.mpr (by omega)
  next hd =>
  split at hts
  next hr =>
    have hnd : (o == Op.dropR) = false := by cases o <;> simp_all
    simp only [hnd, Bool.false_eq_true, if_false] at hC
    split at hts
    next h0 =>
      -- first reader: go for the gate
      simp only [Option.some.injEq, Prod.mk.injEq] at hts; obtain ⟨rfl, rfl⟩ := hts
      refine ⟨?_, rl_same n sh _ pcs t _ hlt hrI rfl (by rw [hrp]; simp [rpc, hr]), ?_, hgrp, hwg⟩
      · cases hb : blocking o
        · exact gate_step n sh _ pcs t _ .startTry hlt hgI (by rw [hgp]; simp [gpc, hb, Mutex.tstep]) rfl rfl
        · exact gate_step n sh _ pcs t _ .startLock hlt hgI (by rw [hgp]; simp [gpc, hb, Mutex.tstep]) rfl rfl
      · have := hC (.gld o); simp [cntR] at this; simp only []; omega
    next h0 =>
      simp only [Option.some.injEq, Prod.mk.injEq] at hts; obtain ⟨rfl, rfl⟩ := hts
      refine ⟨gate_same n sh _ pcs t _ hlt hgI rfl rfl rfl (by rw [hgp]; simp [gpc, hr]),
        rl_same n sh _ pcs t _ hlt hrI rfl (by rw [hrp]; simp [rpc, hr]), ?_, ?_, hwg⟩
      · have := hC (.psn o); simp [cntR, hr] at this; simp only []; omega
      · simp only []; constructor
        · intro _; omega
        · intro _; exact hgrp.mpr (by omega)
  next => contradiction

end MayVerif.RwLock
