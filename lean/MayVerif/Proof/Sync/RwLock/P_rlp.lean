import MayVerif.Proof.Sync.RwLock.Inv
set_option linter.unusedSimpArgs false
namespace MayVerif.RwLock
open MayVerif.Mutex (upd)

theorem inv_rlp (n : Nat) (sh : Sh) (pcs : Nat → Pc) (t : Nat) (e : Env) (o : Op) (hlt : t < n)
    (h : Inv ⟨n, sh, pcs⟩) (hpc : pcs t = .rlp o) (sh' : Sh) (pc' : Pc)
    (hts : tstepG false sh t (.rlp o) e = some (sh', pc')) : Inv ⟨n, sh', upd pcs t pc'⟩ := by
  obtain ⟨hgI, hrI, hrc, hgrp, hwg⟩ := h
  simp only at hrc hgrp hwg
  have hC := fun v => cntP_upd n cntR pcs t v hlt
  rw [hpc] at hC
  simp only [cntR] at hC
  have hgp : gpc (pcs t) = .idle := by rw [hpc]; rfl
  have hrp : rpc (pcs t) = .held := by rw [hpc]; rfl
  simp only [tstepG] at hts
  split at hts
  next hd =>
    subst hd
    simp only [Option.some.injEq, Prod.mk.injEq] at hts; obtain ⟨rfl, rfl⟩ := hts
    refine ⟨gate_same n sh _ pcs t _ hlt hgI rfl rfl rfl (by rw [hgp]; rfl),
      rl_same n sh _ pcs t _ hlt hrI rfl (by rw [hrp]; rfl), ?_, hgrp, hwg⟩
    have := hC .rdec; simp [cntR] at this; simp only []; omega
  next hd =>
  split at hts
  next hr =>
    have hnd : (o == Op.dropR) = false := by cases o <;> simp_all
    simp only [Option.some.injEq, Prod.mk.injEq] at hts; obtain ⟨rfl, rfl⟩ := hts
    refine ⟨gate_same n sh _ pcs t _ hlt hgI rfl rfl rfl (by rw [hgp]; rfl),
      rl_same n sh _ pcs t _ hlt hrI rfl (by rw [hrp]; rfl), ?_, hgrp, hwg⟩
    have := hC (.rld o); simp [cntR, hnd] at this; simp only []; omega
  next => contradiction

end MayVerif.RwLock
