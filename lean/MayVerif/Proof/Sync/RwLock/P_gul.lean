import MayVerif.Proof.Sync.RwLock.Inv
set_option linter.unusedSimpArgs false
namespace MayVerif.RwLock
open MayVerif.Mutex (upd)

theorem inv_gul (n : Nat) (sh : Sh) (pcs : Nat → Pc) (t : Nat) (e : Env) (o : Op) (p : Mutex.Pc) (hlt : t < n)
    (h : Inv ⟨n, sh, pcs⟩) (hpc : pcs t = .gul o p) (sh' : Sh) (pc' : Pc)
    (hts : tstepG false sh t (.gul o p) e = some (sh', pc')) : Inv ⟨n, sh', upd pcs t pc'⟩ := by
  obtain ⟨hgI, hrI, hrc, hgrp, hwg⟩ := h
  simp only at hrc hgrp hwg
  have hC := fun v => cntP_upd n cntR pcs t v hlt
  rw [hpc] at hC
  simp only [cntR] at hC
  have hgp : gpc (pcs t) = p := by rw [hpc]; rfl
  have hrp : rpc (pcs t) = if o = .dropR then .held else .idle := by rw [hpc]; rfl
  simp only [tstepG] at hts
  split at hts
  · contradiction
  next g' p' hm =>
  split at hts
  next hidle =>
    split at hts
    next hd =>
      simp only [Option.some.injEq, Prod.mk.injEq] at hts; obtain ⟨rfl, rfl⟩ := hts
      refine ⟨gate_step n sh _ pcs t _ (menvG e) hlt hgI (by rw [hgp, hm, hidle]; rfl) rfl rfl,
        rl_step n sh _ pcs t _ .unlock hlt hrI (by rw [hrp, if_pos hd]; rfl), ?_, hgrp, hwg⟩
      have := hC (.rul .dropR 0 (.p0fadd .fin)); simp [cntR] at this; simp only []; omega
    next hd =>
      simp only [Option.some.injEq, Prod.mk.injEq] at hts; obtain ⟨rfl, rfl⟩ := hts
      refine ⟨gate_step n sh _ pcs t _ (menvG e) hlt hgI (by rw [hgp, hm, hidle]; rfl) rfl rfl,
        rl_same n sh _ pcs t _ hlt hrI rfl (by rw [hrp, if_neg hd]; rfl), ?_, hgrp, hwg⟩
      have := hC .idle; simp [cntR] at this; simp only []; omega
  next hni =>
    simp only [Option.some.injEq, Prod.mk.injEq] at hts; obtain ⟨rfl, rfl⟩ := hts
    refine ⟨gate_step n sh _ pcs t _ (menvG e) hlt hgI (by rw [hgp, hm]; rfl) rfl rfl,
      rl_same n sh _ pcs t _ hlt hrI rfl (by rw [hrp]; rfl), ?_, hgrp, hwg⟩
    have := hC (.gul o p'); simp [cntR] at this; simp only []; omega

end MayVerif.RwLock
