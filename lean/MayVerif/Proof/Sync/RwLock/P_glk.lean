import MayVerif.Proof.Sync.RwLock.Inv
set_option linter.unusedSimpArgs false
namespace MayVerif.RwLock
open MayVerif.Mutex (upd)

theorem inv_glk (n : Nat) (sh : Sh) (pcs : Nat → Pc) (t : Nat) (e : Env) (o : Op) (p : Mutex.Pc) (hlt : t < n)
    (h : Inv ⟨n, sh, pcs⟩) (hpc : pcs t = .glk o p) (sh' : Sh) (pc' : Pc)
    (hts : tstepG false sh t (.glk o p) e = some (sh', pc')) : Inv ⟨n, sh', upd pcs t pc'⟩ := by
  obtain ⟨hgI, hrI, hrc, hgrp, hwg⟩ := h
  simp only at hrc hgrp hwg
  have hC := fun v => cntP_upd n cntR pcs t v hlt
  rw [hpc] at hC
  simp only [cntR] at hC
  have hgp : gpc (pcs t) = p := by rw [hpc]; rfl
  have hrp : rpc (pcs t) = if reader o then .held else .idle := by rw [hpc]; rfl
  simp only [tstepG, Bool.false_and, Bool.false_eq_true, if_false] at hts
  split at hts
  · contradiction
  next g' p' hm =>
  split at hts
  next hheld =>
    -- the gate is acquired
    cases hr : reader o
    · simp only [acquired, hr, Bool.false_eq_true, if_false, Option.some.injEq, Prod.mk.injEq] at hts
      obtain ⟨rfl, rfl⟩ := hts
      refine ⟨gate_step n sh _ pcs t _ (menvG e) hlt hgI (by rw [hgp, hm, hheld]; simp [gpc, hr]) rfl rfl,
        rl_same n sh _ pcs t _ hlt hrI rfl (by rw [hrp]; simp [rpc, hr]), ?_, hgrp, hwg⟩
      have := hC (.psn o); simp [cntR, hr] at this; simp only []; omega
    · -- a reader has taken the gate: it holds it itself until its `*r += 1`
      simp only [acquired, hr, Bool.false_and, Bool.false_eq_true, if_false, if_true, Option.some.injEq, Prod.mk.injEq] at hts
      obtain ⟨rfl, rfl⟩ := hts
      refine ⟨gate_step n sh _ pcs t _ (menvG e) hlt hgI (by rw [hgp, hm, hheld]; rfl) rfl rfl,
        rl_same n sh _ pcs t _ hlt hrI rfl (by rw [hrp]; simp [rpc, hr]), ?_, hgrp, hwg⟩
      have := hC (.rinc o true); simp [cntR] at this; simp only []; omega
  next hnh =>
  split at hts
  next hidle =>
    -- try_lock lost (WouldBlock) / lock() was cancelled
    have hg := fun pc'' (hq : gpc pc'' = .idle) => gate_step n sh { sh with g := g' } pcs t pc'' (menvG e) hlt hgI (by rw [hgp, hm, hidle, hq]) rfl rfl
    cases o <;> simp only [notAcquired, Option.some.injEq, Prod.mk.injEq] at hts <;> obtain ⟨rfl, rfl⟩ := hts
    case read =>
      refine ⟨hg _ rfl, rl_step n sh _ pcs t _ .unlock hlt hrI (by rw [hrp]; rfl), ?_, hgrp, hwg⟩
      have := hC (.rul .read 3 (.p0fadd .fin)); simp [cntR] at this; simp only []; omega
    case tryRead =>
      refine ⟨hg _ rfl, rl_step n sh _ pcs t _ .unlock hlt hrI (by rw [hrp]; rfl), ?_, hgrp, hwg⟩
      have := hC (.rul .tryRead 0 (.p0fadd .fin)); simp [cntR] at this; simp only []; omega
    all_goals
      refine ⟨gate_step n sh _ pcs t .idle (menvG e) hlt hgI (by rw [hgp, hm, hidle]; rfl) rfl rfl,
        rl_same n sh _ pcs t _ hlt hrI rfl (by rw [hrp]; rfl), ?_, hgrp, hwg⟩
      have := hC .idle; simp [cntR] at this; simp only []; omega
  next hni =>
    simp only [Option.some.injEq, Prod.mk.injEq] at hts; obtain ⟨rfl, rfl⟩ := hts
    refine ⟨gate_step n sh _ pcs t _ (menvG e) hlt hgI (by rw [hgp, hm]; rfl) rfl rfl,
      rl_same n sh _ pcs t _ hlt hrI rfl (by rw [hrp]; rfl), ?_, hgrp, hwg⟩
    have := hC (.glk o p'); simp [cntR] at this; simp only []; omega

end MayVerif.RwLock
