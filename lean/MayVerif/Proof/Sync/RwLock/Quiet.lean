/-
  Consequences of the invariant used by `Props/C12.lean`: facts about the Mutex components that hold in every state
  satisfying `Mutex.Inv` (the C05 theorems are stated for `run (init n 1) sched` only), and the link lemmas between
  RwLock program points and the projections.
-/
import MayVerif.Proof.Sync.RwLock.Step
namespace MayVerif.RwLock
open MayVerif.Mutex (upd)

section
open MayVerif.Mutex

/-- quiescence form of "no lost wake-up", for any state satisfying the Mutex invariant (proof as in `Props/C05.lean`) -/
theorem mutex_no_stranded_of_inv (s : Mutex.St) (h : Mutex.Inv s)
    (hq : ∀ t, t < s.n → s.pcs t = .idle ∨ s.pcs t = .held ∨ ∃ b, s.pcs t = .w5park b)
    (hfree : s.sh.cnt > 0) (t : Nat) (ht : t < s.n) (b : Nat) (hp : s.pcs t = .w5park b) : s.sh.tok b = true := by
  have hF0 : cntOf s.n atFsub s.pcs = 0 := by
    apply cntOf_zero_of; intro u hu
    rcases hq u hu with h0 | h0 | ⟨b', h0⟩ <;> simp [h0, atFsub]
  have hP0 : cntOf s.n atPop s.pcs = 0 := by
    apply cntOf_zero_of; intro u hu
    rcases hq u hu with h0 | h0 | ⟨b', h0⟩ <;> simp [h0, atPop]
  have hcb := h.cb; have hc1 := h.c1; have hc2 := h.c2; have hc3 := h.c3
  have hqe : s.sh.q.length = 0 := by
    have : (if s.sh.cnt < 0 then - s.sh.cnt else 0) = 0 := by split <;> omega
    omega
  have hqnil : s.sh.q = [] := List.eq_nil_of_length_eq_zero hqe
  have hv0 : s.sh.vph b ≠ .v0 := by
    have := h.n1 t b (by simp [hp, owns]) (by simp [hp, notPushed])
    simpa [hqnil] using this
  have hmid : ¬ (s.sh.vph b = .v1 ∨ s.sh.vph b = .v2 ∨ s.sh.vph b = .v3) := by
    intro hm
    obtain ⟨hw, hwn⟩ := h.n2 b hm
    have hnq := wakes_not_quiet _ _ hw
    rcases hq (s.sh.wk b) hwn with h0 | h0 | ⟨b', h0⟩
    · exact hnq.1 h0
    · exact hnq.2.1 h0
    · exact hnq.2.2 b' h0
  have hv4 : s.sh.vph b = .v4 := by
    cases hv : s.sh.vph b <;> simp_all
  exact h.n3 t b (by simp [hp, owns]) (Or.inr (Or.inr hv4))

/-- `expect("got null blocker!")` cannot fire in a state satisfying the Mutex invariant -/
theorem mutex_pop_nonempty_of_inv (s : Mutex.St) (h : Mutex.Inv s) (t : Nat) (ht : t < s.n)
    (hp : atPop (s.pcs t) = true) : s.sh.q ≠ [] := by
  have hpos : 0 < cntOf s.n atPop s.pcs := by
    unfold cntOf
    apply List.countP_pos_iff.mpr
    exact ⟨t, List.mem_range.mpr ht, hp⟩
  have hcb := h.cb; have hc1 := h.c1; have hc2 := h.c2; have hc3 := h.c3
  intro hq
  have : s.sh.q.length = 0 := by simp [hq]
  have hN : (0 : Int) ≤ (if s.sh.cnt < 0 then - s.sh.cnt else 0) := by split <;> omega
  omega

/-- quiescent and not free: the permit sits in the delivered, unconsumed token of a parked waiter
    (the argument of `mutex_deadlock_free` in `Props/C05.lean`, for any state satisfying the invariant) -/
theorem mutex_permit_in_parked_token (s : Mutex.St) (h : Mutex.Inv s)
    (hq : ∀ t, t < s.n → s.pcs t = .idle ∨ ∃ b, s.pcs t = .w5park b) (hc : ¬ s.sh.cnt > 0) :
    ∃ t b, t < s.n ∧ s.pcs t = .w5park b ∧ s.sh.tok b = true := by
  have hC0 : cntOf s.n carrierA s.pcs = 0 := by
    apply cntOf_zero_of; intro u hu
    rcases hq u hu with h0 | ⟨b', h0⟩ <;> simp [h0, carrierA]
  have he1 := h.e1
  have hpb : s.sh.pb.isSome = true := by
    by_cases hx : s.sh.pb.isSome = true
    · exact hx
    · simp [hC0, hx] at he1; omega
  obtain ⟨b, hb⟩ := Option.isSome_iff_exists.mp hpb
  obtain ⟨htok, hduty⟩ := h.e2 b hb
  have hv : s.sh.vph b = .v2 ∨ s.sh.vph b = .v3 ∨ s.sh.vph b = .v4 := h.n5 b htok
  have hmid : ¬ (s.sh.vph b = .v1 ∨ s.sh.vph b = .v2 ∨ s.sh.vph b = .v3) := by
    intro hm
    obtain ⟨hw, hwn⟩ := h.n2 b hm
    have hnq := wakes_not_quiet _ _ hw
    rcases hq (s.sh.wk b) hwn with h0 | ⟨b', h0⟩
    · exact hnq.1 h0
    · exact hnq.2.2 b' h0
  have hv4 : s.sh.vph b = .v4 := by
    rcases hv with h2 | h3 | h4
    · exact absurd (Or.inr (Or.inl h2)) hmid
    · exact absurd (Or.inr (Or.inr h3)) hmid
    · exact h4
  have hcons : s.sh.cons b = false := by
    cases hc : s.sh.cons b
    · rfl
    · have := (h.k1 b hc).1; simp [htok] at this
  have ha5 : s.sh.aph b ≠ .a5 := by
    intro ha
    have hok := h.ok b
    rw [ha, hv4] at hok
    have := ok_final _ _ _ hok
    simp [hduty] at this
  have hbN : b < s.sh.nextB := by
    cases Nat.lt_or_ge b s.sh.nextB with
    | inl hlt => exact hlt
    | inr hge =>
      have := (h.virgin b hge).2.1
      rw [hv4] at this; cases this
  obtain ⟨hown, hownn⟩ := h.o1 b hbN ha5 hcons
  rcases hq (s.sh.own b) hownn with h0 | ⟨b', h0⟩
  · simp [h0, owns] at hown
  · have : b' = b := by simpa [h0, owns] using hown
    subst this
    exact ⟨s.sh.own b', b', hownn, h0, htok⟩

/-- nobody inside lock()/unlock() and nobody holding: the lock is free and the waiter queue is empty -/
theorem mutex_free_of_all_idle (s : Mutex.St) (h : Mutex.Inv s) (hq : ∀ t, t < s.n → s.pcs t = .idle) :
    s.sh.cnt = 1 ∧ s.sh.q = [] := by
  have hc : s.sh.cnt > 0 := by
    by_cases hc : s.sh.cnt > 0
    · exact hc
    · obtain ⟨t, b, ht, hp, _⟩ := mutex_permit_in_parked_token s h (fun t ht => Or.inl (hq t ht)) hc
      rw [hq t ht] at hp; contradiction
  have hg4 := h.g4
  refine ⟨by omega, ?_⟩
  have hF0 : cntOf s.n atFsub s.pcs = 0 := by
    apply cntOf_zero_of; intro u hu; simp [hq u hu, atFsub]
  have hP0 : cntOf s.n atPop s.pcs = 0 := by
    apply cntOf_zero_of; intro u hu; simp [hq u hu, atPop]
  have hcb := h.cb; have hc1 := h.c1; have hc2 := h.c2; have hc3 := h.c3
  have : (if s.sh.cnt < 0 then - s.sh.cnt else 0) = 0 := by split <;> omega
  have hlen : s.sh.q.length = 0 := by omega
  exact List.eq_nil_of_length_eq_zero hlen

end

/-- the actor is inside the rlock critical section: the only place where `*r` is read or written -/
def inRlock : Pc → Bool
  | .rlp _ | .rld _ | .rinc _ _ | .rdec | .rck _ => true
  | .gld o | .glk o _ | .psn o => reader o
  | .gul o _ => o == .dropR
  | _ => false

theorem inRlock_held (pc : Pc) (h : inRlock pc = true) : rpc pc = .held := by
  cases pc <;> simp_all [inRlock, rpc]

/-- the actor is blocked on the gate (inside `lock()` of read / write) resp. on rlock, with blocker `b` -/
def parkedGate : Pc → Option Nat
  | .glk _ (.w5park b) => some b
  | _ => none
def parkedRlock : Pc → Option Nat
  | .rlk _ (.w5park b) => some b
  | _ => none
/-- nobody is in the middle of an operation: every actor is idle or parked -/
def quiet (pc : Pc) : Bool := pc == .idle || (parkedGate pc).isSome || (parkedRlock pc).isSome

theorem quiet_gpc (pc : Pc) (h : quiet pc = true) : gpc pc = .idle ∨ gpc pc = .held ∨ ∃ b, gpc pc = .w5park b := by
  cases pc <;> simp_all [quiet, parkedGate, parkedRlock, gpc]
  next o p => cases p <;> simp_all

theorem quiet_rpc (pc : Pc) (h : quiet pc = true) : rpc pc = .idle ∨ rpc pc = .held ∨ ∃ b, rpc pc = .w5park b := by
  cases pc <;> simp_all [quiet, parkedGate, parkedRlock, rpc]
  next o p => cases p <;> simp_all
  next o p => cases hr : reader o <;> simp [hr]

/-- on a free gate with no write guard outstanding, `try_write()` of an idle actor runs through (load, CAS, poison load) and
    hands out a write guard -/
theorem try_write_succeeds (s : St) (t : Nat) (ht : t < s.n) (hp : s.pcs t = .idle) (hc : s.sh.g.cnt = 1) (hw : s.sh.WG = 0) :
    (run s [(t, .tryWrite), (t, .go), (t, .go), (t, .go)]).sh.WG = 1 := by
  obtain ⟨n, sh, pcs⟩ := s
  simp only at ht hp hc hw
  simp [run, runG, stepG, tstepG, ht, hp, upd, hc, hw, Mutex.tstep, acquired, reader, blocking]

/-- `k` plain steps of actor `t` (for writing schedules; steps of an actor that has gone idle are disabled and skipped) -/
def gos (t k : Nat) : List (Nat × Env) := List.replicate k (t, .go)

theorem quiet_gpc' (pc : Pc) (h : quiet pc = true) :
    gpc pc = .idle ∨ ∃ b, gpc pc = .w5park b ∧ parkedGate pc = some b := by
  cases pc <;> simp_all [quiet, parkedGate, parkedRlock, gpc]
  next o p => cases p <;> simp_all

theorem quiet_rpc' (pc : Pc) (h : quiet pc = true) (hw : waitsGate pc = false) :
    rpc pc = .idle ∨ ∃ b, rpc pc = .w5park b ∧ parkedRlock pc = some b := by
  cases pc <;> simp_all [quiet, parkedGate, parkedRlock, rpc, waitsGate]
  next o p => cases p <;> simp_all

theorem quiet_waits (pc : Pc) (h : quiet pc = true) (hw : waitsGate pc = true) : ∃ b, parkedGate pc = some b := by
  cases pc <;> simp_all [quiet, parkedGate, parkedRlock, waitsGate]
  next o p => cases p <;> simp_all

theorem quiet_cntR (pc : Pc) (h : quiet pc = true) (hc : cntR pc = true) : ∃ b, parkedRlock pc = some b := by
  cases pc <;> simp_all [quiet, parkedGate, parkedRlock, cntR]
  next o p => cases p <;> simp_all

theorem quiet_cases (pc : Pc) (h : quiet pc = true) : pc = .idle ∨ (∃ b, parkedGate pc = some b) ∨ (∃ b, parkedRlock pc = some b) := by
  cases pc <;> simp_all [quiet, parkedGate, parkedRlock]
  next o p => cases p <;> simp_all
  next o p => cases p <;> simp_all

end MayVerif.RwLock
