/-
  Local knowledge of the rlock holder: what an actor inside its rlock section knows about the reader count from the
  accesses it has made, and which stays true because nobody else touches the count meanwhile (mutual exclusion of the
  rlock sections = C05 for the rlock component):

    * inside the gate's `lock()` / `try_lock()` on behalf of `read()` / `try_read()`  : r = 0
      ("a reader that holds rlock and goes for the gate waits for a writer, never for the reader group")
    * at `*r += 1` : r = 0 for the reader that has just taken the gate, r > 0 for the others
    * at `if *r == 0` of read_unlock : r = 0 iff this reader's decrement went to 0
  plus one fact that does not involve the count: the `rlock.lock()` of a read guard's drop (cancellation disabled, fix F1c)
  never is on the cancel path of `Mutex::lock`, so it always ends with the lock.
-/
import MayVerif.Proof.Sync.RwLock.Inv
set_option linter.unusedSimpArgs false
namespace MayVerif.RwLock
open MayVerif.Mutex (upd)

/-- the program points of `Mutex::lock` that are reachable when every cancel is ignored (`b_ignore`): no abort path, no
    continuation that ends the call without the lock -/
def okD : Mutex.Pc → Bool
  | .m0cas | .w1push _ | .w2fsub _ | .w5park _ | .i6load _ => true
  | .w3pop (.toPark _) | .wake1 _ (.toPark _) | .wake2 _ (.toPark _) | .wake3 _ (.toPark _) | .p0fadd (.toPark _) => true
  | _ => false

theorem okD_step (sh : Mutex.Sh) (t : Nat) (p : Mutex.Pc) (e : Mutex.Env) (sh' : Mutex.Sh) (p' : Mutex.Pc)
    (h : okD p = true) (he : e = .go ∨ e = .abortIgnore) (hm : Mutex.tstep sh t p e = some (sh', p')) :
    p' = .held ∨ okD p' = true := by
  cases p <;> (try cases ‹Mutex.K›) <;> simp [okD] at h <;> rcases he with rfl | rfl <;> simp only [Mutex.tstep, Mutex.contK] at hm <;>
    (repeat' split at hm) <;> (try contradiction) <;> (try simp only [Option.some.injEq, Prod.mk.injEq] at hm) <;>
    (try (obtain ⟨_, rfl⟩ := hm)) <;> simp_all [okD]

theorem menvD_cases (e : Env) : menvD e = .go ∨ menvD e = .abortIgnore := by
  cases e <;> simp [menvD]

def loc : Pc → Int → Prop
  | .rlk o p, _ => o = .dropR → okD p = true
  | .gld o, r => reader o = true → r = 0
  | .glk o _, r => reader o = true → r = 0
  | .rinc _ first, r => if first then r = 0 else 0 < r
  | .rck last, r => if last then r = 0 else 0 < r
  | _, _ => True

def LK (s : St) : Prop := ∀ u, u < s.n → loc (s.pcs u) s.sh.r

/-- knowledge about the count is only ever held inside an rlock section -/
theorem loc_indep (pc : Pc) (r r' : Int) (h : loc pc r) : loc pc r' ∨ rpc pc = .held := by
  cases pc <;> simp_all [loc, rpc]
  next o => cases hr : reader o <;> simp_all
  next o p => cases hr : reader o <;> simp_all

/-- every step keeps / establishes the acting actor's knowledge, and changes the count only from inside an rlock section -/
theorem step_loc (sh : Sh) (t : Nat) (pc : Pc) (e : Env) (sh' : Sh) (pc' : Pc)
    (hts : tstepG false sh t pc e = some (sh', pc')) (hk : loc pc sh.r) (hnn : 0 ≤ sh.r) :
    loc pc' sh'.r ∧ (sh'.r = sh.r ∨ rpc pc = .held) := by
  cases pc with
  | idle =>
    cases e <;> simp only [tstepG] at hts <;> (try contradiction) <;> (try split at hts) <;> (try contradiction) <;>
      simp only [Option.some.injEq, Prod.mk.injEq] at hts <;> obtain ⟨rfl, rfl⟩ := hts <;>
      refine ⟨?_, Or.inl rfl⟩ <;> (try split) <;> simp [loc, reader, okD]
  | isp => simp only [tstepG, Option.some.injEq, Prod.mk.injEq] at hts; obtain ⟨rfl, rfl⟩ := hts; simp [loc]
  | wpo => simp only [tstepG, Option.some.injEq, Prod.mk.injEq] at hts; obtain ⟨rfl, rfl⟩ := hts; simp [loc]
  | glp o => simp [tstepG] at hts
  | rlk o p =>
    simp only [tstepG, Bool.not_false, Bool.true_and] at hts
    split at hts
    · contradiction
    next rl' p' hm =>
    have hd : o = .dropR → (p' = .held ∨ okD p' = true) := by
      intro ho; subst ho
      simp only [beq_self_eq_true, if_true] at hm
      exact okD_step _ _ _ _ _ _ (hk rfl) (menvD_cases e) hm
    (repeat' split at hts) <;> (try contradiction) <;>
      simp only [Option.some.injEq, Prod.mk.injEq] at hts <;> obtain ⟨rfl, rfl⟩ := hts <;>
      refine ⟨?_, Or.inl rfl⟩ <;> simp only [loc] <;> (try trivial)
    intro ho
    rcases hd ho with h1 | h1
    · contradiction
    · exact h1
  | rul o v p =>
    simp only [tstepG] at hts
    split at hts
    · contradiction
    · (repeat' split at hts) <;> simp only [Option.some.injEq, Prod.mk.injEq] at hts <;> obtain ⟨rfl, rfl⟩ := hts <;>
        simp [loc]
  | gul o p =>
    simp only [tstepG] at hts
    split at hts
    · contradiction
    · (repeat' split at hts) <;> simp only [Option.some.injEq, Prod.mk.injEq] at hts <;> obtain ⟨rfl, rfl⟩ := hts <;>
        simp [loc]
  | psn o =>
    simp only [tstepG, Bool.false_and, Bool.false_eq_true, if_false] at hts
    split at hts <;> simp only [Option.some.injEq, Prod.mk.injEq] at hts <;> obtain ⟨rfl, rfl⟩ := hts <;> simp [loc]
  | rlp o =>
    simp only [tstepG] at hts
    (repeat' split at hts) <;> (try contradiction) <;>
      simp only [Option.some.injEq, Prod.mk.injEq] at hts <;> obtain ⟨rfl, rfl⟩ := hts <;> simp [loc]
  | rld o =>
    simp only [tstepG, Bool.false_and, Bool.false_eq_true, if_false] at hts
    split at hts
    · split at hts
      next h0 =>
        simp only [Option.some.injEq, Prod.mk.injEq] at hts; obtain ⟨rfl, rfl⟩ := hts
        exact ⟨fun _ => h0, Or.inl rfl⟩
      next h0 =>
        simp only [Option.some.injEq, Prod.mk.injEq] at hts; obtain ⟨rfl, rfl⟩ := hts
        exact ⟨by simp only [loc, Bool.false_eq_true, if_false]; omega, Or.inl rfl⟩
    · contradiction
  | rinc o first =>
    simp only [tstepG, Bool.false_and, Bool.false_eq_true, if_false] at hts
    split at hts
    · simp only [Option.some.injEq, Prod.mk.injEq] at hts; obtain ⟨rfl, rfl⟩ := hts
      exact ⟨by simp [loc], Or.inr rfl⟩
    · contradiction
  | rdec =>
    simp only [tstepG] at hts
    split at hts
    · contradiction
    next hpos =>
      simp only [Option.some.injEq, Prod.mk.injEq] at hts; obtain ⟨rfl, rfl⟩ := hts
      refine ⟨?_, Or.inr rfl⟩
      by_cases h1 : sh.r = 1 <;> simp [loc, h1] <;> omega
  | rck last =>
    simp only [tstepG] at hts
    (repeat' split at hts) <;> (try contradiction) <;>
      simp only [Option.some.injEq, Prod.mk.injEq] at hts <;> obtain ⟨rfl, rfl⟩ := hts <;> simp [loc]
  | gld o =>
    simp only [tstepG] at hts
    split at hts
    · simp only [Option.some.injEq, Prod.mk.injEq] at hts; obtain ⟨rfl, rfl⟩ := hts
      exact ⟨hk, Or.inl rfl⟩
    · split at hts
      · split at hts
        · contradiction
        · simp only [Option.some.injEq, Prod.mk.injEq] at hts; obtain ⟨rfl, rfl⟩ := hts
          exact ⟨hk, Or.inl rfl⟩
      · cases o <;> simp only [notAcquired, Option.some.injEq, Prod.mk.injEq] at hts <;> obtain ⟨rfl, rfl⟩ := hts <;>
          simp [loc]
  | glk o p =>
    simp only [tstepG, Bool.false_and, Bool.false_eq_true, if_false] at hts
    split at hts
    · contradiction
    next g' p' hm =>
    split at hts
    · cases hr : reader o
      · simp only [acquired, hr, Bool.false_eq_true, if_false, Option.some.injEq, Prod.mk.injEq] at hts
        obtain ⟨rfl, rfl⟩ := hts
        simp [loc]
      · simp only [acquired, hr, Bool.false_and, Bool.false_eq_true, if_false, if_true, Option.some.injEq, Prod.mk.injEq] at hts
        obtain ⟨rfl, rfl⟩ := hts
        exact ⟨by simp only [loc, if_true]; exact hk hr, Or.inl rfl⟩
    · split at hts
      · cases o <;> simp only [notAcquired, Option.some.injEq, Prod.mk.injEq] at hts <;> obtain ⟨rfl, rfl⟩ := hts <;>
          simp [loc]
      · simp only [Option.some.injEq, Prod.mk.injEq] at hts; obtain ⟨rfl, rfl⟩ := hts
        exact ⟨hk, Or.inl rfl⟩

theorem lk_step (s s' : St) (t : Nat) (e : Env) (h : Inv s) (hk : LK s) (hs : step s t e = some s') : LK s' := by
  obtain ⟨n, sh, pcs⟩ := s
  have hnn : 0 ≤ sh.r := by have := h.rc; simp only at this; omega
  simp only [step, stepG] at hs
  split at hs
  case isFalse => contradiction
  next hlt =>
  split at hs
  · contradiction
  next sh' pc' hts =>
  simp only [Option.some.injEq] at hs
  subst hs
  intro u hu
  simp only at hu hlt ⊢
  obtain ⟨hme, hch⟩ := step_loc sh t (pcs t) e sh' pc' hts (hk t hlt) hnn
  by_cases hut : u = t
  · subst hut; simp only [upd, if_true]; exact hme
  · simp only [upd, if_neg hut]
    rcases hch with hr | hheld
    · rw [hr]; exact hk u hu
    · rcases loc_indep (pcs u) sh.r sh'.r (hk u hu) with htriv | hheldu
      · exact htriv
      · -- `u` would hold rlock as well
        exfalso
        have := h.rI.g1 t u (by simp [projR, pR_at _ _ _ hlt, hheld, Mutex.carrierA])
          (by simp [projR, pR_at _ _ _ hu, hheldu, Mutex.carrierA])
        exact hut this.symm

theorem lk_init (n : Nat) (p : Bool) : LK (init n p) := by
  intro u _; simp [init, loc]

/-- the actor holds rlock and is inside the gate's `lock()` / `try_lock()` on behalf of a reader -/
def waitsGate : Pc → Bool
  | .gld o => reader o
  | .glk o _ => reader o
  | _ => false

theorem waitsGate_loc (pc : Pc) (r : Int) (hw : waitsGate pc = true) (hl : loc pc r) : r = 0 := by
  cases pc <;> simp_all [waitsGate, loc]

end MayVerif.RwLock
