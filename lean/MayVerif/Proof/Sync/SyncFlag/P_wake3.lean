import MayVerif.Proof.Sync.SyncFlag.Inv
namespace MayVerif.SyncFlag

set_option linter.unusedVariables false in
set_option maxHeartbeats 2000000 in
theorem inv_wake3 (n : Nat) (hn : (n : Int) < MAXI) (sh : Sh) (pcs : Tid → Pc) (t : Tid) (e : Env) (w : Bid) (d : Nat) (k : Base) (hlt : t < n)
    (h : Inv ⟨n, sh, pcs⟩) (hpc : pcs t = (.wake3 w d k)) (sh' : Sh) (pc' : Pc)
    (hts : tstep sh t (.wake3 w d k) e = some (sh', pc')) : Inv ⟨n, sh', upd pcs t pc'⟩ := by
  open_inv
  destruct_hts <;> (prep w; fin)

end MayVerif.SyncFlag
