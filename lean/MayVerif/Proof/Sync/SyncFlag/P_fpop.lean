import MayVerif.Proof.Sync.SyncFlag.Inv
namespace MayVerif.SyncFlag

set_option linter.unusedVariables false in
set_option maxHeartbeats 2000000 in
theorem inv_fpop (n : Nat) (hn : (n : Int) < MAXI) (sh : Sh) (pcs : Tid → Pc) (t : Tid) (e : Env) (d : Nat) (k : Base) (hlt : t < n)
    (h : Inv ⟨n, sh, pcs⟩) (hpc : pcs t = (.fpop d k)) (sh' : Sh) (pc' : Pc)
    (hts : tstep sh t (.fpop d k) e = some (sh', pc')) : Inv ⟨n, sh', upd pcs t pc'⟩ := by
  open_inv
  cases e <;> simp only [tstep] at hts <;>
    (split at hts
     · simp only [Option.some.injEq, Prod.mk.injEq] at hts
       obtain ⟨rfl, rfl⟩ := hts
       have hfrt := hfr t
       cases d <;> cases k <;> simp only [contB] <;> fin
     next w q' heq =>
       simp only [Option.some.injEq, Prod.mk.injEq] at hts
       obtain ⟨rfl, rfl⟩ := hts
       have hinQw := hinQ w; have hfqw := hfq w; have hvirw := hvir w
       have hfrt := hfr t
       have hwv := fun u => wakes_vphOf (pcs u) w
       have hvLw := fun u => hvL u w
       have hinw : w ∈ sh.q := by simp [heq]
       have hv0 := hinQw hinw
       fin)

end MayVerif.SyncFlag
