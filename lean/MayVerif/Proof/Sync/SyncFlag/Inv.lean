/-
  Invariant of the SyncFlag model: the latch (`fired` ⇒ the counter stays positive, given fewer than isize::MAX
  actors), blocker bookkeeping, and "while fired and the queue is non-empty somebody is draining it".
-/
import MayVerif.Model.Sync.SyncFlag
namespace MayVerif.SyncFlag

def cntOf {α : Type} (n : Nat) (p : α → Bool) (f : Nat → α) : Nat := (List.range n).countP (fun u => p (f u))

theorem cntOf_upd {α : Type} (n : Nat) (p : α → Bool) (f : Nat → α) (t : Nat) (v : α) (ht : t < n) :
    cntOf n p (upd f t v) + (if p (f t) then 1 else 0) = cntOf n p f + (if p v then 1 else 0) := by
  unfold cntOf
  induction n with
  | zero => omega
  | succ k ih =>
    simp only [List.range_succ, List.countP_append, List.countP_cons, List.countP_nil]
    by_cases hk : t = k
    · subst hk
      have : List.countP (fun u => p (upd f t v u)) (List.range t) = List.countP (fun u => p (f u)) (List.range t) := by
        apply List.countP_congr
        intro x hx
        have : x < t := List.mem_range.mp hx
        have : x ≠ t := by omega
        simp [upd, this]
      rw [this]; simp [upd]; split <;> split <;> omega
    · have := ih (by omega)
      have h2 : upd f t v k = f k := by simp [upd]; intro h; omega
      rw [h2]; omega

theorem cntOf_zero_of {α : Type} (n : Nat) (p : α → Bool) (f : Nat → α) (h : ∀ u, u < n → p (f u) = false) : cntOf n p f = 0 := by
  unfold cntOf
  apply List.countP_eq_zero.mpr
  intro x hx
  simp [h x (List.mem_range.mp hx)]

theorem cntOf_le {α : Type} (n : Nat) (p : α → Bool) (f : Nat → α) : cntOf n p f ≤ n := by
  unfold cntOf
  have := List.countP_le_length (p := fun u => p (f u)) (l := List.range n)
  simpa using this

theorem cntOf_pos_of {α : Type} (n : Nat) (p : α → Bool) (f : Nat → α) (t : Nat) (ht : t < n) (h : p (f t) = true) : 0 < cntOf n p f := by
  unfold cntOf
  apply List.countP_pos_iff.mpr
  exact ⟨t, List.mem_range.mpr ht, h⟩

theorem cntOf_pos_upd {α : Type} (n : Nat) (p : α → Bool) (f : Nat → α) (t : Nat) (v : α) (ht : t < n) (h : p v = true) :
    0 < cntOf n p (upd f t v) := cntOf_pos_of n p _ t ht (by simp [upd, h])

theorem upd_app {α : Type} (f : Nat → α) (t : Nat) (v : α) (u : Nat) : upd f t v u = if u = t then v else f u := rfl

/-- loaded "not fired", fetch_sub still to come -/
@[grind] def preFsub : Pc → Bool | .w1push _ | .w2fsub _ => true | _ => false
/-- will run (or is running) a `wakeup_all()` loop once fired -/
@[grind] def drainer : Pc → Bool
  | .w2fsub _ | .f0store .. | .fpop .. | .wake1 .. | .wake2 .. | .wake3 .. => true
  | _ => false

/-- blocker owned (as waiter) by an actor at this pc -/
@[grind] def bB : Base → Option Bid | .toPark b => some b | .fin => none
def owns : Pc → Option Bid
  | .w1push b | .w2fsub b | .w5park b | .w6load b | .w7set b | .w8load b | .w9swap b => some b
  | .f0store _ k | .fpop _ k | .wake1 _ _ k | .wake2 _ _ k | .wake3 _ _ k => bB k
  | _ => none
/-- blocker this actor is waking -/
def wakes : Pc → Option Bid
  | .wake1 w _ _ | .wake2 w _ _ | .wake3 w _ _ => some w
  | _ => none
def vphOf : Pc → Option VPh
  | .wake1 .. => some .v1 | .wake2 .. => some .v2 | .wake3 .. => some .v3
  | _ => none
/-- not yet pushed to the queue (for the owner pc) -/
def notPushed : Pc → Bool | .w1push _ => true | _ => false

/-! evaluation of the pc predicates on each program point (so that they are never unfolded on an unknown pc) -/
theorem owns_idle  : owns .idle = none := rfl
theorem owns_done {r} : owns (.done r) = none := rfl
theorem owns_i0load  : owns .i0load = none := rfl
theorem owns_w0load  : owns .w0load = none := rfl
theorem owns_w1push {b} : owns (.w1push b) = some b := rfl
theorem owns_w2fsub {b} : owns (.w2fsub b) = some b := rfl
theorem owns_f0store {d} {k} : owns (.f0store d k) = bB k := rfl
theorem owns_fpop {d} {k} : owns (.fpop d k) = bB k := rfl
theorem owns_wake1 {w} {d} {k} : owns (.wake1 w d k) = bB k := rfl
theorem owns_wake2 {w} {d} {k} : owns (.wake2 w d k) = bB k := rfl
theorem owns_wake3 {w} {d} {k} : owns (.wake3 w d k) = bB k := rfl
theorem owns_w5park {b} : owns (.w5park b) = some b := rfl
theorem owns_w6load {b} : owns (.w6load b) = some b := rfl
theorem owns_w7set {b} : owns (.w7set b) = some b := rfl
theorem owns_w8load {b} : owns (.w8load b) = some b := rfl
theorem owns_w9swap {b} : owns (.w9swap b) = some b := rfl
theorem wakes_idle  : wakes .idle = none := rfl
theorem wakes_done {r} : wakes (.done r) = none := rfl
theorem wakes_i0load  : wakes .i0load = none := rfl
theorem wakes_w0load  : wakes .w0load = none := rfl
theorem wakes_w1push {b} : wakes (.w1push b) = none := rfl
theorem wakes_w2fsub {b} : wakes (.w2fsub b) = none := rfl
theorem wakes_f0store {d} {k} : wakes (.f0store d k) = none := rfl
theorem wakes_fpop {d} {k} : wakes (.fpop d k) = none := rfl
theorem wakes_wake1 {w} {d} {k} : wakes (.wake1 w d k) = some w := rfl
theorem wakes_wake2 {w} {d} {k} : wakes (.wake2 w d k) = some w := rfl
theorem wakes_wake3 {w} {d} {k} : wakes (.wake3 w d k) = some w := rfl
theorem wakes_w5park {b} : wakes (.w5park b) = none := rfl
theorem wakes_w6load {b} : wakes (.w6load b) = none := rfl
theorem wakes_w7set {b} : wakes (.w7set b) = none := rfl
theorem wakes_w8load {b} : wakes (.w8load b) = none := rfl
theorem wakes_w9swap {b} : wakes (.w9swap b) = none := rfl
theorem vphOf_idle  : vphOf .idle = none := rfl
theorem vphOf_done {r} : vphOf (.done r) = none := rfl
theorem vphOf_i0load  : vphOf .i0load = none := rfl
theorem vphOf_w0load  : vphOf .w0load = none := rfl
theorem vphOf_w1push {b} : vphOf (.w1push b) = none := rfl
theorem vphOf_w2fsub {b} : vphOf (.w2fsub b) = none := rfl
theorem vphOf_f0store {d} {k} : vphOf (.f0store d k) = none := rfl
theorem vphOf_fpop {d} {k} : vphOf (.fpop d k) = none := rfl
theorem vphOf_wake1 {w} {d} {k} : vphOf (.wake1 w d k) = some .v1 := rfl
theorem vphOf_wake2 {w} {d} {k} : vphOf (.wake2 w d k) = some .v2 := rfl
theorem vphOf_wake3 {w} {d} {k} : vphOf (.wake3 w d k) = some .v3 := rfl
theorem vphOf_w5park {b} : vphOf (.w5park b) = none := rfl
theorem vphOf_w6load {b} : vphOf (.w6load b) = none := rfl
theorem vphOf_w7set {b} : vphOf (.w7set b) = none := rfl
theorem vphOf_w8load {b} : vphOf (.w8load b) = none := rfl
theorem vphOf_w9swap {b} : vphOf (.w9swap b) = none := rfl
theorem notPushed_idle  : notPushed .idle = false := rfl
theorem notPushed_done {r} : notPushed (.done r) = false := rfl
theorem notPushed_i0load  : notPushed .i0load = false := rfl
theorem notPushed_w0load  : notPushed .w0load = false := rfl
theorem notPushed_w1push {b} : notPushed (.w1push b) = true := rfl
theorem notPushed_w2fsub {b} : notPushed (.w2fsub b) = false := rfl
theorem notPushed_f0store {d} {k} : notPushed (.f0store d k) = false := rfl
theorem notPushed_fpop {d} {k} : notPushed (.fpop d k) = false := rfl
theorem notPushed_wake1 {w} {d} {k} : notPushed (.wake1 w d k) = false := rfl
theorem notPushed_wake2 {w} {d} {k} : notPushed (.wake2 w d k) = false := rfl
theorem notPushed_wake3 {w} {d} {k} : notPushed (.wake3 w d k) = false := rfl
theorem notPushed_w5park {b} : notPushed (.w5park b) = false := rfl
theorem notPushed_w6load {b} : notPushed (.w6load b) = false := rfl
theorem notPushed_w7set {b} : notPushed (.w7set b) = false := rfl
theorem notPushed_w8load {b} : notPushed (.w8load b) = false := rfl
theorem notPushed_w9swap {b} : notPushed (.w9swap b) = false := rfl

structure Inv (s : St) : Prop where
  nodup : s.sh.q.Nodup
  fresh : ∀ (t : Tid) (b : Bid), owns (s.pcs t) = some b → b < s.sh.nextB
  freshW : ∀ (t : Tid) (b : Bid), wakes (s.pcs t) = some b → b < s.sh.nextB
  freshQ : ∀ (b : Bid), b ∈ s.sh.q → b < s.sh.nextB
  virgin : ∀ (b : Bid), s.sh.nextB ≤ b → s.sh.vph b = .v0
  own1 : ∀ (t u : Tid) (b : Bid), owns (s.pcs t) = some b → owns (s.pcs u) = some b → t = u
  wake1 : ∀ (t u : Tid) (b : Bid), wakes (s.pcs t) = some b → wakes (s.pcs u) = some b → t = u
  vphL : ∀ (t : Tid) (b : Bid) (v : VPh), wakes (s.pcs t) = some b → vphOf (s.pcs t) = some v → s.sh.vph b = v
  inQ : ∀ (b : Bid), b ∈ s.sh.q → s.sh.vph b = .v0
  notQ : ∀ (t : Tid) (b : Bid), owns (s.pcs t) = some b → notPushed (s.pcs t) = true → b ∉ s.sh.q ∧ s.sh.vph b = .v0
  n1 : ∀ (t : Tid) (b : Bid), owns (s.pcs t) = some b → notPushed (s.pcs t) = false → b ∈ s.sh.q ∨ s.sh.vph b ≠ .v0
  n2 : ∀ (b : Bid), (s.sh.vph b = .v1 ∨ s.sh.vph b = .v2 ∨ s.sh.vph b = .v3) → wakes (s.pcs (s.sh.wk b)) = some b ∧ s.sh.wk b < s.n
  n3 : ∀ (t : Tid) (b : Bid), owns (s.pcs t) = some b → (s.sh.vph b = .v2 ∨ s.sh.vph b = .v3 ∨ s.sh.vph b = .v4) → s.sh.tok b = true
  /-- not fired: the counter is not positive (`is_fired()` reads false) -/
  f1 : s.sh.fired = false → s.sh.cnt ≤ 0
  /-- fired: only the actors that loaded "not fired" before can still decrement, each once -/
  f2 : s.sh.fired = true → MAXI - (s.n : Int) + (cntOf s.n preFsub s.pcs : Int) ≤ s.sh.cnt
  /-- fired and somebody is still queued: somebody is (or is about to be) in a `wakeup_all()` loop -/
  f3 : s.sh.fired = true → s.sh.q ≠ [] → 0 < cntOf s.n drainer s.pcs

theorem inv_init (n : Nat) : Inv (init n) := by
  constructor <;> simp [init, owns, wakes, cntOf]

theorem wakes_vphOf (pc : Pc) (b : Bid) (h : wakes pc = some b) : vphOf pc = some .v1 ∨ vphOf pc = some .v2 ∨ vphOf pc = some .v3 := by
  cases pc <;> simp_all [wakes, vphOf]

set_option hygiene false in
macro "prep" w:term : tactic => `(tactic|
  (have hvirw := hvir $w; have hinQw := hinQ $w; have hfqw := hfq $w
   have hvLt := hvL t $w; have hfrt := hfr t $w; have hfwt := hfw t $w; have hnq := hnotQ t $w; have hn1t := hn1 t $w; have hn2w := hn2 $w; have hn3t := hn3 t $w
   (try simp [hpc, bB, owns_idle, owns_done, owns_i0load, owns_w0load, owns_w1push, owns_w2fsub, owns_f0store, owns_fpop, owns_wake1, owns_wake2, owns_wake3, owns_w5park, owns_w6load, owns_w7set, owns_w8load, owns_w9swap, wakes_idle, wakes_done, wakes_i0load, wakes_w0load, wakes_w1push, wakes_w2fsub, wakes_f0store, wakes_fpop, wakes_wake1, wakes_wake2, wakes_wake3, wakes_w5park, wakes_w6load, wakes_w7set, wakes_w8load, wakes_w9swap, vphOf_idle, vphOf_done, vphOf_i0load, vphOf_w0load, vphOf_w1push, vphOf_w2fsub, vphOf_f0store, vphOf_fpop, vphOf_wake1, vphOf_wake2, vphOf_wake3, vphOf_w5park, vphOf_w6load, vphOf_w7set, vphOf_w8load, vphOf_w9swap, notPushed_idle, notPushed_done, notPushed_i0load, notPushed_w0load, notPushed_w1push, notPushed_w2fsub, notPushed_f0store, notPushed_fpop, notPushed_wake1, notPushed_wake2, notPushed_wake3, notPushed_w5park, notPushed_w6load, notPushed_w7set, notPushed_w8load, notPushed_w9swap] at hvLt)
   (try simp [hpc, bB, owns_idle, owns_done, owns_i0load, owns_w0load, owns_w1push, owns_w2fsub, owns_f0store, owns_fpop, owns_wake1, owns_wake2, owns_wake3, owns_w5park, owns_w6load, owns_w7set, owns_w8load, owns_w9swap, wakes_idle, wakes_done, wakes_i0load, wakes_w0load, wakes_w1push, wakes_w2fsub, wakes_f0store, wakes_fpop, wakes_wake1, wakes_wake2, wakes_wake3, wakes_w5park, wakes_w6load, wakes_w7set, wakes_w8load, wakes_w9swap, vphOf_idle, vphOf_done, vphOf_i0load, vphOf_w0load, vphOf_w1push, vphOf_w2fsub, vphOf_f0store, vphOf_fpop, vphOf_wake1, vphOf_wake2, vphOf_wake3, vphOf_w5park, vphOf_w6load, vphOf_w7set, vphOf_w8load, vphOf_w9swap, notPushed_idle, notPushed_done, notPushed_i0load, notPushed_w0load, notPushed_w1push, notPushed_w2fsub, notPushed_f0store, notPushed_fpop, notPushed_wake1, notPushed_wake2, notPushed_wake3, notPushed_w5park, notPushed_w6load, notPushed_w7set, notPushed_w8load, notPushed_w9swap] at hfrt); (try simp [hpc, bB, owns_idle, owns_done, owns_i0load, owns_w0load, owns_w1push, owns_w2fsub, owns_f0store, owns_fpop, owns_wake1, owns_wake2, owns_wake3, owns_w5park, owns_w6load, owns_w7set, owns_w8load, owns_w9swap, wakes_idle, wakes_done, wakes_i0load, wakes_w0load, wakes_w1push, wakes_w2fsub, wakes_f0store, wakes_fpop, wakes_wake1, wakes_wake2, wakes_wake3, wakes_w5park, wakes_w6load, wakes_w7set, wakes_w8load, wakes_w9swap, vphOf_idle, vphOf_done, vphOf_i0load, vphOf_w0load, vphOf_w1push, vphOf_w2fsub, vphOf_f0store, vphOf_fpop, vphOf_wake1, vphOf_wake2, vphOf_wake3, vphOf_w5park, vphOf_w6load, vphOf_w7set, vphOf_w8load, vphOf_w9swap, notPushed_idle, notPushed_done, notPushed_i0load, notPushed_w0load, notPushed_w1push, notPushed_w2fsub, notPushed_f0store, notPushed_fpop, notPushed_wake1, notPushed_wake2, notPushed_wake3, notPushed_w5park, notPushed_w6load, notPushed_w7set, notPushed_w8load, notPushed_w9swap] at hfwt)
   (try simp [hpc, bB, owns_idle, owns_done, owns_i0load, owns_w0load, owns_w1push, owns_w2fsub, owns_f0store, owns_fpop, owns_wake1, owns_wake2, owns_wake3, owns_w5park, owns_w6load, owns_w7set, owns_w8load, owns_w9swap, wakes_idle, wakes_done, wakes_i0load, wakes_w0load, wakes_w1push, wakes_w2fsub, wakes_f0store, wakes_fpop, wakes_wake1, wakes_wake2, wakes_wake3, wakes_w5park, wakes_w6load, wakes_w7set, wakes_w8load, wakes_w9swap, vphOf_idle, vphOf_done, vphOf_i0load, vphOf_w0load, vphOf_w1push, vphOf_w2fsub, vphOf_f0store, vphOf_fpop, vphOf_wake1, vphOf_wake2, vphOf_wake3, vphOf_w5park, vphOf_w6load, vphOf_w7set, vphOf_w8load, vphOf_w9swap, notPushed_idle, notPushed_done, notPushed_i0load, notPushed_w0load, notPushed_w1push, notPushed_w2fsub, notPushed_f0store, notPushed_fpop, notPushed_wake1, notPushed_wake2, notPushed_wake3, notPushed_w5park, notPushed_w6load, notPushed_w7set, notPushed_w8load, notPushed_w9swap] at hnq); (try simp [hpc, bB, owns_idle, owns_done, owns_i0load, owns_w0load, owns_w1push, owns_w2fsub, owns_f0store, owns_fpop, owns_wake1, owns_wake2, owns_wake3, owns_w5park, owns_w6load, owns_w7set, owns_w8load, owns_w9swap, wakes_idle, wakes_done, wakes_i0load, wakes_w0load, wakes_w1push, wakes_w2fsub, wakes_f0store, wakes_fpop, wakes_wake1, wakes_wake2, wakes_wake3, wakes_w5park, wakes_w6load, wakes_w7set, wakes_w8load, wakes_w9swap, vphOf_idle, vphOf_done, vphOf_i0load, vphOf_w0load, vphOf_w1push, vphOf_w2fsub, vphOf_f0store, vphOf_fpop, vphOf_wake1, vphOf_wake2, vphOf_wake3, vphOf_w5park, vphOf_w6load, vphOf_w7set, vphOf_w8load, vphOf_w9swap, notPushed_idle, notPushed_done, notPushed_i0load, notPushed_w0load, notPushed_w1push, notPushed_w2fsub, notPushed_f0store, notPushed_fpop, notPushed_wake1, notPushed_wake2, notPushed_wake3, notPushed_w5park, notPushed_w6load, notPushed_w7set, notPushed_w8load, notPushed_w9swap] at hn1t); (try simp [hpc, bB, owns_idle, owns_done, owns_i0load, owns_w0load, owns_w1push, owns_w2fsub, owns_f0store, owns_fpop, owns_wake1, owns_wake2, owns_wake3, owns_w5park, owns_w6load, owns_w7set, owns_w8load, owns_w9swap, wakes_idle, wakes_done, wakes_i0load, wakes_w0load, wakes_w1push, wakes_w2fsub, wakes_f0store, wakes_fpop, wakes_wake1, wakes_wake2, wakes_wake3, wakes_w5park, wakes_w6load, wakes_w7set, wakes_w8load, wakes_w9swap, vphOf_idle, vphOf_done, vphOf_i0load, vphOf_w0load, vphOf_w1push, vphOf_w2fsub, vphOf_f0store, vphOf_fpop, vphOf_wake1, vphOf_wake2, vphOf_wake3, vphOf_w5park, vphOf_w6load, vphOf_w7set, vphOf_w8load, vphOf_w9swap, notPushed_idle, notPushed_done, notPushed_i0load, notPushed_w0load, notPushed_w1push, notPushed_w2fsub, notPushed_f0store, notPushed_fpop, notPushed_wake1, notPushed_wake2, notPushed_wake3, notPushed_w5park, notPushed_w6load, notPushed_w7set, notPushed_w8load, notPushed_w9swap] at hn3t)))

/- close every clause: unchanged ones by `assumption`; the others after pushing the pc predicates through the
   update of the actor's pc and evaluating them on the new (concrete) pc, so that `grind` never has to split the
   pattern matches of `owns`, `wakes`, … on an unknown pc -/
set_option hygiene false in
macro "fin" : tactic => `(tactic|
  (constructor <;> simp only [] <;> first
    | assumption
    | ((try simp only [upd_app, apply_ite owns, apply_ite wakes, apply_ite vphOf, apply_ite notPushed, owns_idle, owns_done, owns_i0load, owns_w0load, owns_w1push, owns_w2fsub, owns_f0store, owns_fpop, owns_wake1, owns_wake2, owns_wake3, owns_w5park, owns_w6load, owns_w7set, owns_w8load, owns_w9swap, wakes_idle, wakes_done, wakes_i0load, wakes_w0load, wakes_w1push, wakes_w2fsub, wakes_f0store, wakes_fpop, wakes_wake1, wakes_wake2, wakes_wake3, wakes_w5park, wakes_w6load, wakes_w7set, wakes_w8load, wakes_w9swap, vphOf_idle, vphOf_done, vphOf_i0load, vphOf_w0load, vphOf_w1push, vphOf_w2fsub, vphOf_f0store, vphOf_fpop, vphOf_wake1, vphOf_wake2, vphOf_wake3, vphOf_w5park, vphOf_w6load, vphOf_w7set, vphOf_w8load, vphOf_w9swap, notPushed_idle, notPushed_done, notPushed_i0load, notPushed_w0load, notPushed_w1push, notPushed_w2fsub, notPushed_f0store, notPushed_fpop, notPushed_wake1, notPushed_wake2, notPushed_wake3, notPushed_w5park, notPushed_w6load, notPushed_w7set, notPushed_w8load, notPushed_w9swap]) <;>
       first | grind [List.nodup_append, List.nodup_cons] | grind (splits := 20) [List.nodup_append, List.nodup_cons])))

set_option hygiene false in
macro "destruct_hts" : tactic => `(tactic|
  (cases e <;> simp only [tstep, contB] at hts <;> (try contradiction) <;> (repeat' split at hts) <;> (try contradiction) <;>
   (try simp only [Option.some.injEq, Prod.mk.injEq] at hts) <;> obtain ⟨rfl, rfl⟩ := hts))

set_option hygiene false in
macro "open_inv" : tactic => `(tactic|
  (obtain ⟨hnd, hfr, hfw, hfq, hvir, ho1, hw1, hvL, hinQ, hnotQ, hn1, hn2, hn3, hf1, hf2, hf3⟩ := h
   simp only at hnd hfr hfw hfq hvir ho1 hw1 hvL hinQ hnotQ hn1 hn2 hn3 hf1 hf2 hf3
   have hown := congrArg owns hpc; have hwak := congrArg wakes hpc
   have hvph := congrArg vphOf hpc; have hnp := congrArg notPushed hpc
   simp only [owns_idle, owns_done, owns_i0load, owns_w0load, owns_w1push, owns_w2fsub, owns_f0store, owns_fpop, owns_wake1, owns_wake2, owns_wake3, owns_w5park, owns_w6load, owns_w7set, owns_w8load, owns_w9swap, wakes_idle, wakes_done, wakes_i0load, wakes_w0load, wakes_w1push, wakes_w2fsub, wakes_f0store, wakes_fpop, wakes_wake1, wakes_wake2, wakes_wake3, wakes_w5park, wakes_w6load, wakes_w7set, wakes_w8load, wakes_w9swap, vphOf_idle, vphOf_done, vphOf_i0load, vphOf_w0load, vphOf_w1push, vphOf_w2fsub, vphOf_f0store, vphOf_fpop, vphOf_wake1, vphOf_wake2, vphOf_wake3, vphOf_w5park, vphOf_w6load, vphOf_w7set, vphOf_w8load, vphOf_w9swap, notPushed_idle, notPushed_done, notPushed_i0load, notPushed_w0load, notPushed_w1push, notPushed_w2fsub, notPushed_f0store, notPushed_fpop, notPushed_wake1, notPushed_wake2, notPushed_wake3, notPushed_w5park, notPushed_w6load, notPushed_w7set, notPushed_w8load, notPushed_w9swap] at hown hwak hvph hnp
   have hF := fun v => cntOf_upd n preFsub pcs t v hlt
   have hD := fun v => cntOf_upd n drainer pcs t v hlt
   rw [hpc] at hF hD
   simp only [preFsub, drainer] at hF hD
   have hpos := fun v (hv : drainer v = true) => cntOf_pos_upd n drainer pcs t v hlt hv
   have hle := fun v => cntOf_le n preFsub (upd pcs t v)))

end MayVerif.SyncFlag
