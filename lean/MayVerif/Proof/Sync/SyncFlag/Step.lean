import MayVerif.Proof.Sync.SyncFlag.P_idle
import MayVerif.Proof.Sync.SyncFlag.P_done
import MayVerif.Proof.Sync.SyncFlag.P_i0load
import MayVerif.Proof.Sync.SyncFlag.P_w0load
import MayVerif.Proof.Sync.SyncFlag.P_w1push
import MayVerif.Proof.Sync.SyncFlag.P_w2fsub
import MayVerif.Proof.Sync.SyncFlag.P_f0store
import MayVerif.Proof.Sync.SyncFlag.P_fpop
import MayVerif.Proof.Sync.SyncFlag.P_wake1
import MayVerif.Proof.Sync.SyncFlag.P_wake2
import MayVerif.Proof.Sync.SyncFlag.P_wake3
import MayVerif.Proof.Sync.SyncFlag.P_w5park
import MayVerif.Proof.Sync.SyncFlag.P_w6load
import MayVerif.Proof.Sync.SyncFlag.P_w7set
import MayVerif.Proof.Sync.SyncFlag.P_w8load
import MayVerif.Proof.Sync.SyncFlag.P_w9swap
namespace MayVerif.SyncFlag

theorem inv_step (s s' : St) (hn : (s.n : Int) < MAXI) (t : Tid) (e : Env) (h : Inv s) (hs : step s t e = some s') : Inv s' := by
  obtain ⟨n, sh, pcs⟩ := s
  simp only [step] at hs
  simp only at hn
  split at hs
  case isFalse => contradiction
  next hlt =>
  split at hs
  · contradiction
  next sh' pc' hts =>
  simp only [Option.some.injEq] at hs
  subst hs
  generalize hpc : pcs t = pc at hts
  cases pc with
  | idle => exact inv_idle n hn sh pcs t e hlt h hpc sh' pc' hts
  | done r => exact inv_done n hn sh pcs t e r hlt h hpc sh' pc' hts
  | i0load => exact inv_i0load n hn sh pcs t e hlt h hpc sh' pc' hts
  | w0load => exact inv_w0load n hn sh pcs t e hlt h hpc sh' pc' hts
  | w1push b => exact inv_w1push n hn sh pcs t e b hlt h hpc sh' pc' hts
  | w2fsub b => exact inv_w2fsub n hn sh pcs t e b hlt h hpc sh' pc' hts
  | f0store d k => exact inv_f0store n hn sh pcs t e d k hlt h hpc sh' pc' hts
  | fpop d k => exact inv_fpop n hn sh pcs t e d k hlt h hpc sh' pc' hts
  | wake1 w d k => exact inv_wake1 n hn sh pcs t e w d k hlt h hpc sh' pc' hts
  | wake2 w d k => exact inv_wake2 n hn sh pcs t e w d k hlt h hpc sh' pc' hts
  | wake3 w d k => exact inv_wake3 n hn sh pcs t e w d k hlt h hpc sh' pc' hts
  | w5park b => exact inv_w5park n hn sh pcs t e b hlt h hpc sh' pc' hts
  | w6load b => exact inv_w6load n hn sh pcs t e b hlt h hpc sh' pc' hts
  | w7set b => exact inv_w7set n hn sh pcs t e b hlt h hpc sh' pc' hts
  | w8load b => exact inv_w8load n hn sh pcs t e b hlt h hpc sh' pc' hts
  | w9swap b => exact inv_w9swap n hn sh pcs t e b hlt h hpc sh' pc' hts

theorem step_n (s s' : St) (t : Tid) (e : Env) (hs : step s t e = some s') : s'.n = s.n := by
  simp only [step] at hs
  split at hs
  · split at hs
    · contradiction
    · simp only [Option.some.injEq] at hs; subst hs; rfl
  · contradiction

theorem run_n (s : St) (l : List (Tid × Env)) : (run s l).n = s.n := by
  induction l generalizing s with
  | nil => rfl
  | cons te r ih =>
    obtain ⟨t, e⟩ := te
    simp only [run]
    split
    · next s' hs => rw [ih]; exact step_n _ _ _ _ hs
    · exact ih _

theorem inv_run (s : St) (hn : (s.n : Int) < MAXI) (sched : List (Tid × Env)) (h : Inv s) : Inv (run s sched) := by
  induction sched generalizing s with
  | nil => simpa [run]
  | cons te r ih =>
    obtain ⟨t, e⟩ := te
    simp only [run]
    split
    · next s' hs => exact ih _ (by rw [step_n _ _ _ _ hs]; exact hn) (inv_step _ _ hn _ _ h hs)
    · exact ih _ hn h

theorem run_append (s : St) (l1 l2 : List (Tid × Env)) : run s (l1 ++ l2) = run (run s l1) l2 := by
  induction l1 generalizing s with
  | nil => rfl
  | cons te r ih =>
    obtain ⟨t, e⟩ := te
    simp only [List.cons_append, run]
    split <;> exact ih _

/-- the ghost flag is never reset -/
theorem tstep_fired (sh sh' : Sh) (me : Tid) (pc pc' : Pc) (e : Env) (h : tstep sh me pc e = some (sh', pc'))
    (hf : sh.fired = true) : sh'.fired = true := by
  cases pc <;> cases e <;> simp only [tstep] at h <;> (try contradiction) <;> (repeat' split at h) <;> (try contradiction) <;>
    simp only [Option.some.injEq, Prod.mk.injEq] at h <;> obtain ⟨rfl, _⟩ := h <;> simp [hf]

theorem step_fired (s s' : St) (t : Tid) (e : Env) (hs : step s t e = some s') (hf : s.sh.fired = true) : s'.sh.fired = true := by
  simp only [step] at hs
  split at hs
  · split at hs
    · contradiction
    · next sh' pc' hts =>
      simp only [Option.some.injEq] at hs; subst hs
      exact tstep_fired _ _ _ _ _ _ hts hf
  · contradiction

theorem run_fired (s : St) (l : List (Tid × Env)) (hf : s.sh.fired = true) : (run s l).sh.fired = true := by
  induction l generalizing s with
  | nil => exact hf
  | cons te r ih =>
    obtain ⟨t, e⟩ := te
    simp only [run]
    split
    · next s' hs => exact ih _ (step_fired _ _ _ _ hs hf)
    · exact ih _ hf

theorem wakes_not_quiet (pc : Pc) (b : Bid) (h : wakes pc = some b) : pc ≠ .idle ∧ ∀ b', pc ≠ .w5park b' := by
  cases pc <;> simp_all [wakes]

end MayVerif.SyncFlag
