import MayVerif.Proof.Sync.SyncFlag.Inv
namespace MayVerif.SyncFlag

set_option linter.unusedVariables false in
set_option maxHeartbeats 2000000 in
theorem inv_f0store (n : Nat) (hn : (n : Int) < MAXI) (sh : Sh) (pcs : Tid → Pc) (t : Tid) (e : Env) (d : Nat) (k : Base) (hlt : t < n)
    (h : Inv ⟨n, sh, pcs⟩) (hpc : pcs t = (.f0store d k)) (sh' : Sh) (pc' : Pc)
    (hts : tstep sh t (.f0store d k) e = some (sh', pc')) : Inv ⟨n, sh', upd pcs t pc'⟩ := by
  open_inv
  destruct_hts <;> (have hfrt := hfr t; fin)

end MayVerif.SyncFlag
