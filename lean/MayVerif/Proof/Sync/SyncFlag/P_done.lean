import MayVerif.Proof.Sync.SyncFlag.Inv
namespace MayVerif.SyncFlag

set_option linter.unusedVariables false in
set_option maxHeartbeats 2000000 in
theorem inv_done (n : Nat) (hn : (n : Int) < MAXI) (sh : Sh) (pcs : Tid → Pc) (t : Tid) (e : Env) (r : Int) (hlt : t < n)
    (h : Inv ⟨n, sh, pcs⟩) (hpc : pcs t = (.done r)) (sh' : Sh) (pc' : Pc)
    (hts : tstep sh t (.done r) e = some (sh', pc')) : Inv ⟨n, sh', upd pcs t pc'⟩ := by
  open_inv
  destruct_hts <;> fin

end MayVerif.SyncFlag
