import MayVerif.Proof.Sync.SyncFlag.Inv
namespace MayVerif.SyncFlag

set_option linter.unusedVariables false in
set_option maxHeartbeats 2000000 in
theorem inv_w0load (n : Nat) (hn : (n : Int) < MAXI) (sh : Sh) (pcs : Tid → Pc) (t : Tid) (e : Env)  (hlt : t < n)
    (h : Inv ⟨n, sh, pcs⟩) (hpc : pcs t = .w0load) (sh' : Sh) (pc' : Pc)
    (hts : tstep sh t .w0load e = some (sh', pc')) : Inv ⟨n, sh', upd pcs t pc'⟩ := by
  open_inv
  destruct_hts <;> (have hfrt := hfr t; have hvn := hvir sh.nextB; fin)

end MayVerif.SyncFlag
