import MayVerif.Proof.Sync.SyncFlag.Inv
namespace MayVerif.SyncFlag

set_option linter.unusedVariables false in
set_option maxHeartbeats 2000000 in
theorem inv_i0load (n : Nat) (hn : (n : Int) < MAXI) (sh : Sh) (pcs : Tid → Pc) (t : Tid) (e : Env)  (hlt : t < n)
    (h : Inv ⟨n, sh, pcs⟩) (hpc : pcs t = .i0load) (sh' : Sh) (pc' : Pc)
    (hts : tstep sh t .i0load e = some (sh', pc')) : Inv ⟨n, sh', upd pcs t pc'⟩ := by
  open_inv
  destruct_hts <;> fin

end MayVerif.SyncFlag
