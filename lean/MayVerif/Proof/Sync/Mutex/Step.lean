import MayVerif.Proof.Sync.Mutex.P_idle
import MayVerif.Proof.Sync.Mutex.P_held
import MayVerif.Proof.Sync.Mutex.P_m0cas
import MayVerif.Proof.Sync.Mutex.P_t0cas
import MayVerif.Proof.Sync.Mutex.P_w1push
import MayVerif.Proof.Sync.Mutex.P_w2fsub
import MayVerif.Proof.Sync.Mutex.P_w3pop
import MayVerif.Proof.Sync.Mutex.P_wake1
import MayVerif.Proof.Sync.Mutex.P_wake2
import MayVerif.Proof.Sync.Mutex.P_wake3
import MayVerif.Proof.Sync.Mutex.P_w5park
import MayVerif.Proof.Sync.Mutex.P_i6load
import MayVerif.Proof.Sync.Mutex.P_w6load
import MayVerif.Proof.Sync.Mutex.P_w7set
import MayVerif.Proof.Sync.Mutex.P_w8load
import MayVerif.Proof.Sync.Mutex.P_w9swap
import MayVerif.Proof.Sync.Mutex.P_p0fadd
namespace MayVerif.Mutex

theorem inv_step (s s' : St) (t : Tid) (e : Env) (h : Inv s) (hs : step s t e = some s') : Inv s' := by
  obtain ⟨n, sh, pcs⟩ := s
  simp only [step] at hs
  split at hs
  case isFalse => contradiction
  next hlt =>
  split at hs
  · contradiction
  next sh' pc' hts =>
  simp only [Option.some.injEq] at hs
  subst hs
  generalize hpc : pcs t = pc at hts
  cases pc with
  | idle => exact inv_idle n sh pcs t e hlt h hpc sh' pc' hts
  | held => exact inv_held n sh pcs t e hlt h hpc sh' pc' hts
  | m0cas => exact inv_m0cas n sh pcs t e hlt h hpc sh' pc' hts
  | t0cas => exact inv_t0cas n sh pcs t e hlt h hpc sh' pc' hts
  | w1push b => exact inv_w1push n sh pcs t e b hlt h hpc sh' pc' hts
  | w2fsub b => exact inv_w2fsub n sh pcs t e b hlt h hpc sh' pc' hts
  | w3pop k => exact inv_w3pop n sh pcs t e k hlt h hpc sh' pc' hts
  | wake1 w k => exact inv_wake1 n sh pcs t e w k hlt h hpc sh' pc' hts
  | wake2 w k => exact inv_wake2 n sh pcs t e w k hlt h hpc sh' pc' hts
  | wake3 w k => exact inv_wake3 n sh pcs t e w k hlt h hpc sh' pc' hts
  | w5park b => exact inv_w5park n sh pcs t e b hlt h hpc sh' pc' hts
  | i6load b => exact inv_i6load n sh pcs t e b hlt h hpc sh' pc' hts
  | w6load b => exact inv_w6load n sh pcs t e b hlt h hpc sh' pc' hts
  | w7set b => exact inv_w7set n sh pcs t e b hlt h hpc sh' pc' hts
  | w8load b => exact inv_w8load n sh pcs t e b hlt h hpc sh' pc' hts
  | w9swap b => exact inv_w9swap n sh pcs t e b hlt h hpc sh' pc' hts
  | p0fadd k => exact inv_p0fadd n sh pcs t e k hlt h hpc sh' pc' hts

theorem inv_run (s : St) (sched : List (Tid × Env)) (h : Inv s) : Inv (run s sched) := by
  induction sched generalizing s with
  | nil => simpa [run]
  | cons te r ih =>
    obtain ⟨t, e⟩ := te
    simp only [run]
    split
    · next s' hs => exact ih _ (inv_step _ _ _ _ h hs)
    · exact ih _ h

theorem run_n (s : St) (l : List (Tid × Env)) : (run s l).n = s.n := by
  induction l generalizing s with
  | nil => rfl
  | cons te r ih =>
    obtain ⟨t, e⟩ := te
    simp only [run]
    split
    · next s' hs =>
      rw [ih]
      simp only [step] at hs
      split at hs
      · split at hs
        · contradiction
        · simp only [Option.some.injEq] at hs; subst hs; rfl
      · contradiction
    · exact ih _

theorem wakes_not_quiet (pc : Pc) (b : Bid) (h : wakes pc = some b) : pc ≠ .idle ∧ pc ≠ .held ∧ ∀ b', pc ≠ .w5park b' := by
  cases pc <;> simp_all [wakes]


end MayVerif.Mutex
