/-
  Invariant of the Mutex model and the per-blocker hand-over table.
  (ported from the round-0 calibration `attic/round0/Gate5.lean` to the exact program points of mutex.rs)
-/
import MayVerif.Model.Sync.Mutex
namespace MayVerif.Mutex

def cntOf (n : Nat) (p : Pc → Bool) (f : Tid → Pc) : Nat := (List.range n).countP (fun u => p (f u))

theorem cntOf_upd (n : Nat) (p : Pc → Bool) (f : Tid → Pc) (t : Nat) (v : Pc) (ht : t < n) :
    cntOf n p (upd f t v) + (if p (f t) then 1 else 0) = cntOf n p f + (if p v then 1 else 0) := by
  unfold cntOf
  induction n with
  | zero => omega
  | succ k ih =>
    simp only [List.range_succ, List.countP_append, List.countP_cons, List.countP_nil]
    by_cases hk : t = k
    · subst hk
      have : List.countP (fun u => p (upd f t v u)) (List.range t) = List.countP (fun u => p (f u)) (List.range t) := by
        apply List.countP_congr
        intro x hx
        have : x < t := List.mem_range.mp hx
        have : x ≠ t := by omega
        simp [upd, this]
      rw [this]; simp [upd]; split <;> split <;> omega
    · have := ih (by omega)
      have h2 : upd f t v k = f k := by simp [upd]; intro h; omega
      rw [h2]; omega

theorem cntOf_zero_of (n : Nat) (p : Pc → Bool) (f : Tid → Pc) (h : ∀ u, u < n → p (f u) = false) : cntOf n p f = 0 := by
  unfold cntOf
  apply List.countP_eq_zero.mpr
  intro x hx
  simp [h x (List.mem_range.mp hx)]

@[grind] def atFsub : Pc → Bool | .w2fsub _ => true | _ => false
@[grind] def atPop : Pc → Bool | .w3pop _ => true | _ => false

/-- this actor carries the (single) permit -/
@[grind] def carrierA : Pc → Bool
  | .held | .p0fadd _ | .w3pop _ | .wake1 _ _ => true
  | _ => false

/-- blocker owned (as waiter) by an actor at this pc -/
@[grind] def kB : K → Option Bid | .toPark b => some b | .fin => none
@[grind] def owns : Pc → Option Bid
  | .w1push b | .w2fsub b | .w5park b | .i6load b | .w6load b | .w7set b | .w8load b | .w9swap b => some b
  | .w3pop k | .wake1 _ k | .wake2 _ k | .wake3 _ k | .p0fadd k => kB k
  | _ => none
/-- blocker this actor is waking -/
@[grind] def wakes : Pc → Option Bid
  | .wake1 w _ | .wake2 w _ | .wake3 w _ => some w
  | _ => none
/-- the abort phase an owner pc implies -/
@[grind] def aphOf : Pc → Option APh
  | .w6load _ => some .a1 | .w7set _ => some .a2 | .w8load _ => some .a3 | .w9swap _ => some .a4
  | .w1push _ | .w2fsub _ | .w5park _ | .i6load _ | .w3pop _ | .wake1 .. | .wake2 .. | .wake3 .. | .p0fadd _ => some .a0
  | _ => none
@[grind] def vphOf : Pc → Option VPh
  | .wake1 .. => some .v1 | .wake2 .. => some .v2 | .wake3 .. => some .v3
  | _ => none
/-- pushed to the queue (for the owner pc) -/
@[grind] def notPushed : Pc → Bool | .w1push _ => true | _ => false

/-- the per-blocker table: which (abort phase, waker phase, unparked, release, duty) combinations are allowed -/
def okB (a : APh) (v : VPh) (unp rel duty : Bool) : Bool :=
  -- unparked is exactly "waker reached v3"
  (unp == (v == .v3 || v == .v4)) &&
  -- release set only by the owner in a3.., cleared by the first swap; never together with duty
  (!rel || ((a == .a3 || a == .a4 || a == .a5) && !duty && (v != .v4 || a == .a3 || a == .a4))) &&
  -- before the owner's first load nothing is committed
  ((a != .a0 && a != .a1 && a != .a2) || (!rel && !duty)) &&
  -- after the owner set release, it stays set until a swap, and the first swap commits
  ((a != .a3 && a != .a4) || rel || duty) &&
  -- a4 only after having seen unparked
  (a != .a4 || unp) &&
  -- duty requires both an abort and a waker at least at v3
  (!duty || ((v == .v3 || v == .v4) && (a == .a5 || a == .a3 || a == .a4))) &&
  -- finished abort without duty: release still set and the waker has not swapped yet
  (a != .a5 || duty || (rel && v != .v4)) &&
  -- finished waker without duty: the owner has not yet got past its own swap
  (v != .v4 || duty || a == .a0 || a == .a1 || a == .a2 || ((a == .a3 || a == .a4) && rel))

structure Inv (s : St) : Prop where
  nodup : s.sh.q.Nodup
  fresh : ∀ (t : Tid) (b : Bid), owns (s.pcs t) = some b → b < s.sh.nextB
  freshW : ∀ (t : Tid) (b : Bid), wakes (s.pcs t) = some b → b < s.sh.nextB
  freshQ : ∀ (b : Bid), b ∈ s.sh.q → b < s.sh.nextB
  virgin : ∀ (b : Bid), s.sh.nextB ≤ b → s.sh.aph b = .a0 ∧ s.sh.vph b = .v0 ∧ s.sh.unparked b = false ∧ s.sh.release b = false ∧ s.sh.duty b = false
  own1 : ∀ (t u : Tid) (b : Bid), owns (s.pcs t) = some b → owns (s.pcs u) = some b → t = u
  wake1 : ∀ (t u : Tid) (b : Bid), wakes (s.pcs t) = some b → wakes (s.pcs u) = some b → t = u
  aphL : ∀ (t : Tid) (b : Bid) (a : APh), owns (s.pcs t) = some b → aphOf (s.pcs t) = some a → s.sh.aph b = a
  vphL : ∀ (t : Tid) (b : Bid) (v : VPh), wakes (s.pcs t) = some b → vphOf (s.pcs t) = some v → s.sh.vph b = v
  inQ : ∀ (b : Bid), b ∈ s.sh.q → s.sh.vph b = .v0
  notQ : ∀ (t : Tid) (b : Bid), owns (s.pcs t) = some b → notPushed (s.pcs t) = true → b ∉ s.sh.q ∧ s.sh.vph b = .v0
  ok : ∀ (b : Bid), okB (s.sh.aph b) (s.sh.vph b) (s.sh.unparked b) (s.sh.release b) (s.sh.duty b) = true
  nodupDuty : s.sh.dup = false
  cb : (s.sh.M : Int) + (if s.sh.cnt < 0 then - s.sh.cnt else 0) = s.sh.FS
  c1 : s.sh.pushes = s.sh.q.length + s.sh.pops
  c2 : s.sh.pushes = s.sh.FS + cntOf s.n atFsub s.pcs
  c3 : s.sh.M = s.sh.pops + cntOf s.n atPop s.pcs
  n1 : ∀ (t : Tid) (b : Bid), owns (s.pcs t) = some b → notPushed (s.pcs t) = false → b ∈ s.sh.q ∨ s.sh.vph b ≠ .v0
  n2 : ∀ (b : Bid), (s.sh.vph b = .v1 ∨ s.sh.vph b = .v2 ∨ s.sh.vph b = .v3) → wakes (s.pcs (s.sh.wk b)) = some b ∧ s.sh.wk b < s.n
  n3 : ∀ (t : Tid) (b : Bid), owns (s.pcs t) = some b → (s.sh.vph b = .v2 ∨ s.sh.vph b = .v3 ∨ s.sh.vph b = .v4) → s.sh.tok b = true
  n4 : ∀ (b : Bid), s.sh.aph b ≠ .a0 → (s.sh.vph b = .v2 ∨ s.sh.vph b = .v3 ∨ s.sh.vph b = .v4) → s.sh.tok b = true
  n5 : ∀ (b : Bid), s.sh.tok b = true → (s.sh.vph b = .v2 ∨ s.sh.vph b = .v3 ∨ s.sh.vph b = .v4)
  g1 : ∀ (t u : Tid), carrierA (s.pcs t) = true → carrierA (s.pcs u) = true → t = u
  g2 : ∀ (t : Tid) (b : Bid), carrierA (s.pcs t) = true → s.sh.tok b = true → s.sh.duty b = true
  g3 : ∀ (b b' : Bid), s.sh.tok b = true → s.sh.duty b = false → s.sh.tok b' = true → s.sh.duty b' = false → b = b'
  g4 : s.sh.cnt ≤ 1
  g5 : 0 < s.sh.cnt → (∀ (t : Tid), carrierA (s.pcs t) = false) ∧ (∀ (b : Bid), s.sh.tok b = true → s.sh.duty b = true)
  e1 : (if 0 < s.sh.cnt then 1 else 0) + cntOf s.n carrierA s.pcs + (if s.sh.pb.isSome then 1 else 0) = 1
  e2 : ∀ (b : Bid), s.sh.pb = some b → s.sh.tok b = true ∧ s.sh.duty b = false
  e3 : ∀ (b : Bid), s.sh.tok b = true → s.sh.duty b = false → s.sh.pb = some b
  o1 : ∀ (b : Bid), b < s.sh.nextB → s.sh.aph b ≠ .a5 → s.sh.cons b = false → owns (s.pcs (s.sh.own b)) = some b ∧ s.sh.own b < s.n
  k1 : ∀ (b : Bid), s.sh.cons b = true → s.sh.tok b = false ∧ s.sh.aph b = .a0 ∧ s.sh.vph b ≠ .v0 ∧ s.sh.vph b ≠ .v1
  k2 : ∀ (t : Tid) (b : Bid), owns (s.pcs t) = some b → s.sh.cons b = false

theorem inv_init (n : Nat) : Inv (init n 1) := by
  have hz : cntOf n carrierA (fun _ => Pc.idle) = 0 := cntOf_zero_of n carrierA _ (by intro u _; rfl)
  have hzF : cntOf n atFsub (fun _ => Pc.idle) = 0 := cntOf_zero_of n atFsub _ (by intro u _; rfl)
  have hzP : cntOf n atPop (fun _ => Pc.idle) = 0 := cntOf_zero_of n atPop _ (by intro u _; rfl)
  constructor <;> simp [init, owns, wakes, okB, atFsub, atPop, carrierA, hz, hzF, hzP]

/-! the per-blocker product automaton: a finite table, checked exhaustively by the kernel -/
structure Tup where
  a : APh
  v : VPh
  unp : Bool
  rel : Bool
  duty : Bool
  deriving DecidableEq, Repr

def Tup.ok (x : Tup) : Bool := okB x.a x.v x.unp x.rel x.duty

/-- local steps; the second component says "a second commitment happened" -/
def lsteps (x : Tup) : List (Tup × Bool) :=
  (if x.v = .v0 then [({ x with v := .v1 }, false)] else []) ++
  (if x.v = .v1 then [({ x with v := .v2 }, false)] else []) ++
  (if x.v = .v2 then [({ x with v := .v3, unp := true }, false)] else []) ++
  (if x.v = .v3 then [({ x with v := .v4, rel := false, duty := x.duty || x.rel }, x.rel && x.duty)] else []) ++
  (if x.a = .a0 then [({ x with a := .a1 }, false)] else []) ++
  (if x.a = .a1 then [(if x.unp then { x with a := .a5, duty := true } else { x with a := .a2 }, x.unp && x.duty)] else []) ++
  (if x.a = .a2 then [({ x with a := .a3, rel := true }, false)] else []) ++
  (if x.a = .a3 then [(if x.unp then { x with a := .a4 } else { x with a := .a5 }, false)] else []) ++
  (if x.a = .a4 then [({ x with a := .a5, rel := false, duty := x.duty || x.rel }, x.rel && x.duty)] else [])

def allA : List APh := [.a0, .a1, .a2, .a3, .a4, .a5]
def allV : List VPh := [.v0, .v1, .v2, .v3, .v4]
def allB : List Bool := [false, true]
def allTup : List Tup := allA.flatMap fun a => allV.flatMap fun v => allB.flatMap fun u => allB.flatMap fun r => allB.map fun d => ⟨a, v, u, r, d⟩

/-- the table is inductive and never commits twice -/
theorem table_inductive : allTup.all (fun x => !x.ok || (lsteps x).all (fun y => y.1.ok && !y.2)) = true := by decide +kernel
theorem table_init : (Tup.ok ⟨.a0, .v0, false, false, false⟩) = true := by decide
/-- hand-over: when both sides are finished, the popped∧aborted blocker carries a commitment -/
theorem table_final : allTup.all (fun x => !x.ok || !(x.a = .a5 && x.v = .v4) || x.duty) = true := by decide +kernel
/-- nobody commits for a blocker that was not both popped (woken) and aborted -/
theorem table_sound : allTup.all (fun x => !x.ok || !x.duty || ((x.v = .v3 || x.v = .v4) && x.a != .a0 && x.a != .a1 && x.a != .a2)) = true := by decide +kernel

/-! local-step lemmas extracted from the table (each by exhaustive `decide`) -/
theorem ok_pop (a : APh) (u r d : Bool) (h : okB a .v0 u r d = true) : okB a .v1 u r d = true := by cases a <;> cases u <;> cases r <;> cases d <;> revert h <;> decide
theorem ok_wake1 (a : APh) (u r d : Bool) (h : okB a .v1 u r d = true) : okB a .v2 u r d = true := by cases a <;> cases u <;> cases r <;> cases d <;> revert h <;> decide
theorem ok_wake2 (a : APh) (u r d : Bool) (h : okB a .v2 u r d = true) : okB a .v3 true r d = true := by cases a <;> cases u <;> cases r <;> cases d <;> revert h <;> decide
theorem ok_wake3 (a : APh) (u r d : Bool) (h : okB a .v3 u r d = true) :
    okB a .v4 u false (if r then true else d) = true ∧ (r && d) = false := by cases a <;> cases u <;> cases r <;> cases d <;> revert h <;> decide
theorem ok_abort (v : VPh) (u r d : Bool) (h : okB .a0 v u r d = true) : okB .a1 v u r d = true := by cases v <;> cases u <;> cases r <;> cases d <;> revert h <;> decide
theorem ok_w6 (v : VPh) (u r d : Bool) (h : okB .a1 v u r d = true) :
    (u = true → okB .a5 v u r true = true ∧ d = false) ∧ (u = false → okB .a2 v u r d = true) := by
  cases v <;> cases u <;> cases r <;> cases d <;> revert h <;> decide
theorem ok_w7 (v : VPh) (u r d : Bool) (h : okB .a2 v u r d = true) : okB .a3 v u true d = true := by cases v <;> cases u <;> cases r <;> cases d <;> revert h <;> decide
theorem ok_w8 (v : VPh) (u r d : Bool) (h : okB .a3 v u r d = true) :
    (u = true → okB .a4 v u r d = true) ∧ (u = false → okB .a5 v u r d = true) := by
  cases v <;> cases u <;> cases r <;> cases d <;> revert h <;> decide
theorem ok_w9 (v : VPh) (u r d : Bool) (h : okB .a4 v u r d = true) :
    okB .a5 v u false (if r then true else d) = true ∧ (r && d) = false := by cases v <;> cases u <;> cases r <;> cases d <;> revert h <;> decide



theorem ok_duty (a : APh) (v : VPh) (u r d : Bool) (h : okB a v u r d = true) (hd : d = true) :
    (v = .v3 ∨ v = .v4) ∧ a ≠ .a0 ∧ a ≠ .a1 ∧ a ≠ .a2 ∧ r = false := by
  cases a <;> cases v <;> cases u <;> cases r <;> cases d <;> revert h <;> simp_all <;> decide
theorem ok_rel (a : APh) (v : VPh) (u r d : Bool) (h : okB a v u r d = true) (hr : r = true) :
    a ≠ .a0 ∧ a ≠ .a1 ∧ a ≠ .a2 ∧ d = false := by
  cases a <;> cases v <;> cases u <;> cases r <;> cases d <;> revert h <;> simp_all <;> decide
theorem ok_unp (a : APh) (v : VPh) (u r d : Bool) (h : okB a v u r d = true) : (u = true ↔ (v = .v3 ∨ v = .v4)) := by
  cases a <;> cases v <;> cases u <;> cases r <;> cases d <;> revert h <;> simp_all <;> decide
theorem ok_pre (a : APh) (v : VPh) (u r d : Bool) (h : okB a v u r d = true) (ha : a = .a0 ∨ a = .a1 ∨ a = .a2) : r = false ∧ d = false := by
  cases a <;> cases v <;> cases u <;> cases r <;> cases d <;> revert h <;> simp_all <;> decide
theorem ok_a4 (a : APh) (v : VPh) (u r d : Bool) (h : okB a v u r d = true) (ha : a = .a4) : u = true := by
  cases a <;> cases v <;> cases u <;> cases r <;> cases d <;> revert h <;> simp_all <;> decide
theorem ok_final (u r d : Bool) (h : okB .a5 .v4 u r d = true) : d = true := by
  cases u <;> cases r <;> cases d <;> revert h <;> decide

attribute [irreducible] okB

theorem wakes_vphOf (pc : Pc) (b : Bid) (h : wakes pc = some b) : vphOf pc = some .v1 ∨ vphOf pc = some .v2 ∨ vphOf pc = some .v3 := by
  cases pc <;> simp_all [wakes, vphOf]


set_option hygiene false in
macro "prep" w:term : tactic => `(tactic|
  (have hokw := hok $w; have hvirw := hvir $w; have hinQw := hinQ $w; have hfqw := hfq $w
   have hvLt := hvL t $w; have haLt := haL t $w; have hfrt := hfr t $w; have hfwt := hfw t $w; have hnq := hnotQ t $w; have hn1t := hn1 t $w; have hn2w := hn2 $w; have hn3t := hn3 t $w; have hn4w := hn4 $w; have hn5w := hn5 $w; have hodw := ok_duty _ _ _ _ _ (hok $w); have horw := ok_rel _ _ _ _ _ (hok $w); have houw := ok_unp _ _ _ _ _ (hok $w); have hopw := ok_pre _ _ _ _ _ (hok $w); have hoa4 := ok_a4 _ _ _ _ _ (hok $w)
   (try simp [hpc, owns, wakes, aphOf, vphOf, notPushed, kB] at hvLt); (try simp [hpc, owns, wakes, aphOf, vphOf, notPushed, kB] at haLt)
   (try simp [hpc, owns, wakes, aphOf, vphOf, notPushed, kB] at hfrt); (try simp [hpc, owns, wakes, aphOf, vphOf, notPushed, kB] at hfwt)
   (try simp [hpc, owns, wakes, aphOf, vphOf, notPushed, kB] at hnq); (try simp [hpc, owns, wakes, aphOf, vphOf, notPushed, kB] at hn1t); (try simp [hpc, owns, wakes, aphOf, vphOf, notPushed, kB] at hn3t)))
set_option hygiene false in
macro "fin" : tactic => `(tactic| (constructor <;> dsimp only <;> first | grind [List.nodup_append, List.nodup_cons] | grind (splits := 40) [List.nodup_append, List.nodup_cons]))
set_option hygiene false in
macro "destruct_hts" : tactic => `(tactic|
  ((first
     | (simp only [tstep, contK] at hts)                      -- program points whose step does not depend on the env
     | (cases e <;> simp only [tstep, contK] at hts)) <;>
   (try contradiction) <;> (repeat' split at hts) <;> (try contradiction) <;>
   (try simp only [Option.some.injEq, Prod.mk.injEq] at hts) <;> obtain ⟨rfl, rfl⟩ := hts))

end MayVerif.Mutex
