import MayVerif.Proof.Sync.Mutex.Inv
namespace MayVerif.Mutex

set_option maxHeartbeats 6000000 in
theorem inv_w3pop (n : Nat) (sh : Sh) (pcs : Tid → Pc) (t : Tid) (e : Env) (k : K) (hlt : t < n)
    (h : Inv ⟨n, sh, pcs⟩) (hpc : pcs t = (.w3pop k)) (sh' : Sh) (pc' : Pc)
    (hts : tstep sh t (.w3pop k) e = some (sh', pc')) : Inv ⟨n, sh', upd pcs t pc'⟩ := by
  obtain ⟨hnd, hfr, hfw, hfq, hvir, ho1, hw1, haL, hvL, hinQ, hnotQ, hok, hdup, hcb, hc1, hc2, hc3, hn1, hn2, hn3, hn4, hn5, hg1, hg2, hg3, hg4, hg5, he1, he2, he3, hO1, hk1, hk2⟩ := h
  simp only at hnd hfr hfw hfq hvir ho1 hw1 haL hvL hinQ hnotQ hok hdup hcb hc1 hc2 hc3 hn1 hn2 hn3 hn4 hn5 hg1 hg2 hg3 hg4 hg5 he1 he2 he3 hO1 hk1 hk2
  have hF := fun v => cntOf_upd n atFsub pcs t v hlt
  have hP := fun v => cntOf_upd n atPop pcs t v hlt
  have hC := fun v => cntOf_upd n carrierA pcs t v hlt
  rw [hpc] at hF hP hC
  simp only [atFsub, atPop, carrierA] at hF hP hC
  cases e <;> simp only [tstep, contK] at hts <;>
    (split at hts
     · contradiction
     next w q' heq =>
       simp only [Option.some.injEq, Prod.mk.injEq] at hts
       obtain ⟨rfl, rfl⟩ := hts
       have hokw := hok w; have hinQw := hinQ w; have hfqw := hfq w; have hvirw := hvir w
       have hl := ok_pop _ _ _ _ (by rw [hinQw (by simp [heq])] at hokw; exact hokw)
       have hfrt := hfr t; have haLt := haL t
       have hwv := fun u => wakes_vphOf (pcs u) w
       have hvLw := fun u => hvL u w
       have hinw : w ∈ sh.q := by simp [heq]
       have hv0 := hinQw hinw
       fin)

end MayVerif.Mutex
