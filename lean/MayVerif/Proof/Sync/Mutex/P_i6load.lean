import MayVerif.Proof.Sync.Mutex.Inv
namespace MayVerif.Mutex

set_option maxHeartbeats 2000000 in
theorem inv_i6load (n : Nat) (sh : Sh) (pcs : Tid → Pc) (t : Tid) (e : Env) (b : Bid) (hlt : t < n)
    (h : Inv ⟨n, sh, pcs⟩) (hpc : pcs t = (.i6load b)) (sh' : Sh) (pc' : Pc)
    (hts : tstep sh t (.i6load b) e = some (sh', pc')) : Inv ⟨n, sh', upd pcs t pc'⟩ := by
  obtain ⟨hnd, hfr, hfw, hfq, hvir, ho1, hw1, haL, hvL, hinQ, hnotQ, hok, hdup, hcb, hc1, hc2, hc3, hn1, hn2, hn3, hn4, hn5, hg1, hg2, hg3, hg4, hg5, he1, he2, he3, hO1, hk1, hk2⟩ := h
  simp only at hnd hfr hfw hfq hvir ho1 hw1 haL hvL hinQ hnotQ hok hdup hcb hc1 hc2 hc3 hn1 hn2 hn3 hn4 hn5 hg1 hg2 hg3 hg4 hg5 he1 he2 he3 hO1 hk1 hk2
  have hF := fun v => cntOf_upd n atFsub pcs t v hlt
  have hP := fun v => cntOf_upd n atPop pcs t v hlt
  have hC := fun v => cntOf_upd n carrierA pcs t v hlt
  rw [hpc] at hF hP hC
  simp only [atFsub, atPop, carrierA] at hF hP hC
  destruct_hts <;> (prep b; have he2b := he2 b; have he3b := he3 b; have hk1b := hk1 b; have hk2t := hk2 t b; fin)

end MayVerif.Mutex
