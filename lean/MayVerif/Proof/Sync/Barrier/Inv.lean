/-
  Invariant of the spec-level Barrier model.
-/
import MayVerif.Model.Sync.Barrier
namespace MayVerif.Barrier

structure Inv (s : St) : Prop where
  c0 : 1 ≤ s.sh.N
  c1 : s.sh.count < s.sh.N
  c2 : s.sh.arr s.sh.gen = s.sh.count
  c3 : ∀ (g : Nat), g < s.sh.gen → s.sh.arr g = s.sh.N
  c4 : ∀ (g : Nat), s.sh.gen < g → s.sh.arr g = 0
  c5 : s.sh.nall = s.sh.gen
  l1 : ∀ (g : Nat), g < s.sh.gen → s.sh.ldr g = 1
  l2 : ∀ (g : Nat), s.sh.gen ≤ g → s.sh.ldr g = 0
  p1 : ∀ (t lg e : Nat), s.pcs t = .bwait lg e → lg ≤ s.sh.gen ∧ e = lg
  p2 : ∀ (t lg : Nat), s.pcs t = .bwoken lg → lg ≤ s.sh.gen
  p3 : ∀ (t : Nat) (l : Bool) (g : Nat), s.pcs t = .done l g → g < s.sh.gen
  p4 : ∀ (t g : Nat), s.pcs t = .done true g → s.sh.who g = t

theorem inv_init (n N : Nat) (hN : 1 ≤ N) : Inv (init n N) := by
  constructor <;> simp [init] <;> omega

set_option maxHeartbeats 1000000 in
theorem inv_tstep (n : Nat) (sh : Sh) (pcs : Nat → Pc) (t : Nat) (e : Env) (h : Inv ⟨n, sh, pcs⟩) (sh' : Sh) (pc' : Pc)
    (hts : tstep sh t (pcs t) e = some (sh', pc')) : Inv ⟨n, sh', upd pcs t pc'⟩ := by
  obtain ⟨c0, c1, c2, c3, c4, c5, l1, l2, p1, p2, p3, p4⟩ := h
  simp only at c0 c1 c2 c3 c4 c5 l1 l2 p1 p2 p3 p4
  have hp1 := p1 t; have hp2 := p2 t; have hp3 := p3 t; have hp4 := p4 t
  generalize hpc : pcs t = pc at hts hp1 hp2 hp3 hp4
  cases pc <;> cases e <;> simp only [tstep] at hts <;> (try contradiction) <;> (repeat' split at hts) <;> (try contradiction) <;>
    (try simp only [Option.some.injEq, Prod.mk.injEq] at hts) <;> obtain ⟨rfl, rfl⟩ := hts <;>
    constructor <;> simp only [] <;> grind

theorem inv_step (s s' : St) (t : Nat) (e : Env) (h : Inv s) (hs : step s t e = some s') : Inv s' := by
  obtain ⟨n, sh, pcs⟩ := s
  simp only [step] at hs
  split at hs
  case isFalse => contradiction
  next hlt =>
  split at hs
  · contradiction
  next sh' pc' hts =>
  simp only [Option.some.injEq] at hs
  subst hs
  exact inv_tstep n sh pcs t e h sh' pc' hts

theorem inv_run (s : St) (sched : List (Nat × Env)) (h : Inv s) : Inv (run s sched) := by
  induction sched generalizing s with
  | nil => simpa [run]
  | cons te r ih =>
    obtain ⟨t, e⟩ := te
    simp only [run]
    split
    · next s' hs => exact ih _ (inv_step _ _ _ _ h hs)
    · exact ih _ h

theorem step_N (s s' : St) (t : Nat) (e : Env) (hs : step s t e = some s') : s'.sh.N = s.sh.N := by
  obtain ⟨n, sh, pcs⟩ := s
  simp only [step] at hs
  split at hs
  case isFalse => contradiction
  next hlt =>
  split at hs
  · contradiction
  next sh' pc' hts =>
  simp only [Option.some.injEq] at hs
  subst hs
  generalize pcs t = pc at hts
  cases pc <;> cases e <;> simp only [tstep] at hts <;> (try contradiction) <;> (repeat' split at hts) <;> (try contradiction) <;>
    (try simp only [Option.some.injEq, Prod.mk.injEq] at hts) <;> obtain ⟨rfl, rfl⟩ := hts <;> rfl

theorem run_N (s : St) (sched : List (Nat × Env)) : (run s sched).sh.N = s.sh.N := by
  induction sched generalizing s with
  | nil => rfl
  | cons te r ih =>
    obtain ⟨t, e⟩ := te
    simp only [run]
    split
    · next s' hs => rw [ih, step_N _ _ _ _ hs]
    · exact ih _

end MayVerif.Barrier
