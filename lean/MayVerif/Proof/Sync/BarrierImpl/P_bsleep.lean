import MayVerif.Proof.Sync.BarrierImpl.Inv
namespace MayVerif.BarrierImpl

set_option maxHeartbeats 2000000 in
theorem inv_bsleep (n : Nat) (sh : Sh) (pcs : Nat → Pc) (t : Nat) (e : Env) (lg : Nat) (ep : Nat)
    (h : Inv ⟨n, sh, pcs⟩) (hpc : pcs t = (.bsleep lg ep)) (sh' : Sh) (pc' : Pc)
    (hts : tstep sh t (.bsleep lg ep) e = some (sh', pc')) : Inv ⟨n, sh', upd pcs t pc'⟩ := by
  bintro
  bstep

end MayVerif.BarrierImpl
