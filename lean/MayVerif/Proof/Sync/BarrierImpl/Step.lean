import MayVerif.Proof.Sync.BarrierImpl.P_idle
import MayVerif.Proof.Sync.BarrierImpl.P_b0lock
import MayVerif.Proof.Sync.BarrierImpl.P_b1gen
import MayVerif.Proof.Sync.BarrierImpl.P_b2inc
import MayVerif.Proof.Sync.BarrierImpl.P_b3cmp
import MayVerif.Proof.Sync.BarrierImpl.P_b4pred
import MayVerif.Proof.Sync.BarrierImpl.P_b5wait
import MayVerif.Proof.Sync.BarrierImpl.P_bsleep
import MayVerif.Proof.Sync.BarrierImpl.P_bwake
import MayVerif.Proof.Sync.BarrierImpl.P_b7reset
import MayVerif.Proof.Sync.BarrierImpl.P_b8gen
import MayVerif.Proof.Sync.BarrierImpl.P_b9notify
import MayVerif.Proof.Sync.BarrierImpl.P_b6unlock
import MayVerif.Proof.Sync.BarrierImpl.P_done
namespace MayVerif.BarrierImpl

theorem inv_step (s s' : St) (t : Nat) (e : Env) (h : Inv s) (hs : step s t e = some s') : Inv s' := by
  obtain ⟨n, sh, pcs⟩ := s
  simp only [step] at hs
  split at hs
  case isFalse => contradiction
  next hlt =>
  split at hs
  · contradiction
  next sh' pc' hts =>
  simp only [Option.some.injEq] at hs
  subst hs
  generalize hpc : pcs t = pc at hts
  cases pc with
   | idle  => exact inv_idle n sh pcs t e h hpc sh' pc' hts
   | b0lock  => exact inv_b0lock n sh pcs t e h hpc sh' pc' hts
   | b1gen  => exact inv_b1gen n sh pcs t e h hpc sh' pc' hts
   | b2inc lg => exact inv_b2inc n sh pcs t e lg h hpc sh' pc' hts
   | b3cmp lg => exact inv_b3cmp n sh pcs t e lg h hpc sh' pc' hts
   | b4pred lg => exact inv_b4pred n sh pcs t e lg h hpc sh' pc' hts
   | b5wait lg => exact inv_b5wait n sh pcs t e lg h hpc sh' pc' hts
   | bsleep lg ep => exact inv_bsleep n sh pcs t e lg ep h hpc sh' pc' hts
   | bwake lg => exact inv_bwake n sh pcs t e lg h hpc sh' pc' hts
   | b7reset lg => exact inv_b7reset n sh pcs t e lg h hpc sh' pc' hts
   | b8gen lg => exact inv_b8gen n sh pcs t e lg h hpc sh' pc' hts
   | b9notify lg => exact inv_b9notify n sh pcs t e lg h hpc sh' pc' hts
   | b6unlock l lg => exact inv_b6unlock n sh pcs t e l lg h hpc sh' pc' hts
   | done l lg => exact inv_done n sh pcs t e l lg h hpc sh' pc' hts

theorem inv_run (s : St) (sched : List (Nat × Env)) (h : Inv s) : Inv (run s sched) := by
  induction sched generalizing s with
  | nil => simpa [run]
  | cons te r ih =>
    obtain ⟨t, e⟩ := te
    simp only [run]
    split
    · next s' hs => exact ih _ (inv_step _ _ _ _ h hs)
    · exact ih _ h

end MayVerif.BarrierImpl
