import MayVerif.Proof.Sync.BarrierImpl.Inv
namespace MayVerif.BarrierImpl

set_option maxHeartbeats 2000000 in
theorem inv_idle (n : Nat) (sh : Sh) (pcs : Nat → Pc) (t : Nat) (e : Env)
    (h : Inv ⟨n, sh, pcs⟩) (hpc : pcs t = (.idle)) (sh' : Sh) (pc' : Pc)
    (hts : tstep sh t (.idle) e = some (sh', pc')) : Inv ⟨n, sh', upd pcs t pc'⟩ := by
  bintro
  bstep

end MayVerif.BarrierImpl
