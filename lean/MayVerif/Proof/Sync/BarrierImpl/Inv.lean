/-
  Invariant of the implementation-level Barrier model (the code's predicate, `seeded = false`).
-/
import MayVerif.Model.Sync.BarrierImpl
namespace MayVerif.BarrierImpl

/-- the phase of the arrival / release sequence implied by the lock holder's pc -/
@[grind] def phOf : Pc → Nat
  | .b3cmp _ => 1 | .b7reset _ => 2 | .b8gen _ => 3 | .b9notify _ => 4 | _ => 0

structure Inv (s : St) : Prop where
  sd : s.sh.seeded = false
  c0 : 1 ≤ s.sh.N
  m1 : ∀ (t : Nat), holds (s.pcs t) = true → s.sh.locked = true ∧ s.sh.owner = t
  m2 : s.sh.locked = false → s.sh.ph = 0
  m3 : ∀ (t : Nat), holds (s.pcs t) = true → s.sh.ph = phOf (s.pcs t)
  p0 : s.sh.ph = 0 → s.sh.count < s.sh.N ∧ s.sh.arr s.sh.gen = s.sh.count ∧ s.sh.nall = s.sh.gen ∧ s.sh.ldr s.sh.gen = 0
  p1 : s.sh.ph = 1 → 1 ≤ s.sh.count ∧ s.sh.count ≤ s.sh.N ∧ s.sh.arr s.sh.gen = s.sh.count ∧ s.sh.nall = s.sh.gen ∧ s.sh.ldr s.sh.gen = 0
  p2 : s.sh.ph = 2 → s.sh.count = s.sh.N ∧ s.sh.arr s.sh.gen = s.sh.N ∧ s.sh.nall = s.sh.gen ∧ s.sh.ldr s.sh.gen = 1
  p3 : s.sh.ph = 3 → s.sh.count = 0 ∧ s.sh.arr s.sh.gen = s.sh.N ∧ s.sh.nall = s.sh.gen ∧ s.sh.ldr s.sh.gen = 1
  p4 : s.sh.ph = 4 → s.sh.count = 0 ∧ s.sh.arr s.sh.gen = 0 ∧ s.sh.nall + 1 = s.sh.gen ∧ s.sh.ldr s.sh.gen = 0
  pr : s.sh.ph ≤ 4
  c3 : ∀ (g : Nat), g < s.sh.gen → s.sh.arr g = s.sh.N ∧ s.sh.ldr g = 1
  c4 : ∀ (g : Nat), s.sh.gen < g → s.sh.arr g = 0 ∧ s.sh.ldr g = 0
  g2 : ∀ (t lg : Nat), s.pcs t = .b2inc lg → lg = s.sh.gen
  g3 : ∀ (t lg : Nat), s.pcs t = .b3cmp lg → lg = s.sh.gen
  g5 : ∀ (t lg : Nat), s.pcs t = .b5wait lg → lg = s.sh.gen
  g7 : ∀ (t lg : Nat), s.pcs t = .b7reset lg → lg = s.sh.gen ∧ s.sh.who lg = t
  g8 : ∀ (t lg : Nat), s.pcs t = .b8gen lg → lg = s.sh.gen ∧ s.sh.who lg = t
  g9 : ∀ (t lg : Nat), s.pcs t = .b9notify lg → lg + 1 = s.sh.gen ∧ s.sh.who lg = t
  g4 : ∀ (t lg : Nat), s.pcs t = .b4pred lg → lg ≤ s.sh.gen
  gw : ∀ (t lg : Nat), s.pcs t = .bwake lg → lg ≤ s.sh.gen
  gs : ∀ (t lg e : Nat), s.pcs t = .bsleep lg e → lg ≤ s.sh.gen ∧ e = lg
  g6 : ∀ (t : Nat) (l : Bool) (lg : Nat), s.pcs t = .b6unlock l lg → lg < s.sh.gen ∧ (l = true → s.sh.who lg = t)
  gd : ∀ (t : Nat) (l : Bool) (lg : Nat), s.pcs t = .done l lg → lg < s.sh.gen ∧ (l = true → s.sh.who lg = t)

theorem inv_init (n N : Nat) (hN : 1 ≤ N) : Inv (init n N false) := by
  constructor <;> simp [init, holds] <;> omega

set_option hygiene false in
macro "bintro" : tactic => `(tactic|
  (obtain ⟨sd, c0, m1, m2, m3, p0, p1, p2, p3, p4, pr, c3, c4, g2, g3, g5, g7, g8, g9, g4, gw, gs, g6, gd⟩ := h
   simp only at sd c0 m1 m2 m3 p0 p1 p2 p3 p4 pr c3 c4 g2 g3 g5 g7 g8 g9 g4 gw gs g6 gd
   have hm1 := m1 t; have hm3 := m3 t
   have h2 := g2 t; have h3 := g3 t; have h5 := g5 t; have h7 := g7 t; have h8 := g8 t; have h9 := g9 t
   have h4 := g4 t; have hw := gw t; have hs := gs t; have h6 := g6 t; have hd := gd t
   simp [hpc, holds, phOf] at hm1 hm3 h2 h3 h5 h7 h8 h9 h4 hw hs h6 hd))
set_option hygiene false in
macro "bstep" : tactic => `(tactic|
  (cases e <;> simp only [tstep, sd] at hts <;> (try contradiction) <;> (repeat' split at hts) <;> (try contradiction) <;>
    (try simp only [Option.some.injEq, Prod.mk.injEq] at hts) <;> obtain ⟨rfl, rfl⟩ := hts <;>
    constructor <;> simp only [] <;> grind))
set_option hygiene false in
macro "bstep0" : tactic => `(tactic|
  (simp only [tstep, sd] at hts <;> (repeat' split at hts) <;> (try contradiction) <;>
    (try simp only [Option.some.injEq, Prod.mk.injEq] at hts) <;> obtain ⟨rfl, rfl⟩ := hts <;>
    constructor <;> simp only [] <;> grind))

theorem step_N (s s' : St) (t : Nat) (e : Env) (hs : step s t e = some s') : s'.sh.N = s.sh.N := by
  obtain ⟨n, sh, pcs⟩ := s
  simp only [step] at hs
  split at hs
  case isFalse => contradiction
  next hlt =>
  split at hs
  · contradiction
  next sh' pc' hts =>
  simp only [Option.some.injEq] at hs
  subst hs
  generalize pcs t = pc at hts
  cases pc <;> cases e <;> simp only [tstep] at hts <;> (try contradiction) <;> (repeat' split at hts) <;> (try contradiction) <;>
    (try simp only [Option.some.injEq, Prod.mk.injEq] at hts) <;> obtain ⟨rfl, rfl⟩ := hts <;> rfl

theorem run_N (s : St) (sched : List (Nat × Env)) : (run s sched).sh.N = s.sh.N := by
  induction sched generalizing s with
  | nil => rfl
  | cons te r ih =>
    obtain ⟨t, e⟩ := te
    simp only [run]
    split
    · next s' hs => rw [ih, step_N _ _ _ _ hs]
    · exact ih _

end MayVerif.BarrierImpl
