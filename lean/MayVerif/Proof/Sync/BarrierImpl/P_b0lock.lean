import MayVerif.Proof.Sync.BarrierImpl.Inv
namespace MayVerif.BarrierImpl

set_option maxHeartbeats 2000000 in
theorem inv_b0lock (n : Nat) (sh : Sh) (pcs : Nat → Pc) (t : Nat) (e : Env)
    (h : Inv ⟨n, sh, pcs⟩) (hpc : pcs t = (.b0lock)) (sh' : Sh) (pc' : Pc)
    (hts : tstep sh t (.b0lock) e = some (sh', pc')) : Inv ⟨n, sh', upd pcs t pc'⟩ := by
  bintro
  bstep0

end MayVerif.BarrierImpl
