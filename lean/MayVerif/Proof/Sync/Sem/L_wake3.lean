import MayVerif.Proof.Sync.Sem.Led
namespace MayVerif.Sem

set_option maxHeartbeats 2000000 in
theorem led_wake3 (i n : Nat) (sh : Sh) (pcs : Tid → Pc) (t : Tid) (e : Env) (w : Bid) (k : K) (hlt : t < n)
    (h : Inv ⟨n, sh, pcs⟩) (hL : Led i ⟨n, sh, pcs⟩) (hpc : pcs t = (.wake3 w k)) (sh' : Sh) (pc' : Pc)
    (hts : tstep sh t (.wake3 w k) e = some (sh', pc')) : Led i ⟨n, sh', upd pcs t pc'⟩ := by
  open_led
  cases k <;> simp only [isExt, Bool.not_true, Bool.not_false] at hk8t <;> (try contradiction) <;> destruct_hts <;> (prepL w; cntL w, hfwt; rw [hvLt] at hokx; have hl := ok_wake3 _ _ _ _ hokx; finL)

end MayVerif.Sem
