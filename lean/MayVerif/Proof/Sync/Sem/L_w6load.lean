import MayVerif.Proof.Sync.Sem.Led
namespace MayVerif.Sem

set_option maxHeartbeats 2000000 in
theorem led_w6load (i n : Nat) (sh : Sh) (pcs : Tid → Pc) (t : Tid) (e : Env) (b : Bid) (hlt : t < n)
    (h : Inv ⟨n, sh, pcs⟩) (hL : Led i ⟨n, sh, pcs⟩) (hpc : pcs t = (.w6load b)) (sh' : Sh) (pc' : Pc)
    (hts : tstep sh t (.w6load b) e = some (sh', pc')) : Led i ⟨n, sh', upd pcs t pc'⟩ := by
  open_led
  destruct_hts <;> (prepL b; cntL b, hfrt; rw [haLt] at hokx; have hl := ok_w6 _ _ _ _ hokx; finL)

end MayVerif.Sem
