import MayVerif.Proof.Sync.Sem.Inv
namespace MayVerif.Sem

set_option maxHeartbeats 2000000 in
theorem inv_c0cas (n : Nat) (sh : Sh) (pcs : Tid → Pc) (t : Tid) (e : Env) (w : Bool) (c : Int) (hlt : t < n)
    (h : Inv ⟨n, sh, pcs⟩) (hpc : pcs t = (.c0cas w c)) (sh' : Sh) (pc' : Pc)
    (hts : tstep sh t (.c0cas w c) e = some (sh', pc')) : Inv ⟨n, sh', upd pcs t pc'⟩ := by
  open_inv
  destruct_hts <;> (have hfrt := hfr t; have hvn := hvir sh.nextB; fin)

end MayVerif.Sem
