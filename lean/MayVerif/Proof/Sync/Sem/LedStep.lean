import MayVerif.Proof.Sync.Sem.Step
import MayVerif.Proof.Sync.Sem.L_idle
import MayVerif.Proof.Sync.Sem.L_done
import MayVerif.Proof.Sync.Sem.L_g0load
import MayVerif.Proof.Sync.Sem.L_c0load
import MayVerif.Proof.Sync.Sem.L_c0cas
import MayVerif.Proof.Sync.Sem.L_w1push
import MayVerif.Proof.Sync.Sem.L_w2fsub
import MayVerif.Proof.Sync.Sem.L_w3pop
import MayVerif.Proof.Sync.Sem.L_wake1
import MayVerif.Proof.Sync.Sem.L_wake2
import MayVerif.Proof.Sync.Sem.L_wake3
import MayVerif.Proof.Sync.Sem.L_w5park
import MayVerif.Proof.Sync.Sem.L_w6load
import MayVerif.Proof.Sync.Sem.L_w7set
import MayVerif.Proof.Sync.Sem.L_w8load
import MayVerif.Proof.Sync.Sem.L_w9swap
import MayVerif.Proof.Sync.Sem.L_p0fadd
namespace MayVerif.Sem

theorem led_step (i : Nat) (s s' : St) (t : Tid) (e : Env) (h : Inv s) (hL : Led i s) (hs : step s t e = some s') : Led i s' := by
  obtain ⟨n, sh, pcs⟩ := s
  simp only [step] at hs
  split at hs
  case isFalse => contradiction
  next hlt =>
  split at hs
  · contradiction
  next sh' pc' hts =>
  simp only [Option.some.injEq] at hs
  subst hs
  generalize hpc : pcs t = pc at hts
  cases pc with
  | idle => exact led_idle i n sh pcs t e hlt h hL hpc sh' pc' hts
  | done r => exact led_done i n sh pcs t e r hlt h hL hpc sh' pc' hts
  | g0load => exact led_g0load i n sh pcs t e hlt h hL hpc sh' pc' hts
  | c0load w => exact led_c0load i n sh pcs t e w hlt h hL hpc sh' pc' hts
  | c0cas w c => exact led_c0cas i n sh pcs t e w c hlt h hL hpc sh' pc' hts
  | w1push b => exact led_w1push i n sh pcs t e b hlt h hL hpc sh' pc' hts
  | w2fsub b => exact led_w2fsub i n sh pcs t e b hlt h hL hpc sh' pc' hts
  | w3pop k => exact led_w3pop i n sh pcs t e k hlt h hL hpc sh' pc' hts
  | wake1 w k => exact led_wake1 i n sh pcs t e w k hlt h hL hpc sh' pc' hts
  | wake2 w k => exact led_wake2 i n sh pcs t e w k hlt h hL hpc sh' pc' hts
  | wake3 w k => exact led_wake3 i n sh pcs t e w k hlt h hL hpc sh' pc' hts
  | w5park b => exact led_w5park i n sh pcs t e b hlt h hL hpc sh' pc' hts
  | w6load b => exact led_w6load i n sh pcs t e b hlt h hL hpc sh' pc' hts
  | w7set b => exact led_w7set i n sh pcs t e b hlt h hL hpc sh' pc' hts
  | w8load b => exact led_w8load i n sh pcs t e b hlt h hL hpc sh' pc' hts
  | w9swap b => exact led_w9swap i n sh pcs t e b hlt h hL hpc sh' pc' hts
  | p0fadd k => exact led_p0fadd i n sh pcs t e k hlt h hL hpc sh' pc' hts

theorem led_run (i : Nat) (s : St) (sched : List (Tid × Env)) (h : Inv s) (hL : Led i s) : Led i (run s sched) := by
  induction sched generalizing s with
  | nil => simpa [run]
  | cons te r ih =>
    obtain ⟨t, e⟩ := te
    simp only [run]
    split
    · next s' hs => exact ih _ (inv_step _ _ _ _ h hs) (led_step _ _ _ _ _ h hL hs)
    · exact ih _ h hL

/-- the transit count is non-negative: consumed tokens and commitments are disjoint sets of popped blockers -/
theorem led_transit (i : Nat) (s : St) (h : Inv s) (hL : Led i s) : s.sh.TK + s.sh.DU ≤ s.sh.pops := by
  rw [hL.k1, hL.k2, hL.k3]
  unfold cntOf
  apply cnt_disj_le
  · intro b _ hg
    have := (hL.k5 b (by simpa [isT] using hg)).1
    cases hv : s.sh.vph b <;> simp_all [isPopped]
  · intro b _ hd
    have := (ok_duty _ _ _ _ _ (h.ok b) (by simpa [isT] using hd)).1
    rcases this with hv | hv <;> simp [hv, isPopped]
  · intro b _ hg hd
    have h1 := (hL.k5 b (by simpa [isT] using hg)).2
    have h2 := (ok_duty _ _ _ _ _ (h.ok b) (by simpa [isT] using hd)).2.1
    exact h2 h1

/-- with every actor idle nothing is in transit: every popped blocker was consumed or compensated -/
theorem led_transit_idle (i : Nat) (s : St) (h : Inv s) (hL : Led i s) (hq : ∀ t, t < s.n → s.pcs t = .idle) :
    s.sh.TK + s.sh.DU = s.sh.pops := by
  rw [hL.k1, hL.k2, hL.k3]
  unfold cntOf
  apply cnt_disj_eq
  · intro b _ hg
    have := (hL.k5 b (by simpa [isT] using hg)).1
    cases hv : s.sh.vph b <;> simp_all [isPopped]
  · intro b _ hd
    have := (ok_duty _ _ _ _ _ (h.ok b) (by simpa [isT] using hd)).1
    rcases this with hv | hv <;> simp [hv, isPopped]
  · intro b _ hg hd
    have h1 := (hL.k5 b (by simpa [isT] using hg)).2
    have h2 := (ok_duty _ _ _ _ _ (h.ok b) (by simpa [isT] using hd)).2.1
    exact h2 h1
  · intro b hb hp
    simp only [isT]
    cases hg : s.sh.got b
    · right
      -- the owner is gone, so its abort path is finished
      have ha5 : s.sh.aph b = .a5 := by
        apply Classical.byContradiction
        intro hne
        obtain ⟨ho, hon⟩ := hL.k7 b hb hne hg
        rw [hq _ hon] at ho
        simp [owns] at ho
      -- nobody is waking it any more
      have hv4 : s.sh.vph b = .v4 := by
        have hmid : ¬ (s.sh.vph b = .v1 ∨ s.sh.vph b = .v2 ∨ s.sh.vph b = .v3) := by
          intro hm
          obtain ⟨hw, hwn⟩ := h.n2 b hm
          rw [hq _ hwn] at hw
          simp [wakes] at hw
        cases hv : s.sh.vph b <;> simp_all [isPopped]
      have hok := h.ok b
      rw [ha5, hv4] at hok
      exact ok_final _ _ _ hok
    · left; rfl

end MayVerif.Sem
