import MayVerif.Proof.Sync.Sem.Led
namespace MayVerif.Sem

set_option maxHeartbeats 2000000 in
theorem led_c0load (i n : Nat) (sh : Sh) (pcs : Tid → Pc) (t : Tid) (e : Env) (w : Bool) (hlt : t < n)
    (h : Inv ⟨n, sh, pcs⟩) (hL : Led i ⟨n, sh, pcs⟩) (hpc : pcs t = (.c0load w)) (sh' : Sh) (pc' : Pc)
    (hts : tstep sh t (.c0load w) e = some (sh', pc')) : Led i ⟨n, sh', upd pcs t pc'⟩ := by
  open_led
  destruct_hts <;> (have hS1 := cntOf_succ sh.nextB isPopped sh.vph; have hS2 := cntOf_succ sh.nextB isT sh.got; have hS3 := cntOf_succ sh.nextB isT sh.duty; have hvn := hvir sh.nextB; have hvgn := hvg sh.nextB; have hfrt := hfr t; finL)

end MayVerif.Sem
