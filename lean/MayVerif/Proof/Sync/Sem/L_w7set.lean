import MayVerif.Proof.Sync.Sem.Led
namespace MayVerif.Sem

set_option maxHeartbeats 2000000 in
theorem led_w7set (i n : Nat) (sh : Sh) (pcs : Tid → Pc) (t : Tid) (e : Env) (b : Bid) (hlt : t < n)
    (h : Inv ⟨n, sh, pcs⟩) (hL : Led i ⟨n, sh, pcs⟩) (hpc : pcs t = (.w7set b)) (sh' : Sh) (pc' : Pc)
    (hts : tstep sh t (.w7set b) e = some (sh', pc')) : Led i ⟨n, sh', upd pcs t pc'⟩ := by
  open_led
  destruct_hts <;> (prepL b; finL)

end MayVerif.Sem
