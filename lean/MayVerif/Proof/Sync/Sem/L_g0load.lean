import MayVerif.Proof.Sync.Sem.Led
namespace MayVerif.Sem

set_option maxHeartbeats 2000000 in
theorem led_g0load (i n : Nat) (sh : Sh) (pcs : Tid → Pc) (t : Tid) (e : Env)  (hlt : t < n)
    (h : Inv ⟨n, sh, pcs⟩) (hL : Led i ⟨n, sh, pcs⟩) (hpc : pcs t = .g0load) (sh' : Sh) (pc' : Pc)
    (hts : tstep sh t .g0load e = some (sh', pc')) : Led i ⟨n, sh', upd pcs t pc'⟩ := by
  open_led
  destruct_hts <;> finL

end MayVerif.Sem
