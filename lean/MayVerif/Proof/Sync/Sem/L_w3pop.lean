import MayVerif.Proof.Sync.Sem.Led
namespace MayVerif.Sem

set_option maxHeartbeats 2000000 in
theorem led_w3pop (i n : Nat) (sh : Sh) (pcs : Tid → Pc) (t : Tid) (e : Env) (k : K) (hlt : t < n)
    (h : Inv ⟨n, sh, pcs⟩) (hL : Led i ⟨n, sh, pcs⟩) (hpc : pcs t = (.w3pop k)) (sh' : Sh) (pc' : Pc)
    (hts : tstep sh t (.w3pop k) e = some (sh', pc')) : Led i ⟨n, sh', upd pcs t pc'⟩ := by
  open_led
  cases e <;> simp only [tstep] at hts <;>
    (split at hts
     · contradiction
     next w q' heq =>
       simp only [Option.some.injEq, Prod.mk.injEq] at hts
       obtain ⟨rfl, rfl⟩ := hts
       have hinw : w ∈ sh.q := by simp [heq]
       have hfqw := hfq w hinw; have hv0 := hinQ w hinw
       have hk5w := hk5 w; have hk9w := hk9 w
       have hfrt := hfr t
       cntL w, hfqw
       finL)

end MayVerif.Sem
