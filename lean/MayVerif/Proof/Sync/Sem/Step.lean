import MayVerif.Proof.Sync.Sem.P_idle
import MayVerif.Proof.Sync.Sem.P_done
import MayVerif.Proof.Sync.Sem.P_g0load
import MayVerif.Proof.Sync.Sem.P_c0load
import MayVerif.Proof.Sync.Sem.P_c0cas
import MayVerif.Proof.Sync.Sem.P_w1push
import MayVerif.Proof.Sync.Sem.P_w2fsub
import MayVerif.Proof.Sync.Sem.P_w3pop
import MayVerif.Proof.Sync.Sem.P_wake1
import MayVerif.Proof.Sync.Sem.P_wake2
import MayVerif.Proof.Sync.Sem.P_wake3
import MayVerif.Proof.Sync.Sem.P_w5park
import MayVerif.Proof.Sync.Sem.P_w6load
import MayVerif.Proof.Sync.Sem.P_w7set
import MayVerif.Proof.Sync.Sem.P_w8load
import MayVerif.Proof.Sync.Sem.P_w9swap
import MayVerif.Proof.Sync.Sem.P_p0fadd
namespace MayVerif.Sem

theorem inv_step (s s' : St) (t : Tid) (e : Env) (h : Inv s) (hs : step s t e = some s') : Inv s' := by
  obtain ⟨n, sh, pcs⟩ := s
  simp only [step] at hs
  split at hs
  case isFalse => contradiction
  next hlt =>
  split at hs
  · contradiction
  next sh' pc' hts =>
  simp only [Option.some.injEq] at hs
  subst hs
  generalize hpc : pcs t = pc at hts
  cases pc with
  | idle => exact inv_idle n sh pcs t e hlt h hpc sh' pc' hts
  | done r => exact inv_done n sh pcs t e r hlt h hpc sh' pc' hts
  | g0load => exact inv_g0load n sh pcs t e hlt h hpc sh' pc' hts
  | c0load w => exact inv_c0load n sh pcs t e w hlt h hpc sh' pc' hts
  | c0cas w c => exact inv_c0cas n sh pcs t e w c hlt h hpc sh' pc' hts
  | w1push b => exact inv_w1push n sh pcs t e b hlt h hpc sh' pc' hts
  | w2fsub b => exact inv_w2fsub n sh pcs t e b hlt h hpc sh' pc' hts
  | w3pop k => exact inv_w3pop n sh pcs t e k hlt h hpc sh' pc' hts
  | wake1 w k => exact inv_wake1 n sh pcs t e w k hlt h hpc sh' pc' hts
  | wake2 w k => exact inv_wake2 n sh pcs t e w k hlt h hpc sh' pc' hts
  | wake3 w k => exact inv_wake3 n sh pcs t e w k hlt h hpc sh' pc' hts
  | w5park b => exact inv_w5park n sh pcs t e b hlt h hpc sh' pc' hts
  | w6load b => exact inv_w6load n sh pcs t e b hlt h hpc sh' pc' hts
  | w7set b => exact inv_w7set n sh pcs t e b hlt h hpc sh' pc' hts
  | w8load b => exact inv_w8load n sh pcs t e b hlt h hpc sh' pc' hts
  | w9swap b => exact inv_w9swap n sh pcs t e b hlt h hpc sh' pc' hts
  | p0fadd k => exact inv_p0fadd n sh pcs t e k hlt h hpc sh' pc' hts

theorem inv_run (s : St) (sched : List (Tid × Env)) (h : Inv s) : Inv (run s sched) := by
  induction sched generalizing s with
  | nil => simpa [run]
  | cons te r ih =>
    obtain ⟨t, e⟩ := te
    simp only [run]
    split
    · next s' hs => exact ih _ (inv_step _ _ _ _ h hs)
    · exact ih _ h

theorem step_n (s s' : St) (t : Tid) (e : Env) (hs : step s t e = some s') : s'.n = s.n := by
  simp only [step] at hs
  split at hs
  · split at hs
    · contradiction
    · simp only [Option.some.injEq] at hs; subst hs; rfl
  · contradiction

theorem run_n (s : St) (l : List (Tid × Env)) : (run s l).n = s.n := by
  induction l generalizing s with
  | nil => rfl
  | cons te r ih =>
    obtain ⟨t, e⟩ := te
    simp only [run]
    split
    · next s' hs => rw [ih]; exact step_n _ _ _ _ hs
    · exact ih _

theorem wakes_not_quiet (pc : Pc) (b : Bid) (h : wakes pc = some b) : pc ≠ .idle ∧ ∀ b', pc ≠ .w5park b' := by
  cases pc <;> simp_all [wakes]

end MayVerif.Sem
