import MayVerif.Proof.Sync.Sem.Led
namespace MayVerif.Sem

set_option maxHeartbeats 2000000 in
theorem led_wake2 (i n : Nat) (sh : Sh) (pcs : Tid → Pc) (t : Tid) (e : Env) (w : Bid) (k : K) (hlt : t < n)
    (h : Inv ⟨n, sh, pcs⟩) (hL : Led i ⟨n, sh, pcs⟩) (hpc : pcs t = (.wake2 w k)) (sh' : Sh) (pc' : Pc)
    (hts : tstep sh t (.wake2 w k) e = some (sh', pc')) : Led i ⟨n, sh', upd pcs t pc'⟩ := by
  open_led
  destruct_hts <;> (prepL w; cntL w, hfwt; finL)

end MayVerif.Sem
