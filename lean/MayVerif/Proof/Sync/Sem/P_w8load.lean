import MayVerif.Proof.Sync.Sem.Inv
namespace MayVerif.Sem

set_option maxHeartbeats 2000000 in
theorem inv_w8load (n : Nat) (sh : Sh) (pcs : Tid → Pc) (t : Tid) (e : Env) (b : Bid) (hlt : t < n)
    (h : Inv ⟨n, sh, pcs⟩) (hpc : pcs t = (.w8load b)) (sh' : Sh) (pc' : Pc)
    (hts : tstep sh t (.w8load b) e = some (sh', pc')) : Inv ⟨n, sh', upd pcs t pc'⟩ := by
  open_inv
  destruct_hts <;> (prep b; rw [haLt] at hokw; have hl := ok_w8 _ _ _ _ hokw; fin)

end MayVerif.Sem
