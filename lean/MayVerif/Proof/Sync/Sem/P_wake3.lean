import MayVerif.Proof.Sync.Sem.Inv
namespace MayVerif.Sem

set_option maxHeartbeats 2000000 in
theorem inv_wake3 (n : Nat) (sh : Sh) (pcs : Tid → Pc) (t : Tid) (e : Env) (w : Bid) (k : K) (hlt : t < n)
    (h : Inv ⟨n, sh, pcs⟩) (hpc : pcs t = (.wake3 w k)) (sh' : Sh) (pc' : Pc)
    (hts : tstep sh t (.wake3 w k) e = some (sh', pc')) : Inv ⟨n, sh', upd pcs t pc'⟩ := by
  open_inv
  destruct_hts <;> (prep w; rw [hvLt] at hokw; have hl := ok_wake3 _ _ _ _ hokw; fin)

end MayVerif.Sem
