/-
  Invariant of the Semphore model (gate counters, hand-over table, quiescence clauses) and the per-blocker
  hand-over table. (ported from the round-0 calibration `attic/round0/Gate4.lean` to the exact program points
  of semphore.rs; the table is the one of the Mutex slice)
-/
import MayVerif.Model.Sync.Sem
namespace MayVerif.Sem

def cntOf {α : Type} (n : Nat) (p : α → Bool) (f : Nat → α) : Nat := (List.range n).countP (fun u => p (f u))

theorem cntOf_upd {α : Type} (n : Nat) (p : α → Bool) (f : Nat → α) (t : Nat) (v : α) (ht : t < n) :
    cntOf n p (upd f t v) + (if p (f t) then 1 else 0) = cntOf n p f + (if p v then 1 else 0) := by
  unfold cntOf
  induction n with
  | zero => omega
  | succ k ih =>
    simp only [List.range_succ, List.countP_append, List.countP_cons, List.countP_nil]
    by_cases hk : t = k
    · subst hk
      have : List.countP (fun u => p (upd f t v u)) (List.range t) = List.countP (fun u => p (f u)) (List.range t) := by
        apply List.countP_congr
        intro x hx
        have : x < t := List.mem_range.mp hx
        have : x ≠ t := by omega
        simp [upd, this]
      rw [this]; simp [upd]; split <;> split <;> omega
    · have := ih (by omega)
      have h2 : upd f t v k = f k := by simp [upd]; intro h; omega
      rw [h2]; omega

theorem cntOf_zero_of {α : Type} (n : Nat) (p : α → Bool) (f : Nat → α) (h : ∀ u, u < n → p (f u) = false) : cntOf n p f = 0 := by
  unfold cntOf
  apply List.countP_eq_zero.mpr
  intro x hx
  simp [h x (List.mem_range.mp hx)]

theorem upd_app {α : Type} (f : Nat → α) (t : Nat) (v : α) (u : Nat) : upd f t v u = if u = t then v else f u := rfl

@[grind] def atFsub : Pc → Bool | .w2fsub _ => true | _ => false
@[grind] def atPop : Pc → Bool | .w3pop _ => true | _ => false

/-- blocker owned (as waiter) by an actor at this pc -/
@[grind] def kB : K → Option Bid | .toPark b => some b | .fin => none | .ext => none
def owns : Pc → Option Bid
  | .w1push b | .w2fsub b | .w5park b | .w6load b | .w7set b | .w8load b | .w9swap b => some b
  | .w3pop k | .wake1 _ k | .wake2 _ k | .wake3 _ k | .p0fadd k => kB k
  | _ => none
/-- blocker this actor is waking -/
def wakes : Pc → Option Bid
  | .wake1 w _ | .wake2 w _ | .wake3 w _ => some w
  | _ => none
/-- the abort phase an owner pc implies -/
def aphOf : Pc → Option APh
  | .w6load _ => some .a1 | .w7set _ => some .a2 | .w8load _ => some .a3 | .w9swap _ => some .a4
  | .w1push _ | .w2fsub _ | .w5park _ | .w3pop _ | .wake1 .. | .wake2 .. | .wake3 .. | .p0fadd _ => some .a0
  | _ => none
def vphOf : Pc → Option VPh
  | .wake1 .. => some .v1 | .wake2 .. => some .v2 | .wake3 .. => some .v3
  | _ => none
/-- pushed to the queue (for the owner pc) -/
def notPushed : Pc → Bool | .w1push _ => true | _ => false

/-! evaluation of the pc predicates on each program point (so that they are never unfolded on an unknown pc) -/
theorem owns_idle  : owns .idle = none := rfl
theorem owns_done {r} : owns (.done r) = none := rfl
theorem owns_c0load {w} : owns (.c0load w) = none := rfl
theorem owns_c0cas {w} {c} : owns (.c0cas w c) = none := rfl
theorem owns_g0load  : owns .g0load = none := rfl
theorem owns_w1push {b} : owns (.w1push b) = some b := rfl
theorem owns_w2fsub {b} : owns (.w2fsub b) = some b := rfl
theorem owns_w3pop {k} : owns (.w3pop k) = kB k := rfl
theorem owns_wake1 {w} {k} : owns (.wake1 w k) = kB k := rfl
theorem owns_wake2 {w} {k} : owns (.wake2 w k) = kB k := rfl
theorem owns_wake3 {w} {k} : owns (.wake3 w k) = kB k := rfl
theorem owns_w5park {b} : owns (.w5park b) = some b := rfl
theorem owns_w6load {b} : owns (.w6load b) = some b := rfl
theorem owns_w7set {b} : owns (.w7set b) = some b := rfl
theorem owns_w8load {b} : owns (.w8load b) = some b := rfl
theorem owns_w9swap {b} : owns (.w9swap b) = some b := rfl
theorem owns_p0fadd {k} : owns (.p0fadd k) = kB k := rfl
theorem wakes_idle  : wakes .idle = none := rfl
theorem wakes_done {r} : wakes (.done r) = none := rfl
theorem wakes_c0load {w} : wakes (.c0load w) = none := rfl
theorem wakes_c0cas {w} {c} : wakes (.c0cas w c) = none := rfl
theorem wakes_g0load  : wakes .g0load = none := rfl
theorem wakes_w1push {b} : wakes (.w1push b) = none := rfl
theorem wakes_w2fsub {b} : wakes (.w2fsub b) = none := rfl
theorem wakes_w3pop {k} : wakes (.w3pop k) = none := rfl
theorem wakes_wake1 {w} {k} : wakes (.wake1 w k) = some w := rfl
theorem wakes_wake2 {w} {k} : wakes (.wake2 w k) = some w := rfl
theorem wakes_wake3 {w} {k} : wakes (.wake3 w k) = some w := rfl
theorem wakes_w5park {b} : wakes (.w5park b) = none := rfl
theorem wakes_w6load {b} : wakes (.w6load b) = none := rfl
theorem wakes_w7set {b} : wakes (.w7set b) = none := rfl
theorem wakes_w8load {b} : wakes (.w8load b) = none := rfl
theorem wakes_w9swap {b} : wakes (.w9swap b) = none := rfl
theorem wakes_p0fadd {k} : wakes (.p0fadd k) = none := rfl
theorem aphOf_idle  : aphOf .idle = none := rfl
theorem aphOf_done {r} : aphOf (.done r) = none := rfl
theorem aphOf_c0load {w} : aphOf (.c0load w) = none := rfl
theorem aphOf_c0cas {w} {c} : aphOf (.c0cas w c) = none := rfl
theorem aphOf_g0load  : aphOf .g0load = none := rfl
theorem aphOf_w1push {b} : aphOf (.w1push b) = some .a0 := rfl
theorem aphOf_w2fsub {b} : aphOf (.w2fsub b) = some .a0 := rfl
theorem aphOf_w3pop {k} : aphOf (.w3pop k) = some .a0 := rfl
theorem aphOf_wake1 {w} {k} : aphOf (.wake1 w k) = some .a0 := rfl
theorem aphOf_wake2 {w} {k} : aphOf (.wake2 w k) = some .a0 := rfl
theorem aphOf_wake3 {w} {k} : aphOf (.wake3 w k) = some .a0 := rfl
theorem aphOf_w5park {b} : aphOf (.w5park b) = some .a0 := rfl
theorem aphOf_w6load {b} : aphOf (.w6load b) = some .a1 := rfl
theorem aphOf_w7set {b} : aphOf (.w7set b) = some .a2 := rfl
theorem aphOf_w8load {b} : aphOf (.w8load b) = some .a3 := rfl
theorem aphOf_w9swap {b} : aphOf (.w9swap b) = some .a4 := rfl
theorem aphOf_p0fadd {k} : aphOf (.p0fadd k) = some .a0 := rfl
theorem vphOf_idle  : vphOf .idle = none := rfl
theorem vphOf_done {r} : vphOf (.done r) = none := rfl
theorem vphOf_c0load {w} : vphOf (.c0load w) = none := rfl
theorem vphOf_c0cas {w} {c} : vphOf (.c0cas w c) = none := rfl
theorem vphOf_g0load  : vphOf .g0load = none := rfl
theorem vphOf_w1push {b} : vphOf (.w1push b) = none := rfl
theorem vphOf_w2fsub {b} : vphOf (.w2fsub b) = none := rfl
theorem vphOf_w3pop {k} : vphOf (.w3pop k) = none := rfl
theorem vphOf_wake1 {w} {k} : vphOf (.wake1 w k) = some .v1 := rfl
theorem vphOf_wake2 {w} {k} : vphOf (.wake2 w k) = some .v2 := rfl
theorem vphOf_wake3 {w} {k} : vphOf (.wake3 w k) = some .v3 := rfl
theorem vphOf_w5park {b} : vphOf (.w5park b) = none := rfl
theorem vphOf_w6load {b} : vphOf (.w6load b) = none := rfl
theorem vphOf_w7set {b} : vphOf (.w7set b) = none := rfl
theorem vphOf_w8load {b} : vphOf (.w8load b) = none := rfl
theorem vphOf_w9swap {b} : vphOf (.w9swap b) = none := rfl
theorem vphOf_p0fadd {k} : vphOf (.p0fadd k) = none := rfl
theorem notPushed_idle  : notPushed .idle = false := rfl
theorem notPushed_done {r} : notPushed (.done r) = false := rfl
theorem notPushed_c0load {w} : notPushed (.c0load w) = false := rfl
theorem notPushed_c0cas {w} {c} : notPushed (.c0cas w c) = false := rfl
theorem notPushed_g0load  : notPushed .g0load = false := rfl
theorem notPushed_w1push {b} : notPushed (.w1push b) = true := rfl
theorem notPushed_w2fsub {b} : notPushed (.w2fsub b) = false := rfl
theorem notPushed_w3pop {k} : notPushed (.w3pop k) = false := rfl
theorem notPushed_wake1 {w} {k} : notPushed (.wake1 w k) = false := rfl
theorem notPushed_wake2 {w} {k} : notPushed (.wake2 w k) = false := rfl
theorem notPushed_wake3 {w} {k} : notPushed (.wake3 w k) = false := rfl
theorem notPushed_w5park {b} : notPushed (.w5park b) = false := rfl
theorem notPushed_w6load {b} : notPushed (.w6load b) = false := rfl
theorem notPushed_w7set {b} : notPushed (.w7set b) = false := rfl
theorem notPushed_w8load {b} : notPushed (.w8load b) = false := rfl
theorem notPushed_w9swap {b} : notPushed (.w9swap b) = false := rfl
theorem notPushed_p0fadd {k} : notPushed (.p0fadd k) = false := rfl

/-- the per-blocker table: which (abort phase, waker phase, unparked, release, duty) combinations are allowed -/
def okB (a : APh) (v : VPh) (unp rel duty : Bool) : Bool :=
  -- unparked is exactly "waker reached v3"
  (unp == (v == .v3 || v == .v4)) &&
  -- release set only by the owner in a3.., cleared by the first swap; never together with duty
  (!rel || ((a == .a3 || a == .a4 || a == .a5) && !duty && (v != .v4 || a == .a3 || a == .a4))) &&
  -- before the owner's first load nothing is committed
  ((a != .a0 && a != .a1 && a != .a2) || (!rel && !duty)) &&
  -- after the owner set release, it stays set until a swap, and the first swap commits
  ((a != .a3 && a != .a4) || rel || duty) &&
  -- a4 only after having seen unparked
  (a != .a4 || unp) &&
  -- duty requires both an abort and a waker at least at v3
  (!duty || ((v == .v3 || v == .v4) && (a == .a5 || a == .a3 || a == .a4))) &&
  -- finished abort without duty: release still set and the waker has not swapped yet
  (a != .a5 || duty || (rel && v != .v4)) &&
  -- finished waker without duty: the owner has not yet got past its own swap
  (v != .v4 || duty || a == .a0 || a == .a1 || a == .a2 || ((a == .a3 || a == .a4) && rel))

structure Inv (s : St) : Prop where
  nodup : s.sh.q.Nodup
  fresh : ∀ (t : Tid) (b : Bid), owns (s.pcs t) = some b → b < s.sh.nextB
  freshW : ∀ (t : Tid) (b : Bid), wakes (s.pcs t) = some b → b < s.sh.nextB
  freshQ : ∀ (b : Bid), b ∈ s.sh.q → b < s.sh.nextB
  virgin : ∀ (b : Bid), s.sh.nextB ≤ b → s.sh.aph b = .a0 ∧ s.sh.vph b = .v0 ∧ s.sh.unparked b = false ∧ s.sh.release b = false ∧ s.sh.duty b = false
  own1 : ∀ (t u : Tid) (b : Bid), owns (s.pcs t) = some b → owns (s.pcs u) = some b → t = u
  wake1 : ∀ (t u : Tid) (b : Bid), wakes (s.pcs t) = some b → wakes (s.pcs u) = some b → t = u
  aphL : ∀ (t : Tid) (b : Bid) (a : APh), owns (s.pcs t) = some b → aphOf (s.pcs t) = some a → s.sh.aph b = a
  vphL : ∀ (t : Tid) (b : Bid) (v : VPh), wakes (s.pcs t) = some b → vphOf (s.pcs t) = some v → s.sh.vph b = v
  inQ : ∀ (b : Bid), b ∈ s.sh.q → s.sh.vph b = .v0
  notQ : ∀ (t : Tid) (b : Bid), owns (s.pcs t) = some b → notPushed (s.pcs t) = true → b ∉ s.sh.q ∧ s.sh.vph b = .v0
  ok : ∀ (b : Bid), okB (s.sh.aph b) (s.sh.vph b) (s.sh.unparked b) (s.sh.release b) (s.sh.duty b) = true
  nodupDuty : s.sh.dup = false
  cb : (s.sh.M : Int) + (if s.sh.cnt < 0 then - s.sh.cnt else 0) = s.sh.FS
  c1 : s.sh.pushes = s.sh.q.length + s.sh.pops
  c2 : s.sh.pushes = s.sh.FS + cntOf s.n atFsub s.pcs
  c3 : s.sh.M = s.sh.pops + cntOf s.n atPop s.pcs
  n1 : ∀ (t : Tid) (b : Bid), owns (s.pcs t) = some b → notPushed (s.pcs t) = false → b ∈ s.sh.q ∨ s.sh.vph b ≠ .v0
  n2 : ∀ (b : Bid), (s.sh.vph b = .v1 ∨ s.sh.vph b = .v2 ∨ s.sh.vph b = .v3) → wakes (s.pcs (s.sh.wk b)) = some b ∧ s.sh.wk b < s.n
  n3 : ∀ (t : Tid) (b : Bid), owns (s.pcs t) = some b → (s.sh.vph b = .v2 ∨ s.sh.vph b = .v3 ∨ s.sh.vph b = .v4) → s.sh.tok b = true
  d : ∀ (t : Tid) (w : Bool) (c : Int), s.pcs t = .c0cas w c → 0 < c

theorem inv_init (n i : Nat) : Inv (init n i) := by
  constructor <;> simp [init, owns, wakes, okB, cntOf, atFsub, atPop]
  omega

/-! the per-blocker product automaton: a finite table, checked exhaustively by the kernel -/
structure Tup where
  a : APh
  v : VPh
  unp : Bool
  rel : Bool
  duty : Bool
  deriving DecidableEq, Repr

def Tup.ok (x : Tup) : Bool := okB x.a x.v x.unp x.rel x.duty

/-- local steps; the second component says "a second commitment happened" -/
def lsteps (x : Tup) : List (Tup × Bool) :=
  (if x.v = .v0 then [({ x with v := .v1 }, false)] else []) ++
  (if x.v = .v1 then [({ x with v := .v2 }, false)] else []) ++
  (if x.v = .v2 then [({ x with v := .v3, unp := true }, false)] else []) ++
  (if x.v = .v3 then [({ x with v := .v4, rel := false, duty := x.duty || x.rel }, x.rel && x.duty)] else []) ++
  (if x.a = .a0 then [({ x with a := .a1 }, false)] else []) ++
  (if x.a = .a1 then [(if x.unp then { x with a := .a5, duty := true } else { x with a := .a2 }, x.unp && x.duty)] else []) ++
  (if x.a = .a2 then [({ x with a := .a3, rel := true }, false)] else []) ++
  (if x.a = .a3 then [(if x.unp then { x with a := .a4 } else { x with a := .a5 }, false)] else []) ++
  (if x.a = .a4 then [({ x with a := .a5, rel := false, duty := x.duty || x.rel }, x.rel && x.duty)] else [])

def allA : List APh := [.a0, .a1, .a2, .a3, .a4, .a5]
def allV : List VPh := [.v0, .v1, .v2, .v3, .v4]
def allB : List Bool := [false, true]
def allTup : List Tup := allA.flatMap fun a => allV.flatMap fun v => allB.flatMap fun u => allB.flatMap fun r => allB.map fun d => ⟨a, v, u, r, d⟩

/-- the table is inductive and never commits twice -/
theorem table_inductive : allTup.all (fun x => !x.ok || (lsteps x).all (fun y => y.1.ok && !y.2)) = true := by decide +kernel
theorem table_init : (Tup.ok ⟨.a0, .v0, false, false, false⟩) = true := by decide
/-- hand-over: when both sides are finished, the popped∧aborted blocker carries a commitment -/
theorem table_final : allTup.all (fun x => !x.ok || !(x.a = .a5 && x.v = .v4) || x.duty) = true := by decide +kernel
/-- nobody commits for a blocker that was not both popped (woken) and aborted -/
theorem table_sound : allTup.all (fun x => !x.ok || !x.duty || ((x.v = .v3 || x.v = .v4) && x.a != .a0 && x.a != .a1 && x.a != .a2)) = true := by decide +kernel

/-! local-step lemmas extracted from the table (each by exhaustive `decide`) -/
theorem ok_pop (a : APh) (u r d : Bool) (h : okB a .v0 u r d = true) : okB a .v1 u r d = true := by cases a <;> cases u <;> cases r <;> cases d <;> revert h <;> decide
theorem ok_wake1 (a : APh) (u r d : Bool) (h : okB a .v1 u r d = true) : okB a .v2 u r d = true := by cases a <;> cases u <;> cases r <;> cases d <;> revert h <;> decide
theorem ok_wake2 (a : APh) (u r d : Bool) (h : okB a .v2 u r d = true) : okB a .v3 true r d = true := by cases a <;> cases u <;> cases r <;> cases d <;> revert h <;> decide
theorem ok_wake3 (a : APh) (u r d : Bool) (h : okB a .v3 u r d = true) :
    okB a .v4 u false (if r then true else d) = true ∧ (r && d) = false := by cases a <;> cases u <;> cases r <;> cases d <;> revert h <;> decide
theorem ok_abort (v : VPh) (u r d : Bool) (h : okB .a0 v u r d = true) : okB .a1 v u r d = true := by cases v <;> cases u <;> cases r <;> cases d <;> revert h <;> decide
theorem ok_w6 (v : VPh) (u r d : Bool) (h : okB .a1 v u r d = true) :
    (u = true → okB .a5 v u r true = true ∧ d = false) ∧ (u = false → okB .a2 v u r d = true) := by
  cases v <;> cases u <;> cases r <;> cases d <;> revert h <;> decide
theorem ok_w7 (v : VPh) (u r d : Bool) (h : okB .a2 v u r d = true) : okB .a3 v u true d = true := by cases v <;> cases u <;> cases r <;> cases d <;> revert h <;> decide
theorem ok_w8 (v : VPh) (u r d : Bool) (h : okB .a3 v u r d = true) :
    (u = true → okB .a4 v u r d = true) ∧ (u = false → okB .a5 v u r d = true) := by
  cases v <;> cases u <;> cases r <;> cases d <;> revert h <;> decide
theorem ok_w9 (v : VPh) (u r d : Bool) (h : okB .a4 v u r d = true) :
    okB .a5 v u false (if r then true else d) = true ∧ (r && d) = false := by cases v <;> cases u <;> cases r <;> cases d <;> revert h <;> decide



theorem ok_duty (a : APh) (v : VPh) (u r d : Bool) (h : okB a v u r d = true) (hd : d = true) :
    (v = .v3 ∨ v = .v4) ∧ a ≠ .a0 ∧ a ≠ .a1 ∧ a ≠ .a2 ∧ r = false := by
  cases a <;> cases v <;> cases u <;> cases r <;> cases d <;> revert h <;> simp_all <;> decide
theorem ok_rel (a : APh) (v : VPh) (u r d : Bool) (h : okB a v u r d = true) (hr : r = true) :
    a ≠ .a0 ∧ a ≠ .a1 ∧ a ≠ .a2 ∧ d = false := by
  cases a <;> cases v <;> cases u <;> cases r <;> cases d <;> revert h <;> simp_all <;> decide
theorem ok_unp (a : APh) (v : VPh) (u r d : Bool) (h : okB a v u r d = true) : (u = true ↔ (v = .v3 ∨ v = .v4)) := by
  cases a <;> cases v <;> cases u <;> cases r <;> cases d <;> revert h <;> simp_all <;> decide
theorem ok_pre (a : APh) (v : VPh) (u r d : Bool) (h : okB a v u r d = true) (ha : a = .a0 ∨ a = .a1 ∨ a = .a2) : r = false ∧ d = false := by
  cases a <;> cases v <;> cases u <;> cases r <;> cases d <;> revert h <;> simp_all <;> decide
theorem ok_a4 (a : APh) (v : VPh) (u r d : Bool) (h : okB a v u r d = true) (ha : a = .a4) : u = true := by
  cases a <;> cases v <;> cases u <;> cases r <;> cases d <;> revert h <;> simp_all <;> decide
theorem ok_final (u r d : Bool) (h : okB .a5 .v4 u r d = true) : d = true := by
  cases u <;> cases r <;> cases d <;> revert h <;> decide

attribute [irreducible] okB

theorem wakes_vphOf (pc : Pc) (b : Bid) (h : wakes pc = some b) : vphOf pc = some .v1 ∨ vphOf pc = some .v2 ∨ vphOf pc = some .v3 := by
  cases pc <;> simp_all [wakes, vphOf]


set_option hygiene false in
macro "prep" w:term : tactic => `(tactic|
  (have hokw := hok $w; have hvirw := hvir $w; have hinQw := hinQ $w; have hfqw := hfq $w
   have hvLt := hvL t $w; have haLt := haL t $w; have hfrt := hfr t $w; have hfwt := hfw t $w; have hnq := hnotQ t $w; have hn1t := hn1 t $w; have hn2w := hn2 $w; have hn3t := hn3 t $w
   (try simp [hpc, kB, owns_idle, owns_done, owns_c0load, owns_c0cas, owns_g0load, owns_w1push, owns_w2fsub, owns_w3pop, owns_wake1, owns_wake2, owns_wake3, owns_w5park, owns_w6load, owns_w7set, owns_w8load, owns_w9swap, owns_p0fadd, wakes_idle, wakes_done, wakes_c0load, wakes_c0cas, wakes_g0load, wakes_w1push, wakes_w2fsub, wakes_w3pop, wakes_wake1, wakes_wake2, wakes_wake3, wakes_w5park, wakes_w6load, wakes_w7set, wakes_w8load, wakes_w9swap, wakes_p0fadd, aphOf_idle, aphOf_done, aphOf_c0load, aphOf_c0cas, aphOf_g0load, aphOf_w1push, aphOf_w2fsub, aphOf_w3pop, aphOf_wake1, aphOf_wake2, aphOf_wake3, aphOf_w5park, aphOf_w6load, aphOf_w7set, aphOf_w8load, aphOf_w9swap, aphOf_p0fadd, vphOf_idle, vphOf_done, vphOf_c0load, vphOf_c0cas, vphOf_g0load, vphOf_w1push, vphOf_w2fsub, vphOf_w3pop, vphOf_wake1, vphOf_wake2, vphOf_wake3, vphOf_w5park, vphOf_w6load, vphOf_w7set, vphOf_w8load, vphOf_w9swap, vphOf_p0fadd, notPushed_idle, notPushed_done, notPushed_c0load, notPushed_c0cas, notPushed_g0load, notPushed_w1push, notPushed_w2fsub, notPushed_w3pop, notPushed_wake1, notPushed_wake2, notPushed_wake3, notPushed_w5park, notPushed_w6load, notPushed_w7set, notPushed_w8load, notPushed_w9swap, notPushed_p0fadd] at hvLt); (try simp [hpc, kB, owns_idle, owns_done, owns_c0load, owns_c0cas, owns_g0load, owns_w1push, owns_w2fsub, owns_w3pop, owns_wake1, owns_wake2, owns_wake3, owns_w5park, owns_w6load, owns_w7set, owns_w8load, owns_w9swap, owns_p0fadd, wakes_idle, wakes_done, wakes_c0load, wakes_c0cas, wakes_g0load, wakes_w1push, wakes_w2fsub, wakes_w3pop, wakes_wake1, wakes_wake2, wakes_wake3, wakes_w5park, wakes_w6load, wakes_w7set, wakes_w8load, wakes_w9swap, wakes_p0fadd, aphOf_idle, aphOf_done, aphOf_c0load, aphOf_c0cas, aphOf_g0load, aphOf_w1push, aphOf_w2fsub, aphOf_w3pop, aphOf_wake1, aphOf_wake2, aphOf_wake3, aphOf_w5park, aphOf_w6load, aphOf_w7set, aphOf_w8load, aphOf_w9swap, aphOf_p0fadd, vphOf_idle, vphOf_done, vphOf_c0load, vphOf_c0cas, vphOf_g0load, vphOf_w1push, vphOf_w2fsub, vphOf_w3pop, vphOf_wake1, vphOf_wake2, vphOf_wake3, vphOf_w5park, vphOf_w6load, vphOf_w7set, vphOf_w8load, vphOf_w9swap, vphOf_p0fadd, notPushed_idle, notPushed_done, notPushed_c0load, notPushed_c0cas, notPushed_g0load, notPushed_w1push, notPushed_w2fsub, notPushed_w3pop, notPushed_wake1, notPushed_wake2, notPushed_wake3, notPushed_w5park, notPushed_w6load, notPushed_w7set, notPushed_w8load, notPushed_w9swap, notPushed_p0fadd] at haLt)
   (try simp [hpc, kB, owns_idle, owns_done, owns_c0load, owns_c0cas, owns_g0load, owns_w1push, owns_w2fsub, owns_w3pop, owns_wake1, owns_wake2, owns_wake3, owns_w5park, owns_w6load, owns_w7set, owns_w8load, owns_w9swap, owns_p0fadd, wakes_idle, wakes_done, wakes_c0load, wakes_c0cas, wakes_g0load, wakes_w1push, wakes_w2fsub, wakes_w3pop, wakes_wake1, wakes_wake2, wakes_wake3, wakes_w5park, wakes_w6load, wakes_w7set, wakes_w8load, wakes_w9swap, wakes_p0fadd, aphOf_idle, aphOf_done, aphOf_c0load, aphOf_c0cas, aphOf_g0load, aphOf_w1push, aphOf_w2fsub, aphOf_w3pop, aphOf_wake1, aphOf_wake2, aphOf_wake3, aphOf_w5park, aphOf_w6load, aphOf_w7set, aphOf_w8load, aphOf_w9swap, aphOf_p0fadd, vphOf_idle, vphOf_done, vphOf_c0load, vphOf_c0cas, vphOf_g0load, vphOf_w1push, vphOf_w2fsub, vphOf_w3pop, vphOf_wake1, vphOf_wake2, vphOf_wake3, vphOf_w5park, vphOf_w6load, vphOf_w7set, vphOf_w8load, vphOf_w9swap, vphOf_p0fadd, notPushed_idle, notPushed_done, notPushed_c0load, notPushed_c0cas, notPushed_g0load, notPushed_w1push, notPushed_w2fsub, notPushed_w3pop, notPushed_wake1, notPushed_wake2, notPushed_wake3, notPushed_w5park, notPushed_w6load, notPushed_w7set, notPushed_w8load, notPushed_w9swap, notPushed_p0fadd] at hfrt); (try simp [hpc, kB, owns_idle, owns_done, owns_c0load, owns_c0cas, owns_g0load, owns_w1push, owns_w2fsub, owns_w3pop, owns_wake1, owns_wake2, owns_wake3, owns_w5park, owns_w6load, owns_w7set, owns_w8load, owns_w9swap, owns_p0fadd, wakes_idle, wakes_done, wakes_c0load, wakes_c0cas, wakes_g0load, wakes_w1push, wakes_w2fsub, wakes_w3pop, wakes_wake1, wakes_wake2, wakes_wake3, wakes_w5park, wakes_w6load, wakes_w7set, wakes_w8load, wakes_w9swap, wakes_p0fadd, aphOf_idle, aphOf_done, aphOf_c0load, aphOf_c0cas, aphOf_g0load, aphOf_w1push, aphOf_w2fsub, aphOf_w3pop, aphOf_wake1, aphOf_wake2, aphOf_wake3, aphOf_w5park, aphOf_w6load, aphOf_w7set, aphOf_w8load, aphOf_w9swap, aphOf_p0fadd, vphOf_idle, vphOf_done, vphOf_c0load, vphOf_c0cas, vphOf_g0load, vphOf_w1push, vphOf_w2fsub, vphOf_w3pop, vphOf_wake1, vphOf_wake2, vphOf_wake3, vphOf_w5park, vphOf_w6load, vphOf_w7set, vphOf_w8load, vphOf_w9swap, vphOf_p0fadd, notPushed_idle, notPushed_done, notPushed_c0load, notPushed_c0cas, notPushed_g0load, notPushed_w1push, notPushed_w2fsub, notPushed_w3pop, notPushed_wake1, notPushed_wake2, notPushed_wake3, notPushed_w5park, notPushed_w6load, notPushed_w7set, notPushed_w8load, notPushed_w9swap, notPushed_p0fadd] at hfwt)
   (try simp [hpc, kB, owns_idle, owns_done, owns_c0load, owns_c0cas, owns_g0load, owns_w1push, owns_w2fsub, owns_w3pop, owns_wake1, owns_wake2, owns_wake3, owns_w5park, owns_w6load, owns_w7set, owns_w8load, owns_w9swap, owns_p0fadd, wakes_idle, wakes_done, wakes_c0load, wakes_c0cas, wakes_g0load, wakes_w1push, wakes_w2fsub, wakes_w3pop, wakes_wake1, wakes_wake2, wakes_wake3, wakes_w5park, wakes_w6load, wakes_w7set, wakes_w8load, wakes_w9swap, wakes_p0fadd, aphOf_idle, aphOf_done, aphOf_c0load, aphOf_c0cas, aphOf_g0load, aphOf_w1push, aphOf_w2fsub, aphOf_w3pop, aphOf_wake1, aphOf_wake2, aphOf_wake3, aphOf_w5park, aphOf_w6load, aphOf_w7set, aphOf_w8load, aphOf_w9swap, aphOf_p0fadd, vphOf_idle, vphOf_done, vphOf_c0load, vphOf_c0cas, vphOf_g0load, vphOf_w1push, vphOf_w2fsub, vphOf_w3pop, vphOf_wake1, vphOf_wake2, vphOf_wake3, vphOf_w5park, vphOf_w6load, vphOf_w7set, vphOf_w8load, vphOf_w9swap, vphOf_p0fadd, notPushed_idle, notPushed_done, notPushed_c0load, notPushed_c0cas, notPushed_g0load, notPushed_w1push, notPushed_w2fsub, notPushed_w3pop, notPushed_wake1, notPushed_wake2, notPushed_wake3, notPushed_w5park, notPushed_w6load, notPushed_w7set, notPushed_w8load, notPushed_w9swap, notPushed_p0fadd] at hnq); (try simp [hpc, kB, owns_idle, owns_done, owns_c0load, owns_c0cas, owns_g0load, owns_w1push, owns_w2fsub, owns_w3pop, owns_wake1, owns_wake2, owns_wake3, owns_w5park, owns_w6load, owns_w7set, owns_w8load, owns_w9swap, owns_p0fadd, wakes_idle, wakes_done, wakes_c0load, wakes_c0cas, wakes_g0load, wakes_w1push, wakes_w2fsub, wakes_w3pop, wakes_wake1, wakes_wake2, wakes_wake3, wakes_w5park, wakes_w6load, wakes_w7set, wakes_w8load, wakes_w9swap, wakes_p0fadd, aphOf_idle, aphOf_done, aphOf_c0load, aphOf_c0cas, aphOf_g0load, aphOf_w1push, aphOf_w2fsub, aphOf_w3pop, aphOf_wake1, aphOf_wake2, aphOf_wake3, aphOf_w5park, aphOf_w6load, aphOf_w7set, aphOf_w8load, aphOf_w9swap, aphOf_p0fadd, vphOf_idle, vphOf_done, vphOf_c0load, vphOf_c0cas, vphOf_g0load, vphOf_w1push, vphOf_w2fsub, vphOf_w3pop, vphOf_wake1, vphOf_wake2, vphOf_wake3, vphOf_w5park, vphOf_w6load, vphOf_w7set, vphOf_w8load, vphOf_w9swap, vphOf_p0fadd, notPushed_idle, notPushed_done, notPushed_c0load, notPushed_c0cas, notPushed_g0load, notPushed_w1push, notPushed_w2fsub, notPushed_w3pop, notPushed_wake1, notPushed_wake2, notPushed_wake3, notPushed_w5park, notPushed_w6load, notPushed_w7set, notPushed_w8load, notPushed_w9swap, notPushed_p0fadd] at hn1t); (try simp [hpc, kB, owns_idle, owns_done, owns_c0load, owns_c0cas, owns_g0load, owns_w1push, owns_w2fsub, owns_w3pop, owns_wake1, owns_wake2, owns_wake3, owns_w5park, owns_w6load, owns_w7set, owns_w8load, owns_w9swap, owns_p0fadd, wakes_idle, wakes_done, wakes_c0load, wakes_c0cas, wakes_g0load, wakes_w1push, wakes_w2fsub, wakes_w3pop, wakes_wake1, wakes_wake2, wakes_wake3, wakes_w5park, wakes_w6load, wakes_w7set, wakes_w8load, wakes_w9swap, wakes_p0fadd, aphOf_idle, aphOf_done, aphOf_c0load, aphOf_c0cas, aphOf_g0load, aphOf_w1push, aphOf_w2fsub, aphOf_w3pop, aphOf_wake1, aphOf_wake2, aphOf_wake3, aphOf_w5park, aphOf_w6load, aphOf_w7set, aphOf_w8load, aphOf_w9swap, aphOf_p0fadd, vphOf_idle, vphOf_done, vphOf_c0load, vphOf_c0cas, vphOf_g0load, vphOf_w1push, vphOf_w2fsub, vphOf_w3pop, vphOf_wake1, vphOf_wake2, vphOf_wake3, vphOf_w5park, vphOf_w6load, vphOf_w7set, vphOf_w8load, vphOf_w9swap, vphOf_p0fadd, notPushed_idle, notPushed_done, notPushed_c0load, notPushed_c0cas, notPushed_g0load, notPushed_w1push, notPushed_w2fsub, notPushed_w3pop, notPushed_wake1, notPushed_wake2, notPushed_wake3, notPushed_w5park, notPushed_w6load, notPushed_w7set, notPushed_w8load, notPushed_w9swap, notPushed_p0fadd] at hn3t)))
/- close every clause: unchanged ones by `assumption`; the others after pushing the pc predicates through the
    update of the actor's pc and evaluating them on the new (concrete) pc, so that `grind` never has to split the
    pattern matches of `owns`, `wakes`, … on an unknown pc -/
set_option hygiene false in
macro "fin" : tactic => `(tactic|
  (constructor <;> simp only [] <;> first
    | assumption
    | ((try simp only [upd_app, apply_ite owns, apply_ite wakes, apply_ite aphOf, apply_ite vphOf, apply_ite notPushed,
                      owns_idle, owns_done, owns_c0load, owns_c0cas, owns_g0load, owns_w1push, owns_w2fsub, owns_w3pop, owns_wake1, owns_wake2, owns_wake3, owns_w5park, owns_w6load, owns_w7set, owns_w8load, owns_w9swap, owns_p0fadd, wakes_idle, wakes_done, wakes_c0load, wakes_c0cas, wakes_g0load, wakes_w1push, wakes_w2fsub, wakes_w3pop, wakes_wake1, wakes_wake2, wakes_wake3, wakes_w5park, wakes_w6load, wakes_w7set, wakes_w8load, wakes_w9swap, wakes_p0fadd, aphOf_idle, aphOf_done, aphOf_c0load, aphOf_c0cas, aphOf_g0load, aphOf_w1push, aphOf_w2fsub, aphOf_w3pop, aphOf_wake1, aphOf_wake2, aphOf_wake3, aphOf_w5park, aphOf_w6load, aphOf_w7set, aphOf_w8load, aphOf_w9swap, aphOf_p0fadd, vphOf_idle, vphOf_done, vphOf_c0load, vphOf_c0cas, vphOf_g0load, vphOf_w1push, vphOf_w2fsub, vphOf_w3pop, vphOf_wake1, vphOf_wake2, vphOf_wake3, vphOf_w5park, vphOf_w6load, vphOf_w7set, vphOf_w8load, vphOf_w9swap, vphOf_p0fadd, notPushed_idle, notPushed_done, notPushed_c0load, notPushed_c0cas, notPushed_g0load, notPushed_w1push, notPushed_w2fsub, notPushed_w3pop, notPushed_wake1, notPushed_wake2, notPushed_wake3, notPushed_w5park, notPushed_w6load, notPushed_w7set, notPushed_w8load, notPushed_w9swap, notPushed_p0fadd]) <;>
       first | grind [List.nodup_append, List.nodup_cons] | grind (splits := 20) [List.nodup_append, List.nodup_cons])))
set_option hygiene false in
macro "destruct_hts" : tactic => `(tactic|
  (cases e <;> simp only [tstep, contK, unx] at hts <;> (try contradiction) <;> (repeat' split at hts) <;> (try contradiction) <;>
   (try simp only [Option.some.injEq, Prod.mk.injEq] at hts) <;> obtain ⟨rfl, rfl⟩ := hts))

set_option hygiene false in
macro "open_inv" : tactic => `(tactic|
  (obtain ⟨hnd, hfr, hfw, hfq, hvir, ho1, hw1, haL, hvL, hinQ, hnotQ, hok, hdup, hcb, hc1, hc2, hc3, hn1, hn2, hn3, hd⟩ := h
   simp only at hnd hfr hfw hfq hvir ho1 hw1 haL hvL hinQ hnotQ hok hdup hcb hc1 hc2 hc3 hn1 hn2 hn3 hd
   have hdt := hd t
   have hown := congrArg owns hpc; have hwak := congrArg wakes hpc; have haph := congrArg aphOf hpc
   have hvph := congrArg vphOf hpc; have hnp := congrArg notPushed hpc
   simp only [owns_idle, owns_done, owns_c0load, owns_c0cas, owns_g0load, owns_w1push, owns_w2fsub, owns_w3pop, owns_wake1, owns_wake2, owns_wake3, owns_w5park, owns_w6load, owns_w7set, owns_w8load, owns_w9swap, owns_p0fadd, wakes_idle, wakes_done, wakes_c0load, wakes_c0cas, wakes_g0load, wakes_w1push, wakes_w2fsub, wakes_w3pop, wakes_wake1, wakes_wake2, wakes_wake3, wakes_w5park, wakes_w6load, wakes_w7set, wakes_w8load, wakes_w9swap, wakes_p0fadd, aphOf_idle, aphOf_done, aphOf_c0load, aphOf_c0cas, aphOf_g0load, aphOf_w1push, aphOf_w2fsub, aphOf_w3pop, aphOf_wake1, aphOf_wake2, aphOf_wake3, aphOf_w5park, aphOf_w6load, aphOf_w7set, aphOf_w8load, aphOf_w9swap, aphOf_p0fadd, vphOf_idle, vphOf_done, vphOf_c0load, vphOf_c0cas, vphOf_g0load, vphOf_w1push, vphOf_w2fsub, vphOf_w3pop, vphOf_wake1, vphOf_wake2, vphOf_wake3, vphOf_w5park, vphOf_w6load, vphOf_w7set, vphOf_w8load, vphOf_w9swap, vphOf_p0fadd, notPushed_idle, notPushed_done, notPushed_c0load, notPushed_c0cas, notPushed_g0load, notPushed_w1push, notPushed_w2fsub, notPushed_w3pop, notPushed_wake1, notPushed_wake2, notPushed_wake3, notPushed_w5park, notPushed_w6load, notPushed_w7set, notPushed_w8load, notPushed_w9swap, notPushed_p0fadd] at hown hwak haph hvph hnp
   have hF := fun v => cntOf_upd n atFsub pcs t v hlt
   have hP := fun v => cntOf_upd n atPop pcs t v hlt
   rw [hpc] at hF hP
   simp only [atFsub, atPop] at hF hP))

end MayVerif.Sem
