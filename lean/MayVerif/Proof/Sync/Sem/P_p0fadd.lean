import MayVerif.Proof.Sync.Sem.Inv
namespace MayVerif.Sem

set_option maxHeartbeats 2000000 in
theorem inv_p0fadd (n : Nat) (sh : Sh) (pcs : Tid → Pc) (t : Tid) (e : Env) (k : K) (hlt : t < n)
    (h : Inv ⟨n, sh, pcs⟩) (hpc : pcs t = (.p0fadd k)) (sh' : Sh) (pc' : Pc)
    (hts : tstep sh t (.p0fadd k) e = some (sh', pc')) : Inv ⟨n, sh', upd pcs t pc'⟩ := by
  open_inv
  destruct_hts <;> (have hfrt := hfr t; have haLt := haL t; fin)

end MayVerif.Sem
