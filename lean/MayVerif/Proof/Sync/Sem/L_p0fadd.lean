import MayVerif.Proof.Sync.Sem.Led
namespace MayVerif.Sem

set_option maxHeartbeats 2000000 in
theorem led_p0fadd (i n : Nat) (sh : Sh) (pcs : Tid → Pc) (t : Tid) (e : Env) (k : K) (hlt : t < n)
    (h : Inv ⟨n, sh, pcs⟩) (hL : Led i ⟨n, sh, pcs⟩) (hpc : pcs t = (.p0fadd k)) (sh' : Sh) (pc' : Pc)
    (hts : tstep sh t (.p0fadd k) e = some (sh', pc')) : Led i ⟨n, sh', upd pcs t pc'⟩ := by
  open_led
  cases k <;> cases e <;> simp only [tstep, contK, unx, isExt_toPark, isExt_fin, isExt_ext, if_true, if_false, Bool.false_eq_true] at hts <;>
    (repeat' split at hts) <;> simp only [Option.some.injEq, Prod.mk.injEq] at hts <;> obtain ⟨rfl, rfl⟩ := hts <;>
    (have hfrt := hfr t; finL)

end MayVerif.Sem
