import MayVerif.Proof.Sync.Sem.Inv
namespace MayVerif.Sem

set_option maxHeartbeats 2000000 in
theorem inv_w7set (n : Nat) (sh : Sh) (pcs : Tid → Pc) (t : Tid) (e : Env) (b : Bid) (hlt : t < n)
    (h : Inv ⟨n, sh, pcs⟩) (hpc : pcs t = (.w7set b)) (sh' : Sh) (pc' : Pc)
    (hts : tstep sh t (.w7set b) e = some (sh', pc')) : Inv ⟨n, sh', upd pcs t pc'⟩ := by
  open_inv
  destruct_hts <;> (prep b; rw [haLt] at hokw; have hl := ok_w7 _ _ _ _ hokw; fin)

end MayVerif.Sem
