import MayVerif.Proof.Sync.Sem.Inv
namespace MayVerif.Sem

set_option maxHeartbeats 2000000 in
theorem inv_w3pop (n : Nat) (sh : Sh) (pcs : Tid → Pc) (t : Tid) (e : Env) (k : K) (hlt : t < n)
    (h : Inv ⟨n, sh, pcs⟩) (hpc : pcs t = (.w3pop k)) (sh' : Sh) (pc' : Pc)
    (hts : tstep sh t (.w3pop k) e = some (sh', pc')) : Inv ⟨n, sh', upd pcs t pc'⟩ := by
  open_inv
  cases e <;> simp only [tstep] at hts <;>
    (split at hts
     · contradiction
     next w q' heq =>
       simp only [Option.some.injEq, Prod.mk.injEq] at hts
       obtain ⟨rfl, rfl⟩ := hts
       have hokw := hok w; have hinQw := hinQ w; have hfqw := hfq w; have hvirw := hvir w
       have hl := ok_pop _ _ _ _ (by rw [hinQw (by simp [heq])] at hokw; exact hokw)
       have hfrt := hfr t; have haLt := haL t
       have hwv := fun u => wakes_vphOf (pcs u) w
       have hvLw := fun u => hvL u w
       have hinw : w ∈ sh.q := by simp [heq]
       have hv0 := hinQw hinw
       fin)

end MayVerif.Sem
