/-
  The permit ledger of the Semphore model (DESIGN Appendix A, steps 5–7), as a second invariant on top of `Inv`:
  where every permit is. With  F = max(cnt, 0)  (free permits) and  T = M − TK − Cd  (permits in transit: taken
  out of the counter by a match, not yet consumed by the woken waiter, not yet re-posted),
      init + PX = S + T + F          (clauses `la`, `ls` and `Inv.cb`)
  and T is the number of actors holding a decided pop or a compensating `post()` plus the number of popped
  blockers that are neither consumed nor committed for re-posting (clauses `k1`–`k4`, counting over blockers).
-/
import MayVerif.Proof.Sync.Sem.Inv
namespace MayVerif.Sem

theorem cntOf_succ {α : Type} (n : Nat) (p : α → Bool) (f : Nat → α) :
    cntOf (n + 1) p f = cntOf n p f + (if p (f n) then 1 else 0) := by
  unfold cntOf
  simp only [List.range_succ, List.countP_append, List.countP_cons, List.countP_nil]
  omega

/-- two disjoint sub-populations of a third one -/
theorem cnt_disj_le (n : Nat) (p q r : Nat → Bool) (h1 : ∀ b, b < n → p b = true → r b = true) (h2 : ∀ b, b < n → q b = true → r b = true)
    (h3 : ∀ b, b < n → p b = true → q b = true → False) :
    (List.range n).countP p + (List.range n).countP q ≤ (List.range n).countP r := by
  induction n with
  | zero => simp
  | succ k ih =>
    have ih' := ih (fun b hb => h1 b (by omega)) (fun b hb => h2 b (by omega)) (fun b hb => h3 b (by omega))
    simp only [List.range_succ, List.countP_append, List.countP_cons, List.countP_nil]
    have a1 := h1 k (by omega); have a2 := h2 k (by omega); have a3 := h3 k (by omega)
    cases hp : p k <;> cases hq : q k <;> cases hr : r k <;> simp_all <;> omega

/-- ... that cover it -/
theorem cnt_disj_eq (n : Nat) (p q r : Nat → Bool) (h1 : ∀ b, b < n → p b = true → r b = true) (h2 : ∀ b, b < n → q b = true → r b = true)
    (h3 : ∀ b, b < n → p b = true → q b = true → False) (h4 : ∀ b, b < n → r b = true → p b = true ∨ q b = true) :
    (List.range n).countP p + (List.range n).countP q = (List.range n).countP r := by
  induction n with
  | zero => simp
  | succ k ih =>
    have ih' := ih (fun b hb => h1 b (by omega)) (fun b hb => h2 b (by omega)) (fun b hb => h3 b (by omega)) (fun b hb => h4 b (by omega))
    simp only [List.range_succ, List.countP_append, List.countP_cons, List.countP_nil]
    have a1 := h1 k (by omega); have a2 := h2 k (by omega); have a3 := h3 k (by omega); have a4 := h4 k (by omega)
    cases hp : p k <;> cases hq : q k <;> cases hr : r k <;> simp_all <;> omega

/-- a compensating (non-external) `post()` about to do its fetch_add -/
@[grind] def atComp : Pc → Bool | .p0fadd .ext => false | .p0fadd _ => true | _ => false
@[grind] def isPopped : VPh → Bool | .v0 => false | _ => true
@[grind] def isT : Bool → Bool | b => b
/-- the `ext` marker only lives until the external post's own fetch_add -/
def extFree : Pc → Bool | .w3pop k | .wake1 _ k | .wake2 _ k | .wake3 _ k => !isExt k | _ => true

theorem extFree_idle  : extFree .idle = (true) := rfl
theorem extFree_done {r} : extFree (.done r) = (true) := rfl
theorem extFree_c0load {w} : extFree (.c0load w) = (true) := rfl
theorem extFree_c0cas {w} {c} : extFree (.c0cas w c) = (true) := rfl
theorem extFree_g0load  : extFree .g0load = (true) := rfl
theorem extFree_w1push {b} : extFree (.w1push b) = (true) := rfl
theorem extFree_w2fsub {b} : extFree (.w2fsub b) = (true) := rfl
theorem extFree_w3pop {k} : extFree (.w3pop k) = (!isExt k) := rfl
theorem extFree_wake1 {w} {k} : extFree (.wake1 w k) = (!isExt k) := rfl
theorem extFree_wake2 {w} {k} : extFree (.wake2 w k) = (!isExt k) := rfl
theorem extFree_wake3 {w} {k} : extFree (.wake3 w k) = (!isExt k) := rfl
theorem extFree_w5park {b} : extFree (.w5park b) = (true) := rfl
theorem extFree_w6load {b} : extFree (.w6load b) = (true) := rfl
theorem extFree_w7set {b} : extFree (.w7set b) = (true) := rfl
theorem extFree_w8load {b} : extFree (.w8load b) = (true) := rfl
theorem extFree_w9swap {b} : extFree (.w9swap b) = (true) := rfl
theorem extFree_p0fadd {k} : extFree (.p0fadd k) = (true) := rfl

theorem isExt_toPark {b} : isExt (.toPark b) = false := rfl
theorem isExt_fin : isExt .fin = false := rfl
theorem isExt_ext : isExt .ext = true := rfl

structure Led (i : Nat) (s : St) : Prop where
  la : s.sh.cnt = (i : Int) + s.sh.PX + s.sh.Cd - s.sh.FS - s.sh.CS
  ls : s.sh.S = s.sh.CS + s.sh.TK
  k1 : s.sh.pops = cntOf s.sh.nextB isPopped s.sh.vph
  k2 : s.sh.TK = cntOf s.sh.nextB isT s.sh.got
  k3 : s.sh.DU = cntOf s.sh.nextB isT s.sh.duty
  k4 : s.sh.DU = s.sh.Cd + cntOf s.n atComp s.pcs
  /-- a consumed token belonged to a popped blocker whose owner never aborted -/
  k5 : ∀ (b : Bid), s.sh.got b = true → s.sh.vph b ≠ .v0 ∧ s.sh.aph b = .a0
  k6 : ∀ (t : Tid) (b : Bid), owns (s.pcs t) = some b → s.sh.got b = false
  /-- an allocated blocker has a live owner until it is consumed or its abort path is finished -/
  k7 : ∀ (b : Bid), b < s.sh.nextB → s.sh.aph b ≠ .a5 → s.sh.got b = false → owns (s.pcs (s.sh.ow b)) = some b ∧ s.sh.ow b < s.n
  k8 : ∀ (t : Tid), extFree (s.pcs t) = true
  k9 : ∀ (b : Bid), s.sh.tok b = true → s.sh.vph b ≠ .v0
  vg : ∀ (b : Bid), s.sh.nextB ≤ b → s.sh.got b = false ∧ s.sh.tok b = false

theorem led_init (n i : Nat) : Led i (init n i) := by
  constructor <;> simp [init, owns, cntOf, extFree, isT, isPopped, atComp]

/- opening of every per-point ledger lemma: the clauses of `Inv` that the ledger needs, the ledger clauses, the
   counting facts for the actor's pc -/
set_option hygiene false in
macro "open_led" : tactic => `(tactic|
  (obtain ⟨hnd, hfr, hfw, hfq, hvir, ho1, hw1, haL, hvL, hinQ, hnotQ, hok, hdup, hcb, hc1, hc2, hc3, hn1, hn2, hn3, hd⟩ := h
   obtain ⟨hla, hls, hk1, hk2, hk3, hk4, hk5, hk6, hk7, hk8, hk9, hvg⟩ := hL
   simp only at hfr hfw hfq hvir haL hvL hinQ hok hla hls hk1 hk2 hk3 hk4 hk5 hk6 hk7 hk8 hk9 hvg ho1
   clear hnd hw1 hnotQ hdup hcb hc1 hc2 hc3 hn1 hn2 hn3 hd
   have hown := congrArg owns hpc; have hxf := congrArg extFree hpc
   simp only [owns_idle, owns_done, owns_c0load, owns_c0cas, owns_g0load, owns_w1push, owns_w2fsub, owns_w3pop, owns_wake1, owns_wake2, owns_wake3, owns_w5park, owns_w6load, owns_w7set, owns_w8load, owns_w9swap, owns_p0fadd, extFree_idle, extFree_done, extFree_c0load, extFree_c0cas, extFree_g0load, extFree_w1push, extFree_w2fsub, extFree_w3pop, extFree_wake1, extFree_wake2, extFree_wake3, extFree_w5park, extFree_w6load, extFree_w7set, extFree_w8load, extFree_w9swap, extFree_p0fadd] at hown hxf
   have hk8t := hk8 t; rw [hxf] at hk8t
   have hC := fun v => cntOf_upd n atComp pcs t v hlt
   rw [hpc] at hC
   simp only [atComp] at hC))

/- facts about one blocker `x` (named by the pc): bounds, counting updates of the three blocker populations -/
set_option hygiene false in
macro "prepL" x:term : tactic => `(tactic|
  (have hfrt := hfr t $x; have hfwt := hfw t $x; have haLt := haL t $x; have hvLt := hvL t $x
   have hokx := hok $x; have hk5x := hk5 $x; have hk6t := hk6 t $x; have hk7x := hk7 $x; have hk9x := hk9 $x; have hvirx := hvir $x
   (try simp [hpc, kB, owns_idle, owns_done, owns_c0load, owns_c0cas, owns_g0load, owns_w1push, owns_w2fsub, owns_w3pop, owns_wake1, owns_wake2, owns_wake3, owns_w5park, owns_w6load, owns_w7set, owns_w8load, owns_w9swap, owns_p0fadd, wakes_idle, wakes_done, wakes_c0load, wakes_c0cas, wakes_g0load, wakes_w1push, wakes_w2fsub, wakes_w3pop, wakes_wake1, wakes_wake2, wakes_wake3, wakes_w5park, wakes_w6load, wakes_w7set, wakes_w8load, wakes_w9swap, wakes_p0fadd] at hfrt); (try simp [hpc, kB, owns_idle, owns_done, owns_c0load, owns_c0cas, owns_g0load, owns_w1push, owns_w2fsub, owns_w3pop, owns_wake1, owns_wake2, owns_wake3, owns_w5park, owns_w6load, owns_w7set, owns_w8load, owns_w9swap, owns_p0fadd, wakes_idle, wakes_done, wakes_c0load, wakes_c0cas, wakes_g0load, wakes_w1push, wakes_w2fsub, wakes_w3pop, wakes_wake1, wakes_wake2, wakes_wake3, wakes_w5park, wakes_w6load, wakes_w7set, wakes_w8load, wakes_w9swap, wakes_p0fadd] at hfwt)
   (try simp [hpc, kB, owns_idle, owns_done, owns_c0load, owns_c0cas, owns_g0load, owns_w1push, owns_w2fsub, owns_w3pop, owns_wake1, owns_wake2, owns_wake3, owns_w5park, owns_w6load, owns_w7set, owns_w8load, owns_w9swap, owns_p0fadd, wakes_idle, wakes_done, wakes_c0load, wakes_c0cas, wakes_g0load, wakes_w1push, wakes_w2fsub, wakes_w3pop, wakes_wake1, wakes_wake2, wakes_wake3, wakes_w5park, wakes_w6load, wakes_w7set, wakes_w8load, wakes_w9swap, wakes_p0fadd, aphOf_idle, aphOf_done, aphOf_c0load, aphOf_c0cas, aphOf_g0load, aphOf_w1push, aphOf_w2fsub, aphOf_w3pop, aphOf_wake1, aphOf_wake2, aphOf_wake3, aphOf_w5park, aphOf_w6load, aphOf_w7set, aphOf_w8load, aphOf_w9swap, aphOf_p0fadd] at haLt); (try simp [hpc, kB, owns_idle, owns_done, owns_c0load, owns_c0cas, owns_g0load, owns_w1push, owns_w2fsub, owns_w3pop, owns_wake1, owns_wake2, owns_wake3, owns_w5park, owns_w6load, owns_w7set, owns_w8load, owns_w9swap, owns_p0fadd, wakes_idle, wakes_done, wakes_c0load, wakes_c0cas, wakes_g0load, wakes_w1push, wakes_w2fsub, wakes_w3pop, wakes_wake1, wakes_wake2, wakes_wake3, wakes_w5park, wakes_w6load, wakes_w7set, wakes_w8load, wakes_w9swap, wakes_p0fadd, vphOf_idle, vphOf_done, vphOf_c0load, vphOf_c0cas, vphOf_g0load, vphOf_w1push, vphOf_w2fsub, vphOf_w3pop, vphOf_wake1, vphOf_wake2, vphOf_wake3, vphOf_w5park, vphOf_w6load, vphOf_w7set, vphOf_w8load, vphOf_w9swap, vphOf_p0fadd] at hvLt)
   (try simp [hpc, kB, owns_idle, owns_done, owns_c0load, owns_c0cas, owns_g0load, owns_w1push, owns_w2fsub, owns_w3pop, owns_wake1, owns_wake2, owns_wake3, owns_w5park, owns_w6load, owns_w7set, owns_w8load, owns_w9swap, owns_p0fadd] at hk6t)
   have hodx := ok_duty _ _ _ _ _ (hok $x)))

set_option hygiene false in
macro "cntL" x:term "," hx:term : tactic => `(tactic|
  (have hK1 := fun v => cntOf_upd sh.nextB isPopped sh.vph $x v $hx
   have hK2 := fun v => cntOf_upd sh.nextB isT sh.got $x v $hx
   have hK3 := fun v => cntOf_upd sh.nextB isT sh.duty $x v $hx))

set_option hygiene false in
macro "finL" : tactic => `(tactic|
  (constructor <;> simp only [] <;> first
    | assumption
    | ((try simp only [upd_app, apply_ite owns, apply_ite extFree, isExt_toPark, isExt_fin, isExt_ext, Bool.not_true, Bool.not_false, owns_idle, owns_done, owns_c0load, owns_c0cas, owns_g0load, owns_w1push, owns_w2fsub, owns_w3pop, owns_wake1, owns_wake2, owns_wake3, owns_w5park, owns_w6load, owns_w7set, owns_w8load, owns_w9swap, owns_p0fadd, extFree_idle, extFree_done, extFree_c0load, extFree_c0cas, extFree_g0load, extFree_w1push, extFree_w2fsub, extFree_w3pop, extFree_wake1, extFree_wake2, extFree_wake3, extFree_w5park, extFree_w6load, extFree_w7set, extFree_w8load, extFree_w9swap, extFree_p0fadd]) <;>
       first | grind | grind (splits := 20))))

end MayVerif.Sem
