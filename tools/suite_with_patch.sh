#!/bin/bash
# run the pinned 249-test suite (the BASELINE nextest command) on /repo HEAD + seeded/<id>/patch.diff in a scratch worktree
# usage: suite_with_patch.sh <seed-id>...   (appends to /verif/seeded/<id>/suite.log)
for ID in "$@"; do
  WT=/tmp/sw_$ID
  git -C /repo worktree remove --force $WT 2>/dev/null
  git -C /repo worktree add -q $WT HEAD || continue
  cp /repo/Cargo.lock $WT/
  LOG=/verif/seeded/$ID/suite.log
  echo "== $(date -u +%FT%TZ) /repo $(git -C /repo rev-parse --short HEAD) + patch.diff, load $(cut -d' ' -f1-3 /proc/loadavg)" >> $LOG
  if (cd $WT && git apply /verif/seeded/$ID/patch.diff 2>> $LOG); then
    (cd $WT && CARGO_NET_OFFLINE=true timeout 2400 cargo nextest run --workspace --no-fail-fast --tool-config-file pb:/w/lib/nextest.toml --profile pb --test-threads 8 --offline 2>&1 | grep -E "Summary|FAIL|TIMEOUT|SIGABRT|error" | head -20 >> $LOG)
  else
    echo "PATCH DOES NOT APPLY to current HEAD" >> $LOG
  fi
  tail -3 $LOG | sed "s/^/$ID: /"
  git -C /repo worktree remove --force $WT
done
