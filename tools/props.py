"""per-property configuration of /verif/check"""

TB_COMMON = [
    "Lean 4.33 kernel (leanchecker re-check in the thorough tier); axioms propext, Classical.choice, Quot.sound only",
    "hand-written model: each tstep case is the operation the code performs - checked by replaying hook traces of the real code in the same step function, not proved",
    "cfg(may_verif) hooks in /repo, the harness (controller, canonicaliser), the driver's parser and label matching",
    "sequential consistency: interleavings of atomic steps; recorded memory orderings are compared with the model's annotation but no weak-memory behaviour is modelled",
]


def _c01_life_family():
    """the `life` family needs the run-queue hooks of pending_hooks/wp-life.patch (one event per operation on
    scheduler.rs `local_queues` / `global_queues`, `sched_*` notes) in the repo under test"""
    import os, sys
    repo = os.environ.get("VERIF_REPO", "/repo")
    try:
        hooked = "sched_global" in open(os.path.join(repo, "src", "scheduler.rs")).read()
    except OSError:
        hooked = False
    if not hooked:
        if len(sys.argv) > 1 and sys.argv[1] == "C01":
            print("# C01: family `life` not run: %s lacks the run-queue hooks (apply /verif/pending_hooks/wp-life.patch)" % repo, file=sys.stderr)
        return []
    return [dict(mode="live", name="life", quick=360, thorough=6000,
                 nontrivial=r"\n(timer|c:\S+|k:\S+) note - resume_enter|\nc:\S+ note - sched_|q\.steal_into 0 0 [1-9]")]

# ---- C06 / C07 (channels): shared by both entries
CH_TB = [
    "the inner queues (may_queue mpsc/spsc, crossbeam SegQueue) are atomic FIFOs at this layer (C03 is its own check; SegQueue by contract)",
    "ThreadPark is replaced by the controller's virtual token in det mode; a Blocker is the binary token of C02",
    "the strong count of Arc<InnerQueue> is not hooked: its decrement is folded into the last hooked step of a handle's drop (exact in det mode)",
    "rustc drops a value exactly once when its owner goes out of scope (the receiving caller, SendError, the queue's Drop)",
]
CH_ASSUME = [
    "fair scheduling for the wake-up / disconnect theorems (quiescence form: nobody mid-operation => a parked receiver holds its token)",
    "thread endpoints in det mode; the coroutine endpoints (Blocker = Park, spsc's own Park path) are in the models but not replayed yet",
]
CH_RULE = "det mode: 2-5 threads, seeded op lists (send / clone / drop of Senders, try_recv / recv / recv_timeout with virtual time-outs, drain or early drop of Receivers; a gated variant keeps every Sender alive until the receiver has got everything, so that a lost wake-up shows as a deadlock), seeded random schedules with stickiness; distinct = SHA-1 of the canonical trace"
# ---- end C06 / C07 constants

def _f6_fixed():
    """does the tree under test contain the F6 fix (Park::subscribe re-checks the time after publishing)? same test as
    harness/src/scn/live_park.rs::f6_fixed"""
    import os
    try:
        src = open(os.path.join(os.environ.get("VERIF_REPO", "/repo"), "src", "park.rs")).read()
        i = src.find("fn subscribe")
        return i >= 0 and "now() >= deadline" in src[i:]
    except OSError:
        return False


PROPS = {
    "C01": dict(
        lean_props=["MayVerif.Props.C01"],
        families=[
            dict(mode="live", name="join", quick=360, thorough=6000, nontrivial=r" join\.to_wake@\d+ opt\.store "),
        ] + _c01_life_family(),
        trusted_base=TB_COMMON + [
            "Blocker (park/unpark of the joiner) is the abstract binary token at this layer (C02 is its own check); in the join traces unpark/park are not observed, the replay executes unpark with the take that found the blocker and lets park return only if the model's token is there",
            "AtomicOption (crossbeam AtomicCell swap/take) is an atomic option cell; the generator's context switch, panic capture (get_panic_data) and the stack pool's memory are parameters",
            "the run queues (may_queue::mpsc global queues, may_queue::spmc local queues with steal_into) are their atomic specifications at this layer (C03/C04 are their own checks); the cfg(may_verif) wrappers perform each queue operation under the log lock, so the spmc over-claim window (DESIGN App. F) cannot occur in the harness runs",
            "event sources other than Yield (Park, timer, sleep, Join's blocker) are an abstract slot: store / wake are not observed at this layer, the replay inserts them right before the first event that shows the coroutine in another thread's hand",
        ],
        assumptions=[
            "fair scheduling for the not-stuck theorems (they say: the token is there / the queues are empty, not that the OS runs the thread)",
            "join(self) consumes the handle: at most one join per coroutine (Rust ownership)",
            "a joiner cancelled while blocked in wait()/join() leaves by the Cancel panic at the park (Env.abort); how the cancel reaches the parked coroutine is C09",
            "co_runs_to_end is conditional on the spmc layer completing every claim (spmc_claim_completes, C04): a stealer that over-claimed waits for the owner's next pushes",
            "a coroutine that spins on yield_now() keeps its worker's local queue non-empty, and run_queued_tasks collects the global queue only when the local one is empty: coroutines in that worker's global queue wait until the spinner stops (fairness between the two queues is not a theorem)",
        ],
        rule="live mode on the real runtime, 1-3 workers, seeded perturbation: a coroutine that yields 0-3 times and returns / panics / is cancelled, 1-2 joiners (main, threads, coroutines) racing is_done/wait/join with the finish, ~30 % with a joiner coroutine that is itself cancelled at a seeded moment while entering / blocked in wait()/join() on a long-running target (non-trivial = a joiner registered its blocker: to_wake.store in the trace); family life: trees of 2-7 spawns from main / a thread / coroutines (spawn, spawn_local, Builder::id, custom stack), 0-5 yields / 1-2 ms sleeps each, parent parks until a child unparks it (non-trivial = a steal, a resume by the timer thread or nested inside another context, or a wake-up scheduled by a coroutine); distinct = SHA-1 of the canonical trace",
    ),
    "C03": dict(
        lean_props=["MayVerif.Props.C03"],
        # regenerates lean/MayVerif/Generated/ConstsMpsc.lean from the current may_queue/src/{mpsc,spsc}.rs
        pre_build=["python3", "tools/extract_consts_mpsc.py"],
        families=[
            dict(mode="det", name="mq_mpsc", quick=400, thorough=4000, nontrivial=r"cas \S+ \S+ \S+ 0 AcqRel|MpscBlock\d+\+63!|ready@\S+ load 0 0 0 "),
            dict(mode="det", name="mq_spsc", quick=400, thorough=4000, nontrivial=r"mq\.spsc\.first@\d+ store|t0 ret - mq\.(pop|peek) -1 |t0 ret - mq\.bulk_pop 0 "),
            # systematic (<= 2 preemptions): ring of two blocks, bulk_pop ending on the block boundary racing the push that
            # recycles the released block (the history of seeded change C03_b)
            dict(mode="detx", name="mq_spsc_ring", quick=2, thorough=8, nontrivial=r"mq\.spsc\.first@\d+ store|mq\.spsc\.last_head@\d+ store"),
        ],
        trusted_base=TB_COMMON + [
            "two-level models: the FIFO refinement is proved at level A (logical indices); the replayed per-atomic-operation models (level B) are PROVED to refine level A and to be block safe (Props/C03: mpscB_refines_A, spscB_refines_A, *_block_safe), and the same simulation is re-checked executably on every replayed trace",
            "block tokens of the trace are generation-unique (the canonicaliser renames a reused address); adversarial address reuse (ABA on the packed tail word) is a model transition (Env.aba) but is not exercised by the generated scenarios",
            "tools/extract_consts_mpsc.py (regex extraction of BLOCK_SHIFT / repr(align) / closing bit and of the branch conditions the model's cases stand for)",
        ],
        assumptions=[
            "single consumer: pop / bulk_pop / peek / len / is_empty / Drop are called by one actor only (len() dereferences the tail block and is only safe from the consumer; all in-tree callers are consumers)",
            "spsc: one producer at a time and one consumer at a time",
            "user-space addresses are below 2^63 (bit 63 of a block pointer is clear)",
            "bulk_pop is treated as a sequence of pops (one linearization point per element)",
        ],
        rule="det mode, may_queue called directly (every atomic access is an event and a schedule point): mpsc 1-3 producers x 1-4 pushes against a consumer mixing pop/bulk_pop/peek/len/is_empty/push after a traced single-threaded prologue that places head and tail at offsets B-3..B+1 (sometimes 2B-3..2B+1) of the 64-slot block, queue dropped with values left; spsc one producer / one consumer with the contended phase starting at offsets B-3..B+1 or after several blocks (block recycling); every non-atomic slot write / read is an event and a schedule point too (hooks in front of the access inside BlockNode::set/get/try_get/peek); ring scenarios (two recycled blocks, whole-block bulk_pops) in the random family and, as family mq_spsc_ring, explored systematically (detx: all schedules with <= 2 preemptions of 2 seeded scenarios); non-trivial = a failed CAS, the closing bit, a not-ready slot read, a recycled block or an empty result in the trace; distinct = SHA-1 of the canonical trace",
    ),
    "C05": dict(
        lean_props=["MayVerif.Props.C05"],
        families=[dict(mode="det", name="mutex", quick=600, thorough=20000, nontrivial=r" q\.push "),
                  # systematic: every schedule with <= 2 preemptions of a few seeded scenarios, on the real code
                  dict(mode="detx", name="mutex", quick=4, thorough=64, nontrivial=r" q\.push "),
                  # live: coroutines + threads on one Mutex, some coroutines cancelled (Env.abort path on the real code; park/unpark silent)
                  dict(mode="live", name="cancel_mutex", quick=240, thorough=4000, nontrivial=r"sync\.blocking\.(unparked|release)@\S+ (load|swap) ", timeout=600)],
        trusted_base=TB_COMMON + [
            "ThreadPark is replaced by the controller's virtual token in det mode (the real parking_lot implementation is not exercised there)",
            "may_queue::mpsc::Queue (the waiter queue) is an atomic FIFO at this layer (C03 is its own check)",
        ],
        assumptions=[
            "fair scheduling for the no-stranded-waiter theorem (quiescence form)",
            "the b_ignore branch of Mutex::lock (cancel disabled while re-locking inside Condvar::wait) is not in the model yet",
            "visibility of data written under the lock follows from SC, which is assumed",
        ],
        rule="det mode: 2-5 threads x 1-5 lock/try_lock/unlock operations, seeded random schedules with stickiness; non-trivial = at least one waiter registered (q.push in the trace); distinct = SHA-1 of the canonical trace",
    ),
    "C10": dict(
        lean_props=["MayVerif.Props.C10"],
        families=[
            dict(mode="det", name="sem", quick=2500, thorough=20000, nontrivial=r" q\.push "),
            dict(mode="det", name="syncflag", quick=1500, thorough=15000, nontrivial=r" q\.push "),
            # systematic: every schedule (time-out choices included) with <= 2 preemptions of a few seeded scenarios, on the real code
            dict(mode="detx", name="sem", quick=2, thorough=48, nontrivial=r" q\.push "),
            dict(mode="detx", name="syncflag", quick=2, thorough=48, nontrivial=r" q\.push "),
        ],
        trusted_base=TB_COMMON + [
            "ThreadPark is replaced by the controller's virtual token in det mode; a time-out is a schedule choice of the controller (the real parking_lot implementation and real clocks are not exercised there)",
            "crossbeam::queue::SegQueue (the waiter queue) is an atomic FIFO at this layer (external crate, modelled by contract)",
            "isize arithmetic is modelled by unbounded integers: Semphore::new asserts init < isize::MAX and post asserts cnt < isize::MAX (overflow is a panic, not modelled); SyncFlag's latch theorem states the bound on concurrent waits explicitly",
        ],
        assumptions=[
            "fair scheduling for the no-stranded-waiter theorems (quiescence form)",
            "det mode exercises thread actors only: coroutine actors and real cancellation (Err(Canceled) + trigger_cancel_panic) are covered by the model (Env.abort at every park) but not by replayed traces",
            "SyncFlag: fewer than isize::MAX actors (concurrent waits), stated as hypothesis n < MAXI of syncflag_latch",
        ],
        rule="det mode: 2-5 threads x 1-6 operations (sem: wait / wait_timeout / try_wait / post / get_value, init 0..3; syncflag: fire / wait / wait_timeout / is_fired), virtual time-outs fired by the controller (120 per mille), seeded random schedules with stickiness, plus detx: all schedules with <= 2 preemptions (time-out firings included) of 4 seeded scenarios per family; non-trivial = at least one waiter registered (q.push in the trace); distinct = SHA-1 of the canonical trace",
    ),
    "C04": dict(
        lean_props=["MayVerif.Props.C04"],
        families=[dict(mode="det", name="mq_spmc", quick=480, thorough=12000,
                       nontrivial=r"BlockPtr\.0@\d+ cas \S+ \S+ \S+ 0 ")],
        trusted_base=TB_COMMON + [
            "two-level models: the properties are proved at level A (logical indices); the replayed per-atomic-operation model (level B: blocks, `used`, packed head word, adversarially re-used addresses, steal_into, Drop) is PROVED to refine level A and to be block safe for every number of actors and every schedule (Props/C04: spmc_refines_A, spmc_refines_A_step, spmc_block_safe, spmcB_*); the same simulation is re-checked executably on every replayed trace (Model/Queue/SpmcSim.lean)",
            "the level-B `step` builds in the API discipline the Rust type system enforces: Drop(q) starts only when no actor is inside a routine holding a reference to q (steal_into also holds its own queue), no routine starts on a queue whose Drop has started, only the queues q < n exist; two block generations may compare equal by address only if one was freed before the other was allocated",
            "non-atomic slot accesses (`set`/`get`/`copy_to_bulk`) are not hooked: the write is folded into the owner's `tail.index` unsync load, the reads into the taker's `used.fetch_sub` (they are data-race free iff spmc_no_uninit holds)",
            "address re-use of freed blocks (ABA) is an adversarial choice of the level-B model; in the real runs a recycling #[global_allocator] defined in harness/src/scn/mq_spmc.rs hands freed 32-byte-aligned blocks out again LIFO (active once an mq_spmc scenario was built in the process)",
        ],
        assumptions=[
            "a taker that over-claimed waits until the owner has pushed past its range; if the owner never pushes again it waits for ever - C04 as worded allows this (spmc_claim_completes is the exit condition); the scenarios keep the owner pushing until every stealer has finished",
            "`Queue::len` (unsafe, no in-tree caller) is not modelled; the crossbeam_queue_steal feature (external crate) is not checked",
            "`push`/`Local::pop` are called by one thread per queue (the `Local` handle is not `Clone`)",
        ],
        rule="det mode, three kinds of scenario: normal = owner (pre-fill/pre-drain to offsets B-2..B+1 of the 32-slot block, then push/pop/is_empty, then keeps pushing until all stealers are done, then Drop) x 1-4 stealers (raw mode: pop/bulk_pop/is_empty on Arc<Queue>; local mode: steal_into their own Local, pop of their own queue, Drop); tiny = no pre-fill; aba (12%) = one stealer is stalled inside the queue code before its first compare-exchange while the owner fills and drains two blocks, so that the stale head word meets the re-used block address and the stealer over-claims; a recycling allocator in the scenario module re-uses freed block addresses LIFO in all kinds; seeded random schedules with stickiness over every atomic access; non-trivial = at least one failed compare-exchange on a head word; distinct = SHA-1 of the canonical trace",
    ),
    "C11": dict(
        lean_props=["MayVerif.Props.C11"],
        families=[
            dict(mode="det", name="condvar", quick=700, thorough=20000, nontrivial=r"sync\.condvar\.to_wake@0 q\.pop 0 0 SyncBlocker"),
            # systematic: every schedule with <= 2 preemptions (time-outs included) of a few seeded scenarios
            dict(mode="detx", name="condvar", quick=3, thorough=32, nontrivial=r"sync\.condvar\.to_wake@0 q\.pop 0 0 SyncBlocker"),
            dict(mode="det", name="barrier", quick=300, thorough=6000, nontrivial=r"sync\.condvar\.to_wake@0 q\.pop 0 0 SyncBlocker"),
            # systematic (<= 2 preemptions): 2 parties x 2-4 or 3 parties x 2 generations on one barrier; the leader racing ahead needs no preemption
            dict(mode="detx", name="barrier_small", quick=3, thorough=24, nontrivial=r"sync\.condvar\.to_wake@0 q\.pop 0 0 SyncBlocker"),
            dict(mode="det", name="waitgroup", quick=300, thorough=6000, nontrivial=r"sync\.condvar\.to_wake@0 q\.push SyncBlocker"),
            dict(mode="detx", name="waitgroup", quick=2, thorough=16, nontrivial=r"sync\.condvar\.to_wake@0 q\.push SyncBlocker"),
            # real runtime: coroutine + thread waiters, real time-outs, 1-2 coroutine waiters cancelled at seeded moments
            dict(mode="live", name="condvar_live", quick=360, thorough=6000, nontrivial=r"sync\.condvar\.to_wake@0 q\.pop 0 0 SyncBlocker", timeout=600),
        ],
        trusted_base=TB_COMMON + [
            "ThreadPark is replaced by the controller's virtual token in det mode; a time-out is a schedule choice (only while the token is not set)",
            "crossbeam SegQueue (the condvar's waiter queue) and may_queue::mpsc::Queue (the mutex's) are atomic FIFOs at this layer",
            "Condvar theorems are over the atomic Mutex spec (C05); the replay runs the Condvar model in lock-step with the C05 Mutex model and checks the spec bit at every lock/unlock boundary",
            "the condvar scenarios' occupancy counter is a hooked atomic constructed in the scenario file (its events are named `?.L<line>`, listed under unresolved_sites, and skipped by the model): it only puts schedule points inside the critical sections",
            "Barrier / WaitGroup models (BarrierImpl, WaitGroupImpl) are at implementation level for their own logic: one step per access to the lock-protected state (sync.barrier.count / generation_id, sync.wait_group.count: hooked `verif::Counted` fields, add-only under cfg(may_verif)), compared with the trace including values; Mutex and Condvar enter as their SPECIFICATIONS (lock = blocks until free; wait = release + sleep in one step, woken by a later notify_all or spuriously, re-locks) - justified by the cv_* / C05 theorems, not re-proved per blocker; the replay machine is layered on the condvar machine, which checks the same run's mutex / condvar / blocker events",
        ],
        assumptions=[
            "fair scheduling for the no-stranded-waiter theorem (quiescence form)",
            "coroutine actors and cancellation (Env.cancel at wend, the w9unlock path, a cancelled waiter forwarding) are exercised only by the live family condvar_live (real runtime: histories are recorded, not reproducible from the seed); in live traces the park outcome is decided at the first event after the re-lock (see CondvarReplay.lean)",
            "one mutex per condvar (the two-mutex panic of verify() is not modelled)",
            "Barrier generation_id is an unbounded Nat in the model (the code wraps at 2^64)",
        ],
        rule="det mode: 2-5 threads; consumers wait / wait_while for a permit, bystanders wait_timeout once (virtual time-outs; woken without time-out they re-notify themselves, after a time-out the condvar must), producers add one permit per consumer and notify_one (under or after the lock) / notify_all, extra notify_one / notify_all without the lock; condvar_live (live mode, 1-3 workers): 2-5 coroutines + 1-3 threads as consumers (wait / wait_while loop), producers (notify_one under the lock with an optional hold, after the unlock, notify_all), bystanders (wait_timeout 2-5 ms real time) and 1-2 victim coroutines (wait / wait_timeout) cancelled after a delay, once inside the wait, or when a notification is announced; barrier: n = 1-4 (thorough 1-5) threads x 1-4 (1-5) rounds back to back on ONE Barrier(n) (re-use, the leader races ahead), barrier_small (detx): 2 parties x 2-4 or 3 parties x 2 generations, every schedule with <= 2 preemptions; waitgroup (det and detx): 2-5 threads with 1-2 handles each, clone/drop/wait; seeded random schedules; non-trivial = a notifier popped a waiter's blocker (condvar, barrier) / a wait blocked (waitgroup); distinct = SHA-1 of the canonical trace",
    ),
    "C12": dict(
        lean_props=["MayVerif.Props.C12"],
        families=[
            # regression corpus first: the witness shapes of the defects F1a / F1b of the pinned tree (see pending_fixes/README-C12.md)
            dict(mode="det", name="rwlock_reg", quick=200, thorough=4000, nontrivial=r" sync\.poison\.failed@\d+ load 0 0 1 "),
            dict(mode="det", name="rwlock", quick=800, thorough=20000, nontrivial=r" sync\.(rwlock|mutex)\.to_wake@\d+ q\.push "),
            # coroutines and threads on the real runtime, 1-2 coroutines cancelled while blocked in read()/write() or before they give guards back
            dict(mode="live", name="rwlock_live", quick=360, thorough=6000, nontrivial=r" ret - rwlock\.(read|write|drop_r) 3 "),
        ],
        trusted_base=TB_COMMON + [
            "ThreadPark is replaced by the controller's virtual token in det mode (the real parking_lot implementation is not exercised there); in live mode the blockers' park/unpark produce no events and are silent model steps of the replay",
            "crossbeam SegQueue (gate waiter queue) and may_queue::mpsc::Queue (rlock waiter queue) are atomic FIFOs at this layer",
            "the reader count *rlock is a verif::Counted under cfg(may_verif): every comparison and += / -= is one event and one model step (order and values compared); that the sections touching it exclude each other is theorem rwlock_rlock_sections_exclusive (rlock = the C05 Mutex model as a component)",
            "rustc unwinding: a guard's drop runs exactly once; thread::panicking() is the caller-chosen flag of Env.dropW",
        ],
        assumptions=[
            "fair scheduling for the no-stranded theorem (quiescence form)",
            "live mode: cancel() is not delivered while the target is inside a guard drop (there Mutex::lock's b_ignore path can lose the wake-up: defect of the Mutex/Park layer, reported to C05/C11); cancels that arrive before the drop starts are covered",
            "rlock is never poisoned in the fixed code (no panic is possible while it is held: rwlock_reader_count_never_underflows, rwlock_pop_never_empty, rwlock_drop_always_completes), so its poison flag always reads 0 in the model",
            "visibility of data written under the lock follows from SC, which is assumed",
        ],
        rule="det mode: rwlock_reg = 8 fixed witness shapes of F1a/F1b (poisoned lock, try_read + drop of the guard inside Poisoned; simultaneous write/try_write/read callers on a free poisoned lock) under seeded schedules; rwlock = 2-5 threads x 1-7 read/write/try_read/try_write/is_poisoned/drop operations incl. panic while holding the write guard and guards recovered from PoisonError; live mode: rwlock_live = 2-5 coroutines and threads (plus main's final try_write/try_read probe) on the real runtime with 1-3 workers and seeded perturbation, 0-2 coroutines cancelled at seeded moments (blocked first reader behind a writer; cancelled holder giving read guards back under rlock contention; generated mixes); non-trivial = a poisoned guard was handed out (reg) / a waiter registered on the gate or on rlock (rwlock) / a call or drop was left by the cancel panic (live); distinct = SHA-1 of the canonical trace",
    ),
    "C09": dict(
        lean_props=["MayVerif.Props.C09"],
        families=[
            dict(mode="live", name="cancel", quick=360, thorough=6000, nontrivial=r" fetch_or ", timeout=600),
            dict(mode="live", name="cancel_mutex", quick=360, thorough=6000, nontrivial=r"sync\.blocking\.(unparked|release)@\S+ (load|swap) ", timeout=600),
            # oracle only (no replay model attached): cancel during the re-lock inside Condvar::wait (b_ignore path, F11), incl. cancel() racing the unlocker (lost wake-up F16)
            dict(mode="live", name="cancel_cvlock", quick=120, thorough=2000, nontrivial=r" q\.push ", timeout=600),
        ],
        trusted_base=TB_COMMON + [
            "live mode: the recorded trace (a linearization of the hooked operations, logged under one lock) is the replay artefact; schedules come from the OS plus seeded perturbation",
            "generator crate: context switch, `para` slot (set_para / co_get_yield = take, not reset by init_code), panic capture; rustc unwinding runs every drop exactly once (drop counters are a harness oracle)",
            "Park's own state/wait_kernel protocol (C02), the timer list (C08/C19) and the scheduler queues (C01) are abstracted: un-parker and timer are event actors that `take` the wait slot at any time; io cancellation (`io` slot) is abstract (always empty)",
            "cancel_mutex: the Mutex model of C05; in live traces the blocker's park/unpark are silent model steps inferred from the next event",
        ],
        assumptions=[
            "cancel_stops_target is proved only for kernel tails that do not overlap (ov = false); the code allows the overlap and the theorem is FALSE there: witness cancel_lost_stale_set_co, reproduced on the real code (F14, pending_fixes/README-C09.md); the fixed order is proved in full (cancel_stops_target_fixed) and is the replay variant once src/sleep.rs registers before it publishes (header fixed=1)",
            "quiescence form of the no-hang claim (fair scheduling assumed); cancellation disabled (disable_cancel in effect) defers the stop by design: with the set_co of F16 (header setco=1, model variant dz) a wait entered while disabled is not registered and provably never interrupted (disabled_wait_not_interrupted, for slots no earlier wait used - every in-tree disabled wait uses a fresh blocker; witness disabled_wait_on_reused_slot_interrupted for the residual case)",
            "semaphore / condvar / rwlock / channel / join / select / socket instances of the hand-over clause belong to C10/C11/C12/C06/C01/C16/C18",
            "sequential consistency",
        ],
        rule="live mode, 1-3 workers, perturbation 0/10/30/60 %: `cancel` = one target coroutine running 1-5 of park / park_timeout / sleep / yield_now (most end in a wait only the cancel can end), a canceller thread or coroutine firing cancel() 1-2 times after 0-300 us or at a seeded progress count, optionally an un-parker thread; `cancel_mutex` = 2-4 coroutines + 0-2 threads x 1-3 critical sections on one Mutex (some waiting inside the section), 1-2 coroutines cancelled; non-trivial = a cancel() was issued (fetch_or) / a SyncBlocker hand-over flag was read by an aborting waiter or a waker; distinct = SHA-1 of the canonical trace",
    ),
    "C08": dict(
        lean_props=["MayVerif.Props.C08"],
        # translator: ms/ns factors, HASH_CAP, rounding direction of the epoll conversion -> Generated/ConstsTime.lean
        pre_build=["python3", "tools/extract_consts_time.py"],
        families=[
            dict(mode="det", name="time_dur", quick=300, thorough=6000, nontrivial=r" dur\.take "),
            dict(mode="det", name="timeout_list", quick=500, thorough=8000, nontrivial=r" tl\.fire "),
            # the real TimerThread::run (virtual park / unpark / clock) against add_timer / del_timer
            dict(mode="det", name="timer_thread", quick=800, thorough=12000, nontrivial=r" opt\.take 0 0 [1-9]", timeout=300),
            # systematic: every schedule with <= 2 preemptions (time-out firings included) of a few small seeded scenarios
            dict(mode="detx", name="timer_thread", quick=3, thorough=24, nontrivial=r" opt\.take 0 0 [1-9]", timeout=600),
            # wp-sleep: coroutine::sleep / park_timeout on the REAL runtime and timer thread (nobody rescues: a lost time-out is a hang)
            dict(mode="live", name="sleep_live", quick=2400, thorough=24000, nontrivial=r" sleep\.sleep_co@\S+ opt\.take 0 0 [0-9]", timeout=600),
            # the C02 park family also serves C08: timed parks of 1 ms .. 2 s (whole seconds included, seeded change C08_d) that are
            # ended by an unpark or by their time-out on the real runtime; oracle: Timeout never before the requested duration
            dict(mode="live", name="park", quick=300, thorough=4000, nontrivial=r" park\.wait_co@\S+ opt\.take 0 0 [0-9]", timeout=1800),
            dict(mode="live", name="blocker", quick=240, thorough=3000, nontrivial=r"(opt\.take 0 0 [0-9]|ret - blk\.park 1 )", timeout=1800),
        ],
        trusted_base=TB_COMMON + [
            "sleep_live (live mode): the recorded trace (a linearization of the hooked operations, logged under one lock) is the replay artefact; schedules come from the OS plus seeded perturbation; replayed by the product of one Cancel model (C09: the model with the steps of Sleep::subscribe / Park::subscribe) per coroutine, the timer being the shared event actor - a taken coroutine is attributed to its component by the pointer value; the timer-list operations in the trace are skipped there (the det families replay those)",
            "std::time::Duration (as_nanos, from_millis, from_nanos), u128::div_ceil, Instant arithmetic: modelled by their documented meaning on total nanoseconds",
            "tools/extract_consts_time.py (regular expressions over the current source) for the unit factors and HASH_CAP",
        ],
        assumptions=[
            "sleep_live runs the runtime with the public knob config().set_timeout_ns(60 s) (idle-worker poll interval, default 10 ms): an idle worker's poll looks at its io timer list, whose hooked operations are in this family's filter and would keep the hang watchdog's event counter moving for ever; worker wake-ups do not depend on the poll (eventfd). Hang = no hooked event for 3.5 s while a scenario is unfinished (completion is the only real-time judgement; no upper bound on any single wait). park_timeout's lower bound is asserted for the first timed park of a coroutine only (a re-used Park may wake spuriously, by the property's own wording)",
            "durations up to usize::MAX ms (the stored word saturates beyond) and deadlines below 2^64 ns (584 years) - stated as hypotheses of the theorems",
            "real-time promptness on a loaded machine is not asserted anywhere (lower bounds are exact, lateness is only bounded in virtual time)",
        ],
        rule="sleep_live: live mode, 1-3 workers, perturbation 0/10/30/60 % (yield / 20-200 us / 0.5-2 ms before hooked operations of src/sleep.rs, src/timeout_list.rs, src/park.rs, src/cancel.rs): 2-8 coroutines + 1-2 plain threads x 1-6 operations of coroutine::sleep(d) (threads: the thread::sleep fall-back), park_timeout(d) that nobody unparks, yield_now; d from {0, 1 ns, 999 ns, 1 us .. 999 us, 999.999 us, 1 ms, 1 ms + 1 ns, 1-5 ms, non-integral ms}; oracles: every call returns (watchdog), Instant-measured elapsed >= d for every sleep, calls strictly sequential per actor (no double resume), join Ok, stack value dropped once; non-trivial = the timer thread took a sleeper out of its sleep_co slot. time_dur: one actor runs the real AtomicDuration::{new,store,take,get} and TimeOutList::add_timer+schedule_timer (virtual clock) over a stratified sample of the Duration range from the scenario seed (0, 1 ns, < 1 ms, k ms +- 1 ns, seconds, hours, 2^63/2^64 ns, usize::MAX ms, Duration::MAX); every output is recomputed by the Lean model; non-trivial = at least one store/take round trip; distinct = SHA-1 of the canonical trace",
    ),
    "C06": dict(
        lean_props=["MayVerif.Props.C06"],
        families=[
            dict(mode="det", name="ch_mpsc", quick=600, thorough=12000, nontrivial=r" q\.push (.|\n)* q\.pop "),
            dict(mode="det", name="ch_mpmc", quick=600, thorough=12000, nontrivial=r" q\.push (.|\n)* q\.pop "),
            dict(mode="det", name="ch_spsc", quick=400, thorough=8000, nontrivial=r" q\.push (.|\n)* q\.pop "),
        ],
        trusted_base=TB_COMMON + CH_TB,
        assumptions=CH_ASSUME,
        rule=CH_RULE,
    ),
    "C07": dict(
        lean_props=["MayVerif.Props.C07"],
        families=[
            dict(mode="det", name="ch_mpmc_f4", quick=60, thorough=400, nontrivial=r" (load|fetch_sub) \S+ \S+ [01] 2 |park_enter"),
            dict(mode="det", name="ch_mpsc", quick=600, thorough=12000, nontrivial=r" (load|fetch_sub) \S+ \S+ [01] 2 |park_enter"),
            dict(mode="det", name="ch_mpmc", quick=600, thorough=12000, nontrivial=r" (load|fetch_sub) \S+ \S+ [01] 2 |park_enter"),
            dict(mode="det", name="ch_spsc", quick=400, thorough=8000, nontrivial=r" (load|fetch_sub) \S+ \S+ [01] 2 |park_enter"),
        ],
        trusted_base=TB_COMMON + CH_TB,
        assumptions=CH_ASSUME,
        rule=CH_RULE,
    ),
    "C19": dict(
        lean_props=["MayVerif.Props.C19"],
        families=[dict(mode="det", name="mq_tl", quick=600, thorough=20000,
                       nontrivial=r"(?s)t[1-9] a mq\.mpsc_list_v1\.head@0 swap .*t0 a mq\.mpsc_list_v1\.(tail@0 store|next@\S+ store)")],
        trusted_base=TB_COMMON + [
            "the non-atomic accesses of mpsc_list_v1 (tail, prev, value) are reported by an event emitted immediately before the access; in det mode nothing runs in between",
            "node identity: the canonicaliser names a pointer by the heap object that lives at that address now (born/free notes); the dangling `prev` operand of push's tail read is therefore not compared once the model has freed that node",
            "memory oracle: freed blocks are quarantined by the harness allocator (valloc.rs) while the family runs; a hooked access to a node after its free note / a second free is an oracle failure",
        ],
        assumptions=[
            "single consumer: pop / pop_if / peek / is_empty / remove and the drop of the queue are only performed by one thread (actor 0 of the model); the queue is dropped only while nobody else is inside one of its operations (ownership)",
            "one handle per entry (Entry::into_ptr / from_ptr are not used to duplicate handles)",
            "address re-use by the allocator is an adversarial choice of the model only where a pointer is compared without being dereferenced (push's `tail == prev`)",
        ],
        rule="det mode: consumer t0 (4-9 pop/pop_if/peek/is_empty/remove/drop/is_link/push operations, plus `is_empty(); peek()` pairs and the schedule_timer pattern `while pop_if(due) {}; peek(); if None: is_empty(); if false: peek()` - in 25% of the scenarios (tt=1) these dominate the consumer's program; implementation-side visibility oracles: is_empty() = false / an earlier peek() = Some with nothing taken out since => peek() / pop() is Some, a push that returned before the call and is unconsumed => peek() is Some, peek() shows the oldest unconsumed entry in swap order; in 40% of the scenarios followed by the drop of the queue and 1-4 operations on surviving handles) against 1-3 producers x 1-3 pushes; race=1 scenarios (20%) also inspect/drop handles on the producer threads while the consumer runs (the Park::remove_timeout_handle pattern); seeded random schedules with stickiness; non-trivial = a producer's swap is followed by a consumer pop (tail store) or unlink (next store by t0); distinct = SHA-1 of the canonical trace",
    ),
    "C02": dict(
        lean_props=["MayVerif.Props.C02"],
        families=[
            dict(mode="live", name="park", quick=300, thorough=4000, nontrivial=r" park\.wait_co@\S+ opt\.take 0 0 [0-9]", timeout=1800),
            dict(mode="live", name="blocker", quick=240, thorough=3000, nontrivial=r"(opt\.take 0 0 [0-9]|ret - blk\.park 1 )", timeout=1800),
            # one unpark per park, untimed parks only, nobody rescues: a lost wake-up is an oracle failure (hang of the round,
            # recorded BEFORE a second unpark checks that the coroutine was alive), not just a delay
            dict(mode="live", name="park_once", quick=1200, thorough=12000, nontrivial=r" park\.wait_co@\S+ opt\.take 0 0 [0-9]", timeout=900),
            dict(mode="det", name="blocker_thr", quick=600, thorough=10000, nontrivial=r"park_return 0 0 1 "),
        ] + ([
            # only on a tree with the F6 fix: short timed parks that nobody unparks and nobody rescues, the kernel tail
            # stalled between arming and publication by the perturbation; a lost time-out is a hang report
            dict(mode="live", name="park_f6", quick=240, thorough=3000, nontrivial=r" park\.wait_co@\S+ opt\.take 0 0 [0-9]", timeout=1800),
        ] if _f6_fixed() else []),
        trusted_base=TB_COMMON + [
            "live mode: the trace is a linearization of the hooked operations (one global log lock); operations that are not hooked in this layer (schedule, the timer list incl. add_timer/del_timer, get_co_para, the AtomicPtr timeout_handle) are silent model steps placed lazily by the replay",
            "ThreadPark (parking_lot mutex + condvar) is modelled by contract: nothing inside it is hooked in live mode and det mode replaces it by the controller's virtual token; the replay checks the API-boundary history of thread-context blockers against the token model",
            "generator (context switch, the `para` slot), the scheduler queues (a scheduled coroutine is resumed once, later) and the timer thread (an armed entry may fire at any time; never-early is C08) are modelled by contract",
            "cancellation is modelled as far as the Park sees it (cancel bit, cancel.co, the inner take); no scenario of C02 cancels (C09 does)",
        ],
        assumptions=[
            "fair scheduling for the no-lost-wake-up theorem (quiescence form): every actor with an enabled step eventually takes it; the wait_kernel spin ends",
            "timed parks: on a tree WITHOUT pending_fixes/F6.patch the time-out can be lost when the timer fires between add_timer and wait_co.store in Park::subscribe (defect F6, witness park_timeout_lost_F6 on the pinned variant of the model); the replay selects the pinned / fixed variant from the source-derived header flag f6fix=, the theorems (park_timeout_returns) are about the fixed code; on an unfixed tree timed parks are rescued by an unpark after 80 ms and family park_f6 is not run",
            "time is one bit per kernel tail (`due`: its deadline has passed); that the timer thread pops an entry only at or after its time, and does pop it, is C08",
            "durations are whole milliseconds >= 1 ms (sub-millisecond time-outs are stored as 'no time-out': defect F2, owned by C08)",
        ],
        rule="det mode (blocker_thr): Blocker in thread context, virtual ThreadPark, 1-5 parks with virtual time-outs, 1-3 unparker threads; live mode, 1-3 workers, perturbation 0-60%: one parker (coroutine on its per-coroutine handle, or coroutine/thread on fresh Blockers), 1-4 unparkers (threads and coroutines), 1-4 rounds of park / park_timeout(1-30 ms); family park_once: 3-10 (thorough 3-16) rounds of `at=i; while go<i {park()}` against exactly ONE `go=i; unpark()` per round by a thread or a fresh coroutine, aimed before / at / after the registration of the park, no time-outs, no rescuer, a round that does not complete after its unpark returned while every actor is quiet for 3 s is the oracle failure `lost wake-up`; non-trivial = some actor took the coroutine out of the slot (or a thread-context park timed out); distinct = SHA-1 of the canonical trace",
    ),
    "C15": dict(
        lean_props=["MayVerif.Props.C15"],
        families=[dict(mode="live", name="local", quick=480, thorough=8000, nontrivial=r" stack\.reuse ", timeout=600)],
        trusted_base=TB_COMMON + [
            "the model is of the code WITH /verif/pending_fixes/F8.patch (EventSender::send without the cancel shortcut); on a tree without it the oracle `stale-para` / `fresh-panic` fires and the replay diverges at the first park of a fresh coroutine that reuses the stack of a removed select coroutine",
            "src/local.rs, the generator's para slot and pool.rs have no hooked shared-memory operations: the tie is at the level of API events recorded around the real calls (cls.with / cls.init / cls.drop ids under a bijection, first.park results, co.start / co.end); which generator a spawn gets is not observable (stack.reuse records that reuse happened)",
            "with /verif/pending_hooks/wp-cq3.patch in /repo the consumption of the para slot is an event (note para.get v / para.set v at get_co_para / set_co_para / the yield_with shortcut): a modelled wait that switched out must consume the para before it returns and consume what the model's wait consumes; without the patch the traces have no para notes and only the result values tie the para",
            "generator crate: `para` is a plain Option in the generator that init_code does not touch (read from its source, version pinned by Cargo.lock); Rust drops every value of the CoroutineLocal's HashMap exactly once when the Box is freed",
            "the para table (which EventSource's yield_back checks the cancel, which API consumes para) is transcribed from yield_now.rs / park.rs / sleep.rs / fast_blocking.rs / cqueue.rs / cancel.rs / scheduler.rs; I/O event sources (co_io_result) are not in the table",
        ],
        assumptions=[
            "a coroutine is resumed by one thread at a time (C01) and a parked coroutine is taken out of its slot by exactly one of unparker / timer / canceller (C02, C08, C09): the model's wake step is atomic",
            "thread fallback values are dropped by std's TLS destructors at thread exit (not may's code)",
        ],
        rule="live mode on the real runtime, 1-3 workers, pool capacity 2 (FIFO) so that stacks are reused at once: part 1: 2-4 coroutines and 0-2 threads access 1-3 coroutine_local! keys holding drop-counted values between yields / sleeps, coroutines end by return / panic / cancel; part 2: 1-3 pool histories: a predecessor that uses CLS and ends normally / by panic / cancelled while parked / after a park that timed out / as a cqueue arm removed around its send (the F8 window) / cancelled while parked with a guard whose Drop calls yield_now, sleep(1 ms) or Blocker::park(Some(1 ms)) during the Cancel unwind (the `yield_with` shortcut while unwinding: only check_cancel's get_co_para clears it), then 2-3 fresh coroutines whose first action is Blocker::park(Some(d)) with or without unpark, a contended Mutex::lock, sleep, or a CLS access; part 3 (40 % of the scenarios): 6-12 coroutines in coroutine::park_timeout(1-3 ms) while main sweeps Coroutine::unpark over them around the expiry (pool capacity raised to keep all their stacks), then as many fresh coroutines each make one probing wait whose result they must own: blocking UdpSocket::recv_from without time-out that gets its datagram (co_io_result reads the para), Blocker::park(5 s) that is unparked, Semphore::wait_timeout(5 s) that is posted. Non-trivial = a fresh coroutine ran on a predecessor's stack (stack.reuse in the trace); distinct = SHA-1 of the canonical trace",
    ),
    "C16": dict(
        lean_props=["MayVerif.Props.C16"],
        families=[dict(mode="live", name="cqueue", quick=480, thorough=8000, nontrivial=r"cqueue\.ev_queue@0 q\.pop 0 0 0 ", timeout=600),
                  # F25: coroutine poller, arms that send while it enters its park, src/park.rs in the filter (non-trivial = the
                  # poller's own Park::subscribe resumed it in place: fast_wake_up took wait_co)
                  dict(mode="live", name="cqueue_co", quick=360, thorough=6000, nontrivial=r"k:c:p#\d+ a park\.wait_co@\S+ opt\.take 0 0 \d{6,} ", timeout=600)],
        trusted_base=TB_COMMON + [
            "the model and the replayed traces are of the code WITH /verif/pending_fixes F9, F8, F9b, C16-early-finished (F16a), C16-subscribe-uaf (F16b); on the pinned tree the oracles report F9 (process abort, found in a child process) and the traces diverge",
            "Blocker (park/unpark of the poller) is the abstract binary token (C02): unpark is folded into the to_wake.take that found the blocker, the poller's park returns only with the token or by its time-out",
            "JoinHandle::join of a finished arm is an abstract flag set by the arm's last step (in the code it is set later, at the end of the coroutine); may_queue::mpsc::Queue (ev_queue) is an atomic FIFO at this layer (C03); the selectors mutex is a lock bit + poison flag (C05 is its own check, it is never contended here)",
            "user code of a top half is abstract: it may finish, return, panic, or unwind with Cancel once the arm's cancel bit is set (its cancel checks are value-checked against the model's bit in the replay); bottom halves do not block",
            "thread::panicking() inside an arm that runs nested on an unwinding poller thread suppresses the Cancel panic of check_cancel: modelled (`sup`) as the code behaves; the resulting livelock of arms that wait for ever is a reported defect and such arms are not generated together with panicking arms (VH_CQ_LIVELOCK=1 enables them)",
        ],
        assumptions=[
            "the Park inside the poller's Blocker is the abstract binary token in the model: the wait of `Park::drop` (last Arc<Blocker>, dropped by EventSender::subscribe) for the poller's own Park::subscribe frame, which fast_wake_up may have put BELOW the poller that runs the arm, is outside Model/Cqueue.lean (defect F25: subscribe must clear wait_kernel before it drops the blocker); it is the subject of the small finite model Model/CqueueWake.lean (theorem sender_subscribe_terminates, witness reverted_f25_deadlock), which is NOT tied by replay - the real code is covered by family cqueue_co (park.rs events are accepted as noise by the replay; oracle: event-flood guard + hang watchdog)",
            "fair scheduling for poller_not_stuck (quiescence form: parked without token and no arm inside a cqueue operation => nothing queued, still registered, some arm still in a top half)",
            "quantitative time is not modelled: Timeout-not-before-the-duration is a harness oracle (wall-clock lower bound), not a theorem",
            "one poller per cqueue (add/poll/drop from the owner), Selector::remove from one other thread; arms added before the first poll in the scenarios (the model allows add at any idle point)",
            "a coroutine poller that unwinds parks inside Cqueue::drop and corrupts std's per-thread panic count (finding of the scope work package): re-raise scenarios use thread pollers unless VH_CQ_CO_UNWIND=1",
        ],
        rule="live mode on the real runtime, 1-3 workers, seeded perturbation at every hooked operation of cqueue.rs / cancel.rs / the selectors mutex: 1-4 arms built with go!(cqueue,..) / cqueue_add! / cqueue_add_oneshot! / select!, 1-3 rounds each, top halves that return at once / yield / sleep / receive from a channel, arms that end normally, panic in the top or bottom half, or block until cancelled; Selector::remove from a thread; poller = thread or coroutine running a seeded list of poll(None) / poll(Some(1-4 ms)) or polling until Finished, optionally catching a re-raised panic inside the scope; scenarios with a panicking arm are first run in a child process (abort probe). Non-trivial = the poller popped at least one event; distinct = SHA-1 of the canonical trace",
    ),
}

# ---- C17 / C18: network I/O (wp-io). PARTIAL BY NATURE: the kernel is an environment with a contract, not verified.
TB_IO = TB_COMMON + [
    "the Linux kernel (epoll edge semantics, TCP / Unix byte streams, datagram queues, eventfd, monotonic clock) is an adversarial ENVIRONMENT with the contract stated in Model/Io.lean (byte FIFO per direction; read = non-empty prefix or EAGAIN iff empty, 0 only after shutdown and drain; write = non-empty prefix or EAGAIN iff full; datagrams atomic; an edge event is queued whenever data/space/a connection ARRIVES); it is assumed, not verified; the replay inserts the unobservable kernel steps, so the contract itself is not checked against the traces",
    "results of the non-blocking system calls and del_fd are reported by cfg(may_verif) hook points next to - not atomically with - the call: their position in the log can be later than the kernel's own linearization. The io-timer marks (t.armed / t.own / t.stale / t.disarm) are made under the lock of the timer-handle cell on a tree with fix: io-timer-handle-race: there the replay is strict (a disarm event is there iff the model's cell holds a handle); on a tree without it (RefCell) the replay accepts a disarm event, or its absence, whatever the model's idea of `handle present` is",
    "the scheduler (run queues, work stealing, resume of a scheduled coroutine) and the timer list (mpsc_list_v1 entries) are abstracted: `queued` flag, entry states armed/disarmed/gone (C01/C04/C08/C19 are their own checks); epoll registration life-time (fd numbers) is not in the model (fix aafec99 is covered by the family io_unix_churn only)",
    "one operation at a time per IoData (the API contract of &mut self / split / try_clone), and no drop of a socket while an operation is in progress on it, are built into the model (`user`)",
    "wp-io3: model of the repaired io code (`init` = /repo with 128a1d4 999f25c 8f0e7f9 + fix: io-timer-handle-race + fix: io-stale-set_io; every theorem is about it); the trees without one of the two repairs are model variants (`fixOwn` / `regFirst` = false, `initHead`; `initPinned` for the older defects) that carry the labelled witnesses only; the replay selects the variant from the scenario header (`timerfix=` / `regfirst=`), which the harness derives from the source it was built against ($VERIF_REPO/src/io/sys/unix/mod.rs has `pub fn arm_timer`; net/socket_read.rs calls `set_io` before `co.store`)",
]
IO_ASSUME = [
    "quantitative real time is not asserted: live oracles use wall-clock LOWER bounds only, completion is the watchdog's business",
    "fair scheduling for the quiescence-form theorems (io_no_missed_edge, io_blocked_caller_is_served, io_timeout_returns): quiescent = every kernel tail finished, every selector / timer / canceller thread between two events",
    "findings 5 (F26, timer-handle race) and 6 (F27, stale set_io) are repaired in /repo by fix: io-timer-handle-race and fix: io-stale-set_io; the model is of the repaired code, the defects are the witnesses io_stalled_timer_handler_witness / io_stale_set_io_witness on `initHead`. No scenario shape is opt-in any more: on a tree without the first repair the families io_timeout / io_timeout_race fail with the stable prefix `F26:` (a runtime thread panicked in RefCell::borrow_mut / with_mut_data, an operation without a time-out got TimedOut, a timed read never returned), on a tree without the second the two-socket victim of io_cancel fails with `F27:` (the cancelled coroutine is never resumed)",
    "FIXED findings, regression scenarios run by default: use-after-publish in subscribe (sockets dropped right after use, threads end with their work, may's connect under perturbation - 128a1d4), cancel leaves the io timer armed (io_cancel_shared - 8f0e7f9), CoIo closes before EPOLL_CTL_DEL (io_unix_churn, io_unix_iter - aafec99), io timer armed before publication (999f25c: io_timeout with time-outs from 0.3 ms, io_timeout_race), timer-handle race (io_timeout_race, io_timeout), stale set_io (io_cancel victim=two_sock)",
]
PROPS["C17"] = dict(
    lean_props=["MayVerif.Props.C17"],
    families=[
        dict(mode="live", name="io_stream", quick=240, thorough=2400, nontrivial=r"io\.sys\.unix\.mod\.co@\S+ opt\.store ", timeout=600),
        dict(mode="live", name="io_unix_churn", quick=12, thorough=36, nontrivial=r"io\.sys\.unix\.mod\.co@\S+ opt\.store ", timeout=600),
        dict(mode="live", name="io_unix_iter", quick=72, thorough=360, nontrivial=r" sys\.accept ", timeout=600),
    ],
    trusted_base=TB_IO,
    assumptions=IO_ASSUME + [
        "stream_preserved / datagram_boundaries are theorems over the kernel contract plus the library's pass-through of the last non-EAGAIN system-call result; that the library adds no buffering of its own is what the live byte-for-byte oracles check",
        "the hand-over of a plain-thread caller to its proxy coroutine (tx.send + thread::park) is a silent step of the model: finding 7 (the thread parked once, any other unpark let it go on with the proxy still holding a pointer into its stack; fix: io-thread-park-token) is covered by the io_unix_churn oracle `F28:` and by the correspondence, not by a theorem",
    ],
    rule="live mode, real sockets on loopback / socketpair: io_stream = TcpStream and UnixStream (1-2 connections, 1-4 in the thorough tier; payload 0 .. 150 KB, .. 600 KB thorough; seeded write chunkings, read buffer sizes, SO_SNDBUF/SO_RCVBUF 2-16 KB, coroutine and plain-thread callers on both ends, may's accept and connect, sockets dropped right after use), UDP and Unix datagrams (1-12 / 1-40 datagrams of 0-1400 bytes); oracles: received == sent byte for byte and in order, read returns 0 only after the writer shut down and everything was delivered, write never accepts 0 or more than offered, every datagram arrives with its size and content; io_unix_churn = 3-5 pairs of threads create Unix socket pairs, block in a read, feed it and drop both ends, 60 (120) rounds each, concurrently (fd-number reuse: a reader must never stay blocked), in half of the scenarios the readers leave a stale park token on their thread before every 3rd / 7th read (finding 7: a reader that never comes back, 6 s without any hooked event, is the oracle failure `F28:`); io_unix_iter = the shape of the crate's test os::unix::net::test::iter (a coroutine accepts 2-6 connections in turn and reads a byte from each, a thread connects, writes, drops) and, in half of the scenarios, kind=burst: ACCEPT BURST on a TcpListener or UnixListener, acceptor coroutine or plain thread: 0-2 sequential connect / accept pairs, then 2-8 (2-32 thorough) clients (std threads, may coroutines) connect while the acceptor sleeps, nobody connects afterwards; the acceptor must accept them all (greeting with client id + seed byte and an ack per connection, no client handed out twice; `hang: the acceptor is stranded` after 5 s without any hooked event); completion by watchdog; non-trivial = at least one operation really blocked and registered its coroutine; distinct = SHA-1 of the canonical trace",
    explanation="PARTIAL BY NATURE: kernel = environment with contract; promptness measured, never asserted",
)
PROPS["C18"] = dict(
    lean_props=["MayVerif.Props.C18"],
    families=[
        dict(mode="live", name="io_timeout", quick=96, thorough=1200, nontrivial=r" t\.(fire|disarm) ", timeout=900),
        dict(mode="live", name="io_cancel", quick=180, thorough=2400, nontrivial=r"cancel\.state@\S+ fetch_or ", timeout=600),
        dict(mode="live", name="io_cancel_shared", quick=24, thorough=240, nontrivial=r"cancel\.state@\S+ fetch_or ", timeout=900),
        dict(mode="live", name="io_timeout_race", quick=96, thorough=1200, nontrivial=r" t\.(fire|disarm) ", timeout=900),
    ],
    trusted_base=TB_IO,
    assumptions=IO_ASSUME + [
        "F2 (AtomicDuration truncation) is fixed in /repo: io_timeout_not_early is about the rounding-up conversion and holds for every duration; the io_timeout family uses 0.3 / 0.7 ms and 1-64 ms plus 0 / 1 / 250 / 500 / 999 us for the expiring operations and 400-700 ms for the fed ones, the race family 0.3-3 ms",
        "the replay demands the result check of a coroutine caller: after `cancel.clear()` its next event must be the note `para.get v` of co_io_result (hook notes of 85a4962), v = 1 iff the model says the wait was ended by the timer (theorem io_wait_result_consumed; seeded order: io_wait_result_left_witness on `initLate`); a plain-thread caller gets the result through ASSOCIATED_IO_RET, which is not hooked: covered by the oracle of kind=stale_result only",
        "TcpListener / UnixListener have no accept time-out in may's API and no loopback address black-holes a connect, so time-outs are exercised on read (TCP, Unix stream) and recv_from (UDP)",
        "cancel: io_cancel_ends_with_cancel is the all-interleavings quiescence form (cancel bit set, blocked in a REGISTERING operation - read / recv / accept / connect - and everything quiet => in a run queue), io_cancel_resumed_is_cancel the steps around it; write / send do not register for io cancel in the code (they are cancelled when they are resumed for another reason): not covered by the theorem, not a finding",
    ],
    rule="live mode, real sockets: io_timeout = 2-4 (2-7 thorough) operations on ONE socket (TCP, Unix stream, UDP; coroutine or thread reader): `idle` read with a 0.3-64.999 ms time-out (sub-millisecond, whole and non-integral milliseconds) and nothing sent (must fail with TimedOut, elapsed >= time-out, no upper bound), `fed` read with 400-700 ms and data after 0-3 ms (data, or a not-early time-out on a slow machine and the data in a later read), `after` read with NO or a 4x longer time-out right after a timed one, data after the earlier deadline (must not fail / return early); io_timeout_race = the same with 0.3-3 ms time-outs only (the timer fires while its wait is being set up / completed / already over); in 30 % of its scenarios kind=stale_result: 1-3 rounds on one coroutine / plain thread of (A) a read with a 1-3 ms time-out on a TCP / Unix stream whose data is written exactly when the timeout handler has taken the reader and is about to leave TimedOut for it (the handler is held there for 2-5 ms; (A) ends with a not-early TimedOut or with the data, what it did not hand out comes out of a drain read) followed by (B) a blocking operation of another kind with a 5 s or no time-out that is served 0.5-3 ms later - peek on the same stream, recv_from on a UDP socket of the same actor, accept on a listener of the same actor, a 256 KB write that has to wait for buffer space: (B) must not fail with TimedOut before its own deadline (`stale io result delivered to a later operation`); a runtime thread that panics inside src/io or the timer list, and a reader that never comes back (4 s without any hooked event), are oracle failures `F26:`; io_cancel = a coroutine blocked in TCP/Unix read (optionally with a 1.5 s time-out armed, optionally after consuming 1-2000 bytes), in accept, or - victim=two_sock - in a read on socket B right after a read on socket A that blocked and was served, is cancelled after 0-3000 us by main or a thread, 0-1 (0-2) other connections transfer concurrently: join returns the Cancel error (a victim that is never resumed, 2.5 s without any hooked event: `F27:`), the victim's captured state is dropped exactly once, its peer(s) read EOF, the other transfers pass the stream oracle; io_cancel_shared = a coroutine blocked in recv_from with a 40-100 ms time-out on an Arc<UdpSocket> is cancelled, a survivor then blocks WITHOUT a time-out on the same socket and is fed after the stale deadline (must get the datagram, never TimedOut); non-trivial = a timer fired or was disarmed / a cancel was issued; distinct = SHA-1 of the canonical trace",
    explanation="PARTIAL BY NATURE: kernel and clock = environment; promptness measured, never asserted. The defects of the trees without the io fixes are labelled witnesses on the model variants initPinned / initHead and regression shapes of the default families (pending_fixes/README-io.md, pending_fixes/wp-io3/README.md)",
)

PROPS["C13"] = dict(
    lean_props=["MayVerif.Props.C13"],
    families=[
        dict(mode="live", name="panic", quick=240, thorough=3000, nontrivial=r"child\.panic", timeout=600),
        # a scope owner re-raises a child's panic and then has to wait for a slow child (F10.patch: it no longer waits inside the unwind)
        dict(mode="live", name="panicscope", quick=120, thorough=1500, nontrivial=r"child\.panic", timeout=600),
        # the same around cqueue::scope (owner panic / re-thrown arm panic while an arm still runs); oracles only: the cqueue events are C16's
        dict(mode="live", name="paniccq", quick=60, thorough=600, nontrivial=r"join\.state", timeout=600),
        # the residue of F10 (open known finding F10rw): RwLockReadGuard::drop -> read_unlock -> rlock.lock() parks under reader
        # contention, also while the reader unwinds. Oracles only, stable prefix `F10rw:`; one scenario per process
        dict(mode="live", name="panicrw", quick=12, thorough=12, nontrivial=r".", timeout=600),
        # contended locks: a holder panics inside a Mutex / RwLock write guard with 1-3 waiters (lock / write / read / try_*,
        # coroutines and threads) queued or arriving; the dropper is stalled between poison.done and the release
        dict(mode="live", name="panichand", quick=300, thorough=3000, nontrivial=r"child\.panic", timeout=600),
        # owners that catch the re-raised panic of a scoped child (catch_unwind around coroutine::scope), go on running and
        # are cancelled afterwards: the child's panic must have no other effect on the owner (its cancel word is balanced)
        dict(mode="live", name="scopecatch", quick=120, thorough=1500, nontrivial=r"child\.panic", timeout=600),
    ],
    trusted_base=TB_COMMON + [
        "rustc's unwinding (every guard on the stack is dropped exactly once, innermost first) and the generator crate's catch_unwind / panic capture are taken by contract",
        "pool.rs and Done::drop_coroutine are not hooked: the pool / local-data steps of worker_survives are modelled from the source and tied to the code only by the oracles (coroutines spawned after the panics complete on every worker)",
        "thread::panicking() is modelled as 'this coroutine is unwinding'; std keeps the flag per thread, so this holds of the code only while no coroutine is suspended during an unwind (finding F10). With F10.patch the scope exits (coroutine::scope, cqueue::scope) wait outside the unwind; the assumption is checked on every run by the F10 probe of families scope / panic / panicscope / paniccq (strict: an 'F10:' line is a violation). Not covered by the patch: Park::drop's wait_kernel spin and user destructors that block while unwinding (README-C14)",
        "locks are used without contention in families panic / panicscope: waiter hand-over (queues, wake-ups) is C05/C12; the model here uses their specification held -> released. Family panichand contends the lock: its replay ties the order of the two halves of a guard drop by an unwind (poison.done's store, then the cnt.fetch_sub that releases the lock word) and the flag value every grant reads to the model; the other operations of sync/mutex.rs / sync/rwlock.rs in its traces are perturbation points only (skipped by the replay)",
        "cancel.rs is in the filter of families panic / panicscope / scopecatch (perturbation at its hooked operations; the use-after-free in the subscribes that kept it out is fixed, 7d62f03 / 128a1d4): the read-modify-write operations of Cancel::state (the canceller's fetch_or(1), the fetch_add(2) / fetch_sub(2) of the disable_cancel bracket of JoinState::join, with the previous value of the word) are steps of Model/ScopeCancel.lean that the replay runs next to the Scope model, and every load of the word by its coroutine must read the model's value (cancel bit + 2 x open brackets). Brackets of other code on the same word (Park::drop, ...) are accepted where the model allows them (properly nested); Cancel::co is skipped. A coroutine that survives a panic (catch_unwind) is outside the Scope model: scopecatch is replayed against the cancel-word model alone (Scope.catchMachine)",
        "get_panic_data / context.err live in the generator crate and are not hooked: the stack-history model (wseq, panic_slot_is_own_payload_on_reused_stack) is tied to the code by the replay of coroutine_impl.panic opt.store in run_coroutine's panic branch (a detached panicker that skips it diverges) and by the foreign-payload oracle",
    ],
    assumptions=[
        "family paniccq is checked by its oracles only (its traces are not replayed: the cqueue events are C16's model)",
        "select! owners re-raising an arm's panic (F9) belong to C16",
    ],
    rule="live mode: 2-5 rounds x 2-5 coroutines (panic before/after yields, holding a Mutex and/or RwLock write guard; holders cancelled while holding; detached panickers whose JoinHandle is dropped before / while they run; victims cancelled while running; unrelated workers) over the reused stack pool (capacity 6), 8 fresh coroutines afterwards; family panichand: one holder that panics inside a Mutex / RwLock write guard (1 in 4: normal end) and 1-3 waiters (coroutines, threads; lock / write / read / polling try_lock / try_write / try_read) queued or arriving, perturbation at every hooked operation of sync/poison.rs, sync/mutex.rs, sync/rwlock.rs; family scopecatch: 2-4 owner coroutines wrap a coroutine::scope with 1-3 scoped children in catch_unwind, in some a child panics (joined at scope exit or explicitly), the others are controls; every owner then runs a loop of cancellation points (yield_now / sleep) and is cancelled by main after 0-4 of them (count-based oracle: at most 12 more after cancel() returned, the JoinHandle yields Error::Cancel); non-trivial = at least one injected panic; distinct = SHA-1 of the canonical trace",
)

PROPS["C14"] = dict(
    lean_props=["MayVerif.Props.C14"],
    families=[dict(mode="live", name="scope", quick=360, thorough=6000, nontrivial=r"scope\.spawn", timeout=600)],
    trusted_base=TB_COMMON + [
        "Blocker park/unpark is the binary token of C02; the cancel behaviour of a park (returns at once for a cancelled coroutine, raises Cancel unless already unwinding) is modelled from yield_now.rs / cancel.rs and is not in this layer's trace. cancel.rs is in the filter of family scope since wp-scope4 (the use-after-free in the subscribes is fixed): the canceller's fetch_or(1), the fetch_add(2) / fetch_sub(2) of the disable_cancel bracket of JoinState::join and the loads of the word are tied (steps / values of Model/ScopeCancel.lean next to the Scope model, theorems in Props/C13), Cancel::co is skipped",
        "rustc's unwinding / catch_unwind (scope catches a panic of f and of every dtor, runs all dtors and resumes the first payload; before F10.patch: Drop for Scope runs when f or a dtor unwinds) is taken by contract",
        "thread::panicking() is modelled as 'this coroutine is unwinding' (finding F10; with F10.patch a scope exit never waits inside an unwind, checked on every run by the strict F10 probe of the family)",
        "the variant of JoinState::join (pinned / F5.patch) is detected from the trace at the first scoped join; scope_exit_after_children is proved for the fixed variant, _partial + witness for the pinned one",
    ],
    assumptions=[
        "cqueue::scope / select! (Cqueue::drop polls until Finished) belongs to C16; nesting join! inside a select! arm is the safe-code way to cancel a scope owner and is covered here by the canceller actor",
        "same-coroutine lexical nesting scope(|s| scope(|s2| ..)) is not in the model: nesting is through children that own scopes",
    ],
    rule="live mode: trees of 1-4 scoped children (some owning nested scopes or join!), explicit joins, at most one fault (owner panic in f, leaf panic, owner cancelled inside f or while waiting); non-trivial = at least one scoped spawn; distinct = SHA-1 of the canonical trace",
)


# ---------------------------------------------------------------------------------------------------------------------
# thorough tier = as deep as the budget allows: the counts written next to each family were calibrated for a few
# minutes per property; the cheap ones (seconds per thousand scenarios) are scaled up here so that every thorough run
# spends minutes, not seconds, per family (systematic `detx` families are not scaled: their cost is per schedule).
THOROUGH_SCALE = {"C02": 5, "C03": 2, "C05": 2, "C06": 5, "C07": 5, "C09": 5, "C10": 2, "C11": 2, "C12": 5, "C13": 4,
                  "C14": 5, "C15": 5, "C16": 5, "C17": 3, "C18": 2, "C19": 5}
for _pid, _k in THOROUGH_SCALE.items():
    for _f in PROPS.get(_pid, {}).get("families", []):
        if _f["mode"] in ("det", "live") and _f.get("thorough", 0) > _f.get("quick", 0):
            _f["thorough"] = _f["thorough"] * _k
