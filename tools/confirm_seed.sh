#!/bin/bash
# confirm a seeded change delivered in <worktree>/DELIVER: suite passes with it, demo fails with it and passes without
# usage: confirm_seed.sh <worktree> <seed-id> "<demo command>"     (writes /verif/seeded/<seed-id>/confirm.log)
set -u
WT=$1; ID=$2; DEMO=$3
OUT=/verif/seeded/$ID; mkdir -p $OUT
cp -r $WT/DELIVER/* $OUT/ 2>/dev/null
LOG=$OUT/confirm.log; : > $LOG
cd $WT || exit 2
export CARGO_NET_OFFLINE=true
git checkout -q -- . ; git status --short | grep -v "DELIVER\|demo_" >> $LOG
echo "== demo on unchanged tree" >> $LOG
( [ -f $OUT/stall.diff ] && git apply $OUT/stall.diff ); timeout 600 bash -o pipefail -c "$DEMO" >> $LOG 2>&1; echo "rc_unchanged=$?" >> $LOG
git checkout -q -- .
echo "== apply change" >> $LOG
git apply $OUT/patch.diff >> $LOG 2>&1 || { echo "PATCH DOES NOT APPLY" >> $LOG; exit 1; }
echo "== test suite with change" >> $LOG
timeout 1200 cargo test --workspace --no-fail-fast --offline 2>&1 | grep -E "^test result|FAILED|panicked" >> $LOG
( [ -f $OUT/stall.diff ] && git apply $OUT/stall.diff )
echo "== demo on changed tree" >> $LOG
timeout 600 bash -o pipefail -c "$DEMO" >> $LOG 2>&1; echo "rc_changed=$?" >> $LOG
git checkout -q -- .
grep -E "rc_unchanged|rc_changed|test result|FAILED" $LOG
