#!/usr/bin/env python3
"""regenerate the auto-generated tables of DESIGN.md §11 (between the AUTOGEN markers) from known_findings.json,
seeded/*/{meta,detect}.json and tools/props.py"""
import json, os, re, glob, sys
ROOT = os.path.dirname(os.path.dirname(os.path.abspath(__file__)))
sys.path.insert(0, os.path.join(ROOT, "tools"))
import props as P
kf = json.load(open(os.path.join(ROOT, "known_findings.json")))["findings"]
out = []
out.append("#### Defects of the pinned tree (from `known_findings.json`; every one confirmed on the real code first)\n")
out.append("| id | property (also) | status | what failed | witness / replay |\n|---|---|---|---|---|")
for f in kf:
    st = f["status"]
    m = re.match(r"fixed: property=(\S+) (\S+) (.*)", st)
    if m:
        status, what = f"**fixed** `{m.group(2)}`", m.group(3)
    else:
        status, what = st, f.get("what_fails", "")
    also = f.get("also_affects")
    out.append(f"| {f.get('id','')} | {f['property']}{' (' + ', '.join(also) + ')' if also else ''} | {status} | {what} | {f.get('witness','')} |")
out.append("\n#### Seeded changes (`seeded/<id>/`: patch, demonstration, meta.json, confirm.log / suite.log, detect.json)\n")
out.append("| seed | what was changed | needs | result of our checks | how |\n|---|---|---|---|---|")
for d in sorted(glob.glob(os.path.join(ROOT, "seeded", "C*"))):
    sid = os.path.basename(d)
    try:
        meta = json.load(open(os.path.join(d, "meta.json")))
    except Exception:
        meta = {}
    try:
        det = json.load(open(os.path.join(d, "detect.json")))
    except Exception:
        det = {"result": "pending", "how": ""}
    summ = str(meta.get("summary", "")).replace("|", "/").replace("\n", " ")[:260]
    need = str(meta.get("what_it_needs_to_manifest", "")).replace("|", "/").replace("\n", " ")[:220]
    out.append(f"| {sid} | {summ} | {need} | {det.get('result','')} | {str(det.get('how','')).replace('|','/')[:420]} |")
claimed = set(open(os.path.join(ROOT, "tools", "claimed.txt")).read().split())
out.append("\n#### Claimed properties and their scenario families (from `tools/props.py`)\n")
out.append("| id | theorem modules | families (mode:name quick/thorough) |\n|---|---|---|")
for pid in sorted(P.PROPS):
    if pid not in claimed: continue
    c = P.PROPS[pid]
    fams = ", ".join(f"{f['mode']}:{f['name']} {f.get('quick')}/{f.get('thorough', f.get('quick'))}" for f in c.get("families", []))
    out.append(f"| {pid} | {', '.join(c['lean_props'])} | {fams} |")
out.append("\n#### Theorems per claimed property (names from `statements.expected/<id>.json`, the locked statements) and what stays assumed\n")
out.append("`_partial` = the full statement is visible in the file and only the named part is proved; names ending in a defect id or `witness` are negation witnesses (by `decide`) for the pinned, unrepaired variant.\n")
out.append("| id | theorems | modelled, not verified / assumed (from `tools/props.py`) |\n|---|---|---|")
for pid in sorted(P.PROPS):
    if pid not in claimed: continue
    c = P.PROPS[pid]
    try:
        st = json.load(open(os.path.join(ROOT, "statements.expected", pid + ".json")))
    except Exception:
        st = {}
    names = ", ".join("`" + k.split(".")[-1] + "`" for k in sorted(st))
    ass = "; ".join(str(a).replace("|", "/").replace("\n", " ") for a in c.get("assumptions", []))
    out.append(f"| {pid} | {len(st)}: {names} | {ass} |")
text = "\n".join(out) + "\n"
p = os.path.join(ROOT, "DESIGN.md")
s = open(p).read()
a, b = "<!-- AUTOGEN:BEGIN -->", "<!-- AUTOGEN:END -->"
if a not in s:
    s += f"\n### 11.8 Generated tables (tools/gen_design_tables.py)\n\n{a}\n{b}\n"
i, j = s.index(a) + len(a), s.index(b)
s = s[:i] + "\n" + text + s[j:]
open(p, "w").write(s)
print("tables regenerated:", len(kf), "findings")
