"""engine of /verif/check (see its docstring)"""
import os, sys, json, subprocess, time, hashlib, re, glob, fcntl, shutil

ROOT = os.path.dirname(os.path.dirname(os.path.abspath(__file__)))
LEAN = os.path.join(ROOT, "lean")
HARNESS = os.path.join(ROOT, "harness")
VH = os.path.join(HARNESS, "target", "debug", "vh")
DRIVER = os.path.join(LEAN, ".lake", "build", "bin", "driver")
ALLOWED_AXIOMS = {"propext", "Classical.choice", "Quot.sound"}
FORBIDDEN = re.compile(r"\bsorry\b|\badmit\b|^\s*axiom\s|native_decide|bv_decide|implemented_by|\bunsafe\s|maxHeartbeats\s+0(\s|$)", re.M)
ENV = dict(os.environ, CARGO_NET_OFFLINE="true")


def sh(cmd, cwd=None, timeout=None, stdin=None):
    p = subprocess.run(cmd, cwd=cwd, env=ENV, stdout=subprocess.PIPE, stderr=subprocess.STDOUT,
                       stdin=stdin, timeout=timeout, text=True)
    return p.returncode, p.stdout


def REPO_HEAD():
    try:
        return subprocess.run(["git", "-C", "/repo", "rev-parse", "--short", "HEAD"], capture_output=True, text=True).stdout.strip()
    except Exception:
        return "?"


class BuildLock:
    def __enter__(self):
        self.f = open(os.path.join(ROOT, ".build.lock"), "w")
        fcntl.flock(self.f, fcntl.LOCK_EX)
        return self

    def __exit__(self, *a):
        fcntl.flock(self.f, fcntl.LOCK_UN)
        self.f.close()


def strip_comments(src):
    # block comments (nested) then line comments
    out, depth, i = [], 0, 0
    while i < len(src):
        if src.startswith("/-", i):
            depth += 1; i += 2
        elif src.startswith("-/", i) and depth > 0:
            depth -= 1; i += 2
        elif depth > 0:
            if src[i] == "\n": out.append("\n")
            i += 1
        else:
            out.append(src[i]); i += 1
    s = "".join(out)
    return "\n".join(l.split("--")[0] for l in s.split("\n"))


def theorems_of(module):
    """fully qualified names of the theorems declared in a Props module (from its source)"""
    path = os.path.join(LEAN, module.replace(".", "/") + ".lean")
    src = strip_comments(open(path).read())
    ns, names = [], []
    for l in src.split("\n"):
        m = re.match(r"\s*namespace\s+(\S+)", l)
        if m: ns.append(m.group(1)); continue
        m = re.match(r"\s*end\s+(\S+)", l)
        if m and ns and ns[-1] == m.group(1): ns.pop(); continue
        m = re.match(r"\s*(?:private\s+|protected\s+)?theorem\s+([^\s:({\[]+)", l)
        if m: names.append(".".join(ns + [m.group(1)]))
    return names


class Run:
    def __init__(self, pid, cfg, tier, seed, update):
        self.pid, self.cfg, self.tier, self.seed, self.update = pid, cfg, tier, seed, update
        self.out = os.path.join(ROOT, "out", pid)
        os.makedirs(self.out, exist_ok=True)
        self.problems = []      # broken obligations: (what, detail)
        self.t0 = time.time()

    # ------------------------------------------------------------------ build + audit
    def build(self):
        with BuildLock():
            extra = self.cfg.get("pre_build")
            if extra:
                rc, o = sh(extra, cwd=ROOT)
                if rc != 0:
                    self.problems.append(("translator", "regenerating the model inputs from /repo failed:\n" + o[-3000:]))
            rc, o = sh(["cargo", "build", "--offline"], cwd=HARNESS)
            self.harness_ok = rc == 0
            if rc != 0:
                self.problems.append(("harness-build", "the hook-enabled harness does not build against /repo:\n" + o[-4000:]))
            targets = list(self.cfg["lean_props"]) + ["driver"]
            rc, o = sh(["lake", "build"] + targets, cwd=LEAN)
            self.lean_ok = rc == 0
            if rc != 0:
                errs = [l for l in o.split("\n") if l.startswith("error") or "✖" in l]
                self.problems.append(("lean-build", "lake build failed (a proof obligation no longer checks):\n" + "\n".join(errs[:40])))
            if self.tier == "thorough" and self.lean_ok:
                for mod in self.cfg["lean_props"]:
                    rc, o = sh(["lake", "env", "leanchecker", mod], cwd=LEAN)
                    if rc != 0:
                        self.problems.append(("leanchecker", f"leanchecker rejected {mod}:\n" + o[-2000:]))

    def audit(self):
        self.theorems, self.axioms = [], {}
        # forbidden tokens anywhere in the development
        bad = []
        for f in glob.glob(os.path.join(LEAN, "MayVerif", "**", "*.lean"), recursive=True):
            m = FORBIDDEN.search(strip_comments(open(f).read()))
            if m: bad.append(f"{os.path.relpath(f, LEAN)}: {m.group(0).strip()}")
        if bad:
            self.problems.append(("forbidden-token", "; ".join(bad)))
        for mod in self.cfg["lean_props"]:
            try:
                self.theorems += theorems_of(mod)
            except OSError as e:
                self.problems.append(("audit", f"cannot read {mod}: {e}"))
        if not self.lean_ok:
            return
        af = os.path.join(self.out, "Audit.lean")
        with open(af, "w") as f:
            for mod in self.cfg["lean_props"]:
                f.write(f"import {mod}\n")
            for t in self.theorems:
                f.write(f"#print axioms {t}\n#check @{t}\n")
        rc, o = sh(["lake", "env", "lean", af], cwd=LEAN)
        if rc != 0:
            self.problems.append(("audit", "axiom audit failed:\n" + o[-2000:])); return
        stmts = {}
        for m in re.finditer(r"'([^']+)' (depends on axioms: \[([^\]]*)\]|does not depend on any axioms)", o):
            ax = set(a.strip() for a in (m.group(3) or "").split(",") if a.strip())
            self.axioms[m.group(1)] = sorted(ax)
            if not ax <= ALLOWED_AXIOMS:
                self.problems.append(("axioms", f"{m.group(1)} depends on {sorted(ax - ALLOWED_AXIOMS)}"))
        for t in self.theorems:
            m = re.search(r"^" + re.escape(t) + r" : (.*?)(?=^'|\Z)", o, re.M | re.S)
            if m: stmts[t] = " ".join(m.group(1).split())
            if t not in self.axioms:
                self.problems.append(("audit", f"no axiom report for {t}"))
        ef = os.path.join(ROOT, "statements.expected", self.pid + ".json")
        if self.update or not os.path.exists(ef):
            os.makedirs(os.path.dirname(ef), exist_ok=True)
            json.dump(stmts, open(ef, "w"), indent=1, ensure_ascii=False, sort_keys=True)
        else:
            exp = json.load(open(ef))
            for t, s in exp.items():
                if t not in stmts:
                    self.problems.append(("statement", f"property theorem {t} is gone"))
                elif stmts[t] != s:
                    self.problems.append(("statement", f"statement of {t} changed"))
        self.statements = stmts

    # ------------------------------------------------------------------ execution + replay
    def run_family(self, fam, seed0, count, tag):
        """runs `count` scenarios of a family, replays them; returns a dict of results"""
        mode, name = fam["mode"], fam["name"]
        res = dict(family=name, mode=mode, runs=0, events=0, steps=0, oracle=[], div=[], cov=set(), hashes={}, samples=[],
                   unresolved=set(), errors=[])
        if not self.harness_ok:
            return res
        nproc = min(16, max(1, count // 50)) if mode == "det" else (min(16, count) if mode == "detx" else min(12, count))
        per = (count + nproc - 1) // nproc
        procs = []
        for k in range(nproc):
            s0 = seed0 + k * per
            c = min(per, seed0 + count - s0)
            if c <= 0: break
            tf = os.path.join(self.out, f"{name}.{mode}.{tag}.{k}.trace")
            cmd = [VH, mode, name, str(s0), str(c), tf, "1" if self.tier == "thorough" else "0"]
            procs.append((subprocess.Popen(cmd, stdout=subprocess.PIPE, stderr=subprocess.PIPE, env=ENV, text=True), tf, s0, c))
        done = []
        for p, tf, s0, c in procs:
            try:
                so, se = p.communicate(timeout=fam.get("timeout", 900))
            except subprocess.TimeoutExpired:
                p.kill(); so, se = p.communicate()
                res["errors"].append(f"harness timed out on seeds {s0}..{s0+c-1}")
            try:
                js = json.loads(so.strip().split("\n")[-1])
            except Exception:
                res["errors"].append(f"harness crashed on seeds {s0}..{s0+c-1}: rc={p.returncode} {se[-500:]}")
                js = None
            if js:
                res["runs"] += js["runs"]; res["steps"] += js.get("steps", 0)
                for f in js["oracle_failures"]:
                    res["oracle"].append((f["seed"], f["what"], tf))
                res["unresolved"].update(js.get("unresolved_sites", []))
            if os.path.exists(tf):
                done.append(tf)

        # replay in the model: one driver process per trace file, all files in parallel
        def replay(tf):
            try:
                with open(tf) as fin:
                    return sh([DRIVER], stdin=fin, timeout=fam.get("replay_timeout", 3600))
            except subprocess.TimeoutExpired:
                return -9, "driver timed out"
        replays = {}
        if self.lean_ok and os.path.exists(DRIVER) and done:
            from concurrent.futures import ThreadPoolExecutor
            with ThreadPoolExecutor(max_workers=min(16, len(done))) as ex:
                replays = dict(zip(done, ex.map(replay, done)))
        for tf in done:
            if tf in replays:
                rc, o = replays[tf]
                for l in o.split("\n"):
                    if l.startswith("DIV "):
                        m = re.search(r"seed=(\d+)", l)
                        res["div"].append((int(m.group(1)) if m else -1, l, tf))
                    elif l.startswith("SUMMARY"):
                        m = re.search(r"events=(\d+)", l)
                        res["events"] += int(m.group(1)) if m else 0
                        m = re.search(r"\[(.*)\]", l)
                        if m and m.group(1): res["cov"].update(m.group(1).split(","))
                if rc not in (0, 1):
                    res["errors"].append(f"driver crashed rc={rc} on {os.path.basename(tf)}: {o[-300:]}")
            # distinctness / non-triviality, measured on the canonical traces
            nt = re.compile(fam.get("nontrivial", r"."))
            cur, hdr = [], None
            for l in open(tf):
                if l.startswith("#scenario"):
                    cur, hdr = [], l.strip()
                elif l.startswith("#end"):
                    body = "".join(cur)
                    h = hashlib.sha1(body.encode()).hexdigest()
                    if nt.search(body):
                        res["hashes"][h] = 1
                        if len(res["samples"]) < 2 and len(cur) < 80:
                            res["samples"].append({"scenario": hdr, "trace": [x.strip() for x in cur]})
                else:
                    cur.append(l)
        return res

    def driver_selftest(self, results):
        """trusted-base mitigation: corrupt one result value in a real trace and demand that the driver reports a
        divergence (a replay that accepts anything would hide every code change)"""
        if not (self.lean_ok and os.path.exists(DRIVER)):
            return "skipped"
        for r in results:
            for k in range(16):
                tf = os.path.join(self.out, f"{r['family']}.{r['mode']}.main.{k}.trace")
                if not os.path.exists(tf):
                    continue
                lines, cur = [], []
                for l in open(tf):
                    cur.append(l)
                    if l.startswith("#end"):
                        if any(" a " in x for x in cur) and "#end ok" in l:
                            lines = cur
                            break
                        cur = []
                if not lines:
                    continue
                for i, l in enumerate(lines):
                    w = l.split()
                    if len(w) == 9 and w[1] == "a" and w[3] in ("load", "swap", "fetch_add", "fetch_sub", "cas", "uload", "fetch_or") and re.fullmatch(r"-?\d+", w[6]):
                        w[6] = str(int(w[6]) + 1)
                        mut = lines[:i] + [" ".join(w) + "\n"] + lines[i + 1:]
                        p = subprocess.run([DRIVER], input="".join(mut), capture_output=True, text=True, timeout=120)
                        if "DIV " in p.stdout:
                            return "ok"
                        self.problems.append(("driver-selftest", f"the driver accepted a trace of family {r['family']} whose event #{i} result was corrupted"))
                        return "FAILED"
        return "no-suitable-trace"

    def scenario_text(self, tf, seed, want_fail=True):
        """the trace block of `seed`; a detx file holds one block per explored schedule of the same seed:
        prefer the first block that ended with an oracle failure, else the first block of that seed"""
        first, cur, on = None, [], False
        for l in open(tf):
            if l.startswith("#scenario"):
                on = f"seed={seed} " in l
                cur = []
            if on: cur.append(l.rstrip("\n"))
            if on and l.startswith("#end"):
                on = False
                if first is None: first = cur
                if not want_fail or not l.startswith("#end ok"): return cur
        return first or []

    def write_replay(self, k, kind, fam, seed, msg, trace):
        p = os.path.join(self.out, f"violation_{k}.json")
        json.dump(dict(property=self.pid, kind=kind, family=fam, seed=seed, tier=self.tier, message=msg, trace=trace,
                       how_to_replay=f"./check {self.pid} --replay {p}"), open(p, "w"), indent=1)
        return p

    def known_findings(self):
        f = os.path.join(ROOT, "known_findings.json")
        if not os.path.exists(f): return []
        return [x for x in json.load(open(f)).get("findings", []) if x.get("property") == self.pid and x.get("status") == "open"]

    def main(self):
        prev = os.path.join(self.out, "prev")                             # replay files of the previous run are kept once
        os.makedirs(prev, exist_ok=True)
        for f in glob.glob(os.path.join(self.out, "violation_*.json")):
            os.replace(f, os.path.join(prev, os.path.basename(f)))
        self.build()
        self.audit()
        fams = self.cfg.get("families", [])
        results = []
        for fam in fams:
            n = fam[self.tier] if self.tier in fam else fam["quick"]
            results.append(self.run_family(fam, self.seed * 1000003 % (1 << 40), n, "main"))
        self.selftest = self.driver_selftest(results)
        extra = self.cfg.get("extra_check")
        extra_out = None
        if extra:
            extra_out = extra(self)     # may append to self.problems / return dict(oracle=[...], info=...)
        oracle = [(r["family"], s, w, tf) for r in results for (s, w, tf) in r["oracle"]]
        div = [(r["family"], s, l, tf) for r in results for (s, l, tf) in r["div"]]
        errors = [e for r in results for e in r["errors"]]
        for e in errors:
            self.problems.append(("harness", e))
        if extra_out:
            oracle += extra_out.get("oracle", [])
        known = self.known_findings()
        viol_lines, known_lines = [], []
        k = 0

        def classify(fam, what):
            for kf in known:
                if kf.get("family", fam) == fam and re.search(kf["match"], what):
                    return kf
            return None

        seen = set()
        for fam, seed, what, tf in oracle:
            kf = classify(fam, what)
            if kf:
                line = f"KNOWN-FINDING: property={self.pid} {kf['what_fails']}"
                if line not in known_lines: known_lines.append(line)
                continue
            key = (fam, re.sub(r"\d+", "N", what.split(":")[0]))     # one replay file per kind of failure
            if key in seen: continue
            seen.add(key)
            trace = self.scenario_text(tf, seed) if tf and os.path.exists(tf) else []
            p = self.write_replay(k, "oracle", fam, seed, what, trace); k += 1
            viol_lines.append(f"VIOLATION property={self.pid} replay={p}")
        searched = None
        if not viol_lines and (div or self.problems):
            # the model or a proof obligation no longer matches the code: search for a concrete failing input
            searched = 0
            found = None
            for fam in fams:
                n = fam.get("search", min(max(fam.get("thorough", fam["quick"]), fam["quick"] * 5), fam["quick"] * 20))
                r = self.run_family(fam, (self.seed + 7) * 2000003 % (1 << 40), n, "search")
                searched += r["runs"]
                for (s, w, tf) in r["oracle"]:
                    if not classify(r["family"], w):
                        found = (r["family"], s, w, tf); break
                if found: break
            if found:
                fam, seed, what, tf = found
                p = self.write_replay(k, "oracle-after-divergence", fam, seed, what, self.scenario_text(tf, seed)); k += 1
                viol_lines.append(f"VIOLATION property={self.pid} replay={p}")
            else:
                if div:
                    fam, seed, l, tf = div[0]
                    msg = f"correspondence broken ({len(div)} diverging traces); first: {l}"
                    p = self.write_replay(k, "divergence", fam, seed, msg, self.scenario_text(tf, seed)); k += 1
                else:
                    what, detail = self.problems[0]
                    p = self.write_replay(k, "obligation", "-", 0, f"{what}: {detail}", []); k += 1
                viol_lines.append(f"VIOLATION property={self.pid} replay={p} no-failing-input-found")
        # every listed open finding of this property gets its line, whether or not this run's schedules exhibited it
        for kf in known:
            line = f"KNOWN-FINDING: property={self.pid} {kf['what_fails']}"
            if line not in known_lines:
                known_lines.append(line + " [not exhibited by the schedules of this run]")
        kinds = {}
        for fam, seed, what, tf in oracle:
            k = f"{fam}: {what.split(':')[0][:80]}"
            kinds[k] = kinds.get(k, 0) + 1
        self.oracle_kinds = kinds
        self.write_evidence(results, oracle, div, viol_lines, known_lines, searched, extra_out)
        for l in known_lines: print(l)
        for l in viol_lines: print(l)
        try:                                                              # one line per run, with the kinds of failures seen
            with open(os.path.join(self.out, "history.log"), "a") as h:
                h.write(f"{time.strftime('%FT%TZ', time.gmtime())} tier={self.tier} seed={self.seed} repo={REPO_HEAD()} "
                        f"div={len(div)} oracle={len(oracle)} kinds={json.dumps(getattr(self, 'oracle_kinds', {}))} "
                        f"first={json.dumps([(f, s_, w[:200]) for f, s_, w, _ in oracle[:3]])} errors={json.dumps([e[:200] for e in errors[:3]])}\n")
        except Exception:
            pass
        if self.problems:
            for w, d in self.problems[:5]:
                print(f"# broken obligation [{w}]: {d[:600]}", file=sys.stderr)
        if div:
            print(f"# {len(div)} diverging traces; first: {div[0][2][:600]}", file=sys.stderr)
        print(f"{self.pid} {self.tier}: theorems={len(self.theorems)} problems={len(self.problems)} runs={sum(r['runs'] for r in results)} "
              f"events_replayed={sum(r['events'] for r in results)} divergences={len(div)} oracle_failures={len(oracle)} "
              f"wall={time.time()-self.t0:.1f}s -> {'VIOLATION' if viol_lines else 'ok'}")
        return 1 if viol_lines else 0

    def write_evidence(self, results, oracle, div, viol, known, searched, extra_out):
        discharged = len([t for t in self.theorems if t in self.axioms and set(self.axioms[t]) <= ALLOWED_AXIOMS]) if self.lean_ok else 0
        broken = {w for w, _ in self.problems}
        if broken & {"lean-build", "forbidden-token", "statement", "leanchecker"}:
            discharged = 0 if "lean-build" in broken else discharged
        runs = sum(r["runs"] for r in results)
        distinct = sum(len(r["hashes"]) for r in results)
        samples = [s for r in results for s in r["samples"]][:3]
        if extra_out and extra_out.get("samples"): samples += extra_out["samples"][:2]
        if not samples:
            samples = [{"obligation": t, "axioms": self.axioms.get(t)} for t in self.theorems[:3]]
        cov = sorted(set().union(*[r["cov"] for r in results])) if results else []
        ev = dict(
            property_id=self.pid, tier=self.tier, seed=self.seed, level="proof",
            coverage=dict(
                obligations=max(1, len(self.theorems)), discharged=discharged,
                checker_cmd=f"cd /verif/lean && lake build {' '.join(self.cfg['lean_props'])} && lake env lean out/{self.pid}/Audit.lean  (#print axioms for every theorem)" + ("; lake env leanchecker" if self.tier == "thorough" else ""),
                trusted_base=self.cfg.get("trusted_base", []),
                theorems=[{"name": t, "axioms": self.axioms.get(t)} for t in self.theorems],
                broken_obligations=[f"{w}: {d[:300]}" for w, d in self.problems],
                evaluations=max(1, runs + (extra_out or {}).get("evaluations", 0)),
                distinct_nontrivial=distinct + (extra_out or {}).get("distinct_nontrivial", 0),
                rule=self.cfg.get("rule", "seeded scenarios of the listed families; non-trivial = the canonical trace matches the family's contention pattern; distinct = SHA-1 of the canonical trace"),
                samples=samples,
                traces_validated_against_impl=sum(r["runs"] for r in results) - len(div),
                events_replayed=sum(r["events"] for r in results),
                divergences=len(div),
                model_transitions_matched=cov,
                families=[dict(family=r["family"], mode=r["mode"], runs=r["runs"], schedule_steps=r["steps"], events=r["events"],
                               oracle_failures=len(r["oracle"]), divergences=len(r["div"]), distinct_nontrivial=len(r["hashes"]),
                               unresolved_sites=sorted(r["unresolved"])) for r in results],
                search_after_break_runs=searched,
                driver_selftest=getattr(self, "selftest", None),
                extra=(extra_out or {}).get("info"),
                explanation=self.cfg.get("explanation", ""),
            ),
            assumptions=self.cfg.get("assumptions", []),
            wall_s=round(time.time() - self.t0, 2),
            violations=len(viol),
            known_findings=known, oracle_failure_kinds=getattr(self, 'oracle_kinds', {}),
        )
        os.makedirs(os.path.join(ROOT, "evidence"), exist_ok=True)
        ef = os.path.join(ROOT, "evidence", self.pid + ".json")
        json.dump(ev, open(ef, "w"), indent=1, ensure_ascii=False)
        # self-validation against the evidence schema when the tooling venv is present (never affects the verdict)
        if shutil.which("python3-vt") and os.path.exists("/root/.vp/EVIDENCE.schema.json"):
            rc, o = sh(["python3-vt", "-c", "import json,jsonschema,sys; jsonschema.validate(json.load(open(sys.argv[1])), json.load(open('/root/.vp/EVIDENCE.schema.json')))", ef])
            if rc != 0:
                print("# WARNING: evidence file does not validate: " + o.strip().split("\n")[-1][:300], file=sys.stderr)

    # ------------------------------------------------------------------ replay of a stored violation
    def replay(self, path):
        v = json.load(open(path))
        self.build()
        if v.get("family", "-") == "-":
            self.audit()
            print("obligation replay:", "still broken" if self.problems else "obligations check now")
            for w, d in self.problems: print(f"  [{w}] {d[:800]}")
            return 1 if self.problems else 0
        fam = next((f for f in self.cfg["families"] if f["name"] == v["family"]), None)
        if not fam:
            print("unknown family in replay file"); return 2
        self.tier = v.get("tier", self.tier)
        r = self.run_family(fam, v["seed"], 1, "replay")
        for (s, w, tf) in r["oracle"]: print(f"oracle failure reproduced: seed={s} {w}")
        for (s, l, tf) in r["div"]: print(f"divergence reproduced: {l}")
        bad = bool(r["oracle"] or r["div"])
        if bad: print(f"VIOLATION property={self.pid} replay={path}")
        else: print("not reproduced on the current tree")
        return 1 if bad else 0
