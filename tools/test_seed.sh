#!/bin/bash
# apply seeded/<id>/patch.diff to /repo, run the given checks (quick tier), undo the change straight afterwards
# usage: test_seed.sh <seed-id> <property-id>...    (output: seeded/<seed-id>/detect.log)
ID=$1; shift
cd /verif
[ -n "$(git -C /repo status --porcelain)" ] && { echo "/repo is not clean"; exit 2; }
git -C /repo apply /verif/seeded/$ID/patch.diff || { echo "PATCH DOES NOT APPLY"; exit 2; }
EVBAK=$(mktemp -d); cp evidence/*.json $EVBAK/    # evidence/ describes the UNCHANGED tree: restored below
LOG=seeded/$ID/detect.log
echo "== $(date -u +%FT%TZ) /repo $(git -C /repo rev-parse --short HEAD) + seeded/$ID/patch.diff" >> $LOG
for P in "$@"; do
  ./check $P ${TIER:+--tier $TIER} 2>&1 | grep -E "^VIOLATION|^KNOWN|^# |^C[0-9]+ " | cut -c1-700 | tee -a $LOG
  for f in out/$P/violation_*.json; do [ -f "$f" ] && jq -c '{kind,family,seed,message:(.message|.[0:300])}' $f | head -3 | tee -a $LOG; done 2>/dev/null | head -6
done
git -C /repo checkout -- .
cp $EVBAK/*.json evidence/; rm -rf $EVBAK
git -C /repo status --porcelain | head -3
