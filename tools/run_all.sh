#!/bin/bash
# run every claimed check once (quick tier unless $1 = thorough); prints one line per property
TIER=${1:-quick}
cd /verif
rc=0
for id in $(sort tools/claimed.txt); do
  out=$(./check $id --tier $TIER 2>&1); r=$?
  echo "$out" | grep -E "^VIOLATION|^KNOWN-FINDING" 
  echo "$out" | tail -1
  [ $r -ne 0 ] && rc=1
done
exit $rc
