#!/usr/bin/env python3
"""regenerate /verif/MANIFEST.json from tools/props.py (+ properties.jsonl for the unclaimed ones)"""
import json, os, sys, subprocess
ROOT = os.path.dirname(os.path.dirname(os.path.abspath(__file__)))
sys.path.insert(0, os.path.join(ROOT, "tools"))
import props as P
allp = [json.loads(l) for l in open(os.path.join(ROOT, "properties.jsonl"))]
hooks = subprocess.run(["git", "-C", "/repo", "log", "--format=%h %s"], capture_output=True, text=True).stdout.strip().split("\n")
hook_commits = [l.split()[0] for l in hooks if l.split(" ", 1)[1].startswith("verif hooks:")]
NA_REASON = getattr(P, "NOT_CLAIMED", {})
checks = []
INTEGRATED = set(open(os.path.join(ROOT, "tools", "claimed.txt")).read().split())
for pid in sorted(P.PROPS):
    c = P.PROPS[pid]
    if pid not in INTEGRATED:
        continue
    claim = c.get("claim", {})
    fams = ", ".join(f"{f['mode']}:{f['name']}" for f in c.get("families", []))
    try:
        thms = sorted(k.split(".")[-1] for k in json.load(open(os.path.join(ROOT, "statements.expected", pid + ".json"))))
    except Exception:
        thms = []
    partial = [t for t in thms if t.endswith("_partial")]
    default_text = (f"{len(thms)} Lean 4 theorems over a small-step model of the protocol, each for every number of actors and every schedule "
                    f"(induction over the schedule, invariants / refinement; kernel-checked, axioms within propext, Classical.choice, Quot.sound): "
                    + ", ".join(thms) + ". "
                    + (f"`_partial` theorems ({', '.join(partial)}): the full statement is kept visible next to each in the file; where the same name without the suffix is also listed the full statement is proved for the repaired code and the partial one concerns the pinned variant, otherwise only the named part is proved. " if partial else "")
                    + "The model's step function is the one that replays hook traces of the real code on every run (correspondence; families: " + fams
                    + "); implementation-side oracles in the harness give concrete failing histories. A theorem covers all interleavings of the model, which no test of the suite can; what it says about the code is as strong as the replay tie (measured transition coverage in the evidence file).")
    checks.append({
        "property_id": pid,
        "quick_cmd": f"./check {pid} --tier quick",
        "thorough_cmd": f"./check {pid} --tier thorough",
        "evidence_file": f"/verif/evidence/{pid}.json",
        "replay_cmd_template": f"./check {pid} --replay {{path}}",
        "engine": "lean-proof+trace-replay",
        "level_claimed": {
            "category": "proof",
            "text": claim.get("text", default_text),
            "design_ref": claim.get("design_ref", f"DESIGN.md §6 {pid}, §11"),
        },
        "level_note": claim.get("note", "trusted: Lean kernel + propext/Classical.choice/Quot.sound; the model-code tie is checked by trace replay (measured transition coverage), not proved; SC interleavings only; lower layers by their specification; " + "; ".join(c.get("assumptions", [])) + " || modelled, not verified: " + "; ".join(c.get("trusted_base", []))),
        "technique": claim.get("technique", "Lean 4 invariant/refinement proof + trace-replay correspondence"),
    })
claimed = {c["property_id"] for c in checks}
na = [{"property_id": p["id"], "reason": NA_REASON.get(p["id"], "check under construction in this session (model and theorems not integrated yet); not a claim that the technique cannot apply")} for p in allp if p["id"] not in claimed]
m = {
    "version": 1,
    "setup_cmd": "/verif/setup.sh",
    "hooks": {"guard": "may_verif", "enable": "RUSTFLAGS=\"--cfg may_verif\" (set in /verif/harness/.cargo/config.toml)",
              "baseline_off_cmd": "cd /repo && (cargo nextest run --workspace --no-fail-fast --tool-config-file pb:/w/lib/nextest.toml --profile pb --test-threads 8 --offline || cargo test --workspace --no-fail-fast --offline)",
              "source_commits": list(reversed(hook_commits)), "add_only": True},
    "engines": [{"name": "lean-proof+trace-replay", "path": "/verif/check", "serves_properties": sorted(claimed),
                 "kind_free_text": "Lean 4 theorems over a small-step model of each protocol; the same step function replays hook traces of the real code (correspondence); harness oracles give concrete failing histories"}],
    "checks": checks,
    "not_applicable": na,
    "notes": "see DESIGN.md (§11 = build log) and FRAMEWORK.md",
}
json.dump(m, open(os.path.join(ROOT, "MANIFEST.json"), "w"), indent=1)
print("claimed:", sorted(claimed), "unclaimed:", [x["property_id"] for x in na])
