from paths import LEAN
"""split a generated group file into  <G>.lean (defs) + <G>/P_<pc>.lean (one lemma each) + <G>Step.lean"""
import re,sys,os
grp=sys.argv[1]           # InvG
base=LEAN + '/MayVerif/Proof/Scope/'
src=open(base+grp+'.lean').read()
i=src.index("set_option maxHeartbeats")
hdr=src[:i]
rest=src[i:]
thms=re.findall(r"(set_option maxHeartbeats \d+ in\ntheorem (\w+) .*?\n\n)", rest, re.S)
j=rest.index("theorem %s_tstep"%grp[0].lower().join(["",""]) ) if False else None
low=grp[0].lower()+grp[1:]    # invG
k=rest.index("theorem %s_tstep"%low)
tail=rest[k:]
# defs file: header without the trailing blank + end
m=re.search(r"namespace MayVerif.Scope\n",hdr)
defs=hdr.rstrip()+"\n\nend MayVerif.Scope\n"
os.makedirs(base+grp,exist_ok=True)
imports=[]
opts="set_option linter.unusedSimpArgs false\nset_option linter.unusedVariables false\n"
for body,name in thms:
    pc=name.split('_',1)[1]
    f=f"{base}{grp}/P_{pc}.lean"
    open(f,'w').write(f"import MayVerif.Proof.Scope.{grp}\n{opts}namespace MayVerif.Scope\n\n{body}end MayVerif.Scope\n")
    imports.append(f"import MayVerif.Proof.Scope.{grp}.P_{pc}")
open(base+grp+'.lean','w').write(defs)
open(base+grp+'Step.lean','w').write("\n".join(imports)+f"\n{opts}namespace MayVerif.Scope\n\n"+tail)
print(len(thms),"lemmas")
