import os
# the Lean project next to tools/
LEAN = os.path.normpath(os.path.join(os.path.dirname(os.path.abspath(__file__)), "..", "..", "lean"))
