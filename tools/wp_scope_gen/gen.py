#!/usr/bin/env python3
"""generates the per-program-point preservation lemmas of one invariant group of the Scope model"""
import sys
PCS = [("idle","",True),("body","",True),("inF","",True),("jd","c k",False),("jx","c k r",False),("w2","c k",False),
       ("w3","c k b",False),("w4","c k b",True),("w5","c k",False),("r1","c k",False),("r2","c k",False),("s1","c",False),
       ("left","",True),("e1","v",False),("e2","v",False),("e3","",False),("e4","",False),("pend","",False)]
TY = {"c":"Tid","k":"K","r":"Bool","b":"Bid","v":"Nat"}

def gen(name, imports, struct_name, fields, hyps, pre, post="constructor <;> simp only [] <;> first | grind | grind (splits := 25) (instances := 4000)", heart=4000000, pre_pc={}):
    """hyps: list of (hname, StructName, fieldlist) extra invariants available for the pre-state"""
    out = []
    for pc, args, dep in PCS:
        binders = " ".join(f"({a} : {TY[a]})" for a in args.split()) if args else ""
        pcterm = f"(.{pc} {args})" if args else f".{pc}"
        hy = " ".join(f"({h} : {S} ⟨n, sh, pcs⟩)" for h, S, _ in hyps)
        out.append(f"set_option maxHeartbeats {heart} in")
        out.append(f"theorem {name}_{pc} (n : Nat) (sh : Sh) (pcs : Tid → Pc) (t : Tid) (e : Env) {binders}")
        out.append(f"    (h : {struct_name} ⟨n, sh, pcs⟩) {hy} (hpc : pcs t = {pcterm}) (sh' : Sh) (pc' : Pc)")
        out.append(f"    (hts : tstep sh t {pcterm} e = some (sh', pc')) : {struct_name} ⟨n, sh', upd pcs t pc'⟩ := by")
        for l in pre:
            if l.startswith("have hGall"): out.append("  " + l)
        out.append(f"  obtain ⟨{', '.join(fields)}⟩ := h")
        out.append(f"  simp only at {' '.join(fields)}")
        for hname, S, fl in hyps:
            out.append(f"  obtain ⟨{', '.join(fl)}⟩ := {hname}")
            out.append(f"  simp only at {' '.join(fl)}")
        for l in pre:
            if not l.startswith("have hGall"): out.append("  " + l)
        for l in pre_pc.get(pc, []): out.append("  " + l)
        SIMP = "tstep, toDtor, finishJoin, takePacket, storeBlocker, trigger2, afterWait, {extra}bne_self_eq_false, Bool.not_true, Bool.not_false, Bool.and_false, Bool.and_true, Bool.false_eq_true, if_false, reduceCtorEq, bne_iff_ne, ne_eq, not_false_eq_true, decide_true, decide_false, if_true"
        TAIL = ["(try contradiction) <;> (repeat' split at hts) <;> (try contradiction) <;> (try (simp at hts; done)) <;>",
                f"(obtain ⟨rfl, rfl⟩ := pair_of hts) <;> clear hts <;> ({post})"]
        if pc == "w4":
            out.append("  have hgo : ∀ (hts : (if sh.tok b then some ({ sh with tok := upd sh.tok b false }, afterWait sh c k) else none) = some (sh', pc')),")
            out.append(f"      {struct_name} ⟨n, sh', upd pcs t pc'⟩ := by")
            out.append("    intro hts")
            out.append(f"    cases k <;> simp only [{SIMP.format(extra='')}] at hts <;>")
            for l in TAIL: out.append("      " + l)
            out.append("  cases e <;> simp only [tstep] at hts <;> (try (exact hgo hts)) <;> clear hgo <;>")
            out.append(f"    cases k <;> simp only [{SIMP.format(extra='')}] at hts <;>")
            for l in TAIL: out.append("    " + l)
        else:
            casee = "cases e <;> " if dep else ""
            if "k" in args.split(): casee = "cases k <;> "
            if pc == "jd": casee = "cases k <;> cases hfc : sh.fin c <;> "
            if pc == "jx": casee = "cases r <;> cases k <;> "
            extra = "hfc, " if pc == "jd" else ""
            out.append(f"  {casee}simp only [{SIMP.format(extra=extra)}] at hts <;>")
            for l in TAIL: out.append("    " + l)
        out.append("")
    # combined
    hy = " ".join(f"({h} : {S} ⟨n, sh, pcs⟩)" for h, S, _ in hyps)
    hya = " ".join(h for h, _, _ in hyps)
    out.append(f"theorem {name}_tstep (n : Nat) (sh : Sh) (pcs : Tid → Pc) (t : Tid) (e : Env) (pc : Pc)")
    out.append(f"    (h : {struct_name} ⟨n, sh, pcs⟩) {hy} (hpc : pcs t = pc) (sh' : Sh) (pc' : Pc)")
    out.append(f"    (hts : tstep sh t pc e = some (sh', pc')) : {struct_name} ⟨n, sh', upd pcs t pc'⟩ := by")
    out.append("  cases pc with")
    for pc, args, dep in PCS:
        out.append(f"  | {pc} {args} => exact {name}_{pc} n sh pcs t e {args} h {hya} hpc sh' pc' hts")
    out.append("  | fin => simp [tstep] at hts")
    return "\n".join(out)

if __name__ == "__main__":
    pass
