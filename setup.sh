#!/bin/sh
# MANIFEST.setup_cmd: build the framework from files on disk only (offline)
set -e
cd /verif/harness && CARGO_NET_OFFLINE=true cargo build --offline 2>&1 | tail -3
cd /verif/lean
TARGETS=$(python3 - <<'PY'
import sys
sys.path.insert(0, "/verif/tools")
import props as P
claimed = set(open("/verif/tools/claimed.txt").read().split())
mods = []
for pid, c in P.PROPS.items():
    if pid in claimed:
        mods += c["lean_props"]
print(" ".join(sorted(set(mods))))
PY
)
lake build driver $TARGETS 2>&1 | tail -5
echo setup-ok
