#!/bin/sh
# MANIFEST.setup_cmd: build the framework from files on disk only (offline)
set -e
cd /verif/harness && CARGO_NET_OFFLINE=true cargo build --offline 2>&1 | tail -3
cd /verif/lean && lake build 2>&1 | tail -5
echo setup-ok
