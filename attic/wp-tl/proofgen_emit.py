import sys,os,json,re
sys.path.insert(0,'/tmp/wp_tl/exp')
import gen3
out='/tmp/wp_tl/lean/MayVerif/Proof/Queue/TimerList'
for pc,(params,kind) in gen3.PCS.items():
    if kind=="none": continue
    res=json.load(open(f'/tmp/wp_tl/exp/{pc}/result.json'))
    lines=[]
    for c in gen3.ALL:
        lv=res[c]
        assert lv in (0,1), (pc,c,lv)
        tt=gen3.tac(c,kind,lv,pc)
        if (pc,c) in gen3.MANUAL or c in ('r8d','dD'):
            lines.append(f"  try (any_goals (case {c} =>\n    {tt}))")
        else:
            lines.append(f"  try (any_goals (case {c} => ({tt})))")
    txt=gen3.lemma_text(pc,lines,example=False,hb=1000000)
    txt=txt.replace("import MayVerif.Proof.Queue.TimerList.Inv\n","/- preservation of `Inv` by the step at program point `"+pc+"` (generated skeleton: per clause, the clauses it depends on) -/\nimport MayVerif.Proof.Queue.TimerList.Inv\n")
    open(f'{out}/P_{pc}.lean','w').write(txt)
# Step.lean
imports="\n".join(f"import MayVerif.Proof.Queue.TimerList.P_{pc}" for pc,(p,k) in gen3.PCS.items() if k!="none")
def call(pc,extra=""):
    params,kind=gen3.PCS[pc]
    a=gen3.args_of(params)
    e = "" if pc.startswith("idle_") else " e"
    g = " (quiet_of_guard hg)" if pc=="idle_qdrop" else ""
    return f"exact inv_{pc} nn sh pcs t{e}{(' '+a) if a else ''} hlt{g} h hpc sh' pc' hts"
cases=[]
idle_envs={"push":"v","pop":"","popIf":"acc","peek":"","isEmpty":"","remove":"m","isLink":"m","drop":"m","qdrop":""}
idle="  | idle =>\n    cases e with\n"
for en,a in idle_envs.items():
    idle+=f"    | {en}{(' '+a) if a else ''} => {call('idle_'+en)}\n"
idle+="    | aba => simp [tstep] at hts\n    | go => simp [tstep] at hts\n"
cases.append(idle.rstrip("\n"))
for pc,(params,kind) in gen3.PCS.items():
    if kind=="none" or pc.startswith("idle_"): continue
    a=gen3.args_of(params)
    cases.append(f"  | {pc}{(' '+a) if a else ''} => {call(pc)}")
step=f'''/-
  `Inv` is inductive: one preservation lemma per program point (files `P_*.lean`), assembled here.
-/
{imports}
namespace MayVerif.TimerList

/-- the ownership guard of `step` for the drop of the queue: everybody else is outside the queue's operations -/
theorem quiet_of_guard {{nn : Nat}} {{pcs : Tid → Pc}} {{t : Tid}}
    (hg : ¬(Env.qdrop = Env.qdrop ∧ (List.range nn).all (fun u => u = t || quiet (pcs u)) = false)) :
    ∀ u, u < nn → u ≠ t → quiet (pcs u) = true := by
  intro u hu hut
  have h1 : (List.range nn).all (fun u => u = t || quiet (pcs u)) = true := by
    cases hc : (List.range nn).all (fun u => u = t || quiet (pcs u)) with
    | true => rfl
    | false => exact absurd ⟨rfl, hc⟩ hg
  have := List.all_eq_true.mp h1 u (List.mem_range.mpr hu)
  simpa [hut] using this

theorem inv_step (s s' : St) (t : Tid) (e : Env) (h : Inv s) (hs : step s t e = some s') : Inv s' := by
  obtain ⟨nn, sh, pcs⟩ := s
  simp only [step] at hs
  split at hs
  case isFalse => contradiction
  next hlt =>
  split at hs
  · contradiction
  next hg =>
  split at hs
  · contradiction
  next sh' pc' hts =>
  simp only [Option.some.injEq] at hs
  subst hs
  generalize hpc : pcs t = pc at hts
  cases pc with
{chr(10).join(cases)}

theorem inv_run (s : St) (sched : List (Tid × Env)) (h : Inv s) : Inv (run s sched) := by
  induction sched generalizing s with
  | nil => simpa [run]
  | cons te r ih =>
    obtain ⟨t, e⟩ := te
    simp only [run]
    split
    · next s' hs => exact ih _ (inv_step _ _ _ _ h hs)
    · exact ih _ h

/-- the invariant holds in every reachable state -/
theorem inv_reach (n : Nat) (sched : List (Tid × Env)) : Inv (run (init n) sched) := inv_run _ _ (inv_init n)

end MayVerif.TimerList
'''
open(f'{out}/Step.lean','w').write(step)
print("written")
