import sys,os,subprocess,time,re,json
from concurrent.futures import ThreadPoolExecutor
ALL="hF hN hT hV hM hP hR hS hC vM vN vT vO lM lN lU pT hH hK rL pA pB pC sP tS d1 d2 d3 d4 cA cI cB cC rC rD rA rB hW r1 r2 r3 r5 r6 r6q r7 hTs r8a r8b r8c r8d r9 r10 dT dK dD hI dE1 dE".split()
PCS={  # pc -> (params, kind)
 "idle_push":("(v : Nat)","prod"), "idle_isLink":("(m : Nid)","prod"), "idle_drop":("(m : Nid)","prod"),
 "idle_qdrop":("","start"), "idle_pop":("","start"), "idle_popIf":("(acc : List Nat)","start"), "idle_peek":("","start"), "idle_isEmpty":("","start"), "idle_remove":("(m : Nid)","start"),
 "idle_other":("","none"),
 "ret":("(r : Int)","prod"),
 "pSwap":("(v : Nat)","prod"), "pPrev":("(n p : Nid)","prod"), "pLink":("(n p : Nid)","prod"), "pTail":("(n p : Nid)","prod"),
 "lRefs":("(m : Nid)","prod"), "dDec":("(m : Nid)","prod"),
 "oHead":("(k : Bool)","cons"), "oAnd":("(k : Bool)","cons"), "oNext":("(k : Bool)","cons"), "qAnd":("","cons"), "qDec":("","cons"),
 "iHead":("(acc : List Nat)","cons"), "iNext":("(acc : List Nat)","cons"), "iAnd":("(x : Nid)","cons"),
 "cPrev":("(x : Nid) (k : Bool)","cons"), "cTail":("(x : Nid) (k : Bool)","cons"), "cTake":("(o x : Nid) (k : Bool)","cons"), "cDec":("(o : Nid) (v : Nat) (k : Bool)","cons"),
 "kHead":("","cons"), "kNext":("","cons"), "eHead":("","cons"),
 "rRefs":("(m : Nid)","cons"), "rPrev":("(m : Nid)","cons"), "rNext":("(m : Nid)","cons"),
 "rAnd":("(m p x : Nid)","cons"), "rSetPrev":("(m p x : Nid)","cons"), "rSetNext":("(m p x : Nid)","cons"), "rTake":("(m : Nid)","cons"),
 "rDec":("(m : Nid) (r : Int)","cons"), "rDrop":("(m : Nid) (r : Int)","cons"),
}
S1={
 "hF":["hF"],
 "hN":["hN"], "hT":["hN","hT","hM"], "hV":["hV","hN"], "hM":["hM","hN","hT","hV"], "hP":["hP","hT","hM"], "hR":["hR"], "hS":["hS","hN"],
 "vM":["vM","vT","hV","hM","hN"], "vN":["vN","vT","vM","hV","hM","hN"], "vT":["vT","vM","vN","hM"], "vO":["vO","vT"],
 "lM":["lM","hV","hM","hN"], "lN":["lN","lU","hV","hM","hN"], "lU":["lU","hV","hN","hM"], "pT":["pT","hM","hT","hN"], "hH":["hH"], "rL":["rL","hN"],
 "pA":["pA","pB","pC","hM","hN","hV"], "pB":["pA","pB","pC","hM","hN","hV"], "pC":["pA","pB","pC","hM","hN","hT","hV","rL","hH"],
 "sP":["sP","hN"], "tS":["tS"],
 "d1":["d1","d2","d3","d4","hM","hN","hT"], "d2":["d2","d1","d3","hM","hN","hT"], "d3":["d3","d1","d4","hM","hN","hT","pA","pB"],
 "d4":["d4","d1","hM","hN","hT"],
 "hW":["hW","hV","hN"], "r1":["r1","hW","r7","r6","r6q","r8b"], "r2":["r2","r1","hW","r7","r6","r6q","r8b"], "r3":["r3","hW","hN","r6","r7","r10"],
 "r5":["r5","hW","hN","r7","hTs","hM"], "r6":["r6","r5","r7","hM"], "r6q":["r6q","dT"], "r7":["r7","hW","r6","r6q","r5","hTs","hM","hT","hR","hP","lU","r3","r10","vT"],
 "hTs":["hTs","hM","hP","hN","hT"], "r8a":["r8a","r8b","r8c","hW","hN","hH","rL"], "r8b":["r8b","r8a","r8c","hW","hN"], "r8c":["r8c","r8a","r8b","hW","hN","hH","rL","hT"],
 "r8d":["r8d","r8a"], "r9":["r9","r1","r2","hW","hN","r3","r7","r10","r6","r6q","r8b","hT"], "r10":["r10","hW","hN","hT","hM"], "dT":["dT","dK"], "dK":["dK"], "dD":[], "hI":[], "dE1":["dE1","dK"], "dE":["dE","dE1","r6q","dT","dK"],
 "cA":["cA","d3","hM","hN","hT"], "cI":["cI","d3","hM","hN","hT"], "cB":["cB","d3","hM","hN","hT"], "cC":["cC"], "hK":["rL","hH"], "hC":[],
 "rC":["rC","rL","hV","hN"], "rD":["rD","rL","hV","hN","pA","pB"], "rA":["rA","lN","d3","rL","hV","hN","hM","pA","pB"],
 "rB":["rB","d3","rL","hV","hN","hM","hT","pA","pB"],
}
S2x=["d1","d2","d3","d4","pA","pB","pC","hV","hM","hN","hT","rL","lN","lM","vM","hR","hP"]
CK=["cA","cI","cB","cC","rA","rB","rC","rD"]
SPECIAL={("oHead","d1"):["hF","d1"],("pSwap","d1"):["d1","hM","hN","hT"],("pLink","d1"):["d1","hM"],("rSetNext","d3"):["d3"],("pSwap","d3"):["d3","hM","hN","hV","pA","pB"]}
def sets(c,level,pc=""):
    if (pc,c) in SPECIAL and level==1: return SPECIAL[(pc,c)]
    if isinstance(level,list): s=[c,"hF","hN","hT","hM"]+S1[c]+level
    elif level==0: s=[c,"hF","hN","hT","hM"]+(["hV"] if pc=="pSwap" else [])
    elif level==1: s=["hF"]+S1[c]
    elif level==2: s=S1[c]+[x for x in S2x if x not in S1[c]]
    else: s=ALL
    out=[]
    for x in s:
        if x not in ("hC","hK") and x not in out: out.append(x)
    return out
def args_of(params):
    names=re.findall(r"\((.*?) :",params)
    return " ".join(" ".join(n.split()) for n in names)
def pre(kind,pc="",args=""):
    if kind=="start":
        return """have ht0 : t = 0 := by
    simp only [tstep] at hts; split at hts
    · next hg => first | exact hg | exact hg.1
    · contradiction
  subst ht0
  have hcc : isPush (pcs 0) = false := by rw [hpc]; rfl
  have kK := True.intro"""
    if kind=="prod":
        k={"pPrev":"have kA := h.pA t _ _ hpc","pLink":"have kA := h.pB t _ _ hpc","pTail":"have kA := h.pC t _ _ hpc",
           "lRefs":"have kA := h.hK t _ (by dsimp only; rw [hpc]; rfl)","dDec":"have kA := h.hK t _ (by dsimp only; rw [hpc]; rfl)"}.get(pc,"have kA := True.intro")
        return ("""have hnc : isCons (pcs t) = false := by rw [hpc]; rfl
  KFACTS; (try dsimp only at kA)
  have kD := h.r8d t; dsimp only at kD; rw [hpc] at kD; pcnorm at kD
  have kP := h.dD t; dsimp only at kP; rw [hpc] at kP; pcnorm at kP""").replace("KFACTS",k)
    if False:
        return """have hnc : isCons (pcs t) = false := by rw [hpc]; rfl
  KFACTS"""
    APP={"cPrev":"have cA := h.cA _ _ hpc","iAnd":"have cI := h.cI _ hpc","cTail":"have cB := h.cB _ _ hpc","cTake":"have cC := h.cC _ _ _ hpc",
         "rPrev":"have rC := h.rC _ (Or.inl hpc)","rNext":"have rC := h.rC _ (Or.inr hpc); have rD := h.rD _ hpc",
         "rAnd":"have rA := h.rA _ _ _ (Or.inl hpc)","rSetPrev":"have rA := h.rA _ _ _ (Or.inr hpc)","rSetNext":"have rB := h.rB _ _ _ hpc"}
    app=APP.get(pc,"skip")
    names=re.findall(r"have (\w+) :=",app)
    ds=("; dsimp only at "+" ".join(names)) if names else ""
    return f"""have ht0 : t = 0 := cons_is_zero (pcs := pcs) h.hC hpc rfl
  subst ht0
  have hcc : isPush (pcs 0) = false := by rw [hpc]; rfl
  have kK := h.hK 0; dsimp only at kK; rw [hpc] at kK; pcnorm at kK
  have kD := h.r8d 0; dsimp only at kD; rw [hpc] at kD; pcnorm at kD
  {app}{ds}"""
MANUAL={
 ("pSwap","dE1"):"""pnorm
    intro hq
    exfalso
    apply kP
    apply h.dK
    dsimp only
    rcases hq with hq | hq <;> rw [hq] <;> rfl""",
 ("pLink","d1"):"""bring d1 hM; pnorm
    intro a ha hm hn
    by_cases hap : a = p
    · subst hap
      have e1 : upd sh.next a n a = n := upd_same _ _ _
      rw [e1]
      grind
    · have e1 : upd sh.next p n a = sh.next a := by simp [upd, hap]
      rw [e1] at hn ⊢
      have hd := d1 a ha hm hn
      clear d1
      grind""",
 ("pSwap","d1"):"""bring d1 hM hN hT; pnorm
    intro a ha hm hn
    have han : a ≠ sh.nid := by
      intro e1; subst e1; simp [upd] at hn
    have e1 : upd sh.next sh.nid 0 a = sh.next a := by simp [upd, han]
    have e2 : upd sh.st sh.nid NSt.member a = sh.st a := by simp [upd, han]
    rw [e1] at hn ⊢
    rw [e2] at ha
    have hd := d1 a ha hm hn
    clear d1
    have hx := hM (sh.next a) hd.1
    grind""",
 ("rSetPrev","rB"):"""pcnorm
    intro m' p' x' e1 e2 e3
    subst e1 e2 e3
    have hxm : x ≠ m := by omega
    simp only [upd_same]
    grind""",
 ("rSetNext","d3"):"""bring d3; pcnorm; cnorm
    intro b q hb hl hq
    have hbm : b ≠ m := by intro e1; subst e1; simp [upd] at hb
    have e1 : upd sh.st m NSt.removed b = sh.st b := by simp [upd, hbm]
    rw [e1] at hb
    have hd := d3 b q hb hl hq
    clear d3
    have hqm : q ≠ m := by intro e2; subst e2; omega
    have hqp : q ≠ p := by intro e2; subst e2; omega
    simp only [upd, hqm, hqp, if_false]
    exact hd""",
}
def tac(c,kind,level,pc=""):
    if (pc,c) in MANUAL: return MANUAL[(pc,c)]
    if c=="hC": return "exact hC_upd _ _ _ h.hC (by simp [isCons])"
    s=sets(c,level,pc)
    if kind in ("cons","start"):
        br=[x for x in s if x not in CK]
        brc=[x for x in s if x in CK and False]
        b=("bring "+" ".join(br)) if br else "skip"
        # consumer-pc dependent clauses need specialisation to the known pcs 0
        spec=[x for x in br if x in ("vN","vT","vO","lM","lU","d1","d2","r7","r10","r6q","dK")]
        sp="; ".join(f"(try rw [hpc] at {x}); pcnorm at {x}" for x in spec)
        body=f"({b}; {sp + '; ' if sp else ''}pcnorm; cnorm) <;> grind"
    else:
        b=("bring "+" ".join(s)) if s else "skip"
        body=f"({b}; pnorm) <;> grind"
    if c=="hI":
        return "exact hI_upd _ _ _ _ _hlt h.hI"
    if c=="dD":
        TT = "t" if kind=="prod" else "0"
        if pc=="idle_qdrop":
            return """intro u _
    by_cases hu0 : u = 0
    · subst hu0; simp [upd, isPushAny]
    · have e1 : upd pcs 0 (Pc.oHead true) u = pcs u := by simp [upd, hu0]
      rw [e1]
      by_cases hun : u < nn
      · have := hq u hun hu0
        cases hp : pcs u <;> simp_all [quiet, isPushAny]
      · have hi := h.hI u (by simpa using hun); dsimp only at hi; rw [hi]; rfl"""
        return f"""refine dD_upd _ _ _ _ _ h.dD ?_ ?_
    · intro hd; first | exact hd | simp at hd
    · (intro hd; have hdt := h.dD {TT}; dsimp only at hdt; rw [hpc] at hdt; pcnorm at hdt; pcnorm) <;> simp_all"""
    if c=="r8d":
        TT = "t" if kind=="prod" else "0"
        facts=f"have hkt := h.r8d {TT}; dsimp only at hkt; rw [hpc] at hkt; pcnorm at hkt; bring r8a"
        return f"""refine r8d_upd _ _ _ _ _ _ _ h.r8d ?_ ?_
    · (intro u m hu h1 h2) <;> ({facts}) <;> grind
    · (intro m hm; pcnorm at hm) <;> ({facts}) <;> grind"""
    if c=="hK":
        return f"exact hK_upd _ _ _ _ _ h.hK (by grind) (by pcnorm; (try ({body})))"
    return body
KEXTRA={
 "rSetPrev":"""have k1 : sh.st x = .member ∧ sh.lk x = true ∧ m < x ∧ sh.prev x = m ∧ (∀ c, sh.st c = .member → m < c → x ≤ c) := by
    bring d1; (try rw [hpc] at d1); pcnorm at d1; grind
  have k2 : (p = sh.tail ∨ sh.st p = .member) ∧ sh.next p = m := by
    bring d2; (try rw [hpc] at d2); pcnorm at d2; grind
  have k3 : p < m ∧ (∀ c, sh.st c = .member → p < c → m ≤ c) := by
    bring d1 hM hT; (try rw [hpc] at d1); pcnorm at d1; grind""",
 "cPrev":"""have k1 : sh.st x = .member ∧ sh.lk x = true ∧ sh.tail < x ∧ sh.prev x = sh.tail ∧ (∀ c, sh.st c = .member → sh.tail < c → x ≤ c) := by
    bring d1; (try rw [hpc] at d1); pcnorm at d1; grind""",
 "pLink":"""have k1 : (p = sh.tail ∨ sh.st p = .member) ∧ sh.next p = 0 := by
    bring d3; grind""",
 "pSwap":"""have k1 := h.d4; dsimp only at k1""",
}
def lemma_text(pc,goaltacs,example=True,hb=1000000):
    params,kind=PCS[pc]; args=args_of(params)
    pcterm = f"(.{pc} {args})" if args else f".{pc}"
    envterm = "e"; ebind="(e : Env) "
    if pc.startswith("idle_"):
        en=pc[5:]
        pcterm=".idle"; envterm = f"(.{en} {args})" if args else f".{en}"; ebind=""
    head = "example" if example else f"theorem inv_{pc}"
    lines="\n".join(goaltacs)
    return f"""import MayVerif.Proof.Queue.TimerList.Inv
namespace MayVerif.TimerList

set_option maxHeartbeats {hb} in
{head} (nn : Nat) (sh : Sh) (pcs : Tid → Pc) (t : Tid) {ebind}{params} (_hlt : t < nn){" (hq : ∀ u, u < nn → u ≠ t → quiet (pcs u) = true)" if pc=="idle_qdrop" else ""}
    (h : Inv ⟨nn, sh, pcs⟩) (hpc : pcs t = {pcterm}) (sh' : Sh) (pc' : Pc)
    (hts : tstep sh t {pcterm} {envterm} = some (sh', pc')) : Inv ⟨nn, sh', upd pcs t pc'⟩ := by
  {pre(kind,pc,args)}
  {KEXTRA.get(pc,"skip")}
  {"cases e <;> " if pc in ("pTail",) else ""}split_hts
  all_goals (constructor <;> simp only [])
{lines}

end MayVerif.TimerList
"""
def attempt(pc,c,level):
    params,kind=PCS[pc]
    d=f"/tmp/wp_tl/exp/{pc}"; os.makedirs(d,exist_ok=True)
    tag=level if not isinstance(level,list) else "x"+"_".join(level)
    f=f"{d}/{c}_{tag}.lean"
    tt=tac(c,kind,level,pc)
    first = (f"  try (any_goals (case {c} =>\n    {tt}))" if ((pc,c) in MANUAL or c in ("r8d","dD")) else f"  try (any_goals (case {c} => ({tt})))")
    body=[first,
          f"  all_goals (first | (case {c} => (trace_state; trace \"TACFAIL\"; sorry)) | sorry)"]
    open(f,"w").write(lemma_text(pc,body))
    t0=time.time()
    try:
        r=subprocess.run(["lake","env","lean",f],capture_output=True,text=True,cwd="/tmp/wp_tl/lean",timeout=400)
        out=r.stdout
    except subprocess.TimeoutExpired:
        out="error: timeout"
    ok="error" not in out and "TACFAIL" not in out
    open(f"{d}/{c}_{tag}.out","w").write(out)
    return ok,time.time()-t0
def solve(pc,c):
    for level in (0,1):
        ok,dt=attempt(pc,c,level)
        if ok: return c,level,dt
    return c,-1,dt
CANDS=[x for x in ALL if x not in ("hC","hK")]
def search(pc,c,ex):
    # one extra clause, then pairs
    base=set(S1[c])|{c,"hN","hT","hM"}
    singles=[[x] for x in CANDS if x not in base]
    for cand,(ok,dt) in zip(singles,ex.map(lambda l: attempt(pc,c,l),singles)):
        if ok: return cand
    import itertools
    pairs=[list(p) for p in itertools.combinations([x for x in CANDS if x not in base],2)]
    for cand,(ok,dt) in zip(pairs,ex.map(lambda l: attempt(pc,c,l),pairs)):
        if ok: return cand
    return -1
if __name__=="__main__":
    pc=sys.argv[1]
    cl=sys.argv[2:] or ALL
    res={}
    rf=f"/tmp/wp_tl/exp/{pc}/result.json"
    if os.path.exists(rf): res=json.load(open(rf))
    with ThreadPoolExecutor(16) as ex:
        for c,level,dt in ex.map(lambda c: solve(pc,c),cl):
            res[c]=level
            if level not in (0,1) or dt>15: print(f"{pc:8s} {c:4s} level={level} {dt:6.1f}s")
        for c in list(res):
            if res[c]==-1 and c in cl and os.environ.get("SEARCH"):
                r=search(pc,c,ex)
                res[c]=r
                print(f"{pc:8s} {c:4s} search -> {r}")
    json.dump(res,open(rf,"w"))
