EXTRAS = {
  "pu1": {"slot": """
    sR; intro b j hb hj
    have hxb := h.slot b j hb hj
    have hal := hS.balign b hb
    have hun := hS.uniq b tb hb (by rw [etb]; exact mql.1)
    have hbo := hS.bown b hb
    simp only [BSZ] at hxb hal hun hbo hj ⊢
    by_cases hbt : b = tb
    · subst hbt
      have ho : (sh.blks b).own = q := by rw [etb, mql.2, hq]
      simp only [upd, if_true, ho, SpmcA.upd]
      rw [ho] at hxb
      grind
    · have e1 : upd sh.blks tb { sh.blks tb with data := upd (sh.blks tb).data ((sh.qs q).tidx % 32) (some v) } b = sh.blks b := by simp [upd, hbt]
      rw [e1]
      by_cases hoq : (sh.blks b).own = q
      · simp only [upd, hoq, if_true, SpmcA.upd]
        rw [hoq] at hxb
        have : (sh.blks b).start ≠ (sh.blks tb).start := fun hc => hbt (hun (by rw [hoq, etb, mql.2, hq]) hc)
        have hal2 := hS.balign tb (by rw [etb]; exact mql.1)
        simp only [BSZ] at hal2
        grind
      · simp only [upd, hoq, if_false]; exact hxb"""},
  "pu2": {"head": ["hS.qhead"], "tfree": ["hS.lhb"], "tfu": ["hS.lhb"], "slot": ["hS.bown"]},
  "tF": {
   "gcnt": """
    sR; aS; intro q' i hq'
    have hx := h.gcnt q' i hq'
    simp only at hx
    rw [gcnt_append, gcnt_gotsOf, hx]
    by_cases hq : q' = l.q
    · subst hq
      simp only [if_true, true_and]
      by_cases hi' : lo ≤ i ∧ i < hi
      · have : lo ≤ i ∧ i < lo + (hi - lo) := by omega
        simp only [hi', this, and_self, if_true]
      · have : ¬(lo ≤ i ∧ i < lo + (hi - lo)) := by omega
        simp only [hi', this, if_false, Nat.add_zero]
    · simp only [hq, false_and, if_false, Nat.add_zero]""",
   "olog": """
    sR; aS; intro q' hq'
    have hx := h.olog q' hq'
    simp only at hx
    rw [ownerIdx_append, ownerIdx_gotsOf]
    by_cases hq : q' = l.q
    · subst hq
      simp only [if_true, true_and, sw_zero]
      by_cases htq : t = l.q
      · simp only [htq, if_true, and_self, hx]
      · simp only [htq, if_false, and_false, hx, List.append_nil]
    · simp only [hq, false_and, if_false, List.append_nil]; exact hx""",
   "used": """
    sR; intro b hb
    have hx := h.used b hb
    simp only [BSZ] at hx ⊢
    by_cases hbl : b = l.hb
    · rw [hbl]
      simp only [upd, if_true, mlhb.2.2]
      first | (rw [mused]; omega) | omega
    · have e1 : ∀ x, upd sh.blks l.hb x b = sh.blks b := by intro x; simp [upd, hbl]
      simp only [e1]
      by_cases ho : (sh.blks b).own = l.q
      · simp only [ho, upd, if_true]
        rw [hx, ho]
        symm
        apply unread_congr
        intro i h1 h2
        have hal := hS.balign b hb
        have hun := hS.uniq b l.hb hb mlhb.2.1 (by rw [ho, mlhb.2.2])
        simp only [BSZ] at hal
        have hne : (sh.blks b).start ≠ (sh.blks l.hb).start := fun hc => hbl (hun hc)
        have hc : ¬(lo ≤ i ∧ i < hi) := by omega
        simp only [hc, if_false]
      · simp only [upd, ho, if_false]; exact hx""",
   "gval": """
    sR; aS; intro g hg'
    rw [List.mem_append] at hg'
    rcases hg' with hg' | hg'
    · have hx := h.gval g hg'
      simp only at hx
      refine ⟨hx.1, ?_⟩
      by_cases hq : g.q = l.q
      · simp only [hq, if_true]; rw [← hq]; exact hx.2
      · simp only [hq, if_false]; exact hx.2
    · obtain ⟨j, hj, rfl⟩ := mem_gotsOf _ _ _ _ _ _ _ hg'
      refine ⟨hQ, ?_⟩
      simp only [if_true]
      rw [hvals j hj, hdat j hj]
      have hs := hsome j hj
      rw [Option.isSome_iff_exists] at hs
      obtain ⟨v, hv⟩ := hs
      rw [hv]; rfl"""},
}
