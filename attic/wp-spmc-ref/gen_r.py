#!/usr/bin/env python3
"""generator of lean/MayVerif/Proof/Queue/Spmc/P_<pc>.lean (simulation relation Rel, one file per program point)"""
import os, sys, re
HERE = os.path.dirname(os.path.abspath(__file__))
OUT = os.path.join(HERE, "../lean/MayVerif/Proof/Queue/Spmc")
CL = "an tail lock head pcs slot fut used fr tfree tfu d3 gcnt gval olog uaf dfree uninit unpub".split()
FNS = "upd, SpmcA.upd, BSZ, newBlock, mkLoc, locOf, ph"
DEV = os.environ.get("DEV", "1") == "1"

SIMPLE = "simp only [tstep, Option.some.injEq, Prod.mk.injEq] at hts\n  obtain ⟨rfl, rfl⟩ := hts"
STUT = "refine ⟨as, match_refl as, ?_⟩"

def RQ(Q, hq):
    return (f"have hQ : {Q} < n := {hq}\n  have han := h.an ({Q})\n  simp only at han\n"
            f"  have hu : sw ({Q}) t < (as ({Q})).n := by rw [han]; exact sw_lt _ t n hQ ht\n"
            f"  have rtail := h.tail ({Q}) hQ\n  have rlock := h.lock ({Q}) hQ\n  have rhead := h.head ({Q}) hQ\n"
            f"  simp only at rtail rlock rhead\n  have iA := hA ({Q}) hQ\n")

def taker(k, extra=""):
    r = (f"have hloc : locOf (pcs t) = some l := by rw [hpc]; rfl\n  have hph : ph (pcs t) = {k} := by rw [hpc]; rfl\n"
         "  have mlq := hS.lq t l hloc\n")
    le = lambda j: f"(by show {j} ≤ ph (pcs t); omega)"
    if k >= 1: r += f"  have mlhb := hS.lhb t l hloc {le(1)}\n"
    if k >= 4: r += f"  have mone := hS.one t l hloc {le(4)}\n"
    r += "  have mgo := hG.on t l.q (by simp [hpc, onQ])\n"
    return r + "  " + RQ("l.q", "mlq.1") + extra

PCS = {}
def pc(name, binders, app, prelude, body, imp="RelLemmas"):
    PCS[name] = (binders, app, prelude, body.replace("{SIMPLE}", SIMPLE).replace("{STUT}", STUT), imp)

RET = "simp only [tstep, retStep, Option.some.injEq, Prod.mk.injEq] at hts\n  obtain ⟨rfl, rfl⟩ := hts\n  {STUT}\n  fin_pc"
pc("rPush", "", "", "", RET)
pc("rPop", "(r : Option Val)", "r", "", RET)
pc("rLpop", "(r : Option Val)", "r", "", RET)
pc("rSteal", "(r : Option Val)", "r", "", RET)
pc("rDrop", "", "", "", RET)
pc("rBulk", "(items : List Val) (m : Nat)", "items m", "",
   "cases items <;> simp only [tstep, retStep, Option.some.injEq, Prod.mk.injEq] at hts <;> obtain ⟨rfl, rfl⟩ := hts <;>\n    refine ⟨as, match_refl as, ?_⟩ <;> fin_pc")
pc("panic", "", "", "", "simp [tstep] at hts")
pc("t9", "(l : Loc) (lo : Nat)", "l lo", "", "exact absurd hpc (hS.t9 t l lo)")
pc("d1", "(q : Qid)", "q", "", RET)
pc("d2", "(q : Qid) (hb : Bid)", "q hb", "", "{SIMPLE}\n  {STUT}\n  split <;> fin_pc")
pc("t1", "(l : Loc)", "l", taker(1), "{SIMPLE}\n  {STUT}\n  fin_pc")
pc("t2", "(l : Loc)", "l", taker(2), "{SIMPLE}\n  {STUT}\n  split <;> fin_pc")
pc("tE", "(l : Loc)", "l", taker(3), "{SIMPLE}\n  {STUT}\n  fin_pc")
pc("pu3", "(q : Qid) (nb : Bid) (pi : Nat) (k : PK)", "q nb pi k", "have mpc := hS.pu3 t q nb pi k hpc\n"
   "  have mnd : ∀ u b, pcs u = .d3 q b → u = t := fun u b hd => no_d3_while_on ⟨n, sh, pcs⟩ hG t q (by simp [hpc, onQ]) u b hd\n", "{SIMPLE}\n  {STUT}\n  fin_pc")


ENTRY_D = "refine ⟨_, ?m, rel_entry n _ pcs t _ _ ?r (deliver_entry n t l {v} mlq.1 ht)⟩"
PUQ = "have hq : q = t := mpc.1\n  have mgo := hG.on t q (by simp [hpc, onQ])\n  try simp only at mgo\n  " + RQ("q", "(by rw [hq]; exact ht)") + \
      "  have rpc := h.pcs q t hQ\n  simp only [hpc, absPc, pcQ, absOn, if_true] at rpc\n  have hsw : sw q t = 0 := by rw [hq]; exact sw_self t\n"
def LIVE_TB(tbeq): return ("  have mtb := hS.qtb t mpc.2.1 (by simp [hpc, pu3Pc])\n  have mql := hS.qlast t mpc.2.1\n  have mqi := hS.qti t mpc.2.1\n"
           "  have mqn := hS.qtn t mpc.2.1 (by simp [hpc, bndPc])\n  have mal := hS.balign _ mql.1\n"
           "  have mct := A_cnt_tail (as q) iA (sh.qs q).tidx (by rw [rtail]; exact Nat.le_refl _)\n"
           f"  have etb : tb = (sh.qs t).last := by rw [{tbeq}, hq, mtb]\n"
           "  have mlive : (sh.blks tb).freed = false := by\n"
           f"    have e1 := etb\n"
           "    subst hq\n    rw [e1]\n"
           "    exact blk_live ⟨n, sh, pcs⟩ as h _ (sh.qs q).tidx mql.1 mqn (by simp only [BSZ] at mqi ⊢; omega) (by rw [mql.2]; exact mct) (by rw [mql.2]; exact mgo)\n")

pc("pu0", "(q : Qid) (v : Val) (k : PK)", "q v k", "have mpc := hS.pu0 t q v k hpc\n  " + PUQ,
   "{SIMPLE}\n  refine ⟨_, match1 as q (sw q t) (.push v) .idle _ (.oWrite v) hu rpc (by simp only [SpmcA.tstep, hsw, ↓reduceIte]; rfl), ?_⟩\n  fin_pc")
pc("pu1", "(q : Qid) (v : Val) (tb : Bid) (k : PK)", "q v tb k", "have mpc := hS.pu1 t q v tb k hpc\n  " + PUQ + LIVE_TB("mpc.2.2") +
   "  have mgt : ∀ g, g ∈ sh.got → g.q = q → g.i ≠ (as q).sh.tail := by\n"
   "    intro g hg hgq hc\n    have h1 := gcnt_pos_of_mem sh.got g hg\n    have h2 := h.gcnt g.q g.i (by rw [hgq]; exact hQ)\n"
   "    simp only at h2\n    rw [hgq] at h2\n    have h3 := A_cnt_tail (as q) iA g.i (by omega)\n    rw [hgq] at h1\n    omega\n",
   "simp only [tstep, touch_live sh tb mlive, Option.some.injEq, Prod.mk.injEq] at hts\n  obtain ⟨rfl, rfl⟩ := hts\n"
   "  refine ⟨_, match1 as q (sw q t) .go (.oWrite v) _ _ hu rpc (by simp only [SpmcA.tstep]; rfl), ?_⟩\n  split <;> fin_pc")
pc("pu2", "(q : Qid) (tb : Bid) (pi : Nat) (k : PK)", "q tb pi k", "have mpc := hS.pu2 t q tb pi k hpc\n  " + PUQ + LIVE_TB("mpc.2.2.1") +
   "  have mun : unread (as q).sh.cnt (pi + 1) 32 = 32 :=\n"
   "    unread_all _ _ _ (fun i h1 _ => A_cnt_tail (as q) iA i (by rw [rtail, ← mpc.2.2.2.1]; omega))\n"
   "  have mfut : ∀ i, pi < i → (as q).sh.slot i = none := fun i hi => h.fut q _ hQ (by rw [rtail, ← mpc.2.2.2.1]; exact hi)\n",
   "simp only [tstep, touch_live sh tb mlive, Option.some.injEq, Prod.mk.injEq] at hts\n  obtain ⟨rfl, rfl⟩ := hts\n  {STUT}\n  fin_pc")
pc("pu4", "(q : Qid) (pi : Nat) (k : PK)", "q pi k", "have mpc := hS.pu4 t q pi k hpc\n  " + PUQ,
   "{SIMPLE}\n  refine ⟨_, match1 as q (sw q t) .go .oPub _ _ hu rpc (by simp only [SpmcA.tstep]; rfl), rel_entry n _ pcs t _ _ ?_ (afterPush_entry n t k ht)⟩\n  fin_pc", imp="EntryR")
pc("t6", "(l : Loc) (lo hi : Nat)", "l lo hi", taker(4, "  have mpc := hS.t6 t l lo hi hpc\n"), "sorry")


RPC = "  have rpc := h.pcs l.q t hQ\n  simp only [hpc, absPc, pcQ, absOn, if_true] at rpc\n"
COV = "simp [SpmcA.covers, SpmcA.cutB, SpmcA.goB, SpmcA.loOf, SpmcA.hiOf, h1, h2]"
def AFRESH(lo, hi): return f"  have afresh : ∀ i, {lo} ≤ i → i < {hi} → (as l.q).sh.cnt i = 0 := fun i h1 h2 =>\n    iA.fresh (sw l.q t) i (by rw [rpc]; {COV})\n"
ALCK = "  have alck := iA.lck (sw l.q t) (by rw [rpc]; rfl)\n  rw [rpc] at alck\n  simp only [SpmcA.loOf] at alck\n"
AGO = "  have ago := iA.go (sw l.q t) (by rw [rpc]; rfl)\n  rw [rpc] at ago\n  simp only [SpmcA.loOf, SpmcA.hiOf] at ago\n"
ACUT = "  have acut := iA.cut (sw l.q t) (by rw [rpc]; rfl)\n  rw [rpc] at acut\n  simp only [SpmcA.hiOf] at acut\n"
ARD = "  have ard := iA.rd (sw l.q t) (by rw [rpc]; rfl)\n  rw [rpc] at ard\n  simp only [SpmcA.hiOf] at ard\n"
def LIVE(i0, cnt0): return ("  have mlive : (sh.blks l.hb).freed = false :=\n"
   f"    blk_live ⟨n, sh, pcs⟩ as h l.hb ({i0}) mlhb.2.1 (by simp only [BSZ] at *; omega) (by simp only [BSZ] at *; omega)\n"
   f"      (by rw [mlhb.2.2]; exact {cnt0}) (by rw [mlhb.2.2]; exact mgo)\n")

pc("t6", "(l : Loc) (lo hi : Nat)", "l lo hi", taker(4, "  have mpc := hS.t6 t l lo hi hpc\n" + RPC + AGO + AFRESH("lo", "hi") + LIVE("lo", "afresh lo (Nat.le_refl _) ago.1")),
   "simp only [tstep] at hts\n  split at hts\n"
   "  · simp only [touch_live sh l.hb mlive, Option.some.injEq, Prod.mk.injEq] at hts\n    obtain ⟨rfl, rfl⟩ := hts\n    {STUT}\n    fin_pc\n"
   "  · next hnx =>\n    exfalso\n    have e1 := hS.bnone l.hb mlhb.2.1 hnx\n    have e2 := hS.qti l.q mlq.1\n    simp only [BSZ] at e1 e2 mpc\n"
   "    rw [mlhb.2.2] at e1\n    rw [← e1] at e2\n    omega")
pc("t7", "(l : Loc) (lo hi : Nat) (nh : HeadW)", "l lo hi nh", taker(4, "  have mpc := hS.t7 t l lo hi nh hpc\n" + RPC),
   "{SIMPLE}\n  refine ⟨_, match1 as l.q (sw l.q t) .go (.tGo lo hi) _ _ hu rpc (by simp only [SpmcA.tstep]; rfl), ?_⟩\n  fin_pc")
pc("t8", "(l : Loc) (lo hi : Nat)", "l lo hi", taker(4, "  have mpc := hS.t8 t l lo hi hpc\n" + RPC),
   "{SIMPLE}\n  refine ⟨_, match1 as l.q (sw l.q t) .go (.tWait lo hi) _ _ hu rpc (by simp only [SpmcA.tstep]; rfl), ?_⟩\n  split <;> fin_pc")
pc("tFree", "(l : Loc) (vals : List Val)", "l vals", taker(4, "  have mpc := h.tfree t l vals hpc\n  have mtfu := fun u l' v' => h.tfu t u l vals l' v' hpc\n"),
   "{SIMPLE}\n  refine ⟨as, match_refl as, rel_entry n _ pcs t _ _ ?_ (deliver_entry n t l vals mlq.1 ht)⟩\n  have mdf := freeBlk_dfree sh l.hb mpc.2\n  fin_pc", imp="EntryR")
pc("t6r", "(l : Loc)", "l", taker(4, RPC + ALCK),
   "{SIMPLE}\n  refine ⟨_, match2 as l.q (sw l.q t) .go .go (.tBack _) _ _ _ _ hu rpc (by simp only [SpmcA.tstep]; rfl) (by simp only [SpmcA.tstep]; rfl),\n"
   "    rel_entry n _ pcs t _ _ ?_ (deliver_entry n t l [] mlq.1 ht)⟩\n  fin_pc", imp="EntryR")


pc("t5", "(l : Loc) (lo : Nat)", "l lo", taker(4, "  have mpc := hS.t5 t l lo hpc\n" + RPC + ALCK),
   "simp only [tstep] at hts\n  split at hts\n"
   "  · next hc =>\n    simp only [Option.some.injEq, Prod.mk.injEq] at hts\n    obtain ⟨rfl, rfl⟩ := hts\n"
   "    have hc1 : (as l.q).sh.tail ≤ lo := by rw [rtail]; exact hc\n"
   "    refine ⟨_, match1 as l.q (sw l.q t) .go (.tLocked lo) _ _ hu rpc (by simp only [SpmcA.tstep, if_pos hc1]; rfl), ?_⟩\n    fin_pc\n"
   "  · next hc =>\n    have hc1 : ¬ (as l.q).sh.tail ≤ lo := by rw [rtail]; exact hc\n"
   "    have mal := hS.balign l.hb mlhb.2.1\n    simp only [BSZ] at mal\n"
   "    split at hts\n"
   "    · have hE : lo < min (lo - l.hi + 32) (sh.qs l.q).tidx ∧ min (lo - l.hi + 32) (sh.qs l.q).tidx ≤ (as l.q).sh.tail := by\n"
   "        rw [rtail]; simp only [BSZ] at *; omega\n"
   "      simp only [BSZ, Option.some.injEq, Prod.mk.injEq] at hts\n      obtain ⟨rfl, rfl⟩ := hts\n"
   "      refine ⟨_, match1 as l.q (sw l.q t) (.claim false (min (lo - l.hi + 32) (sh.qs l.q).tidx)) (.tLocked lo) _ _ hu rpc\n"
   "          (by simp only [SpmcA.tstep, if_neg hc1, if_pos hE]; rfl), ?_⟩\n"
   "      by_cases hm : min (lo - l.hi + 32) (sh.qs l.q).tidx % 32 = 0\n"
   "      · simp only [hm, ↓reduceIte]; fin_pc\n      · simp only [hm, ↓reduceIte]; fin_pc\n"
   "    · simp only [Option.some.injEq, Prod.mk.injEq] at hts\n      obtain ⟨rfl, rfl⟩ := hts\n"
   "      refine ⟨_, match1 as l.q (sw l.q t) .go (.tLocked lo) _ _ hu rpc (by simp only [SpmcA.tstep, if_neg hc1]; rfl), ?_⟩\n      fin_pc")
pc("d3", "(q : Qid) (b : Bid)", "q b", "have mpc := hS.d3 t q b hpc\n  have mgo := hG.on t q (by simp [hpc, onQ])\n  try simp only at mgo\n  " + RQ("q", "mpc.1") +
   "  have mtb := h.d3 t q b hpc\n  simp only at mtb\n"
   "  have mex : ∀ u, onQ u (pcs u) q = true → u = t := only_dropper ⟨n, sh, pcs⟩ hG t q b hpc\n"
   "  have mp3 : pu3Pc (pcs q) = false := by\n    cases hp : pcs q <;> simp [pu3Pc]\n    next q' nb pi k =>\n"
   "      have e1 := (hS.pu3 q q' nb pi k hp).1\n      have e2 := mex q (by simp [hp, onQ, e1])\n      rw [e2, hpc] at hp; cases hp\n"
   "  have mbn : bndPc (pcs q) = false := by\n    cases hp : pcs q <;> simp [bndPc]\n    next q' nb pi k =>\n"
   "      have e1 := (hS.pu3 q q' nb pi k hp).1\n      have e2 := mex q (by simp [hp, onQ, e1])\n      rw [e2, hpc] at hp; cases hp\n"
   "    next q' pi k =>\n"
   "      have e1 := (hS.pu4 q q' pi k hp).1\n      have e2 := mex q (by simp [hp, onQ, e1])\n      rw [e2, hpc] at hp; cases hp\n"
   "  have mql := hS.qlast q hQ\n  have mqi := hS.qti q hQ\n  have mqn := hS.qtn q hQ mbn\n  have mqt := hS.qtb q hQ mp3\n"
   "  have mct := A_cnt_tail (as q) iA (sh.qs q).tidx (by rw [rtail]; exact Nat.le_refl _)\n"
   "  have mlive : (sh.blks b).freed = false := by\n    rw [mtb, mqt]\n"
   "    exact blk_live ⟨n, sh, pcs⟩ as h _ (sh.qs q).tidx mql.1 mqn (by simp only [BSZ] at mqi ⊢; omega) (by rw [mql.2]; exact mct) (by rw [mql.2]; exact mgo)\n"
   "  have mnf : ∀ u l' v', pcs u = .tFree l' v' → l'.hb ≠ b := by\n    intro u l' v' hu' hc\n"
   "    have hl : locOf (pcs u) = some l' := by rw [hu']; rfl\n"
   "    have e1 := hS.lhb u l' hl (by show 1 ≤ ph (pcs u); rw [hu']; simp [ph])\n"
   "    have e2 := mex u (by simp [hu', onQ]; left; rw [← e1.2.2, hc]; exact mpc.2.2)\n    rw [e2, hpc] at hu'; cases hu'\n",
   "{SIMPLE}\n  {STUT}\n  have mdf := freeBlk_dfree sh b mlive\n  fin_pc")


pc("idle", "", "", "",
   "cases e with\n  | go => simp [tstep] at hts\n  | adv a b => simp [tstep] at hts\n  | start o =>\n"
   "    simp only [guard, hpc] at hg\n"
   "    cases o <;> simp only [tstep] at hts <;> (try split at hts) <;> (try contradiction) <;>\n"
   "      simp only [Option.some.injEq, Prod.mk.injEq] at hts <;> obtain ⟨rfl, rfl⟩ := hts <;>\n"
   "      simp only [opOk, alive, Bool.and_eq_true, decide_eq_true_eq, Bool.not_eq_true'] at hg\n"
   "    case start.lpop.isTrue q _ =>\n"
   "      have hq : q = t := by assumption\n"
   "      " + RQ("q", "hg.1").replace("\n  ", "\n      ") +
   "      have rpc := h.pcs q t hQ\n      simp only [hpc, absPc, pcQ, absOn] at rpc\n      have hsw : sw q t = 0 := by rw [hq]; exact sw_self t\n"
   "      refine ⟨_, match1 as q (sw q t) .lpop .idle _ _ hu (by simpa using rpc) (by simp only [SpmcA.tstep, hsw, ↓reduceIte]; rfl), ?_⟩\n"
   "      fin_pc\n"
   "    all_goals (refine ⟨as, match_refl as, ?_⟩; fin_pc)")
pc("t0", "(l : Loc)", "l", taker(0, "  have mqh := hS.qhead l.q mlq.1\n"),
   "{SIMPLE}\n  cases hk : l.k\n"
   "  case lpop =>\n    have rpc := h.pcs l.q t hQ\n    simp only [hpc, absPc, pcQ, absOn, hk, if_true] at rpc\n"
   "    refine ⟨_, match1 as l.q (sw l.q t) .go .oLoad _ _ hu rpc (by simp only [SpmcA.tstep]; rfl), ?_⟩\n    fin_pc\n"
   "  case empt =>\n    {STUT}\n    fin_pc\n"
   "  all_goals (\n    have rpc := h.pcs l.q t hQ\n    simp only [hpc, absPc, pcQ, absOn, hk, if_true] at rpc\n"
   "    refine ⟨_, match1 as l.q (sw l.q t) .take .idle _ _ hu (by simpa using rpc) (by simp only [SpmcA.tstep]; rfl), ?_⟩\n    fin_pc)")


T4LO = "(sh.blks l.hb).start + l.hi"
pc("t4", "(l : Loc) (lk : Bool) (nid : Nat)", "l lk nid", taker(4, "  have mal := hS.balign l.hb mlhb.2.1\n  have m4n := hS.t4n t l lk nid hpc\n"),
   "cases lk\n"
   "  case false =>\n"
   "    have m4 := hS.t4 t l false nid hpc rfl\n    simp only [BSZ] at m4\n"
   "    have rpc := h.pcs l.q t hQ\n    simp only [hpc, absPc, pcQ, absOn, if_true, Bool.false_eq_true, if_false] at rpc\n"
   + AFRESH(T4LO, "(sh.blks l.hb).start + nid").replace("\n  ", "\n    ").replace("  have", "    have", 1)
   + LIVE(T4LO, "afresh _ (Nat.le_refl _) (by omega)").replace("\n  ", "\n    ").replace("  have", "    have", 1) +
   "    simp only [tstep, touch_live sh l.hb mlive] at hts\n"
   "    cases hk : l.k <;> simp only [hk, Bool.false_eq_true, if_false] at hts m4n\n"
   "    case empt => simp at hts\n"
   "    case lpop =>\n"
   "      have hq : l.q = t := mlq.2.2 hk\n      have mone' := mone hk\n"
   "      have mopi := hS.opi t l hloc (by show 2 ≤ ph (pcs t); omega) hk\n      simp only at mopi\n"
   "      have m4n' := m4n (by simp)\n"
   "      split at hts\n      · omega\n"
   "      · simp only [Option.some.injEq, Prod.mk.injEq] at hts\n        obtain ⟨rfl, rfl⟩ := hts\n"
   "        refine ⟨_, match1 as l.q (sw l.q t) .go (.tWait _ _) _ _ hu rpc (by simp only [SpmcA.tstep]; rfl), ?_⟩\n        fin_pc\n"
   "    case pop =>\n      have m4n' := m4n (by simp)\n      simp only [Option.some.injEq, Prod.mk.injEq] at hts\n      obtain ⟨rfl, rfl⟩ := hts\n      refine ⟨as, match_refl as, ?_⟩\n      fin_pc\n"
   "    all_goals (\n      simp only [Option.some.injEq, Prod.mk.injEq] at hts\n      obtain ⟨rfl, rfl⟩ := hts\n      refine ⟨as, match_refl as, ?_⟩\n      fin_pc)\n"
   "  case true =>\n"
   "    have rpc := h.pcs l.q t hQ\n    simp only [hpc, absPc, pcQ, absOn, if_true] at rpc\n"
   + ALCK.replace("\n  ", "\n    ").replace("  have", "    have", 1) +
   "    have mc0 : (as l.q).sh.cnt (" + T4LO + ") = 0 := iA.ahead _ (by rw [alck.2.2]; exact Nat.le_refl _)\n"
   + LIVE(T4LO, "mc0").replace("\n  ", "\n    ").replace("  have", "    have", 1) +
   "    simp only [tstep, touch_live sh l.hb mlive] at hts\n"
   "    cases hk : l.k <;> simp only [hk, if_true] at hts\n"
   "    case empt => simp at hts\n"
   "    case lpop =>\n"
   "      have hq : l.q = t := mlq.2.2 hk\n      have mone' := mone hk\n"
   "      have mopi := hS.opi t l hloc (by show 2 ≤ ph (pcs t); omega) hk\n      simp only at mopi\n"
   "      have hn : ¬ l.pi ≤ " + T4LO + " := by omega\n"
   "      have hc1 : ¬ (as l.q).sh.tail ≤ " + T4LO + " := by rw [rtail, hq, ← mopi]; exact hn\n"
   "      simp only [if_neg hn, Option.some.injEq, Prod.mk.injEq] at hts\n      obtain ⟨rfl, rfl⟩ := hts\n"
   "      refine ⟨_, match1 as l.q (sw l.q t) .go (.tLocked _) _ _ hu rpc (by simp only [SpmcA.tstep, if_neg hc1]; rfl), ?_⟩\n      fin_pc\n"
   "    all_goals (\n      simp only [Option.some.injEq, Prod.mk.injEq] at hts\n      obtain ⟨rfl, rfl⟩ := hts\n      refine ⟨as, match_refl as, ?_⟩\n      fin_pc)")


H0 = "(sh.blks l.hb).start + l.hi"
OBT = "simp only [Option.some.injEq, Prod.mk.injEq] at hts\n        obtain ⟨rfl, rfl⟩ := hts\n"
def stealer(kind):
    r = ("  case " + kind + " =>\n"
   "    have rpc := h.pcs l.q t hQ\n    simp only [hpc, absPc, pcQ, absOn, hk, if_true] at rpc\n"
   "    simp only [hk] at hts\n"
   "    split at hts\n"
   "    · simp only [Option.some.injEq, Prod.mk.injEq] at hts\n      obtain ⟨rfl, rfl⟩ := hts\n"
   "      refine ⟨_, match1 as l.q (sw l.q t) .giveUp .tTry _ _ hu rpc (by simp only [SpmcA.tstep]; rfl), ?_⟩\n"
   "      split <;> fin_pc\n"
   "    · next hne =>\n"
   "      split at hts\n"
   "      · next hok =>\n"
   "        simp only [Bool.and_eq_true, Bool.not_eq_true', decide_eq_true_eq] at hok\n"
   "        have mok := hok.1\n        clear hok\n"
   "        have hlk : (as l.q).sh.lock = false := by rw [rlock]; exact mok.1\n"
   "        " + OBT)
    if kind == "pop":
        r += ("        by_cases h31 : l.hi = BSZ - 1\n"
   "        · have hd : decide (l.hi = BSZ - 1) = true := by simp [h31]\n"
   "          simp only [hd, if_true]\n"
   "          refine ⟨_, match1 as l.q (sw l.q t) (.claim false 0) .tTry _ _ hu rpc (by simp only [SpmcA.tstep, if_pos hlk]; rfl), ?_⟩\n"
   "          fin_pc\n"
   "        · have hd : decide (l.hi = BSZ - 1) = false := by simp [h31]\n"
   "          simp only [hd, Bool.false_eq_true, if_false]\n"
   "          have hcd : (as l.q).sh.lock = false ∧ (as l.q).sh.head < (sh.blks (sh.qs l.q).head.blk).start + (l.hi + 1) := by\n"
   "            rw [rhead, mok.2]; exact ⟨hlk, by omega⟩\n"
   "          simp only [BSZ] at h31\n"
   "          refine ⟨_, match1 as l.q (sw l.q t) (.claim true ((sh.blks (sh.qs l.q).head.blk).start + (l.hi + 1))) .tTry _ _ hu rpc (by simp only [SpmcA.tstep, if_pos hcd]; rfl), ?_⟩\n"
   "          fin_pc\n")
    else:
        r += ("        generalize hpe : peq sh l.hb l.tb (envEq e) = pe at hne ⊢\n"
   "        cases pe\n"
   "        · simp only [Bool.not_false, if_true, Bool.false_eq_true, if_false]\n"
   "          refine ⟨_, match1 as l.q (sw l.q t) (.claim false 0) .tTry _ _ hu rpc (by simp only [SpmcA.tstep, if_pos hlk]; rfl), ?_⟩\n"
   "          fin_pc\n"
   "        · simp only [Bool.not_true, Bool.false_eq_true, if_false, if_true]\n"
   "          simp only [Bool.true_and, decide_eq_true_eq, Nat.not_le] at hne\n"
   "          have hcd : (as l.q).sh.lock = false ∧ (as l.q).sh.head < (sh.blks (sh.qs l.q).head.blk).start + l.pi % BSZ := by\n"
   "            rw [rhead, mok.2]; exact ⟨hlk, by omega⟩\n"
   "          have hpid : l.pi % BSZ < 32 := by simp only [BSZ]; omega\n"
   "          refine ⟨_, match1 as l.q (sw l.q t) (.claim true ((sh.blks (sh.qs l.q).head.blk).start + l.pi % BSZ)) .tTry _ _ hu rpc (by simp only [SpmcA.tstep, if_pos hcd]; rfl), ?_⟩\n"
   "          fin_pc\n")
    r += ("      · " + OBT +
   "        refine ⟨as, match_refl as, ?_⟩\n"
   "        simp only [reduceCtorEq, if_false]\n        fin_pc\n")
    return r
pc("tT", "(l : Loc)", "l", taker(3, "  have hke := hS.tTk t l hpc\n  have mqh := hS.qhead l.q mlq.1\n"),
   "simp only [tstep, retStep_deliver_nil sh t l hke] at hts\n"
   "  cases hk : l.k\n"
   "  case empt => exact absurd hk hke\n"
   "  case lpop =>\n"
   "    have hq : l.q = t := mlq.2.2 hk\n"
   "    have rpc := h.pcs l.q t hQ\n    simp only [hpc, absPc, pcQ, absOn, hk, if_true] at rpc\n"
   "    have mex := lpop_exact n sh pcs t l hS hpc hk (envEq e) (envAba e)\n"
   "    simp only [hk] at hts\n"
   "    split at hts\n"
   "    · next hemp =>\n"
   "      have hc1 : (as l.q).sh.tail ≤ " + H0 + " := by rw [rtail, hq]; exact mex.1.mp hemp\n"
   "      simp only [Option.some.injEq, Prod.mk.injEq] at hts\n      obtain ⟨rfl, rfl⟩ := hts\n"
   "      refine ⟨_, match1 as l.q (sw l.q t) .go (.oTry _) _ _ hu rpc (by simp only [SpmcA.tstep, if_pos hc1]; rfl), ?_⟩\n"
   "      simp only [reduceCtorEq, false_and, if_false]\n      fin_pc\n"
   "    · next hne =>\n"
   "      have hc1 : ¬ (as l.q).sh.tail ≤ " + H0 + " := by rw [rtail, hq]; exact fun hc => hne (mex.1.mpr hc)\n"
   "      split at hts\n"
   "      · next hok =>\n"
   "        have mcas := lpop_cas n sh pcs t l hS hpc hk (envEq e) (envAba e) (by simpa using hne)\n"
   "          (by simp only [Bool.and_eq_true] at hok; exact hok.2)\n"
   "        simp only [Bool.and_eq_true, Bool.not_eq_true', decide_eq_true_eq] at hok\n"
   "        have mok := hok.1\n        clear hok\n"
   "        have hc2 : (as l.q).sh.head = " + H0 + " ∧ (as l.q).sh.lock = false := by\n"
   "          rw [rhead, rlock, mcas.1, mok.2]; exact ⟨rfl, mok.1⟩\n"
   "        " + OBT +
   "        by_cases h31 : l.hi = BSZ - 1\n"
   "        · have hd : decide (l.hi = BSZ - 1) = true := by simp [h31]\n"
   "          simp only [hd, if_true]\n"
   "          refine ⟨_, match1 as l.q (sw l.q t) (.claim false 0) (.oTry _) _ _ hu rpc (by simp only [SpmcA.tstep, if_neg hc1, if_pos hc2]; rfl), ?_⟩\n"
   "          simp only [BSZ] at h31\n"
   "          fin_pc\n"
   "        · have hd : decide (l.hi = BSZ - 1) = false := by simp [h31]\n"
   "          simp only [hd, Bool.false_eq_true, if_false]\n"
   "          refine ⟨_, match1 as l.q (sw l.q t) .go (.oTry _) _ _ hu rpc (by simp only [SpmcA.tstep, if_neg hc1, if_pos hc2]; rfl), ?_⟩\n"
   "          simp only [BSZ] at h31\n"
   "          fin_pc\n"
   "      · next hfail =>\n"
   "        have hc2 : ¬((as l.q).sh.head = " + H0 + " ∧ (as l.q).sh.lock = false) := by\n"
   "          rw [rhead, rlock, hq]; exact mex.2 (by rw [← hq]; simpa using hfail)\n"
   "        " + OBT +
   "        refine ⟨_, match1 as l.q (sw l.q t) .go (.oTry _) _ _ hu rpc (by simp only [SpmcA.tstep, if_neg hc1, if_neg hc2]; rfl), ?_⟩\n"
   "        simp only [if_true]\n        fin_pc\n"
   + stealer("pop") + stealer("bulk"), imp="ExactR")


ST = "(sh.blks l.hb).start"
M2 = "match2 as l.q (sw l.q t) .go .go (.tRead lo hi) _ _ _ _ hu rpc (by simp only [SpmcA.tstep]; rfl) (by simp only [SpmcA.tstep]; rfl)"
pc("tF", "(l : Loc) (lo hi : Nat) (sk : Bool)", "l lo hi sk", taker(4, "  have mpc := hS.tF t l lo hi sk hpc\n  have mal := hS.balign l.hb mlhb.2.1\n" + RPC + ARD + ACUT + AFRESH("lo", "hi")) +
   "  simp only [BSZ] at mpc mal mlhb\n  have hsk := mpc.2.2.2\n  subst hsk\n"
   + LIVE("lo", "afresh lo (Nat.le_refl _) mpc.2.1") +
   "  have hdat : ∀ j, j < hi - lo → (sh.blks l.hb).data ((lo + j) % BSZ) = (as l.q).sh.slot (lo + j) := by\n"
   "    intro j hj\n    have h1 := h.slot l.hb (lo + j - " + ST + ") mlhb.2.1 (by simp only [BSZ]; omega)\n"
   "    rw [mlhb.2.2] at h1\n    simp only at h1\n"
   "    have e1 : " + ST + " + (lo + j - " + ST + ") = lo + j := by omega\n"
   "    have e2 : (lo + j) % BSZ = lo + j - " + ST + " := by simp only [BSZ]; omega\n"
   "    rw [e2, ← h1, e1]\n"
   "  have hsome : ∀ j, j < hi - lo → ((as l.q).sh.slot (lo + j)).isSome = true := fun j hj => iA.wr _ (by omega)\n"
   "  have mused : (sh.blks l.hb).used = unread (as l.q).sh.cnt " + ST + " 32 := by\n    have := h.used l.hb mlhb.2.1\n    rw [mlhb.2.2] at this\n    exact this\n"
   "  have mup : 0 < (sh.blks l.hb).used := by\n    rw [mused]; exact unread_pos _ _ _ lo (by omega) (by omega) (afresh lo (Nat.le_refl _) mpc.2.1)\n"
   "  have mrd := unread_read (as l.q).sh.cnt " + ST + " 32 lo hi (by omega) (by omega) (by omega) afresh\n"
   "  have many := readSlots_any sh l.hb lo hi (fun j hj => by rw [hdat j hj]; exact hsome j hj)\n"
   "  have mntf : ∀ u l' v', pcs u = .tFree l' v' → l'.hb ≠ l.hb := by\n    intro u l' v' hu' hc\n    have := (h.tfree u l' v' hu').1\n    simp only at this\n    rw [hc] at this\n    omega\n",
   "simp only [tstep, touch_live sh l.hb mlive, Bool.false_eq_true, if_false, Bool.not_false, Bool.true_and, many, Bool.or_false,\n"
   "    readSlots_length, Option.some.injEq, Prod.mk.injEq] at hts\n  obtain ⟨rfl, rfl⟩ := hts\n"
   "  have hvals := fun j hj => readSlots_getD sh l.hb lo hi j hj\n"
   "  generalize hvv : List.map (fun (o : Option Val) => o.getD 0) _ = vv at hvals ⊢\n"
   "  rw [gots_eq]\n"
   "  by_cases hz : (sh.blks l.hb).used = hi - lo\n"
   "  · simp only [hz, if_true]\n    refine ⟨_, " + M2 + ", ?_⟩\n    fin_pc\n"
   "  · simp only [hz, if_false]\n    refine ⟨_, " + M2 + ", rel_entry n _ pcs t _ _ ?_ (deliver_entry n t l vv mlq.1 ht)⟩\n    fin_pc", imp="LtF")

EXTRAS = {}
exec(open(os.path.join(HERE, "extras_r.py")).read())

def fin_macro(extras):
    lines = ["set_option hygiene false in", "local macro \"fin_pc\" : tactic => `(tactic| (", "  constructor"]
    for c in CL:
        fail = f" | (trace \"FAILED {c}\"; sorry)" if DEV else ""
        if c == "pcs":
            lines.append("  case pcs => (sR; (first | refine pcs_frame0 n sh.blks _ pcs as t _ h.pcs ?_ ?_ | refine pcs_frame n sh.blks _ pcs as t _ _ _ _ _ h.pcs ?_ ?_) <;> first\n"
              "    | (intro t' l' hne hl hp; first | rfl | (have hb := hS.lhb t' l' hl hp; simp only [BSZ] at hb; grind [upd, newBlock]))\n"
              "    | (intro q' hq'; simp only [hpc, absPc, pcQ, absOn]; first | rfl | grind [mkLoc])" + fail + ")")
            continue
        ex = extras.get(c, [])
        if isinstance(ex, str):
            lines.append(f"  case {c} => (\n    " + ex.strip() + ")")
            continue
        haves = "; ".join(f"have x{e.replace('.', '_')} := {('h.' + e) if '.' not in e else e}" for e in ex)
        names = " ".join(["hx"] + [f"x{e.replace('.', '_')}" for e in ex])
        lines.append(f"  case {c} => (sR; aS; have hx := h.{c}; {haves + '; ' if haves else ''}simp only [BSZ] at {names} ⊢; "
                     f"first | exact hx | grind [{FNS}] | grind (splits := 25) [{FNS}]{fail})")
    lines.append("  ))")
    return "\n".join(lines)

def gen(name):
    binders, app, prelude, body, imp = PCS[name]
    for m in re.findall(r"have (m\w+) :=", prelude):
        prelude += f"  try simp only [BSZ] at {m}\n"
    txt = f"""import MayVerif.Proof.Queue.Spmc.{imp}
namespace MayVerif.Spmc
local notation "Tid" => Nat
local notation "Bid" => Nat
local notation "Qid" => Nat
local notation "Val" => Nat

{fin_macro(EXTRAS.get(name, {}))}

set_option maxHeartbeats 1600000 in
theorem rel_{name} (n : Nat) (sh : Sh) (pcs : Tid → Pc) (t : Tid) (e : Env) {binders} (as : Nat → SpmcA.St)
    (hS : InvS ⟨n, sh, pcs⟩) (hG : InvG ⟨n, sh, pcs⟩) (h : Rel ⟨n, sh, pcs⟩ as) (hA : ∀ q, q < n → SpmcA.Inv (as q))
    (hg : guard ⟨n, sh, pcs⟩ t e = true) (ht : t < n)
    (hpc : pcs t = .{name} {app}) (sh' : Sh) (pc' : Pc)
    (hts : tstep sh t (.{name} {app}) e = some (sh', pc')) (hS' : InvS ⟨n, sh', upd pcs t pc'⟩) :
    ∃ as', Match as as' ∧ Rel ⟨n, sh', upd pcs t pc'⟩ as' := by
  {prelude.rstrip() if prelude else 'skip'}
  {body}

end MayVerif.Spmc
"""
    open(os.path.join(OUT, f"P_{name}.lean"), "w").write(txt)

if __name__ == "__main__":
    names = sys.argv[1:] or list(PCS)
    for nm in names: gen(nm)
    print("generated", len(names))
