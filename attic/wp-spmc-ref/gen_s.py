#!/usr/bin/env python3
"""generator of lean/MayVerif/Proof/Queue/Spmc/PS_<pc>.lean (structural invariant InvS, one file per program point)"""
import os, sys
OUT = os.path.join(os.path.dirname(os.path.abspath(__file__)), "../lean/MayVerif/Proof/Queue/Spmc")
CL = "bown balign bnext uniq bnone qlast qmax qmaxid ffg qtb qti qtn qtbnd qhead pu0 pu1 pu2 pu3 pu4 lq lhb ofr opi otb one t4 t4k t4n t5 t6 t7 t8 tF t9 tTk d1 d2 d3 fresh idle".split()
FNS = "upd, locOf, ph, bndPc, pu3Pc, mkLoc, BSZ, newBlock"

SIMPLE = "simp only [tstep, Option.some.injEq, Prod.mk.injEq] at hts\n  obtain ⟨rfl, rfl⟩ := hts"
DELIV = ("refine invS_entry n _ pcs t _ ?_ ht (deliver_entry n t l {v} mlq.1 ht)\n  fin_pc")

def taker(k, extra=""):
    r = (f"have hloc : locOf (pcs t) = some l := by rw [hpc]; rfl\n  have hph : ph (pcs t) = {k} := by rw [hpc]; rfl\n"
         "  have mlq := h.lq t l hloc\n")
    le = lambda j: f"(by show {j} ≤ ph (pcs t); omega)"
    if k >= 1: r += f"  have mlhb := h.lhb t l hloc {le(1)}\n  have mofr := h.ofr t l hloc {le(1)}\n"
    if k >= 2: r += f"  have mopi := h.opi t l hloc {le(2)}\n"
    if k >= 3: r += f"  have motb := h.otb t l hloc {le(3)}\n"
    if k >= 4: r += f"  have mone := h.one t l hloc {le(4)}\n"
    return r + extra

# pc -> (binders, application, prelude, unfold+finish)
PCS = {}
CTOR = {}
XHYP = {}
def pc(name, binders, app, prelude, body="{SIMPLE}\n  fin_pc", extras=None, ctor=None, xhyp=""):
    PCS[name] = (binders, app, prelude, body.replace("{SIMPLE}", SIMPLE), extras or {})
    CTOR[name] = ctor or name
    XHYP[name] = xhyp

RET = "simp only [tstep, retStep, Option.some.injEq, Prod.mk.injEq] at hts\n  obtain ⟨rfl, rfl⟩ := hts\n  fin_pc"
pc("rPush", "", "", "", RET)
pc("rPop", "(r : Option Val)", "r", "", RET)
pc("rLpop", "(r : Option Val)", "r", "", RET)
pc("rSteal", "(r : Option Val)", "r", "", RET)
pc("rDrop", "", "", "", RET)
pc("rBulk", "(items : List Val) (m : Nat)", "items m", "",
   "cases items <;> simp only [tstep, retStep, Option.some.injEq, Prod.mk.injEq] at hts <;> obtain ⟨rfl, rfl⟩ := hts <;> fin_pc")
pc("panic", "", "", "", "simp [tstep] at hts")
pc("pu0", "(q : Qid) (v : Val) (k : PK)", "q v k", "have mpc := h.pu0 t q v k hpc\n  have mtb := h.qtb t mpc.2 (by simp [hpc, pu3Pc, bndPc])\n")
pc("pu1", "(q : Qid) (v : Val) (tb : Bid) (k : PK)", "q v tb k", "have mpc := h.pu1 t q v tb k hpc\n  have mtb := h.qtb t mpc.2.1 (by simp [hpc, pu3Pc, bndPc])\n")
pc("pu2", "(q : Qid) (tb : Bid) (pi : Nat) (k : PK)", "q tb pi k",
   "have mpc := h.pu2 t q tb pi k hpc\n  have mtb := h.qtb t mpc.2.1 (by simp [hpc, pu3Pc, bndPc])\n  have mql := h.qlast t mpc.2.1\n  have mqi := h.qti t mpc.2.1\n  have mqn := h.qtn t mpc.2.1 (by simp [hpc, pu3Pc, bndPc])\n")
pc("pu3", "(q : Qid) (nb : Bid) (pi : Nat) (k : PK)", "q nb pi k",
   "have mpc := h.pu3 t q nb pi k hpc\n  have mql := h.qlast t mpc.2.1\n  have mqi := h.qti t mpc.2.1\n  have mqb := h.qtbnd t mpc.2.1 (by simp [hpc, pu3Pc, bndPc])\n")
pc("pu4", "(q : Qid) (pi : Nat) (k : PK)", "q pi k",
   "have mpc := h.pu4 t q pi k hpc\n  have mtb := h.qtb t mpc.2.1 (by simp [hpc, pu3Pc, bndPc])\n  have mql := h.qlast t mpc.2.1\n  have mqi := h.qti t mpc.2.1\n"
   "  have mqn := h.qtn t mpc.2.1\n  have mqb := h.qtbnd t mpc.2.1\n  simp only [hpc, bndPc, decide_eq_true_eq, decide_eq_false_iff_not] at mqn mqb\n",
   "simp only [tstep, Option.some.injEq, Prod.mk.injEq] at hts\n  obtain ⟨rfl, rfl⟩ := hts\n"
   "  refine invS_entry n _ pcs t _ ?_ ht (afterPush_entry n t k ht)\n  fin_pc")
pc("t0", "(l : Loc)", "l", taker(0, "  have mqh := h.qhead l.q mlq.1\n  have mhl := hl l.q mlq.1 (hgo l.q (by simp [hpc, onQ]))\n  simp only at mhl\n"))
pc("t1", "(l : Loc)", "l", taker(1))
pc("t2", "(l : Loc)", "l", taker(2), "simp only [tstep, Option.some.injEq, Prod.mk.injEq] at hts\n  obtain ⟨rfl, rfl⟩ := hts\n  split <;> fin_pc")
pc("tE", "(l : Loc)", "l", taker(3))
pc("t5", "(l : Loc) (lo : Nat)", "l lo", taker(4, "  have mpc := h.t5 t l lo hpc\n"),
   "simp only [tstep] at hts\n  repeat' split at hts\n  all_goals (simp only [Option.some.injEq, Prod.mk.injEq] at hts; obtain ⟨rfl, rfl⟩ := hts)\n  all_goals fin_pc")
pc("t6r", "(l : Loc)", "l", taker(4, "  have mqh := h.qhead l.q mlq.1\n"), "{SIMPLE}\n  " + DELIV.format(v="[]"))
pc("t6", "(l : Loc) (lo hi : Nat)", "l lo hi", taker(4, "  have mpc := h.t6 t l lo hi hpc\n"),
   "simp only [tstep] at hts\n  split at hts <;> simp only [Option.some.injEq, Prod.mk.injEq] at hts <;> obtain ⟨rfl, rfl⟩ := hts\n"
   "  · next nx hnx => have mnx := h.bnext l.hb nx mlhb.2.1 hnx; simp only at mnx; fin_pc\n  · fin_pc")
pc("t7", "(l : Loc) (lo hi : Nat) (nh : HeadW)", "l lo hi nh", taker(4, "  have mpc := h.t7 t l lo hi nh hpc\n"))
pc("t8", "(l : Loc) (lo hi : Nat)", "l lo hi", taker(4, "  have mpc := h.t8 t l lo hi hpc\n"),
   "simp only [tstep, Option.some.injEq, Prod.mk.injEq] at hts\n  obtain ⟨rfl, rfl⟩ := hts\n  split <;> fin_pc")
pc("t9", "(l : Loc) (lo : Nat)", "l lo", "", "exact absurd hpc (h.t9 t l lo)")
pc("tFree", "(l : Loc) (vals : List Val)", "l vals", taker(4), "{SIMPLE}\n  " + DELIV.format(v="vals"))
pc("d1", "(q : Qid)", "q", "have mpc := h.d1 t q hpc\n  have mqh := h.qhead q mpc\n", "simp only [tstep, retStep, Option.some.injEq, Prod.mk.injEq] at hts\n  obtain ⟨rfl, rfl⟩ := hts\n  fin_pc")
pc("d2", "(q : Qid) (hb : Bid)", "q hb", "have mpc := h.d2 t q hb hpc\n", "simp only [tstep, Option.some.injEq, Prod.mk.injEq] at hts\n  obtain ⟨rfl, rfl⟩ := hts\n  split <;> fin_pc")
pc("d3", "(q : Qid) (b : Bid)", "q b", "have mpc := h.d3 t q b hpc\n")
pc("t4", "(l : Loc) (lk : Bool) (nid : Nat)", "l lk nid", taker(4, "  have mpc := h.t4 t l lk nid hpc\n  have mpk := h.t4k t l lk nid hpc\n"),
   "simp only [tstep] at hts\n  repeat' split at hts\n  all_goals (first | contradiction | skip)\n"
   "  all_goals (simp only [Option.some.injEq, Prod.mk.injEq] at hts; obtain ⟨rfl, rfl⟩ := hts)\n  all_goals (try (repeat' split))\n  all_goals fin_pc")
pc("tF", "(l : Loc) (lo hi : Nat) (sk : Bool)", "l lo hi sk", taker(4, "  have mpc := h.tF t l lo hi sk hpc\n"),
   "have hsk := mpc.2.2.2\n  subst hsk\n"
   "  simp only [tstep, Bool.false_eq_true, if_false, Option.some.injEq, Prod.mk.injEq] at hts\n  obtain ⟨rfl, rfl⟩ := hts\n"
   "  generalize hvv : List.map (fun (o : Option Val) => o.getD 0) _ = vv\n"
   "  by_cases hz : (sh.blks l.hb).used = hi - lo\n"
   "  · simp only [hz, if_true]; fin_pc\n"
   "  · simp only [hz, if_false]\n    " + DELIV.format(v="vv").replace("\n  ", "\n    "))
pc("tT_empty", "(l : Loc)", "l", taker(3, "  have mqh := h.qhead l.q mlq.1\n  have mhl := hl l.q mlq.1 (hgo l.q (by simp [hpc, onQ]))\n  simp only at mhl\n  have hke := h.tTk t l hpc\n"),
   "simp only [tstep, retStep_deliver_nil sh t l hke, if_pos hemp] at hts\n"
   "  simp only [Option.some.injEq, Prod.mk.injEq] at hts; obtain ⟨rfl, rfl⟩ := hts; split <;> fin_pc", ctor="tT", xhyp="\n    (hemp : (peq sh l.hb l.tb (envEq e) && decide (l.pi % BSZ ≤ l.hi)) = true)")
pc("tT_fail", "(l : Loc)", "l", taker(3, "  have mqh := h.qhead l.q mlq.1\n  have mhl := hl l.q mlq.1 (hgo l.q (by simp [hpc, onQ]))\n  simp only at mhl\n  have hke := h.tTk t l hpc\n"),
   "simp only [tstep, retStep_deliver_nil sh t l hke, if_neg hne, if_neg hnok] at hts\n"
   "  simp only [Option.some.injEq, Prod.mk.injEq] at hts; obtain ⟨rfl, rfl⟩ := hts; split <;> fin_pc", ctor="tT",
   xhyp="\n    (hne : ¬(peq sh l.hb l.tb (envEq e) && decide (l.pi % BSZ ≤ l.hi)) = true)\n    (hnok : ¬(!(sh.qs l.q).head.lock && decide ((sh.qs l.q).head.idx = l.hi) && (decide ((sh.qs l.q).head.blk = l.hb) || envAba e && reusedBy sh l.hb (sh.qs l.q).head.blk)) = true)")
pc("tT_ok_pop", "(l : Loc)", "l", taker(3, "  have mqh := h.qhead l.q mlq.1\n  have mhl := hl l.q mlq.1 (hgo l.q (by simp [hpc, onQ]))\n  simp only at mhl\n  have hke := h.tTk t l hpc\n"),
   "simp only [tstep, retStep_deliver_nil sh t l hke, if_neg hne, if_pos hok] at hts\n"
   "  · simp only [Option.some.injEq, Prod.mk.injEq] at hts; obtain ⟨rfl, rfl⟩ := hts\n"
   "    have mex := fun hk => lpop_cas n sh pcs t l h hpc hk (envEq e) (envAba e) (by simpa using hne)\n"
   "      (by simp only [Bool.and_eq_true] at hok; exact hok.2)\n"
   "    simp only [Bool.and_eq_true, Bool.not_eq_true', decide_eq_true_eq] at hok\n"
   "    have mok := hok.1\n    clear hok\n"
   "    generalize hpe : peq sh l.hb l.tb (envEq e) = pe at hne ⊢\n"
   "    simp only [BSZ] at hne mex ⊢\n"
   "    simp only [hk] at hke mex ⊢\n"
   "    cases pe <;>\n"
   "      simp only [Bool.false_and, Bool.true_and, Bool.not_false, Bool.not_true, if_true, if_false, decide_eq_true_eq,\n"
   "        Bool.false_eq_true, not_false_eq_true, not_true_eq_false, Nat.not_le, forall_const] at hne mex ⊢ <;> (try split) <;> fin_pc", ctor="tT",
   xhyp="\n    (hk : l.k = .pop)\n    (hne : ¬(peq sh l.hb l.tb (envEq e) && decide (l.pi % BSZ ≤ l.hi)) = true)\n    (hok : (!(sh.qs l.q).head.lock && decide ((sh.qs l.q).head.idx = l.hi) && (decide ((sh.qs l.q).head.blk = l.hb) || envAba e && reusedBy sh l.hb (sh.qs l.q).head.blk)) = true)")
pc("tT_ok_lpop", "(l : Loc)", "l", taker(3, "  have mqh := h.qhead l.q mlq.1\n  have mhl := hl l.q mlq.1 (hgo l.q (by simp [hpc, onQ]))\n  simp only at mhl\n  have hke := h.tTk t l hpc\n"),
   "simp only [tstep, retStep_deliver_nil sh t l hke, if_neg hne, if_pos hok] at hts\n"
   "  · simp only [Option.some.injEq, Prod.mk.injEq] at hts; obtain ⟨rfl, rfl⟩ := hts\n"
   "    have mex := fun hk => lpop_cas n sh pcs t l h hpc hk (envEq e) (envAba e) (by simpa using hne)\n"
   "      (by simp only [Bool.and_eq_true] at hok; exact hok.2)\n"
   "    simp only [Bool.and_eq_true, Bool.not_eq_true', decide_eq_true_eq] at hok\n"
   "    have mok := hok.1\n    clear hok\n"
   "    generalize hpe : peq sh l.hb l.tb (envEq e) = pe at hne ⊢\n"
   "    simp only [BSZ] at hne mex ⊢\n"
   "    simp only [hk] at hke mex ⊢\n"
   "    cases pe <;>\n"
   "      simp only [Bool.false_and, Bool.true_and, Bool.not_false, Bool.not_true, if_true, if_false, decide_eq_true_eq,\n"
   "        Bool.false_eq_true, not_false_eq_true, not_true_eq_false, Nat.not_le, forall_const] at hne mex ⊢ <;> (try split) <;> fin_pc", ctor="tT",
   xhyp="\n    (hk : l.k = .lpop)\n    (hne : ¬(peq sh l.hb l.tb (envEq e) && decide (l.pi % BSZ ≤ l.hi)) = true)\n    (hok : (!(sh.qs l.q).head.lock && decide ((sh.qs l.q).head.idx = l.hi) && (decide ((sh.qs l.q).head.blk = l.hb) || envAba e && reusedBy sh l.hb (sh.qs l.q).head.blk)) = true)")
pc("tT_ok_bulk", "(l : Loc)", "l", taker(3, "  have mqh := h.qhead l.q mlq.1\n  have mhl := hl l.q mlq.1 (hgo l.q (by simp [hpc, onQ]))\n  simp only at mhl\n  have hke := h.tTk t l hpc\n"),
   "simp only [tstep, retStep_deliver_nil sh t l hke, if_neg hne, if_pos hok] at hts\n"
   "  · simp only [Option.some.injEq, Prod.mk.injEq] at hts; obtain ⟨rfl, rfl⟩ := hts\n"
   "    have mex := fun hk => lpop_cas n sh pcs t l h hpc hk (envEq e) (envAba e) (by simpa using hne)\n"
   "      (by simp only [Bool.and_eq_true] at hok; exact hok.2)\n"
   "    simp only [Bool.and_eq_true, Bool.not_eq_true', decide_eq_true_eq] at hok\n"
   "    have mok := hok.1\n    clear hok\n"
   "    generalize hpe : peq sh l.hb l.tb (envEq e) = pe at hne ⊢\n"
   "    simp only [BSZ] at hne mex ⊢\n"
   "    simp only [hk] at hke mex ⊢\n"
   "    cases pe <;>\n"
   "      simp only [Bool.false_and, Bool.true_and, Bool.not_false, Bool.not_true, if_true, if_false, decide_eq_true_eq,\n"
   "        Bool.false_eq_true, not_false_eq_true, not_true_eq_false, Nat.not_le, forall_const] at hne mex ⊢ <;> (try split) <;> fin_pc", ctor="tT",
   xhyp="\n    (hk : l.k = .bulk)\n    (hne : ¬(peq sh l.hb l.tb (envEq e) && decide (l.pi % BSZ ≤ l.hi)) = true)\n    (hok : (!(sh.qs l.q).head.lock && decide ((sh.qs l.q).head.idx = l.hi) && (decide ((sh.qs l.q).head.blk = l.hb) || envAba e && reusedBy sh l.hb (sh.qs l.q).head.blk)) = true)")
pc("tT", "(l : Loc)", "l", "have hke := h.tTk t l hpc\n",
   "by_cases hemp : (peq sh l.hb l.tb (envEq e) && decide (l.pi % BSZ ≤ l.hi)) = true\n"
   "  · exact invS_tT_empty n sh pcs t e l h hl hg ht hgo hpc sh' pc' hemp hts\n"
   "  by_cases hok : (!(sh.qs l.q).head.lock && decide ((sh.qs l.q).head.idx = l.hi) && (decide ((sh.qs l.q).head.blk = l.hb) || envAba e && reusedBy sh l.hb (sh.qs l.q).head.blk)) = true\n"
   "  · cases hk : l.k\n"
   "    · exact invS_tT_ok_pop n sh pcs t e l h hl hg ht hgo hpc sh' pc' hk hemp hok hts\n"
   "    · exact invS_tT_ok_lpop n sh pcs t e l h hl hg ht hgo hpc sh' pc' hk hemp hok hts\n"
   "    · exact invS_tT_ok_bulk n sh pcs t e l h hl hg ht hgo hpc sh' pc' hk hemp hok hts\n"
   "    · exact absurd hk hke\n"
   "  · exact invS_tT_fail n sh pcs t e l h hl hg ht hgo hpc sh' pc' hemp hok hts")
pc("idle", "", "", "",
   "cases e with\n  | go => simp [tstep] at hts\n  | adv a b => simp [tstep] at hts\n  | start o =>\n"
   "    simp only [guard, hpc] at hg\n"
   "    cases o <;> simp only [tstep] at hts <;> (try split at hts) <;> (try contradiction) <;>\n"
   "      simp only [Option.some.injEq, Prod.mk.injEq] at hts <;> obtain ⟨rfl, rfl⟩ := hts <;>\n"
   "      simp only [opOk, alive, Bool.and_eq_true, decide_eq_true_eq, Bool.not_eq_true', Bool.and_eq_true] at hg <;> fin_pc")

def fin_macro(extras):
    lines = ["set_option hygiene false in", "local macro \"fin_pc\" : tactic => `(tactic| (", "  constructor"]
    for c in CL:
        ex = extras.get(c, [])
        haves = "; ".join(f"have x{e} := h.{e}" for e in ex)
        names = " ".join(["hx"] + [f"x{e}" for e in ex])
        lines.append(f"  case {c} => (sS; have hx := h.{c}; {haves + '; ' if haves else ''}simp only [BSZ] at {names} ⊢; "
                     f"first | exact hx | grind [{FNS}] | grind (splits := 25) [{FNS}]" + (f" | (trace \"FAILED {c}\"; sorry)" if DEV else "") + ")")
    lines.append("  ))")
    return "\n".join(lines)

def gen(name):
    binders, app, prelude, body, extras = PCS[name]
    import re
    for m in re.findall(r"have (m\w+) :=", prelude):
        prelude += f"  try simp only [BSZ] at {m}\n"
    ex = EXTRAS.get(name, {})
    imp = "Exact" if name.startswith("tT_") else ("EntryS" if name in ("t6r", "tF", "tFree", "pu4") else "TacS")
    imps = f"import MayVerif.Proof.Queue.Spmc.{imp}"
    if name == "tT":
        imps = "\n".join(f"import MayVerif.Proof.Queue.Spmc.PS_tT_{x}" for x in ("empty", "fail", "ok_pop", "ok_lpop", "ok_bulk"))
    txt = f"""{imps}
namespace MayVerif.Spmc
local notation "Tid" => Nat
local notation "Bid" => Nat
local notation "Qid" => Nat
local notation "Val" => Nat

{fin_macro(ex)}

set_option maxHeartbeats 1600000 in
theorem invS_{name} (n : Nat) (sh : Sh) (pcs : Tid → Pc) (t : Tid) (e : Env) {binders}
    (h : InvS ⟨n, sh, pcs⟩) (hl : HeadLive ⟨n, sh, pcs⟩) (hg : guard ⟨n, sh, pcs⟩ t e = true) (ht : t < n)
    (hgo : ∀ q, onQ t (pcs t) q = true → (sh.qs q).gone = false)
    (hpc : pcs t = .{CTOR[name]} {app}) (sh' : Sh) (pc' : Pc){XHYP[name]}
    (hts : tstep sh t (.{CTOR[name]} {app}) e = some (sh', pc')) : InvS ⟨n, sh', upd pcs t pc'⟩ := by
  {prelude.rstrip() if prelude else 'skip'}
  {body}

end MayVerif.Spmc
"""
    open(os.path.join(OUT, f"PS_{name}.lean"), "w").write(txt)

EXTRAS = {}
DEV = os.environ.get("DEV", "1") == "1"
exec(open(os.path.join(os.path.dirname(os.path.abspath(__file__)), "extras_s.py")).read())
if __name__ == "__main__":
    names = sys.argv[1:] or list(PCS)
    for nm in names: gen(nm)
    print("generated", len(names))
