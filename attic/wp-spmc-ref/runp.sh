#!/bin/bash
# usage: runp.sh PREFIX [names...]  : compile the per-pc files in parallel, print a summary
cd /tmp/wp_spmcref/lean
pre=$1; shift
names="$@"
if [ -z "$names" ]; then names=$(ls MayVerif/Proof/Queue/Spmc/${pre}_*.lean | sed "s#.*/${pre}_##; s#.lean##"); fi
mkdir -p /tmp/wp_spmcref/logs
for nm in $names; do
  ( s=$(date +%s); lake env lean MayVerif/Proof/Queue/Spmc/${pre}_$nm.lean > /tmp/wp_spmcref/logs/${pre}_$nm.log 2>&1; e=$(date +%s);
    f=$(grep -c "FAILED" /tmp/wp_spmcref/logs/${pre}_$nm.log); er=$(grep -c "error" /tmp/wp_spmcref/logs/${pre}_$nm.log);
    echo "$nm: $((e-s))s failed=$f errors=$er $(grep -o 'FAILED [a-zA-Z0-9]*' /tmp/wp_spmcref/logs/${pre}_$nm.log | sort | uniq -c | tr '\n' ' ')" ) &
  while [ $(jobs -r | wc -l) -ge 14 ]; do sleep 0.5; done
done
wait
