#!/usr/bin/env python3
"""generator of StepS.lean (dispatch over the program points)"""
import os
OUT = os.path.join(os.path.dirname(os.path.abspath(__file__)), "../lean/MayVerif/Proof/Queue/Spmc")
PCARGS = {"idle": "", "pu0": "q v k", "pu1": "q v tb k", "pu2": "q tb pi k", "pu3": "q nb pi k", "pu4": "q pi k",
  "t0": "l", "t1": "l", "t2": "l", "tT": "l", "tE": "l", "t4": "l lk nid", "t5": "l lo", "t6r": "l", "t6": "l lo hi",
  "t7": "l lo hi nh", "t8": "l lo hi", "t9": "l lo", "tF": "l lo hi sk", "tFree": "l vals", "d1": "q", "d2": "q hb", "d3": "q b",
  "rPush": "", "rPop": "r", "rLpop": "r", "rBulk": "items m", "rSteal": "r", "rDrop": "", "panic": ""}
imports = "\n".join(f"import MayVerif.Proof.Queue.Spmc.PS_{p}" for p in PCARGS)
cases = "\n".join(f"  | {p} {a} => exact invS_{p} n sh pcs t e {a} h hl hg hlt hgo hpc sh' pc' hts" for p, a in PCARGS.items())
txt = f"""/-
  Level-B spmc: `InvS` is preserved by every step (given that the block `head` points to is live, which the
  counting invariant of `Rel` provides) and holds initially.
-/
{imports}
namespace MayVerif.Spmc
local notation "Tid" => Nat

theorem invS_init (n : Nat) : InvS (init n) := by
  constructor <;> simp [init, newBlock, locOf, pu3Pc, bndPc, BSZ] <;> (try omega)

theorem invS_step (s s' : St) (t : Tid) (e : Env) (h : InvS s) (hl : HeadLive s)
    (hgo : ∀ q, onQ t (s.pcs t) q = true → (s.sh.qs q).gone = false)
    (hs : step s t e = some s') : InvS s' := by
  obtain ⟨n, sh, pcs⟩ := s
  simp only [step] at hs
  split at hs
  case isFalse => contradiction
  next hlt =>
  obtain ⟨hlt, hg⟩ := hlt
  split at hs
  · contradiction
  next sh' pc' hts =>
  simp only [Option.some.injEq] at hs
  subst hs
  simp only at hlt hgo
  generalize hpc : pcs t = pc at hts
  cases pc with
{cases}

end MayVerif.Spmc
"""
open(os.path.join(OUT, "StepS.lean"), "w").write(txt)
