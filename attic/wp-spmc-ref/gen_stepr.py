#!/usr/bin/env python3
"""generator of StepR.lean (dispatch of rel_step over the program points)"""
import os
OUT = os.path.join(os.path.dirname(os.path.abspath(__file__)), "../lean/MayVerif/Proof/Queue/Spmc")
PCARGS = {"idle": "", "pu0": "q v k", "pu1": "q v tb k", "pu2": "q tb pi k", "pu3": "q nb pi k", "pu4": "q pi k",
  "t0": "l", "t1": "l", "t2": "l", "tT": "l", "tE": "l", "t4": "l lk nid", "t5": "l lo", "t6r": "l", "t6": "l lo hi",
  "t7": "l lo hi nh", "t8": "l lo hi", "t9": "l lo", "tF": "l lo hi sk", "tFree": "l vals", "d1": "q", "d2": "q hb", "d3": "q b",
  "rPush": "", "rPop": "r", "rLpop": "r", "rBulk": "items m", "rSteal": "r", "rDrop": "", "panic": ""}
imports = "\n".join(f"import MayVerif.Proof.Queue.Spmc.P_{p}" for p in PCARGS)
cases = "\n".join(f"  | {p} {a} => exact rel_{p} n sh pcs t e {a} as hS hG h hA hg hlt hpc sh' pc' hts hS'" for p, a in PCARGS.items())
txt = f"""/-
  Level-B spmc: every step of the level-B model is matched by at most two steps of the level-A instance of the
  queue concerned (none in the other instances) such that the simulation relation `Rel` is preserved.
-/
{imports}
import MayVerif.Proof.Queue.Spmc.StepS
import MayVerif.Proof.Queue.Spmc.StepG
namespace MayVerif.Spmc
local notation "Tid" => Nat

theorem rel_init (n : Nat) : Rel (init n) (fun _ => SpmcA.init n) := by
  constructor <;> simp [init, SpmcA.init, newBlock, absPc, absOn, pcQ, gcnt, ownerIdx, BSZ]
  · intro b _
    exact (unread_all _ _ _ (fun _ _ _ => rfl)).symm

theorem rel_step (s s' : St) (as : Nat → SpmcA.St) (t : Tid) (e : Env) (hS : InvS s) (hG : InvG s) (h : Rel s as)
    (hA : ∀ q, q < s.n → SpmcA.Inv (as q)) (hs : step s t e = some s') (hS' : InvS s') :
    ∃ as', Match as as' ∧ Rel s' as' := by
  obtain ⟨n, sh, pcs⟩ := s
  simp only [step] at hs
  split at hs
  case isFalse => contradiction
  next hlt =>
  obtain ⟨hlt, hg⟩ := hlt
  split at hs
  · contradiction
  next sh' pc' hts =>
  simp only [Option.some.injEq] at hs
  subst hs
  simp only at hlt hA
  generalize hpc : pcs t = pc at hts
  cases pc with
{cases}

end MayVerif.Spmc
"""
open(os.path.join(OUT, "StepR.lean"), "w").write(txt)
