# (pc -> clause -> extra clauses to bring)
BLK = ["lhb", "qlast"]
EXTRAS = {
  "pu2": {"bnext": ["balign"], "uniq": ["qmax"], "qmax": ["qlast"], "qti": ["qlast"], "qtn": ["qlast"], "qtbnd": ["qlast"],
          "one": ["lhb"], "t5": ["lhb"], "t6": ["lhb"], "t7": ["lhb"], "t8": ["lhb"], "tF": ["lhb"], "qhead": ["qlast"],
          "qmaxid": ["qlast"], "bnone": ["qlast"], "lhb": [], "ofr": ["lhb", "qlast"]},
  "pu4": {"qti": ["balign", "qlast"]},
  "tFree": {"ofr": ["qlast", "lq"]},
  "t5": {"t6": ["balign"], "t7": ["balign"]},
  "d3": {"ofr": ["qlast", "lq"]},
}
