-- throwaway feasibility experiment 3: ghost variable instead of existential
namespace MutexExp3
notation "Tid" => Nat

inductive Pc
  | idle | tryCas | push | fadd | sspop | ssunpark (w : Tid) | park | cs | fsub | upop | uunpark (w : Tid)
  deriving DecidableEq, Repr

@[grind] def upd {α : Type} (f : Tid → α) (t : Tid) (v : α) : Tid → α := fun u => if u = t then v else f u

structure Sh where
  cnt : Nat
  q : List Tid
  tok : Tid → Bool
  pend : Option Tid   -- ghost: blocker popped but not yet unparked

def tstep (sh : Sh) (t : Tid) : Pc → Option (Sh × Pc)
  | .idle => some (sh, .tryCas)
  | .tryCas => if sh.cnt = 0 then some ({ sh with cnt := 1 }, .cs) else some (sh, .push)
  | .push => some ({ sh with q := sh.q ++ [t] }, .fadd)
  | .fadd => some ({ sh with cnt := sh.cnt + 1 }, if sh.cnt = 0 then .sspop else .park)
  | .sspop => match sh.q with
    | [] => none
    | w :: q' => some ({ sh with q := q', pend := some w }, .ssunpark w)
  | .ssunpark w => some ({ sh with tok := upd sh.tok w true, pend := none }, .park)
  | .park => if sh.tok t = true then some ({ sh with tok := upd sh.tok t false }, .cs) else none
  | .cs => some (sh, .fsub)
  | .fsub => some ({ sh with cnt := sh.cnt - 1 }, if sh.cnt > 1 then .upop else .idle)
  | .upop => match sh.q with
    | [] => none
    | w :: q' => some ({ sh with q := q', pend := some w }, .uunpark w)
  | .uunpark w => some ({ sh with tok := upd sh.tok w true, pend := none }, .idle)

structure St where
  n : Nat
  sh : Sh
  pcs : Tid → Pc

def step (s : St) (t : Tid) : Option St :=
  if t < s.n then
    match tstep s.sh t (s.pcs t) with
    | none => none
    | some (sh', pc') => some ⟨s.n, sh', upd s.pcs t pc'⟩
  else none

def init (n : Nat) : St := ⟨n, ⟨0, [], fun _ => false, none⟩, fun _ => .idle⟩

@[grind] def counted : Pc → Bool
  | .sspop | .ssunpark _ | .park | .cs | .fsub => true
  | _ => false
@[grind] def carries : Pc → Bool
  | .sspop | .ssunpark _ | .cs | .fsub | .upop | .uunpark _ => true
  | _ => false
@[grind] def pushed : Pc → Bool
  | .fadd | .sspop | .ssunpark _ | .park => true
  | _ => false
@[grind] def unparkTarget : Pc → Option Tid
  | .ssunpark w | .uunpark w => some w
  | _ => none

@[grind] def passing : Pc → Bool
  | .upop | .uunpark _ => true
  | _ => false

def cntOf (n : Nat) (p : Pc → Bool) (f : Tid → Pc) : Nat := (List.range n).countP (fun u => p (f u))

theorem cntOf_upd (n : Nat) (p : Pc → Bool) (f : Tid → Pc) (t : Tid) (v : Pc) (ht : t < n) :
    cntOf n p (upd f t v) + (if p (f t) then 1 else 0) = cntOf n p f + (if p v then 1 else 0) := by
  unfold cntOf
  induction n with
  | zero => omega
  | succ k ih =>
    simp only [List.range_succ, List.countP_append, List.countP_cons, List.countP_nil]
    by_cases hk : t = k
    · subst hk
      have : List.countP (fun u => p (upd f t v u)) (List.range t) = List.countP (fun u => p (f u)) (List.range t) := by
        apply List.countP_congr
        intro x hx
        have : x < t := List.mem_range.mp hx
        have : x ≠ t := by omega
        simp [upd, this]
      rw [this]; simp [upd]; split <;> split <;> omega
    · have := ih (by omega)
      have h2 : upd f t v k = f k := by simp [upd]; intro h; omega
      rw [h2]; omega

theorem cntOf_zero (n : Nat) (p : Pc → Bool) (f : Tid → Pc) (h : cntOf n p f = 0) : ∀ u, u < n → p (f u) = false := by
  intro u hu
  unfold cntOf at h
  have := List.countP_eq_zero.mp h u (List.mem_range.mpr hu)
  simpa using this

theorem cntOf_ge2 (n : Nat) (p : Pc → Bool) (f : Tid → Pc) (t : Tid) (h : 2 ≤ cntOf n p f) : ∃ u, u ≠ t ∧ u < n ∧ p (f u) = true := by
  apply Classical.byContradiction
  intro hne
  have hall : ∀ u, u < n → u ≠ t → p (f u) = false := by
    intro u hu hut
    cases hp : p (f u) with
    | false => rfl
    | true => exact absurd ⟨u, hut, hu, hp⟩ hne
  have : cntOf n p f ≤ 1 := by
    unfold cntOf
    clear h hne
    induction n with
    | zero => simp
    | succ k ih =>
      simp only [List.range_succ, List.countP_append, List.countP_cons, List.countP_nil]
      by_cases hk : k = t
      · subst hk
        have : List.countP (fun u => p (f u)) (List.range k) = 0 := by
          apply List.countP_eq_zero.mpr
          intro x hx
          have hx' : x < k := List.mem_range.mp hx
          simp [hall x (by omega) (by omega)]
        rw [this]; split <;> omega
      · have h1 := ih (fun u hu hut => hall u (by omega) hut)
        have h2 := hall k (by omega) hk
        simp [h2]; exact h1
  omega

structure Inv (s : St) : Prop where
  bnd : ∀ (t : Tid), s.n ≤ t → s.pcs t = .idle ∧ s.sh.tok t = false
  cnt : s.sh.cnt = cntOf s.n counted s.pcs
  g1 : ∀ (t u : Tid), carries (s.pcs t) → carries (s.pcs u) → t = u
  g2 : ∀ (t w : Tid), carries (s.pcs t) → s.sh.tok w = true → False
  g3 : ∀ (w w' : Tid), s.sh.tok w = true → s.sh.tok w' = true → w = w'
  u  : ∀ (t : Tid), passing (s.pcs t) → 1 ≤ s.sh.cnt
  tk : ∀ (w : Tid), s.sh.tok w = true → 1 ≤ s.sh.cnt ∧ w ∉ s.sh.q ∧ (s.pcs w = .fadd ∨ s.pcs w = .park)
  q1 : s.sh.q.Nodup
  q2 : ∀ (t : Tid), t ∈ s.sh.q → pushed (s.pcs t) ∧ t < s.n
  q3 : ∀ (t : Tid), pushed (s.pcs t) → t ∈ s.sh.q ∨ s.sh.tok t = true ∨ s.sh.pend = some t
  p1 : ∀ (c : Tid), unparkTarget (s.pcs c) = s.sh.pend ∨ unparkTarget (s.pcs c) = none
  p2 : ∀ (w : Tid), s.sh.pend = some w → w ∉ s.sh.q ∧ s.sh.tok w = false ∧ pushed (s.pcs w)

theorem inv_init (n : Nat) : Inv (init n) := by
  constructor <;> simp [init, carries, pushed, unparkTarget, cntOf, counted, passing]

theorem inv_step (s s' : St) (t : Tid) (h : Inv s) (hs : step s t = some s') : Inv s' := by
  obtain ⟨n, ⟨cnt, q, tok, pend⟩, pcs⟩ := s
  simp only [step] at hs
  split at hs
  case isFalse => contradiction
  next hlt =>
  split at hs
  · contradiction
  next sh' pc' hts =>
  simp only [Option.some.injEq] at hs
  subst hs
  obtain ⟨hb, hcnt, g1, g2, g3, hu, htk, q1, q2, q3, p1, p2⟩ := h
  simp only at hb hcnt g1 g2 g3 hu htk q1 q2 q3 p1 p2 hlt
  generalize hpc : pcs t = pc at hts
  have hc := fun v => cntOf_upd n counted pcs t v hlt
  cases pc <;> simp only [tstep] at hts
  case idle =>
    simp only [Option.some.injEq, Prod.mk.injEq] at hts
    obtain ⟨rfl, rfl⟩ := hts
    have hc := hc .tryCas
    constructor <;> simp only <;> grind
  case tryCas =>
    split at hts <;> simp only [Option.some.injEq, Prod.mk.injEq] at hts <;> obtain ⟨rfl, rfl⟩ := hts
    · have hc := hc .cs
      have hz := cntOf_zero n counted pcs (by omega)
      constructor <;> simp only <;> grind
    · have hc := hc .push
      constructor <;> simp only <;> grind
  case push =>
    simp only [Option.some.injEq, Prod.mk.injEq] at hts
    obtain ⟨rfl, rfl⟩ := hts
    have hc := hc .fadd
    constructor <;> simp only <;> grind [List.nodup_append]
  all_goals sorry

end MutexExp3
