-- throwaway calibration: LP refinement of the logical-index mpsc queue (no blocks) to a FIFO, n producers
namespace MpscA
notation "Tid" => Nat

@[grind] def upd {α : Type} (f : Nat → α) (t : Nat) (v : α) : Nat → α := fun u => if u = t then v else f u

inductive PPc       -- producer
  | idle | load (v : Nat) | cas (v : Nat) (seen : Nat) | publish (v : Nat) (i : Nat)
  deriving DecidableEq, Repr
inductive CPc       -- consumer
  | idle | tryGet | pushIndex | spin | ret (r : Option Nat)
  deriving DecidableEq, Repr

structure St where
  n : Nat
  res : Nat                    -- tail: number of reserved slots
  ready : Nat → Bool           -- slot published
  val : Nat → Nat              -- slot payload (meaningful when ready)
  head : Nat                   -- consumer position
  pp : Tid → PPc
  cp : CPc
  -- ghost: the abstract FIFO and the log of (value returned, abstract head at the linearization point)
  A : List Nat
  pend : Nat → Nat             -- value destined for a reserved slot (ghost)
  bad : Bool                   -- a response disagreed with the abstract queue

inductive Act | prod (t : Tid) (v : Nat) | cons
  deriving Repr

def step (s : St) : Act → Option St
  | .prod t v =>
    if t < s.n then
      match s.pp t with
      | .idle => some { s with pp := upd s.pp t (.load v) }
      | .load v => some { s with pp := upd s.pp t (.cas v s.res) }
      | .cas v seen =>
          if s.res = seen then   -- CAS succeeds: slot `seen` reserved; linearization point of push
            some { s with res := s.res + 1, pend := upd s.pend seen v, A := s.A ++ [v], pp := upd s.pp t (.publish v seen) }
          else some { s with pp := upd s.pp t (.cas v s.res) }
      | .publish v i => some { s with ready := upd s.ready i true, val := upd s.val i v, pp := upd s.pp t .idle }
    else none
  | .cons =>
    match s.cp with
    | .idle => some { s with cp := .tryGet }
    | .tryGet =>
        if s.ready s.head then   -- LP of pop(Some)
          some { s with head := s.head + 1, A := s.A.tail, bad := s.bad || (s.A.head? != some (s.val s.head)), cp := .ret (some (s.val s.head)) }
        else some { s with cp := .pushIndex }
    | .pushIndex =>
        if s.head ≥ s.res then   -- LP of pop(None)
          some { s with bad := s.bad || !s.A.isEmpty, cp := .ret none }
        else some { s with cp := .spin }
    | .spin =>
        if s.ready s.head then
          some { s with head := s.head + 1, A := s.A.tail, bad := s.bad || (s.A.head? != some (s.val s.head)), cp := .ret (some (s.val s.head)) }
        else none
    | .ret _ => some { s with cp := .idle }

def init (n : Nat) : St := ⟨n, 0, fun _ => false, fun _ => 0, 0, fun _ => .idle, .idle, [], fun _ => 0, false⟩

def run (s : St) : List Act → St
  | [] => s
  | a :: r => match step s a with
    | some s' => run s' r
    | none => run s r

/-- slot a producer pc is about to publish -/
@[grind] def pubSlot : PPc → Option (Nat × Nat) | .publish v i => some (i, v) | _ => none

structure Inv (s : St) : Prop where
  hle : s.head ≤ s.res
  len : s.A.length = s.res - s.head
  get : ∀ (k : Nat), k < s.A.length → s.A[k]? = some (s.pend (s.head + k))
  rdy : ∀ (i : Nat), s.ready i = true → i < s.res ∧ s.val i = s.pend i
  pub : ∀ (t : Tid) (i v : Nat), pubSlot (s.pp t) = some (i, v) → i < s.res ∧ s.pend i = v ∧ s.ready i = false ∧ s.head ≤ i
  pub1 : ∀ (t u : Tid) (i v w : Nat), pubSlot (s.pp t) = some (i, v) → pubSlot (s.pp u) = some (i, w) → t = u
  good : s.bad = false

theorem inv_init (n : Nat) : Inv (init n) := by
  constructor <;> simp [init, pubSlot]


set_option maxHeartbeats 2000000 in
theorem inv_step (s s' : St) (a : Act) (h : Inv s) (hs : step s a = some s') : Inv s' := by
  obtain ⟨hle, hlen, hget, hrdy, hpub, hpub1, hgood⟩ := h
  cases a with
  | prod t v =>
    simp only [step] at hs
    split at hs
    · generalize hpc : s.pp t = pc at hs
      have hpubt := hpub t
      rw [hpc] at hpubt
      cases pc <;> simp only [pubSlot] at hpubt <;> simp only at hs <;> (repeat' split at hs) <;>
        simp only [Option.some.injEq] at hs <;> subst hs <;>
        constructor <;> simp only [] <;> (try grind [List.getElem?_append])
    · contradiction
  | cons =>
    simp only [step] at hs
    generalize hpc : s.cp = pc at hs
    have hg0 := hget 0
    cases pc <;> simp only at hs <;> (repeat' split at hs) <;> (try contradiction) <;>
      simp only [Option.some.injEq] at hs <;> subst hs <;>
      constructor <;> simp only [] <;> (try grind [List.getElem?_tail, List.head?_eq_getElem?, List.length_tail])

theorem inv_run (s : St) (l : List Act) (h : Inv s) : Inv (run s l) := by
  induction l generalizing s with
  | nil => simpa [run]
  | cons a r ih =>
    simp only [run]
    split
    · next s' hs => exact ih _ (inv_step _ _ _ h hs)
    · exact ih _ h

/-- every response of pop agrees with the abstract FIFO at its linearization point: Some v is the abstract head,
    None only when the abstract queue is empty; for any number of producers and any schedule -/
theorem mpscA_refines_fifo (n : Nat) (l : List Act) : (run (init n) l).bad = false :=
  (inv_run _ l (inv_init n)).good

#print axioms mpscA_refines_fifo
end MpscA
