-- throwaway calibration 2: hand-over (exactly one re-post per popped∧aborted blocker), per-blocker ghost phases
namespace Gate5
notation "Tid" => Nat
notation "Bid" => Nat

@[grind] def upd {α : Type} (f : Nat → α) (t : Nat) (v : α) : Nat → α := fun u => if u = t then v else f u

inductive K | toPark (b : Bid) | fin
  deriving DecidableEq, Repr

inductive Pc
  | idle
  | w0load | w0cas (c : Int) | w1push (b : Bid) | w2fsub (b : Bid) | w3pop (k : K)
  | wake1 (w : Bid) (k : K) | wake2 (w : Bid) (k : K) | wake3 (w : Bid) (k : K)
  | w5park (b : Bid) | w6load (b : Bid) | w7set (b : Bid) | w8load (b : Bid) | w9swap (b : Bid)
  | p0fadd (k : K)
  | held
  deriving DecidableEq, Repr

inductive Env | startWait | startPost | abort | go
  deriving DecidableEq, Repr

/-- owner's abort phase / waker's phase, per blocker (ghost) -/
inductive APh | a0 | a1 | a2 | a3 | a4 | a5 deriving DecidableEq, Repr
inductive VPh | v0 | v1 | v2 | v3 | v4 deriving DecidableEq, Repr

structure Sh where
  cnt : Int
  q : List Bid
  tok : Bid → Bool
  unparked : Bid → Bool
  release : Bid → Bool
  nextB : Bid
  -- ghost
  aph : Bid → APh
  vph : Bid → VPh
  duty : Bid → Bool      -- somebody committed to re-post on behalf of this blocker
  dup : Bool             -- a second commitment for the same blocker happened (must stay false)
  FS : Nat
  M : Nat
  pushes : Nat
  pops : Nat
  wk : Bid → Tid         -- ghost: who is waking this blocker

def contK (k : K) : Pc := match k with | .toPark b => .w5park b | .fin => .idle

def tstep (sh : Sh) (me : Tid) : Pc → Env → Option (Sh × Pc)
  | .idle, .startWait => some (sh, .w0load)
  | .idle, .startPost => none        -- mutex discipline: only the holder releases
  | .held, _ => some (sh, .p0fadd .fin)
  | .idle, _ => none
  | .w0load, _ => if sh.cnt > 0 then some (sh, .w0cas sh.cnt) else some ({ sh with nextB := sh.nextB + 1 }, .w1push sh.nextB)
  | .w0cas c, _ =>
      if sh.cnt = c then some ({ sh with cnt := c - 1 }, .held)
      else if sh.cnt > 0 then some (sh, .w0cas sh.cnt)
      else some ({ sh with nextB := sh.nextB + 1 }, .w1push sh.nextB)
  | .w1push b, _ => some ({ sh with q := sh.q ++ [b], pushes := sh.pushes + 1 }, .w2fsub b)
  | .w2fsub b, _ => some ({ sh with cnt := sh.cnt - 1, FS := sh.FS + 1, M := if sh.cnt > 0 then sh.M + 1 else sh.M }, if sh.cnt > 0 then .w3pop (.toPark b) else .w5park b)
  | .w3pop k, _ => match sh.q with
      | [] => none
      | w :: q' => some ({ sh with q := q', vph := upd sh.vph w .v1, pops := sh.pops + 1, wk := upd sh.wk w me }, .wake1 w k)
  | .wake1 w k, _ => some ({ sh with tok := upd sh.tok w true, vph := upd sh.vph w .v2 }, .wake2 w k)
  | .wake2 w k, _ => some ({ sh with unparked := upd sh.unparked w true, vph := upd sh.vph w .v3 }, .wake3 w k)
  | .wake3 w k, _ =>
      some ({ sh with release := upd sh.release w false, vph := upd sh.vph w .v4,
                      duty := if sh.release w then upd sh.duty w true else sh.duty,
                      dup := sh.dup || (sh.release w && sh.duty w) },
            if sh.release w then .p0fadd k else contK k)
  | .w5park b, .abort => some ({ sh with aph := upd sh.aph b .a1 }, .w6load b)
  | .w5park b, _ => if sh.tok b then some ({ sh with tok := upd sh.tok b false }, .held) else none
  | .w6load b, _ =>
      if sh.unparked b then some ({ sh with aph := upd sh.aph b .a5, duty := upd sh.duty b true, dup := sh.dup || sh.duty b }, .p0fadd .fin)
      else some ({ sh with aph := upd sh.aph b .a2 }, .w7set b)
  | .w7set b, _ => some ({ sh with release := upd sh.release b true, aph := upd sh.aph b .a3 }, .w8load b)
  | .w8load b, _ => if sh.unparked b then some ({ sh with aph := upd sh.aph b .a4 }, .w9swap b)
                    else some ({ sh with aph := upd sh.aph b .a5 }, .idle)
  | .w9swap b, _ =>
      some ({ sh with release := upd sh.release b false, aph := upd sh.aph b .a5,
                      duty := if sh.release b then upd sh.duty b true else sh.duty,
                      dup := sh.dup || (sh.release b && sh.duty b) },
            if sh.release b then .p0fadd .fin else .idle)
  | .p0fadd k, _ => some ({ sh with cnt := sh.cnt + 1, M := if sh.cnt < 0 then sh.M + 1 else sh.M }, if sh.cnt < 0 then .w3pop k else contK k)

structure St where
  n : Nat
  sh : Sh
  pcs : Tid → Pc

def step (s : St) (t : Tid) (e : Env) : Option St :=
  if t < s.n then
    match tstep s.sh t (s.pcs t) e with
    | none => none
    | some (sh', pc') => some ⟨s.n, sh', upd s.pcs t pc'⟩
  else none

def init (n : Nat) (i : Nat) : St :=
  ⟨n, ⟨i, [], fun _ => false, fun _ => false, fun _ => false, 0, fun _ => .a0, fun _ => .v0, fun _ => false, false, 0, 0, 0, 0, fun _ => 0⟩, fun _ => .idle⟩

def run (s : St) : List (Tid × Env) → St
  | [] => s
  | (t, e) :: r => match step s t e with
    | some s' => run s' r
    | none => run s r



-- non-vacuity: actor 0 takes the lock on the fast path; actor 1 registers, parks, is handed the lock by 0's unlock
example : (run (init 2 1) [(0, .startWait), (0, .go), (0, .go)]).pcs 0 = .held := by decide
example : (run (init 2 1) [(0, .startWait), (0, .go), (0, .go), (1, .startWait), (1, .go), (1, .go), (1, .go),
    (0, .go), (0, .go), (0, .go), (0, .go), (0, .go), (0, .go), (1, .go)]).pcs 1 = .held := by decide
-- and a cancelled waiter that had been handed the lock passes it on (abort after the token was delivered)
example : (run (init 3 1) [(0, .startWait), (0, .go), (0, .go), (1, .startWait), (1, .go), (1, .go), (1, .go),
    (2, .startWait), (2, .go), (2, .go), (2, .go),
    (0, .go), (0, .go), (0, .go), (0, .go), (0, .go), (0, .go),      -- unlock: pop 1, wake 1
    (1, .abort), (1, .go), (1, .go), (1, .go), (1, .go), (1, .go), (1, .go),  -- 1 is cancelled: sees unparked, re-posts: pop 2, wake 2
    (2, .go)]).pcs 2 = .held := by decide


end Gate5
