-- throwaway feasibility experiment: Join trigger/wait handshake
namespace JoinExp

inductive FPc | f1 | f2 | f3 | f4 (w : Bool) | fdone
  deriving DecidableEq, Repr
inductive JPc | j1 | j2 | j3 | j4 | j5 | jdone
  deriving DecidableEq, Repr

structure St where
  fpc : FPc
  jpc : JPc
  packet : Bool      -- result stored
  state : Bool       -- true = still running
  toWake : Bool      -- slot holds the joiner's blocker
  token : Bool       -- blocker's wake token
  deriving DecidableEq, Repr

def init : St := ⟨.f1, .j1, false, true, false, false⟩

inductive Actor | F | J deriving DecidableEq, Repr

def step (s : St) : Actor → Option St
  | .F => match s.fpc with
    | .f1 => some { s with packet := true, fpc := .f2 }
    | .f2 => some { s with state := false, fpc := .f3 }
    | .f3 => some { s with toWake := false, fpc := .f4 s.toWake }
    | .f4 w => some { s with token := s.token || w, fpc := .fdone }
    | .fdone => none
  | .J => match s.jpc with
    | .j1 => some { s with jpc := if s.state then .j2 else .jdone }
    | .j2 => some { s with toWake := true, jpc := .j3 }
    | .j3 => some { s with jpc := if s.state then .j4 else .j5 }
    | .j4 => if s.token then some { s with token := false, jpc := .jdone } else none
    | .j5 => some { s with toWake := false, jpc := .jdone }
    | .jdone => none

def run (s : St) : List Actor → St
  | [] => s
  | a :: as => match step s a with
    | some s' => run s' as
    | none => run s as

def Inv (s : St) : Prop :=
  -- joiner done implies result stored and state false
  (s.jpc = .jdone → s.packet = true ∧ s.state = false) ∧
  (s.state = false ↔ (s.fpc = .f3 ∨ (∃ w, s.fpc = .f4 w) ∨ s.fpc = .fdone)) ∧
  (s.fpc ≠ .f1 → s.packet = true) ∧
  -- no lost wakeup: joiner parked (or about to) with state seen true => a wake is still coming or token set
  ((s.jpc = .j4) → (s.token = true ∨ s.toWake = true ∧ (s.fpc = .f1 ∨ s.fpc = .f2 ∨ s.fpc = .f3) ∨ s.fpc = .f4 true)) ∧
  (s.jpc = .j3 → s.toWake = true ∧ (s.fpc = .f1 ∨ s.fpc = .f2 ∨ s.fpc = .f3) ∨ (∃ w, s.fpc = .f4 w) ∨ s.fpc = .fdone) ∧
  (s.jpc = .j5 → s.state = false) ∧
  (s.token = true → s.fpc = .fdone)

theorem inv_init : Inv init := by
  simp [Inv, init]

theorem inv_step (s s' : St) (a : Actor) (h : Inv s) (hs : step s a = some s') : Inv s' := by
  obtain ⟨fpc, jpc, packet, state, toWake, token⟩ := s
  cases a <;> cases fpc <;> cases jpc <;> simp only [step] at hs <;> (try split at hs) <;>
    simp only [Option.some.injEq, reduceCtorEq] at hs <;> (try subst hs) <;> simp_all [Inv] <;> grind

theorem inv_run (s : St) (as : List Actor) (h : Inv s) : Inv (run s as) := by
  induction as generalizing s with
  | nil => simpa [run]
  | cons a as ih =>
    simp only [run]
    split
    · next s' hs => exact ih _ (inv_step _ _ _ h hs)
    · exact ih _ h

-- join returns only after the closure finished and result stored
theorem join_after_finish (as : List Actor) :
    (run init as).jpc = .jdone → (run init as).packet = true ∧ (run init as).state = false :=
  (inv_run init as inv_init).1

-- no lost wake-up: if F has finished and J is parked, J is enabled
theorem no_lost_wakeup (as : List Actor) :
    (run init as).fpc = .fdone → (run init as).jpc = .j4 → (step (run init as) .J).isSome := by
  intro hf hj
  have h := (inv_run init as inv_init).2.2.2.1 hj
  simp [step, hj]
  rcases h with h | h | h <;> simp_all

end JoinExp
