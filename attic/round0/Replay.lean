-- throwaway prototype: replay of an implementation trace in the Mutex model (thread context, no cancel)
namespace ReplayProto

inductive Var | cnt | q | tp (b : Nat) | unparked (b : Nat) | release (b : Nat)
  deriving DecidableEq, Repr, BEq, Hashable

/-- observable of one model step; pointers/addresses are symbolic -/
inductive Label
  | call (f : String) | ret (f : String)
  | atomic (v : Var) (op : String) (arg arg2 : Nat) (res : Nat)
  | qpush (b : Nat) | qpop (b : Option Nat)
  | parkEnter (b : Nat) | parkReturn (b : Nat) (ok : Bool) | unpark (b : Nat)
  deriving Repr, BEq

inductive After | park | retUnlock deriving Repr, DecidableEq

inductive Pc
  | idle | tryCas | retLockFast | push (b : Nat) | fadd (b : Nat) | pop (b : Nat) (k : After)
  | unpark1 (me w : Nat) (k : After) | unpark2 (me w : Nat) (k : After) | unpark3 (me w : Nat) (k : After)
  | parkEnter (b : Nat) | parkWait (b : Nat) | retLock | held | callUnlock | fsub | retUnlock
  deriving Repr, DecidableEq

structure Sh where
  cnt : Nat := 0
  q : List Nat := []
  tok : List Nat := []        -- blockers whose token is set
  unparked : List Nat := []
  release : List Nat := []
  nextB : Nat := 0
  deriving Repr

def tstep (sh : Sh) (pc : Pc) : Option (Label × Sh × Pc) :=
  match pc with
  | .idle => some (.call "lock", sh, .tryCas)
  | .tryCas =>
      if sh.cnt = 0 then some (.atomic .cnt "cas" 0 1 (0*2+1), { sh with cnt := 1 }, .retLockFast)
      else some (.atomic .cnt "cas" 0 1 (sh.cnt*2), { sh with nextB := sh.nextB + 1 }, .push sh.nextB)
  | .retLockFast => some (.ret "lock", sh, .held)
  | .push b => some (.qpush b, { sh with q := sh.q ++ [b] }, .fadd b)
  | .fadd b => some (.atomic .cnt "fetch_add" 1 0 sh.cnt, { sh with cnt := sh.cnt + 1 },
                     if sh.cnt = 0 then .pop b .park else .parkEnter b)
  | .pop me k => match sh.q with
      | [] => none
      | w :: q' => some (.qpop (some w), { sh with q := q' }, .unpark1 me w k)
  | .unpark1 me w k => some (.unpark w, { sh with tok := w :: sh.tok }, .unpark2 me w k)
  | .unpark2 me w k => some (.atomic (.unparked w) "store" 1 0 0, { sh with unparked := w :: sh.unparked }, .unpark3 me w k)
  | .unpark3 me w k =>
      let r := sh.release.contains w
      -- take_release true would re-enter unlock; unreachable without cancel, kept as a stuck state here
      if r then none else
      some (.atomic (.release w) "swap" 0 0 0, sh, match k with | .park => .parkEnter me | .retUnlock => .retUnlock)
  | .parkEnter b => some (.parkEnter b, sh, .parkWait b)
  | .parkWait b => if sh.tok.contains b then some (.parkReturn b true, { sh with tok := sh.tok.erase b }, .retLock) else none
  | .retLock => some (.ret "lock", sh, .held)
  | .held => some (.call "unlock", sh, .fsub)
  | .callUnlock => none
  | .fsub => some (.atomic .cnt "fetch_sub" 1 0 sh.cnt, { sh with cnt := sh.cnt - 1 },
                   if sh.cnt > 1 then .pop 0 .retUnlock else .retUnlock)
  | .retUnlock => some (.ret "unlock", sh, .idle)

/-- executable invariant checked at every replayed state (the real one is proved; this guards the replay itself) -/
def holders (pcs : List Pc) : Nat := pcs.countP fun | .held | .fsub | .retLock | .retLockFast => true | _ => false

structure RState where
  sh : Sh := {}
  pcs : List Pc
  names : List (String × Var) := []     -- trace object name ↦ model variable
  ptrs : List (Nat × Nat) := []         -- blocker pointer ↦ model blocker id (latest binding first)
  covered : List String := []

def bindVar (st : RState) (name : String) (v : Var) : Except String RState :=
  match st.names.lookup name, st.names.find? (·.2 == v) with
  | some v', _ => if v' == v then pure st else throw s!"object {name} is {repr v'} in the model's view, step expects {repr v}"
  | none, some (n', _) => throw s!"model variable {repr v} already bound to {n'}, trace uses {name}"
  | none, none => pure { st with names := (name, v) :: st.names }

def pcName : Pc → String
  | .idle => "idle" | .tryCas => "tryCas" | .retLockFast => "retLockFast" | .push _ => "push" | .fadd _ => "fadd"
  | .pop _ k => s!"pop/{repr k}" | .unpark1 .. => "unpark1" | .unpark2 .. => "unpark2" | .unpark3 .. => "unpark3"
  | .parkEnter _ => "parkEnter" | .parkWait _ => "parkWait" | .retLock => "retLock" | .held => "held"
  | .callUnlock => "callUnlock" | .fsub => "fsub" | .retUnlock => "retUnlock"

def replayLine (st : RState) (line : String) : Except String RState := do
  let ws := (line.splitOn " ").filter (· ≠ "")
  let some t := ws[0]? >>= String.toNat? | throw s!"bad actor in: {line}"
  let some pc := st.pcs[t]? | throw s!"unknown actor {t}"
  let some (lbl, sh', pc') := tstep st.sh pc | throw s!"actor {t} at {pcName pc}: model step is blocked/stuck, trace has: {line}"
  let fail {α} : Except String α := throw s!"actor {t} at {pcName pc}: model expects {repr lbl}, trace has: {line}"
  let st ← match lbl, ws.drop 1 with
    | .call f, ["call", f'] => if f == f' then pure st else fail
    | .ret f, ["ret", f'] => if f == f' then pure st else fail
    | .atomic v op a a2 r, ["a", name, op', a', a2', "->", r'] =>
        if op == op' ∧ some a == a'.toNat? ∧ some a2 == a2'.toNat? ∧ some r == r'.toNat? then bindVar st name v else fail
    | .qpush b, ["a", name, "q.push", p, _, "->", _] => do
        let some p := p.toNat? | fail
        let st ← bindVar st name .q
        pure { st with ptrs := (p, b) :: st.ptrs }
    | .qpop (some w), ["a", name, "q.pop", _, _, "->", p] => do
        let some p := p.toNat? | fail
        let st ← bindVar st name .q
        if st.ptrs.lookup p == some w then pure st else throw s!"actor {t}: model pops blocker {w}, trace popped pointer {p} = {repr (st.ptrs.lookup p)}"
    | .parkEnter b, ["blk", "park_enter", name, _] => bindVar st name (.tp b)
    | .parkReturn b ok, ["blk", "park_return", name, "->", r] => if (r == "1") == ok then bindVar st name (.tp b) else fail
    | .unpark b, ["blk", "unpark", name] => bindVar st name (.tp b)
    | _, _ => fail
  let st := { st with sh := sh', pcs := st.pcs.set t pc', covered := if st.covered.contains (pcName pc) then st.covered else pcName pc :: st.covered }
  if holders st.pcs > 1 then throw s!"model invariant broken after: {line}" else pure st

partial def loop (h : IO.FS.Stream) (st : RState) (n : Nat) : IO (Except String (RState × Nat)) := do
  let line ← h.getLine
  if line.isEmpty then return .ok (st, n)
  let line := line.trimAscii.toString
  if line.startsWith "scenario" then
    let ws := line.splitOn " "
    let nt := (ws.find? (·.startsWith "threads=")).bind (fun s => (s.drop 8).toString.toNat?) |>.getD 0
    loop h { pcs := List.replicate nt .idle } n
  else match replayLine st line with
    | .ok st' => loop h st' (n + 1)
    | .error e => return .error s!"event #{n + 1}: {e}"

def main : IO UInt32 := do
  let h ← IO.getStdin
  match ← loop h { pcs := [] } 0 with
  | .ok (st, n) => IO.println s!"OK events={n} transitions_covered={st.covered.length} {st.covered}"; return 0
  | .error e => IO.println s!"DIVERGENCE {e}"; return 1

end ReplayProto
def main := ReplayProto.main
