-- throwaway calibration 2: hand-over (exactly one re-post per popped∧aborted blocker), per-blocker ghost phases
namespace Gate5
notation "Tid" => Nat
notation "Bid" => Nat

@[grind] def upd {α : Type} (f : Nat → α) (t : Nat) (v : α) : Nat → α := fun u => if u = t then v else f u

inductive K | toPark (b : Bid) | fin
  deriving DecidableEq, Repr

inductive Pc
  | idle
  | w0load | w0cas (c : Int) | w1push (b : Bid) | w2fsub (b : Bid) | w3pop (k : K)
  | wake1 (w : Bid) (k : K) | wake2 (w : Bid) (k : K) | wake3 (w : Bid) (k : K)
  | w5park (b : Bid) | w6load (b : Bid) | w7set (b : Bid) | w8load (b : Bid) | w9swap (b : Bid)
  | p0fadd (k : K)
  | held
  deriving DecidableEq, Repr

inductive Env | startWait | startPost | abort | go
  deriving DecidableEq, Repr

/-- owner's abort phase / waker's phase, per blocker (ghost) -/
inductive APh | a0 | a1 | a2 | a3 | a4 | a5 deriving DecidableEq, Repr
inductive VPh | v0 | v1 | v2 | v3 | v4 deriving DecidableEq, Repr

structure Sh where
  cnt : Int
  q : List Bid
  tok : Bid → Bool
  unparked : Bid → Bool
  release : Bid → Bool
  nextB : Bid
  -- ghost
  aph : Bid → APh
  vph : Bid → VPh
  duty : Bid → Bool      -- somebody committed to re-post on behalf of this blocker
  dup : Bool             -- a second commitment for the same blocker happened (must stay false)
  FS : Nat
  M : Nat
  pushes : Nat
  pops : Nat
  wk : Bid → Tid         -- ghost: who is waking this blocker

def contK (k : K) : Pc := match k with | .toPark b => .w5park b | .fin => .idle

def tstep (sh : Sh) (me : Tid) : Pc → Env → Option (Sh × Pc)
  | .idle, .startWait => some (sh, .w0load)
  | .idle, .startPost => none        -- mutex discipline: only the holder releases
  | .held, _ => some (sh, .p0fadd .fin)
  | .idle, _ => none
  | .w0load, _ => if sh.cnt > 0 then some (sh, .w0cas sh.cnt) else some ({ sh with nextB := sh.nextB + 1 }, .w1push sh.nextB)
  | .w0cas c, _ =>
      if sh.cnt = c then some ({ sh with cnt := c - 1 }, .held)
      else if sh.cnt > 0 then some (sh, .w0cas sh.cnt)
      else some ({ sh with nextB := sh.nextB + 1 }, .w1push sh.nextB)
  | .w1push b, _ => some ({ sh with q := sh.q ++ [b], pushes := sh.pushes + 1 }, .w2fsub b)
  | .w2fsub b, _ => some ({ sh with cnt := sh.cnt - 1, FS := sh.FS + 1, M := if sh.cnt > 0 then sh.M + 1 else sh.M }, if sh.cnt > 0 then .w3pop (.toPark b) else .w5park b)
  | .w3pop k, _ => match sh.q with
      | [] => none
      | w :: q' => some ({ sh with q := q', vph := upd sh.vph w .v1, pops := sh.pops + 1, wk := upd sh.wk w me }, .wake1 w k)
  | .wake1 w k, _ => some ({ sh with tok := upd sh.tok w true, vph := upd sh.vph w .v2 }, .wake2 w k)
  | .wake2 w k, _ => some ({ sh with unparked := upd sh.unparked w true, vph := upd sh.vph w .v3 }, .wake3 w k)
  | .wake3 w k, _ =>
      some ({ sh with release := upd sh.release w false, vph := upd sh.vph w .v4,
                      duty := if sh.release w then upd sh.duty w true else sh.duty,
                      dup := sh.dup || (sh.release w && sh.duty w) },
            if sh.release w then .p0fadd k else contK k)
  | .w5park b, .abort => some ({ sh with aph := upd sh.aph b .a1 }, .w6load b)
  | .w5park b, _ => if sh.tok b then some ({ sh with tok := upd sh.tok b false }, .held) else none
  | .w6load b, _ =>
      if sh.unparked b then some ({ sh with aph := upd sh.aph b .a5, duty := upd sh.duty b true, dup := sh.dup || sh.duty b }, .p0fadd .fin)
      else some ({ sh with aph := upd sh.aph b .a2 }, .w7set b)
  | .w7set b, _ => some ({ sh with release := upd sh.release b true, aph := upd sh.aph b .a3 }, .w8load b)
  | .w8load b, _ => if sh.unparked b then some ({ sh with aph := upd sh.aph b .a4 }, .w9swap b)
                    else some ({ sh with aph := upd sh.aph b .a5 }, .idle)
  | .w9swap b, _ =>
      some ({ sh with release := upd sh.release b false, aph := upd sh.aph b .a5,
                      duty := if sh.release b then upd sh.duty b true else sh.duty,
                      dup := sh.dup || (sh.release b && sh.duty b) },
            if sh.release b then .p0fadd .fin else .idle)
  | .p0fadd k, _ => some ({ sh with cnt := sh.cnt + 1, M := if sh.cnt < 0 then sh.M + 1 else sh.M }, if sh.cnt < 0 then .w3pop k else contK k)

structure St where
  n : Nat
  sh : Sh
  pcs : Tid → Pc

def step (s : St) (t : Tid) (e : Env) : Option St :=
  if t < s.n then
    match tstep s.sh t (s.pcs t) e with
    | none => none
    | some (sh', pc') => some ⟨s.n, sh', upd s.pcs t pc'⟩
  else none

def init (n : Nat) (i : Nat) : St :=
  ⟨n, ⟨i, [], fun _ => false, fun _ => false, fun _ => false, 0, fun _ => .a0, fun _ => .v0, fun _ => false, false, 0, 0, 0, 0, fun _ => 0⟩, fun _ => .idle⟩

def run (s : St) : List (Tid × Env) → St
  | [] => s
  | (t, e) :: r => match step s t e with
    | some s' => run s' r
    | none => run s r


def cntOf (n : Nat) (p : Pc → Bool) (f : Tid → Pc) : Nat := (List.range n).countP (fun u => p (f u))

theorem cntOf_upd (n : Nat) (p : Pc → Bool) (f : Tid → Pc) (t : Nat) (v : Pc) (ht : t < n) :
    cntOf n p (upd f t v) + (if p (f t) then 1 else 0) = cntOf n p f + (if p v then 1 else 0) := by
  unfold cntOf
  induction n with
  | zero => omega
  | succ k ih =>
    simp only [List.range_succ, List.countP_append, List.countP_cons, List.countP_nil]
    by_cases hk : t = k
    · subst hk
      have : List.countP (fun u => p (upd f t v u)) (List.range t) = List.countP (fun u => p (f u)) (List.range t) := by
        apply List.countP_congr
        intro x hx
        have : x < t := List.mem_range.mp hx
        have : x ≠ t := by omega
        simp [upd, this]
      rw [this]; simp [upd]; split <;> split <;> omega
    · have := ih (by omega)
      have h2 : upd f t v k = f k := by simp [upd]; intro h; omega
      rw [h2]; omega

theorem cntOf_zero_of (n : Nat) (p : Pc → Bool) (f : Tid → Pc) (h : ∀ u, u < n → p (f u) = false) : cntOf n p f = 0 := by
  unfold cntOf
  apply List.countP_eq_zero.mpr
  intro x hx
  simp [h x (List.mem_range.mp hx)]

@[grind] def atFsub : Pc → Bool | .w2fsub _ => true | _ => false
@[grind] def atPop : Pc → Bool | .w3pop _ => true | _ => false

/-- this actor carries the (single) permit -/
@[grind] def carrierA : Pc → Bool
  | .held | .p0fadd _ | .w3pop _ | .wake1 _ _ => true
  | _ => false

/-- blocker owned (as waiter) by an actor at this pc -/
@[grind] def kB : K → Option Bid | .toPark b => some b | .fin => none
@[grind] def owns : Pc → Option Bid
  | .w1push b | .w2fsub b | .w5park b | .w6load b | .w7set b | .w8load b | .w9swap b => some b
  | .w3pop k | .wake1 _ k | .wake2 _ k | .wake3 _ k | .p0fadd k => kB k
  | _ => none
/-- blocker this actor is waking -/
@[grind] def wakes : Pc → Option Bid
  | .wake1 w _ | .wake2 w _ | .wake3 w _ => some w
  | _ => none
/-- the abort phase an owner pc implies -/
@[grind] def aphOf : Pc → Option APh
  | .w6load _ => some .a1 | .w7set _ => some .a2 | .w8load _ => some .a3 | .w9swap _ => some .a4
  | .w1push _ | .w2fsub _ | .w5park _ | .w3pop _ | .wake1 .. | .wake2 .. | .wake3 .. | .p0fadd _ => some .a0
  | _ => none
@[grind] def vphOf : Pc → Option VPh
  | .wake1 .. => some .v1 | .wake2 .. => some .v2 | .wake3 .. => some .v3
  | _ => none
/-- pushed to the queue (for the owner pc) -/
@[grind] def notPushed : Pc → Bool | .w1push _ => true | _ => false

/-- the per-blocker table: which (abort phase, waker phase, unparked, release, duty) combinations are allowed -/
def okB (a : APh) (v : VPh) (unp rel duty : Bool) : Bool :=
  -- unparked is exactly "waker reached v3"
  (unp == (v == .v3 || v == .v4)) &&
  -- release set only by the owner in a3.., cleared by the first swap; never together with duty
  (!rel || ((a == .a3 || a == .a4 || a == .a5) && !duty && (v != .v4 || a == .a3 || a == .a4))) &&
  -- before the owner's first load nothing is committed
  ((a != .a0 && a != .a1 && a != .a2) || (!rel && !duty)) &&
  -- after the owner set release, it stays set until a swap, and the first swap commits
  ((a != .a3 && a != .a4) || rel || duty) &&
  -- a4 only after having seen unparked
  (a != .a4 || unp) &&
  -- duty requires both an abort and a waker at least at v3
  (!duty || ((v == .v3 || v == .v4) && (a == .a5 || a == .a3 || a == .a4))) &&
  -- finished abort without duty: release still set and the waker has not swapped yet
  (a != .a5 || duty || (rel && v != .v4)) &&
  -- finished waker without duty: the owner has not yet got past its own swap
  (v != .v4 || duty || a == .a0 || a == .a1 || a == .a2 || ((a == .a3 || a == .a4) && rel))

structure Inv (s : St) : Prop where
  nodup : s.sh.q.Nodup
  fresh : ∀ (t : Tid) (b : Bid), owns (s.pcs t) = some b → b < s.sh.nextB
  freshW : ∀ (t : Tid) (b : Bid), wakes (s.pcs t) = some b → b < s.sh.nextB
  freshQ : ∀ (b : Bid), b ∈ s.sh.q → b < s.sh.nextB
  virgin : ∀ (b : Bid), s.sh.nextB ≤ b → s.sh.aph b = .a0 ∧ s.sh.vph b = .v0 ∧ s.sh.unparked b = false ∧ s.sh.release b = false ∧ s.sh.duty b = false
  own1 : ∀ (t u : Tid) (b : Bid), owns (s.pcs t) = some b → owns (s.pcs u) = some b → t = u
  wake1 : ∀ (t u : Tid) (b : Bid), wakes (s.pcs t) = some b → wakes (s.pcs u) = some b → t = u
  aphL : ∀ (t : Tid) (b : Bid) (a : APh), owns (s.pcs t) = some b → aphOf (s.pcs t) = some a → s.sh.aph b = a
  vphL : ∀ (t : Tid) (b : Bid) (v : VPh), wakes (s.pcs t) = some b → vphOf (s.pcs t) = some v → s.sh.vph b = v
  inQ : ∀ (b : Bid), b ∈ s.sh.q → s.sh.vph b = .v0
  notQ : ∀ (t : Tid) (b : Bid), owns (s.pcs t) = some b → notPushed (s.pcs t) = true → b ∉ s.sh.q ∧ s.sh.vph b = .v0
  ok : ∀ (b : Bid), okB (s.sh.aph b) (s.sh.vph b) (s.sh.unparked b) (s.sh.release b) (s.sh.duty b) = true
  nodupDuty : s.sh.dup = false
  cb : (s.sh.M : Int) + (if s.sh.cnt < 0 then - s.sh.cnt else 0) = s.sh.FS
  c1 : s.sh.pushes = s.sh.q.length + s.sh.pops
  c2 : s.sh.pushes = s.sh.FS + cntOf s.n atFsub s.pcs
  c3 : s.sh.M = s.sh.pops + cntOf s.n atPop s.pcs
  d : ∀ (t : Tid) (c : Int), s.pcs t = .w0cas c → 0 < c
  n1 : ∀ (t : Tid) (b : Bid), owns (s.pcs t) = some b → notPushed (s.pcs t) = false → b ∈ s.sh.q ∨ s.sh.vph b ≠ .v0
  n2 : ∀ (b : Bid), (s.sh.vph b = .v1 ∨ s.sh.vph b = .v2 ∨ s.sh.vph b = .v3) → wakes (s.pcs (s.sh.wk b)) = some b ∧ s.sh.wk b < s.n
  n3 : ∀ (t : Tid) (b : Bid), owns (s.pcs t) = some b → (s.sh.vph b = .v2 ∨ s.sh.vph b = .v3 ∨ s.sh.vph b = .v4) → s.sh.tok b = true
  n4 : ∀ (b : Bid), s.sh.aph b ≠ .a0 → (s.sh.vph b = .v2 ∨ s.sh.vph b = .v3 ∨ s.sh.vph b = .v4) → s.sh.tok b = true
  n5 : ∀ (b : Bid), s.sh.tok b = true → (s.sh.vph b = .v2 ∨ s.sh.vph b = .v3 ∨ s.sh.vph b = .v4)
  g1 : ∀ (t u : Tid), carrierA (s.pcs t) = true → carrierA (s.pcs u) = true → t = u
  g2 : ∀ (t : Tid) (b : Bid), carrierA (s.pcs t) = true → s.sh.tok b = true → s.sh.duty b = true
  g3 : ∀ (b b' : Bid), s.sh.tok b = true → s.sh.duty b = false → s.sh.tok b' = true → s.sh.duty b' = false → b = b'
  g4 : s.sh.cnt ≤ 1
  g5 : 0 < s.sh.cnt → (∀ (t : Tid), carrierA (s.pcs t) = false) ∧ (∀ (b : Bid), s.sh.tok b = true → s.sh.duty b = true)

theorem inv_init (n i : Nat) (hi : i ≤ 1) : Inv (init n i) := by
  constructor <;> simp [init, owns, wakes, okB, cntOf, atFsub, atPop, carrierA] <;> omega


/-! the per-blocker product automaton: a finite table, checked exhaustively by the kernel -/
structure Tup where
  a : APh
  v : VPh
  unp : Bool
  rel : Bool
  duty : Bool
  deriving DecidableEq, Repr

def Tup.ok (x : Tup) : Bool := okB x.a x.v x.unp x.rel x.duty

/-- local steps; the second component says "a second commitment happened" -/
def lsteps (x : Tup) : List (Tup × Bool) :=
  (if x.v = .v0 then [({ x with v := .v1 }, false)] else []) ++
  (if x.v = .v1 then [({ x with v := .v2 }, false)] else []) ++
  (if x.v = .v2 then [({ x with v := .v3, unp := true }, false)] else []) ++
  (if x.v = .v3 then [({ x with v := .v4, rel := false, duty := x.duty || x.rel }, x.rel && x.duty)] else []) ++
  (if x.a = .a0 then [({ x with a := .a1 }, false)] else []) ++
  (if x.a = .a1 then [(if x.unp then { x with a := .a5, duty := true } else { x with a := .a2 }, x.unp && x.duty)] else []) ++
  (if x.a = .a2 then [({ x with a := .a3, rel := true }, false)] else []) ++
  (if x.a = .a3 then [(if x.unp then { x with a := .a4 } else { x with a := .a5 }, false)] else []) ++
  (if x.a = .a4 then [({ x with a := .a5, rel := false, duty := x.duty || x.rel }, x.rel && x.duty)] else [])

def allA : List APh := [.a0, .a1, .a2, .a3, .a4, .a5]
def allV : List VPh := [.v0, .v1, .v2, .v3, .v4]
def allB : List Bool := [false, true]
def allTup : List Tup := allA.flatMap fun a => allV.flatMap fun v => allB.flatMap fun u => allB.flatMap fun r => allB.map fun d => ⟨a, v, u, r, d⟩

/-- the table is inductive and never commits twice -/
theorem table_inductive : allTup.all (fun x => !x.ok || (lsteps x).all (fun y => y.1.ok && !y.2)) = true := by decide +kernel
theorem table_init : (Tup.ok ⟨.a0, .v0, false, false, false⟩) = true := by decide
/-- hand-over: when both sides are finished, the popped∧aborted blocker carries a commitment -/
theorem table_final : allTup.all (fun x => !x.ok || !(x.a = .a5 && x.v = .v4) || x.duty) = true := by decide +kernel
/-- nobody commits for a blocker that was not both popped (woken) and aborted -/
theorem table_sound : allTup.all (fun x => !x.ok || !x.duty || ((x.v = .v3 || x.v = .v4) && x.a != .a0 && x.a != .a1 && x.a != .a2)) = true := by decide +kernel

/-! local-step lemmas extracted from the table (each by exhaustive `decide`) -/
theorem ok_pop (a : APh) (u r d : Bool) (h : okB a .v0 u r d = true) : okB a .v1 u r d = true := by cases a <;> cases u <;> cases r <;> cases d <;> revert h <;> decide
theorem ok_wake1 (a : APh) (u r d : Bool) (h : okB a .v1 u r d = true) : okB a .v2 u r d = true := by cases a <;> cases u <;> cases r <;> cases d <;> revert h <;> decide
theorem ok_wake2 (a : APh) (u r d : Bool) (h : okB a .v2 u r d = true) : okB a .v3 true r d = true := by cases a <;> cases u <;> cases r <;> cases d <;> revert h <;> decide
theorem ok_wake3 (a : APh) (u r d : Bool) (h : okB a .v3 u r d = true) :
    okB a .v4 u false (if r then true else d) = true ∧ (r && d) = false := by cases a <;> cases u <;> cases r <;> cases d <;> revert h <;> decide
theorem ok_abort (v : VPh) (u r d : Bool) (h : okB .a0 v u r d = true) : okB .a1 v u r d = true := by cases v <;> cases u <;> cases r <;> cases d <;> revert h <;> decide
theorem ok_w6 (v : VPh) (u r d : Bool) (h : okB .a1 v u r d = true) :
    (u = true → okB .a5 v u r true = true ∧ d = false) ∧ (u = false → okB .a2 v u r d = true) := by
  cases v <;> cases u <;> cases r <;> cases d <;> revert h <;> decide
theorem ok_w7 (v : VPh) (u r d : Bool) (h : okB .a2 v u r d = true) : okB .a3 v u true d = true := by cases v <;> cases u <;> cases r <;> cases d <;> revert h <;> decide
theorem ok_w8 (v : VPh) (u r d : Bool) (h : okB .a3 v u r d = true) :
    (u = true → okB .a4 v u r d = true) ∧ (u = false → okB .a5 v u r d = true) := by
  cases v <;> cases u <;> cases r <;> cases d <;> revert h <;> decide
theorem ok_w9 (v : VPh) (u r d : Bool) (h : okB .a4 v u r d = true) :
    okB .a5 v u false (if r then true else d) = true ∧ (r && d) = false := by cases v <;> cases u <;> cases r <;> cases d <;> revert h <;> decide



theorem ok_duty (a : APh) (v : VPh) (u r d : Bool) (h : okB a v u r d = true) (hd : d = true) :
    (v = .v3 ∨ v = .v4) ∧ a ≠ .a0 ∧ a ≠ .a1 ∧ a ≠ .a2 ∧ r = false := by
  cases a <;> cases v <;> cases u <;> cases r <;> cases d <;> revert h <;> simp_all <;> decide
theorem ok_rel (a : APh) (v : VPh) (u r d : Bool) (h : okB a v u r d = true) (hr : r = true) :
    a ≠ .a0 ∧ a ≠ .a1 ∧ a ≠ .a2 ∧ d = false := by
  cases a <;> cases v <;> cases u <;> cases r <;> cases d <;> revert h <;> simp_all <;> decide
theorem ok_unp (a : APh) (v : VPh) (u r d : Bool) (h : okB a v u r d = true) : (u = true ↔ (v = .v3 ∨ v = .v4)) := by
  cases a <;> cases v <;> cases u <;> cases r <;> cases d <;> revert h <;> simp_all <;> decide
theorem ok_pre (a : APh) (v : VPh) (u r d : Bool) (h : okB a v u r d = true) (ha : a = .a0 ∨ a = .a1 ∨ a = .a2) : r = false ∧ d = false := by
  cases a <;> cases v <;> cases u <;> cases r <;> cases d <;> revert h <;> simp_all <;> decide
theorem ok_a4 (a : APh) (v : VPh) (u r d : Bool) (h : okB a v u r d = true) (ha : a = .a4) : u = true := by
  cases a <;> cases v <;> cases u <;> cases r <;> cases d <;> revert h <;> simp_all <;> decide
theorem ok_final (u r d : Bool) (h : okB .a5 .v4 u r d = true) : d = true := by
  cases u <;> cases r <;> cases d <;> revert h <;> decide

attribute [irreducible] okB

theorem wakes_vphOf (pc : Pc) (b : Bid) (h : wakes pc = some b) : vphOf pc = some .v1 ∨ vphOf pc = some .v2 ∨ vphOf pc = some .v3 := by
  cases pc <;> simp_all [wakes, vphOf]


set_option hygiene false in
macro "prep" w:term : tactic => `(tactic|
  (have hokw := hok $w; have hvirw := hvir $w; have hinQw := hinQ $w; have hfqw := hfq $w
   have hvLt := hvL t $w; have haLt := haL t $w; have hfrt := hfr t $w; have hfwt := hfw t $w; have hnq := hnotQ t $w; have hn1t := hn1 t $w; have hn2w := hn2 $w; have hn3t := hn3 t $w; have hn4w := hn4 $w; have hn5w := hn5 $w; have hodw := ok_duty _ _ _ _ _ (hok $w); have horw := ok_rel _ _ _ _ _ (hok $w); have houw := ok_unp _ _ _ _ _ (hok $w); have hopw := ok_pre _ _ _ _ _ (hok $w); have hoa4 := ok_a4 _ _ _ _ _ (hok $w)
   (try simp [hpc, owns, wakes, aphOf, vphOf, notPushed, kB] at hvLt); (try simp [hpc, owns, wakes, aphOf, vphOf, notPushed, kB] at haLt)
   (try simp [hpc, owns, wakes, aphOf, vphOf, notPushed, kB] at hfrt); (try simp [hpc, owns, wakes, aphOf, vphOf, notPushed, kB] at hfwt)
   (try simp [hpc, owns, wakes, aphOf, vphOf, notPushed, kB] at hnq); (try simp [hpc, owns, wakes, aphOf, vphOf, notPushed, kB] at hn1t); (try simp [hpc, owns, wakes, aphOf, vphOf, notPushed, kB] at hn3t)))
set_option hygiene false in
macro "fin" : tactic => `(tactic| (constructor <;> simp only [] <;> grind [List.nodup_append, List.nodup_cons]))
set_option hygiene false in
macro "destruct_hts" : tactic => `(tactic|
  (cases e <;> simp only [tstep, contK] at hts <;> (try contradiction) <;> (repeat' split at hts) <;> (try contradiction) <;>
   (try simp only [Option.some.injEq, Prod.mk.injEq] at hts) <;> obtain ⟨rfl, rfl⟩ := hts))

set_option maxHeartbeats 2000000 in
theorem inv_idle (n : Nat) (sh : Sh) (pcs : Tid → Pc) (t : Tid) (e : Env)  (hlt : t < n)
    (h : Inv ⟨n, sh, pcs⟩) (hpc : pcs t = .idle) (sh' : Sh) (pc' : Pc)
    (hts : tstep sh t .idle e = some (sh', pc')) : Inv ⟨n, sh', upd pcs t pc'⟩ := by
  obtain ⟨hnd, hfr, hfw, hfq, hvir, ho1, hw1, haL, hvL, hinQ, hnotQ, hok, hdup, hcb, hc1, hc2, hc3, hd, hn1, hn2, hn3, hn4, hn5, hg1, hg2, hg3, hg4, hg5⟩ := h
  simp only at hnd hfr hfw hfq hvir ho1 hw1 haL hvL hinQ hnotQ hok hdup hcb hc1 hc2 hc3 hd hn1 hn2 hn3 hn4 hn5 hg1 hg2 hg3 hg4 hg5
  have hdt := hd t
  have hF := fun v => cntOf_upd n atFsub pcs t v hlt
  have hP := fun v => cntOf_upd n atPop pcs t v hlt
  rw [hpc] at hF hP
  simp only [atFsub, atPop] at hF hP
  destruct_hts <;> fin
set_option maxHeartbeats 2000000 in
theorem inv_held (n : Nat) (sh : Sh) (pcs : Tid → Pc) (t : Tid) (e : Env)  (hlt : t < n)
    (h : Inv ⟨n, sh, pcs⟩) (hpc : pcs t = .held) (sh' : Sh) (pc' : Pc)
    (hts : tstep sh t .held e = some (sh', pc')) : Inv ⟨n, sh', upd pcs t pc'⟩ := by
  obtain ⟨hnd, hfr, hfw, hfq, hvir, ho1, hw1, haL, hvL, hinQ, hnotQ, hok, hdup, hcb, hc1, hc2, hc3, hd, hn1, hn2, hn3, hn4, hn5, hg1, hg2, hg3, hg4, hg5⟩ := h
  simp only at hnd hfr hfw hfq hvir ho1 hw1 haL hvL hinQ hnotQ hok hdup hcb hc1 hc2 hc3 hd hn1 hn2 hn3 hn4 hn5 hg1 hg2 hg3 hg4 hg5
  have hdt := hd t
  have hF := fun v => cntOf_upd n atFsub pcs t v hlt
  have hP := fun v => cntOf_upd n atPop pcs t v hlt
  rw [hpc] at hF hP
  simp only [atFsub, atPop] at hF hP
  destruct_hts <;> fin
set_option maxHeartbeats 2000000 in
theorem inv_w0load (n : Nat) (sh : Sh) (pcs : Tid → Pc) (t : Tid) (e : Env)  (hlt : t < n)
    (h : Inv ⟨n, sh, pcs⟩) (hpc : pcs t = .w0load) (sh' : Sh) (pc' : Pc)
    (hts : tstep sh t .w0load e = some (sh', pc')) : Inv ⟨n, sh', upd pcs t pc'⟩ := by
  obtain ⟨hnd, hfr, hfw, hfq, hvir, ho1, hw1, haL, hvL, hinQ, hnotQ, hok, hdup, hcb, hc1, hc2, hc3, hd, hn1, hn2, hn3, hn4, hn5, hg1, hg2, hg3, hg4, hg5⟩ := h
  simp only at hnd hfr hfw hfq hvir ho1 hw1 haL hvL hinQ hnotQ hok hdup hcb hc1 hc2 hc3 hd hn1 hn2 hn3 hn4 hn5 hg1 hg2 hg3 hg4 hg5
  have hdt := hd t
  have hF := fun v => cntOf_upd n atFsub pcs t v hlt
  have hP := fun v => cntOf_upd n atPop pcs t v hlt
  rw [hpc] at hF hP
  simp only [atFsub, atPop] at hF hP
  destruct_hts <;> (have hfrt := hfr t; have hvn := hvir sh.nextB; fin)
set_option maxHeartbeats 2000000 in
theorem inv_w0cas (n : Nat) (sh : Sh) (pcs : Tid → Pc) (t : Tid) (e : Env) (c : Int) (hlt : t < n)
    (h : Inv ⟨n, sh, pcs⟩) (hpc : pcs t = (.w0cas c)) (sh' : Sh) (pc' : Pc)
    (hts : tstep sh t (.w0cas c) e = some (sh', pc')) : Inv ⟨n, sh', upd pcs t pc'⟩ := by
  obtain ⟨hnd, hfr, hfw, hfq, hvir, ho1, hw1, haL, hvL, hinQ, hnotQ, hok, hdup, hcb, hc1, hc2, hc3, hd, hn1, hn2, hn3, hn4, hn5, hg1, hg2, hg3, hg4, hg5⟩ := h
  simp only at hnd hfr hfw hfq hvir ho1 hw1 haL hvL hinQ hnotQ hok hdup hcb hc1 hc2 hc3 hd hn1 hn2 hn3 hn4 hn5 hg1 hg2 hg3 hg4 hg5
  have hdt := hd t
  have hF := fun v => cntOf_upd n atFsub pcs t v hlt
  have hP := fun v => cntOf_upd n atPop pcs t v hlt
  rw [hpc] at hF hP
  simp only [atFsub, atPop] at hF hP
  destruct_hts <;> (have hfrt := hfr t; have hvn := hvir sh.nextB; fin)
set_option maxHeartbeats 2000000 in
theorem inv_w1push (n : Nat) (sh : Sh) (pcs : Tid → Pc) (t : Tid) (e : Env) (b : Bid) (hlt : t < n)
    (h : Inv ⟨n, sh, pcs⟩) (hpc : pcs t = (.w1push b)) (sh' : Sh) (pc' : Pc)
    (hts : tstep sh t (.w1push b) e = some (sh', pc')) : Inv ⟨n, sh', upd pcs t pc'⟩ := by
  obtain ⟨hnd, hfr, hfw, hfq, hvir, ho1, hw1, haL, hvL, hinQ, hnotQ, hok, hdup, hcb, hc1, hc2, hc3, hd, hn1, hn2, hn3, hn4, hn5, hg1, hg2, hg3, hg4, hg5⟩ := h
  simp only at hnd hfr hfw hfq hvir ho1 hw1 haL hvL hinQ hnotQ hok hdup hcb hc1 hc2 hc3 hd hn1 hn2 hn3 hn4 hn5 hg1 hg2 hg3 hg4 hg5
  have hdt := hd t
  have hF := fun v => cntOf_upd n atFsub pcs t v hlt
  have hP := fun v => cntOf_upd n atPop pcs t v hlt
  rw [hpc] at hF hP
  simp only [atFsub, atPop] at hF hP
  destruct_hts <;> (prep b; fin)
set_option maxHeartbeats 2000000 in
theorem inv_w2fsub (n : Nat) (sh : Sh) (pcs : Tid → Pc) (t : Tid) (e : Env) (b : Bid) (hlt : t < n)
    (h : Inv ⟨n, sh, pcs⟩) (hpc : pcs t = (.w2fsub b)) (sh' : Sh) (pc' : Pc)
    (hts : tstep sh t (.w2fsub b) e = some (sh', pc')) : Inv ⟨n, sh', upd pcs t pc'⟩ := by
  obtain ⟨hnd, hfr, hfw, hfq, hvir, ho1, hw1, haL, hvL, hinQ, hnotQ, hok, hdup, hcb, hc1, hc2, hc3, hd, hn1, hn2, hn3, hn4, hn5, hg1, hg2, hg3, hg4, hg5⟩ := h
  simp only at hnd hfr hfw hfq hvir ho1 hw1 haL hvL hinQ hnotQ hok hdup hcb hc1 hc2 hc3 hd hn1 hn2 hn3 hn4 hn5 hg1 hg2 hg3 hg4 hg5
  have hdt := hd t
  have hF := fun v => cntOf_upd n atFsub pcs t v hlt
  have hP := fun v => cntOf_upd n atPop pcs t v hlt
  rw [hpc] at hF hP
  simp only [atFsub, atPop] at hF hP
  destruct_hts <;> (prep b; fin)
set_option maxHeartbeats 2000000 in
theorem inv_w3pop (n : Nat) (sh : Sh) (pcs : Tid → Pc) (t : Tid) (e : Env) (k : K) (hlt : t < n)
    (h : Inv ⟨n, sh, pcs⟩) (hpc : pcs t = (.w3pop k)) (sh' : Sh) (pc' : Pc)
    (hts : tstep sh t (.w3pop k) e = some (sh', pc')) : Inv ⟨n, sh', upd pcs t pc'⟩ := by
  obtain ⟨hnd, hfr, hfw, hfq, hvir, ho1, hw1, haL, hvL, hinQ, hnotQ, hok, hdup, hcb, hc1, hc2, hc3, hd, hn1, hn2, hn3, hn4, hn5, hg1, hg2, hg3, hg4, hg5⟩ := h
  simp only at hnd hfr hfw hfq hvir ho1 hw1 haL hvL hinQ hnotQ hok hdup hcb hc1 hc2 hc3 hd hn1 hn2 hn3 hn4 hn5 hg1 hg2 hg3 hg4 hg5
  have hdt := hd t
  have hF := fun v => cntOf_upd n atFsub pcs t v hlt
  have hP := fun v => cntOf_upd n atPop pcs t v hlt
  rw [hpc] at hF hP
  simp only [atFsub, atPop] at hF hP
  cases e <;> simp only [tstep, contK] at hts <;>
    (split at hts
     · contradiction
     next w q' heq =>
       simp only [Option.some.injEq, Prod.mk.injEq] at hts
       obtain ⟨rfl, rfl⟩ := hts
       have hokw := hok w; have hinQw := hinQ w; have hfqw := hfq w; have hvirw := hvir w
       have hl := ok_pop _ _ _ _ (by rw [hinQw (by simp [heq])] at hokw; exact hokw)
       have hfrt := hfr t; have haLt := haL t
       have hwv := fun u => wakes_vphOf (pcs u) w
       have hvLw := fun u => hvL u w
       have hinw : w ∈ sh.q := by simp [heq]
       have hv0 := hinQw hinw
       fin)
set_option maxHeartbeats 2000000 in
theorem inv_wake1 (n : Nat) (sh : Sh) (pcs : Tid → Pc) (t : Tid) (e : Env) (w : Bid) (k : K) (hlt : t < n)
    (h : Inv ⟨n, sh, pcs⟩) (hpc : pcs t = (.wake1 w k)) (sh' : Sh) (pc' : Pc)
    (hts : tstep sh t (.wake1 w k) e = some (sh', pc')) : Inv ⟨n, sh', upd pcs t pc'⟩ := by
  obtain ⟨hnd, hfr, hfw, hfq, hvir, ho1, hw1, haL, hvL, hinQ, hnotQ, hok, hdup, hcb, hc1, hc2, hc3, hd, hn1, hn2, hn3, hn4, hn5, hg1, hg2, hg3, hg4, hg5⟩ := h
  simp only at hnd hfr hfw hfq hvir ho1 hw1 haL hvL hinQ hnotQ hok hdup hcb hc1 hc2 hc3 hd hn1 hn2 hn3 hn4 hn5 hg1 hg2 hg3 hg4 hg5
  have hdt := hd t
  have hF := fun v => cntOf_upd n atFsub pcs t v hlt
  have hP := fun v => cntOf_upd n atPop pcs t v hlt
  rw [hpc] at hF hP
  simp only [atFsub, atPop] at hF hP
  destruct_hts <;> (prep w; rw [hvLt] at hokw; have hl := ok_wake1 _ _ _ _ hokw; fin)
set_option maxHeartbeats 2000000 in
theorem inv_wake2 (n : Nat) (sh : Sh) (pcs : Tid → Pc) (t : Tid) (e : Env) (w : Bid) (k : K) (hlt : t < n)
    (h : Inv ⟨n, sh, pcs⟩) (hpc : pcs t = (.wake2 w k)) (sh' : Sh) (pc' : Pc)
    (hts : tstep sh t (.wake2 w k) e = some (sh', pc')) : Inv ⟨n, sh', upd pcs t pc'⟩ := by
  obtain ⟨hnd, hfr, hfw, hfq, hvir, ho1, hw1, haL, hvL, hinQ, hnotQ, hok, hdup, hcb, hc1, hc2, hc3, hd, hn1, hn2, hn3, hn4, hn5, hg1, hg2, hg3, hg4, hg5⟩ := h
  simp only at hnd hfr hfw hfq hvir ho1 hw1 haL hvL hinQ hnotQ hok hdup hcb hc1 hc2 hc3 hd hn1 hn2 hn3 hn4 hn5 hg1 hg2 hg3 hg4 hg5
  have hdt := hd t
  have hF := fun v => cntOf_upd n atFsub pcs t v hlt
  have hP := fun v => cntOf_upd n atPop pcs t v hlt
  rw [hpc] at hF hP
  simp only [atFsub, atPop] at hF hP
  destruct_hts <;> (prep w; rw [hvLt] at hokw; have hl := ok_wake2 _ _ _ _ hokw; fin)
set_option maxHeartbeats 2000000 in
theorem inv_wake3 (n : Nat) (sh : Sh) (pcs : Tid → Pc) (t : Tid) (e : Env) (w : Bid) (k : K) (hlt : t < n)
    (h : Inv ⟨n, sh, pcs⟩) (hpc : pcs t = (.wake3 w k)) (sh' : Sh) (pc' : Pc)
    (hts : tstep sh t (.wake3 w k) e = some (sh', pc')) : Inv ⟨n, sh', upd pcs t pc'⟩ := by
  obtain ⟨hnd, hfr, hfw, hfq, hvir, ho1, hw1, haL, hvL, hinQ, hnotQ, hok, hdup, hcb, hc1, hc2, hc3, hd, hn1, hn2, hn3, hn4, hn5, hg1, hg2, hg3, hg4, hg5⟩ := h
  simp only at hnd hfr hfw hfq hvir ho1 hw1 haL hvL hinQ hnotQ hok hdup hcb hc1 hc2 hc3 hd hn1 hn2 hn3 hn4 hn5 hg1 hg2 hg3 hg4 hg5
  have hdt := hd t
  have hF := fun v => cntOf_upd n atFsub pcs t v hlt
  have hP := fun v => cntOf_upd n atPop pcs t v hlt
  rw [hpc] at hF hP
  simp only [atFsub, atPop] at hF hP
  destruct_hts <;> (prep w; rw [hvLt] at hokw; have hl := ok_wake3 _ _ _ _ hokw; fin)
set_option maxHeartbeats 2000000 in
theorem inv_w5park (n : Nat) (sh : Sh) (pcs : Tid → Pc) (t : Tid) (e : Env) (b : Bid) (hlt : t < n)
    (h : Inv ⟨n, sh, pcs⟩) (hpc : pcs t = (.w5park b)) (sh' : Sh) (pc' : Pc)
    (hts : tstep sh t (.w5park b) e = some (sh', pc')) : Inv ⟨n, sh', upd pcs t pc'⟩ := by
  obtain ⟨hnd, hfr, hfw, hfq, hvir, ho1, hw1, haL, hvL, hinQ, hnotQ, hok, hdup, hcb, hc1, hc2, hc3, hd, hn1, hn2, hn3, hn4, hn5, hg1, hg2, hg3, hg4, hg5⟩ := h
  simp only at hnd hfr hfw hfq hvir ho1 hw1 haL hvL hinQ hnotQ hok hdup hcb hc1 hc2 hc3 hd hn1 hn2 hn3 hn4 hn5 hg1 hg2 hg3 hg4 hg5
  have hdt := hd t
  have hF := fun v => cntOf_upd n atFsub pcs t v hlt
  have hP := fun v => cntOf_upd n atPop pcs t v hlt
  rw [hpc] at hF hP
  simp only [atFsub, atPop] at hF hP
  destruct_hts <;> (prep b; (try (rw [haLt] at hokw; have hl := ok_abort _ _ _ _ hokw)); fin)
set_option maxHeartbeats 2000000 in
theorem inv_w6load (n : Nat) (sh : Sh) (pcs : Tid → Pc) (t : Tid) (e : Env) (b : Bid) (hlt : t < n)
    (h : Inv ⟨n, sh, pcs⟩) (hpc : pcs t = (.w6load b)) (sh' : Sh) (pc' : Pc)
    (hts : tstep sh t (.w6load b) e = some (sh', pc')) : Inv ⟨n, sh', upd pcs t pc'⟩ := by
  obtain ⟨hnd, hfr, hfw, hfq, hvir, ho1, hw1, haL, hvL, hinQ, hnotQ, hok, hdup, hcb, hc1, hc2, hc3, hd, hn1, hn2, hn3, hn4, hn5, hg1, hg2, hg3, hg4, hg5⟩ := h
  simp only at hnd hfr hfw hfq hvir ho1 hw1 haL hvL hinQ hnotQ hok hdup hcb hc1 hc2 hc3 hd hn1 hn2 hn3 hn4 hn5 hg1 hg2 hg3 hg4 hg5
  have hdt := hd t
  have hF := fun v => cntOf_upd n atFsub pcs t v hlt
  have hP := fun v => cntOf_upd n atPop pcs t v hlt
  rw [hpc] at hF hP
  simp only [atFsub, atPop] at hF hP
  destruct_hts <;> (prep b; rw [haLt] at hokw; have hl := ok_w6 _ _ _ _ hokw; fin)
set_option maxHeartbeats 2000000 in
theorem inv_w7set (n : Nat) (sh : Sh) (pcs : Tid → Pc) (t : Tid) (e : Env) (b : Bid) (hlt : t < n)
    (h : Inv ⟨n, sh, pcs⟩) (hpc : pcs t = (.w7set b)) (sh' : Sh) (pc' : Pc)
    (hts : tstep sh t (.w7set b) e = some (sh', pc')) : Inv ⟨n, sh', upd pcs t pc'⟩ := by
  obtain ⟨hnd, hfr, hfw, hfq, hvir, ho1, hw1, haL, hvL, hinQ, hnotQ, hok, hdup, hcb, hc1, hc2, hc3, hd, hn1, hn2, hn3, hn4, hn5, hg1, hg2, hg3, hg4, hg5⟩ := h
  simp only at hnd hfr hfw hfq hvir ho1 hw1 haL hvL hinQ hnotQ hok hdup hcb hc1 hc2 hc3 hd hn1 hn2 hn3 hn4 hn5 hg1 hg2 hg3 hg4 hg5
  have hdt := hd t
  have hF := fun v => cntOf_upd n atFsub pcs t v hlt
  have hP := fun v => cntOf_upd n atPop pcs t v hlt
  rw [hpc] at hF hP
  simp only [atFsub, atPop] at hF hP
  destruct_hts <;> (prep b; rw [haLt] at hokw; have hl := ok_w7 _ _ _ _ hokw; fin)
set_option maxHeartbeats 2000000 in
theorem inv_w8load (n : Nat) (sh : Sh) (pcs : Tid → Pc) (t : Tid) (e : Env) (b : Bid) (hlt : t < n)
    (h : Inv ⟨n, sh, pcs⟩) (hpc : pcs t = (.w8load b)) (sh' : Sh) (pc' : Pc)
    (hts : tstep sh t (.w8load b) e = some (sh', pc')) : Inv ⟨n, sh', upd pcs t pc'⟩ := by
  obtain ⟨hnd, hfr, hfw, hfq, hvir, ho1, hw1, haL, hvL, hinQ, hnotQ, hok, hdup, hcb, hc1, hc2, hc3, hd, hn1, hn2, hn3, hn4, hn5, hg1, hg2, hg3, hg4, hg5⟩ := h
  simp only at hnd hfr hfw hfq hvir ho1 hw1 haL hvL hinQ hnotQ hok hdup hcb hc1 hc2 hc3 hd hn1 hn2 hn3 hn4 hn5 hg1 hg2 hg3 hg4 hg5
  have hdt := hd t
  have hF := fun v => cntOf_upd n atFsub pcs t v hlt
  have hP := fun v => cntOf_upd n atPop pcs t v hlt
  rw [hpc] at hF hP
  simp only [atFsub, atPop] at hF hP
  destruct_hts <;> (prep b; rw [haLt] at hokw; have hl := ok_w8 _ _ _ _ hokw; fin)
set_option maxHeartbeats 2000000 in
theorem inv_w9swap (n : Nat) (sh : Sh) (pcs : Tid → Pc) (t : Tid) (e : Env) (b : Bid) (hlt : t < n)
    (h : Inv ⟨n, sh, pcs⟩) (hpc : pcs t = (.w9swap b)) (sh' : Sh) (pc' : Pc)
    (hts : tstep sh t (.w9swap b) e = some (sh', pc')) : Inv ⟨n, sh', upd pcs t pc'⟩ := by
  obtain ⟨hnd, hfr, hfw, hfq, hvir, ho1, hw1, haL, hvL, hinQ, hnotQ, hok, hdup, hcb, hc1, hc2, hc3, hd, hn1, hn2, hn3, hn4, hn5, hg1, hg2, hg3, hg4, hg5⟩ := h
  simp only at hnd hfr hfw hfq hvir ho1 hw1 haL hvL hinQ hnotQ hok hdup hcb hc1 hc2 hc3 hd hn1 hn2 hn3 hn4 hn5 hg1 hg2 hg3 hg4 hg5
  have hdt := hd t
  have hF := fun v => cntOf_upd n atFsub pcs t v hlt
  have hP := fun v => cntOf_upd n atPop pcs t v hlt
  rw [hpc] at hF hP
  simp only [atFsub, atPop] at hF hP
  destruct_hts <;> (prep b; rw [haLt] at hokw; have hl := ok_w9 _ _ _ _ hokw; fin)
set_option maxHeartbeats 2000000 in
theorem inv_p0fadd (n : Nat) (sh : Sh) (pcs : Tid → Pc) (t : Tid) (e : Env) (k : K) (hlt : t < n)
    (h : Inv ⟨n, sh, pcs⟩) (hpc : pcs t = (.p0fadd k)) (sh' : Sh) (pc' : Pc)
    (hts : tstep sh t (.p0fadd k) e = some (sh', pc')) : Inv ⟨n, sh', upd pcs t pc'⟩ := by
  obtain ⟨hnd, hfr, hfw, hfq, hvir, ho1, hw1, haL, hvL, hinQ, hnotQ, hok, hdup, hcb, hc1, hc2, hc3, hd, hn1, hn2, hn3, hn4, hn5, hg1, hg2, hg3, hg4, hg5⟩ := h
  simp only at hnd hfr hfw hfq hvir ho1 hw1 haL hvL hinQ hnotQ hok hdup hcb hc1 hc2 hc3 hd hn1 hn2 hn3 hn4 hn5 hg1 hg2 hg3 hg4 hg5
  have hdt := hd t
  have hF := fun v => cntOf_upd n atFsub pcs t v hlt
  have hP := fun v => cntOf_upd n atPop pcs t v hlt
  rw [hpc] at hF hP
  simp only [atFsub, atPop] at hF hP
  destruct_hts <;> (have hfrt := hfr t; have haLt := haL t; fin)

theorem inv_step (s s' : St) (t : Tid) (e : Env) (h : Inv s) (hs : step s t e = some s') : Inv s' := by
  obtain ⟨n, sh, pcs⟩ := s
  simp only [step] at hs
  split at hs
  case isFalse => contradiction
  next hlt =>
  split at hs
  · contradiction
  next sh' pc' hts =>
  simp only [Option.some.injEq] at hs
  subst hs
  generalize hpc : pcs t = pc at hts
  cases pc with
  | idle  => exact inv_idle n sh pcs t e  hlt h hpc sh' pc' hts
  | w0load  => exact inv_w0load n sh pcs t e  hlt h hpc sh' pc' hts
  | w0cas c => exact inv_w0cas n sh pcs t e c hlt h hpc sh' pc' hts
  | w1push b => exact inv_w1push n sh pcs t e b hlt h hpc sh' pc' hts
  | w2fsub b => exact inv_w2fsub n sh pcs t e b hlt h hpc sh' pc' hts
  | w3pop k => exact inv_w3pop n sh pcs t e k hlt h hpc sh' pc' hts
  | wake1 w k => exact inv_wake1 n sh pcs t e w k hlt h hpc sh' pc' hts
  | wake2 w k => exact inv_wake2 n sh pcs t e w k hlt h hpc sh' pc' hts
  | wake3 w k => exact inv_wake3 n sh pcs t e w k hlt h hpc sh' pc' hts
  | w5park b => exact inv_w5park n sh pcs t e b hlt h hpc sh' pc' hts
  | w6load b => exact inv_w6load n sh pcs t e b hlt h hpc sh' pc' hts
  | w7set b => exact inv_w7set n sh pcs t e b hlt h hpc sh' pc' hts
  | w8load b => exact inv_w8load n sh pcs t e b hlt h hpc sh' pc' hts
  | w9swap b => exact inv_w9swap n sh pcs t e b hlt h hpc sh' pc' hts
  | p0fadd k => exact inv_p0fadd n sh pcs t e k hlt h hpc sh' pc' hts
  | held => exact inv_held n sh pcs t e hlt h hpc sh' pc' hts

theorem inv_run (s : St) (sched : List (Tid × Env)) (h : Inv s) : Inv (run s sched) := by
  induction sched generalizing s with
  | nil => simpa [run]
  | cons te r ih =>
    obtain ⟨t, e⟩ := te
    simp only [run]
    split
    · next s' hs => exact ih _ (inv_step _ _ _ _ h hs)
    · exact ih _ h

/-- hand-over, safety half -/
theorem gate_no_double_repost (n i : Nat) (hi : i ≤ 1) (sched : List (Tid × Env)) : (run (init n i) sched).sh.dup = false :=
  (inv_run _ sched (inv_init n i hi)).nodupDuty

theorem gate_repost_committed (n i : Nat) (hi : i ≤ 1) (sched : List (Tid × Env)) (b : Bid)
    (ha : (run (init n i) sched).sh.aph b = .a5) (hv : (run (init n i) sched).sh.vph b = .v4) :
    (run (init n i) sched).sh.duty b = true := by
  have h := (inv_run _ sched (inv_init n i hi)).ok b
  rw [ha, hv] at h
  exact ok_final _ _ _ h

theorem wakes_not_quiet (pc : Pc) (b : Bid) (h : wakes pc = some b) : pc ≠ .idle ∧ ∀ b', pc ≠ .w5park b' := by
  cases pc <;> simp_all [wakes]

/-- **No stranded waiter** (quiescence form), for every number of actors, initial value and schedule
    (time-outs and cancellations included): if every actor is idle or parked and a permit is free,
    then every parked waiter already holds its wake token, i.e. it is enabled. -/
theorem gate_no_stranded_waiter (n i : Nat) (hi : i ≤ 1) (sched : List (Tid × Env))
    (hq : ∀ t, t < n → (run (init n i) sched).pcs t = .idle ∨ ∃ b, (run (init n i) sched).pcs t = .w5park b)
    (hfree : (run (init n i) sched).sh.cnt > 0) (t : Tid) (ht : t < n) (b : Bid)
    (hp : (run (init n i) sched).pcs t = .w5park b) : (run (init n i) sched).sh.tok b = true := by
  have h := inv_run _ sched (inv_init n i hi)
  have hn : (run (init n i) sched).n = n := by
    have : ∀ (s : St) (l : List (Tid × Env)), (run s l).n = s.n := by
      intro s l
      induction l generalizing s with
      | nil => rfl
      | cons te r ih =>
        obtain ⟨t, e⟩ := te
        simp only [run]
        split
        · next s' hs =>
          rw [ih]
          simp only [step] at hs
          split at hs
          · split at hs
            · contradiction
            · simp only [Option.some.injEq] at hs; subst hs; rfl
          · contradiction
        · exact ih _
    simpa [init] using this (init n i) sched
  generalize run (init n i) sched = s at *
  have hF0 : cntOf s.n atFsub s.pcs = 0 := by
    apply cntOf_zero_of; intro u hu
    rcases hq u (by omega) with h0 | ⟨b', h0⟩ <;> simp [h0, atFsub]
  have hP0 : cntOf s.n atPop s.pcs = 0 := by
    apply cntOf_zero_of; intro u hu
    rcases hq u (by omega) with h0 | ⟨b', h0⟩ <;> simp [h0, atPop]
  have hcb := h.cb; have hc1 := h.c1; have hc2 := h.c2; have hc3 := h.c3
  have hqe : s.sh.q.length = 0 := by
    have : (if s.sh.cnt < 0 then - s.sh.cnt else 0) = 0 := by split <;> omega
    omega
  have hqnil : s.sh.q = [] := List.eq_nil_of_length_eq_zero hqe
  -- b was pushed and is no longer queued, so it was popped
  have hv0 : s.sh.vph b ≠ .v0 := by
    have := h.n1 t b (by simp [hp, owns]) (by simp [hp, notPushed])
    simpa [hqnil] using this
  -- nobody is in the middle of waking it
  have hmid : ¬ (s.sh.vph b = .v1 ∨ s.sh.vph b = .v2 ∨ s.sh.vph b = .v3) := by
    intro hm
    obtain ⟨hw, hwn⟩ := h.n2 b hm
    have hnq := wakes_not_quiet _ _ hw
    rcases hq (s.sh.wk b) (by omega) with h0 | ⟨b', h0⟩
    · exact hnq.1 h0
    · exact hnq.2 b' h0
  have hv4 : s.sh.vph b = .v4 := by
    cases hv : s.sh.vph b <;> simp_all
  exact h.n3 t b (by simp [hp, owns]) (Or.inr (Or.inr hv4))

/-- **Mutual exclusion** of the one-permit gate (= `Mutex`, the inner lock of `RwLock`): for every number of
    threads/coroutines and every schedule, with cancellations at any point, at most one actor holds the lock. -/
theorem mutex_mutual_exclusion (n i : Nat) (hi : i ≤ 1) (sched : List (Tid × Env)) (t u : Tid)
    (ht : (run (init n i) sched).pcs t = .held) (hu : (run (init n i) sched).pcs u = .held) : t = u :=
  (inv_run _ sched (inv_init n i hi)).g1 t u (by simp [ht, carrierA]) (by simp [hu, carrierA])

-- non-vacuity: actor 0 takes the lock on the fast path; actor 1 registers, parks, is handed the lock by 0's unlock
example : (run (init 2 1) [(0, .startWait), (0, .go), (0, .go)]).pcs 0 = .held := by decide
example : (run (init 2 1) [(0, .startWait), (0, .go), (0, .go), (1, .startWait), (1, .go), (1, .go), (1, .go),
    (0, .go), (0, .go), (0, .go), (0, .go), (0, .go), (0, .go), (1, .go)]).pcs 1 = .held := by decide
-- and a cancelled waiter that had been handed the lock passes it on (abort after the token was delivered)
example : (run (init 3 1) [(0, .startWait), (0, .go), (0, .go), (1, .startWait), (1, .go), (1, .go), (1, .go),
    (2, .startWait), (2, .go), (2, .go), (2, .go),
    (0, .go), (0, .go), (0, .go), (0, .go), (0, .go), (0, .go),      -- unlock: pop 1, wake 1
    (1, .abort), (1, .go), (1, .go), (1, .go), (1, .go), (1, .go), (1, .go),  -- 1 is cancelled: sees unparked, re-posts: pop 2, wake 2
    (2, .go)]).pcs 2 = .held := by decide

#print axioms mutex_mutual_exclusion
#print axioms gate_no_double_repost
#print axioms gate_repost_committed
#print axioms gate_no_stranded_waiter
end Gate5
