-- throwaway calibration: generic counted gate (semaphore polarity) with the SyncBlocker hand-over; n actors
namespace Gate
notation "Tid" => Nat
notation "Bid" => Nat

@[grind] def upd {α : Type} (f : Nat → α) (t : Nat) (v : α) : Nat → α := fun u => if u = t then v else f u

/-- where a (possibly nested) post / wake sequence returns to -/
inductive K | toPark (b : Bid) | fin
  deriving DecidableEq, Repr

inductive Pc
  | idle
  | w0load | w0cas (c : Int) | w1push (b : Bid) | w2fsub (b : Bid) | w3pop (k : K)
  | wake1 (w : Bid) (k : K) | wake2 (w : Bid) (k : K) | wake3 (w : Bid) (k : K)
  | w5park (b : Bid) | w6load (b : Bid) | w7set (b : Bid) | w8load (b : Bid) | w9swap (b : Bid)
  | p0fadd (k : K)
  deriving DecidableEq, Repr

/-- what the environment decides for a step: which operation an idle actor starts, whether a parked actor aborts -/
inductive Env | startWait | startPost | abort | go
  deriving DecidableEq, Repr

structure Sh where
  cnt : Int
  q : List Bid
  tok : Bid → Bool
  unparked : Bid → Bool
  release : Bid → Bool
  nextB : Bid
  -- ghost counters
  FA : Nat
  FS : Nat
  CAS : Nat
  M : Nat
  pushes : Nat
  pops : Nat

def tstep (sh : Sh) : Pc → Env → Option (Sh × Pc)
  | .idle, .startWait => some (sh, .w0load)
  | .idle, .startPost => some (sh, .p0fadd .fin)
  | .idle, _ => none
  | .w0load, _ => some (sh, if sh.cnt > 0 then .w0cas sh.cnt else .w1push sh.nextB) |>.map fun (s, pc) =>
      (match pc with | .w1push _ => { s with nextB := s.nextB + 1 } | _ => s, pc)
  | .w0cas c, _ =>
      if sh.cnt = c then some ({ sh with cnt := c - 1, CAS := sh.CAS + 1 }, .idle)          -- success: wait returns true
      else if sh.cnt > 0 then some (sh, .w0cas sh.cnt)
      else some ({ sh with nextB := sh.nextB + 1 }, .w1push sh.nextB)
  | .w1push b, _ => some ({ sh with q := sh.q ++ [b], pushes := sh.pushes + 1 }, .w2fsub b)
  | .w2fsub b, _ =>
      some ({ sh with cnt := sh.cnt - 1, FS := sh.FS + 1, M := if sh.cnt > 0 then sh.M + 1 else sh.M },
            if sh.cnt > 0 then .w3pop (.toPark b) else .w5park b)
  | .w3pop k, _ => match sh.q with
      | [] => none                                   -- expect("got null blocker!")
      | w :: q' => some ({ sh with q := q', pops := sh.pops + 1 }, .wake1 w k)
  | .wake1 w k, _ => some ({ sh with tok := upd sh.tok w true }, .wake2 w k)
  | .wake2 w k, _ => some ({ sh with unparked := upd sh.unparked w true }, .wake3 w k)
  | .wake3 w k, _ =>
      some ({ sh with release := upd sh.release w false },
            if sh.release w then .p0fadd k else match k with | .toPark b => .w5park b | .fin => .idle)
  | .w5park b, .abort => some (sh, .w6load b)
  | .w5park b, _ => if sh.tok b then some ({ sh with tok := upd sh.tok b false }, .idle) else none
  | .w6load b, _ => some (sh, if sh.unparked b then .p0fadd .fin else .w7set b)
  | .w7set b, _ => some ({ sh with release := upd sh.release b true }, .w8load b)
  | .w8load b, _ => some (sh, if sh.unparked b then .w9swap b else .idle)
  | .w9swap b, _ => some ({ sh with release := upd sh.release b false }, if sh.release b then .p0fadd .fin else .idle)
  | .p0fadd k, _ =>
      some ({ sh with cnt := sh.cnt + 1, FA := sh.FA + 1, M := if sh.cnt < 0 then sh.M + 1 else sh.M },
            if sh.cnt < 0 then .w3pop k else match k with | .toPark b => .w5park b | .fin => .idle)

structure St where
  n : Nat
  sh : Sh
  pcs : Tid → Pc

def step (s : St) (t : Tid) (e : Env) : Option St :=
  if t < s.n then
    match tstep s.sh (s.pcs t) e with
    | none => none
    | some (sh', pc') => some ⟨s.n, sh', upd s.pcs t pc'⟩
  else none

def init (n : Nat) (i : Nat) : St :=
  ⟨n, ⟨i, [], fun _ => false, fun _ => false, fun _ => false, 0, 0, 0, 0, 0, 0, 0⟩, fun _ => .idle⟩

def run (s : St) : List (Tid × Env) → St
  | [] => s
  | (t, e) :: r => match step s t e with
    | some s' => run s' r
    | none => run s r

/-! counting -/
def cntOf (n : Nat) (p : Pc → Bool) (f : Tid → Pc) : Nat := (List.range n).countP (fun u => p (f u))

theorem cntOf_upd (n : Nat) (p : Pc → Bool) (f : Tid → Pc) (t : Nat) (v : Pc) (ht : t < n) :
    cntOf n p (upd f t v) + (if p (f t) then 1 else 0) = cntOf n p f + (if p v then 1 else 0) := by
  unfold cntOf
  induction n with
  | zero => omega
  | succ k ih =>
    simp only [List.range_succ, List.countP_append, List.countP_cons, List.countP_nil]
    by_cases hk : t = k
    · subst hk
      have : List.countP (fun u => p (upd f t v u)) (List.range t) = List.countP (fun u => p (f u)) (List.range t) := by
        apply List.countP_congr
        intro x hx
        have : x < t := List.mem_range.mp hx
        have : x ≠ t := by omega
        simp [upd, this]
      rw [this]; simp [upd]; split <;> split <;> omega
    · have := ih (by omega)
      have h2 : upd f t v k = f k := by simp [upd]; intro h; omega
      rw [h2]; omega

@[grind] def atFsub : Pc → Bool | .w2fsub _ => true | _ => false
@[grind] def atPop : Pc → Bool | .w3pop _ => true | _ => false

/-- the counter invariants of Appendix A (1–3) -/
structure InvC (i : Nat) (s : St) : Prop where
  a : s.sh.cnt = (i : Int) + s.sh.FA - s.sh.FS - s.sh.CAS
  b : (s.sh.M : Int) + (if s.sh.cnt < 0 then - s.sh.cnt else 0) = s.sh.FS
  c1 : s.sh.pushes = s.sh.q.length + s.sh.pops
  c2 : s.sh.pushes = s.sh.FS + cntOf s.n atFsub s.pcs
  c3 : s.sh.M = s.sh.pops + cntOf s.n atPop s.pcs
  d : ∀ (t : Tid) (c : Int), s.pcs t = .w0cas c → 0 < c

theorem invC_init (n i : Nat) : InvC i (init n i) := by
  constructor <;> simp [init, cntOf, atFsub, atPop]
  omega

set_option maxHeartbeats 1600000 in
theorem invC_step (i : Nat) (s s' : St) (t : Tid) (e : Env) (h : InvC i s) (hs : step s t e = some s') : InvC i s' := by
  obtain ⟨n, sh, pcs⟩ := s
  simp only [step] at hs
  split at hs
  case isFalse => contradiction
  next hlt =>
  split at hs
  · contradiction
  next sh' pc' hts =>
  simp only [Option.some.injEq] at hs
  subst hs
  obtain ⟨ha, hb, hc1, hc2, hc3, hd⟩ := h
  simp only at ha hb hc1 hc2 hc3 hd hlt
  have hdt := hd t
  have hF := fun v => cntOf_upd n atFsub pcs t v hlt
  have hP := fun v => cntOf_upd n atPop pcs t v hlt
  generalize hpc : pcs t = pc at hts hF hP
  cases pc <;> cases e <;> simp only [tstep, Option.map] at hts <;>
    (try contradiction) <;> (repeat' split at hts) <;> (try contradiction) <;>
    simp only [Option.some.injEq, Prod.mk.injEq] at hts <;>
    obtain ⟨rfl, rfl⟩ := hts <;>
    constructor <;> simp only [] <;> grind


theorem cntOf_pos_of (n : Nat) (p : Pc → Bool) (f : Tid → Pc) (t : Nat) (ht : t < n) (hp : p (f t) = true) : 1 ≤ cntOf n p f := by
  unfold cntOf
  exact List.countP_pos_iff.mpr ⟨t, List.mem_range.mpr ht, by simpa using hp⟩

theorem invC_run (i : Nat) (s : St) (sched : List (Tid × Env)) (h : InvC i s) : InvC i (run s sched) := by
  induction sched generalizing s with
  | nil => simpa [run]
  | cons te r ih =>
    obtain ⟨t, e⟩ := te
    simp only [run]
    split
    · next s' hs => exact ih _ (invC_step i _ _ _ _ h hs)
    · exact ih _ h

/-- `expect("got null blocker!")` never fires: whenever an actor is about to pop, the waiter queue is non-empty.
    For every number of actors, every initial value, every schedule and every pattern of time-outs/cancels. -/
theorem gate_pop_never_empty (n i : Nat) (sched : List (Tid × Env)) (t : Tid) (ht : t < n)
    (hp : atPop ((run (init n i) sched).pcs t) = true) : (run (init n i) sched).sh.q ≠ [] := by
  have h := invC_run i _ sched (invC_init n i)
  have hn : (run (init n i) sched).n = n := by
    have : ∀ (s : St) (l : List (Tid × Env)), (run s l).n = s.n := by
      intro s l
      induction l generalizing s with
      | nil => rfl
      | cons te r ih =>
        obtain ⟨t, e⟩ := te
        simp only [run]
        split
        · next s' hs =>
          rw [ih]
          simp only [step] at hs
          split at hs
          · split at hs
            · contradiction
            · simp only [Option.some.injEq] at hs; subst hs; rfl
          · contradiction
        · exact ih _
    simpa [init] using this (init n i) sched
  generalize run (init n i) sched = s at *
  obtain ⟨ha, hb, hc1, hc2, hc3, hd⟩ := h
  have h1 := cntOf_pos_of s.n atPop s.pcs t (by omega) hp
  intro hq
  have : s.sh.q.length = 0 := by simp [hq]
  have hN : (0 : Int) ≤ (if s.sh.cnt < 0 then - s.sh.cnt else 0) := by split <;> omega
  omega

-- non-vacuity: a schedule in which a pop is actually reached (actor 0 registers while actor 1 posts)
example : atPop ((run (init 2 0) [(0, .startWait), (0, .go), (0, .go), (1, .startPost), (1, .go), (0, .go)]).pcs 0) = true := by
  decide

#print axioms gate_pop_never_empty
end Gate
