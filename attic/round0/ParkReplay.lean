-- throwaway prototype: replay of a live-mode trace in the Park model (one parker c1, unparkers, no timer/cancel)
namespace ParkReplay

inductive PPc   -- user side of the parker
  | idle | u0load | u0store | u0swap | u1load | yieldNow | u2store | switchOut | susp (next : Nat) -- next: 0 = resume into U4, 1 = resume into yield-back of yield_now
  | u4flag | u4clear (k : Nat) | u5load | u5store | u5swap | retPark | done
  deriving Repr, DecidableEq

inductive KPc   -- kernel tail (Park::subscribe) of the current park yield
  | none | k0 | k1 | k2 | k3 | k4take | k4nested | k5 | k6 | fin
  deriving Repr, DecidableEq

inductive VPc | idle | v0 | v1 | ret deriving Repr, DecidableEq

inductive CoLoc | running | withK | slot | takenBy (a : String) | queued deriving Repr, DecidableEq

structure St where
  state : Bool := false
  waitKernel : Bool := false
  timeout : Nat := 0
  loc : CoLoc := .queued
  p : PPc := .idle
  k : KPc := .none
  v : List (String × VPc) := []
  rounds : Nat := 0
  covered : List String := []
  deriving Repr

def vget (st : St) (a : String) : VPc := (st.v.lookup a).getD .idle
def vset (st : St) (a : String) (pc : VPc) : St := { st with v := (a, pc) :: st.v.filter (·.1 ≠ a) }

/-- classify trace objects by construction site (the translator would produce this table from the source) -/
def role (obj : String) : String :=
  if obj.startsWith "park.rs:54#" then "state" else if obj.startsWith "park.rs:53#" then "wait_co"
  else if obj.startsWith "park.rs:58#" then "wait_kernel" else if obj.startsWith "park.rs:55#" then "check_cancel"
  else if obj.startsWith "atomic_dur.rs:" then "timeout" else if obj.startsWith "cancel.rs:14#" then "cancel_io"
  else if obj.startsWith "cancel.rs:" then "cancel_co" else "other"

def b2n (b : Bool) : Nat := if b then 1 else 0

/-- one step of actor `a` that must match the event (role, op, arg, res); returns the new state or an explanation -/
def stepEvent (st : St) (a : String) (r op : String) (arg res : Nat) : Except String St :=
  let bad {α} (pc : String) : Except String α := throw s!"{a} at {pc}: trace has {r}.{op} {arg} -> {res}, state={st.state} wk={st.waitKernel} loc={repr st.loc}"
  if a == "c1" then
    if st.loc ≠ .running then bad s!"(not running) {repr st.p}" else
    match st.p, r, op with
    | .u0load, "state", "load" => if res == b2n st.state then pure { st with p := if st.state then .u0store else .u0swap } else bad "u0load"
    | .u0store, "state", "store" => if arg == 0 then pure { st with state := false, p := .retPark } else bad "u0store"
    | .u0swap, "state", "swap" => if arg == 0 ∧ res == b2n st.state then pure { st with state := false, p := if st.state then .retPark else .u1load } else bad "u0swap"
    | .u1load, "wait_kernel", "load" => if res == b2n st.waitKernel then pure { st with p := if st.waitKernel then .yieldNow else .u2store } else bad "u1load"
    | .u2store, "timeout", "store" => pure { st with timeout := arg, p := .switchOut }
    | .u4flag, "check_cancel", "load" => pure { st with p := .u4clear 0 }
    | .u4clear k, "cancel_io", "opt.take" => pure { st with p := if k == 0 then .u5load else .u1load }
    | .u5load, "state", "load" => if res == b2n st.state then pure { st with p := if st.state then .u5store else .u5swap } else bad "u5load"
    | .u5store, "state", "store" => pure { st with state := false, p := .retPark }
    | .u5swap, "state", "swap" => if res == b2n st.state then pure { st with state := false, p := .retPark } else bad "u5swap"
    | pc, _, _ => bad (reprStr pc)
  else if a == "k:c1" then
    match st.k, r, op with
    | .k0, "timeout", "swap" => if res == st.timeout then pure { st with timeout := 0, k := .k1 } else bad "k0"
    | .k1, "wait_kernel", "store" => if arg == 1 then pure { st with waitKernel := true, k := .k2 } else bad "k1"
    | .k2, "wait_co", "opt.store" => if st.loc == .withK then pure { st with loc := .slot, k := .k3 } else bad "k2"
    | .k3, "state", "load" => if res == b2n st.state then pure { st with k := if st.state then .k4take else .k5 } else bad "k3"
    | .k4take, "wait_co", "opt.take" =>
        if res == b2n (st.loc == .slot) then pure { st with loc := if st.loc == .slot then .takenBy "k:c1" else st.loc, k := if st.loc == .slot then .k4nested else .k6 } else bad "k4take"
    | .k5, "cancel_co", "opt.store" => pure { st with k := .k6 }
    | .k6, "wait_kernel", "store" => if arg == 0 then pure { st with waitKernel := false, k := .fin } else bad "k6"
    | pc, _, _ => bad (reprStr pc)
  else  -- an unparker (any other actor touching the park)
    match vget st a, r, op with
    | .v0, "state", "swap" => if arg == 1 ∧ res == b2n st.state then pure (vset { st with state := true } a (if st.state then .ret else .v1)) else bad "v0"
    | .v1, "wait_co", "opt.take" =>
        if res == b2n (st.loc == .slot) then pure (vset { st with loc := if st.loc == .slot then .queued else st.loc } a .ret) else bad "v1"
    | .idle, "wait_kernel", "load" => pure st   -- Park::drop by the last handle owner
    | pc, _, _ => bad (reprStr pc)

def stepNote (st : St) (a kind what : String) : Except String St :=
  let bad {α} (m : String) : Except String α := throw s!"{a}: note {kind} {what}: {m}; p={repr st.p} k={repr st.k} loc={repr st.loc}"
  match kind, what with
  | "mark", "call park" => if a == "c1" ∧ st.p == .idle ∧ st.loc == .running then pure { st with p := .u0load } else bad "unexpected"
  | "mark", "ret park" => if a == "c1" ∧ st.p == .retPark then pure { st with p := .idle, rounds := st.rounds + 1 } else bad "park returned where the model does not return"
  | "mark", "call unpark" => if vget st a == .idle ∨ vget st a == .ret then pure (vset st a .v0) else bad "unexpected"
  | "mark", "ret unpark" => if vget st a == .ret then pure (vset st a .idle) else bad "unpark returned early"
  | "resume_enter", "c1" =>
      -- whoever resumes must hold the coroutine: it was scheduled (queued) or taken by the nested self-wake
      if st.loc == .queued ∨ st.loc == .takenBy a then
        let p := match st.p with | .susp 0 => PPc.u4flag | .susp _ => PPc.u4clear 1 | p => p
        pure { st with loc := .running, p := p, k := if st.k == .k4nested then .k4nested else st.k }
      else bad "resume of a coroutine the resumer does not hold"
  | "resume_leave", "c1" =>
      match st.p with
      | .switchOut => if st.k == .none ∨ st.k == .fin then pure { st with loc := .withK, p := .susp 0, k := .k0 } else bad "park yield while previous kernel tail active"
      | .yieldNow => pure { st with loc := .queued, p := .susp 1 }       -- Yield::subscribe re-queues
      | .idle => pure { st with loc := .queued, p := .done }             -- closure finished
      | _ => bad "coroutine left its stack at an unexpected point"
  | "subscribe_leave", _ => pure { st with k := if st.k == .k4nested then .k6 else st.k }
  | _, _ => pure st

def replayLine (st : St) (line : String) : Except String St := do
  let ws := (line.splitOn " ").filter (· ≠ "")
  match ws with
  | a :: "a" :: obj :: op :: arg :: _ :: "->" :: res :: _ =>
      let r := role obj
      if r == "other" then pure st else
      let some arg := arg.toNat? | throw "bad arg"
      let some res := res.toNat? | throw "bad res"
      let st' ← stepEvent st a r op arg res
      let key := s!"{a}/{r}.{op}"
      pure { st' with covered := if st'.covered.contains key then st'.covered else key :: st'.covered }
  | a :: "n" :: kind :: rest => stepNote st a kind (" ".intercalate rest)
  | _ => throw s!"unparsable: {line}"

partial def loop (h : IO.FS.Stream) (st : St) (n : Nat) : IO (Except String (St × Nat)) := do
  let line ← h.getLine
  if line.isEmpty then return .ok (st, n)
  let line := line.trimAscii.toString
  if line.startsWith "scenario" then loop h st n
  else match replayLine st line with
    | .ok st' => loop h st' (n + 1)
    | .error e => return .error s!"event #{n + 1} `{line}`: {e}"

def main : IO UInt32 := do
  match ← loop (← IO.getStdin) {} 0 with
  | .ok (st, n) =>
      if st.p == .done then IO.println s!"OK events={n} rounds={st.rounds} covered={st.covered.length}"; return 0
      else IO.println s!"INCOMPLETE events={n} p={repr st.p} k={repr st.k} loc={repr st.loc} state={st.state} (parker stuck? model says enabled={decide (st.loc == .queued)})"; return 2
  | .error e => IO.println s!"DIVERGENCE {e}"; return 1
end ParkReplay
def main := ParkReplay.main
