//! the one `#[global_allocator]` of the harness binary: a pass-through to the system allocator with two switches that
//! scenario families turn on for the time they run (both off by default):
//! * `RECYCLE_ON` (family mq_spmc, C04): eager LIFO re-use of freed 32-byte-aligned blocks (real ABA);
//! * `QUARANTINE_ON` (family mq_tl, C19): small freed blocks are leaked, never re-used (use-after-free / double-free oracle).
use std::sync::atomic::{AtomicUsize, Ordering};

// ---------------------------------------------------------------- eager address re-use (real ABA)
// glibc does not hand a freed 32-byte-aligned chunk out again soon, so stale head words would never meet a
// re-used block address in real runs. While a scenario of this family is being run, allocations with the
// alignment of a queue block (32) are served LIFO from the blocks of the same size freed last; everything else
// (and every other family) goes straight to the system allocator.
// ---------------------------------------------------------------- quarantine (use-after-free / double-free oracles)
// While `QUARANTINE_ON` is set (family mq_tl, C19) small freed blocks are neither re-used nor given back to the system
// allocator, so an access to a list node after its `free` note, or a second free of it, is harmless for the harness and can
// be reported from the event log. Off by default; the two switches are never on at the same time (one family per process).
pub static QUARANTINE_ON: std::sync::atomic::AtomicBool = std::sync::atomic::AtomicBool::new(false);
const QUARANTINE_MAX: usize = 256;

pub struct Recycler;
pub static RECYCLE_ON: std::sync::atomic::AtomicBool = std::sync::atomic::AtomicBool::new(false);
static RLOCK: std::sync::atomic::AtomicBool = std::sync::atomic::AtomicBool::new(false);
const RCAP: usize = 64;
static RPTR: [AtomicUsize; RCAP] = [const { AtomicUsize::new(0) }; RCAP];
static RSZ: [AtomicUsize; RCAP] = [const { AtomicUsize::new(0) }; RCAP];
static RLEN: AtomicUsize = AtomicUsize::new(0);
fn rlock() {
    while RLOCK.compare_exchange(false, true, Ordering::Acquire, Ordering::Relaxed).is_err() {
        std::hint::spin_loop();
    }
}
unsafe impl std::alloc::GlobalAlloc for Recycler {
    unsafe fn alloc(&self, l: std::alloc::Layout) -> *mut u8 {
        if l.align() == 32 && RECYCLE_ON.load(Ordering::Relaxed) {
            rlock();
            let n = RLEN.load(Ordering::Relaxed);
            let mut found = 0usize;
            let mut i = n;
            while i > 0 {
                i -= 1;
                if RSZ[i].load(Ordering::Relaxed) == l.size() {
                    found = RPTR[i].load(Ordering::Relaxed);
                    // remove entry i, keep the order of the others
                    for j in i..n - 1 {
                        RPTR[j].store(RPTR[j + 1].load(Ordering::Relaxed), Ordering::Relaxed);
                        RSZ[j].store(RSZ[j + 1].load(Ordering::Relaxed), Ordering::Relaxed);
                    }
                    RLEN.store(n - 1, Ordering::Relaxed);
                    break;
                }
            }
            RLOCK.store(false, Ordering::Release);
            if found != 0 {
                return found as *mut u8;
            }
        }
        std::alloc::System.alloc(l)
    }
    unsafe fn dealloc(&self, p: *mut u8, l: std::alloc::Layout) {
        if QUARANTINE_ON.load(Ordering::Relaxed) && l.size() <= QUARANTINE_MAX {
            return; // leaked on purpose: the block stays "freed" (never re-used) for the rest of the process
        }
        if l.align() == 32 && RECYCLE_ON.load(Ordering::Relaxed) {
            rlock();
            let n = RLEN.load(Ordering::Relaxed);
            let room = n < RCAP;
            if room {
                RPTR[n].store(p as usize, Ordering::Relaxed);
                RSZ[n].store(l.size(), Ordering::Relaxed);
                RLEN.store(n + 1, Ordering::Relaxed);
            }
            RLOCK.store(false, Ordering::Release);
            if room {
                return;
            }
        }
        std::alloc::System.dealloc(p, l)
    }
}
#[global_allocator]
static GLOBAL: Recycler = Recycler;
