//! C11: may::sync::WaitGroup in thread context (det mode)
//!
//! The trace contains the hooked accesses to the counter under its lock (`sync.wait_group.count`, filter
//! `sync/wait_group.rs`) next to the mutex / condvar / blocker events.
//! Every thread starts with 1-2 handles of one group (cloned before the run), may clone more, drops handles, and
//! ends by dropping its last handle or by `wait()`ing with it (thread 0 always waits). Oracle (independent of the
//! model): when a `wait` returns, every other handle has at least started its drop (`outstanding == 0`); every
//! wait does return (deadlock detector).
use super::Built;
use crate::rt::{call, ret, Actor, Rng};
use may::sync::WaitGroup;
use std::sync::atomic::{AtomicIsize, AtomicUsize, Ordering};
use std::sync::Arc;

#[derive(Clone, Copy, Debug)]
enum Op {
    Clone,
    Drop,
    Wait,
}

pub fn build(rng: &mut Rng, tier: u32) -> Built {
    let nt = 2 + rng.below(if tier > 0 { 4 } else { 3 }) as usize;
    let wg0 = WaitGroup::new();
    let outstanding = Arc::new(AtomicIsize::new(0));
    let early = Arc::new(AtomicUsize::new(0));
    let waits_done = Arc::new(AtomicUsize::new(0));
    let mut waits_planned = 0usize;
    let mut names = vec![];
    let mut actors: Vec<Actor> = vec![];
    let mut hs = vec![];
    let mut desc = vec![];
    let mut first = Some(wg0);
    for t in 0..nt {
        let h0 = 1 + rng.below(2) as usize;
        // the handles this thread starts with (the very first one is the original)
        let mut mine: Vec<WaitGroup> = vec![];
        for _ in 0..h0 {
            match first.take() {
                Some(w) => {
                    mine.push(w.clone());
                    first = Some(w);
                }
                None => unreachable!(),
            }
        }
        hs.push(h0);
        // plan: some clones and drops, all handles gone at the end; the last one is dropped or waited on
        let mut ops = vec![];
        let mut have = h0;
        let extra = rng.below(if tier > 0 { 3 } else { 2 }) as usize;
        let mut clones_left = extra;
        while have > 1 || clones_left > 0 {
            if clones_left > 0 && (have == 1 || rng.chance(500)) {
                ops.push(Op::Clone);
                have += 1;
                clones_left -= 1;
            } else {
                ops.push(Op::Drop);
                have -= 1;
            }
        }
        if t == 0 || rng.chance(400) {
            ops.push(Op::Wait);
            waits_planned += 1;
        } else {
            ops.push(Op::Drop);
        }
        desc.push(ops.iter().map(|o| match o { Op::Clone => 'c', Op::Drop => 'd', Op::Wait => 'w' }).collect::<String>());
        outstanding.fetch_add(h0 as isize, Ordering::SeqCst);
        names.push(format!("t{t}"));
        let (outstanding, early, waits_done) = (outstanding.clone(), early.clone(), waits_done.clone());
        actors.push(Box::new(move || {
            let mut mine = mine;
            for op in ops {
                match op {
                    Op::Clone => {
                        outstanding.fetch_add(1, Ordering::SeqCst);
                        call("wg.clone", 0, 0);
                        let w = mine[0].clone();
                        ret("wg.clone", 0);
                        mine.push(w);
                    }
                    Op::Drop => {
                        let w = mine.pop().unwrap();
                        outstanding.fetch_sub(1, Ordering::SeqCst);
                        call("wg.drop", 0, 0);
                        drop(w);
                        ret("wg.drop", 0);
                    }
                    Op::Wait => {
                        let w = mine.pop().unwrap();
                        outstanding.fetch_sub(1, Ordering::SeqCst);
                        call("wg.wait", 0, 0);
                        w.wait();
                        if outstanding.load(Ordering::SeqCst) != 0 {
                            early.fetch_add(1, Ordering::SeqCst);
                        }
                        waits_done.fetch_add(1, Ordering::SeqCst);
                        ret("wg.wait", 0);
                    }
                }
            }
        }));
    }
    // the original handle is dropped before the run (not an actor: no events); the clones keep the group alive
    drop(first.take());
    Built {
        header: format!(
            "family=waitgroup actors={} handles={} ops={}",
            nt,
            hs.iter().map(|h| h.to_string()).collect::<Vec<_>>().join(","),
            desc.join(",")
        ),
        names,
        actors,
        check: Box::new(move |r| {
            let mut v = vec![];
            if early.load(Ordering::SeqCst) > 0 {
                v.push(format!("early return: {} waits returned while another handle had not been dropped", early.load(Ordering::SeqCst)));
            }
            if r.deadlock.is_none() && !r.budget_exceeded && r.panics.is_empty() && waits_done.load(Ordering::SeqCst) != waits_planned {
                v.push(format!("missing return: {} of {} waits returned", waits_done.load(Ordering::SeqCst), waits_planned));
            }
            v
        }),
        filter: vec!["sync/condvar.rs", "sync/mutex.rs", "sync/blocking.rs", "sync/wait_group.rs"],
        timeout_permille: 0,
    }
}
