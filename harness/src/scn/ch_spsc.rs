//! C06 / C07: may::sync::spsc with thread endpoints (det mode)
//!
//! One sender actor and one receiver actor (spsc has no clone). The sender runs 0..k sends and drops the Sender; the
//! receiver runs a seeded list of try_recv / recv and ends with a drain (`recv` until Disconnected, i.e. the
//! iterator) or with an early drop of the Receiver (then later sends must fail and the leftovers are dropped by the
//! drain of `drop_port` / with the queue). A gated variant keeps the Sender alive until the receiver has got
//! everything, so that a lost wake-up shows as a deadlock.
//! The thread path of spsc blocks with `std::thread::park()`: the hooks of /verif/pending_hooks/wp-chan.patch make it
//! the controller's virtual park (`tp@Thread<k>`); without them a blocking `recv` would stop the whole controller,
//! so the family then falls back to non-blocking receivers (`try_recv` polling) and says so in the header.
use super::ch_util::*;
use super::Built;
use crate::rt::{call, ret, Actor, Rng};
use may::sync::{spsc, Blocker};
use std::sync::atomic::{AtomicBool, Ordering};
use std::sync::mpsc::TryRecvError;
use std::sync::{Arc, Mutex as StdMutex};

#[derive(Clone, Copy, Debug, PartialEq)]
enum Op {
    Send,
    DropTx,
    TryRecv,
    Recv,
    Drain,
    /// poll with try_recv until Disconnected (the fallback without the park hook)
    Poll,
    DropRx,
    GateWait,
    GateOpen,
}

fn letter(o: Op) -> char {
    match o {
        Op::Send => 's',
        Op::DropTx => 'x',
        Op::TryRecv => 't',
        Op::Recv => 'r',
        Op::Drain => 'D',
        Op::Poll => 'P',
        Op::DropRx => 'X',
        Op::GateWait => 'g',
        Op::GateOpen => 'G',
    }
}

/// are the `std::thread::park` hooks of wp-chan.patch in the tree this binary was built from? The source must have
/// them AND must not be newer than this executable (a tree patched after the build means a binary without the hook:
/// a blocking `recv` would then really park and stop the whole controller)
fn has_park_hook() -> bool {
    let repo = std::env::var("VERIF_REPO").unwrap_or_else(|_| "/repo".into());
    let src = format!("{repo}/src/sync/spsc.rs");
    let hooked = std::fs::read_to_string(&src).map(|s| s.contains("verif::thread_park")).unwrap_or(false);
    let mtime = |p: &std::path::Path| std::fs::metadata(p).and_then(|m| m.modified()).ok();
    let fresh = match (std::env::current_exe().ok().and_then(|e| mtime(&e)), mtime(std::path::Path::new(&src))) {
        (Some(exe), Some(s)) => s <= exe,
        _ => false,
    };
    hooked && fresh
}

pub fn build(rng: &mut Rng, tier: u32) -> Built {
    reset_drops();
    let hooked = has_park_hook();
    let txa = rng.below(2) as usize; // the actor that holds the Sender
    let rxa = 1 - txa;
    let max_ops = if tier > 0 { 8 } else { 4 };
    let (tx0, rx0) = spsc::channel::<Msg>();
    let hist: Hist = Arc::new(StdMutex::new(vec![]));
    let rx_gone = Arc::new(AtomicBool::new(false));
    let created = Arc::new(StdMutex::new(Vec::<usize>::new()));
    let gated = hooked && rng.chance(350);
    let gate = Arc::new(Blocker::new(false));
    let bulk = if tier > 0 && rng.chance(120) { 60 + rng.below(80) as usize } else { 0 };
    let nsend = rng.below(max_ops + 1) as usize + bulk;
    let mut tx_ops = vec![Op::Send; nsend];
    if gated {
        tx_ops.push(Op::GateWait);
    }
    tx_ops.push(Op::DropTx);
    let mut rx_ops = vec![];
    let mut drain = false;
    if gated {
        rx_ops = vec![Op::Recv; nsend];
        rx_ops.extend([Op::GateOpen, Op::Drain, Op::TryRecv, Op::DropRx]);
        drain = true;
    } else {
        for _ in 0..1 + rng.below(max_ops) {
            rx_ops.push(if !hooked || rng.chance(400) { Op::TryRecv } else { Op::Recv });
        }
        if rng.chance(750) {
            drain = true;
            rx_ops.push(if hooked { Op::Drain } else { Op::Poll });
            rx_ops.push(Op::TryRecv);
        }
        rx_ops.push(Op::DropRx);
    }
    let mut actors: Vec<Actor> = vec![];
    let mut names = vec![];
    let mut desc = vec![String::new(), String::new()];
    let mut tx_slot = Some(tx0);
    let mut rx_slot = Some(rx0);
    for a in 0..2 {
        let ops = if a == txa { tx_ops.clone() } else { rx_ops.clone() };
        desc[a] = ops.iter().map(|o| letter(*o)).collect::<String>();
        let mut tx = if a == txa { tx_slot.take() } else { None };
        let mut rx = if a == rxa { rx_slot.take() } else { None };
        let (hist, rx_gone, created, gate) = (hist.clone(), rx_gone.clone(), created.clone(), gate.clone());
        names.push(format!("t{a}"));
        actors.push(Box::new(move || {
            let mut seq = 0usize;
            let recv_code = |r: Result<Msg, u64>| -> u64 {
                match r {
                    Ok(m) => m.0 as u64, // the message is dropped here, by its receiver
                    Err(c) => c,
                }
            };
            for op in ops {
                match op {
                    Op::Send => {
                        seq += 1;
                        let id = msg_id(a, seq);
                        created.lock().unwrap().push(id);
                        let gone = rx_gone.load(Ordering::SeqCst);
                        call("chan.send", id as u64, 0);
                        match tx.as_ref().unwrap().send(Msg(id)) {
                            Ok(()) => {
                                record(&hist, a, What::SendOk(id, gone));
                                ret("chan.send", 1);
                            }
                            Err(e) => {
                                record(&hist, a, What::SendErr(id, e.0 .0));
                                ret("chan.send", 0);
                            }
                        }
                    }
                    Op::DropTx => {
                        call("chan.drop_tx", 0, 0);
                        drop(tx.take());
                        ret("chan.drop_tx", 0);
                    }
                    Op::TryRecv => {
                        call("chan.try_recv", 0, 0);
                        let c = recv_code(rx.as_ref().unwrap().try_recv().map_err(|e| match e {
                            TryRecvError::Empty => R_EMPTY,
                            TryRecvError::Disconnected => R_DISC,
                        }));
                        record(&hist, a, What::Recv(0, c));
                        ret("chan.try_recv", c);
                    }
                    Op::Recv => {
                        call("chan.recv", 0, 0);
                        let c = recv_code(rx.as_ref().unwrap().recv().map_err(|_| R_DISC));
                        record(&hist, a, What::Recv(1, c));
                        ret("chan.recv", c);
                    }
                    Op::Drain => loop {
                        call("chan.recv", 0, 0);
                        let c = recv_code(rx.as_ref().unwrap().recv().map_err(|_| R_DISC));
                        record(&hist, a, What::Recv(1, c));
                        ret("chan.recv", c);
                        if c == R_DISC {
                            break;
                        }
                    },
                    Op::Poll => loop {
                        call("chan.try_recv", 0, 0);
                        let c = recv_code(rx.as_ref().unwrap().try_recv().map_err(|e| match e {
                            TryRecvError::Empty => R_EMPTY,
                            TryRecvError::Disconnected => R_DISC,
                        }));
                        record(&hist, a, What::Recv(0, c));
                        ret("chan.try_recv", c);
                        if c == R_DISC {
                            break;
                        }
                    },
                    Op::DropRx => {
                        call("chan.drop_rx", 0, 0);
                        drop(rx.take());
                        rx_gone.store(true, Ordering::SeqCst);
                        record(&hist, a, What::RxDropped);
                        ret("chan.drop_rx", 0);
                    }
                    Op::GateWait => {
                        if nsend > 0 {
                            gate.park(None).ok();
                        }
                    }
                    Op::GateOpen => gate.unpark(),
                }
            }
            assert!(tx.is_none() && rx.is_none());
        }));
    }
    let header = format!(
        "family=ch_spsc actors=2 tx={} rx={} hooked={} ops={}",
        txa,
        rxa,
        hooked as u8,
        desc.join(",")
    );
    Built {
        header,
        names,
        actors,
        check: Box::new(move |r| {
            let c = created.lock().unwrap().clone();
            check_history(r, &hist, &c, drain)
        }),
        filter: vec!["sync/spsc.rs"],
        timeout_permille: 0,
    }
}
