//! C08 (iii): the REAL `TimerThread::<usize>::run` against concurrent `add_timer` / `del_timer` (det mode).
//!
//! Actor `t0` runs `run(&handler)`; its `thread::park()` / `park_timeout(d)` and the `unpark()` of the handle taken
//! out of `wakeup` go through the controller's virtual park token (cfg(may_verif) twin of `std::thread` in
//! src/timeout_list.rs): a parked timer thread is schedulable only when its token is set, a timed park may also
//! time out, which moves the virtual clock by exactly the parked duration (nobody else moves the clock here, so
//! that is the expiry it computed). `t1..` call `add_timer` (new earliest, same interval, later) and `del_timer`.
//! The run ends through the cfg-only `verif_stop`: by the handler when the last expected timer fired and all
//! adders are done, or by the last adder to finish if nothing is pending.
//!
//! Oracles (virtual time, independent of the model):
//!   * never early / at most once: a handler runs at clock `V >= deadline`, once
//!   * no lost wake-up, exact: a timer whose `add_timer` returned at clock `C` fires at `V <= max(deadline, C)` -
//!     the clock only moves when a timed park of the timer thread expires, so `V` beyond that means the timer thread
//!     slept past a deadline it had been told about. Excused only when some `add_timer` / `del_timer` call was in
//!     flight when the clock passed the deadline (the controller may fire a time-out while an adder is preempted
//!     between `wakeup.take()` and `unpark()` or in the middle of installing its list: the quiescence form of the
//!     property does not apply there), and for the two-clock-reads skew inside one interval
//!   * every timer that was not deleted fires; a timer thread parked for ever with timers pending is the
//!     controller's deadlock report
use super::Built;
use crate::rt::{call, clock, ret, Actor, Rng};
use may::verif::export::{TimeoutHandle, TimerThread};
use std::sync::atomic::{AtomicUsize, Ordering};
use std::sync::{Arc, Mutex};
use std::time::Duration;

#[derive(Clone, Debug)]
enum Rec {
    AddCall { id: usize, deadline: u64, interval: u64 },
    AddRet { id: usize, clock: u64 },
    Del { id: usize, clock: u64 },
    DelRet { id: usize, clock: u64 },
    Fire { id: usize, clock: u64 },
}

#[derive(Clone, Copy, Debug)]
enum Op {
    Add(u64),
    Del(usize),
}

struct Shared {
    tt: TimerThread<usize>,
    log: Mutex<Vec<Rec>>,
    adders_left: AtomicUsize,
}
unsafe impl Sync for Shared {}
unsafe impl Send for Shared {}

impl Shared {
    /// every timer that was added and not deleted has fired
    fn all_fired(&self) -> bool {
        let log = self.log.lock().unwrap();
        let mut pending: Vec<usize> = vec![];
        for r in log.iter() {
            match r {
                Rec::AddCall { id, .. } => pending.push(*id),
                Rec::Del { id, .. } | Rec::Fire { id, .. } => pending.retain(|i| i != id),
                _ => {}
            }
        }
        pending.is_empty()
    }
}

pub fn build(rng: &mut Rng, tier: u32) -> Built {
    let nadd = 1 + rng.below(if tier > 0 { 3 } else { 2 }) as usize;
    let max_ops = if tier > 0 { 4 } else { 2 };
    // a few intervals (ns): equal ones share a list, the smaller ones are "new earliest" when added late
    let palette: Vec<u64> = {
        let base = [1_000u64, 2_000, 2_000, 3_000, 5_000, 1_500, 4_000];
        let k = 2 + rng.below(3) as usize;
        (0..k).map(|_| base[rng.below(base.len() as u64) as usize]).collect()
    };
    let sh = Arc::new(Shared {
        tt: TimerThread::new(),
        log: Mutex::new(vec![]),
        adders_left: AtomicUsize::new(nadd),
    });
    let mut names = vec!["t0".to_string()];
    let mut actors: Vec<Actor> = vec![];
    // the timer thread
    let sh0 = sh.clone();
    actors.push(Box::new(move || {
        let sh = sh0;
        let shf = sh.clone();
        let f = move |id: usize| {
            let v = clock().unwrap_or(0);
            call("tt.fire", id as u64, v);
            shf.log.lock().unwrap().push(Rec::Fire { id, clock: v });
            if shf.adders_left.load(Ordering::SeqCst) == 0 && shf.all_fired() {
                // nothing left to wait for: end the thread (it is inside schedule_timer: set its own park token too)
                shf.tt.verif_stop(true);
            }
        };
        call("tt.run", 0, 0);
        sh.tt.run(&f);
        ret("tt.run", 0);
    }));
    let mut next_id = 1usize;
    let mut total = 0usize;
    for t in 0..nadd {
        let n = 1 + rng.below(max_ops) as usize;
        let mut ops = vec![];
        let mut adds = 0usize;
        for _ in 0..n {
            if adds > 0 && rng.chance(250) {
                ops.push(Op::Del(rng.below(adds as u64) as usize));
            } else {
                ops.push(Op::Add(palette[rng.below(palette.len() as u64) as usize]));
                adds += 1;
            }
        }
        total += adds;
        names.push(format!("t{}", t + 1));
        let sh = sh.clone();
        let id0 = next_id;
        next_id += adds;
        actors.push(Box::new(move || {
            let mut hs: Vec<Option<(usize, TimeoutHandle<usize>)>> = vec![];
            let mut id = id0;
            for op in ops {
                match op {
                    Op::Add(d) => {
                        let now = clock().unwrap_or(0);
                        sh.log.lock().unwrap().push(Rec::AddCall { id, deadline: now + d, interval: d });
                        call("tt.add", d, id as u64);
                        let h = sh.tt.add_timer(Duration::from_nanos(d), id);
                        ret("tt.add", 0);
                        sh.log.lock().unwrap().push(Rec::AddRet { id, clock: clock().unwrap_or(0) });
                        hs.push(Some((id, h)));
                        id += 1;
                    }
                    Op::Del(k) => {
                        if let Some((did, h)) = hs.get_mut(k).and_then(|x| x.take()) {
                            sh.log.lock().unwrap().push(Rec::Del { id: did, clock: clock().unwrap_or(0) });
                            call("tt.del", did as u64, 0);
                            sh.tt.del_timer(h);
                            ret("tt.del", 0);
                            sh.log.lock().unwrap().push(Rec::DelRet { id: did, clock: clock().unwrap_or(0) });
                        }
                    }
                }
            }
            drop(hs);
            if sh.adders_left.fetch_sub(1, Ordering::SeqCst) == 1 && sh.all_fired() {
                // last adder, nothing pending: stop the timer thread and wake it
                call("tt.stop", 0, 0);
                sh.tt.verif_stop(true);
                ret("tt.stop", 0);
            }
        }));
    }
    let shc = sh.clone();
    Built {
        header: format!("family=timer_thread actors={} timers={}", nadd + 1, total),
        names,
        actors,
        check: Box::new(move |r| {
            let mut v = vec![];
            let log = shc.log.lock().unwrap().clone();
            #[derive(Clone, Copy)]
            struct E {
                dl: u64,
                iv: u64,
                call: usize,
                ret: Option<(usize, u64)>,
                fired: bool,
                deleted: bool,
            }
            let mut st: std::collections::BTreeMap<usize, E> = Default::default();
            for (k, rec) in log.iter().enumerate() {
                match rec {
                    Rec::AddCall { id, deadline, interval } => {
                        st.insert(*id, E { dl: *deadline, iv: *interval, call: k, ret: None, fired: false, deleted: false });
                    }
                    Rec::AddRet { id, clock } => st.get_mut(id).unwrap().ret = Some((k, *clock)),
                    Rec::Del { id, .. } => st.get_mut(id).unwrap().deleted = true,
                    Rec::DelRet { .. } => {}
                    Rec::Fire { id, clock } => {
                        let Some(x) = st.get(id).copied() else {
                            v.push(format!("handler ran for an unknown timer {id}"));
                            continue;
                        };
                        if *clock < x.dl {
                            v.push(format!("timer fired early: timer {id} (deadline {}) fired at clock {clock}", x.dl));
                        }
                        if x.fired {
                            v.push(format!("timer fired twice: timer {id}"));
                        }
                        if let Some((rk, rc)) = x.ret {
                            let mut limit = x.dl.max(rc);
                            // clock skew inside one interval: an entry y possibly queued ahead of x (its add was called
                            // before x's returned) with a LATER deadline (it read the clock after x did) holds x back
                            for (yid, y) in st.iter() {
                                if yid != id && y.iv == x.iv && y.call < rk && y.dl > x.dl {
                                    limit = limit.max(y.dl);
                                }
                            }
                            if *clock > limit {
                                // where did the clock pass the deadline? between record j-1 and j (first record after the
                                // add's return that carries a clock beyond the limit)
                                let clk = |r: &Rec| match r {
                                    Rec::AddCall { deadline, interval, .. } => deadline - interval,
                                    Rec::AddRet { clock, .. } | Rec::Del { clock, .. } | Rec::DelRet { clock, .. } | Rec::Fire { clock, .. } => *clock,
                                };
                                let j = (rk + 1..log.len()).find(|&i| clk(&log[i]) > limit).unwrap_or(k);
                                // any add_timer / del_timer call in flight across that moment?
                                let mut open: Vec<usize> = vec![];
                                for r in &log[..j] {
                                    match r {
                                        Rec::AddCall { id, .. } => open.push(*id),
                                        Rec::AddRet { id, .. } => open.retain(|i| i != id),
                                        Rec::Del { id, .. } => open.push(usize::MAX - *id),
                                        Rec::DelRet { id, .. } => open.retain(|i| *i != usize::MAX - *id),
                                        _ => {}
                                    }
                                }
                                if open.is_empty() {
                                    v.push(format!(
                                        "lost wake-up: timer {id} (deadline {}, add_timer returned at clock {rc}) fired only at clock {clock}: the timer thread slept {} ns past a deadline it had been told about, with no add_timer/del_timer in flight",
                                        x.dl,
                                        clock - limit
                                    ));
                                }
                            }
                        }
                        st.get_mut(id).unwrap().fired = true;
                    }
                }
            }
            let unfired: Vec<String> = st
                .iter()
                .filter(|(_, x)| !x.fired && !x.deleted && x.ret.is_some())
                .map(|(i, x)| format!("{i}(deadline {})", x.dl))
                .collect();
            if !unfired.is_empty() {
                if r.deadlock.is_some() {
                    v.push(format!(
                        "lost wake-up: the timer thread is parked for ever although timers are pending: {}",
                        unfired.join(", ")
                    ));
                } else if !r.budget_exceeded && r.panics.is_empty() {
                    v.push(format!("timers never fired: {}", unfired.join(", ")));
                }
            }
            v.truncate(6);
            v
        }),
        filter: vec!["timeout_list.rs"],
        timeout_permille: 60,
    }
}
