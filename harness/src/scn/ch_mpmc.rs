//! C06 / C07: may::sync::mpmc with thread endpoints (det mode)
//!
//! 1..3 sender actors and 1..3 receiver actors (a receiver actor may hold a Sender as well, which it drops before it
//! blocks). The channel and the initial handles are created by the (untraced) set-up; the header tells the model who
//! holds what. Every actor runs a seeded op list: send / clone / drop of Sender handles, try_recv / recv /
//! recv_timeout (virtual time-outs) / clone / drop of Receiver handles at arbitrary positions, a final drain (`recv`
//! until Disconnected) or an early drop of the Receivers. `sync/semphore.rs` is NOT in the filter: the semaphore is
//! the counted gate of C10 at this layer, visible through the `sem.*` schedule points of mpmc.rs and the virtual
//! park / unpark of its blockers. A correct channel never deadlocks here: every sender actor finishes and drops all
//! its handles, after which every receiver must come back with Disconnected.
use super::ch_util::*;
use super::Built;
use crate::rt::{call, ret, Actor, Rng};
use may::sync::{mpmc, Blocker};
use std::sync::atomic::{AtomicUsize, Ordering};
use std::sync::mpsc::{RecvTimeoutError, TryRecvError};
use std::sync::{Arc, Mutex as StdMutex};
use std::time::Duration;

#[derive(Clone, Copy, Debug, PartialEq)]
enum Op {
    Send,
    Clone,
    DropTx,
    TryRecv,
    Recv,
    RecvTimeout,
    CloneRx,
    DropRx,
    Drain,
    /// harness gate (not a channel operation): wait until the receivers have got everything that was sent
    GateWait,
}

fn letter(o: Op) -> char {
    match o {
        Op::Send => 's',
        Op::Clone => 'c',
        Op::DropTx => 'x',
        Op::TryRecv => 't',
        Op::Recv => 'r',
        Op::RecvTimeout => 'w',
        Op::CloneRx => 'C',
        Op::DropRx => 'X',
        Op::Drain => 'D',
        Op::GateWait => 'g',
    }
}

/// op list of an actor that starts with `h` Sender handles: ends with all of them dropped
fn sender_ops(rng: &mut Rng, mut h: usize, n: usize, bulk: usize, gated: bool) -> Vec<Op> {
    let mut ops = vec![];
    for _ in 0..n {
        if h == 0 {
            break;
        }
        let c = rng.below(100);
        if c < 60 {
            ops.push(Op::Send);
        } else if c < 80 && h < 3 {
            ops.push(Op::Clone);
            h += 1;
        } else if c >= 80 && (!gated || h > 1) {
            ops.push(Op::DropTx);
            h -= 1;
        } else {
            ops.push(Op::Send);
        }
    }
    if h > 0 {
        for _ in 0..bulk {
            ops.push(Op::Send);
        }
    }
    if gated {
        ops.push(Op::GateWait);
    }
    for _ in 0..h {
        ops.push(Op::DropTx);
    }
    ops
}

pub fn build(rng: &mut Rng, tier: u32) -> Built {
    build_with(rng, tier, None)
}

/// `forced`: (senders, receivers) of the regression corpus scenarios (F4: one sender that only drops, k receivers that only `recv`)
pub fn build_with(rng: &mut Rng, tier: u32, forced: Option<(usize, usize)>) -> Built {
    reset_drops();
    let (ns, nr) = match forced {
        Some(x) => x,
        None => (1 + rng.below(if tier > 0 { 3 } else { 2 }) as usize, 1 + rng.below(3) as usize),
    };
    let na = ns + nr;
    let max_ops = if tier > 0 { 6 } else { 3 };
    let (tx0, rx0) = mpmc::channel::<Msg>();
    let hist: Hist = Arc::new(StdMutex::new(vec![]));
    let rx_live = Arc::new(AtomicUsize::new(nr)); // receiver handles that exist (oracle bookkeeping, not hooked)
    let created = Arc::new(StdMutex::new(Vec::<usize>::new()));
    let got = Arc::new(AtomicUsize::new(0));
    // roles in a seeded order
    let mut is_rx = vec![false; na];
    {
        let mut left = nr;
        while left > 0 {
            let a = rng.below(na as u64) as usize;
            if !is_rx[a] {
                is_rx[a] = true;
                left -= 1;
            }
        }
    }
    // gated variant: every sender keeps a handle until the receivers have received everything, so a lost wake-up
    // cannot be masked by the wake-up of the last Sender's drop: it shows as a deadlock
    let gated = forced.is_none() && rng.chance(350);
    let gates: Vec<Arc<Blocker>> = (0..na).map(|_| Arc::new(Blocker::new(false))).collect();
    let bulk_actor = if tier > 0 && rng.chance(150) { Some(rng.below(na as u64) as usize) } else { None };
    let mut all_ops: Vec<Vec<Op>> = vec![];
    let mut txh = vec![];
    let mut total_sends = 0usize;
    let mut any_drain = false;
    for a in 0..na {
        let h0 = if forced.is_some() {
            (!is_rx[a]) as usize
        } else if is_rx[a] {
            (!gated && rng.chance(200)) as usize
        } else {
            1
        };
        txh.push(h0);
        let bulk = if bulk_actor == Some(a) && h0 > 0 { 60 + rng.below(20) as usize } else { 0 };
        let nops = if forced.is_some() { 0 } else { 1 + rng.below(max_ops) as usize };
        let mut ops = if forced.is_some() && h0 > 0 {
            vec![Op::DropTx]
        } else if h0 > 0 {
            sender_ops(rng, h0, nops, bulk, gated)
        } else {
            vec![]
        };
        total_sends += ops.iter().filter(|o| **o == Op::Send).count();
        if is_rx[a] && forced.is_some() {
            ops = vec![Op::Recv, Op::DropRx];
        } else if is_rx[a] && gated {
            any_drain = true;
            ops = vec![Op::Drain, Op::TryRecv, Op::DropRx];
        } else if is_rx[a] {
            let mut mixed = vec![];
            for o in ops {
                if rng.chance(300) {
                    mixed.push(Op::TryRecv);
                }
                mixed.push(o);
            }
            ops = mixed;
            let mut h = 1usize;
            for _ in 0..1 + rng.below(max_ops) {
                let c = rng.below(100);
                ops.push(if c < 25 {
                    Op::TryRecv
                } else if c < 55 {
                    Op::Recv
                } else if c < 80 {
                    Op::RecvTimeout
                } else if c < 90 && h < 3 {
                    h += 1;
                    Op::CloneRx
                } else if h > 1 {
                    h -= 1;
                    Op::DropRx
                } else {
                    Op::TryRecv
                });
            }
            if rng.chance(750) {
                any_drain = true;
                ops.push(Op::Drain);
                ops.push(Op::TryRecv);
            }
            for _ in 0..h {
                ops.push(Op::DropRx);
            }
        }
        all_ops.push(ops);
    }
    let mut actors: Vec<Actor> = vec![];
    let mut names = vec![];
    let mut desc = vec![];
    let mut rxh = vec![];
    for (a, ops) in all_ops.into_iter().enumerate() {
        desc.push(ops.iter().map(|o| letter(*o)).collect::<String>());
        let mut txs: Vec<mpmc::Sender<Msg>> = (0..txh[a]).map(|_| tx0.clone()).collect();
        let mut rxs: Vec<mpmc::Receiver<Msg>> = if is_rx[a] { vec![rx0.clone()] } else { vec![] };
        rxh.push(rxs.len());
        let (hist, rx_live, created, gates, got) = (hist.clone(), rx_live.clone(), created.clone(), gates.clone(), got.clone());
        names.push(format!("t{a}"));
        actors.push(Box::new(move || {
            let mut seq = 0usize;
            let recv_code = |r: Result<Msg, u64>| -> u64 {
                match r {
                    Ok(m) => m.0 as u64, // the message is dropped here, by its receiver
                    Err(c) => c,
                }
            };
            // every received value is counted; whoever receives the last one of a gated scenario opens the gates
            let count = |c: u64| {
                if c < R_TMO && got.fetch_add(1, Ordering::SeqCst) + 1 == total_sends && gated {
                    for g in gates.iter() {
                        g.unpark();
                    }
                }
            };
            for op in ops {
                match op {
                    Op::Send => {
                        seq += 1;
                        let id = msg_id(a, seq);
                        created.lock().unwrap().push(id);
                        let gone = rx_live.load(Ordering::SeqCst) == 0;
                        call("chan.send", id as u64, 0);
                        match txs[0].send(Msg(id)) {
                            Ok(()) => {
                                record(&hist, a, What::SendOk(id, gone));
                                ret("chan.send", 1);
                            }
                            Err(e) => {
                                record(&hist, a, What::SendErr(id, e.0 .0));
                                ret("chan.send", 0);
                            }
                        }
                    }
                    Op::Clone => {
                        call("chan.clone", 0, 0);
                        let t = txs[0].clone();
                        txs.push(t);
                        ret("chan.clone", 0);
                    }
                    Op::DropTx => {
                        call("chan.drop_tx", 0, 0);
                        drop(txs.pop());
                        ret("chan.drop_tx", 0);
                    }
                    Op::CloneRx => {
                        rx_live.fetch_add(1, Ordering::SeqCst);
                        call("chan.clone_rx", 0, 0);
                        let r = rxs[0].clone();
                        rxs.push(r);
                        ret("chan.clone_rx", 0);
                    }
                    Op::DropRx => {
                        call("chan.drop_rx", 0, 0);
                        drop(rxs.pop());
                        rx_live.fetch_sub(1, Ordering::SeqCst);
                        record(&hist, a, What::RxDropped);
                        ret("chan.drop_rx", 0);
                    }
                    Op::TryRecv => {
                        call("chan.try_recv", 0, 0);
                        let c = recv_code(rxs[0].try_recv().map_err(|e| match e {
                            TryRecvError::Empty => R_EMPTY,
                            TryRecvError::Disconnected => R_DISC,
                        }));
                        record(&hist, a, What::Recv(0, c));
                        ret("chan.try_recv", c);
                        count(c);
                    }
                    Op::Recv => {
                        call("chan.recv", 0, 0);
                        let c = recv_code(rxs[0].recv().map_err(|_| R_DISC));
                        record(&hist, a, What::Recv(1, c));
                        ret("chan.recv", c);
                        count(c);
                    }
                    Op::RecvTimeout => {
                        call("chan.recv_timeout", 0, 0);
                        let c = recv_code(rxs[0].recv_timeout(Duration::from_nanos(1)).map_err(|e| match e {
                            RecvTimeoutError::Timeout => R_TMO,
                            RecvTimeoutError::Disconnected => R_DISC,
                        }));
                        record(&hist, a, What::Recv(2, c));
                        ret("chan.recv_timeout", c);
                        count(c);
                    }
                    Op::Drain => loop {
                        call("chan.recv", 0, 0);
                        let c = recv_code(rxs[0].recv().map_err(|_| R_DISC));
                        record(&hist, a, What::Recv(1, c));
                        ret("chan.recv", c);
                        count(c);
                        if c == R_DISC {
                            break;
                        }
                    },
                    Op::GateWait => {
                        if total_sends > 0 {
                            gates[a].park(None).ok();
                        }
                    }
                }
            }
            assert!(txs.is_empty() && rxs.is_empty());
        }));
    }
    drop(tx0); // untraced: the model starts with the handle counts of the header
    drop(rx0);
    let header = format!(
        "family=ch_mpmc actors={} tx={} rx={} ops={}",
        na,
        txh.iter().map(|h| h.to_string()).collect::<Vec<_>>().join("."),
        rxh.iter().map(|h| h.to_string()).collect::<Vec<_>>().join("."),
        desc.join(",")
    );
    Built {
        header,
        names,
        actors,
        check: Box::new(move |r| {
            let c = created.lock().unwrap().clone();
            check_history(r, &hist, &c, any_drain)
        }),
        filter: vec!["sync/mpmc.rs"],
        timeout_permille: 120,
    }
}

/// regression corpus of defect F4 (runs first in C07): one actor that only drops the last Sender, 2 or 3 receiver
/// actors that only call `recv()`; the seed picks the schedule. On the pinned tree about every second seed hangs.
pub fn build_f4(rng: &mut Rng, tier: u32) -> Built {
    let nr = 2 + rng.below(2) as usize;
    build_with(rng, tier, Some((1, nr)))
}
